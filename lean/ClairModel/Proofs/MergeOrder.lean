/-
  C01 — controller.MergeSR for arbitrary arrival orders of the coalescers' reports
  (the goroutines of `coalesce` append to `reports` in completion order), and the
  whiteout resolver on order-equivalent reports.  Core Lean only.
-/
import ClairModel.Proofs.LayerFS

namespace ClairModel.Coalesce
open ClairModel.LayerFS

/-! ### `for k, v := range ir.X { source.X[k] = v }` over a list of reports -/

section AsetFold
variable {α β : Type}

theorem foldl_aset_get (xs src : List (String × β)) (k : String) :
    (∃ v, (k, v) ∈ xs ∧ aget k (xs.foldl (fun m e => aset e.1 e.2 m) src) = some v) ∨
    ((∀ v, (k, v) ∉ xs) ∧ aget k (xs.foldl (fun m e => aset e.1 e.2 m) src) = aget k src) := by
  induction xs generalizing src with
  | nil => right; exact ⟨by simp, rfl⟩
  | cons x xs ih =>
    simp only [List.foldl_cons]
    rcases ih (aset x.1 x.2 src) with ⟨v, h1, h2⟩ | ⟨h1, h2⟩
    · left; exact ⟨v, List.mem_cons_of_mem _ h1, h2⟩
    · by_cases hk : x.1 = k
      · left
        refine ⟨x.2, by rw [← hk]; exact List.mem_cons_self, ?_⟩
        rw [h2, hk, aget_aset_self]
      · right
        refine ⟨?_, by rw [h2, aget_aset_ne hk]⟩
        intro v hv
        rcases List.mem_cons.1 hv with h | h
        · exact hk (by rw [← h])
        · exact h1 v h

/-- nested fold: one `aset` fold per report -/
def asetAll (g : α → List (String × β)) (rs : List α) (src : List (String × β)) : List (String × β) :=
  rs.foldl (fun m r => (g r).foldl (fun m e => aset e.1 e.2 m) m) src

theorem asetAll_get (g : α → List (String × β)) (rs : List α) (src : List (String × β)) (k : String) :
    (∃ r ∈ rs, ∃ v, (k, v) ∈ g r ∧ aget k (asetAll g rs src) = some v) ∨
    ((∀ r ∈ rs, ∀ v, (k, v) ∉ g r) ∧ aget k (asetAll g rs src) = aget k src) := by
  unfold asetAll
  induction rs generalizing src with
  | nil => right; exact ⟨by simp, rfl⟩
  | cons r rs ih =>
    simp only [List.foldl_cons]
    rcases ih ((g r).foldl (fun m e => aset e.1 e.2 m) src) with ⟨r', hr', v, h1, h2⟩ | ⟨h1, h2⟩
    · left; exact ⟨r', List.mem_cons_of_mem _ hr', v, h1, h2⟩
    · rcases foldl_aset_get (g r) src k with ⟨v, h3, h4⟩ | ⟨h3, h4⟩
      · left; exact ⟨r, List.mem_cons_self, v, h3, by rw [h2, h4]⟩
      · right
        refine ⟨?_, by rw [h2, h4]⟩
        intro r' hr' v hv
        rcases List.mem_cons.1 hr' with h | h
        · subst h; exact h3 v hv
        · exact h1 r' h v hv

/-- reports that agree wherever they share a key may be merged in any order -/
theorem asetAll_order (g : α → List (String × β)) (rs rs' : List α) (src : List (String × β))
    (hmem : ∀ r, r ∈ rs ↔ r ∈ rs')
    (hagree : ∀ a ∈ rs, ∀ b ∈ rs, ∀ k v v', (k, v) ∈ g a → (k, v') ∈ g b → v = v') (k : String) :
    aget k (asetAll g rs src) = aget k (asetAll g rs' src) := by
  rcases asetAll_get g rs src k with ⟨r, hr, v, h1, h2⟩ | ⟨h1, h2⟩ <;>
    rcases asetAll_get g rs' src k with ⟨r', hr', v', h3, h4⟩ | ⟨h3, h4⟩
  · rw [h2, h4, hagree r hr r' ((hmem r').2 hr') k v v' h1 h3]
  · exact absurd h1 (h3 r ((hmem r).1 hr) v)
  · exact absurd h3 (h1 r' ((hmem r').2 hr') v')
  · rw [h2, h4]

end AsetFold

/-! ### `source.Environments[k] = append(source.Environments[k], v...)` over a list of reports -/

section AappendFold
variable {α β : Type}

def hasKey (k : String) (m : List (String × List β)) : Bool := m.any fun e => e.1 = k

def valsAt (k : String) (m : List (String × List β)) : List β := m.flatMap fun e => if e.1 = k then e.2 else []

theorem hasKey_cons (k : String) (x : String × List β) (xs : List (String × List β)) :
    hasKey k (x :: xs) = (decide (x.1 = k) || hasKey k xs) := rfl

theorem valsAt_cons (k : String) (x : String × List β) (xs : List (String × List β)) :
    valsAt k (x :: xs) = (if x.1 = k then x.2 else []) ++ valsAt k xs := by
  simp [valsAt]

theorem foldl_aappend_get (xs src : List (String × List β)) (k : String) :
    aget k (xs.foldl (fun m e => aappend e.1 e.2 m) src) =
      if (aget k src).isSome || hasKey k xs then some ((aget k src).getD [] ++ valsAt k xs) else none := by
  induction xs generalizing src with
  | nil => cases h : aget k src <;> simp [hasKey, valsAt, h]
  | cons x xs ih =>
    simp only [List.foldl_cons]
    rw [ih, aget_aappend, hasKey_cons, valsAt_cons]
    by_cases hk : x.1 = k
    · subst hk; simp [List.append_assoc]
    · simp [hk]

theorem valsAt_nil {k : String} {m : List (String × List β)} (h : hasKey k m = false) : valsAt k m = [] := by
  induction m with
  | nil => rfl
  | cons e m ih =>
    rw [hasKey_cons, Bool.or_eq_false_iff, decide_eq_false_iff_not] at h
    rw [valsAt_cons, ih h.2, if_neg h.1]; rfl

def aappendAll (g : α → List (String × List β)) (rs : List α) (src : List (String × List β)) : List (String × List β) :=
  rs.foldl (fun m r => (g r).foldl (fun m e => aappend e.1 e.2 m) m) src

theorem aappendAll_get (g : α → List (String × List β)) (rs : List α) (src : List (String × List β)) (k : String) :
    aget k (aappendAll g rs src) =
      if (aget k src).isSome || rs.any (fun r => hasKey k (g r)) then
        some ((aget k src).getD [] ++ rs.flatMap fun r => valsAt k (g r))
      else none := by
  unfold aappendAll
  induction rs generalizing src with
  | nil => cases h : aget k src <;> simp [h]
  | cons r rs ih =>
    simp only [List.foldl_cons]
    rw [ih, foldl_aappend_get]
    cases h1 : aget k src with
    | some es => simp [List.append_assoc]
    | none =>
      by_cases h2 : hasKey k (g r) = true
      · simp [h2]
      · have h3 : valsAt k (g r) = [] := valsAt_nil (by simpa using h2)
        simp [h2, h3]

theorem any_perm {p : α → Bool} {l l' : List α} (h : l.Perm l') : l.any p = l'.any p := by
  cases ha : l.any p with
  | true =>
    obtain ⟨x, hx, hp⟩ := List.any_eq_true.1 ha
    exact (List.any_eq_true.2 ⟨x, h.mem_iff.1 hx, hp⟩).symm
  | false =>
    cases hb : l'.any p with
    | false => rfl
    | true =>
      obtain ⟨x, hx, hp⟩ := List.any_eq_true.1 hb
      rw [List.any_eq_true.2 ⟨x, h.mem_iff.2 hx, hp⟩] at ha
      exact ha.symm

/-- appending in another order permutes the appended lists -/
theorem aappendAll_order (g : α → List (String × List β)) (rs rs' : List α) (src : List (String × List β))
    (hp : rs.Perm rs') (k : String) :
    (aget k (aappendAll g rs src)).isSome = (aget k (aappendAll g rs' src)).isSome ∧
    ((aget k (aappendAll g rs src)).getD []).Perm ((aget k (aappendAll g rs' src)).getD []) := by
  rw [aappendAll_get, aappendAll_get, any_perm (p := fun r => hasKey k (g r)) hp]
  by_cases hc : ((aget k src).isSome || rs'.any fun r => hasKey k (g r)) = true
  · simp only [hc, if_true, Option.isSome_some, Option.getD_some, true_and]
    exact List.Perm.append_left _ (List.Perm.flatMap_right _ hp)
  · simp [hc]

end AappendFold

/-! ### MergeSR as five such folds -/

theorem mergeSR_fields (src : Report) (rs : List Report) :
    (mergeSR src rs).pkgs = asetAll (·.pkgs) rs src.pkgs ∧
    (mergeSR src rs).envs = aappendAll (·.envs) rs src.envs ∧
    (mergeSR src rs).dists = asetAll (·.dists) rs src.dists ∧
    (mergeSR src rs).repos = asetAll (·.repos) rs src.repos ∧
    (mergeSR src rs).files = asetAll (·.files) rs src.files := by
  unfold mergeSR asetAll aappendAll
  induction rs generalizing src with
  | nil => exact ⟨rfl, rfl, rfl, rfl, rfl⟩
  | cons r rs ih =>
    simp only [List.foldl_cons]
    obtain ⟨h1, h2, h3, h4, h5⟩ := ih (mergeOne src r)
    exact ⟨h1, h2, h3, h4, h5⟩

/-- Two reports show the same thing: the same package, distribution, repository and file under every key,
    and under every package id the same environments up to their order. -/
structure Report.Equiv (a b : Report) : Prop where
  pkgs : ∀ k, aget k a.pkgs = aget k b.pkgs
  dists : ∀ k, aget k a.dists = aget k b.dists
  repos : ∀ k, aget k a.repos = aget k b.repos
  files : ∀ k, aget k a.files = aget k b.files
  envs : ∀ k, (aget k a.envs).isSome = (aget k b.envs).isSome ∧ ((aget k a.envs).getD []).Perm ((aget k b.envs).getD [])

/-- The coalescers' reports agree wherever two of them (or one of them twice) store something under one key:
    the same `Package` under a package id, the same `Distribution`, `Repository`, `File`. -/
structure Compatible (rs : List Report) : Prop where
  pkgs : ∀ a ∈ rs, ∀ b ∈ rs, ∀ k v v', (k, v) ∈ a.pkgs → (k, v') ∈ b.pkgs → v = v'
  dists : ∀ a ∈ rs, ∀ b ∈ rs, ∀ k v v', (k, v) ∈ a.dists → (k, v') ∈ b.dists → v = v'
  repos : ∀ a ∈ rs, ∀ b ∈ rs, ∀ k v v', (k, v) ∈ a.repos → (k, v') ∈ b.repos → v = v'
  files : ∀ a ∈ rs, ∀ b ∈ rs, ∀ k v v', (k, v) ∈ a.files → (k, v') ∈ b.files → v = v'

theorem mergeSR_perm (src : Report) (rs rs' : List Report) (hp : rs.Perm rs') (hc : Compatible rs) :
    (mergeSR src rs).Equiv (mergeSR src rs') := by
  obtain ⟨a1, a2, a3, a4, a5⟩ := mergeSR_fields src rs
  obtain ⟨b1, b2, b3, b4, b5⟩ := mergeSR_fields src rs'
  have hmem : ∀ r, r ∈ rs ↔ r ∈ rs' := fun r => hp.mem_iff
  constructor
  · intro k; rw [a1, b1]; exact asetAll_order _ rs rs' _ hmem hc.pkgs k
  · intro k; rw [a3, b3]; exact asetAll_order _ rs rs' _ hmem hc.dists k
  · intro k; rw [a4, b4]; exact asetAll_order _ rs rs' _ hmem hc.repos k
  · intro k; rw [a5, b5]; exact asetAll_order _ rs rs' _ hmem hc.files k
  · intro k; rw [a2, b2]; exact aappendAll_order _ rs rs' _ hp k

/-! ### the resolver looks at a package's environments through the largest layer index only -/

def envMax (layers : List String) (es : List Env) : Nat := es.foldr (fun e m => max (sorterIdx layers e.intro) m) 0

theorem pkgLayer_idx (layers : List String) (es : List Env) (h : String) :
    sorterIdx layers (pkgLayer layers es h) = max (sorterIdx layers h) (envMax layers es) := by
  induction es generalizing h with
  | nil => simp [pkgLayer, envMax]
  | cons e es ih =>
    simp only [pkgLayer]
    by_cases hc : sorterIdx layers e.intro > sorterIdx layers h
    · simp only [hc, if_true]; rw [ih]; simp only [envMax, List.foldr_cons]; omega
    · simp only [hc, if_false]; rw [ih]; simp only [envMax, List.foldr_cons]; omega

theorem envMax_perm (layers : List String) {es es' : List Env} (h : es.Perm es') : envMax layers es = envMax layers es' := by
  induction h with
  | nil => rfl
  | cons x _ ih => simp only [envMax, List.foldr_cons] at ih ⊢; rw [ih]
  | swap x y l => simp only [envMax, List.foldr_cons]; omega
  | trans _ _ ih1 ih2 => exact ih1.trans ih2

theorem pkgDeleted_idx (layers : List String) (files : List (String × File)) (p : Pkg) (pl pl' : String)
    (h : sorterIdx layers pl = sorterIdx layers pl') : pkgDeleted layers files p pl = pkgDeleted layers files p pl' := by
  unfold pkgDeleted; rw [h]

theorem pkgDeleted_files (layers : List String) (f f' : List (String × File)) (hu : KeysUniq f) (hu' : KeysUniq f')
    (h : ∀ k, aget k f = aget k f') (p : Pkg) (pl : String) : pkgDeleted layers f p pl = pkgDeleted layers f' p pl := by
  have key : ∀ (g g' : List (String × File)), KeysUniq g → (∀ k, aget k g = aget k g') →
      pkgDeleted layers g p pl = true → pkgDeleted layers g' p pl = true := by
    intro g g' hg hgg hd
    unfold pkgDeleted at hd ⊢
    rw [List.any_eq_true] at hd ⊢
    obtain ⟨⟨k, x⟩, hm, hc⟩ := hd
    exact ⟨(k, x), mem_of_aget (by rw [← hgg k]; exact aget_of_mem_uniq hg hm), hc⟩
  cases h1 : pkgDeleted layers f p pl with
  | true => exact (key f f' hu h h1).symm
  | false =>
    cases h2 : pkgDeleted layers f' p pl with
    | false => rfl
    | true => rw [key f' f hu' (fun k => (h k).symm) h2] at h1; exact h1.symm

/-- the resolver's verdict is the same on order-equivalent reports -/
theorem delOf_equiv (layers : List String) {a b : Report} (h : a.Equiv b) (ua : KeysUniq a.files) (ub : KeysUniq b.files)
    (id : String) (p : Pkg) : delOf layers a id p = delOf layers b id p := by
  unfold delOf
  obtain ⟨hs, hperm⟩ := h.envs id
  cases ha : aget id a.envs with
  | none =>
    rw [ha] at hs
    cases hb : aget id b.envs with
    | none => rfl
    | some eb => rw [hb] at hs; simp at hs
  | some ea =>
    rw [ha] at hs hperm
    cases hb : aget id b.envs with
    | none => rw [hb] at hs; simp at hs
    | some eb =>
      rw [hb] at hperm
      simp only [Option.getD_some] at hperm
      cases ea with
      | nil =>
        have : eb = [] := List.Perm.eq_nil (hperm.symm)
        subst this; rfl
      | cons e0 es =>
        cases eb with
        | nil => exact absurd (List.Perm.eq_nil hperm) (by simp)
        | cons f0 fs =>
          simp only
          have hidx : sorterIdx layers (pkgLayer layers es e0.intro) = sorterIdx layers (pkgLayer layers fs f0.intro) := by
            rw [pkgLayer_idx, pkgLayer_idx]
            have := envMax_perm layers hperm
            simp only [envMax, List.foldr_cons] at this
            exact this
          rw [pkgDeleted_idx layers a.files p _ _ hidx]
          exact pkgDeleted_files layers a.files b.files ua ub h.files p _

/-- what `Resolve` keeps of the packages: exactly the ones it does not delete -/
theorem resolve_pkgs {S : Prop} {B : String → Env → Prop} (layers : List String) (ir r : Report)
    (hI : Inv S B ir) (hu : KeysUniq ir.pkgs) (h : resolve layers ir = some r) (id : String) :
    aget id r.pkgs = match aget id ir.pkgs with
      | some p => if delOf layers ir id p then none else some p
      | none => none := by
  unfold resolve at h
  cases hl : resolveLoop layers ir ir.pkgs {} with
  | none => simp [hl] at h
  | some fin =>
    simp only [hl, Option.some.injEq] at h
    subst h
    simp only
    cases hf : aget id fin.pkgs with
    | some p' =>
      rcases resolveLoop_from layers ir ir.pkgs {} fin hl id p' (mem_of_aget hf) with h3 | ⟨h3, h4⟩
      · simp at h3
      · rw [aget_of_mem_uniq hu h3]; simp [h4]
    | none =>
      cases hp : aget id ir.pkgs with
      | none => rfl
      | some p =>
        simp only
        cases hd : delOf layers ir id p with
        | true => rfl
        | false =>
          exfalso
          obtain ⟨_, es, hes, hne⟩ := hI.pkgEnv id p (mem_of_aget hp)
          have hex : ∃ e0 es', aget id ir.envs = some (e0 :: es') := by
            cases es with
            | nil => exact absurd rfl hne
            | cons e0 es' => exact ⟨e0, es', hes⟩
          have := (resolveLoop_keep layers ir ir.pkgs {} fin hl).2 id p (mem_of_aget hp) hex hd
          rw [hf] at this; simp at this

/-- what `Resolve` keeps of the environments -/
theorem resolve_envs {S : Prop} {B : String → Env → Prop} (layers : List String) (ir r : Report)
    (hI : Inv S B ir) (hu : KeysUniq ir.pkgs) (h : resolve layers ir = some r) (id : String) :
    aget id r.envs = match aget id ir.pkgs with
      | some p => if delOf layers ir id p then none else aget id ir.envs
      | none => none := by
  obtain ⟨e1, e2⟩ := resolve_exact layers ir r hI hu h id
  cases hp : aget id ir.pkgs with
  | none =>
    simp only
    cases hr : aget id r.envs with
    | none => rfl
    | some es => obtain ⟨_, p, hp', _⟩ := e1 es hr; rw [hp] at hp'; simp at hp'
  | some p =>
    simp only
    cases hd : delOf layers ir id p with
    | false => simp only [Bool.false_eq_true, if_false]; exact e2 p hp hd
    | true =>
      simp only [if_true]
      cases hr : aget id r.envs with
      | none => rfl
      | some es =>
        obtain ⟨_, p', hp', hd'⟩ := e1 es hr
        rw [hp] at hp'; cases hp'
        rw [hd] at hd'; simp at hd'

theorem resolve_equiv {S : Prop} {B B' : String → Env → Prop} (layers : List String) {a b ra rb : Report} (h : a.Equiv b)
    (ia : Inv S B a) (ib : Inv S B' b) (ua : Uniq a) (ub : Uniq b)
    (ha : resolve layers a = some ra) (hb : resolve layers b = some rb) : ra.Equiv rb := by
  obtain ⟨_, _, da, pa, fa, _⟩ := resolve_ok layers a ia
  obtain ⟨_, _, db, pb, fb, _⟩ := resolve_ok layers b ib
  have hra : ra.dists = a.dists ∧ ra.repos = a.repos ∧ ra.files = a.files := by
    unfold resolve at ha
    cases hl : resolveLoop layers a a.pkgs {} with
    | none => simp [hl] at ha
    | some fin => simp only [hl, Option.some.injEq] at ha; subst ha; exact ⟨rfl, rfl, rfl⟩
  have hrb : rb.dists = b.dists ∧ rb.repos = b.repos ∧ rb.files = b.files := by
    unfold resolve at hb
    cases hl : resolveLoop layers b b.pkgs {} with
    | none => simp [hl] at hb
    | some fin => simp only [hl, Option.some.injEq] at hb; subst hb; exact ⟨rfl, rfl, rfl⟩
  constructor
  · intro k
    rw [resolve_pkgs layers a ra ia ua.pkgs ha k, resolve_pkgs layers b rb ib ub.pkgs hb k, h.pkgs k]
    cases aget k b.pkgs with
    | none => rfl
    | some p => simp only; rw [delOf_equiv layers h ua.files ub.files k p]
  · intro k; rw [hra.1, hrb.1]; exact h.dists k
  · intro k; rw [hra.2.1, hrb.2.1]; exact h.repos k
  · intro k; rw [hra.2.2, hrb.2.2]; exact h.files k
  · intro k
    rw [resolve_envs layers a ra ia ua.pkgs ha k, resolve_envs layers b rb ib ub.pkgs hb k, h.pkgs k]
    cases aget k b.pkgs with
    | none => simp
    | some p =>
      simp only
      rw [delOf_equiv layers h ua.files ub.files k p]
      cases delOf layers b k p with
      | true => simp
      | false => simp only [Bool.false_eq_true, if_false]; exact h.envs k

/-! ### the whole coalesce step for any completion order of the coalescer goroutines -/

/-- the report of one ecosystem (no coalescer fails) -/
def repOf (ka : Kind × List Layer) : Report :=
  match coalesceKind ka.1 ka.2 with
  | .ok r => r
  | .error _ => {}

theorem coalesceAll_map (ecos : List (Kind × List Layer)) : coalesceAll ecos = some (ecos.map repOf) := by
  induction ecos with
  | nil => rfl
  | cons ka rest ih =>
    obtain ⟨k, arts⟩ := ka
    obtain ⟨r, hr, _⟩ := coalesceKind_ok (S := False) k arts (fun h => h.elim)
    simp [coalesceAll, ih, repOf, hr]

theorem index_order_independent (layers : List String) (ecos ecos' : List (Kind × List Layer))
    (hp : ecos.Perm ecos') (hc : Compatible (ecos.map repOf)) (r r' : Report)
    (h : indexCoalesce layers ecos = some r) (h' : indexCoalesce layers ecos' = some r') : r.Equiv r' := by
  unfold indexCoalesce at h h'
  rw [coalesceAll_map] at h h'
  simp only at h h'
  have hm := mergeSR_perm {} _ _ (hp.map repOf) hc
  have inv1 : Inv False (BackedAny ecos) (mergeSR {} (ecos.map repOf)) := by
    obtain ⟨rs, h1, h2⟩ := coalesceAll_ok (S := False) ecos (fun h => h.elim)
    rw [coalesceAll_map] at h1; cases h1
    exact inv_mergeSR _ {} (inv_of_nil rfl rfl) h2
  have inv2 : Inv False (BackedAny ecos') (mergeSR {} (ecos'.map repOf)) := by
    obtain ⟨rs, h1, h2⟩ := coalesceAll_ok (S := False) ecos' (fun h => h.elim)
    rw [coalesceAll_map] at h1; cases h1
    exact inv_mergeSR _ {} (inv_of_nil rfl rfl) h2
  exact resolve_equiv layers hm inv1 inv2 (uniq_mergeSR _ {} uniq_empty) (uniq_mergeSR _ {} uniq_empty) h h'

end ClairModel.Coalesce
