/-
  C19 — binding to a formatted string and unbinding it again.
-/
import ClairModel.Proofs.Cpe

namespace ClairModel.Cpe
open ClairModel.CpeTypes

/-! ### the replacer of bind.go as an escape-state scanner -/

theorem lookup_valueString (d : Nat) :
    lookupKey Gen.Cpe.valueString [92, d] =
      if d = 92 then some [92, 92] else if d = 46 then some [46] else if d = 45 then some [45]
      else if d = 95 then some [95] else none := by
  simp only [lookupKey, Gen.Cpe.valueString, List.find?]
  by_cases h1 : d = 92
  · subst h1; rfl
  by_cases h2 : d = 46
  · subst h2; rfl
  by_cases h3 : d = 45
  · subst h3; rfl
  by_cases h4 : d = 95
  · subst h4; rfl
  have e1 : (([92, 92] : Str) == [92, d]) = false := by simp [Ne.symm h1]
  have e2 : (([92, 46] : Str) == [92, d]) = false := by simp [Ne.symm h2]
  have e3 : (([92, 45] : Str) == [92, d]) = false := by simp [Ne.symm h3]
  have e4 : (([92, 95] : Str) == [92, d]) = false := by simp [Ne.symm h4]
  simp [e1, e2, e3, e4, h1, h2, h3, h4]

/-- What `bindVal` does, written as a scanner with the escape state `esc`:
    a quoted period, hyphen or underscore loses its backslash. -/
def bindE (esc : Bool) : Str → Str
  | [] => if esc then [92] else []
  | c :: rest =>
    if esc then
      (if c = 46 ∨ c = 45 ∨ c = 95 then [c] else [92, c]) ++ bindE false rest
    else if c = 92 then bindE true rest
    else c :: bindE false rest

theorem bindVal_cons_ne (c : Nat) (rest : Str) (h : c ≠ 92) : bindVal (c :: rest) = c :: bindVal rest := by
  cases rest with
  | nil => simp [bindVal]
  | cons d rest => simp [bindVal, h]

theorem bindVal_eq_bindE (s : Str) : bindVal s = bindE false s := by
  induction s using bindVal.induct with
  | case1 => rfl
  | case2 c =>
    by_cases h : c = 92
    · subst h; simp [bindVal, bindE]
    · simp [bindVal, bindE, h]
  | case3 d rest r hr ih =>
    -- key found
    rw [lookup_valueString] at hr
    simp only [bindVal, if_true, lookup_valueString]
    by_cases h1 : d = 92
    · subst h1; simp [bindE, ih]
    by_cases h2 : d = 46
    · subst h2; simp [bindE, ih]
    by_cases h3 : d = 45
    · subst h3; simp [bindE, ih]
    by_cases h4 : d = 95
    · subst h4; simp [bindE, ih]
    simp [h1, h2, h3, h4] at hr
  | case4 d rest hr ih =>
    rw [lookup_valueString] at hr
    have h1 : d ≠ 92 := by intro h; simp [h] at hr
    have h2 : d ≠ 46 := by intro h; simp [h] at hr
    have h3 : d ≠ 45 := by intro h; simp [h] at hr
    have h4 : d ≠ 95 := by intro h; simp [h] at hr
    rw [bindVal_cons_ne d rest h1] at ih
    simp only [bindVal, if_true, lookup_valueString, h1, h2, h3, h4, if_false]
    rw [bindVal_cons_ne d rest h1]
    have : bindE false (d :: rest) = d :: bindE false rest := by simp [bindE, h1]
    rw [this] at ih
    simp [bindE, h2, h3, h4]
    exact (List.cons.inj ih).2
  | case5 c d rest hc ih =>
    simp [bindVal, bindE, hc, ih]

/-! ### well-quoted value strings -/

/-- A character that may stand unquoted in a value string. -/
def plainOk (c : Nat) : Bool := !reserved c || c == 42 || c == 63

/-- `s` is a sequence of unquoted characters allowed unquoted and of quoted
    pairs `\c`, with no dangling backslash (scanner with escape state). -/
def wfqAux (esc : Bool) : Str → Bool
  | [] => !esc
  | c :: rest =>
    if esc then wfqAux false rest
    else if c = 92 then wfqAux true rest
    else plainOk c && wfqAux false rest

/-- No quoted underscore `\_`. -/
def nquAux (esc : Bool) : Str → Bool
  | [] => true
  | c :: rest =>
    if esc then c != 95 && nquAux false rest
    else if c = 92 then nquAux true rest
    else nquAux false rest

theorem unbind_bindE (e : Bool) (v : Str) (hw : wfqAux e v = true) (hn : nquAux e v = true) :
    unbindFSValAux false (bindE e v) = if e then 92 :: v else v := by
  induction v generalizing e with
  | nil => cases e <;> simp_all [wfqAux, bindE, unbindFSValAux]
  | cons c rest ih =>
    cases e with
    | true =>
      simp only [wfqAux, nquAux, if_true, Bool.and_eq_true, bne_iff_ne] at hw hn
      have ih' := ih false hw hn.2
      simp only [Bool.false_eq_true, if_false] at ih'
      simp only [bindE, if_true]
      by_cases h1 : c = 46
      · subst h1; simp [unbindFSValAux, reserved, ih']
      by_cases h2 : c = 45
      · subst h2; simp [unbindFSValAux, reserved, ih']
      have h3 : c ≠ 95 := hn.1
      simp only [h1, h2, h3, or_self, if_false, List.cons_append, List.nil_append]
      by_cases h92 : c = 92
      · subst h92; simp [unbindFSValAux, ih']
      by_cases hs : c = 42 ∨ c = 63
      · simp [unbindFSValAux, hs, ih']
      · simp [unbindFSValAux, h92, hs, ih']
    | false =>
      by_cases h92 : c = 92
      · subst h92
        simp only [wfqAux, nquAux, Bool.false_eq_true, if_false, if_true] at hw hn
        have ih' := ih true hw hn
        simp only [if_true] at ih'
        simp [bindE, ih']
      · simp only [wfqAux, nquAux, Bool.false_eq_true, if_false, h92, Bool.and_eq_true] at hw hn
        have ih' := ih false hw.2 hn
        simp only [Bool.false_eq_true, if_false] at ih'
        simp only [bindE, Bool.false_eq_true, if_false, h92]
        by_cases hs : c = 42 ∨ c = 63
        · simp [unbindFSValAux, h92, hs, ih']
        · have hr : reserved c = false := by
            have := hw.1
            simp only [plainOk, Bool.or_eq_true, Bool.not_eq_true', beq_iff_eq] at this
            rcases this with (h | h) | h
            · exact h
            · exact absurd (Or.inl h) hs
            · exact absurd (Or.inr h) hs
          simp [unbindFSValAux, h92, hs, hr, ih']

/-! ### splitting at unquoted colons -/

/-- Scanning `x` from escape state `e` meets no unquoted colon and ends
    outside a quoting. -/
def closedAux (e : Bool) : Str → Bool
  | [] => !e
  | c :: rest =>
    if c = 92 ∧ e = false then closedAux true rest
    else if c = 58 ∧ e = false then false
    else closedAux false rest

theorem consHead_cons (c : Nat) (h : Str) (t : List Str) : consHead c (h :: t) = (c :: h) :: t := rfl

theorem split_closed_append (e : Bool) (x rest : Str) (h : closedAux e x = true) :
    splitFSAux e (x ++ 58 :: rest) = x :: splitFSAux false rest := by
  induction x generalizing e with
  | nil =>
    cases e
    · simp [splitFSAux]
    · simp [closedAux] at h
  | cons c x ih =>
    simp only [closedAux] at h
    simp only [List.cons_append, splitFSAux]
    by_cases h1 : c = 92 ∧ e = false
    · simp only [h1, and_self, if_true] at h ⊢
      rw [ih true h, consHead_cons]
    · simp only [h1, if_false] at h ⊢
      by_cases h2 : c = 58 ∧ e = false
      · simp [h2] at h
      · simp only [h2, if_false] at h ⊢
        rw [ih false h, consHead_cons]

theorem split_closed (e : Bool) (x : Str) (h : closedAux e x = true) : splitFSAux e x = [x] := by
  induction x generalizing e with
  | nil => simp [splitFSAux]
  | cons c x ih =>
    simp only [closedAux] at h
    simp only [splitFSAux]
    by_cases h1 : c = 92 ∧ e = false
    · simp only [h1, and_self, if_true] at h ⊢
      rw [ih true h, consHead_cons]
    · simp only [h1, if_false] at h ⊢
      by_cases h2 : c = 58 ∧ e = false
      · simp [h2] at h
      · simp only [h2, if_false] at h ⊢
        rw [ih false h, consHead_cons]

theorem split_join (x : Str) (ys : List Str) (hx : closedAux false x = true)
    (hy : ∀ y ∈ ys, closedAux false y = true) :
    splitFSAux false (x ++ ys.flatMap fun y => 58 :: y) = x :: ys := by
  induction ys generalizing x with
  | nil => simpa using split_closed false x hx
  | cons y ys ih =>
    simp only [List.flatMap_cons, List.cons_append]
    rw [split_closed_append false x _ hx, ih y (hy y (by simp)) (fun z hz => hy z (by simp [hz]))]

theorem closed_bindE (e : Bool) (v : Str) (hw : wfqAux e v = true) : closedAux false (bindE e v) = true := by
  induction v generalizing e with
  | nil => cases e <;> simp_all [wfqAux, bindE, closedAux]
  | cons c rest ih =>
    cases e with
    | true =>
      simp only [wfqAux, if_true] at hw
      have ih' := ih false hw
      simp only [bindE, if_true]
      by_cases h : c = 46 ∨ c = 45 ∨ c = 95
      · have h92 : c ≠ 92 := by omega
        have h58 : c ≠ 58 := by omega
        simp [h, closedAux, h92, h58, ih']
      · simp [h, closedAux, ih']
    | false =>
      by_cases h92 : c = 92
      · subst h92
        simp only [wfqAux, Bool.false_eq_true, if_false, if_true] at hw
        simpa [bindE] using ih true hw
      · simp only [wfqAux, Bool.false_eq_true, if_false, h92, Bool.and_eq_true] at hw
        have h58 : c ≠ 58 := by
          intro h; subst h; simp [plainOk, reserved] at hw
        simp [bindE, h92, closedAux, h58, ih false hw.2]

theorem bindE_eq_nil (e : Bool) (v : Str) (h : bindE e v = []) : v = [] ∧ e = false := by
  cases v with
  | nil => cases e <;> simp_all [bindE]
  | cons c rest =>
    cases e with
    | true =>
      simp only [bindE, if_true] at h
      split at h <;> simp at h
    | false =>
      by_cases h92 : c = 92
      · subst h92
        simp only [bindE, Bool.false_eq_true, if_false, if_true] at h
        cases rest with
        | nil => simp [bindE] at h
        | cons d rest =>
          simp only [bindE, if_true] at h
          split at h <;> simp at h
      · simp [bindE, h92] at h

/-- The bound form of a set value is not one of the three reserved components. -/
theorem bindE_ne_logical (v : Str) (hw : wfqAux false v = true) (h0 : v ≠ []) (h1 : v ≠ [42])
    (h2 : v ≠ [92, 45]) : bindE false v ≠ [] ∧ bindE false v ≠ [45] ∧ bindE false v ≠ [42] := by
  cases v with
  | nil => exact absurd rfl h0
  | cons c rest =>
    by_cases h92 : c = 92
    · subst h92
      cases rest with
      | nil => simp [wfqAux] at hw
      | cons d rest =>
        simp only [bindE, Bool.false_eq_true, if_false, if_true]
        by_cases hd : d = 46 ∨ d = 45 ∨ d = 95
        · simp only [hd, if_true, List.cons_append, List.nil_append]
          refine ⟨by simp, ?_, ?_⟩
          · intro h
            have hd45 : d = 45 := (List.cons.inj h).1
            have hnil := bindE_eq_nil false rest (List.cons.inj h).2
            exact h2 (by rw [hd45, hnil.1])
          · intro h
            have : d = 42 := (List.cons.inj h).1
            omega
        · simp [hd]
    · simp only [wfqAux, Bool.false_eq_true, if_false, h92, Bool.and_eq_true] at hw
      simp only [bindE, Bool.false_eq_true, if_false, h92]
      refine ⟨by simp, ?_, ?_⟩
      · intro h
        have : c = 45 := (List.cons.inj h).1
        subst this
        simp [plainOk, reserved] at hw
      · intro h
        have hc : c = 42 := (List.cons.inj h).1
        have hnil := bindE_eq_nil false rest (List.cons.inj h).2
        exact h1 (by rw [hc, hnil.1])

/-! ### what `validate` guarantees -/

theorem vtail_esc (st : VSt) (c : Nat) (st' : VSt) (h : vtail st c = some st') : st'.esc = false := by
  unfold vtail at h
  split at h
  · split at h
    · cases h
    · cases h; rfl
  · cases h; rfl

theorem vscan_wfq (n i : Nat) (st : VSt) (s : Str) (h : vscan n i st s = true) : wfqAux st.esc s = true := by
  induction s generalizing i st with
  | nil => simpa [vscan, wfqAux] using h
  | cons c rest ih =>
    simp only [vscan] at h
    cases hs : vstep n i st c with
    | none => simp [hs] at h
    | some st' =>
      simp only [hs] at h
      have ih' := ih (i + 1) st' h
      cases he : st.esc with
      | true =>
        -- an escaped character: the next state is outside the quoting
        have : st'.esc = false := by
          unfold vstep at hs
          simp only [he, if_true] at hs
          split at hs
          · exact vtail_esc _ _ _ hs
          · split at hs
            · exact vtail_esc _ _ _ hs
            · split at hs
              · exact vtail_esc _ _ _ hs
              · simp at hs; exact vtail_esc _ _ _ hs
        simp only [wfqAux, if_true]
        rw [this] at ih'; exact ih'
      | false =>
        unfold vstep at hs
        simp only [he, Bool.false_eq_true, if_false] at hs
        by_cases h92 : c = 92
        · subst h92
          simp only [if_true] at hs
          cases hs
          simp only [wfqAux, Bool.false_eq_true, if_false, if_true]
          simpa using ih'
        · simp only [h92, if_false] at hs
          simp only [wfqAux, Bool.false_eq_true, if_false, h92, Bool.and_eq_true]
          by_cases h42 : c = 42
          · subst h42
            simp only [if_true] at hs
            split at hs
            · cases hs
            · have := vtail_esc _ _ _ hs
              rw [this] at ih'
              exact ⟨by simp [plainOk], ih'⟩
          · simp only [h42, if_false] at hs
            by_cases h63 : c = 63
            · subst h63
              simp only [if_true] at hs
              have := vtail_esc _ _ _ hs
              rw [this] at ih'
              exact ⟨by simp [plainOk], ih'⟩
            · simp only [h63, if_false, Bool.not_false, Bool.and_true] at hs
              split at hs
              · cases hs
              · rename_i hres
                have := vtail_esc _ _ _ hs
                rw [this] at ih'
                refine ⟨?_, ih'⟩
                simp only [Bool.not_eq_true] at hres
                simp [plainOk, hres]

theorem validate_wfq (s : Str) (h : validate s = true) : wfqAux false s = true := by
  simp only [validate, Bool.and_eq_true] at h
  exact vscan_wfq _ _ _ _ h.2

theorem validate_ne (s : Str) (h : validate s = true) : s ≠ [42] ∧ s ≠ [92, 45] := by
  simp only [validate, Bool.and_eq_true, bne_iff_ne, ne_eq] at h
  exact ⟨h.1.1.2, h.1.2⟩

/-! ### whole names -/

/-- What a formatted string can carry of a value: unset reads back as ANY and
    the string of a non-set value is dropped. -/
def normV (a : Value) : Value :=
  match a.kind with
  | .unset | .any => ⟨.any, []⟩
  | .na => ⟨.na, []⟩
  | .set => a

def norm (w : WFN) : WFN := w.map normV

/-- The hypothesis of the round trip on one value: a set value has no quoted
    underscore. -/
def bindable (a : Value) : Prop := a.kind = .set → nquAux false a.v = true

theorem closed_bindValue (a : Value) (hv : validate a.v = true) : closedAux false (bindValue a) = true := by
  rcases a with ⟨k, v⟩
  cases k
  · rfl
  · rfl
  · rfl
  · simp only [bindValue, bindVal_eq_bindE]
    exact closed_bindE false v (validate_wfq v hv)

theorem unbindFSAttr_bindValue (a : Value) (hv : validate a.v = true) (h0 : a.kind = .set → a.v ≠ [])
    (hb : bindable a) : unbindFSAttr (bindValue a) = normV a := by
  rcases a with ⟨k, v⟩
  cases k
  · rfl
  · rfl
  · rfl
  · have hw := validate_wfq v hv
    have hne := validate_ne v hv
    have hb' := hb rfl
    have h3 := bindE_ne_logical v hw (h0 rfl) hne.1 hne.2
    simp only [bindValue, bindVal_eq_bindE, unbindFSAttr, h3.1, h3.2.1, h3.2.2, if_false, normV,
      unbindFSVal]
    rw [unbind_bindE false v hw hb']
    rfl

theorem validate_nil : validate [] = true := by decide

theorem valid_attrOk (w : WFN) (h : valid w = .ok) : ∀ a ∈ w, attrOk a = true := by
  unfold valid at h
  split at h
  · cases h
  · rename_i hall
    simp only [Bool.not_eq_true, Bool.not_eq_false'] at hall
    intro a ha
    exact List.all_eq_true.1 hall a ha

theorem valid_all (w : WFN) (h : valid w = .ok) : ∀ a ∈ w, validate a.v = true := by
  intro a ha
  have := valid_attrOk w h a ha
  simp only [attrOk, Bool.and_eq_true] at this
  exact this.1

/-- A set value of a valid name is not the empty string. -/
theorem valid_set_ne_nil (w : WFN) (h : valid w = .ok) : ∀ a ∈ w, a.kind = .set → a.v ≠ [] := by
  intro a ha hk hv
  have := valid_attrOk w h a ha
  simp [attrOk, hk, hv] at this

theorem attrOk_normV (a : Value) (h : attrOk a = true) : attrOk (normV a) = true := by
  rcases a with ⟨k, v⟩
  cases k <;> simp_all [normV, attrOk, validate_nil]

theorem validate_normV (a : Value) (h : validate a.v = true) : validate (normV a).v = true := by
  rcases a with ⟨k, v⟩
  cases k <;> simp_all [normV, validate_nil]

theorem normV_kind_ne_unset (a : Value) : ((normV a).kind == Kind.unset) = false := by
  rcases a with ⟨k, v⟩
  cases k <;> rfl

theorem valid_norm (w : WFN) (h : valid w = .ok) (hne : w ≠ []) : valid (norm w) = .ok := by
  have hall := valid_attrOk w h
  cases w with
  | nil => exact absurd rfl hne
  | cons p w =>
    have h1 : (norm (p :: w)).all attrOk = true := by
      simp only [norm, List.all_map, List.all_eq_true]
      intro a ha
      exact attrOk_normV a (hall a ha)
    have h2 : (norm (p :: w)).all (fun a => a.kind == Kind.unset) = false := by
      simp [norm, normV_kind_ne_unset]
    unfold valid
    simp only [h1, h2, Bool.not_true, Bool.false_eq_true, if_false]
    -- the part attribute
    unfold valid at h
    split at h
    · cases h
    · split at h
      · cases h
      · simp only [List.head?_cons] at h
        simp only [norm, List.map_cons, List.head?_cons]
        rcases p with ⟨k, v⟩
        cases k <;> simp_all [normV]

/-- "cpe" and "2.3" -/
def segCpe : Str := [99, 112, 101]
def seg23 : Str := [50, 46, 51]

theorem bindFS_eq (w : WFN) :
    bindFS w = segCpe ++ (seg23 :: w.map bindValue).flatMap fun y => 58 :: y := by
  simp [bindFS, fsHead, segCpe, seg23, List.flatMap_map]

theorem unbindFS_bindFS (w : WFN) (hv : valid w = .ok) (hl : w.length = Gen.Cpe.numAttr)
    (hb : ∀ a ∈ w, bindable a) : unbindFS (bindFS w) = some (norm w) := by
  have hall := valid_all w hv
  have hne : w ≠ [] := by
    intro h; rw [h] at hl; simp [Gen.Cpe.numAttr] at hl
  have hsplit : splitFS (bindFS w) = segCpe :: seg23 :: w.map bindValue := by
    rw [bindFS_eq, splitFS]
    apply split_join
    · decide
    · intro y hy
      simp only [List.mem_cons, List.mem_map] at hy
      rcases hy with rfl | ⟨a, ha, rfl⟩
      · decide
      · exact closed_bindValue a (hall a ha)
  have hpre : Gen.Cpe.cpe23Prefix.isPrefixOf (bindFS w) = true := by
    cases w with
    | nil => exact absurd rfl hne
    | cons a w => simp [bindFS, fsHead, Gen.Cpe.cpe23Prefix, List.isPrefixOf]
  have hmap : (w.map bindValue).map unbindFSAttr = norm w := by
    simp only [List.map_map, norm]
    apply List.map_congr_left
    intro a ha
    exact unbindFSAttr_bindValue a (hall a ha) (valid_set_ne_nil w hv a ha) (hb a ha)
  unfold unbindFS
  simp only [hpre, Bool.not_true, Bool.false_eq_true, if_false, hsplit, List.drop_succ_cons, List.drop_zero,
    List.length_map, hl, Nat.lt_irrefl, Nat.sub_self, List.replicate_zero, List.append_nil, hmap,
    valid_norm w hv hne]

end ClairModel.Cpe
