/-
  Helper lemmas about the rpm header model (Model/RpmHeader.lean).
-/
import ClairModel.Model.RpmHeader

namespace ClairModel.RpmHeader
open ClairModel.Gen

/-- what `verifyInfo` establishes for an entry, `n` = size of the data arena -/
structure Bounded (n : Nat) (e : Entry) : Prop where
  off_nonneg : 0 ≤ e.offset
  off_le : e.offset ≤ (n : Int)
  count_pos : 1 ≤ e.count
  count_le : e.count ≤ n
  typ_lo : 1 ≤ e.typ
  typ_hi : e.typ ≤ 9
  aligned : e.offset.toNat % alignment e.typ = 0

theorem entryOK_bounded (isBDB tc : Bool) (n : Nat) (e : Entry) (h : entryOK isBDB tc n e = true) :
    Bounded n e := by
  unfold entryOK at h
  simp only [Rpm.typeChar, Rpm.typeI18nString, Bool.and_eq_true, decide_eq_true_eq, beq_iff_eq] at h
  obtain ⟨⟨⟨⟨⟨⟨⟨⟨h1, _⟩, h3⟩, h4⟩, h5⟩, h6⟩, h7⟩, h8⟩, _⟩ := h
  exact ⟨h1, h8, h5, h6, of_decide_eq_true h3, of_decide_eq_true h4, h7⟩

theorem loadArenas_size (b : Bytes) (t d : Nat) (h : loadArenas b = some (t, d)) :
    b.length = 8 + 16 * t + d ∧ 1 ≤ t := by
  unfold loadArenas at h
  split at h; · cases h
  split at h
  · rename_i hok
    injection h with h
    injection h with ht hd
    subst ht hd
    unfold arenasOK at hok
    simp only [Bool.and_eq_true, decide_eq_true_eq, beq_iff_eq, bne_iff_ne, ne_eq] at hok
    omega
  · cases h

theorem be32_lt (b : Bytes) (off : Nat) : be32 b off < two32 := by
  unfold be32
  split
  · rename_i x0 x1 x2 x3 _ _
    have := x0.toNat_lt; have := x1.toNat_lt; have := x2.toNat_lt; have := x3.toNat_lt
    simp only [two32]
    omega
  · simp [two32]

theorem toInt32_lt (n : Nat) (h : n < two32) : toInt32 n < (two31 : Int) := by
  unfold toInt32
  by_cases hn : n ≥ two31
  · rw [if_pos hn]; simp only [two31, two32] at *; omega
  · rw [if_neg hn]; simp only [two31, two32] at *; omega

theorem parseEntry_offset_lt (b : Bytes) (off : Nat) : (parseEntry b off).offset < (two31 : Int) :=
  toInt32_lt _ (be32_lt _ _)

theorem verifyRegion_ok (r : Entry) (t : Nat) (data : Bytes) (rt : Int) (hr : r.offset < (two31 : Int))
    (h : verifyRegion r t data = .ok rt) :
    r.typ = 7 ∧ r.count = 16 ∧ 0 ≤ r.offset ∧ r.offset + 16 ≤ (data.length : Int) ∧ rt = r.tag
      ∧ isRegionTag r.tag = true := by
  unfold verifyRegion at h
  split at h; · cases h
  rename_i hrt
  split at h
  · rename_i hok
    injection h with h
    simp only [Bool.and_eq_true] at hok
    obtain ⟨hf, _⟩ := hok
    unfold regionFieldsOK at hf
    simp only [Rpm.typeBin, Bool.and_eq_true, decide_eq_true_eq, beq_iff_eq] at hf
    obtain ⟨⟨⟨⟨⟨h1, h2⟩, h3⟩, h4⟩, h5⟩, h6⟩ := hf
    refine ⟨h1, h2, h5, ?_, h.symm, by simpa using hrt⟩
    unfold wrap32 at h3 h4
    simp only [two31, two32] at *
    omega
  · cases h

/-- All entries of an accepted header (all but the region entry, which
    `verifyRegion` checks separately) are `Bounded` by the size of the data
    arena; the region entry is a 16-byte BIN value inside the arena. -/
theorem parse_bounds (b : Bytes) (h : Header) (hp : parse b = some h) :
    (h.region = 0 → ∀ e ∈ h.entries, Bounded h.data.length e) ∧
    (h.region ≠ 0 → ∃ e0 rest, h.entries = e0 :: rest ∧ e0.typ = 7 ∧ e0.count = 16 ∧ 0 ≤ e0.offset ∧
        e0.offset + 16 ≤ (h.data.length : Int) ∧ ∀ e ∈ rest, Bounded h.data.length e) := by
  unfold parse at hp
  split at hp; · cases hp
  rename_i tagsCt dataSz hla
  obtain ⟨hlen, _⟩ := loadArenas_size b tagsCt dataSz hla
  have hdl : ((b.drop (8 + 16 * tagsCt)).take dataSz).length = dataSz := by
    simp only [List.length_take, List.length_drop]; omega
  simp only at hp
  split at hp; · cases hp
  rename_i e0 rest hents
  split at hp
  · cases hp
  · -- no region
    split at hp
    · rename_i hall
      injection hp with hp
      subst hp
      simp only [hdl]
      refine ⟨fun _ e he => ?_, fun hne => absurd rfl hne⟩
      exact entryOK_bounded _ _ _ _ (List.all_eq_true.1 hall e he)
    · cases hp
  · rename_i rt hvr
    split at hp
    · rename_i hall
      injection hp with hp
      subst hp
      simp only [hdl]
      have he0 : e0 = parseEntry b 8 := by
        have : (entriesOf b tagsCt).head? = some e0 := by rw [hents]; rfl
        unfold entriesOf at this
        cases tagsCt with
        | zero => omega
        | succ k =>
          simp only [List.range_succ_eq_map, List.map_cons, List.head?_cons, Option.some.injEq] at this
          exact this.symm
      obtain ⟨h1, h2, h3, h4, h5, h6⟩ := verifyRegion_ok _ _ _ _ (he0 ▸ parseEntry_offset_lt b 8) hvr
      rw [hdl] at h4
      refine ⟨fun h0 => ?_, fun _ => ⟨e0, rest, hents, h1, h2, h3, h4, fun e he => ?_⟩⟩
      · -- a region tag is never 0
        exfalso
        subst h5
        simp [isRegionTag, Rpm.tagHeaderSignatures, Rpm.tagHeaderImmutable, Rpm.tagHeaderImage, h0] at h6
      · exact entryOK_bounded _ _ _ _ (List.all_eq_true.1 hall e he)
    · cases hp

theorem parse_count_pos (b : Bytes) (h : Header) (hp : parse b = some h) : ∀ e ∈ h.entries, 1 ≤ e.count := by
  obtain ⟨h1, h2⟩ := parse_bounds b h hp
  intro e he
  by_cases hr : h.region = 0
  · exact (h1 hr e he).count_pos
  · obtain ⟨e0, rest, hes, _, hc, _, _, hb⟩ := h2 hr
    rw [hes] at he
    rcases List.mem_cons.1 he with rfl | he
    · omega
    · exact (hb e he).count_pos

/-! ### ReadData -/

theorem padTo_length (n : Nat) (ss : List Bytes) : (padTo n ss).length = n := by
  simp only [padTo, List.length_append, List.length_take, List.length_replicate]
  omega

theorem readData_i32s_length (data : Bytes) (e : Entry) (vs : List Int)
    (h : readData data e = some (.i32s vs)) : vs.length = e.count := by
  unfold readData at h
  simp only at h
  repeat' split at h
  all_goals cases h
  all_goals simp

theorem readData_strs_length (data : Bytes) (e : Entry) (ss : List Bytes)
    (h : readData data e = some (.strs ss)) : ss.length = e.count := by
  unfold readData at h
  simp only at h
  repeat' split at h
  all_goals cases h
  all_goals exact padTo_length _ _

/-- bytes requested by ReadData's `make` calls: at most 16 per counted item -/
theorem allocOf_le (n : Nat) (e : Entry) (hb : Bounded n e) : allocOf e ≤ 16 * n := by
  have := hb.count_le
  unfold allocOf
  repeat' split
  all_goals omega

/-! ### Info.Load -/

theorem assign_no_panic (tag : Int) (v : Val) (i : Info)
    (hi : ∀ vs, v = .i32s vs → vs ≠ []) (hs : ∀ ss, v = .strs ss → ss ≠ []) :
    assign true tag v i ≠ .panic := by
  unfold assign
  cases v with
  | str s => simp only; repeat' split
             all_goals simp_all
  | i32s vs =>
    have := hi vs rfl
    cases vs with
    | nil => exact absurd rfl this
    | cons x xs => simp only; repeat' split
                   all_goals simp_all
  | strs ss =>
    have := hs ss rfl
    cases ss with
    | nil => exact absurd rfl this
    | cons x xs => simp only; repeat' split
                   all_goals simp_all
  | bytes b => simp only; split <;> simp
  | i8s n => simp
  | i16s n => simp
  | u64s n => simp

theorem loadEntry_no_panic (asserts : Asserts) (data : Bytes) (e : Entry) (i : Info)
    (hchk : ∀ a ∈ asserts, a.2.2 = true) (hc : 1 ≤ e.count) :
    loadEntry asserts true data e i ≠ .panic := by
  unfold loadEntry
  split
  · simp
  · split
    · simp
    · rename_i v hv
      split
      · simp
      · rename_i t ty checked hf
        have hmem := List.mem_of_find?_eq_some hf
        have hck : checked = true := hchk _ hmem
        subst hck
        split
        · apply assign_no_panic
          · intro vs hvs; subst hvs
            have := readData_i32s_length _ _ _ hv
            intro h0; subst h0; simp at this; omega
          · intro ss hss; subst hss
            have := readData_strs_length _ _ _ hv
            intro h0; subst h0; simp at this; omega
        · simp

theorem loadLoop_no_panic (asserts : Asserts) (data : Bytes) (hchk : ∀ a ∈ asserts, a.2.2 = true) :
    ∀ (es : List Entry) (i : Info), (∀ e ∈ es, 1 ≤ e.count) → loadLoop asserts true data es i ≠ .panic := by
  intro es
  induction es with
  | nil => intro i _; simp [loadLoop]
  | cons e es ih =>
    intro i hc
    unfold loadLoop
    have h1 := loadEntry_no_panic asserts data e i hchk (hc e (List.mem_cons_self))
    split
    · exact ih _ (fun e' he' => hc e' (List.mem_cons_of_mem _ he'))
    · simp
    · rename_i hp; exact absurd hp h1

end ClairModel.RpmHeader
