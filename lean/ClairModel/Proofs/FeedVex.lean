/-
  C14 — helper lemmas for the VEX model (Model/FeedVex.lean): grouping of the
  `fixed` products by package key, relationships, known_affected.
-/
import ClairModel.Model.FeedVex

namespace ClairModel.Feeds

/-! ### grouping products by key -/

/-- The arches of the products with key `k`, in order. -/
def archesOf (k : String) (ps : List FxProd) : List String := (ps.filter (·.key = k)).map (·.arch)

/-- One step of the `fixed` loop for a product that resolves, has an arch and whose fresh entry is kept. -/
def grpStep (mk : FxProd → FxEntry) (es : List FxEntry) (p : FxProd) : List FxEntry :=
  if es.any (fun e => e.key == p.key) then replaceEntry es p.key (fun e => appArch e p.arch) else es ++ [mk p]

/-- What the loop should produce: one entry per distinct key, in order of first
    occurrence, the fresh entry of the first product with that key, the arches
    of the later ones appended. -/
def grpSpec (mk : FxProd → FxEntry) : List FxProd → List FxEntry
  | [] => []
  | p :: rest => (archesOf p.key rest).foldl appArch (mk p) :: grpSpec mk (rest.filter (·.key ≠ p.key))
termination_by l => l.length
decreasing_by
  simp
  exact Nat.lt_succ_of_le (Nat.le_trans (List.length_filter_le _ _) (by simp))

theorem appArch_key (e : FxEntry) (a : String) : (appArch e a).key = e.key := rfl

theorem foldl_appArch_key (as : List String) (e : FxEntry) : (as.foldl appArch e).key = e.key := by
  induction as generalizing e with
  | nil => rfl
  | cons a as ih => simp [List.foldl_cons, ih, appArch_key]

theorem grpLoop_eq (mk : FxProd → FxEntry) (hmk : ∀ p, (mk p).key = p.key) :
    ∀ (ps : List FxProd) (es : List FxEntry),
      ps.foldl (grpStep mk) es =
        es.map (fun e => (archesOf e.key ps).foldl appArch e) ++
          grpSpec mk (ps.filter fun p => !es.any (fun e => e.key == p.key))
  | [], es => by simp [archesOf, grpSpec]
  | p :: rest, es => by
    rw [List.foldl_cons, grpLoop_eq mk hmk rest]
    unfold grpStep
    by_cases h : es.any (fun e => e.key == p.key) = true
    · rw [if_pos h]
      have hk : (replaceEntry es p.key fun e => appArch e p.arch).map (·.key) = es.map (·.key) := by
        unfold replaceEntry
        rw [List.map_map]
        apply List.map_congr_left
        intro e _
        simp only [Function.comp]
        split <;> simp [appArch_key]
      have hany : ∀ q : FxProd, (replaceEntry es p.key fun e => appArch e p.arch).any (fun e => e.key == q.key) = es.any (fun e => e.key == q.key) := by
        intro q
        have : ∀ l : List FxEntry, l.any (fun e => e.key == q.key) = (l.map (·.key)).any (fun k => k == q.key) := by
          intro l; simp [List.any_map, Function.comp_def]
        rw [this, this es, hk]
      simp only [hany]
      congr 1
      · unfold replaceEntry
        rw [List.map_map]
        apply List.map_congr_left
        intro e _
        simp only [Function.comp]
        by_cases he : e.key = p.key
        · simp [he, archesOf, appArch_key]
        · have : (p.key = e.key) = False := by simp; exact fun h' => he h'.symm
          simp [he, archesOf, this]
      · simp [h]
    · rw [if_neg h]
      have h' : es.any (fun e => e.key == p.key) = false := by simpa using h
      rw [List.map_append, List.append_assoc]
      congr 1
      · apply List.map_congr_left
        intro e he
        have hne : e.key ≠ p.key := by
          intro heq
          have : es.any (fun e => e.key == p.key) = true := List.any_eq_true.2 ⟨e, he, by simp [heq]⟩
          rw [h'] at this; cases this
        have : (p.key = e.key) = False := by simp; exact fun h'' => hne h''.symm
        simp [archesOf, this]
      · simp only [List.map_cons, List.map_nil, List.filter_cons, h', Bool.not_false, if_true]
        rw [grpSpec]
        simp only [List.singleton_append]
        congr 1
        · -- the arches appended to the new entry
          rw [hmk]
          congr 1
          simp only [archesOf, List.filter_filter]
          congr 1
          apply List.filter_congr
          intro q _
          by_cases hq : q.key = p.key
          · simp [hq, h']
          · simp [hq]
        · congr 1
          rw [List.filter_filter]
          apply List.filter_congr
          intro q _
          simp only [List.any_append, List.any_cons, List.any_nil, Bool.or_false, hmk]
          by_cases hq : q.key = p.key
          · simp [hq, h']
          · have : (p.key == q.key) = false := by simp; exact fun h'' => hq h''.symm
            simp [hq, this]


/-! ### the `fixed` loop as a grouping -/

/-- The entry a product gets when its key is new (as `applyFixed` builds it from the prototype). -/
def freshEntry (env : VexEnv) (d : VexDoc) (proto : Vuln) (p : FxProd) : FxEntry :=
  match applyFixed env d p { key := p.key, v := proto } 0 with
  | .done v rid _ _ => { key := p.key, v := v, rangeId := rid }
  | .err => { key := p.key, v := proto }

theorem freshEntry_key (env : VexEnv) (d : VexDoc) (proto : Vuln) (p : FxProd) :
    (freshEntry env d proto p).key = p.key := by
  unfold freshEntry
  split <;> rfl

/-- For an rpm product `applyFixed` does not involve the ranger. -/
theorem applyFixed_rpm (env : VexEnv) (d : VexDoc) (p : FxProd) (base : FxEntry) (n : Nat) (h : p.purlType = "rpm") :
    applyFixed env d p base n = applyFixed env d p base 0 := by
  simp [applyFixed, h]

/-- A product of the well-behaved kind: an rpm with an arch whose fresh entry is
    kept (its CPE unbinds, its score parses, it is not disregarded). -/
def GoodFixed (env : VexEnv) (d : VexDoc) (proto : Vuln) (p : FxProd) : Prop :=
  p.arch ≠ "" ∧ p.purlType = "rpm" ∧
    ∃ v rid, applyFixed env d p { key := p.key, v := proto } 0 = .done v rid true none

theorem fixedLoop_grp (env : VexEnv) (d : VexDoc) (proto : Vuln) :
    ∀ (pids : List String) (st : FxState),
      (∀ pid ∈ pids, ∀ p, resolveFixed d pid = some p → GoodFixed env d proto p) →
      ∃ st', fixedLoop env d proto st pids = some st' ∧
        st'.entries = (pids.filterMap (resolveFixed d)).foldl (grpStep (freshEntry env d proto)) st.entries ∧
        st'.adds = st.adds
  | [], st, _ => ⟨st, rfl, rfl, rfl⟩
  | pid :: rest, st, H => by
    have Hrest : ∀ pid' ∈ rest, ∀ p, resolveFixed d pid' = some p → GoodFixed env d proto p :=
      fun pid' h' => H pid' (List.mem_cons_of_mem _ h')
    simp only [fixedLoop, fixedOne]
    cases hr : resolveFixed d pid with
    | none =>
      simp only [List.filterMap_cons, hr]
      exact fixedLoop_grp env d proto rest st Hrest
    | some p =>
      obtain ⟨harch, hrpm, v, rid, hfresh⟩ := H pid (List.mem_cons_self ..) p hr
      simp only [List.filterMap_cons, hr, List.foldl_cons]
      cases hf : st.entries.find? (fun e => e.key == p.key) with
      | some e =>
        have hany : st.entries.any (fun e => e.key == p.key) = true := by
          rw [List.any_eq_true]
          exact ⟨e, List.mem_of_find?_eq_some hf, by have := List.find?_some hf; simpa using this⟩
        simp only [if_pos harch]
        obtain ⟨st', h1, h2, h3⟩ := fixedLoop_grp env d proto rest
          { st with entries := replaceEntry st.entries p.key fun e => appArch e p.arch } Hrest
        refine ⟨st', h1, ?_, h3⟩
        rw [h2]
        simp [grpStep, hany]
      | none =>
        have hany : st.entries.any (fun e => e.key == p.key) = false := by
          rw [List.find?_eq_none] at hf
          rw [List.any_eq_false]
          exact hf
        have hap : applyFixed env d p { key := p.key, v := proto } st.nextId = .done v rid true none := by
          rw [applyFixed_rpm env d p _ _ hrpm, hfresh]
        simp only [hap]
        obtain ⟨st', h1, h2, h3⟩ := fixedLoop_grp env d proto rest
          { entries := st.entries ++ [{ key := p.key, v := v, rangeId := rid }], adds := st.adds ++ (none : Option RangerAdd).toList,
            nextId := st.nextId + 1 } Hrest
        refine ⟨st', by simpa using h1, ?_, by simpa using h3⟩
        rw [h2]
        simp [grpStep, hany, freshEntry, hfresh]

theorem resetLowest_noAdds (st : FxState) (h : st.adds = []) : (resetLowest st).entries = st.entries := by
  unfold resetLowest
  simp only [h, lowestAdds, List.map_nil]
  conv => rhs; rw [← List.map_id st.entries]
  apply List.map_congr_left
  intro e _
  cases e.rangeId <;> cases e.v.range <;> simp


/-! ### relationships -/

theorem findRel_length {rels : List VexRel} {pid : String} {r : VexRel} (h : findRel rels pid = some r) : 1 ≤ rels.length := by
  cases rels with
  | nil => simp [findRel] at h
  | cons _ _ => simp

/-- package as a component of a repository. -/
theorem walkRels_two (rels : List VexRel) (pid c r : String) (cat : String)
    (h : findRel rels pid = some ⟨cat, pid, c, r⟩) (hc : findRel rels c = none) (hr : findRel rels r = none) :
    walkRels rels pid = some (c, "", r) := by
  unfold walkRels
  simp [h, extractNames, hc, hr]

/-- package as a component of (module as a component of a repository). -/
theorem walkRels_three (rels : List VexRel) (pid c rm m r : String) (cat cat' : String)
    (h : findRel rels pid = some ⟨cat, pid, c, rm⟩) (hc : findRel rels c = none)
    (hrm : findRel rels rm = some ⟨cat', rm, m, r⟩) (hm : findRel rels m = none) (hr : findRel rels r = none) :
    walkRels rels pid = some (c, m, r) := by
  unfold walkRels
  have hl := findRel_length h
  obtain ⟨k, hk⟩ : ∃ k, rels.length = k + 1 := ⟨rels.length - 1, by omega⟩
  simp [h, hk, extractNames, hc, hrm, hm, hr]

/-! ### known_affected -/

def Step.toOption {α : Type} : Step α → Option α
  | .emit a => some a
  | _ => none

theorem knownAffected_eq (env : VexEnv) (d : VexDoc) (proto : Vuln) :
    ∀ (pids : List String), (∀ pid ∈ pids, ∀ (_ : knownOne env d proto pid = .err), False) →
      knownAffected env d proto pids = some (pids.filterMap fun pid => (knownOne env d proto pid).toOption)
  | [], _ => rfl
  | pid :: rest, H => by
    have ih := knownAffected_eq env d proto rest (fun p hp => H p (List.mem_cons_of_mem _ hp))
    simp only [knownAffected, List.filterMap_cons]
    cases hk : knownOne env d proto pid with
    | err => exact absurd hk (fun h => H pid (List.mem_cons_self ..) h)
    | skip => simpa [Step.toOption] using ih
    | emit v => simp [Step.toOption, ih]

/-! ### what the tail of the `fixed` loop body touches -/

theorem applyScore_frame (env : VexEnv) (d : VexDoc) (pid : String) (v w : Vuln) (k : Bool)
    (h : applyScore env d pid v = some (w, k)) : w = { v with sev := w.sev, nsev := w.nsev } := by
  unfold applyScore at h
  cases hs : findScore d pid with
  | none =>
    simp only [hs] at h
    cases hi : findImpact d pid with
    | none => simp only [hi] at h; cases h; rfl
    | some t => simp only [hi] at h; cases h; rfl
  | some s =>
    simp only [hs] at h
    cases hv : scoreVector s with
    | none => simp [hv] at h
    | some vec =>
      simp only [hv, Option.map_some] at h
      cases hi : findImpact d pid with
      | none =>
        simp only [hi] at h
        split at h <;> (cases h; rfl)
      | some t => simp only [hi] at h; cases h; rfl



theorem finishFixed_frame (env : VexEnv) (d : VexDoc) (pid : String) (v2 v : Vuln) (r rid : Option Nat) (a add : Option RangerAdd) (keep : Bool)
    (h : finishFixed env d pid v2 r a = .done v rid keep add) :
    ∃ lnk, v = { v2 with links := lnk, sev := v.sev, nsev := v.nsev } := by
  unfold finishFixed at h
  simp only at h
  split at h
  · cases h
  · rename_i w k hsc
    cases h
    have := applyScore_frame env d pid _ _ _ hsc
    cases hrem : findRemediation d pid with
    | none => rw [hrem] at this; exact ⟨v2.links, this⟩
    | some rm => rw [hrem] at this; exact ⟨v2.links ++ " " ++ rm.url, this⟩


end ClairModel.Feeds
