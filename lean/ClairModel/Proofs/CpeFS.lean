/-
  C19 — every formatted string of the specification's grammar is accepted by
  `UnbindFS`, and the name it unbinds to binds back to the same string.
-/
import ClairModel.Proofs.CpeBind
import ClairModel.Proofs.CpeGrammar

namespace ClairModel.Cpe
open ClairModel.CpeTypes ClairModel.CpeSpec

/-! ### scanners over concatenations -/

theorem closedAux_append (e : Bool) (x y : Str) (hx : closedAux e x = true) (hy : closedAux false y = true) :
    closedAux e (x ++ y) = true := by
  induction x generalizing e with
  | nil =>
    cases e
    · simpa using hy
    · simp [closedAux] at hx
  | cons c x ih =>
    simp only [closedAux] at hx
    simp only [List.cons_append, closedAux]
    by_cases h1 : c = 92 ∧ e = false
    · simp only [h1, and_self, if_true] at hx ⊢
      exact ih true hx
    · simp only [h1, if_false] at hx ⊢
      by_cases h2 : c = 58 ∧ e = false
      · simp [h2] at hx
      · simp only [h2, if_false] at hx ⊢
        exact ih false hx

theorem closed_leadStr (w : Option Nat) : closedAux false (leadStr w) = true := by
  cases w with
  | none => decide
  | some n =>
    induction n with
    | zero => rfl
    | succ n ih => simpa [leadStr, List.replicate_succ, closedAux] using ih

theorem fsUnreserved_cases (c : Nat) (h : fsUnreservedC c = true) :
    (reserved c = false) ∨ c = 45 ∨ c = 46 := by
  simp only [fsUnreservedC, Bool.or_eq_true, beq_iff_eq] at h
  rcases h with (h | h) | h
  · left; rw [unreserved_iff] at h; simpa using h
  · right; left; exact h
  · right; right; exact h

theorem closed_fsBody (e : Bool) (b : Str) (h : fsBodyStr e b = true) : closedAux e b = true := by
  induction b generalizing e with
  | nil => simpa [fsBodyStr, closedAux] using h
  | cons c b ih =>
    cases e with
    | true =>
      simp only [fsBodyStr, if_true, Bool.and_eq_true] at h
      simp [closedAux, ih false h.2]
    | false =>
      simp only [fsBodyStr, Bool.false_eq_true, if_false] at h
      by_cases h92 : c = 92
      · subst h92
        simp only [if_true] at h
        simp [closedAux, ih true h]
      · simp only [h92, if_false, Bool.and_eq_true] at h
        have h58 : c ≠ 58 := by
          intro hc; subst hc
          rcases fsUnreserved_cases 58 h.1 with h' | h' | h' <;> simp [reserved] at h'
        simp [closedAux, h92, h58, ih false h.2]

theorem closed_avString (c : Str) (h : AvString c) : closedAux false c = true := by
  rcases h with rfl | rfl | ⟨l, body, r, rfl, _, hb⟩
  · decide
  · decide
  · exact closedAux_append false _ _ (closedAux_append false _ _ (closed_leadStr l) (closed_fsBody false body hb))
      (closed_leadStr r)

theorem unbind_leadStr_append (w : Option Nat) (y : Str) :
    unbindFSValAux false (leadStr w ++ y) = leadStr w ++ unbindFSValAux false y := by
  cases w with
  | none => simp [leadStr, unbindFSValAux]
  | some n =>
    induction n with
    | zero => simp [leadStr]
    | succ n ih =>
      simp only [leadStr, List.replicate_succ, List.cons_append] at ih ⊢
      simp [unbindFSValAux, ih]

theorem unbind_body_append (e : Bool) (b y : Str) (h : fsBodyStr e b = true) :
    unbindFSValAux e (b ++ y) = unbindFSValAux e b ++ unbindFSValAux false y := by
  induction b generalizing e with
  | nil =>
    cases e
    · simp [unbindFSValAux]
    · simp [fsBodyStr] at h
  | cons c b ih =>
    cases e with
    | true =>
      simp only [fsBodyStr, if_true, Bool.and_eq_true] at h
      simp only [List.cons_append, unbindFSValAux]
      have : ¬(c = 92 ∧ true = false) := by simp
      simp only [this, if_false, ih false h.2]
      split <;> simp
    | false =>
      simp only [fsBodyStr, Bool.false_eq_true, if_false] at h
      by_cases h92 : c = 92
      · subst h92
        simp only [if_true] at h
        simp [unbindFSValAux, ih true h]
      · simp only [h92, if_false, Bool.and_eq_true] at h
        simp only [List.cons_append, unbindFSValAux, h92, false_and, if_false, ih false h.2]
        split
        · simp
        · split <;> simp

/-! ### the body of an avstring, unbound -/

theorem bodyStr_unbind (e : Bool) (b : Str) (h : fsBodyStr e b = true) :
    bodyStr e (unbindFSValAux e b) = true := by
  induction b generalizing e with
  | nil => simpa [fsBodyStr, unbindFSValAux, bodyStr] using h
  | cons c b ih =>
    cases e with
    | true =>
      simp only [fsBodyStr, if_true, Bool.and_eq_true] at h
      have : ¬(c = 92 ∧ true = false) := by simp
      simp only [unbindFSValAux, this, if_false]
      split
      · simpa [bodyStr] using ih false h.2
      · simpa [bodyStr] using ih false h.2
    | false =>
      simp only [fsBodyStr, Bool.false_eq_true, if_false] at h
      by_cases h92 : c = 92
      · subst h92
        simp only [if_true] at h
        simpa [unbindFSValAux, bodyStr] using ih true h
      · simp only [h92, if_false, Bool.and_eq_true] at h
        have ih' := ih false h.2
        rcases fsUnreserved_cases c h.1 with hres | h45 | h46
        · have h42 : c ≠ 42 := by intro hc; subst hc; simp [reserved] at hres
          have h63 : c ≠ 63 := by intro hc; subst hc; simp [reserved] at hres
          have hu : unreservedC c = true := by rw [unreserved_iff, hres]; rfl
          simp [unbindFSValAux, h92, h42, h63, hres, bodyStr, hu, ih']
        · subst h45; simp [unbindFSValAux, reserved, bodyStr, ih']
        · subst h46; simp [unbindFSValAux, reserved, bodyStr, ih']

theorem printable_fsBody (e : Bool) (b : Str) (h : fsBodyStr e b = true) : b.all printableC = true := by
  induction b generalizing e with
  | nil => rfl
  | cons c b ih =>
    cases e with
    | true =>
      simp only [fsBodyStr, if_true, Bool.and_eq_true, Bool.or_eq_true, beq_iff_eq] at h
      simp only [List.all_cons, Bool.and_eq_true]
      refine ⟨?_, ih false h.2⟩
      rcases h.1 with ((h1 | h1) | h1) | h1
      · subst h1; decide
      · subst h1; decide
      · subst h1; decide
      · simp only [puncC, List.contains_eq_mem, List.mem_cons, List.not_mem_nil, or_false,
          decide_eq_true_eq] at h1
        rcases h1 with h1 | h1 | h1 | h1 | h1 | h1 | h1 | h1 | h1 | h1 | h1 | h1 | h1 | h1 | h1 | h1 | h1 | h1 |
          h1 | h1 | h1 | h1 | h1 | h1 | h1 | h1 <;> subst h1 <;> decide
    | false =>
      simp only [fsBodyStr, Bool.false_eq_true, if_false] at h
      simp only [List.all_cons, Bool.and_eq_true]
      by_cases h92 : c = 92
      · subst h92
        simp only [if_true] at h
        exact ⟨by decide, ih true h⟩
      · simp only [h92, if_false, Bool.and_eq_true] at h
        refine ⟨?_, ih false h.2⟩
        rcases fsUnreserved_cases c h.1 with hres | h45 | h46
        · simp only [reserved, Bool.and_eq_false_iff, Bool.or_eq_false_iff, decide_eq_false_iff_not,
            bne_eq_false_iff_eq] at hres
          simp only [printableC, Bool.and_eq_true, decide_eq_true_eq, Bool.not_eq_true',
            Bool.or_eq_false_iff, beq_eq_false_iff_ne, ne_eq, Bool.and_eq_false_iff,
            decide_eq_false_iff_not]
          omega
        · subst h45; decide
        · subst h46; decide

theorem printable_leadStr (w : Option Nat) : (leadStr w).all printableC = true := by
  cases w with
  | none => decide
  | some n => simp [leadStr, printableC]

theorem printable_unbind (e : Bool) (s : Str) (h : s.all printableC = true) :
    (unbindFSValAux e s).all printableC = true := by
  induction s generalizing e with
  | nil => rfl
  | cons c s ih =>
    simp only [List.all_cons, Bool.and_eq_true] at h
    have h92 : printableC 92 = true := by decide
    simp only [unbindFSValAux]
    split
    · simp [h92, ih true h.2]
    · split
      · simp [h.1, ih false h.2]
      · split
        · simp [h.1, ih false h.2]
        · simp [h92, h.1, ih false h.2]

/-! ### binding what was unbound -/

/-- A component in the canonical form `BindFS` writes: what is quoted is not a
    period, hyphen or underscore; what is unquoted is a letter, digit,
    underscore, period, hyphen or a special character. -/
def canonAux (e : Bool) : Str → Bool
  | [] => !e
  | c :: rest =>
    if e then (c != 46 && c != 45 && c != 95) && canonAux false rest
    else if c = 92 then canonAux true rest
    else (c == 42 || c == 63 || !reserved c || c == 45 || c == 46) && canonAux false rest

theorem bind_unbind (e : Bool) (x : Str) (h : canonAux e x = true) :
    bindE e (unbindFSValAux e x) = if e then 92 :: x else x := by
  induction x generalizing e with
  | nil => cases e <;> simp_all [canonAux, unbindFSValAux, bindE]
  | cons c x ih =>
    cases e with
    | true =>
      simp only [canonAux, if_true, Bool.and_eq_true, bne_iff_ne, ne_eq] at h
      have ih' := ih false h.2
      simp only [Bool.false_eq_true, if_false] at ih'
      have hne : ¬(c = 46 ∨ c = 45 ∨ c = 95) := by
        rintro (h1 | h1 | h1)
        · exact h.1.1.1 h1
        · exact h.1.1.2 h1
        · exact h.1.2 h1
      have : ¬(c = 92 ∧ true = false) := by simp
      simp only [unbindFSValAux, this, if_false, if_true]
      split
      · simp [bindE, hne, ih']
      · simp [bindE, hne, ih']
    | false =>
      simp only [canonAux, Bool.false_eq_true, if_false] at h
      by_cases h92 : c = 92
      · subst h92
        simp only [if_true] at h
        have ih' := ih true h
        simp only [if_true] at ih'
        simp [unbindFSValAux, bindE, ih']
      · simp only [h92, if_false, Bool.and_eq_true, Bool.or_eq_true, beq_iff_eq, Bool.not_eq_true'] at h
        have ih' := ih false h.2
        simp only [Bool.false_eq_true, if_false] at ih'
        simp only [unbindFSValAux, h92, false_and, if_false, Bool.false_eq_true, false_or]
        by_cases hs : c = 42 ∨ c = 63
        · simp [hs, bindE, h92, ih']
        · simp only [hs, if_false]
          by_cases hres : reserved c = false
          · simp [hres, bindE, h92, ih']
          · have hres' : reserved c = true := by simpa using hres
            have hc : c = 45 ∨ c = 46 := by
              rcases h.1 with (((h1 | h1) | h1) | h1) | h1
              · exact absurd (Or.inl h1) hs
              · exact absurd (Or.inr h1) hs
              · exact absurd h1 hres
              · exact Or.inl h1
              · exact Or.inr h1
            simp only [hres', Bool.true_eq_false, if_false]
            rcases hc with hc | hc <;> subst hc <;> simp [bindE, ih']

theorem canonAux_append (e : Bool) (x y : Str) (hx : canonAux e x = true) (hy : canonAux false y = true) :
    canonAux e (x ++ y) = true := by
  induction x generalizing e with
  | nil =>
    cases e
    · simpa using hy
    · simp [canonAux] at hx
  | cons c x ih =>
    cases e with
    | true =>
      simp only [canonAux, if_true, Bool.and_eq_true] at hx
      simp only [List.cons_append, canonAux, if_true, Bool.and_eq_true]
      exact ⟨hx.1, ih false hx.2⟩
    | false =>
      simp only [canonAux, Bool.false_eq_true, if_false] at hx
      simp only [List.cons_append, canonAux, Bool.false_eq_true, if_false]
      by_cases h92 : c = 92
      · simp only [h92, if_true] at hx ⊢
        exact ih true hx
      · simp only [h92, if_false, Bool.and_eq_true] at hx ⊢
        exact ⟨hx.1, ih false hx.2⟩

theorem canon_leadStr (w : Option Nat) : canonAux false (leadStr w) = true := by
  cases w with
  | none => decide
  | some n =>
    induction n with
    | zero => rfl
    | succ n ih => simpa [leadStr, List.replicate_succ, canonAux] using ih

theorem canon_fsBody (e : Bool) (b : Str) (h : fsBodyStr e b = true) : canonAux e b = true := by
  induction b generalizing e with
  | nil => simpa [fsBodyStr, canonAux] using h
  | cons c b ih =>
    cases e with
    | true =>
      simp only [fsBodyStr, if_true, Bool.and_eq_true, Bool.or_eq_true, beq_iff_eq] at h
      simp only [canonAux, if_true, Bool.and_eq_true, bne_iff_ne, ne_eq]
      refine ⟨?_, ih false h.2⟩
      rcases h.1 with ((h1 | h1) | h1) | h1
      · subst h1; decide
      · subst h1; decide
      · subst h1; decide
      · simp only [puncC, List.contains_eq_mem, List.mem_cons, List.not_mem_nil, or_false,
          decide_eq_true_eq] at h1
        omega
    | false =>
      simp only [fsBodyStr, Bool.false_eq_true, if_false] at h
      simp only [canonAux, Bool.false_eq_true, if_false]
      by_cases h92 : c = 92
      · simp only [h92, if_true] at h ⊢
        exact ih true h
      · simp only [h92, if_false, Bool.and_eq_true] at h ⊢
        refine ⟨?_, ih false h.2⟩
        rcases fsUnreserved_cases c h.1 with hres | h45 | h46
        · simp [hres]
        · simp [h45]
        · simp [h46]

/-! ### one component -/

theorem unbindFSValAux_nil (e : Bool) (x : Str) (h : unbindFSValAux e x = []) : x = [] := by
  cases x with
  | nil => rfl
  | cons c x =>
    simp only [unbindFSValAux] at h
    split at h
    · cases h
    · split at h
      · cases h
      · split at h <;> cases h

/-- What `(*Value).unbindFS` yields passes the per-attribute checks of
    `WFN.Valid` as soon as its string validates: a set value is never empty. -/
theorem attrOk_unbindFSAttr (c : Str) (h : validate (unbindFSAttr c).v = true) :
    attrOk (unbindFSAttr c) = true := by
  simp only [attrOk, h, Bool.true_and]
  unfold unbindFSAttr
  by_cases h0 : c = []
  · simp [h0]
  · by_cases h1 : c = [45]
    · simp [h1]
    · by_cases h2 : c = [42]
      · simp [h2]
      · simp only [h0, h1, h2, if_false, beq_self_eq_true, Bool.true_and, Bool.not_eq_true',
          List.isEmpty_eq_false_iff]
        intro hnil
        exact h0 (unbindFSValAux_nil false c hnil)

/-- An avstring that is not one of the logical values unbinds to a value that
    `validate` accepts and that binds back to the avstring. -/
theorem avString_set (c : Str) (l r : Option Nat) (body : Str) (hc : c = leadStr l ++ body ++ leadStr r)
    (hne : body ≠ []) (hb : fsBodyStr false body = true) (h42 : c ≠ [42]) (h45 : c ≠ [45]) :
    validate (unbindFSVal c) = true ∧ bindVal (unbindFSVal c) = c ∧ unbindFSAttr c = ⟨.set, unbindFSVal c⟩ := by
  have hcanon : canonAux false c = true := by
    rw [hc]
    exact canonAux_append false _ _ (canonAux_append false _ _ (canon_leadStr l) (canon_fsBody false body hb))
      (canon_leadStr r)
  have hbind : bindVal (unbindFSVal c) = c := by
    rw [bindVal_eq_bindE, unbindFSVal, bind_unbind false c hcanon]; rfl
  have hshape : unbindFSVal c = leadStr l ++ unbindFSValAux false body ++ leadStr r := by
    rw [hc, unbindFSVal, List.append_assoc, unbind_leadStr_append, unbind_body_append false body _ hb]
    have : unbindFSValAux false (leadStr r) = leadStr r := by
      have := unbind_leadStr_append r []
      simpa [unbindFSValAux] using this
    rw [this, List.append_assoc]
  have hc0 : c ≠ [] := by
    intro h; rw [hc] at h
    simp only [List.append_eq_nil_iff] at h
    exact hne h.1.2
  refine ⟨?_, hbind, ?_⟩
  · apply grammar_validate
    refine ⟨?_, ?_, ?_, l, unbindFSValAux false body, r, hshape, bodyStr_unbind false body hb⟩
    · apply printable_unbind
      rw [hc]
      simp only [List.all_append, Bool.and_eq_true]
      exact ⟨⟨printable_leadStr l, printable_fsBody false body hb⟩, printable_leadStr r⟩
    · intro h
      rw [h] at hbind
      exact h42 hbind.symm
    · intro h
      rw [h] at hbind
      exact h45 hbind.symm
  · simp [unbindFSAttr, hc0, h42, h45]

/-- Every avstring: the attribute it unbinds to is valid and binds back. -/
theorem avString_attr (c : Str) (h : AvString c) :
    validate (unbindFSAttr c).v = true ∧ bindValue (unbindFSAttr c) = c ∧ (unbindFSAttr c).kind ≠ .unset := by
  by_cases h42 : c = [42]
  · subst h42; decide
  by_cases h45 : c = [45]
  · subst h45; decide
  rcases h with h | h | ⟨l, body, r, hc, hne, hb⟩
  · exact absurd h h42
  · exact absurd h h45
  · obtain ⟨hv, hbind, hattr⟩ := avString_set c l r body hc hne hb h42 h45
    rw [hattr]
    exact ⟨hv, by simpa [bindValue] using hbind, by simp⟩

theorem partString_attr (c : Str) (h : PartString c) :
    AvString c ∧ ((unbindFSAttr c).kind = .set → (unbindFSAttr c).v = [97] ∨ (unbindFSAttr c).v = [111] ∨
      (unbindFSAttr c).v = [104]) := by
  rcases h with rfl | rfl | rfl | rfl | rfl
  · exact ⟨Or.inr (Or.inr ⟨some 0, [97], some 0, rfl, by simp, rfl⟩), fun _ => Or.inl rfl⟩
  · exact ⟨Or.inr (Or.inr ⟨some 0, [111], some 0, rfl, by simp, rfl⟩), fun _ => Or.inr (Or.inl rfl)⟩
  · exact ⟨Or.inr (Or.inr ⟨some 0, [104], some 0, rfl, by simp, rfl⟩), fun _ => Or.inr (Or.inr rfl)⟩
  · exact ⟨Or.inl rfl, fun h => by simp [unbindFSAttr] at h⟩
  · exact ⟨Or.inr (Or.inl rfl), fun h => by simp [unbindFSAttr] at h⟩

/-! ### the whole string -/

theorem formattedString_accepted (s : Str) (h : FormattedString s) :
    ∃ w, unbindFS s = some w ∧ bindFS w = s ∧ valid w = .ok := by
  obtain ⟨part, rest, hlen, hpart, hrest, _, hs⟩ := h
  obtain ⟨hpartAv, hpartV⟩ := partString_attr part hpart
  have hall : ∀ c ∈ part :: rest, AvString c := by
    intro c hc
    rcases List.mem_cons.1 hc with rfl | hc
    · exact hpartAv
    · exact hrest c hc
  have hs' : s = segCpe ++ (seg23 :: part :: rest).flatMap fun y => 58 :: y := by
    rw [hs]; simp [segCpe, seg23]
  have hsplit : splitFS s = segCpe :: seg23 :: part :: rest := by
    rw [hs', splitFS]
    apply split_join
    · decide
    · intro y hy
      rcases List.mem_cons.1 hy with rfl | hy
      · decide
      · exact closed_avString y (hall y hy)
  have hpre : Gen.Cpe.cpe23Prefix.isPrefixOf s = true := by
    rw [hs]; simp [Gen.Cpe.cpe23Prefix, List.isPrefixOf]
  obtain ⟨w, hw⟩ : ∃ w : WFN, w = (part :: rest).map unbindFSAttr := ⟨_, rfl⟩
  have h1 : w.all attrOk = true := by
    rw [hw]
    simp only [List.all_map, List.all_eq_true]
    intro c hc
    exact attrOk_unbindFSAttr c (avString_attr c (hall c hc)).1
  have h2 : w.all (fun a => a.kind == Kind.unset) = false := by
    have := (avString_attr part hpartAv).2.2
    rw [hw]
    simp only [List.map_cons, List.all_cons, Bool.and_eq_false_iff]
    left
    cases hk : (unbindFSAttr part).kind <;> simp_all
  have hhead : w.head? = some (unbindFSAttr part) := by rw [hw]; rfl
  have hvalid : valid w = .ok := by
    unfold valid
    rw [h1, h2, hhead]
    simp only [Bool.not_true, Bool.false_eq_true, if_false]
    cases hk : (unbindFSAttr part).kind with
    | set =>
      rcases hpartV hk with hv | hv | hv <;> simp [hv]
    | unset => simp
    | any => simp
    | na => simp
  refine ⟨w, ?_, ?_, hvalid⟩
  · unfold unbindFS
    have hl : (part :: rest).length = Gen.Cpe.numAttr := by simp [hlen, Gen.Cpe.numAttr]
    simp only [hpre, Bool.not_true, Bool.false_eq_true, if_false, hsplit, List.drop_succ_cons, List.drop_zero,
      hl, Nat.lt_irrefl, Nat.sub_self, List.replicate_zero, List.append_nil, ← hw, hvalid]
  · have hmap : w.map bindValue = part :: rest := by
      rw [hw, List.map_map]
      have : ∀ c ∈ part :: rest, (bindValue ∘ unbindFSAttr) c = id c := by
        intro c hc; exact (avString_attr c (hall c hc)).2.1
      rw [List.map_congr_left this, List.map_id]
    rw [bindFS_eq, hmap, hs']

/-! ### necessary conditions (to show that a string is not a formatted string) -/

theorem formattedString_comps (s : Str) (h : FormattedString s) :
    ∃ part rest, splitFS s = segCpe :: seg23 :: part :: rest ∧ rest.length = 10 ∧ PartString part ∧
      (∀ c ∈ rest, AvString c) ∧ (∀ c, rest[5]? = some c → LangString c) := by
  obtain ⟨part, rest, hlen, hpart, hrest, hlang, hs⟩ := h
  refine ⟨part, rest, ?_, hlen, hpart, hrest, hlang⟩
  have hs' : s = segCpe ++ (seg23 :: part :: rest).flatMap fun y => 58 :: y := by
    rw [hs]; simp [segCpe, seg23]
  rw [hs', splitFS]
  apply split_join
  · decide
  · intro y hy
    rcases List.mem_cons.1 hy with rfl | hy
    · decide
    · rcases List.mem_cons.1 hy with rfl | hy
      · exact closed_avString _ (partString_attr _ hpart).1
      · exact closed_avString y (hrest y hy)

/-- Quoting as the ABNF allows it: a backslash only before a backslash, a
    special character or punctuation; unquoted only letters, digits, `-._`
    and the special characters. -/
def strictAux (e : Bool) : Str → Bool
  | [] => !e
  | c :: rest =>
    if e then (c == 92 || c == 42 || c == 63 || puncC c) && strictAux false rest
    else if c = 92 then strictAux true rest
    else (fsUnreservedC c || c == 42 || c == 63) && strictAux false rest

theorem strictAux_append (e : Bool) (x y : Str) (hx : strictAux e x = true) (hy : strictAux false y = true) :
    strictAux e (x ++ y) = true := by
  induction x generalizing e with
  | nil =>
    cases e
    · simpa using hy
    · simp [strictAux] at hx
  | cons c x ih =>
    cases e with
    | true =>
      simp only [strictAux, if_true, Bool.and_eq_true] at hx
      simp only [List.cons_append, strictAux, if_true, Bool.and_eq_true]
      exact ⟨hx.1, ih false hx.2⟩
    | false =>
      simp only [strictAux, Bool.false_eq_true, if_false] at hx
      simp only [List.cons_append, strictAux, Bool.false_eq_true, if_false]
      by_cases h92 : c = 92
      · simp only [h92, if_true] at hx ⊢
        exact ih true hx
      · simp only [h92, if_false, Bool.and_eq_true] at hx ⊢
        exact ⟨hx.1, ih false hx.2⟩

theorem strict_leadStr (w : Option Nat) : strictAux false (leadStr w) = true := by
  cases w with
  | none => decide
  | some n =>
    induction n with
    | zero => rfl
    | succ n ih => simpa [leadStr, List.replicate_succ, strictAux] using ih

theorem strict_fsBody (e : Bool) (b : Str) (h : fsBodyStr e b = true) : strictAux e b = true := by
  induction b generalizing e with
  | nil => simpa [fsBodyStr, strictAux] using h
  | cons c b ih =>
    cases e with
    | true =>
      simp only [fsBodyStr, if_true, Bool.and_eq_true] at h
      simp only [strictAux, if_true, Bool.and_eq_true]
      exact ⟨h.1, ih false h.2⟩
    | false =>
      simp only [fsBodyStr, Bool.false_eq_true, if_false] at h
      simp only [strictAux, Bool.false_eq_true, if_false]
      by_cases h92 : c = 92
      · simp only [h92, if_true] at h ⊢
        exact ih true h
      · simp only [h92, if_false, Bool.and_eq_true] at h ⊢
        exact ⟨by simp [h.1], ih false h.2⟩

theorem avString_strict (c : Str) (h : AvString c) : strictAux false c = true := by
  rcases h with rfl | rfl | ⟨l, body, r, rfl, _, hb⟩
  · decide
  · decide
  · exact strictAux_append false _ _ (strictAux_append false _ _ (strict_leadStr l) (strict_fsBody false body hb))
      (strict_leadStr r)

theorem avString_hasBody (c : Str) (h : AvString c) :
    c = [42] ∨ c.any (fun x => x != 42 && x != 63) = true := by
  rcases h with rfl | rfl | ⟨l, body, r, rfl, hne, hb⟩
  · exact Or.inl rfl
  · right; decide
  · right
    cases body with
    | nil => exact absurd rfl hne
    | cons d body =>
      have hd : d ≠ 42 ∧ d ≠ 63 := by
        simp only [fsBodyStr, Bool.false_eq_true, if_false] at hb
        by_cases h92 : d = 92
        · subst h92; exact ⟨by decide, by decide⟩
        · simp only [h92, if_false, Bool.and_eq_true] at hb
          rcases fsUnreserved_cases d hb.1 with hres | h45 | h46
          · constructor <;> (intro hc; subst hc; simp [reserved] at hres)
          · subst h45; exact ⟨by decide, by decide⟩
          · subst h46; exact ⟨by decide, by decide⟩
      simp only [List.any_append, List.any_cons, Bool.or_eq_true, Bool.and_eq_true, bne_iff_ne, ne_eq]
      left; right; left; exact hd

theorem avString_ne_nil (c : Str) (h : AvString c) : c ≠ [] := by
  rcases h with rfl | rfl | ⟨l, body, r, rfl, hne, _⟩
  · simp
  · simp
  · intro h
    simp only [List.append_eq_nil_iff] at h
    exact hne h.1.2

end ClairModel.Cpe
