/-
  C11: an archive of directories and regular files without a defined
  extraction (a regular file used as a directory, a file over a directory) is
  rejected by New.
-/
import ClairModel.Proofs.TarFSExtract
set_option linter.unusedSimpArgs false
set_option linter.unusedVariables false
namespace ClairModel.TarFS

/-! ### Rejection: archives of directories and regular files without a defined extraction -/

/-- The reference tree holds directories and regular files only. -/
def PlainTree (t : XTree) : Prop := ∀ k x, alGet t k = some x → x = .dir ∨ ∃ d, x = .file d

theorem PlainTree.set {t : XTree} (h : PlainTree t) (k : Bytes) (x : XNode) (hx : x = .dir ∨ ∃ d, x = .file d) :
    PlainTree (alSet t k x) := by
  intro k' y hy
  rw [alGet_alSet] at hy
  split at hy
  · cases hy; exact hx
  · exact h k' y hy

theorem PlainTree.bound {t : XTree} (h : PlainTree t) : XBound t := by
  intro k tg hk
  rcases h k _ hk with e | ⟨d, e⟩ <;> cases e

theorem xMkdirs_plainTree : ∀ (ds : List Bytes) (t t1 : XTree), PlainTree t → xMkdirs t ds = some t1 → PlainTree t1 := by
  intro ds
  induction ds with
  | nil => intro t t1 h hx; simp [xMkdirs] at hx; subst hx; exact h
  | cons d ds ih =>
    intro t t1 h hx
    simp only [xMkdirs] at hx
    split at hx
    · exact ih _ _ (h.set d .dir (Or.inl rfl)) hx
    · exact ih _ _ h hx
    · cases hx

/-- In a view that presents a tree of directories and regular files, a
    connected key is a directory or a regular file. -/
theorem kind_of_plainTree {skip : List Bytes} {fs : FS} {t : XTree} (h : TreeOK skip fs) (hrep : Rep skip fs t)
    (hpt : PlainTree t) {k : Bytes} {i : Nat} (hk : k ∉ skip) (hi : fs.get? k = some i) :
    (fs.ino i).kind = .dir ∨ (fs.ino i).kind = .reg := by
  have hnode := hrep k hk
  simp only [FS.node?, hi] at hnode
  rcases h.kinds k i hi with ⟨hd, _⟩ | ⟨_, _, _⟩
  · exact Or.inl hd
  · rcases hpt k _ hnode.symm with hx | ⟨d, hx⟩
    · exact Or.inl ((inoNode_dir_iff _).1 hx)
    · right
      cases hkk : (fs.ino i).kind <;> simp [inoNode, hkk] at hx ⊢

/-- walkTo in create mode along a path with a regular file in it: it fails,
    or (when the file is the last element) arrives at that file. -/
theorem walk_create_fail {skip : List Bytes} (fuel : Nat) (hdot : dotP ∉ skip) :
    ∀ (rest done : List Bytes) (fs : FS) (cur : Nat) (t : XTree),
      TreeOK skip fs → Rep skip fs t → PlainTree t → GoodComps (done ++ rest) → (∀ x ∈ done ++ rest, ValidU x) →
      fs.get? (pathOf done) = some cur → (fs.ino cur).kind = .dir →
      (∀ pre suf, done ++ rest = pre ++ suf → pre ≠ [] → joinSlash pre ∉ skip) →
      xMkdirs t (prefixesAux (joinSlash done) done.isEmpty rest) = none →
      ∃ fs' r, walkLoop (some (mkdirFn fuel)) fs cur (joinSlash done) done.isEmpty rest = (fs', r) ∧
        match r with
        | .error _ => True
        | .ok i => (fs'.ino i).kind = .reg := by
  intro rest
  induction rest with
  | nil =>
    intro done fs cur t h hrep _ _ _ hcur hkd _ hx
    simp [prefixesAux, xMkdirs] at hx
  | cons n rest ih =>
    intro done fs cur t h hrep hpt hg hu hcur hkd hsk hx
    have hg1 : GoodComps (done ++ [n]) := fun x hx => hg x (by simp at hx ⊢; rcases hx with hx | hx <;> simp [hx])
    have hg2 : GoodComps ((done ++ [n]) ++ rest) := by simpa [List.append_assoc] using hg
    have hu2 : ∀ x ∈ (done ++ [n]) ++ rest, ValidU x := by simpa [List.append_assoc] using hu
    have hskb : joinSlash (done ++ [n]) ∉ skip := hsk (done ++ [n]) rest (by simp) (by simp)
    have hsk' : ∀ pre suf, (done ++ [n]) ++ rest = pre ++ suf → pre ≠ [] → joinSlash pre ∉ skip :=
      fun pre suf e hp => hsk pre suf (by simpa [List.append_assoc] using e) hp
    have hbc : Contained (joinSlash (done ++ [n])) :=
      contained_joinSlash (by simp) hg1 (fun x hx => hu x (by simp at hx ⊢; rcases hx with hx | hx <;> simp [hx]))
    have hdir : dirOf (joinSlash (done ++ [n])) = pathOf done := dirOf_snoc hg1
    have hpath : pathOf (done ++ [n]) = joinSlash (done ++ [n]) := pathOf_snoc done n
    have hempty : (done ++ [n]).isEmpty = false := by simp
    have hdones : pathOf done ∉ skip := by
      unfold pathOf
      split
      · exact hdot
      · rename_i hd; exact hsk done (n :: rest) rfl hd
    simp only [prefixesAux, joinSlash_done] at hx
    simp only [walkLoop, joinSlash_done]
    have hnode := hrep _ hskb
    cases hb : fs.get? (joinSlash (done ++ [n])) with
    | some c =>
      rw [h.findChild_some hg1 hcur hb hskb]
      simp only
      simp only [FS.node?, hb] at hnode
      rcases h.kinds _ c hb with ⟨hk, _⟩ | ⟨hk, _⟩
      · simp only [inoNode, hk] at hnode
        simp only [xMkdirs, ← hnode] at hx
        rw [(resolve_plain _ rest.isEmpty _ fs c).1 hk]
        simp only
        have := ih (done ++ [n]) fs c t h hrep hpt hg2 hu2 (by rw [hpath]; exact hb) hk hsk'
          (by rw [hempty]; exact hx)
        rw [hempty] at this
        exact this
      · -- the regular file
        have hk : (fs.ino c).kind = .reg := by
          rcases kind_of_plainTree h hrep hpt hskb hb with h' | h'
          · exact absurd h' hk
          · exact h'
        rw [(resolve_plain _ rest.isEmpty _ fs c).2 (by simp [hk]) (by simp [hk])]
        by_cases hr : rest = []
        · subst hr
          simp only [List.isEmpty_nil, if_true, walkLoop]
          exact ⟨fs, .ok c, rfl, hk⟩
        · have : rest.isEmpty = false := by cases rest <;> simp at hr ⊢
          simp only [this, Bool.false_eq_true, if_false]
          exact ⟨fs, .error .exist, rfl, trivial⟩
    | none =>
      rw [h.findChild_none hg1 hcur hb]
      simp only [FS.node?, hb] at hnode
      simp only [xMkdirs, ← hnode] at hx
      simp only
      have hmk := mkdirFn_eq h fuel hbc hb (by rw [hdir]; exact hcur) hkd
      rw [hmk]
      obtain ⟨cs, hcs⟩ : ∃ cs, (fs.ino cur).children = some cs := by
        rcases h.kinds _ cur hcur with ⟨_, hc⟩ | ⟨hk, _⟩
        · exact hc
        · exact absurd hkd hk
      have hnamed : ∀ k i, fs.get? k = some i → i < fs.inodes.length := fun k i hk => (h.named k i hk).2
      have h1 : TreeOK skip (fs.leaf (joinSlash (done ++ [n])) (newDir (joinSlash (done ++ [n]))) cur) :=
        h.leaf hbc hb hskb rfl (leafIno_newDir _) (by simp [newDir]) (by rw [hdir]; exact hcur) (by rw [hdir]; exact hdones) hkd
      have hrep1 := hrep.leaf (joinSlash (done ++ [n])) (newDir (joinSlash (done ++ [n]))) hnamed hb hcs
      have hgetb : (fs.leaf (joinSlash (done ++ [n])) (newDir (joinSlash (done ++ [n]))) cur).get?
          (joinSlash (done ++ [n])) = some fs.inodes.length := by rw [leaf_get]; simp
      have hgetD : (fs.leaf (joinSlash (done ++ [n])) (newDir (joinSlash (done ++ [n]))) cur).getD
          (joinSlash (done ++ [n])) = fs.inodes.length := by
        have : alGet (fs.leaf (joinSlash (done ++ [n])) (newDir (joinSlash (done ++ [n]))) cur).lookup
            (joinSlash (done ++ [n])) = some fs.inodes.length := hgetb
        simp [FS.getD, this]
      rw [hgetD]
      have hkind1 : ((fs.leaf (joinSlash (done ++ [n])) (newDir (joinSlash (done ++ [n]))) cur).ino
          fs.inodes.length).kind = .dir := by
        rw [(leaf_ino_kind_data fs _ _ hcs _).1, pend_ino_len]; rfl
      have hnd : inoNode (newDir (joinSlash (done ++ [n]))) = .dir := rfl
      rw [hnd] at hrep1
      have := ih (done ++ [n]) _ fs.inodes.length _ h1 hrep1 (hpt.set _ _ (Or.inl rfl)) hg2 hu2
        (by rw [hpath]; exact hgetb) hkind1 hsk' (by rw [hempty]; exact hx)
      rw [hempty] at this
      exact this


/-- The `AddEnt:` loop when the directory path of the name holds a regular file: an error. -/
theorem addEnt_plain_fail (fuel f : Nat) {fs1 : FS} {init : List Bytes} {c : Bytes} (len : Nat) {t : XTree}
    (h : TreeOK [joinSlash (init ++ [c])] fs1) (hrep : Rep [joinSlash (init ++ [c])] fs1 t) (hpt : PlainTree t)
    (hg : GoodComps (init ++ [c])) (hu : ∀ x ∈ init ++ [c], ValidU x)
    (hx : xMkdirs t (prefixesAux [] true init) = none) :
    ∃ fs2 e, addEnt (mkdirFn fuel) len (joinSlash (init ++ [c])) (f + 1) fs1 []
      (dirOf (joinSlash (init ++ [c]))) = (fs2, some e) := by
  have hnc : Contained (joinSlash (init ++ [c])) := contained_joinSlash (by simp) hg hu
  have hnd : joinSlash (init ++ [c]) ≠ dotP := joinSlash_ne_dot (by simp) hg
  have hdne := dirOf_ne_self hnc hnd
  have hdir : dirOf (joinSlash (init ++ [c])) = pathOf init := dirOf_snoc hg
  by_cases hi : init = []
  · subst hi; simp [prefixesAux, xMkdirs] at hx
  · have hgi : GoodComps init := fun x hx => hg x (by simp [hx])
    have hui : ∀ x ∈ init, ValidU x := fun x hx => hu x (by simp [hx])
    have hdd : dirOf (joinSlash (init ++ [c])) ≠ dotP := by
      rw [hdir]; simp only [pathOf, hi, if_false]; exact joinSlash_ne_dot hi hgi
    have hdj : dirOf (joinSlash (init ++ [c])) = joinSlash init := by rw [hdir]; simp [pathOf, hi]
    have hdc : Contained (joinSlash init) := contained_joinSlash hi hgi hui
    have hsk : ∀ pre suf, init = pre ++ suf → pre ≠ [] → joinSlash pre ∉ [joinSlash (init ++ [c])] := by
      intro pre suf e hp
      simp only [List.mem_singleton]
      exact prefix_ne_self hg e hp
    have hsplit : splitSlash (joinSlash init) = init := splitSlash_joinSlash init hi (fun x hx => (hgi x hx).2)
    have hroot : fs1.getD dotP = 0 := by
      have : alGet fs1.lookup dotP = some 0 := h.root
      simp [FS.getD, this]
    obtain ⟨fs2, r, hw, hr⟩ :=
      walk_create_fail (skip := [joinSlash (init ++ [c])]) fuel (by simp; exact fun e => hnd e.symm)
        init [] fs1 0 t h hrep hpt (by simpa using hgi) (by simpa using hui)
        (by simpa [pathOf] using h.root) h.rootDir (by simpa using hsk) (by simpa [joinSlash] using hx)
    simp only [joinSlash, List.isEmpty_nil] at hw
    have hdc' : Contained (dirOf (joinSlash (init ++ [c]))) := by rw [hdj]; exact hdc
    have hnosym : ∀ pre suf, init = pre ++ suf → pre ≠ [] → ∀ i, fs1.get? (joinSlash pre) = some i →
        (fs1.ino i).kind ≠ .sym := by
      intro pre suf e hp i hgi'
      rcases kind_of_plainTree h hrep hpt (hsk pre suf e hp) hgi' with h' | h' <;> simp [h']
    rw [addEnt]
    simp only [hdne, if_false, hdd]
    rw [h.getInode_eq hdc' (by rw [hdj, hsplit]; exact hsk)
      (by rw [hdj, hsplit]; exact fun pre suf e hp _ => hnosym pre suf e hp)]
    rw [hdj]
    cases hget : fs1.get? (joinSlash init) with
    | some j' =>
      have hhit := h.walkLoop_hit (some (mkdirFn fuel)) init [] 0 j' (by simpa using hgi)
        (by simpa [pathOf] using h.root) (by simpa using hsk) (by simpa [pathOf, hi] using hget)
        (hnosym init [] (by simp) hi j' hget)
      simp only [joinSlash, List.isEmpty_nil] at hhit
      rw [hhit] at hw
      simp only [Prod.mk.injEq] at hw
      obtain ⟨rfl, rfl⟩ := hw
      simp only at hr
      simp only [List.not_mem_nil, if_false, hr]
      exact ⟨_, _, rfl⟩
    | none =>
      simp only [walkTo, hroot, hsplit, hw]
      cases r with
      | error e => exact ⟨_, _, rfl⟩
      | ok i =>
        simp only at hr
        simp only [List.not_mem_nil, if_false, hr]
        exact ⟨_, _, rfl⟩

/-- A new member whose directory path holds a regular file: `add` fails. -/
theorem add_member_fail (fuel : Nat) {fs : FS} {t : XTree} {init : List Bytes} {c : Bytes} {ino : Inode}
    (hl : HL) (u : Bool)
    (h : TreeOK [] fs) (hrep : Rep [] fs t) (hpt : PlainTree t)
    (hg : GoodComps (init ++ [c])) (hu : ∀ x ∈ init ++ [c], ValidU x)
    (hfresh : fs.get? (joinSlash (init ++ [c])) = none)
    (hleaf : LeafIno ino) (hxl : (ino.kind = .sym ∨ ino.kind = .link) → Contained ino.link)
    (hx : xMkdirs t (prefixesAux [] true init) = none) :
    ∃ fs' hl' e, add (fuel + 2) fs hl (joinSlash (init ++ [c])) ino u = (fs', hl', some e) := by
  have hnc : Contained (joinSlash (init ++ [c])) := contained_joinSlash (by simp) hg hu
  have hleaf' : LeafIno { ino with name := joinSlash (init ++ [c]) } := hleaf
  have h1 := h.pend hnc hfresh (x := { ino with name := joinSlash (init ++ [c]) }) rfl hleaf' hxl
  have hrep1 : Rep [joinSlash (init ++ [c])] (fs.pend (joinSlash (init ++ [c])) { ino with name := joinSlash (init ++ [c]) }) t := by
    intro k hk
    simp only [List.mem_singleton] at hk
    rw [← hrep k (by simp)]
    simp only [FS.node?, pend_get, Ne.symm hk, if_false]
    cases hgk : fs.get? k with
    | none => rfl
    | some i => simp only; rw [pend_ino_lt fs _ _ (h.named k i hgk).2]
  rw [show fuel + 2 = (fuel + 1) + 1 from rfl, add]
  simp only [again_fresh hfresh]
  obtain ⟨f, hf⟩ : ∃ f, 2 * (fs.inodes ++ [{ ino with name := joinSlash (init ++ [c]) }]).length + 8 = f + 1 := ⟨_, rfl⟩
  rw [hf]
  obtain ⟨fs2, e, hent⟩ := addEnt_plain_fail fuel f fs.inodes.length h1 hrep1 hpt hg hu hx
  have hent' : addEnt (fun f p => (add (fuel + 1) f [] p (newDir p) false).1) fs.inodes.length
      (joinSlash (init ++ [c])) (f + 1)
      { lookup := alSet fs.lookup (joinSlash (init ++ [c])) fs.inodes.length,
        inodes := fs.inodes ++ [{ ino with name := joinSlash (init ++ [c]) }] } []
      (dirOf (joinSlash (init ++ [c]))) = (fs2, some e) := hent
  rw [hent']
  exact ⟨_, _, _, rfl⟩


theorem add_over_dir_fail (fuel : Nat) (fs : FS) (hl : HL) (name : Bytes) (ino : Inode) (u : Bool) (i : Nat)
    (h : fs.get? name = some i) (hk : ino.kind = .reg) (hd : (fs.ino i).kind = .dir) :
    add (fuel + 1) fs hl name ino u = (fs, hl, some .exist) := by
  simp [add, again_over_dir fs ino.kind _ name i h (by simp [hk, Kind.mtype]) (by simp [hd, Kind.mtype])]

/-- One member without a defined extraction: `addMembers` fails. -/
theorem member_fail (m : Member) (ms : List Member) (fs : FS) (t : XTree)
    (h : TreeOK [] fs) (hrep : Rep [] fs t) (hpt : PlainTree t) (hkind : m.kind = .dir ∨ m.kind = .reg)
    (hins : xInsert t m = none) : ∃ e, addMembers fs [] (m :: ms) = .error e := by
  have hn : Contained (normPath m.name) := contained_normPath _
  have hnode := hrep (normPath m.name) (by simp)
  unfold xInsert at hins
  simp only at hins
  generalize hnn : normPath m.name = n at hins hn hnode
  rcases hkind with hk | hk
  · -- a directory member
    simp only [hk] at hins
    cases hget : alGet t n with
    | some node => simp [hget] at hins
    | none =>
      simp only [hget] at hins
      rw [hget] at hnode
      have hfresh := node?_none hnode
      have hnd : n ≠ dotP := by intro e; rw [e, h.root] at hfresh; cases hfresh
      obtain ⟨init, c, hg, hu, rfl⟩ := contained_comps hn hnd
      rw [prefixesOf_eq hg, xMkdirs_append] at hins
      cases hA : xMkdirs t (prefixesAux [] true init) with
      | some tA =>
        simp only [hA, Option.bind] at hins
        have hfr : alGet tA (joinSlash (init ++ [c])) = none := by
          rw [xMkdirs_frame _ _ _ hA _ (not_mem_prefixes hg), hget]
        simp [xMkdirs, hfr] at hins
      | none =>
        obtain ⟨fs', hl', e, hadd⟩ := add_member_fail 4094 (fs := fs) (t := t)
          (ino := { kind := .dir, name := joinSlash (init ++ [c]), link := m.link, children := some [], data := some [], md := m.imd })
          [] true h hrep hpt hg hu hfresh (Or.inl ⟨rfl, rfl⟩) (by simp) hA
        have hprep : prepMember fs m = some { kind := .dir, name := joinSlash (init ++ [c]), link := m.link, children := some [], data := some [], md := m.imd } := by
          simp [prepMember, hk, hnn, hfresh]
        refine ⟨e, ?_⟩
        rw [addMembers, hprep]
        simp only
        rw [addFuel_eq, hadd]
  · -- a regular file
    simp only [hk] at hins
    have hprep : prepMember fs m = some { kind := .reg, name := n, link := m.link, children := none, data := some m.data, md := m.imd } := by
      simp [prepMember, hk, hnn]
    by_cases hnd : n = dotP
    · subst hnd
      refine ⟨.exist, ?_⟩
      rw [addMembers, hprep]
      simp only
      rw [show addFuel = 4095 + 1 from rfl, add_over_dir_fail 4095 fs [] dotP _ true 0 h.root rfl h.rootDir]
    · simp only [hnd, if_false] at hins
      obtain ⟨init, c, hg, hu, rfl⟩ := contained_comps hn hnd
      rw [prefixesOf_dropLast hg] at hins
      cases hget? : fs.get? (joinSlash (init ++ [c])) with
      | some i =>
        -- the name exists: its directory path is fine, so it must be a directory
        have hAt := xMkdirs_existing h hrep hg hget?
        simp only [hAt] at hins
        have hkd : (fs.ino i).kind = .dir := by
          simp only [FS.node?, hget?] at hnode
          cases hal : alGet t (joinSlash (init ++ [c])) with
          | none => rw [hal] at hnode; cases hnode
          | some node =>
            rw [hal] at hins hnode
            rcases hpt _ _ hal with rfl | ⟨d, rfl⟩
            · exact (inoNode_dir_iff _).1 (Option.some.inj hnode)
            · simp at hins
        refine ⟨.exist, ?_⟩
        rw [addMembers, hprep]
        simp only
        rw [show addFuel = 4095 + 1 from rfl, add_over_dir_fail 4095 fs [] _ _ true i hget? rfl hkd]
      | none =>
        cases hA : xMkdirs t (prefixesAux [] true init) with
        | some tA =>
          simp only [hA] at hins
          have hfr : alGet tA (joinSlash (init ++ [c])) = alGet t (joinSlash (init ++ [c])) :=
            xMkdirs_frame _ _ _ hA _ (not_mem_prefixes hg)
          rw [hfr, ← hnode] at hins
          simp [FS.node?, hget?] at hins
        | none =>
          obtain ⟨fs', hl', e, hadd⟩ := add_member_fail 4094 (fs := fs) (t := t)
            (ino := { kind := .reg, name := joinSlash (init ++ [c]), link := m.link, children := none, data := some m.data, md := m.imd })
            [] true h hrep hpt hg hu hget? (Or.inr ⟨by simp, rfl, fun _ => ⟨m.data, rfl⟩⟩) (by simp) hA
          refine ⟨e, ?_⟩
          rw [addMembers, hprep]
          simp only
          rw [addFuel_eq, hadd]

/-- An archive of directories and regular files without a defined extraction is rejected. -/
theorem xInsert_plainTree (t t2 : XTree) (m : Member) (hpt : PlainTree t)
    (hk : m.kind = .dir ∨ m.kind = .reg) (h : xInsert t m = some t2) : PlainTree t2 := by
  unfold xInsert at h
  simp only at h
  rcases hk with hk | hk
  · simp only [hk] at h
    split at h
    · cases h; exact hpt
    · exact xMkdirs_plainTree _ _ _ hpt h
  · simp only [hk] at h
    split at h
    · cases h
    · split at h
      · cases h
      · rename_i t1 ht1
        have h1 := xMkdirs_plainTree _ _ _ hpt ht1
        split at h
        · cases h; exact h1.set _ _ (Or.inr ⟨_, rfl⟩)
        · cases h; exact h1.set _ _ (Or.inr ⟨_, rfl⟩)
        · cases h

theorem addMembers_plain_fail : ∀ (ms : List Member) (fs : FS) (t : XTree),
    TreeOK [] fs → Rep [] fs t → PlainTree t → (∀ m ∈ ms, m.kind = .dir ∨ m.kind = .reg) → extractFrom t ms = none →
    ∃ e, addMembers fs [] ms = .error e := by
  intro ms
  induction ms with
  | nil => intro fs t _ _ _ _ hx; simp [extractFrom] at hx
  | cons m ms ih =>
    intro fs t h hrep hpt hk hx
    simp only [extractFrom] at hx
    cases hins : xInsert t m with
    | none => exact member_fail m ms fs t h hrep hpt (hk m (by simp)) hins
    | some t2 =>
      simp only [hins] at hx
      obtain ⟨fs2, he, h2, hrep2⟩ := member_step m ms fs t t2 h hrep (PlainTree.bound hpt) hins
      obtain ⟨e, hfail⟩ := ih fs2 t2 h2 hrep2 (xInsert_plainTree t t2 m hpt (hk m (by simp)) hins)
        (fun x hx' => hk x (by simp [hx'])) hx
      exact ⟨e, by rw [he, hfail]⟩

theorem newFS_plain_fail (ms : List Member) (hk : ∀ m ∈ ms, m.kind = .dir ∨ m.kind = .reg)
    (hx : extract ms = none) : ∃ e, newFS ms = .error e := by
  have hroot : PlainTree xRoot := by
    intro k x hx'
    simp only [xRoot, alGet] at hx'
    split at hx'
    · cases hx'; exact Or.inl rfl
    · cases hx'
  obtain ⟨e, he⟩ := addMembers_plain_fail ms rootFS xRoot rootFS_treeOK rootFS_rep hroot hk hx
  exact ⟨e, by simp [newFS, he]⟩

end ClairModel.TarFS
