/-
  Helper lemmas for the matcher theorems of C03.
-/
import ClairModel.Lib.OrderC03
import ClairModel.Model.Matchers
import ClairModel.Proofs.VerRpm

namespace ClairModel.Matchers
open ClairModel.Order ClairModel.OrderC03 ClairModel.VerCommon

/-- With a fix named, the rpm family reports exactly the versions strictly below it. -/
theorem rpmBelow_fix {pv f b : Str} (hf : f ≠ []) :
    rpmBelow pv f b = decide (VerRpm.cmpStr pv f = .lt) := by
  simp [rpmBelow, hf]

/-- Without a fix, exactly the versions not above the bound. -/
theorem rpmBelow_nofix {pv b : Str} :
    rpmBelow pv [] b = decide (VerRpm.cmpStr pv b ≠ .gt) := by
  simp [rpmBelow]

/-- Downward closed in the package version. -/
theorem rpmBelow_mono {pv pv' f b : Str} (h : rpmBelow pv f b = true)
    (hle : VerRpm.cmpStr pv' pv ≠ .gt) : rpmBelow pv' f b = true := by
  unfold rpmBelow at *
  split at h
  · next hf =>
    simp only [hf, if_true, ne_eq, not_false_eq_true, decide_eq_true_eq] at h ⊢
    exact lt_down VerRpm.cmpStr_totalPre h hle
  · next hf =>
    simp only [hf, if_false, decide_eq_true_eq] at h ⊢
    exact le_down VerRpm.cmpStr_totalPre h hle

/-- The architecture test of two packages with the same architecture agrees. -/
theorem archOK_congr (v : Vuln) {p p' : Pkg} (h : p'.arch = p.arch) : v.archOK p' = v.archOK p := by
  simp [Vuln.archOK, h]

/-- rhel: the gate, then the aws decision. -/
theorem vulnerableRhel_eq (g : RhelGate) (p : Pkg) (v : Vuln) :
    vulnerableRhel g p v = .ok (g.pass && (rpmBelow p.version v.fixed unfixedBound && v.archOK p)) := by
  unfold vulnerableRhel RhelGate.pass
  cases g.vulnRepoNil <;> cases g.recRepoNil <;> cases g.keyOK <;> cases g.unbindOK <;>
    cases g.superset <;> cases g.substring <;> simp

end ClairModel.Matchers
