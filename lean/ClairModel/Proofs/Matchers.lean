/-
  Helper lemmas for the matcher theorems of C03.
-/
import ClairModel.Lib.OrderC03
import ClairModel.Model.Matchers
import ClairModel.Proofs.VerRpm
import ClairModel.Proofs.VerDeb

namespace ClairModel.Matchers
open ClairModel.Order ClairModel.OrderC03 ClairModel.VerCommon

/-- With a fix named, the rpm family reports exactly the versions strictly below it. -/
theorem rpmBelow_fix {pv f b : Str} (hf : f ≠ []) :
    rpmBelow pv f b = decide (VerRpm.cmpStr pv f = .lt) := by
  simp [rpmBelow, hf]

/-- Without a fix, exactly the versions not above the bound. -/
theorem rpmBelow_nofix {pv b : Str} :
    rpmBelow pv [] b = decide (VerRpm.cmpStr pv b ≠ .gt) := by
  simp [rpmBelow]

/-- Downward closed in the package version. -/
theorem rpmBelow_mono {pv pv' f b : Str} (h : rpmBelow pv f b = true)
    (hle : VerRpm.cmpStr pv' pv ≠ .gt) : rpmBelow pv' f b = true := by
  unfold rpmBelow at *
  split at h
  · next hf =>
    simp only [hf, if_true, ne_eq, not_false_eq_true, decide_eq_true_eq] at h ⊢
    exact lt_down VerRpm.cmpStr_totalPre h hle
  · next hf =>
    simp only [hf, if_false, decide_eq_true_eq] at h ⊢
    exact le_down VerRpm.cmpStr_totalPre h hle

/-- The architecture test of two packages with the same architecture agrees. -/
theorem archOK_congr (v : Vuln) {p p' : Pkg} (h : p'.arch = p.arch) : v.archOK p' = v.archOK p := by
  simp [Vuln.archOK, h]

/-- rhel: the gate, then the aws decision. -/
theorem vulnerableRhel_eq (g : RhelGate) (p : Pkg) (v : Vuln) :
    vulnerableRhel g p v = .ok (g.pass && (rpmBelow p.version v.fixed unfixedBound && v.archOK p)) := by
  unfold vulnerableRhel RhelGate.pass
  cases g.vulnRepoNil <;> cases g.recRepoNil <;> cases g.keyOK <;> cases g.unbindOK <;>
    cases g.superset <;> cases g.substring <;> simp

/-! ### go-deb-version matchers -/

/-- When `LessThan` returns, it says whether `v1` is below `v2` in dpkg's order. -/
theorem debLess_ok {v1 v2 : VerDeb.Version} {b : Bool} (h : debLess v1 v2 = .ok b) :
    b = decide (VerDeb.debOrd v1 v2 = .lt) := by
  unfold debLess at h
  cases hc : VerDeb.compare v1 v2 with
  | none => simp [hc] at h
  | some o =>
    simp only [hc, Out.ok.injEq] at h
    rw [← VerDeb.compare_some hc, h]

theorem debLess_cases (v1 v2 : VerDeb.Version) :
    debLess v1 v2 = .hang ∨ debLess v1 v2 = .ok (decide (VerDeb.debOrd v1 v2 = .lt)) := by
  cases hc : VerDeb.compare v1 v2 with
  | none => left; simp [debLess, hc]
  | some o => right; simp [debLess, hc, VerDeb.compare_some hc]

theorem debLess_of_returns {v1 v2 : VerDeb.Version} (h : VerDeb.compare v1 v2 ≠ none) :
    debLess v1 v2 = .ok (decide (VerDeb.debOrd v1 v2 = .lt)) := by
  cases hc : VerDeb.compare v1 v2 with
  | none => exact absurd hc h
  | some o => simp [debLess, hc, VerDeb.compare_some hc]

theorem debLess_ne_err (v1 v2 : VerDeb.Version) : debLess v1 v2 ≠ .err := by
  unfold debLess; split <;> simp

/-- Downward closure for `LessThan`, as far as it returns. -/
theorem debLess_mono {v1 v1' v2 : VerDeb.Version} (h : debLess v1 v2 = .ok true)
    (hle : VerDeb.debOrd v1' v1 ≠ .gt) (hr : debLess v1' v2 ≠ .hang) : debLess v1' v2 = .ok true := by
  have hlt : VerDeb.debOrd v1 v2 = .lt := by
    have := debLess_ok h
    simpa using this.symm
  have hlt' := lt_down VerDeb.debOrd_totalPre hlt hle
  rcases debLess_cases v1' v2 with hh | hh
  · exact absurd hh hr
  · rw [hh, hlt']; rfl

end ClairModel.Matchers
