/-
  Helper lemmas for the matcher theorems of C03.
-/
import ClairModel.Lib.OrderC03
import ClairModel.Model.Matchers
import ClairModel.Proofs.VerRpm
import ClairModel.Proofs.VerDeb
import ClairModel.Proofs.VerApk

namespace ClairModel.Matchers
open ClairModel.Order ClairModel.OrderC03 ClairModel.VerCommon

/-- With a fix named, the rpm family reports exactly the versions strictly below it. -/
theorem rpmBelow_fix {pv f b : Str} (hf : f ≠ []) :
    rpmBelow pv f b = decide (VerRpm.cmpStr pv f = .lt) := by
  simp [rpmBelow, hf]

/-- Without a fix, exactly the versions not above the bound. -/
theorem rpmBelow_nofix {pv b : Str} :
    rpmBelow pv [] b = decide (VerRpm.cmpStr pv b ≠ .gt) := by
  simp [rpmBelow]

/-- Downward closed in the package version. -/
theorem rpmBelow_mono {pv pv' f b : Str} (h : rpmBelow pv f b = true)
    (hle : VerRpm.cmpStr pv' pv ≠ .gt) : rpmBelow pv' f b = true := by
  unfold rpmBelow at *
  split at h
  · next hf =>
    simp only [hf, if_true, ne_eq, not_false_eq_true, decide_eq_true_eq] at h ⊢
    exact lt_down VerRpm.cmpStr_totalPre h hle
  · next hf =>
    simp only [hf, if_false, decide_eq_true_eq] at h ⊢
    exact le_down VerRpm.cmpStr_totalPre h hle

/-- The architecture test of two packages with the same architecture agrees. -/
theorem archOK_congr (v : Vuln) {p p' : Pkg} (h : p'.arch = p.arch) : v.archOK p' = v.archOK p := by
  simp [Vuln.archOK, h]

/-- rhel: the gate, then the aws decision. -/
theorem vulnerableRhel_eq (g : RhelGate) (p : Pkg) (v : Vuln) :
    vulnerableRhel g p v = .ok (g.pass && (rpmBelow p.version v.fixed unfixedBound && v.archOK p)) := by
  unfold vulnerableRhel RhelGate.pass
  cases g.vulnRepoNil <;> cases g.recRepoNil <;> cases g.keyOK <;> cases g.unbindOK <;>
    cases g.superset <;> cases g.substring <;> simp

/-! ### go-deb-version matchers -/

/-- When `LessThan` returns, it says whether `v1` is below `v2` in dpkg's order. -/
theorem debLess_ok {v1 v2 : VerDeb.Version} {b : Bool} (h : debLess v1 v2 = .ok b) :
    b = decide (VerDeb.debOrd v1 v2 = .lt) := by
  unfold debLess at h
  cases hc : VerDeb.compare v1 v2 with
  | none => simp [hc] at h
  | some o =>
    simp only [hc, Out.ok.injEq] at h
    rw [← VerDeb.compare_some hc, h]

theorem debLess_cases (v1 v2 : VerDeb.Version) :
    debLess v1 v2 = .hang ∨ debLess v1 v2 = .ok (decide (VerDeb.debOrd v1 v2 = .lt)) := by
  cases hc : VerDeb.compare v1 v2 with
  | none => left; simp [debLess, hc]
  | some o => right; simp [debLess, hc, VerDeb.compare_some hc]

theorem debLess_of_returns {v1 v2 : VerDeb.Version} (h : VerDeb.compare v1 v2 ≠ none) :
    debLess v1 v2 = .ok (decide (VerDeb.debOrd v1 v2 = .lt)) := by
  cases hc : VerDeb.compare v1 v2 with
  | none => exact absurd hc h
  | some o => simp [debLess, hc, VerDeb.compare_some hc]

theorem debLess_ne_err (v1 v2 : VerDeb.Version) : debLess v1 v2 ≠ .err := by
  unfold debLess; split <;> simp

/-- Downward closure for `LessThan`, as far as it returns. -/
theorem debLess_mono {v1 v1' v2 : VerDeb.Version} (h : debLess v1 v2 = .ok true)
    (hle : VerDeb.debOrd v1' v1 ≠ .gt) (hr : debLess v1' v2 ≠ .hang) : debLess v1' v2 = .ok true := by
  have hlt : VerDeb.debOrd v1 v2 = .lt := by
    have := debLess_ok h
    simpa using this.symm
  have hlt' := lt_down VerDeb.debOrd_totalPre hlt hle
  rcases debLess_cases v1' v2 with hh | hh
  · exact absurd hh hr
  · rw [hh, hlt']; rfl

/-! ### OSV ranges -/

/-- What a query value contributes as a bound: absent (`""`) or a parsed version. -/
def Bound {V : Type} (S : Scheme V) (s : Str) (b : Option V) : Prop :=
  (s = [] ∧ b = none) ∨ (s ≠ [] ∧ S.parse s = b ∧ b.isSome)

/-- `introduced ≤ v` and (`v < fixed` | `v ≤ lastAffected` | nothing). -/
def inRange {V : Type} (S : Scheme V) (rv : V) (intro fix la : Option V) : Bool :=
  (match intro with
   | some iv => decide (S.cmp rv iv ≠ .lt)
   | none => true) &&
  (match fix, la with
   | some fv, _ => decide (S.cmp rv fv = .lt)
   | none, some l => decide (S.cmp rv l ≠ .gt)
   | none, none => true)

theorem vulnerableOsv_eq {V : Type} (S : Scheme V) (p : Pkg) (v : Vuln) (rv : V) (q : List (Str × Str))
    (intro fix la : Option V)
    (hF : v.fixed ≠ []) (hp : S.parse p.version = some rv) (hq : parseQuery v.fixed = some q)
    (hi : Bound S (qget q kIntroduced) intro) (hf : Bound S (qget q kFixed) fix)
    (hl : fix = none → Bound S (qget q kLastAffected) la) :
    vulnerableOsv S p v = .ok (inRange S rv intro fix la) := by
  unfold vulnerableOsv inRange
  simp only [hF, if_false, hp, hq]
  -- introduced
  rcases hi with ⟨hi0, rfl⟩ | ⟨hi1, hi2, hi3⟩
  · simp only [hi0, ne_eq, not_true_eq_false, if_false, Bool.true_and]
    rcases hf with ⟨hf0, rfl⟩ | ⟨hf1, hf2, hf3⟩
    · simp only [hf0, not_true_eq_false, if_false]
      rcases hl rfl with ⟨hl0, rfl⟩ | ⟨hl1, hl2, hl3⟩
      · simp [hl0]
      · cases la with
        | none => simp at hl3
        | some l => simp [hl1, hl2]
    · cases fix with
      | none => simp at hf3
      | some fv => simp [hf1, hf2]
  · cases intro with
    | none => simp at hi3
    | some iv =>
      simp only [ne_eq, hi1, not_false_eq_true, if_true, hi2]
      by_cases hc : S.cmp rv iv = .lt
      · simp [hc]
      · simp only [hc, if_false, not_false_eq_true, decide_true, Bool.true_and]
        rcases hf with ⟨hf0, rfl⟩ | ⟨hf1, hf2, hf3⟩
        · simp only [hf0, not_true_eq_false, if_false]
          rcases hl rfl with ⟨hl0, rfl⟩ | ⟨hl1, hl2, hl3⟩
          · simp [hl0]
          · cases la with
            | none => simp at hl3
            | some l => simp [hl1, hl2]
        · cases fix with
          | none => simp at hf3
          | some fv => simp [hf1, hf2]

/-- The range test is downward closed down to the introduced bound, given
    the two transitivity instances it needs. -/
theorem inRange_mono' {V : Type} (S : Scheme V) {rv rv' : V} {intro fix la : Option V}
    (h : inRange S rv intro fix la = true)
    (hlt : ∀ f, fix = some f → S.cmp rv f = .lt → S.cmp rv' f = .lt)
    (hle : ∀ l, la = some l → S.cmp rv l ≠ .gt → S.cmp rv' l ≠ .gt)
    (hin : ∀ iv, intro = some iv → S.cmp rv' iv ≠ .lt) : inRange S rv' intro fix la = true := by
  unfold inRange at h ⊢
  simp only [Bool.and_eq_true] at h ⊢
  refine ⟨?_, ?_⟩
  · cases intro with
    | none => rfl
    | some iv => simpa using hin iv rfl
  · cases fix with
    | some fv =>
      simp only [decide_eq_true_eq] at h ⊢
      exact hlt fv rfl h.2
    | none =>
      cases la with
      | none => rfl
      | some l =>
        simp only [decide_eq_true_eq] at h ⊢
        exact hle l rfl h.2

theorem inRange_mono {V : Type} (S : Scheme V) (hS : TotalPre S.cmp) {rv rv' : V} {intro fix la : Option V}
    (h : inRange S rv intro fix la = true) (hle : S.cmp rv' rv ≠ .gt)
    (hin : ∀ iv, intro = some iv → S.cmp rv' iv ≠ .lt) : inRange S rv' intro fix la = true :=
  inRange_mono' S h (fun _ _ hlt => lt_down hS hlt hle) (fun _ _ hl => le_down hS hl hle) hin

/-! ### claircore.Version / Range -/

theorem nversion_compare_eq (a b : NVersion) :
    a.compare b = prodCmp strCmp (lexCmp intCmp) (a.kind, a.v) (b.kind, b.v) := by
  unfold NVersion.compare prodCmp
  by_cases h : a.kind = b.kind
  · simp [h, strCmp_totalPre.refl, Ordering.then]
  · have : strCmp a.kind b.kind ≠ .eq := fun e => h (strCmp_eq.1 e)
    simp only [ne_eq, h, not_false_eq_true, if_true]
    cases hh : strCmp a.kind b.kind <;> simp_all [Ordering.then]

theorem nversion_compare_totalPre : TotalPre NVersion.compare := by
  have : NVersion.compare = keyCmp (prodCmp strCmp (lexCmp intCmp)) (fun a : NVersion => (a.kind, a.v)) := by
    funext a b; exact nversion_compare_eq a b
  rw [this]
  exact keyCmp_totalPre (prodCmp_totalPre strCmp_totalPre (lexCmp_totalPre intCmp_totalPre)) _

/-! ### literal alternations -/

theorem isPrefix_iff : ∀ (alt l : Str), isPrefix alt l = true ↔ ∃ suf, l = alt ++ suf
  | [], l => by simp [isPrefix]
  | x :: xs, [] => by simp [isPrefix]
  | x :: xs, y :: ys => by
    simp only [isPrefix, Bool.and_eq_true, decide_eq_true_eq, isPrefix_iff xs ys, List.cons_append,
      List.cons.injEq]
    constructor
    · rintro ⟨rfl, suf, rfl⟩; exact ⟨suf, rfl, rfl⟩
    · rintro ⟨suf, rfl, rfl⟩; exact ⟨rfl, suf, rfl⟩

/-- `isInfix alt a` is `strings.Contains(a, alt)`. -/
theorem isInfix_iff (alt : Str) : ∀ a : Str, isInfix alt a = true ↔ ∃ pre suf, a = pre ++ alt ++ suf
  | [] => by
    simp only [isInfix, List.isEmpty_iff]
    constructor
    · rintro rfl; exact ⟨[], [], rfl⟩
    · rintro ⟨pre, suf, h⟩
      have := congrArg List.length h
      simp at this
      exact List.eq_nil_of_length_eq_zero (by omega)
  | y :: ys => by
    simp only [isInfix, Bool.or_eq_true, isPrefix_iff, isInfix_iff alt ys]
    constructor
    · rintro (⟨suf, h⟩ | ⟨pre, suf, h⟩)
      · exact ⟨[], suf, by simpa using h⟩
      · exact ⟨y :: pre, suf, by simp [h]⟩
    · rintro ⟨pre, suf, h⟩
      cases pre with
      | nil => left; exact ⟨suf, by simpa using h⟩
      | cons z zs =>
        right
        simp only [List.cons_append, List.cons.injEq] at h
        exact ⟨zs, suf, h.2⟩

/-! ### the controller over several records -/

theorem filterAll_ok : ∀ (outs : List Out) (n : Nat), (∀ o ∈ outs, ∃ b, o = .ok b) →
    filterAll outs n = .count (n + outs.countP (· = .ok true))
  | [], n, _ => by simp [filterAll]
  | o :: r, n, h => by
    obtain ⟨b, rfl⟩ := h o (by simp)
    have hr : ∀ o ∈ r, ∃ b, o = .ok b := fun o ho => h o (by simp [ho])
    cases b with
    | true =>
      simp only [filterAll, filterAll_ok r (n + 1) hr, List.countP_cons_of_pos, decide_true]
      congr 1; omega
    | false =>
      simp [filterAll, filterAll_ok r n hr]

end ClairModel.Matchers
