/-
  C18 — printing and parsing, v2: `ParseV2` returns exactly the valid vectors
  (base complete, temporal and environmental groups all-or-none, packed
  bytes) and `parse2 (print2 v) = some v` for every valid vector.
-/
import ClairModel.Proofs.CvssPrint
namespace ClairModel.Cvss
open ClairModel.Gen.Cvss

/-! ### v2: printed form -/

/-- the packed bytes `ParseV2` can store for metric `m` -/
def pk2 (m : Nat) : List Nat := (v2GrammarValues.getD m []).map (v2Pack m)

def piece2 (m b : Nat) : Bytes := nameOf v2Names m ++ cColon :: v2Unparse m b

/-- what `ParseV2` can return -/
structure Valid2 (v : Vec) : Prop where
  len : v.mv.length = 14
  ver : v.ver = 0
  base : ∀ m < 6, v.get m ∈ pk2 m
  temporal : (∀ m, 6 ≤ m → m < 9 → v.get m = 0) ∨ (∀ m, 6 ≤ m → m < 9 → v.get m ∈ pk2 m)
  env : (∀ m, 9 ≤ m → m < 14 → v.get m = 0) ∨ (∀ m, 9 ≤ m → m < 14 → v.get m ∈ pk2 m)

theorem pk2_facts : ∀ m < 14, ∀ b ∈ pk2 m, b ≠ 0 ∧ cSlash ∉ v2Unparse m b ∧
    (v2GrammarValues.getD m []).contains (v2Unparse m b) = true ∧ v2Pack m (v2Unparse m b) = b := by decide

theorem v2_names_facts : ∀ m < 14, cSlash ∉ nameOf v2Names m := by decide

/-- the metrics a valid vector prints, in order -/
def idx2 (v : Vec) : List Nat :=
  v2BaseIdx ++ ((if v.get 6 = 0 then [] else v2TemporalIdx) ++ (if v.get 9 = 0 then [] else v2EnvIdx))

theorem groupText_set (v : Vec) : ∀ ms : List Nat, (∀ m ∈ ms, v.get m ≠ 0) →
    groupText v2Names (v2GetString v) ms = (joinLead cSlash (ms.map fun m => piece2 m (v.get m)), decide (ms ≠ []))
  | [], _ => rfl
  | m :: ms, h => by
    have hm : v.get m ≠ 0 := h m (by simp)
    have ih := groupText_set v ms (fun x hx => h x (List.mem_cons_of_mem _ hx))
    simp [groupText, v2GetString, hm, ih, joinLead_cons, piece2]

theorem groupText_unset (v : Vec) : ∀ ms : List Nat, (∀ m ∈ ms, v.get m = 0 ∧ 6 ≤ m) →
    (groupText v2Names (v2GetString v) ms).2 = false
  | [], _ => rfl
  | m :: ms, h => by
    have hm := h m (by simp)
    have h5 : ¬ m ≤ 5 := by omega
    have ih := groupText_unset v ms (fun x hx => h x (List.mem_cons_of_mem _ hx))
    simp [groupText, v2GetString, hm.1, h5, ih]

theorem pk2_ne_zero {m b : Nat} (hm : m < 14) (hb : b ∈ pk2 m) : b ≠ 0 := (pk2_facts m hm b hb).1

theorem print2_shape (v : Vec) (hv : Valid2 v) :
    print2 v = (joinLead cSlash ((idx2 v).map fun m => piece2 m (v.get m))).drop 1 := by
  have hb : ∀ m ∈ List.range' 0 (6 - 0), v.get m ≠ 0 := by
    intro m hm
    have : m < 6 := by simp [List.mem_range'] at hm; omega
    exact pk2_ne_zero (by omega) (hv.base m this)
  have hT : ∀ m ∈ List.range' 6 (9 - 6), 6 ≤ m ∧ m < 9 := by decide
  have hE : ∀ m ∈ List.range' 9 (14 - 9), 9 ≤ m ∧ m < 14 := by decide
  have r0 : List.range' 0 (6 - 0) = v2BaseIdx := by decide
  have r1 : List.range' 6 (9 - 6) = v2TemporalIdx := by decide
  have r2 : List.range' 9 (14 - 9) = v2EnvIdx := by decide
  have gT : (if (groupText v2Names (v2GetString v) (List.range' 6 (9 - 6))).2 = true
               then (groupText v2Names (v2GetString v) (List.range' 6 (9 - 6))).1 else []) =
      joinLead cSlash ((if v.get 6 = 0 then [] else v2TemporalIdx).map fun m => piece2 m (v.get m)) := by
    rcases hv.temporal with h | h
    · have h6 := h 6 (by decide) (by decide)
      rw [groupText_unset v _ (fun m hm => ⟨h m (hT m hm).1 (hT m hm).2, (hT m hm).1⟩)]
      simp [h6, joinLead]
    · have h6 := pk2_ne_zero (by decide) (h 6 (by decide) (by decide))
      rw [groupText_set v _ (fun m hm => pk2_ne_zero (by have := hT m hm; omega) (h m (hT m hm).1 (hT m hm).2))]
      simp [h6, r1, v2TemporalIdx]
  have gE : (if (groupText v2Names (v2GetString v) (List.range' 9 (14 - 9))).2 = true
               then (groupText v2Names (v2GetString v) (List.range' 9 (14 - 9))).1 else []) =
      joinLead cSlash ((if v.get 9 = 0 then [] else v2EnvIdx).map fun m => piece2 m (v.get m)) := by
    rcases hv.env with h | h
    · have h9 := h 9 (by decide) (by decide)
      rw [groupText_unset v _ (fun m hm => ⟨h m (hE m hm).1 (hE m hm).2, by have := hE m hm; omega⟩)]
      simp [h9, joinLead]
    · have h9 := pk2_ne_zero (by decide) (h 9 (by decide) (by decide))
      rw [groupText_set v _ (fun m hm => pk2_ne_zero (by have := hE m hm; omega) (h m (hE m hm).1 (hE m hm).2))]
      simp [h9, r2, v2EnvIdx]
  simp only [print2, marshalGroups, gT, gE, List.append_nil]
  rw [groupText_set v _ hb]
  simp only [r0, idx2, List.map_append, joinLead_append]
  simp [v2BaseIdx]

/-! ### v2: parsing the printed form -/

theorem splitOn_joinLead_drop (sep : Nat) (ps : List Bytes) (h : ∀ p ∈ ps, sep ∉ p) (hne : ps ≠ []) :
    splitOn sep ((joinLead sep ps).drop 1) = ps := by
  have := splitOn_joinLead sep ps h hne
  cases ps with
  | nil => exact absurd rfl hne
  | cons p ps =>
    rw [joinLead_cons] at this ⊢
    simp only [splitOn, if_true] at this
    simp only [List.drop_succ_cons, List.drop_zero]
    injection this

theorem v2Piece_own {m b : Nat} (hm : m < 14) (hb : b ∈ pk2 m) : v2Piece m (piece2 m b) = some b := by
  obtain ⟨_, _, f3, f4⟩ := pk2_facts m hm b hb
  have hs : stripPrefix (nameOf v2Names m ++ [cColon]) (piece2 m b) = some (v2Unparse m b) := by
    have : piece2 m b = (nameOf v2Names m ++ [cColon]) ++ v2Unparse m b := by simp [piece2]
    rw [this, stripPrefix_append]
  unfold v2Piece
  rw [hs]
  simp only [f3, if_true, f4]

theorem v2Fill_printed (v : Vec) : ∀ (ms : List Nat) (acc : Vec), (∀ m ∈ ms, m < 14 ∧ v.get m ∈ pk2 m) →
    v2Fill ms (ms.map fun m => piece2 m (v.get m)) acc = some (fill3 v ms acc)
  | [], acc, _ => rfl
  | m :: ms, acc, h => by
    have hm := h m (by simp)
    have hz : v.get m ≠ 0 := pk2_ne_zero hm.1 hm.2
    simp only [List.map_cons, v2Fill, v2Piece_own hm.1 hm.2, fill3, hz, if_false]
    exact v2Fill_printed v ms _ (fun x hx => h x (List.mem_cons_of_mem _ hx))

theorem idx2_facts (v : Vec) (hv : Valid2 v) :
    (idx2 v).Nodup ∧ (∀ m ∈ idx2 v, m < 14 ∧ v.get m ∈ pk2 m) ∧ (∀ m < 14, m ∉ idx2 v → v.get m = 0) ∧
    ((idx2 v).length = 6 ∧ idx2 v = v2BaseIdx ∨ (idx2 v).length = 9 ∧ idx2 v = v2BaseIdx ++ v2TemporalIdx ∨
     (idx2 v).length = 11 ∧ idx2 v = v2BaseIdx ++ v2EnvIdx ∨
     (idx2 v).length = 14 ∧ idx2 v = v2BaseIdx ++ v2TemporalIdx ++ v2EnvIdx) := by
  have hb := hv.base
  have memB : ∀ m ∈ v2BaseIdx, m < 6 := by decide
  have memT : ∀ m ∈ v2TemporalIdx, 6 ≤ m ∧ m < 9 := by decide
  have memE : ∀ m ∈ v2EnvIdx, 9 ≤ m ∧ m < 14 := by decide
  have notB : ∀ m < 14, m ∉ v2BaseIdx → 6 ≤ m := by decide
  have notT : ∀ m < 14, m ∉ v2TemporalIdx → m < 6 ∨ 9 ≤ m := by decide
  have notE : ∀ m < 14, m ∉ v2EnvIdx → m < 9 := by decide
  rcases hv.temporal with hT | hT <;> rcases hv.env with hE | hE
  · have h6 := hT 6 (by decide) (by decide)
    have h9 := hE 9 (by decide) (by decide)
    simp only [idx2, h6, h9, if_true, List.append_nil]
    refine ⟨by decide, fun m hm => ⟨by have := memB m hm; omega, hb m (memB m hm)⟩, ?_, Or.inl ⟨by decide, trivial⟩⟩
    intro m hm hn
    have := notB m hm hn
    by_cases h : m < 9
    · exact hT m this h
    · exact hE m (by omega) hm
  · have h6 := hT 6 (by decide) (by decide)
    have h9 := pk2_ne_zero (by decide) (hE 9 (by decide) (by decide))
    simp only [idx2, h6, h9, if_true, if_false, List.nil_append]
    refine ⟨by decide, ?_, ?_, Or.inr (Or.inr (Or.inl ⟨by decide, trivial⟩))⟩
    · intro m hm
      rcases List.mem_append.1 hm with h | h
      · exact ⟨by have := memB m h; omega, hb m (memB m h)⟩
      · exact ⟨(memE m h).2, hE m (memE m h).1 (memE m h).2⟩
    · intro m hm hn
      have h1 := notB m hm (fun e => hn (List.mem_append_left _ e))
      have h2 := notE m hm (fun e => hn (List.mem_append_right _ e))
      exact hT m h1 h2
  · have h6 := pk2_ne_zero (by decide) (hT 6 (by decide) (by decide))
    have h9 := hE 9 (by decide) (by decide)
    simp only [idx2, h6, h9, if_true, if_false, List.append_nil]
    refine ⟨by decide, ?_, ?_, Or.inr (Or.inl ⟨by decide, trivial⟩)⟩
    · intro m hm
      rcases List.mem_append.1 hm with h | h
      · exact ⟨by have := memB m h; omega, hb m (memB m h)⟩
      · exact ⟨by have := memT m h; omega, hT m (memT m h).1 (memT m h).2⟩
    · intro m hm hn
      have h1 := notB m hm (fun e => hn (List.mem_append_left _ e))
      have h2 := notT m hm (fun e => hn (List.mem_append_right _ e))
      exact hE m (by omega) hm
  · have h6 := pk2_ne_zero (by decide) (hT 6 (by decide) (by decide))
    have h9 := pk2_ne_zero (by decide) (hE 9 (by decide) (by decide))
    simp only [idx2, h6, h9, if_false]
    refine ⟨by decide, ?_, ?_, Or.inr (Or.inr (Or.inr ⟨by decide, by simp⟩))⟩
    · intro m hm
      rcases List.mem_append.1 hm with h | h
      · exact ⟨by have := memB m h; omega, hb m (memB m h)⟩
      · rcases List.mem_append.1 h with h | h
        · exact ⟨by have := memT m h; omega, hT m (memT m h).1 (memT m h).2⟩
        · exact ⟨(memE m h).2, hE m (memE m h).1 (memE m h).2⟩
    · intro m hm hn
      exfalso
      have h1 := notB m hm (fun e => hn (List.mem_append_left _ e))
      have h2 := notT m hm (fun e => hn (List.mem_append_right _ (List.mem_append_left _ e)))
      have h3 := notE m hm (fun e => hn (List.mem_append_right _ (List.mem_append_right _ e)))
      omega

/-- printing a valid v2 vector and parsing the text gives the vector back -/
theorem parse2_print2 (v : Vec) (hv : Valid2 v) : parse2 (print2 v) = some v := by
  obtain ⟨hnd, hmem, hout, hlen⟩ := idx2_facts v hv
  have hne : ((idx2 v).map fun m => piece2 m (v.get m)) ≠ [] := by
    simp [idx2, v2BaseIdx]
  have hsep : ∀ p ∈ (idx2 v).map (fun m => piece2 m (v.get m)), cSlash ∉ p := by
    intro p hp
    obtain ⟨m, hm, rfl⟩ := List.mem_map.1 hp
    obtain ⟨hm14, hb⟩ := hmem m hm
    have f := (pk2_facts m hm14 _ hb).2.1
    have g := v2_names_facts m hm14
    intro hin
    simp only [piece2, List.mem_append, List.mem_cons] at hin
    rcases hin with hin | hin | hin
    · exact g hin
    · exact absurd hin (by decide)
    · exact f hin
  have hres : fill3 v (idx2 v) (Vec.empty 14) = v := by
    apply Vec.ext_get
    · rw [fill3_ver]; simp [Vec.empty, hv.ver]
    · rw [fill3_length]; simp [Vec.empty, hv.len]
    · intro j hj
      rw [fill3_length] at hj
      have hj14 : j < 14 := by simpa [Vec.empty] using hj
      rw [fill3_get v _ _ j hnd (by intro m hm; simpa [Vec.empty] using (hmem m hm).1)]
      have he : (Vec.empty 14).get j = 0 := get_empty 14 0 j
      by_cases hjm : j ∈ idx2 v
      · have := pk2_ne_zero (hmem j hjm).1 (hmem j hjm).2
        simp [hjm, this]
      · simp [hjm, he, hout j hj14 hjm]
  have hfill := v2Fill_printed v (idx2 v) (Vec.empty 14) hmem
  rw [print2_shape v hv, parse2]
  rw [splitOn_joinLead_drop cSlash _ hsep hne, List.length_map]
  rcases hlen with ⟨hl, he⟩ | ⟨hl, he⟩ | ⟨hl, he⟩ | ⟨hl, he⟩
  · simp only [hl, if_true]; rw [← he, hfill, hres]
  · simp only [hl, Nat.reduceEqDiff, if_false, if_true]; rw [← he, hfill, hres]
  · simp only [hl, Nat.reduceEqDiff, if_false, if_true]; rw [← he, hfill, hres]
  · simp only [hl, Nat.reduceEqDiff, if_false, if_true]; rw [← he, hfill, hres]

/-! ### what `ParseV2` returns is valid -/

theorem v2Piece_sound {m : Nat} {p : Bytes} {b : Nat} (h : v2Piece m p = some b) : b ∈ pk2 m := by
  unfold v2Piece at h
  split at h
  · simp at h
  · rename_i val _
    split at h
    · rename_i hc
      have : v2Pack m val = b := by simpa using h
      subst this
      exact List.mem_map.2 ⟨val, by simpa using hc, rfl⟩
    · simp at h

theorem v2Fill_sound : ∀ (ms : List Nat) (ps : List Bytes) (acc v : Vec), v2Fill ms ps acc = some v →
    ms.Nodup → (∀ m ∈ ms, m < 14) → acc.mv.length = 14 →
    v.mv.length = 14 ∧ v.ver = acc.ver ∧ (∀ j, j ∉ ms → v.get j = acc.get j) ∧ (∀ m ∈ ms, v.get m ∈ pk2 m)
  | [], [], acc, v, h, _, _, hl => by
    have : acc = v := by simpa [v2Fill] using h
    subst this
    exact ⟨hl, rfl, fun _ _ => rfl, fun m hm => absurd hm (by simp)⟩
  | [], _ :: _, acc, v, h, _, _, _ => by simp [v2Fill] at h
  | _ :: _, [], acc, v, h, _, _, _ => by simp [v2Fill] at h
  | m :: ms, p :: ps, acc, v, h, hnd, hlt, hl => by
    have hm := hlt m (by simp)
    have hnd' : ms.Nodup := (List.nodup_cons.1 hnd).2
    have hnm : m ∉ ms := (List.nodup_cons.1 hnd).1
    have hlt' : ∀ x ∈ ms, x < 14 := fun x hx => hlt x (List.mem_cons_of_mem _ hx)
    unfold v2Fill at h
    split at h
    · simp at h
    · rename_i b hb
      obtain ⟨i1, i2, i3, i4⟩ := v2Fill_sound ms ps _ v h hnd' hlt' (by rw [Vec.set_length]; exact hl)
      have hvm : v.get m = b := by
        rw [i3 m hnm, Vec.get_set_eq _ _ _ (by rw [hl]; exact hm)]
      refine ⟨i1, by rw [i2, Vec.set_ver], ?_, ?_⟩
      · intro j hj
        have hjm : m ≠ j := fun e => hj (by simp [e])
        rw [i3 j (fun e => hj (List.mem_cons_of_mem _ e)), Vec.get_set_ne _ _ _ _ hjm]
      · intro x hx
        rcases List.mem_cons.1 hx with rfl | hx'
        · rw [hvm]; exact v2Piece_sound hb
        · exact i4 x hx'

theorem parse2_sound {s : Bytes} {v : Vec} (h : parse2 s = some v) : Valid2 v := by
  have hl0 : (Vec.empty 14).mv.length = 14 := by simp [Vec.empty]
  have g0 : ∀ j, (Vec.empty 14).get j = 0 := fun j => get_empty 14 0 j
  have inB : ∀ m < 6, m ∈ v2BaseIdx := by decide
  have inT : ∀ m, 6 ≤ m → m < 9 → m ∈ v2TemporalIdx := by
    intro m h1 h2
    have : m = 6 ∨ m = 7 ∨ m = 8 := by omega
    rcases this with rfl | rfl | rfl <;> decide
  have inE : ∀ m, 9 ≤ m → m < 14 → m ∈ v2EnvIdx := by
    intro m h1 h2
    have : m = 9 ∨ m = 10 ∨ m = 11 ∨ m = 12 ∨ m = 13 := by omega
    rcases this with rfl | rfl | rfl | rfl | rfl <;> decide
  have outB : ∀ m, 6 ≤ m → m ∉ v2BaseIdx := by
    intro m h1 hm
    have : ∀ x ∈ v2BaseIdx, x < 6 := by decide
    have := this m hm; omega
  have outT : ∀ m, m < 6 ∨ 9 ≤ m → m ∉ v2TemporalIdx := by
    intro m h1 hm
    have : ∀ x ∈ v2TemporalIdx, 6 ≤ x ∧ x < 9 := by decide
    have := this m hm; omega
  have outE : ∀ m, m < 9 → m ∉ v2EnvIdx := by
    intro m h1 hm
    have : ∀ x ∈ v2EnvIdx, 9 ≤ x := by decide
    have := this m hm; omega
  unfold parse2 at h
  simp only [] at h
  split at h
  · obtain ⟨i1, i2, i3, i4⟩ := v2Fill_sound _ _ _ _ h (by decide) (by decide) hl0
    exact ⟨i1, by rw [i2]; rfl, fun m hm => i4 m (inB m hm),
      Or.inl fun m h1 _ => by rw [i3 m (outB m h1), g0],
      Or.inl fun m h1 _ => by rw [i3 m (outB m (by omega)), g0]⟩
  · split at h
    · obtain ⟨i1, i2, i3, i4⟩ := v2Fill_sound _ _ _ _ h (by decide) (by decide) hl0
      refine ⟨i1, by rw [i2]; rfl, fun m hm => i4 m (List.mem_append_left _ (inB m hm)),
        Or.inr fun m h1 h2 => i4 m (List.mem_append_right _ (inT m h1 h2)),
        Or.inl fun m h1 _ => ?_⟩
      rw [i3 m (fun e => by
        rcases List.mem_append.1 e with e | e
        · exact outB m (by omega) e
        · exact outT m (Or.inr h1) e), g0]
    · split at h
      · obtain ⟨i1, i2, i3, i4⟩ := v2Fill_sound _ _ _ _ h (by decide) (by decide) hl0
        refine ⟨i1, by rw [i2]; rfl, fun m hm => i4 m (List.mem_append_left _ (inB m hm)),
          Or.inl fun m h1 h2 => ?_,
          Or.inr fun m h1 h2 => i4 m (List.mem_append_right _ (inE m h1 h2))⟩
        rw [i3 m (fun e => by
          rcases List.mem_append.1 e with e | e
          · exact outB m h1 e
          · exact outE m h2 e), g0]
      · split at h
        · obtain ⟨i1, i2, i3, i4⟩ := v2Fill_sound _ _ _ _ h (by decide) (by decide) hl0
          exact ⟨i1, by rw [i2]; rfl,
            fun m hm => i4 m (List.mem_append_left _ (List.mem_append_left _ (inB m hm))),
            Or.inr fun m h1 h2 => i4 m (List.mem_append_left _ (List.mem_append_right _ (inT m h1 h2))),
            Or.inr fun m h1 h2 => i4 m (List.mem_append_right _ (inE m h1 h2))⟩
        · simp at h

end ClairModel.Cvss
