/-
  C18 — single steps in the v4 lookup table: the row of a macrovector that is
  one level higher in one equivalence class exists (whenever that macrovector
  is consistent) and does not score higher.  One walk down the sorted table,
  each partner row looked up in the rest of the table only.
-/
import ClairModel.Proofs.CvssV4Tab
namespace ClairModel.Cvss
open ClairModel.Gen.Cvss ClairModel.CvssSpec

/-! ### single steps in the lookup table -/

/-- walk the (sorted) table: the row of a macrovector one level higher in one
    equivalence class is further down and does not score higher -/
def monoTails : List (List Nat × Int) → Bool
  | [] => true
  | e :: rest =>
    ((List.range 6).all fun i =>
      !(v4KeyOk (bump e.1 i)) ||
      match lookupMv rest (bump e.1 i) with
      | some s' => decide (s' ≤ e.2)
      | none => false) && monoTails rest

theorem lookupMv_mem : ∀ (T : List (List Nat × Int)) (k : List Nat) (s : Int), lookupMv T k = some s → (k, s) ∈ T
  | [], _, _, h => by simp [lookupMv] at h
  | (k', s') :: rest, k, s, h => by
    unfold lookupMv at h
    split at h
    · rename_i e
      have : s' = s := by simpa using h
      subst this; subst e
      simp
    · exact List.mem_cons_of_mem _ (lookupMv_mem rest k s h)

theorem monoTails_spec : ∀ (T : List (List Nat × Int)), monoTails T = true → ∀ e ∈ T, ∀ i < 6,
    v4KeyOk (bump e.1 i) = true → ∃ s', (bump e.1 i, s') ∈ T ∧ s' ≤ e.2
  | [], _, e, he, _, _, _ => by simp at he
  | e0 :: rest, h, e, he, i, hi, hk => by
    simp only [monoTails, Bool.and_eq_true, List.all_eq_true] at h
    rcases List.mem_cons.1 he with rfl | he'
    · have := h.1 i (by simp [List.mem_range]; exact hi)
      simp only [hk, Bool.not_true, Bool.false_or] at this
      split at this
      · rename_i s' hl
        exact ⟨s', List.mem_cons_of_mem _ (lookupMv_mem _ _ _ hl), by simpa using this⟩
      · simp at this
    · obtain ⟨s', h1, h2⟩ := monoTails_spec rest h.2 e he' i hi hk
      exact ⟨s', List.mem_cons_of_mem _ h1, h2⟩

set_option maxRecDepth 100000 in
theorem v4_monoTails : monoTails v4MacrovectorScore = true := by decide +kernel

end ClairModel.Cvss
