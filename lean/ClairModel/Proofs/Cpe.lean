/-
  C19 — helper lemmas about the CPE model: the extracted comparison table is
  the specification's table, case folding, comparison laws.
-/
import ClairModel.Model.Cpe
import ClairModel.Model.CpeSpec

namespace ClairModel.Cpe
open ClairModel.CpeTypes

/-! ### the extracted table -/

theorem lookupRow_eq_spec (sk : Kind) (sw : Bool) (tk : Kind) (tw : Bool) :
    lookupRow sk sw tk tw = some (CpeSpec.attrOut sk sw tk tw) := by
  cases sk <;> cases sw <;> cases tk <;> cases tw <;> rfl

/-- `cmpAttr` through the specification's table. -/
def specAttr (s t : Value) : Rel :=
  match CpeSpec.attrOut s.kind (hasWildcard s.v) t.kind (hasWildcard t.v) with
  | .rel r => r
  | .pat a b => if patCompare s.v t.v then a else b
  | .fold a b => if equalFold s.v t.v then a else b

theorem cmpAttr_eq_spec (s t : Value) : cmpAttr s t = specAttr s t := by
  simp only [cmpAttr, specAttr, lookupRow_eq_spec]
  cases CpeSpec.attrOut s.kind (hasWildcard s.v) t.kind (hasWildcard t.v) <;> rfl

/-! ### case folding -/

theorem lowerC_idem (c : Nat) : lowerC (lowerC c) = lowerC c := by
  unfold lowerC
  by_cases h : 65 ≤ c ∧ c ≤ 90
  · have h2 : ¬(65 ≤ c + 32 ∧ c + 32 ≤ 90) := by omega
    simp [h]; omega
  · simp [h]

theorem lower_idem (s : Str) : lower (lower s) = lower s := by
  simp [lower, List.map_map, Function.comp_def, lowerC_idem]

theorem lowerC_eq_iff (c k : Nat) (hk : k < 65 ∨ (90 < k ∧ k < 97) ∨ 122 < k) : lowerC c = k ↔ c = k := by
  unfold lowerC
  by_cases h : 65 ≤ c ∧ c ≤ 90
  · rw [if_pos h]
    constructor <;> intro h' <;> omega
  · simp [h]

theorem equalFold_refl (s : Str) : equalFold s s = true := by simp [equalFold]

theorem equalFold_symm (s t : Str) : equalFold s t = equalFold t s := by
  simp only [equalFold]
  exact BEq.comm

theorem hasWildcardAux_lower (e : Bool) (s : Str) : hasWildcardAux e (lower s) = hasWildcardAux e s := by
  induction s generalizing e with
  | nil => rfl
  | cons c rest ih =>
    have h92 : lowerC c = 92 ↔ c = 92 := lowerC_eq_iff c 92 (by omega)
    have h42 : lowerC c = 42 ↔ c = 42 := lowerC_eq_iff c 42 (by omega)
    have h63 : lowerC c = 63 ↔ c = 63 := lowerC_eq_iff c 63 (by omega)
    simp only [lower, List.map_cons, hasWildcardAux] at ih ⊢
    simp only [h92, h42, h63]
    cases e <;> simp [ih]

theorem hasWildcard_lower (s : Str) : hasWildcard (lower s) = hasWildcard s :=
  hasWildcardAux_lower false s

theorem hasWildcard_of_lower_eq {s s' : Str} (h : lower s = lower s') : hasWildcard s = hasWildcard s' := by
  rw [← hasWildcard_lower s, h, hasWildcard_lower]

theorem patCompare_of_lower_eq {s s' t t' : Str} (hs : lower s = lower s') (ht : lower t = lower t') :
    patCompare s t = patCompare s' t' := by
  simp [patCompare, hs, ht]

theorem equalFold_of_lower_eq {s s' t t' : Str} (hs : lower s = lower s') (ht : lower t = lower t') :
    equalFold s t = equalFold s' t' := by
  simp [equalFold, hs, ht]

end ClairModel.Cpe

namespace ClairModel.Cpe
open ClairModel.CpeTypes

/-! ### comparison laws, one attribute -/

/-- The target is a set value with an unquoted wildcard (the case the matching
    specification leaves undefined). -/
def wildSet (a : Value) : Prop := a.kind = .set ∧ hasWildcard a.v = true

instance (a : Value) : Decidable (wildSet a) := by unfold wildSet; infer_instance

theorem specAttr_self (a : Value) (h : ¬ wildSet a) : specAttr a a = .equal := by
  rcases a with ⟨k, v⟩
  cases k <;> cases hw : hasWildcard v <;>
    simp_all [specAttr, CpeSpec.attrOut, wildSet, equalFold_refl]

theorem specAttr_any (s t : Value) (hs : s.kind = .any ∨ s.kind = .unset) (ht : ¬ wildSet t) :
    specAttr s t = if t.kind = .any ∨ t.kind = .unset then .equal else .superset := by
  rcases s with ⟨sk, sv⟩
  rcases t with ⟨tk, tv⟩
  cases sk <;> cases tk <;> cases hw : hasWildcard tv <;>
    simp_all [specAttr, CpeSpec.attrOut, wildSet]

theorem specAttr_na_set (s t : Value) (hs : s.kind = .na) (ht : t.kind = .set) (hw : hasWildcard t.v = false) :
    specAttr s t = .disjoint := by
  rcases s with ⟨sk, sv⟩
  rcases t with ⟨tk, tv⟩
  simp_all [specAttr, CpeSpec.attrOut]

theorem specAttr_set_na (s t : Value) (hs : s.kind = .set) (ht : t.kind = .na) :
    specAttr s t = .disjoint := by
  rcases s with ⟨sk, sv⟩
  rcases t with ⟨tk, tv⟩
  cases hw : hasWildcard sv <;> simp_all [specAttr, CpeSpec.attrOut]

theorem specAttr_mirror (s t : Value) (hs : ¬ wildSet s) (ht : ¬ wildSet t) :
    specAttr t s = CpeSpec.mirror (specAttr s t) := by
  rcases s with ⟨sk, sv⟩
  rcases t with ⟨tk, tv⟩
  cases sk <;> cases tk <;> cases h1 : hasWildcard sv <;> cases h2 : hasWildcard tv <;>
    simp_all [specAttr, CpeSpec.attrOut, CpeSpec.mirror, wildSet]
  rw [equalFold_symm tv sv]
  split <;> rfl

theorem specAttr_fold_src (s s' t : Value) (hk : s.kind = s'.kind) (hv : lower s.v = lower s'.v) :
    specAttr s t = specAttr s' t := by
  simp only [specAttr, hk, hasWildcard_of_lower_eq hv, patCompare_of_lower_eq hv rfl,
    equalFold_of_lower_eq hv rfl]

theorem specAttr_fold_tgt (s t t' : Value) (hk : t.kind = t'.kind) (hv : lower t.v = lower t'.v) :
    specAttr s t = specAttr s t' := by
  simp only [specAttr, hk, hasWildcard_of_lower_eq hv, patCompare_of_lower_eq rfl hv,
    equalFold_of_lower_eq rfl hv]

/-! ### whole names -/

theorem compare_self (w : WFN) : compare w w = w.map fun a => cmpAttr a a := by
  induction w with
  | nil => rfl
  | cons a w ih => simp_all [compare]

theorem isSuperset_mirror (a b : WFN) (ha : ∀ x ∈ a, ¬ wildSet x) (hb : ∀ x ∈ b, ¬ wildSet x) :
    isSubset (compare b a) = isSuperset (compare a b) := by
  induction a generalizing b with
  | nil => cases b <;> rfl
  | cons x a ih =>
    cases b with
    | nil => rfl
    | cons y b =>
      have hx := ha x (by simp)
      have hy := hb y (by simp)
      have ih' := ih b (fun z hz => ha z (by simp [hz])) (fun z hz => hb z (by simp [hz]))
      simp only [compare, isSubset, isSuperset, List.zipWith_cons_cons, List.all_cons] at ih' ⊢
      rw [ih', cmpAttr_eq_spec, cmpAttr_eq_spec, specAttr_mirror x y hx hy]
      cases specAttr x y <;> rfl

theorem compare_mirror (a b : WFN) (ha : ∀ x ∈ a, ¬ wildSet x) (hb : ∀ x ∈ b, ¬ wildSet x) :
    compare b a = (compare a b).map CpeSpec.mirror := by
  induction a generalizing b with
  | nil => cases b <;> rfl
  | cons x a ih =>
    cases b with
    | nil => rfl
    | cons y b =>
      have hx := ha x (by simp)
      have hy := hb y (by simp)
      have ih' := ih b (fun z hz => ha z (by simp [hz])) (fun z hz => hb z (by simp [hz]))
      simp only [compare, List.zipWith_cons_cons, List.map_cons] at ih' ⊢
      rw [ih', cmpAttr_eq_spec, cmpAttr_eq_spec, specAttr_mirror x y hx hy]

end ClairModel.Cpe
