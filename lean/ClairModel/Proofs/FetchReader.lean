/-
  Helper lemmas for the consumer model of C09 (Model/FetchReader.lean). Core Lean only.
-/
import ClairModel.Model.FetchReader

namespace ClairModel.FetchReader
open ClairModel ClairModel.Bytes

theorem take_take_length {α : Type} (l : List α) (n : Nat) : l.take (l.take n).length = l.take n := by
  induction l generalizing n with
  | nil => simp
  | cons x xs ih =>
    cases n with
    | zero => simp
    | succ n => simp

/-- An operation never changes the payload nor the closed flag. -/
theorem step_frame (s : LState) (c : Nat) (op : ROp) :
    (step s c op).1.payload = s.payload ∧ (step s c op).1.closed = s.closed := by
  cases op <;> simp only [step] <;> repeat' split
  all_goals simp [LState.set]

/-- An operation of consumer `c` leaves every other consumer's cursor alone. -/
theorem step_other (s : LState) (c c' : Nat) (op : ROp) (h : c' ≠ c) :
    (step s c op).1.rd c' = s.rd c' := by
  cases op <;> simp only [step] <;> repeat' split
  all_goals simp [LState.set, h]

/-- Two Layer states look the same to consumer `c`. -/
def Agree (c : Nat) (s s' : LState) : Prop :=
  s.payload = s'.payload ∧ s.closed = s'.closed ∧ s.rd c = s'.rd c

/-- What an operation of `c` returns, and where it leaves `c`'s cursor,
    depends only on the payload, the closed flag and `c`'s own cursor. -/
theorem step_congr (s s' : LState) (c : Nat) (op : ROp) (h : Agree c s s') :
    (step s c op).2 = (step s' c op).2 ∧ Agree c (step s c op).1 (step s' c op).1 := by
  obtain ⟨hp, hc, hr⟩ := h
  cases op <;> simp only [step, hp, hc, hr] <;> repeat' split
  all_goals simp_all [Agree, LState.set]

theorem run_frame (ops : List (Nat × ROp)) : ∀ s : LState,
    (run s ops).1.payload = s.payload ∧ (run s ops).1.closed = s.closed := by
  induction ops with
  | nil => intro s; exact ⟨rfl, rfl⟩
  | cons x xs ih =>
    intro s
    obtain ⟨c, op⟩ := x
    simp only [run]
    have h1 := step_frame s c op
    have h2 := ih (step s c op).1
    exact ⟨h2.1.trans h1.1, h2.2.trans h1.2⟩

theorem run_indep (c : Nat) (ops : List (Nat × ROp)) : ∀ s s' : LState, Agree c s s' →
    (run s ops).2.filter (fun o => o.1 == c) = (run s' (ops.filter (fun o => o.1 == c))).2 ∧
    Agree c (run s ops).1 (run s' (ops.filter (fun o => o.1 == c))).1 := by
  induction ops with
  | nil => intro s s' h; exact ⟨rfl, h⟩
  | cons x xs ih =>
    intro s s' h
    obtain ⟨c0, op⟩ := x
    by_cases hc : c0 = c
    · subst hc
      have hs := step_congr s s' c0 op h
      have := ih (step s c0 op).1 (step s' c0 op).1 hs.2
      simp only [run, List.filter_cons, beq_self_eq_true, if_true]
      exact ⟨by rw [this.1, hs.1], this.2⟩
    · have hne : (c0 == c) = false := by simpa using hc
      have hf := step_frame s c0 op
      have ho := step_other s c0 c op (fun e => hc e.symm)
      have hag : Agree c (step s c0 op).1 s' := ⟨hf.1.trans h.1, hf.2.trans h.2.1, ho.trans h.2.2⟩
      have := ih (step s c0 op).1 s' hag
      simp only [run, List.filter_cons, hne, Bool.false_eq_true, if_false]
      exact this

/-- Every byte string an operation returns is a stretch of the payload. -/
theorem step_bytes (s : LState) (c : Nat) (op : ROp) (b : Bytes) (h : (step s c op).2 = .bytes b) :
    ∃ off, b = (s.payload.drop off).take b.length := by
  cases op with
  | open_ => simp only [step] at h; split at h <;> cases h
  | read n =>
    simp only [step] at h
    repeat' split at h
    all_goals (first | (cases h; done) | skip)
    rename_i p _ _ _
    simp only [ROut.bytes.injEq] at h
    subst h
    exact ⟨p, (take_take_length _ _).symm⟩
  | readAt off n =>
    simp only [step] at h
    repeat' split at h
    all_goals (first | (cases h; done) | skip)
    simp only [ROut.bytes.injEq] at h
    subst h
    exact ⟨off.toNat, (take_take_length _ _).symm⟩
  | seek w off =>
    simp only [step] at h
    repeat' split at h
    all_goals (first | (cases h; done) | skip)
  | copy =>
    simp only [step] at h
    repeat' split at h
    all_goals (first | (cases h; done) | skip)
    · simp only [ROut.bytes.injEq] at h
      subst h
      exact ⟨0, by simp⟩
    · rename_i p _ _ _
      simp only [ROut.bytes.injEq] at h
      subst h
      exact ⟨p, (List.take_of_length_le (Nat.le_refl _)).symm⟩

theorem run_bytes (ops : List (Nat × ROp)) : ∀ (s : LState) (c : Nat) (b : Bytes),
    (c, ROut.bytes b) ∈ (run s ops).2 → ∃ off, b = (s.payload.drop off).take b.length := by
  induction ops with
  | nil => intro s c b h; simp [run] at h
  | cons x xs ih =>
    intro s c b h
    obtain ⟨c0, op⟩ := x
    simp only [run, List.mem_cons] at h
    rcases h with h | h
    · simp only [Prod.mk.injEq] at h
      exact step_bytes s c0 op b h.2.symm
    · have := ih _ c b h
      rwa [(step_frame s c0 op).1] at this

/-- A closed Layer delivers no byte. -/
theorem step_closed (s : LState) (c : Nat) (op : ROp) (b : Bytes) (hc : s.closed = true)
    (h : (step s c op).2 = .bytes b) : b = [] := by
  cases op <;> simp only [step, hc] at h <;> repeat' split at h
  all_goals (first | (cases h; done) | skip)
  all_goals simp_all

/-! ### a consumer using only the sequential interface -/

/-- Concatenation of the byte strings a list of outputs carries. -/
def bytesOf : List (Nat × ROut) → Bytes
  | [] => []
  | (_, .bytes b) :: rest => b ++ bytesOf rest
  | _ :: rest => bytesOf rest

def isSeq : ROp → Bool
  | .read _ => true
  | .copy => true
  | _ => false

theorem take_append_take_drop {α : Type} (q : List α) (n m : Nat) :
    q.take n ++ (q.drop (q.take n).length).take m = q.take ((q.take n).length + m) := by
  induction q generalizing n with
  | nil => simp
  | cons x xs ih =>
    cases n with
    | zero => simp
    | succ n =>
      simp only [List.take_succ_cons, List.length_cons, List.drop_succ_cons, List.cons_append]
      rw [ih n, Nat.add_right_comm]
      rfl

theorem drop_take_append {α : Type} (l : List α) (p n m : Nat) :
    (l.drop p).take n ++ (l.drop (p + ((l.drop p).take n).length)).take m =
      (l.drop p).take (((l.drop p).take n).length + m) := by
  have h1 : l.drop (p + ((l.drop p).take n).length) = (l.drop p).drop ((l.drop p).take n).length := by
    rw [List.drop_drop]
  rw [h1]
  exact take_append_take_drop _ _ _

theorem past_end_empty (l : Bytes) (q : Nat) (B : Bytes) (hB : B = (l.drop q).take B.length)
    (h : l.length ≤ q) : B.length = 0 := by
  have h1 : l.drop q = [] := List.drop_eq_nil_of_le h
  rw [h1] at hB
  rw [hB]
  simp

/-- `Read`s and copies of one consumer, with no other operation of that
    consumer between them, return consecutive bytes of the payload starting at
    its cursor, and the cursor moves by what was returned. -/
theorem seq_run (ops : List (Nat × ROp)) : ∀ (s : LState) (c p : Nat),
    s.closed = false → s.rd c = some p → (∀ o ∈ ops, o.1 = c ∧ isSeq o.2 = true) →
    bytesOf (run s ops).2 = (s.payload.drop p).take (bytesOf (run s ops).2).length ∧
    (run s ops).1.rd c = some (if s.payload.length ≤ p then p else p + (bytesOf (run s ops).2).length) := by
  induction ops with
  | nil => intro s c p _ hr _; simp [run, bytesOf, hr]
  | cons x xs ih =>
    intro s c p hcl hr hall
    obtain ⟨c0, op⟩ := x
    have h0 := hall (c0, op) (by simp)
    have hc0 : c0 = c := h0.1
    subst hc0
    have hrest : ∀ o ∈ xs, o.1 = c0 ∧ isSeq o.2 = true := fun o ho => hall o (by simp [ho])
    cases op with
    | open_ => simp [isSeq] at h0
    | readAt _ _ => simp [isSeq] at h0
    | seek _ _ => simp [isSeq] at h0
    | read n =>
      by_cases hend : s.payload.length ≤ p
      · have hst : step s c0 (.read n) = (s, .eof) := by simp [step, hr, hend]
        have := ih s c0 p hcl hr hrest
        simp only [run, hst, bytesOf]
        simpa [hend] using this
      · have hst : step s c0 (.read n) =
            (s.set c0 (p + ((s.payload.drop p).take n).length), .bytes ((s.payload.drop p).take n)) := by
          simp [step, hr, hend, hcl]
        have hs1 : (s.set c0 (p + ((s.payload.drop p).take n).length)).rd c0 =
            some (p + ((s.payload.drop p).take n).length) := by simp [LState.set]
        have := ih (s.set c0 (p + ((s.payload.drop p).take n).length)) c0 _ (by simpa [LState.set] using hcl) hs1 hrest
        simp only [run, hst, bytesOf]
        simp only [LState.set] at this ⊢
        obtain ⟨hb, hp⟩ := this
        constructor
        · rw [List.length_append]
          conv => lhs; rw [hb]
          exact drop_take_append s.payload p n _
        · rw [hp]
          simp only [hend, if_false, List.length_append]
          congr 1
          by_cases h2 : s.payload.length ≤ p + ((s.payload.drop p).take n).length
          · have hz := past_end_empty _ _ _ hb h2
            simp only [h2, ↓reduceIte]
            omega
          · simp only [h2, ↓reduceIte]
            omega
    | copy =>
      by_cases hend : s.payload.length ≤ p
      · have hst : step s c0 .copy = (s, .bytes []) := by simp [step, hr, hend]
        have := ih s c0 p hcl hr hrest
        simp only [run, hst, bytesOf, List.nil_append]
        simpa [hend] using this
      · have hst : step s c0 .copy = (s.set c0 s.payload.length, .bytes (s.payload.drop p)) := by
          simp [step, hr, hend, hcl]
        have hs1 : (s.set c0 s.payload.length).rd c0 = some s.payload.length := by simp [LState.set]
        have := ih (s.set c0 s.payload.length) c0 _ (by simpa [LState.set] using hcl) hs1 hrest
        simp only [run, hst, bytesOf]
        simp only [LState.set] at this ⊢
        obtain ⟨hb, hp⟩ := this
        have hz : bytesOf (run { payload := s.payload, closed := s.closed, rd := fun i => if i = c0 then some s.payload.length else s.rd i } xs).2 = [] := by
          rw [hb]; simp
        rw [hz] at hp ⊢
        simp only [List.append_nil, hend, if_false]
        refine ⟨by simpa using (List.take_of_length_le (l := s.payload.drop p) (i := s.payload.length - p) (by simp)).symm, ?_⟩
        rw [hp]
        simp only [Nat.le_refl, if_true, List.length_drop]
        congr 1
        omega

end ClairModel.FetchReader
