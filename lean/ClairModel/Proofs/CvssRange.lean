/-
  C18 — bounds on the score equations: every v3 score and every v4 score is
  k/10 with 0 ≤ k ≤ 100, a v3 vector without impact scores 0, the v4 shortcut.
  Proved by bounding the equations (sign and size of the exact rationals),
  the only table facts used are: every v3 weight is ≥ 0, the temporal weights
  are ≤ 1 (decided over the regenerated `Gen.Cvss.v3Weights`).
-/
import ClairModel.Model.CvssSpec

namespace ClairModel.Cvss
open ClairModel.Gen.Cvss ClairModel.CvssSpec

/-! ### sign and size facts about the exact rationals -/

/-- positive denominator -/
def Q.Pos (q : Q) : Prop := 0 < q.d
/-- non-negative value with a positive denominator -/
def Q.NN (q : Q) : Prop := 0 ≤ q.n ∧ 0 < q.d

theorem Q.mul_def (a b : Q) : a * b = ⟨a.n * b.n, a.d * b.d⟩ := rfl
theorem Q.add_def (a b : Q) : a + b = ⟨a.n * b.d + b.n * a.d, a.d * b.d⟩ := rfl
theorem Q.sub_def (a b : Q) : a - b = ⟨a.n * b.d - b.n * a.d, a.d * b.d⟩ := rfl

theorem Q.mul_NN {a b : Q} (ha : a.NN) (hb : b.NN) : (a * b).NN :=
  ⟨Int.mul_nonneg ha.1 hb.1, Nat.mul_pos ha.2 hb.2⟩

theorem Q.add_NN {a b : Q} (ha : a.NN) (hb : b.NN) : (a + b).NN := by
  refine ⟨?_, Nat.mul_pos ha.2 hb.2⟩
  show 0 ≤ a.n * (b.d : Int) + b.n * (a.d : Int)
  have h1 : 0 ≤ a.n * (b.d : Int) := Int.mul_nonneg ha.1 (Int.natCast_nonneg _)
  have h2 : 0 ≤ b.n * (a.d : Int) := Int.mul_nonneg hb.1 (Int.natCast_nonneg _)
  omega

/-- `a ≤ K` for an integer `K`, stated on numerator and denominator -/
def Q.LeInt (a : Q) (K : Int) : Prop := a.n ≤ K * (a.d : Int)

theorem Q.mul_le_one {a w : Q} {K : Int} (hK : 0 ≤ K) (_ha : a.NN) (hak : a.LeInt K) (hw : w.NN) (hw1 : w.n ≤ (w.d : Int)) :
    (a * w).LeInt K := by
  show a.n * w.n ≤ K * ((a.d * w.d : Nat) : Int)
  rw [Int.natCast_mul, ← Int.mul_assoc]
  have h1 : a.n * w.n ≤ (K * (a.d : Int)) * w.n := Int.mul_le_mul_of_nonneg_right hak hw.1
  have h2 : (K * (a.d : Int)) * w.n ≤ (K * (a.d : Int)) * (w.d : Int) :=
    Int.mul_le_mul_of_nonneg_left hw1 (Int.mul_nonneg hK (Int.natCast_nonneg _))
  exact Int.le_trans h1 h2

theorem Q.min_ten_NN {x : Q} (hx : x.NN) : (Q.min x ten).NN ∧ (Q.min x ten).LeInt 10 := by
  unfold Q.min
  split
  · rename_i h
    refine ⟨hx, ?_⟩
    have h' : x.n * ((1 : Nat) : Int) ≤ 10 * (x.d : Int) := by simpa [Q.le, ten, Q.ofInt] using h
    show x.n ≤ 10 * (x.d : Int)
    omega
  · exact ⟨⟨by decide, by decide⟩, by show (10 : Int) ≤ 10 * ((1 : Nat) : Int); decide⟩

theorem v30Roundup10_range {x : Q} (hx : x.NN) (h10 : x.LeInt 10) :
    0 ≤ v30Roundup10 x ∧ v30Roundup10 x ≤ 100 := by
  obtain ⟨hn, hd⟩ := hx
  have hd' : (0 : Int) < ((x.d * 1 : Nat) : Int) := by simp; exact hd
  simp only [v30Roundup10, Q.ceil, Q.mul_def, ten, Q.ofInt]
  have hle : x.n ≤ 10 * (x.d : Int) := h10
  have h1 : -(x.n * 10) / ((x.d * 1 : Nat) : Int) ≤ 0 := Int.ediv_nonpos_of_nonpos_of_neg (by omega) hd'
  have h2 : -100 ≤ -(x.n * 10) / ((x.d * 1 : Nat) : Int) := by
    apply Int.le_ediv_of_mul_le hd'
    simp only [Nat.mul_one]
    omega
  omega

theorem v31Roundup10_range {x : Q} (hx : x.NN) (h10 : x.LeInt 10) :
    0 ≤ v31Roundup10 x ∧ v31Roundup10 x ≤ 100 := by
  obtain ⟨hn, hd⟩ := hx
  have hd' : (0 : Int) < ((x.d * 1 : Nat) : Int) := by simp; exact hd
  have hle : x.n ≤ 10 * (x.d : Int) := h10
  have hnn : 0 ≤ x.n * 100000 := by omega
  simp only [v31Roundup10, Q.trunc, Q.mul_def, Q.ofInt, hnn, if_true]
  generalize hi : x.n * 100000 / ((x.d * 1 : Nat) : Int) = i
  have h0 : 0 ≤ i := by rw [← hi]; exact Int.ediv_nonneg hnn (Int.le_of_lt hd')
  have h1 : i ≤ 1000000 := by
    rw [← hi]
    apply Int.ediv_le_of_le_mul hd'
    simp only [Nat.mul_one]
    omega
  split <;> omega

theorem v3Roundup10_range (ver : Nat) {x : Q} (hx : x.NN) (h10 : x.LeInt 10) :
    0 ≤ v3Roundup10 ver x ∧ v3Roundup10 ver x ≤ 100 := by
  unfold v3Roundup10
  split
  · exact v30Roundup10_range hx h10
  · exact v31Roundup10_range hx h10

/-- a weight in [0, 1] -/
def Q.Unit (w : Q) : Prop := w.NN ∧ w.n ≤ (w.d : Int)

/-- the two Roundup steps of `V3.Score` stay in [0, 10] -/
theorem v3Finish_range (ver scope : Nat) {impact expl e rl rc : Q}
    (hi : impact.Pos) (hx : expl.NN) (he : e.Unit) (hrl : rl.Unit) (hrc : rc.Unit) :
    0 ≤ v3Finish ver scope impact expl e rl rc ∧ v3Finish ver scope impact expl e rl rc ≤ 100 := by
  unfold v3Finish
  split
  · exact ⟨Int.le_refl 0, by decide⟩
  · rename_i hle
    have hipos : 0 < impact.n := by
      have h' : ¬ (impact.n * ((1 : Nat) : Int) ≤ 0 * (impact.d : Int)) := by simpa [Q.le, Q.ofInt] using hle
      omega
    have himp : impact.NN := ⟨Int.le_of_lt hipos, hi⟩
    have hmod : (if scope = cC then Q.dec 108 100 else one).NN := by
      split
      · exact ⟨by decide, by decide⟩
      · exact ⟨by decide, by decide⟩
    have hsum := Q.mul_NN hmod (Q.add_NN himp hx)
    obtain ⟨hmin, hmin10⟩ := Q.min_ten_NN hsum
    obtain ⟨hb0, hb100⟩ := v3Roundup10_range ver hmin hmin10
    simp only []
    generalize v3Roundup10 ver (Q.min ((if scope = cC then Q.dec 108 100 else one) * (impact + expl)) ten) = base10 at hb0 hb100
    have htb : (tenth base10).NN := ⟨hb0, by show 0 < 10; omega⟩
    have htb10 : (tenth base10).LeInt 10 := by
      show base10 ≤ 10 * ((10 : Nat) : Int)
      omega
    have t1 := Q.mul_le_one (by decide) htb htb10 he.1 he.2
    have n1 := Q.mul_NN htb he.1
    have t2 := Q.mul_le_one (by decide) n1 t1 hrl.1 hrl.2
    have n2 := Q.mul_NN n1 hrl.1
    have t3 := Q.mul_le_one (by decide) n2 t2 hrc.1 hrc.2
    have n3 := Q.mul_NN n2 hrc.1
    exact v3Roundup10_range ver n3 t3

/-! ### the weights that reach the equations -/

theorem Q.mul_Pos {a b : Q} (ha : a.Pos) (hb : b.Pos) : (a * b).Pos := Nat.mul_pos ha hb
theorem Q.add_Pos {a b : Q} (ha : a.Pos) (hb : b.Pos) : (a + b).Pos := Nat.mul_pos ha hb
theorem Q.sub_Pos {a b : Q} (ha : a.Pos) (hb : b.Pos) : (a - b).Pos := Nat.mul_pos ha hb
theorem Q.pow_Pos {a : Q} (ha : a.Pos) : ∀ k, (Q.pow a k).Pos
  | 0 => by show 0 < 1; omega
  | k + 1 => Q.mul_Pos (Q.pow_Pos ha k) ha
theorem Q.min_Pos {a b : Q} (ha : a.Pos) (hb : b.Pos) : (Q.min a b).Pos := by
  unfold Q.min; split <;> assumption
theorem Q.dec_Pos (i : Int) {s : Nat} (hs : 0 < s) : (Q.dec i s).Pos := hs
theorem one_Pos : one.Pos := by show 0 < 1; omega

theorem getD_mem {α : Type} : ∀ (l : List (Option α)) (i : Nat) (x : α), l.getD i none = some x → some x ∈ l
  | [], i, x, h => by simp at h
  | a :: l, 0, x, h => by
    have : a = some x := by simpa using h
    simp [this]
  | a :: l, i + 1, x, h => by
    have : l.getD i none = some x := by simpa using h
    exact List.mem_cons_of_mem _ (getD_mem l i x this)

theorem getD_row_mem {α : Type} : ∀ (W : List (List α)) (m : Nat), W.getD m [] = [] ∨ W.getD m [] ∈ W
  | [], m => by simp
  | r :: W, 0 => by simp
  | r :: W, m + 1 => by
    rcases getD_row_mem W m with h | h
    · left; simpa using h
    · right; simp only [List.getD_cons_succ]; exact List.mem_cons_of_mem _ h

def cellAll (p : Int → Bool) : Option Int → Bool
  | none => true
  | some x => p x

/-- every weight in the table is non-negative -/
theorem v3Weights_nonneg : ∀ row ∈ v3Weights, ∀ c ∈ row, cellAll (fun x => decide (0 ≤ x)) c = true := by
  decide

/-- the temporal weights are at most 1 -/
theorem v3Weights_temporal_le_one : ∀ m, 8 ≤ m → m ≤ 10 → ∀ c ∈ v3Weights.getD m [],
    cellAll (fun x => decide (x ≤ 1000)) c = true := by
  intro m h1 h2
  have : m = 8 ∨ m = 9 ∨ m = 10 := by omega
  rcases this with rfl | rfl | rfl <;> decide

theorem weightAt_v3 {m idx : Nat} {w : Q} (h : weightAt v3Weights m idx = some w) :
    ∃ x : Int, w = milli x ∧ some x ∈ v3Weights.getD m [] ∧ 0 ≤ x := by
  unfold weightAt at h
  split at h
  · simp at h
  · rename_i x hx
    have hw : w = milli x := by simpa using h.symm
    have hmem := getD_mem _ _ _ hx
    refine ⟨x, hw, hmem, ?_⟩
    rcases getD_row_mem v3Weights m with h0 | h0
    · rw [h0] at hmem; simp at hmem
    · simpa [cellAll] using v3Weights_nonneg _ h0 _ hmem

theorem v3Val_NN {v : Vec} {m : Nat} {w : Q} (h : v3Val v m = some w) : w.NN := by
  unfold v3Val at h
  split at h
  · simp at h
  · obtain ⟨x, rfl, _, hx⟩ := weightAt_v3 h
    exact ⟨hx, by show 0 < 1000; omega⟩

theorem v3Val_Unit {v : Vec} {m : Nat} {w : Q} (h1 : 8 ≤ m) (h2 : m ≤ 10) (h : v3Val v m = some w) : w.Unit := by
  refine ⟨v3Val_NN h, ?_⟩
  unfold v3Val at h
  split at h
  · simp at h
  · obtain ⟨x, rfl, hmem, _⟩ := weightAt_v3 h
    have := v3Weights_temporal_le_one m h1 h2 _ hmem
    simp only [cellAll, decide_eq_true_eq] at this
    exact this

theorem v3PrVal_NN {v : Vec} {sm pm : Nat} {w : Q} (h : v3PrVal v sm pm = some w) : w.NN := by
  unfold v3PrVal at h
  split at h
  · have : w = Q.dec 68 100 := by simpa using h.symm
    subst this; exact ⟨by decide, by show 0 < 100; omega⟩
  · split at h
    · have : w = Q.dec 50 100 := by simpa using h.symm
      subst this; exact ⟨by decide, by show 0 < 100; omega⟩
    · exact v3Val_NN h

theorem v3Exploitability_NN {v : Vec} {env : Bool} {x : Q} (h : v3Exploitability v env = some x) : x.NN := by
  have c822 : (Q.dec 822 100).NN := ⟨by decide, by show 0 < 100; omega⟩
  unfold v3Exploitability at h
  split at h
  · split at h
    · rename_i av ac pr ui h1 h2 h3 h4
      have : x = av * ac * pr * ui * Q.dec 822 100 := by simpa using h.symm
      subst this
      exact Q.mul_NN (Q.mul_NN (Q.mul_NN (Q.mul_NN (v3Val_NN h1) (v3Val_NN h2)) (v3PrVal_NN h3)) (v3Val_NN h4)) c822
    · simp at h
  · split at h
    · rename_i av ac pr ui h1 h2 h3 h4
      have : x = av * ac * pr * ui * Q.dec 822 100 := by simpa using h.symm
      subst this
      exact Q.mul_NN (Q.mul_NN (Q.mul_NN (Q.mul_NN (v3Val_NN h1) (v3Val_NN h2)) (v3PrVal_NN h3)) (v3Val_NN h4)) c822
    · simp at h

theorem v3Iss_Pos {v : Vec} {env : Bool} {iss : Q} (h : v3Iss v env = some iss) : iss.Pos := by
  unfold v3Iss at h
  split at h
  · split at h
    · rename_i cr ir ar mc mi ma h1 h2 h3 h4 h5 h6
      have : iss = Q.min (Q.dec 915 1000) (one - ((one - cr * mc) * (one - ir * mi) * (one - ar * ma))) := by
        simpa using h.symm
      subst this
      have p (a b : Q) (ha : a.NN) (hb : b.NN) : (one - a * b).Pos := Q.sub_Pos one_Pos (Q.mul_Pos ha.2 hb.2)
      exact Q.min_Pos (by show 0 < 1000; omega)
        (Q.sub_Pos one_Pos (Q.mul_Pos (Q.mul_Pos (p _ _ (v3Val_NN h1) (v3Val_NN h4)) (p _ _ (v3Val_NN h2) (v3Val_NN h5)))
          (p _ _ (v3Val_NN h3) (v3Val_NN h6))))
    · simp at h
  · split at h
    · rename_i c i a h1 h2 h3
      have : iss = one - ((one - c) * (one - i) * (one - a)) := by simpa using h.symm
      subst this
      have p (a : Q) (ha : a.NN) : (one - a).Pos := Q.sub_Pos one_Pos ha.2
      exact Q.sub_Pos one_Pos (Q.mul_Pos (Q.mul_Pos (p _ (v3Val_NN h1)) (p _ (v3Val_NN h2))) (p _ (v3Val_NN h3)))
    · simp at h

theorem v3Impact_Pos {ver : Nat} {env : Bool} {scope : Nat} {iss impact : Q} (hiss : iss.Pos)
    (h : v3Impact ver env scope iss = some impact) : impact.Pos := by
  unfold v3Impact at h
  simp only [] at h
  split at h
  · have : impact = Q.dec 642 100 * iss := by simpa using h.symm
    subst this
    exact Q.mul_Pos (by show 0 < 100; omega) hiss
  · split at h
    · have hs : (if env = true ∧ ver = 1 then Q.dec 9731 10000 else one).Pos := by
        split
        · show 0 < 10000; omega
        · exact one_Pos
      have := (Option.some.inj h).symm
      subst this
      exact Q.sub_Pos (Q.mul_Pos (by show 0 < 100; omega) (Q.sub_Pos hiss (by show 0 < 1000; omega)))
        (Q.mul_Pos (by show 0 < 100; omega) (Q.pow_Pos (Q.sub_Pos (Q.mul_Pos hiss hs) (by show 0 < 100; omega)) _))
    · simp at h

/-- every score `V3.Score` produces is k/10 with 0 ≤ k ≤ 100 (base, temporal
    and environmental vectors alike), by bounding the equations -/
theorem score3_range {v : Vec} {k : Int} (h : score3 v = some k) : 0 ≤ k ∧ k ≤ 100 := by
  unfold score3 at h
  split at h
  · simp at h
  · simp only [] at h
    split at h
    · simp at h
    · rename_i iss hiss
      split at h
      · rename_i impact expl e rl rc h1 h2 h3 h4 h5
        have := (Option.some.inj h).symm
        subst this
        exact v3Finish_range _ _ (v3Impact_Pos (v3Iss_Pos hiss) h1) (v3Exploitability_NN h2)
          (v3Val_Unit (by decide) (by decide) h3) (v3Val_Unit (by decide) (by decide) h4)
          (v3Val_Unit (by decide) (by decide) h5)
      · simp at h


/-! ### v4: range, zero -/

theorem roundHalfAway_clamp_range (y : Q) :
    0 ≤ Q.roundHalfAway (Q.min (Q.max y (Q.ofInt 0)) ten * ten) ∧
    Q.roundHalfAway (Q.min (Q.max y (Q.ofInt 0)) ten * ten) ≤ 100 := by
  unfold Q.max
  split
  · -- y ≤ 0: the value is 0
    decide
  · rename_i hle
    have hpos : 0 < y.n := by
      have h' : ¬ (y.n * ((1 : Nat) : Int) ≤ 0 * (y.d : Int)) := by simpa [Q.le, Q.ofInt] using hle
      omega
    unfold Q.min
    split
    · rename_i h10
      have h' : y.n * ((1 : Nat) : Int) ≤ 10 * (y.d : Int) := by simpa [Q.le, ten, Q.ofInt] using h10
      have hd : (0 : Int) < (y.d : Int) := by omega
      have hnn : (0 : Int) ≤ y.n * 10 := by omega
      show 0 ≤ Q.roundHalfAway ⟨y.n * 10, y.d * 1⟩ ∧ Q.roundHalfAway ⟨y.n * 10, y.d * 1⟩ ≤ 100
      simp only [Q.roundHalfAway, hnn, if_true, Nat.mul_one]
      constructor
      · exact Int.ediv_nonneg (by omega) (by omega)
      · have : (2 * (y.n * 10) + (y.d : Int)) / (2 * (y.d : Int)) < 101 :=
          Int.ediv_lt_of_lt_mul (by omega) (by omega)
        omega
    · decide

/-- `V4.Score` is k/10 with 0 ≤ k ≤ 100 for every vector (the final clamp and
    `math.Round`), whatever the tables contain -/
theorem score4_range (v : Vec) : 0 ≤ score4 v ∧ score4 v ≤ 100 := by
  unfold score4 score4x
  split
  · decide
  · exact roundHalfAway_clamp_range _

/-- the shortcut of `V4.Score` -/
theorem score4_zero_of_no_base_impact (v : Vec) (h : v4NoBaseImpact v = true) : score4 v = 0 := by
  simp [score4, score4x, h]

/-! ### v3: no impact -/

theorem v3Val_N (v : Vec) (m : Nat) (hm : m = 5 ∨ m = 6 ∨ m = 7) (h : v.get m = cN) : v3Val v m = some (milli 0) := by
  rcases hm with rfl | rfl | rfl <;> simp only [v3Val, v3ScoreByte, h] <;> rfl

/-- a v3 vector without environmental metrics whose C, I and A are all None scores 0 -/
theorem score3_zero_of_no_impact (v : Vec) (henv : v3Environmental v = false)
    (hc : v.get 5 = cN) (hi : v.get 6 = cN) (ha : v.get 7 = cN) {k : Int} (h : score3 v = some k) : k = 0 := by
  have e5 := v3Val_N v 5 (by simp) hc
  have e6 := v3Val_N v 6 (by simp) hi
  have e7 := v3Val_N v 7 (by simp) ha
  unfold score3 at h
  split at h
  · simp at h
  · rename_i hver
    have hv : v.ver = 0 ∨ v.ver = 1 := by omega
    simp only [henv, v3Iss, e5, e6, e7, v3Scope, Bool.false_eq_true, ↓reduceIte] at h
    split at h
    · rename_i impact expl e rl rc h1 h2 h3 h4 h5
      have := (Option.some.inj h).symm
      subst this
      unfold v3Impact at h1
      simp only [Bool.false_eq_true, and_false, false_and, ↓reduceIte] at h1
      split at h1
      · have := (Option.some.inj h1).symm
        subst this
        unfold v3Finish
        rw [if_pos (by decide)]
      · split at h1
        · have := (Option.some.inj h1).symm
          subst this
          unfold v3Finish
          rw [if_pos (by decide)]
        · simp at h1
    · simp at h

end ClairModel.Cvss
