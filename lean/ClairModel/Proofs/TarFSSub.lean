/-
  C11: Sub returns exactly the subtree (after the fix 88b9d780).
-/
import ClairModel.Proofs.TarFSInv
set_option linter.unusedSimpArgs false
set_option linter.unnecessarySimpa false
namespace ClairModel.TarFS

/-! ### Sub -/

theorem cleanStep_nil (r : Bool) (st : List Bytes) : cleanStep r st [] = st := by simp [cleanStep]

/-- A contained name other than "." comes back unchanged from
    `normPath("/" + r)`. -/
theorem normPath_rooted {r : Bytes} (h : Contained r) (hd : r ≠ dotP) : normPath (SL :: r) = r := by
  obtain ⟨hu, hg⟩ := contained_iff.1 h
  have hg : ∀ e ∈ splitSlash r, GoodElem e := by
    rcases hg with hg | hg
    · exact absurd hg hd
    · exact hg
  have hne : r ≠ [] := by
    intro e; subst e
    have := hg [] (by simp [splitSlash])
    exact this.1 rfl
  have hj : (pathJoin2 [SL] (SL :: r)).drop 1 = r := by
    simp only [pathJoin2]
    simp only [List.cons_ne_nil, false_and, if_false, List.cons_append, List.nil_append]
    rw [clean_rooted]
    simp only [List.drop_succ_cons, List.drop_zero]
    rw [splitSlash_slash, splitSlash_slash, splitSlash_slash]
    simp only [cleanComps, List.foldl_cons, cleanStep_nil]
    rw [foldl_cleanStep_good true _ hg]
    simp [joinSlash_splitSlash]
  unfold normPath
  simp only [hj, hne, if_false, (validUtf8_iff r).2 hu, if_true]

theorem mem_splitSlash_suffix {a b : Bytes} {e : Bytes} (he : e ∈ splitSlash b) : e ∈ splitSlash (a ++ SL :: b) := by
  rw [splitSlash_append_slash]; exact List.mem_append_right _ he

/-- The part of a contained name after a "/" is contained. -/
theorem contained_suffix {a b : Bytes} (h : Contained (a ++ SL :: b)) : Contained b ∧ b ≠ dotP := by
  obtain ⟨hu, hg⟩ := contained_iff.1 h
  have hg : ∀ e ∈ splitSlash (a ++ SL :: b), GoodElem e := by
    rcases hg with hg | hg
    · exfalso
      cases a with
      | nil => simp [dotP] at hg; exact absurd hg.1 (by decide)
      | cons x xs => simp [dotP] at hg
    · exact hg
  have hb : ∀ e ∈ splitSlash b, GoodElem e := fun e he => hg e (mem_splitSlash_suffix he)
  refine ⟨contained_iff.2 ⟨(ValidU_split_slash _ hu a b rfl).2, Or.inr hb⟩, ?_⟩
  intro e; subst e
  have := hb dotP (by decide)
  exact this.2.1 rfl

theorem isPrefixOf_append (a b : Bytes) : List.isPrefixOf a (a ++ b) = true :=
  List.isPrefixOf_iff_prefix.2 ⟨b, rfl⟩

theorem isPrefixOf_elim {a s : Bytes} (h : List.isPrefixOf a s = true) : ∃ b, s = a ++ b := by
  obtain ⟨b, hb⟩ := List.isPrefixOf_iff_prefix.1 h
  exact ⟨b, hb.symm⟩

/-- What Sub keeps of one entry of the lookup table (`bp` is not "."). -/
def subEntry (bp : Bytes) (x : Bytes × Nat) : Option (Bytes × Nat) :=
  if x.1 = bp ∨ hasPrefix x.1 (bp ++ [SL]) then some (normPath (trimPrefix x.1 bp), x.2) else none

theorem subFS_lookup (fs fs' : FS) (dir : Bytes) (n : Nat) (hn : getInode fs dir = .ok n)
    (hs : subFS fs dir = .ok fs') :
    fs'.inodes = fs.inodes ∧
    fs'.lookup = if (fs.ino n).name = dotP then fs.lookup else fs.lookup.filterMap (subEntry (fs.ino n).name) := by
  unfold subFS at hs
  simp only [hn] at hs
  cases hs
  refine ⟨rfl, ?_⟩
  split
  · rename_i hdot
    simp only [hdot, if_true]
    induction fs.lookup with
    | nil => rfl
    | cons x xs ih => simp [List.filterMap_cons, ih]
  · rename_i hdot
    simp only [hdot, if_false]
    congr 1


theorem normPath_nil : normPath [] = dotP := by decide

theorem trimPrefix_self (bp : Bytes) : trimPrefix bp bp = [] := by
  unfold trimPrefix
  have : List.isPrefixOf bp bp = true := by simpa using isPrefixOf_append bp []
  simp [this]

theorem trimPrefix_append (bp b : Bytes) : trimPrefix (bp ++ b) bp = b := by
  unfold trimPrefix
  simp [isPrefixOf_append]

/-- Sub is faithful: in the view `Sub(dir)` returns (for a directory whose
    name is not ".") the lookup table holds exactly "." for the directory
    itself and `r` for every key `name/r` of the original table. -/
theorem subFS_entries (fs fs' : FS) (dir : Bytes) (n : Nat) (hinv : Inv fs)
    (hn : getInode fs dir = .ok n) (hs : subFS fs dir = .ok fs') (hbp : (fs.ino n).name ≠ dotP) :
    ∀ (r : Bytes) (i : Nat), (r, i) ∈ fs'.lookup ↔
      (r = dotP ∧ ((fs.ino n).name, i) ∈ fs.lookup) ∨
      (r ≠ dotP ∧ ((fs.ino n).name ++ SL :: r, i) ∈ fs.lookup) := by
  intro r i
  have hl := (subFS_lookup fs fs' dir n hn hs).2
  simp only [hbp, if_false] at hl
  rw [hl]
  generalize (fs.ino n).name = bp at hbp ⊢
  simp only [List.mem_filterMap]
  constructor
  · rintro ⟨⟨k, j⟩, hmem, hsub⟩
    simp only [subEntry] at hsub
    split at hsub
    · rename_i hcond
      simp only [Option.some.injEq, Prod.mk.injEq] at hsub
      obtain ⟨hr, rfl⟩ := hsub
      by_cases hk : k = bp
      · subst hk
        left
        rw [trimPrefix_self, normPath_nil] at hr
        exact ⟨hr.symm, hmem⟩
      · have hp : hasPrefix k (bp ++ [SL]) = true := by
          rcases hcond with h | h
          · exact absurd h hk
          · exact h
        obtain ⟨b, hb⟩ := isPrefixOf_elim hp
        have hb' : k = bp ++ SL :: b := by rw [hb]; simp
        subst hb'
        have hc := contained_suffix (hinv.keys _ hmem)
        rw [trimPrefix_append, normPath_rooted hc.1 hc.2] at hr
        subst hr
        right
        exact ⟨hc.2, hmem⟩
    · cases hsub
  · rintro (⟨rfl, hmem⟩ | ⟨hr, hmem⟩)
    · refine ⟨(bp, i), hmem, ?_⟩
      simp [subEntry, trimPrefix_self, normPath_nil]
    · refine ⟨(bp ++ SL :: r, i), hmem, ?_⟩
      have hc := contained_suffix (hinv.keys _ hmem)
      have hp : hasPrefix (bp ++ SL :: r) (bp ++ [SL]) = true := by
        have := isPrefixOf_append (bp ++ [SL]) r
        simpa [hasPrefix] using this
      simp [subEntry, hp, trimPrefix_append, normPath_rooted hc.1 hc.2]

/-- `Sub` of the root (any name that resolves to the inode named ".") keeps the table as it is. -/
theorem subFS_root (fs fs' : FS) (dir : Bytes) (n : Nat)
    (hn : getInode fs dir = .ok n) (hs : subFS fs dir = .ok fs') (hbp : (fs.ino n).name = dotP) :
    fs'.lookup = fs.lookup := by
  have hl := (subFS_lookup fs fs' dir n hn hs).2
  simpa [hbp] using hl

/-- The filter `Sub` used before the fix 88b9d780: `strings.HasPrefix(name, dir)`. -/
def subEntryLegacy (bp : Bytes) (x : Bytes × Nat) : Option (Bytes × Nat) :=
  if hasPrefix x.1 bp then some (normPath (trimPrefix x.1 bp), x.2) else none

/-- With that filter, Sub("a") exposed the entry "ab/y" of a sibling directory as "b/y". -/
theorem subEntryLegacy_leaks :
    subEntryLegacy [97] ([97, 98, 47, 121], 3) = some ([98, 47, 121], 3) := by decide

end ClairModel.TarFS
