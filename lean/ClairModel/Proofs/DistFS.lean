/-
  C01 — the distribution an environment is tagged with, against the distribution the same
  scanner finds on the flattened image.  Core Lean only.
-/
import ClairModel.Proofs.CoalesceExact

namespace ClairModel.LayerFS
open ClairModel.Coalesce

/-! ### the flattened image's copy of a file that no layer hides is the newest layer's copy -/

theorem presentRev_nohide (ls : List FSLayer) (f : String) (h : ∀ l ∈ ls, hides l f = false) :
    presentRev ls f = firstSome (ls.map fun l => fileOf l f) := by
  induction ls with
  | nil => rfl
  | cons l rest ih =>
    simp only [presentRev, List.map_cons]
    have hrest := ih fun x hx => h x (List.mem_cons_of_mem _ hx)
    cases hf : fileOf l f with
    | some c => simp [firstSome]
    | none => simp [firstSome, h l List.mem_cons_self, hrest]

/-! ### stability: the ecosystem's distribution scanner gives one answer wherever its file exists -/

/-- the distribution file of the ecosystem of database `d` is never hidden, and every layer that
    carries it makes the scanner say the same thing -/
def distStableAt (S : Scanners) (layers : List FSLayer) (rh : Bool) (d : String) : Prop :=
  (∀ l ∈ layers, hides l (S.distFile rh d) = false) ∧
  ∀ l ∈ layers, ∀ l' ∈ layers, ∀ c ∈ fileOf l (S.distFile rh d), ∀ c' ∈ fileOf l' (S.distFile rh d),
    S.scanDist rh d c = S.scanDist rh d c'

instance (S : Scanners) (layers : List FSLayer) (rh : Bool) (d : String) : Decidable (distStableAt S layers rh d) := by
  unfold distStableAt; infer_instance

/-- `DistStable`: every OS ecosystem's distribution scanner is stable over the history (no
    distribution upgrade, no release file deleted) -/
def DistStable (S : Scanners) (layers : List FSLayer) : Prop :=
  (∀ d ∈ S.osDbs, distStableAt S layers false d) ∧ (∀ d ∈ S.rhelDbs, distStableAt S layers true d)

instance (S : Scanners) (layers : List FSLayer) : Decidable (DistStable S layers) := by
  unfold DistStable; infer_instance

/-- the distribution id the ecosystem's scanner yields on the flattened image ("" = none) -/
def imgDistId (S : Scanners) (rh : Bool) (d : String) (layers : List FSLayer) : String :=
  distIdOf (imageDist S rh d layers)

theorem firstSome_map_bind {α β : Type} (l : List (Option α)) (g : α → Option β) (od : Option β)
    (h : ∀ x ∈ l, ∀ c, x = some c → g c = od) : (firstSome l).bind g = if l.any (·.isSome) then od else none := by
  induction l with
  | nil => rfl
  | cons o l ih =>
    cases o with
    | none =>
      simp only [firstSome, List.any_cons, Option.isSome_none, Bool.false_or]
      exact ih fun x hx => h x (List.mem_cons_of_mem _ hx)
    | some c => simp [firstSome, h (some c) List.mem_cons_self c rfl]

/-- under stability: one answer `od`; every layer's scan gives nothing or `od`; the image gives `od`
    exactly when some layer's scan gives something -/
theorem distStable_spec {S : Scanners} {layers : List FSLayer} {rh : Bool} {d : String}
    (hs : distStableAt S layers rh d) :
    ∃ od : Option Dist, (∀ l ∈ layers, distOf S rh d l = none ∨ distOf S rh d l = od) ∧
      imageDist S rh d layers = if layers.any (fun l => (distOf S rh d l).isSome) then od else none := by
  obtain ⟨hh, heq⟩ := hs
  -- the image's answer
  have himg : imageDist S rh d layers =
      (firstSome (layers.reverse.map fun l => fileOf l (S.distFile rh d))).bind (S.scanDist rh d) := by
    unfold imageDist present
    rw [presentRev_nohide _ _ (fun l hl => hh l (List.mem_reverse.1 hl))]
    cases firstSome (layers.reverse.map fun l => fileOf l (S.distFile rh d)) <;> rfl
  -- pick the answer
  cases hany : layers.find? (fun l => (fileOf l (S.distFile rh d)).isSome) with
  | none =>
    have hno : ∀ l ∈ layers, fileOf l (S.distFile rh d) = none := by
      intro l hl
      have := List.find?_eq_none.1 hany l hl
      cases hf : fileOf l (S.distFile rh d) with
      | none => rfl
      | some c => simp [hf] at this
    refine ⟨none, fun l hl => Or.inl (by simp [distOf, hno l hl]), ?_⟩
    have h1 : firstSome (layers.reverse.map fun l => fileOf l (S.distFile rh d)) = none := by
      rw [firstSome_none]
      intro x hx
      obtain ⟨l, hl, hxe⟩ := List.mem_map.1 hx
      rw [← hxe]; exact hno l (List.mem_reverse.1 hl)
    rw [himg, h1]
    simp
  | some l0 =>
    have hl0 := List.mem_of_find?_eq_some hany
    have hf0 : (fileOf l0 (S.distFile rh d)).isSome = true := by simpa using List.find?_some hany
    cases hc0 : fileOf l0 (S.distFile rh d) with
    | none => rw [hc0] at hf0; simp at hf0
    | some c0 =>
      refine ⟨S.scanDist rh d c0, ?_, ?_⟩
      · intro l hl
        unfold distOf
        cases hf : fileOf l (S.distFile rh d) with
        | none => left; rfl
        | some c => right; exact heq l hl l0 hl0 c hf c0 hc0
      · rw [himg, firstSome_map_bind _ _ (S.scanDist rh d c0)]
        · -- the two `any`s agree
          cases hod : S.scanDist rh d c0 with
          | none => simp
          | some D =>
            have hex : layers.any (fun l => (distOf S rh d l).isSome) = true := by
              rw [List.any_eq_true]
              exact ⟨l0, hl0, by simp [distOf, hc0, hod]⟩
            have hex2 : (layers.reverse.map fun l => fileOf l (S.distFile rh d)).any (·.isSome) = true := by
              rw [List.any_eq_true]
              exact ⟨some c0, List.mem_map.2 ⟨l0, List.mem_reverse.2 hl0, hc0⟩, rfl⟩
            rw [hex, hex2]
        · intro x hx c hxc
          obtain ⟨l, hl, hxe⟩ := List.mem_map.1 hx
          rw [hxc] at hxe
          exact heq l (List.mem_reverse.1 hl) l0 hl0 c hxe c0 hc0

theorem head_toList {α : Type} (o : Option α) : o.toList.head? = o := by cases o <;> rfl

theorem distSlots_osArts (S : Scanners) (rh : Bool) (d : String) (ls : List FSLayer) :
    distSlots (ls.map (osArts S rh d)) = ls.map (distOf S rh d) := by
  unfold distSlots
  rw [List.map_map]
  apply List.map_congr_left
  intro l _
  simp [osArts, head_toList]

/-! ### linux ecosystems -/

theorem linux_env_dist {S : Scanners} {layers : List FSLayer} {d : String} (hs : distStableAt S layers false d)
    {id : String} {es : List Env} (hes : aget id (linuxRep (layers.map (osArts S false d))).envs = some es)
    {e : Env} (he : e ∈ es) : e.db = d ∧ e.distId = imgDistId S false d layers := by
  have hok := linuxRep_ok (layers.map (osArts S false d))
  unfold linuxCoalesce at hok
  rcases linuxFill_from _ _ _ hok id es hes e he with ⟨es0, h0, _⟩ | ⟨db, p, hm, _, henv⟩
  · simp at h0
  · obtain ⟨hp, hdb⟩ := linux_entries_ok db p hm
    -- the database
    have hpd : p.db = d := by
      obtain ⟨a, ha, hpa⟩ := List.mem_flatMap.1 hp
      obtain ⟨l, _, hla⟩ := List.mem_map.1 ha
      subst hla
      obtain ⟨c, _, hpc⟩ := osArts_pkgs hpa
      exact (mem_osPkgsOf hpc).1
    refine ⟨by rw [(linuxEnv_db henv).1, ← hdb, hpd], ?_⟩
    obtain ⟨pre, a, post, hdec, _, _, _, hdist⟩ := linuxEnv_exact henv
    obtain ⟨lpre, l, lpost, hl, hfpre, hfa, hfpost⟩ := map_decomp hdec
    obtain ⟨od, hall, himg⟩ := distStable_spec hs
    rw [hdist, ← hfpre, ← hfa, ← hfpost, distSlots_osArts, distSlots_osArts]
    have hhead : (osArts S false d l).dists.head? = distOf S false d l := by simp [osArts, head_toList]
    rw [hhead]
    have hslots : ∀ x ∈ lpre.map (distOf S false d) ++ distOf S false d l :: lpost.map (distOf S false d), x = none ∨ x = od := by
      intro x hx
      have : x ∈ layers.map (distOf S false d) := by rw [hl]; simpa using hx
      obtain ⟨l', hl', hxe⟩ := List.mem_map.1 this
      rw [← hxe]; exact hall l' hl'
    rw [distPick_stable hslots]
    unfold imgDistId
    rw [himg]
    have : (lpre.map (distOf S false d) ++ distOf S false d l :: lpost.map (distOf S false d)).any (·.isSome) =
        layers.any (fun l => (distOf S false d l).isSome) := by
      rw [hl]; simp [List.any_map, Function.comp_def]
    rw [this]; rfl

/-! ### rhel ecosystems -/

theorem firstDist_stable {arts : List Layer} {od : Option Dist} (h : ∀ a ∈ arts, a.dists.head? = none ∨ a.dists.head? = od) :
    firstDist arts = if arts.any (fun a => a.dists.head?.isSome) then od else none := by
  induction arts with
  | nil => rfl
  | cons a rest ih =>
    have hrest := ih fun b hb => h b (List.mem_cons_of_mem _ hb)
    cases hd : a.dists with
    | nil => simp [firstDist, hd, hrest]
    | cons x xs =>
      rcases h a List.mem_cons_self with h1 | h1
      · rw [hd] at h1; simp at h1
      · rw [hd] at h1; simp at h1; simp [firstDist, hd, h1.symm]

theorem curAfter_stable {arts ls : List Layer} {od : Option Dist} (h : ∀ a ∈ arts, a.dists.head? = none ∨ a.dists.head? = od)
    (hsub : ∀ a ∈ ls, a ∈ arts) :
    curAfter (if arts.any (fun a => a.dists.head?.isSome) then od else none) ls =
      if arts.any (fun a => a.dists.head?.isSome) then od else none := by
  unfold curAfter
  induction ls with
  | nil => rfl
  | cons a rest ih =>
    simp only [List.foldl_cons]
    have ha := hsub a List.mem_cons_self
    cases hd : a.dists with
    | nil => simp only; exact ih fun b hb => hsub b (List.mem_cons_of_mem _ hb)
    | cons x xs =>
      simp only
      have hany : arts.any (fun a => a.dists.head?.isSome) = true :=
        List.any_eq_true.2 ⟨a, ha, by simp [hd]⟩
      have hx : some x = od := by
        rcases h a ha with h1 | h1
        · rw [hd] at h1; simp at h1
        · rw [hd] at h1; simpa using h1
      have := ih fun b hb => hsub b (List.mem_cons_of_mem _ hb)
      rw [hany] at this ⊢
      simp only [if_true] at this ⊢
      rw [hx]; exact this

theorem rhel_env_dist {S : Scanners} {layers : List FSLayer} {d : String} (hs : distStableAt S layers true d)
    {id : String} {es : List Env} (hes : aget id (rhelRep (layers.map (osArts S true d))).envs = some es)
    {e : Env} (he : e ∈ es) : e.db = d ∧ e.distId = imgDistId S true d layers := by
  obtain ⟨pre, a, post, hdec, ⟨p, hpa, hpdb, _⟩, _, hee⟩ := rhelCoalesce_env_exact (rhelRep_ok _) hes he
  have hcore := rhelShare_core (layers.map (osArts S true d))
  -- the layer `a` of the shared list has the packages and distributions of a layer of the stack
  have hmemA : a ∈ rhelShare (layers.map (osArts S true d)) := by rw [hdec]; simp
  obtain ⟨a0, ha0, hca⟩ := mem_of_core_eq hcore hmemA
  obtain ⟨l, _, hla⟩ := List.mem_map.1 ha0
  have hpk : a.pkgs = (osArts S true d l).pkgs := by
    have := congrArg (fun c => c.2.1) hca; simp only [core] at this; rw [← this, hla]
  have hpd : p.db = d := by
    rw [hpk] at hpa
    obtain ⟨c, _, hpc⟩ := osArts_pkgs hpa
    exact (mem_osPkgsOf hpc).1
  refine ⟨by rw [← hpdb, hpd], ?_⟩
  obtain ⟨od, hall, himg⟩ := distStable_spec hs
  -- every layer of the shared list has no distribution or `od`
  have hheads : ∀ b ∈ rhelShare (layers.map (osArts S true d)), b.dists.head? = none ∨ b.dists.head? = od := by
    intro b hb
    obtain ⟨b0, hb0, hcb⟩ := mem_of_core_eq hcore hb
    obtain ⟨l', hl', hlb⟩ := List.mem_map.1 hb0
    have hd : b.dists = (osArts S true d l').dists := by
      have := congrArg (fun c => c.2.2) hcb; simp only [core] at this; rw [← this, hlb]
    rw [hd]
    simp only [osArts, head_toList]
    exact hall l' hl'
  have hanyEq : (rhelShare (layers.map (osArts S true d))).any (fun a => a.dists.head?.isSome) =
      layers.any (fun l => (distOf S true d l).isSome) := by
    have h1 : (rhelShare (layers.map (osArts S true d))).any (fun a => a.dists.head?.isSome) =
        ((rhelShare (layers.map (osArts S true d))).map core).any (fun c => c.2.2.head?.isSome) := by
      rw [List.any_map]; rfl
    rw [h1, hcore, List.map_map, List.any_map]
    congr 1
    funext l'
    simp [core, osArts, head_toList]
  rw [hee]
  simp only [walkEnv]
  rw [firstDist_stable hheads, curAfter_stable hheads (by
    intro b hb
    rw [hdec]
    rcases List.mem_append.1 hb with h | h
    · exact List.mem_append_left _ h
    · simp only [List.mem_singleton] at h; subst h; simp)]
  unfold imgDistId
  rw [himg, hanyEq]

/-! ### file ecosystems tag no distribution -/

theorem langLayerPkgs_dist (a : Layer) (rs : List String) (hrs : rs ≠ []) (pkgs : List Pkg) (ir : Report)
    (h : ∀ id es, aget id ir.envs = some es → ∀ e ∈ es, e.distId = "" ∧ e.repoIds ≠ []) :
    ∀ id es, aget id (langLayerPkgs a rs pkgs ir).envs = some es → ∀ e ∈ es, e.distId = "" ∧ e.repoIds ≠ [] := by
  induction pkgs generalizing ir with
  | nil => exact h
  | cons p rest ih =>
    simp only [langLayerPkgs]
    apply ih
    intro id es hes e he
    simp only [Report.setPkgEnv] at hes
    rw [aget_aset] at hes
    by_cases hk : p.id = id
    · simp only [hk, if_true, Option.some.injEq] at hes
      subst hes; simp only [List.mem_singleton] at he; subst he
      exact ⟨rfl, hrs⟩
    · simp only [hk, if_false] at hes; exact h id es hes e he

theorem langFold_dist (arts : List Layer) (ir : Report)
    (h : ∀ id es, aget id ir.envs = some es → ∀ e ∈ es, e.distId = "" ∧ e.repoIds ≠ []) :
    ∀ id es, aget id (langFold arts ir).envs = some es → ∀ e ∈ es, e.distId = "" ∧ e.repoIds ≠ [] := by
  induction arts generalizing ir with
  | nil => exact h
  | cons a rest ih =>
    simp only [langFold]
    by_cases hb : a.repos.isEmpty = true
    · simp only [hb, if_true]; exact ih ir h
    · simp only [hb, Bool.false_eq_true, if_false]
      apply ih
      apply langLayerPkgs_dist a _ (by
        intro h0
        have : a.repos = [] := by simpa using h0
        rw [this] at hb; simp at hb)
      exact h

theorem gobinLayerPkgs_dist (a : Layer) (rid : String) (pkgs : List Pkg) (ir : Report)
    (h : ∀ id es, aget id ir.envs = some es → ∀ e ∈ es, e.distId = "" ∧ e.repoIds ≠ []) :
    ∀ id es, aget id (gobinLayerPkgs a rid pkgs ir).envs = some es → ∀ e ∈ es, e.distId = "" ∧ e.repoIds ≠ [] := by
  induction pkgs generalizing ir with
  | nil => exact h
  | cons p rest ih =>
    simp only [gobinLayerPkgs]
    by_cases hg : hasGoPrefix p.db = true
    · simp only [hg, if_true]
      apply ih
      intro id es hes e he
      simp only [Report.setPkgEnv] at hes
      rw [aget_aset] at hes
      by_cases hk : p.id = id
      · simp only [hk, if_true, Option.some.injEq] at hes
        subst hes; simp only [List.mem_singleton] at he; subst he
        exact ⟨rfl, by simp⟩
      · simp only [hk, if_false] at hes; exact h id es hes e he
    · simp only [hg, Bool.false_eq_true, if_false]; exact ih ir h

theorem gobinFold_dist (arts : List Layer) (ir : Report)
    (h : ∀ id es, aget id ir.envs = some es → ∀ e ∈ es, e.distId = "" ∧ e.repoIds ≠ []) :
    ∀ id es, aget id (gobinFold arts ir).envs = some es → ∀ e ∈ es, e.distId = "" ∧ e.repoIds ≠ [] := by
  induction arts generalizing ir with
  | nil => exact h
  | cons a rest ih =>
    simp only [gobinFold]
    cases a.repos.find? isGoRepo with
    | none => simp only; exact ih _ (gobinLayerPkgs_dist a "" a.pkgs ir h)
    | some r => simp only; exact ih _ (gobinLayerPkgs_dist a r.id a.pkgs _ h)

theorem keysUniq_gobinLayerPkgs (a : Layer) (rid : String) (pkgs : List Pkg) (ir : Report)
    (h1 : KeysUniq ir.envs) (h2 : KeysUniq ir.pkgs) :
    KeysUniq (gobinLayerPkgs a rid pkgs ir).envs ∧ KeysUniq (gobinLayerPkgs a rid pkgs ir).pkgs := by
  induction pkgs generalizing ir with
  | nil => exact ⟨h1, h2⟩
  | cons p rest ih =>
    simp only [gobinLayerPkgs]
    by_cases hg : hasGoPrefix p.db = true
    · simp only [hg, if_true]; exact ih _ (keysUniq_aset _ _ h1) (keysUniq_aset _ _ h2)
    · simp only [hg, Bool.false_eq_true, if_false]; exact ih ir h1 h2

theorem keysUniq_gobinFold (arts : List Layer) (ir : Report) (h1 : KeysUniq ir.envs) (h2 : KeysUniq ir.pkgs) :
    KeysUniq (gobinFold arts ir).envs ∧ KeysUniq (gobinFold arts ir).pkgs := by
  induction arts generalizing ir with
  | nil => exact ⟨h1, h2⟩
  | cons a rest ih =>
    simp only [gobinFold]
    cases a.repos.find? isGoRepo with
    | none =>
      simp only
      obtain ⟨g1, g2⟩ := keysUniq_gobinLayerPkgs a "" a.pkgs ir h1 h2
      exact ih _ g1 g2
    | some r =>
      simp only
      obtain ⟨g1, g2⟩ := keysUniq_gobinLayerPkgs a r.id a.pkgs { ir with repos := aset r.id r ir.repos } h1 h2
      exact ih _ g1 g2

theorem fileRep_dist (E : FileEco) (layers : List FSLayer) :
    ∀ id es, aget id (fileRep E layers).envs = some es → ∀ e ∈ es, e.distId = "" ∧ e.repoIds ≠ [] := by
  unfold fileRep
  by_cases hg : E.gobin = true
  · simp only [hg, if_true]; exact gobinFold_dist _ {} (by simp [aget])
  · simp only [hg, Bool.false_eq_true, if_false]; exact langFold_dist _ {} (by simp [aget])

/-! ### the finished report -/

theorem index_dist_eq_flatten {S : Scanners} {layers : List FSLayer} (hs : DistStable S layers)
    {r : Report} (hr : indexModel S layers = some r) {id : String} {es : List Env} (hes : aget id r.envs = some es)
    {e : Env} (he : e ∈ es) :
    (∃ d ∈ S.osDbs, e.db = d ∧ e.distId = imgDistId S false d layers) ∨
    (∃ d ∈ S.rhelDbs, e.db = d ∧ e.distId = imgDistId S true d layers) ∨
    (e.distId = "" ∧ e.repoIds ≠ []) := by
  rw [indexModel_eq] at hr
  have hex := resolve_exact (layers.map (·.hash)) (merged S layers) r (merged_inv S layers) (merged_uniq S layers).pkgs hr id
  obtain ⟨hM, _⟩ := hex.1 es hes
  rcases (mergeSR_envs _ {} (by simp [KeysUniq]) id e).1 ⟨es, hM, he⟩ with ⟨es0, h0, _⟩ | ⟨rr, hrr, es', h1, h2⟩
  · simp at h0
  · rcases reps_cases hrr with hos | ⟨E, _, hE⟩ | hwh
    · rcases List.mem_append.1 hos with h | h
      · obtain ⟨d, hd, hre⟩ := List.mem_map.1 h
        subst hre
        have hu := (linuxCoalesce_pkgs (linuxRep_ok (layers.map (osArts S false d)))).2.1
        obtain ⟨g1, g2⟩ := linux_env_dist (hs.1 d hd) (aget_of_mem_uniq hu h1) h2
        exact Or.inl ⟨d, hd, g1, g2⟩
      · obtain ⟨d, hd, hre⟩ := List.mem_map.1 h
        subst hre
        have hu := (rhelCoalesce_pkgs (rhelRep_ok (layers.map (osArts S true d)))).2.1
        obtain ⟨g1, g2⟩ := rhel_env_dist (hs.2 d hd) (aget_of_mem_uniq hu h1) h2
        exact Or.inr (Or.inl ⟨d, hd, g1, g2⟩)
    · subst hE
      -- a file ecosystem's report: look the environment list up
      have : (aget id (fileRep E layers).envs).isSome := aget_isSome_of_mem h1
      cases hg : aget id (fileRep E layers).envs with
      | none => rw [hg] at this; simp at this
      | some es2 =>
        -- every list stored under `id` in that report consists of such environments; `es'` is one of them
        have hall := fileRep_dist E layers
        -- `es'` need not be the first entry under `id`, but the report's keys are unique
        have hu : KeysUniq (fileRep E layers).envs := by
          unfold fileRep
          by_cases hgb : E.gobin = true
          · simp only [hgb, if_true]
            exact (keysUniq_gobinFold _ {} (by simp [KeysUniq]) (by simp [KeysUniq])).1
          · simp only [hgb, Bool.false_eq_true, if_false]
            exact (keysUniq_langFold _ {} (by simp [KeysUniq]) (by simp [KeysUniq])).1
        have := aget_of_mem_uniq hu h1
        exact Or.inr (Or.inr (hall id es' this e h2))
    · subst hwh; simp [whRep] at h1

/-! ### the `Distributions` map of the finished report -/

theorem mem_setDists {ds : List Dist} {m : List (String × Dist)} {k : String} {v : Dist}
    (h : (k, v) ∈ setDists ds m) : (k, v) ∈ m ∨ (v ∈ ds ∧ v.id = k) := by
  unfold setDists at h
  induction ds generalizing m with
  | nil => exact Or.inl h
  | cons d ds ih =>
    simp only [List.foldl_cons] at h
    rcases ih h with h1 | ⟨h1, h2⟩
    · rcases mem_aset h1 with ⟨hk, hv⟩ | h3
      · right; exact ⟨by rw [hv]; exact List.mem_cons_self, by rw [hv, hk]⟩
      · exact Or.inl h3
    · right; exact ⟨List.mem_cons_of_mem _ h1, h2⟩

/-- the linux coalescer's `Distributions`: the first distribution of every layer that has one -/
theorem linuxRep_dists (arts : List Layer) (k : String) :
    (aget k (linuxRep arts).dists).isSome ↔ ∃ a ∈ arts, ∃ d, a.dists.head? = some d ∧ d.id = k := by
  have hok := linuxRep_ok arts
  unfold linuxCoalesce at hok
  obtain ⟨r, h1, _, h3, _, _⟩ := linuxFill_inv (S := False) (arts := arts) (dbEntries (linuxDbs arts))
    { dists := setDists ((distSlots arts).filterMap id) [] }
    linux_entries_ok (inv_of_nil rfl rfl)
    (fun x hx => setDists_mem (List.mem_filterMap.2 ⟨some x, hx, rfl⟩))
  simp only at hok
  rw [hok] at h1; cases h1
  rw [h3]
  constructor
  · intro hs
    cases hg : aget k (setDists ((distSlots arts).filterMap id) []) with
    | none => rw [hg] at hs; simp at hs
    | some v =>
      rcases mem_setDists (mem_of_aget hg) with h | ⟨h, hid⟩
      · simp at h
      · obtain ⟨o, ho, hov⟩ := List.mem_filterMap.1 h
        simp only [id] at hov; subst hov
        obtain ⟨a, ha, hae⟩ := List.mem_map.1 ho
        exact ⟨a, ha, v, hae, hid⟩
  · rintro ⟨a, ha, d, hd, hid⟩
    rw [← hid]
    apply setDists_mem
    exact List.mem_filterMap.2 ⟨some d, List.mem_map.2 ⟨a, ha, hd⟩, rfl⟩

theorem rhelWalk_dists (todo : List Layer) (w : RhelWalk) (k : String) :
    (aget k (rhelWalk todo w).dists).isSome ↔
      (aget k w.dists).isSome ∨ ∃ a ∈ todo, ∃ d, a.dists.head? = some d ∧ d.id = k := by
  induction todo generalizing w with
  | nil => simp [rhelWalk]
  | cons a rest ih =>
    simp only [rhelWalk]
    rw [ih]
    cases hd : a.dists with
    | nil =>
      simp only [List.head?_nil, List.mem_cons]
      constructor
      · rintro (h | ⟨b, hb, d, h1, h2⟩)
        · exact Or.inl h
        · exact Or.inr ⟨b, Or.inr hb, d, h1, h2⟩
      · rintro (h | ⟨b, hb, d, h1, h2⟩)
        · exact Or.inl h
        · rcases hb with hb | hb
          · subst hb; rw [hd] at h1; simp at h1
          · exact Or.inr ⟨b, hb, d, h1, h2⟩
    | cons x xs =>
      simp only [List.mem_cons]
      constructor
      · rintro (h | ⟨b, hb, d, h1, h2⟩)
        · rw [aget_aset] at h
          by_cases hk : x.id = k
          · exact Or.inr ⟨a, Or.inl rfl, x, by simp [hd], hk⟩
          · simp only [hk, if_false] at h; exact Or.inl h
        · exact Or.inr ⟨b, Or.inr hb, d, h1, h2⟩
      · rintro (h | ⟨b, hb, d, h1, h2⟩)
        · exact Or.inl (aget_aset_isSome h)
        · rcases hb with hb | hb
          · subst hb
            rw [hd] at h1; simp at h1; subst h1
            left; rw [← h2]; simp [aget_aset_self]
          · exact Or.inr ⟨b, hb, d, h1, h2⟩

theorem rhelFinalPkgs_dists (envs : List ((String × String) × Env)) (later : List Layer) (pkgs : List Pkg) (ir r : Report)
    (h : rhelFinalPkgs envs later pkgs ir = .ok r) : r.dists = ir.dists := by
  induction pkgs generalizing ir with
  | nil => simp only [rhelFinalPkgs, Except.ok.injEq] at h; subst h; rfl
  | cons q rest ih =>
    simp only [rhelFinalPkgs] at h
    split at h
    · exact ih ir h
    · split at h
      · split at h
        · simp at h
        · have := ih _ h; exact this
      · exact ih ir h

theorem rhelFinal_dists (envs : List ((String × String) × Env)) (todo : List Layer) (ir r : Report)
    (h : rhelFinal envs todo ir = .ok r) : r.dists = ir.dists := by
  induction todo generalizing ir with
  | nil => simp only [rhelFinal, Except.ok.injEq] at h; subst h; rfl
  | cons a rest ih =>
    simp only [rhelFinal] at h
    cases hx : rhelFinalPkgs envs rest a.pkgs ir with
    | error f => simp [hx] at h
    | ok ir' =>
      simp only [hx] at h
      rw [ih ir' h, rhelFinalPkgs_dists envs rest a.pkgs ir ir' hx]

theorem firstDist_head {arts : List Layer} {d : Dist} (h : firstDist arts = some d) :
    ∃ a ∈ arts, a.dists.head? = some d := by
  induction arts with
  | nil => simp [firstDist] at h
  | cons a rest ih =>
    cases hd : a.dists with
    | nil =>
      simp only [firstDist, hd] at h
      obtain ⟨b, hb, hbd⟩ := ih h
      exact ⟨b, List.mem_cons_of_mem _ hb, hbd⟩
    | cons x xs =>
      simp only [firstDist, hd, Option.some.injEq] at h
      exact ⟨a, List.mem_cons_self, by simp [hd, h]⟩

/-- the rhel coalescer's `Distributions`: the first distribution of every layer that has one -/
theorem rhelRep_dists (arts0 : List Layer) (k : String) :
    (aget k (rhelRep arts0).dists).isSome ↔ ∃ a ∈ arts0, ∃ d, a.dists.head? = some d ∧ d.id = k := by
  have hok := rhelRep_ok arts0
  unfold rhelCoalesce at hok
  simp only at hok
  rw [rhelFinal_dists _ _ _ _ hok]
  simp only
  rw [rhelWalk_dists]
  -- heads of the shared list = heads of the given list
  have hheads : (∃ a ∈ rhelShare arts0, ∃ d, a.dists.head? = some d ∧ d.id = k) ↔
      ∃ a ∈ arts0, ∃ d, a.dists.head? = some d ∧ d.id = k := by
    have hcore := rhelShare_core arts0
    constructor
    · rintro ⟨a, ha, d, h1, h2⟩
      obtain ⟨a0, ha0, hc⟩ := mem_of_core_eq hcore ha
      have : a0.dists = a.dists := by have := congrArg (fun c => c.2.2) hc; simpa [core] using this
      exact ⟨a0, ha0, d, by rw [this]; exact h1, h2⟩
    · rintro ⟨a, ha, d, h1, h2⟩
      obtain ⟨a0, ha0, hc⟩ := mem_of_core_eq hcore.symm ha
      have : a0.dists = a.dists := by have := congrArg (fun c => c.2.2) hc; simpa [core] using this
      exact ⟨a0, ha0, d, by rw [this]; exact h1, h2⟩
  rw [hheads]
  constructor
  · rintro (h | h)
    · unfold rhelInit at h
      cases hf : firstDist (rhelShare arts0) with
      | none => simp [hf, aget] at h
      | some d =>
        simp only [hf] at h
        rw [aget_cons] at h
        by_cases hk : d.id = k
        · obtain ⟨a, ha, had⟩ := firstDist_head hf
          exact hheads.1 ⟨a, ha, d, had, hk⟩
        · simp [hk, aget] at h
    · exact h
  · intro h; exact Or.inr h

theorem fileRep_dists_nil (E : FileEco) (layers : List FSLayer) : (fileRep E layers).dists = [] := by
  unfold fileRep
  by_cases hg : E.gobin = true
  · simp only [hg, if_true]
    exact (gobinFold_inv (S := False) _ _ {} (fun _ h => h) (fun h => h.elim) (inv_of_nil rfl rfl)).2.1
  · simp only [hg, Bool.false_eq_true, if_false]
    exact (langFold_inv (S := False) _ _ {} (fun _ h => h) (inv_of_nil rfl rfl)).2.1

/-- under stability an OS ecosystem's layers show a distribution exactly when the flattened image does, and the same one -/
theorem heads_eq_image {S : Scanners} {layers : List FSLayer} {rh : Bool} {d : String} (hs : distStableAt S layers rh d)
    (k : String) :
    (∃ a ∈ layers.map (osArts S rh d), ∃ D, a.dists.head? = some D ∧ D.id = k) ↔
      ∃ D, imageDist S rh d layers = some D ∧ D.id = k := by
  obtain ⟨od, hall, himg⟩ := distStable_spec hs
  constructor
  · rintro ⟨a, ha, D, h1, h2⟩
    obtain ⟨l, hl, hla⟩ := List.mem_map.1 ha
    subst hla
    have hD : distOf S rh d l = some D := by simpa [osArts, head_toList] using h1
    have hany : layers.any (fun l => (distOf S rh d l).isSome) = true := List.any_eq_true.2 ⟨l, hl, by simp [hD]⟩
    rcases hall l hl with h | h
    · rw [hD] at h; simp at h
    · exact ⟨D, by rw [himg, hany, ← h, hD]; rfl, h2⟩
  · rintro ⟨D, h1, h2⟩
    rw [himg] at h1
    by_cases hany : layers.any (fun l => (distOf S rh d l).isSome) = true
    · simp only [hany, if_true] at h1
      obtain ⟨l, hl, hsome⟩ := List.any_eq_true.1 hany
      rcases hall l hl with h | h
      · rw [h] at hsome; simp at hsome
      · refine ⟨osArts S rh d l, List.mem_map.2 ⟨l, hl, rfl⟩, D, ?_, h2⟩
        simp only [osArts, head_toList]; rw [h, h1]
    · simp [hany] at h1

/-- on a DistStable stack the finished report's `Distributions` are exactly the distributions the OS
    ecosystems' scanners find on the flattened image -/
theorem index_dists_eq_flatten {S : Scanners} {layers : List FSLayer} (hs : DistStable S layers)
    {r : Report} (hr : indexModel S layers = some r) (k : String) :
    (aget k r.dists).isSome ↔
      (∃ d ∈ S.osDbs, ∃ D, imageDist S false d layers = some D ∧ D.id = k) ∨
      (∃ d ∈ S.rhelDbs, ∃ D, imageDist S true d layers = some D ∧ D.id = k) := by
  rw [indexModel_eq] at hr
  obtain ⟨r', hr', _, hd, _⟩ := resolve_ok (layers.map (·.hash)) (merged S layers) (merged_inv S layers)
  rw [hr] at hr'; cases hr'
  rw [hd]
  obtain ⟨_, _, h3, _, _⟩ := mergeSR_fields {} ((dbReps S layers ++ fileReps S layers) ++ [whRep layers])
  unfold merged
  rw [h3]
  constructor
  · intro hsome
    rcases asetAll_get (·.dists) ((dbReps S layers ++ fileReps S layers) ++ [whRep layers]) ({} : Report).dists k with
      ⟨rr, hrr, v, hv, _⟩ | ⟨_, hnone⟩
    · rcases reps_cases hrr with hos | ⟨E, _, hE⟩ | hwh
      · rcases List.mem_append.1 hos with h | h
        · obtain ⟨d, hd', hre⟩ := List.mem_map.1 h
          subst hre
          have := (linuxRep_dists _ k).1 (aget_isSome_of_mem hv)
          exact Or.inl ⟨d, hd', (heads_eq_image (hs.1 d hd') k).1 this⟩
        · obtain ⟨d, hd', hre⟩ := List.mem_map.1 h
          subst hre
          have := (rhelRep_dists _ k).1 (aget_isSome_of_mem hv)
          exact Or.inr ⟨d, hd', (heads_eq_image (hs.2 d hd') k).1 this⟩
      · subst hE; rw [fileRep_dists_nil] at hv; simp at hv
      · subst hwh; simp [whRep] at hv
    · rw [hnone] at hsome; simp [aget] at hsome
  · intro h
    -- some report has the key, so the fold has it
    have key : ∀ rr ∈ (dbReps S layers ++ fileReps S layers) ++ [whRep layers], (aget k rr.dists).isSome →
        (aget k (asetAll (·.dists) ((dbReps S layers ++ fileReps S layers) ++ [whRep layers]) ({} : Report).dists)).isSome := by
      intro rr hrr hs'
      rcases asetAll_get (·.dists) ((dbReps S layers ++ fileReps S layers) ++ [whRep layers]) ({} : Report).dists k with
        ⟨_, _, v, _, hv⟩ | ⟨hno, _⟩
      · rw [hv]; rfl
      · cases hg : aget k rr.dists with
        | none => rw [hg] at hs'; simp at hs'
        | some v => exact absurd (mem_of_aget hg) (hno rr hrr v)
    rcases h with ⟨d, hd', hD⟩ | ⟨d, hd', hD⟩
    · apply key (linuxRep (layers.map (osArts S false d)))
        (dbRep_mem_reps (List.mem_append_left _ (List.mem_map.2 ⟨d, hd', rfl⟩)))
      exact (linuxRep_dists _ k).2 ((heads_eq_image (hs.1 d hd') k).2 hD)
    · apply key (rhelRep (layers.map (osArts S true d)))
        (dbRep_mem_reps (List.mem_append_right _ (List.mem_map.2 ⟨d, hd', rfl⟩)))
      exact (rhelRep_dists _ k).2 ((heads_eq_image (hs.2 d hd') k).2 hD)

end ClairModel.LayerFS
