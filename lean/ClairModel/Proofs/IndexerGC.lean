/-
  `DeleteManifests` (garbage collection) on the store model: it keeps the
  store invariant and the intactness of stored reports, forgets the deleted
  manifest completely, and leaves every other manifest's records — and every
  layer a remaining manifest refers to — untouched.
-/
import ClairModel.Proofs.IndexerFF

namespace ClairModel.Indexer
namespace Store

/-- The layers `deleteManifest st m` removes: layers of `m` that no other
    persisted manifest refers to. -/
def goneLayer (st : Store) (m : Manifest) (l : Layer) : Bool :=
  decide (l ∈ m) && (st.manifests.filter (· != m)).all fun m' => !decide (l ∈ m')

theorem deleteManifest_of_mem {st : Store} {m : Manifest} (h : m ∈ st.manifests) :
    st.deleteManifest m =
      { manifests := st.manifests.filter (· != m)
        scannedLayer := st.scannedLayer.filter fun x => !st.goneLayer m x.1
        rows := st.rows.filter fun r => !st.goneLayer m r.layer
        scannedManifest := st.scannedManifest.filter fun x => x.1 != m
        reports := st.reports.filter fun x => x.1 != m
        index := st.index.filter fun x => x.1 != m } := by
  unfold deleteManifest goneLayer
  simp only [h, if_true]

theorem deleteManifest_of_not_mem {st : Store} {m : Manifest} (h : m ∉ st.manifests) : st.deleteManifest m = st := by
  unfold deleteManifest
  simp only [h, if_false]

/-- A layer of a manifest that stays persisted is not removed. -/
theorem goneLayer_false_of_used {st : Store} {m m' : Manifest} {l : Layer} (hm' : m' ∈ st.manifests) (hne : m' ≠ m)
    (hl : l ∈ m') : st.goneLayer m l = false := by
  unfold goneLayer
  cases hlm : decide (l ∈ m)
  · simp
  · simp only [Bool.true_and]
    apply Bool.eq_false_iff.2
    intro hall
    rw [List.all_eq_true] at hall
    have := hall m' (List.mem_filter.2 ⟨hm', by simpa using hne⟩)
    simp [hl] at this

theorem find?_filter_ne (rs : List (Manifest × Report)) (m m' : Manifest) (hne : m' ≠ m) :
    (rs.filter fun x => x.1 != m).find? (fun p => p.1 == m') = rs.find? (fun p => p.1 == m') := by
  induction rs with
  | nil => rfl
  | cons x xs ih =>
    by_cases hx : x.1 = m
    · have h1 : (x.1 != m) = false := by simp [hx]
      have h2 : (x.1 == m') = false := by
        apply beq_eq_false_iff_ne.2
        rw [hx]; exact Ne.symm hne
      simp only [List.filter_cons, h1, List.find?_cons, h2]
      exact ih
    · have h1 : (x.1 != m) = true := by simp [hx]
      simp only [List.filter_cons, h1, if_true, List.find?_cons]
      cases x.1 == m'
      · exact ih
      · rfl

theorem find?_filter_self (rs : List (Manifest × Report)) (m : Manifest) :
    (rs.filter fun x => x.1 != m).find? (fun p => p.1 == m) = none := by
  apply List.find?_eq_none.2
  intro x hx
  have := (List.mem_filter.1 hx).2
  simp only [bne_iff_ne, ne_eq] at this
  simp [this]

/-- The deleted manifest is forgotten: no manifest row, no scanned_manifest
    row, no report it could be answered from. -/
theorem deleteManifest_forgets {sem : Sem} {st : Store} (hi : Inv sem st) (m : Manifest) :
    m ∉ (st.deleteManifest m).manifests ∧ (∀ s, (m, s) ∉ (st.deleteManifest m).scannedManifest) ∧
    (m ∈ st.manifests → (st.deleteManifest m).report? m = none) := by
  by_cases h : m ∈ st.manifests
  · rw [deleteManifest_of_mem h]
    refine ⟨?_, ?_, fun _ => ?_⟩
    · simp [List.mem_filter]
    · intro s hs
      have := (List.mem_filter.1 hs).2
      simp at this
    · simp only [report?, find?_filter_self, Option.map_none]
  · rw [deleteManifest_of_not_mem h]
    exact ⟨h, fun s hs => h (hi.manifestPersisted m s hs), fun hm => absurd hm h⟩

/-- Records of the other manifests are untouched. -/
theorem deleteManifest_frame (st : Store) (m m' : Manifest) (hne : m' ≠ m) :
    (st.deleteManifest m).report? m' = st.report? m' ∧
    (∀ s, (m', s) ∈ (st.deleteManifest m).scannedManifest ↔ (m', s) ∈ st.scannedManifest) ∧
    (m' ∈ (st.deleteManifest m).manifests ↔ m' ∈ st.manifests) ∧
    (∀ b, (m', b) ∈ (st.deleteManifest m).index ↔ (m', b) ∈ st.index) := by
  by_cases h : m ∈ st.manifests
  · rw [deleteManifest_of_mem h]
    refine ⟨?_, ?_, ?_, ?_⟩
    · simp only [report?, find?_filter_ne _ _ _ hne]
    · intro s; simp [List.mem_filter, hne]
    · simp [List.mem_filter, hne]
    · intro b; simp [List.mem_filter, hne]
  · rw [deleteManifest_of_not_mem h]
    exact ⟨rfl, fun _ => Iff.rfl, Iff.rfl, fun _ => Iff.rfl⟩

/-- Scan records of a layer that a remaining manifest refers to are untouched. -/
theorem deleteManifest_keeps_used (st : Store) (m m' : Manifest) (l : Layer) (hm' : m' ∈ st.manifests) (hne : m' ≠ m)
    (hl : l ∈ m') :
    (∀ s, (l, s) ∈ (st.deleteManifest m).scannedLayer ↔ (l, s) ∈ st.scannedLayer) ∧
    (∀ s r, (⟨l, s, r⟩ : ArtRow) ∈ (st.deleteManifest m).rows ↔ (⟨l, s, r⟩ : ArtRow) ∈ st.rows) := by
  have hg := goneLayer_false_of_used (st := st) hm' hne hl
  by_cases h : m ∈ st.manifests
  · rw [deleteManifest_of_mem h]
    constructor
    · intro s; simp [List.mem_filter, hg]
    · intro s r; simp [List.mem_filter, hg]
  · rw [deleteManifest_of_not_mem h]
    exact ⟨fun _ => Iff.rfl, fun _ _ => Iff.rfl⟩

/-- Nothing is added by a deletion. -/
theorem deleteManifest_le (st : Store) (m : Manifest) : Le (st.deleteManifest m) st := by
  by_cases h : m ∈ st.manifests
  · rw [deleteManifest_of_mem h]
    refine ⟨fun x hx => (List.mem_filter.1 hx).1, fun x hx => (List.mem_filter.1 hx).1, fun x hx => (List.mem_filter.1 hx).1,
      fun x hx => (List.mem_filter.1 hx).1, ?_, fun m' ⟨b, hb⟩ => ⟨b, (List.mem_filter.1 hb).1⟩⟩
    intro m' hm'
    by_cases hne : m' = m
    · subst hne
      simp only [report?, find?_filter_self, Option.map_none] at hm'
      cases hm'
    · simp only [report?, find?_filter_ne _ _ _ hne] at hm'
      exact hm'
  · rw [deleteManifest_of_not_mem h]; exact Le.refl _

/-- Deletion keeps the store invariant. -/
theorem inv_deleteManifest {sem : Sem} {st : Store} (hi : Inv sem st) (m : Manifest) : Inv sem (st.deleteManifest m) := by
  by_cases h : m ∈ st.manifests
  · have hfr := fun m' hne => deleteManifest_frame st m m' hne
    have hkeep := fun m' l hm' hne hl => deleteManifest_keeps_used st m m' l hm' hne hl
    have hle := deleteManifest_le st m
    -- a scanned_manifest row that survives belongs to another manifest, which stays persisted
    have hsurv : ∀ m' s, (m', s) ∈ (st.deleteManifest m).scannedManifest → m' ≠ m ∧ (m', s) ∈ st.scannedManifest := by
      intro m' s hms
      rw [deleteManifest_of_mem h] at hms
      have := List.mem_filter.1 hms
      exact ⟨by simpa using this.2, this.1⟩
    refine ⟨?_, ?_, ?_, ?_, ?_, ?_⟩
    · intro r hr
      exact hi.rowsSound r (hle.rows r hr)
    · intro l s hls r hr
      have hls0 := hle.scannedLayer _ hls
      have h0 := hi.layerComplete l s hls0 r hr
      rw [deleteManifest_of_mem h] at hls ⊢
      have hg := (List.mem_filter.1 hls).2
      exact List.mem_filter.2 ⟨h0, hg⟩
    · intro m' s hms l hl
      obtain ⟨hne, h0⟩ := hsurv m' s hms
      exact ((hkeep m' l (hi.manifestPersisted m' s h0) hne hl).1 s).2 (hi.manifestLayers m' s h0 l hl)
    · intro m' s hms
      obtain ⟨hne, h0⟩ := hsurv m' s hms
      exact (hfr m' hne).2.2.1.2 (hi.manifestPersisted m' s h0)
    · intro m' s hms
      obtain ⟨hne, h0⟩ := hsurv m' s hms
      rw [(hfr m' hne).1]
      exact hi.manifestReport m' s h0
    · intro m' s hms
      obtain ⟨hne, h0⟩ := hsurv m' s hms
      obtain ⟨b, hb⟩ := hi.manifestIndexed m' s h0
      exact ⟨b, ((hfr m' hne).2.2.2 b).2 hb⟩
  · rw [deleteManifest_of_not_mem h]; exact hi

theorem inv_deleteManifests {sem : Sem} : ∀ (ms : List Manifest) {st : Store}, Inv sem st → Inv sem (st.deleteManifests ms)
  | [], _, hi => hi
  | m :: ms, st, hi => by
    show Inv sem (List.foldl deleteManifest (st.deleteManifest m) ms)
    exact inv_deleteManifests ms (inv_deleteManifest hi m)

theorem deleteManifests_le : ∀ (ms : List Manifest) (st : Store), Le (st.deleteManifests ms) st
  | [], st => Le.refl st
  | m :: ms, st => (deleteManifests_le ms (st.deleteManifest m)).trans (deleteManifest_le st m)

end Store

/-- Deletion keeps stored reports intact (`Good`): what is still recorded as
    indexed still has its fresh report. -/
theorem good_deleteManifest {sem : Sem} {cfg : Cfg} {st : Store} (hg : Good sem cfg st) (m : Manifest) :
    Good sem cfg (st.deleteManifest m) := by
  refine ⟨Store.inv_deleteManifest hg.inv m, hg.nonempty, ?_⟩
  intro m' hsc
  obtain ⟨s, hs⟩ := List.exists_mem_of_ne_nil _ hg.nonempty
  have hms := (Store.manifestScanned_iff _ _ _).1 hsc
  have hne : m' ≠ m := by
    intro heq
    subst heq
    exact (Store.deleteManifest_forgets hg.inv m').2.1 s (hms s hs)
  have hfr := Store.deleteManifest_frame st m m' hne
  rw [hfr.1]
  apply hg.reports
  exact (Store.manifestScanned_iff _ _ _).2 fun s hs => (hfr.2.1 s).1 (hms s hs)

theorem good_deleteManifests {sem : Sem} {cfg : Cfg} : ∀ (ms : List Manifest) {st : Store}, Good sem cfg st →
    Good sem cfg (st.deleteManifests ms)
  | [], _, hg => hg
  | m :: ms, st, hg => by
    show Good sem cfg (List.foldl Store.deleteManifest (st.deleteManifest m) ms)
    exact good_deleteManifests ms (good_deleteManifest hg m)

end ClairModel.Indexer
