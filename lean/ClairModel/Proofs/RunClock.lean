/-
  The retry branch of `controller.run` and its clock.
-/
import ClairModel.Model.RunClock

namespace ClairModel.RunClock
open ClairModel.Indexer (CState ErrClass)

/-- What one turn does to the clock: it waits at most once, only after a
    DeadlineExceeded-class error, for the duration `w` currently holds (zero
    until the first wait, jitter afterwards), and then `w` is jitter. -/
theorem stepIter_waits (it : Iter) (s : St) :
    (waits (stepIter it s).1 = [] ∧ (stepIter it s).2.1.jit = s.jit) ∨
    (waits (stepIter it s).1 = [s.jit] ∧ (stepIter it s).2.1.jit = true ∧ it.err = some .dl) := by
  obtain ⟨next, err, cancel, pf, ciw⟩ := it
  obtain ⟨cur, state, success, errSet, dead, jit⟩ := s
  unfold stepIter
  cases err with
  | none => cases dead <;> cases cancel <;> cases pf <;> simp [waits, setState] <;> split <;> simp [setState]
  | some c =>
    cases c <;> cases dead <;> cases cancel <;> cases pf <;> simp [waits, setState] <;>
      (try (split <;> simp [setState]))

/-- A turn that returned an error leaves the loop unless the error was of the
    DeadlineExceeded class (the retry branch clears it). -/
theorem stepIter_continues (it : Iter) (s : St) (h : (stepIter it s).2.2 = none) :
    it.next ≠ .terminal ∧ (it.err = none ∨ it.err = some .dl) ∧ (stepIter it s).2.1.cur = it.next := by
  obtain ⟨next, err, cancel, pf, ciw⟩ := it
  obtain ⟨cur, state, success, errSet, dead, jit⟩ := s
  unfold stepIter at h ⊢
  cases err with
  | none =>
    cases dead <;> cases cancel <;> cases pf <;> simp [setState] at h ⊢ <;>
      (by_cases hn : next = .terminal <;> simp [hn, setState] at h ⊢)
  | some c =>
    cases c <;> cases dead <;> cases cancel <;> cases pf <;> simp [setState] at h ⊢ <;>
      (by_cases hn : next = .terminal <;> simp [hn, setState] at h ⊢)

/-- All waits of a run: the first lasts what `w` holds at the start, every
    later one is jitter. -/
def Shape (j0 : Bool) (ws : List Bool) : Prop := ws = [] ∨ ∃ n, ws = j0 :: List.replicate n true

theorem shape_true_cons {ws : List Bool} (h : Shape true ws) (j : Bool) : Shape j (j :: ws) := by
  rcases h with h | ⟨n, h⟩
  · subst h; exact Or.inr ⟨0, rfl⟩
  · subst h; exact Or.inr ⟨n + 1, rfl⟩

def dlCount (script : List Iter) : Nat := (script.filter fun it => it.err == some .dl).length

theorem waits_append (a b : List Ev) : waits (a ++ b) = waits a ++ waits b := by
  simp [waits, List.filterMap_append]

theorem run_waits : ∀ (fuel : Nat) (script : List Iter) (s : St),
    Shape s.jit (waits (run fuel script s).1) ∧ (waits (run fuel script s).1).length ≤ dlCount script
  | 0, _, s => by simp [run, waits, Shape]
  | fuel + 1, script, s => by
    unfold run
    split
    · simp [waits, Shape]
    · have hw := stepIter_waits (nextIter script).1 s
      have ih := run_waits fuel (nextIter script).2
      -- the script's head accounts for the wait of this turn
      have hcount : ∀ (k : Nat), (k = 1 → (nextIter script).1.err = some .dl) → k ≤ 1 →
          k + dlCount (nextIter script).2 ≤ dlCount script := by
        intro k hk hk1
        cases script with
        | nil =>
          simp only [nextIter] at hk ⊢
          have : k = 0 := by
            rcases Nat.lt_or_ge k 1 with h | h
            · omega
            · have := hk (by omega); cases this
          subst this; simp [dlCount]
        | cons it rest =>
          simp only [nextIter] at hk ⊢
          simp only [dlCount, List.filter_cons]
          by_cases hd : it.err = some .dl
          · simp [hd]; omega
          · have : k = 0 := by
              rcases Nat.lt_or_ge k 1 with h | h
              · omega
              · exact absurd (hk (by omega)) hd
            subst this
            have hb : (it.err == some ErrClass.dl) = false := by
              cases h : it.err == some ErrClass.dl
              · rfl
              · exact absurd (by simpa using h) hd
            simp [hb]
      generalize hst : stepIter (nextIter script).1 s = res at hw
      obtain ⟨evs, s', ex⟩ := res
      cases ex with
      | some r =>
        simp only
        rcases hw with ⟨h1, _⟩ | ⟨h1, _, h3⟩
        · simp only at h1; rw [h1]; exact ⟨Or.inl rfl, Nat.zero_le _⟩
        · simp only at h1 h3; rw [h1]
          refine ⟨Or.inr ⟨0, rfl⟩, ?_⟩
          have := hcount 1 (fun _ => h3) (Nat.le_refl 1)
          simp only [List.length_cons, List.length_nil]; omega
      | none =>
        simp only
        obtain ⟨ihs, ihl⟩ := ih s'
        generalize run fuel (nextIter script).2 s' = res2 at ihs ihl
        obtain ⟨evs2, s2, r2⟩ := res2
        simp only [waits_append] at ihs ihl ⊢
        rcases hw with ⟨h1, h2⟩ | ⟨h1, h2, h3⟩
        · simp only at h1 h2; rw [h1, List.nil_append]
          rw [h2] at ihs
          exact ⟨ihs, by have := hcount 0 (fun h => by cases h) (Nat.zero_le 1); omega⟩
        · simp only at h1 h2 h3; rw [h1]
          rw [h2] at ihs
          refine ⟨shape_true_cons ihs _, ?_⟩
          have := hcount 1 (fun _ => h3) (Nat.le_refl 1)
          simp only [List.singleton_append, List.length_cons]; omega

/-- With a table in which every error return goes to Terminal (the in-tree
    table, `Gen.Controller`): the loop is left right after the first wait. -/
theorem run_terminal_errors : ∀ (fuel : Nat) (script : List Iter) (s : St),
    (∀ it, it ∈ script → it.err ≠ none → it.next = .terminal) →
    (waits (run fuel script s).1).length ≤ 1
  | 0, _, s, _ => by simp [run, waits]
  | fuel + 1, script, s, h => by
    unfold run
    split
    · simp [waits]
    · have hw := stepIter_waits (nextIter script).1 s
      have hc := stepIter_continues (nextIter script).1 s
      have hrest : ∀ it, it ∈ (nextIter script).2 → it.err ≠ none → it.next = .terminal := by
        intro it hit
        cases script with
        | nil => simp [nextIter] at hit
        | cons a rest => exact h it (List.mem_cons_of_mem _ (by simpa [nextIter] using hit))
      have ih := run_terminal_errors fuel (nextIter script).2
      generalize hst : stepIter (nextIter script).1 s = res at hw hc
      obtain ⟨evs, s', ex⟩ := res
      cases ex with
      | some r =>
        simp only
        rcases hw with ⟨h1, _⟩ | ⟨h1, _, _⟩ <;> (simp only at h1; rw [h1]; simp)
      | none =>
        simp only
        have ih' := ih s' hrest
        generalize run fuel (nextIter script).2 s' = res2 at ih'
        obtain ⟨evs2, s2, r2⟩ := res2
        simp only [waits_append] at ih' ⊢
        obtain ⟨hnt, herr, _⟩ := hc rfl
        rcases hw with ⟨h1, _⟩ | ⟨h1, _, h3⟩
        · simp only at h1; rw [h1]; simpa using ih'
        · -- a wait followed by another turn: the error went with a non-Terminal next state
          exfalso
          cases script with
          | nil => simp [nextIter] at h3
          | cons a rest =>
            simp only [nextIter] at h3 hnt
            exact hnt (h a (by simp) (by rw [h3]; simp))

end ClairModel.RunClock
