/-
  Lemmas about the Maven model (Model/Maven.lean): `Compare` is reflexive and
  `cmp b a = (cmp a b).swap`; it is transitive on triples that are pairwise
  `compat`.  (It is not transitive in general — see Props/C12.)
-/
import ClairModel.Model.Maven

set_option linter.unusedSimpArgs false

namespace ClairModel.Maven
open ClairModel.Order ClairModel.Version

theorem swap_swap (o : Ordering) : o.swap.swap = o := by cases o <;> rfl

theorem then_eq_right (o : Ordering) : o.then .eq = o := by cases o <;> rfl

/-! ### reflexive, antisymmetric -/

theorem atomCmp_refl (a : Atom) : atomCmp a a = .eq := by
  cases a with
  | int n => exact natCmp_totalPre.refl n
  | str s => exact strCmp_totalPre.refl _

theorem atomCmp_swap (a b : Atom) : atomCmp b a = (atomCmp a b).swap := by
  cases a <;> cases b <;> simp only [atomCmp, Ordering.swap]
  · exact natCmp_totalPre.swap _ _
  · exact strCmp_totalPre.swap _ _

theorem cmp_done_right (a : MV) : cmp a .done = cmpNil a := by
  cases a <;> simp [cmp, cmpNil, Ordering.swap]

theorem cmp_done_left (b : MV) : cmp .done b = (cmpNil b).swap := by
  cases b <;> simp [cmp]

theorem cmp_refl : ∀ a : MV, cmp a a = .eq
  | .done => by simp [cmp, cmpNil, Ordering.swap]
  | .item a t => by simp [cmp, atomCmp_refl, cmp_refl t, Ordering.then]
  | .sub i => by simp [cmp, cmp_refl i]

theorem cmp_swap : ∀ a b : MV, cmp b a = (cmp a b).swap
  | .done, b => by rw [cmp_done_right, cmp_done_left, swap_swap]
  | .item a t, .done => by rw [cmp_done_right, cmp_done_left]
  | .sub i, .done => by rw [cmp_done_right, cmp_done_left]
  | .item a t, .item b u => by
    simp only [cmp, swap_then, atomCmp_swap a b, cmp_swap t u]
  | .item (.int _) _, .sub _ => by simp [cmp, Ordering.swap]
  | .item (.str _) _, .sub _ => by simp [cmp, Ordering.swap]
  | .sub _, .item (.int _) _ => by simp [cmp, Ordering.swap]
  | .sub _, .item (.str _) _ => by simp [cmp, Ordering.swap]
  | .sub i, .sub j => by simp only [cmp, cmp_swap i j]

/-! ### position view: head slot and tail -/

inductive Slot where
  | nil
  | atom (a : Atom)
  | list (l : MV)

def hd : MV → Slot
  | .done => .nil
  | .item a _ => .atom a
  | .sub i => .list i

def tl : MV → MV
  | .done => .done
  | .item _ t => t
  | .sub _ => .done

def size : MV → Nat
  | .done => 0
  | .item _ t => size t + 1
  | .sub i => size i + 1

/-- What `Compare` does with the two elements standing at one position. -/
def slotCmp : Slot → Slot → Ordering
  | .nil, .nil => .eq
  | .nil, .atom a => (atomNil a).swap
  | .nil, .list l => (cmpNil l).swap
  | .atom a, .nil => atomNil a
  | .atom a, .atom b => atomCmp a b
  | .atom (.int _), .list _ => .gt
  | .atom (.str _), .list _ => .lt
  | .list l, .nil => cmpNil l
  | .list _, .atom (.int _) => .lt
  | .list _, .atom (.str _) => .gt
  | .list i, .list j => cmp i j

theorem cmp_unfold (a b : MV) : cmp a b = (slotCmp (hd a) (hd b)).then (cmp (tl a) (tl b)) := by
  cases a with
  | done =>
    cases b with
    | done => simp [cmp, cmpNil, hd, tl, slotCmp, Ordering.swap, Ordering.then]
    | item y u => simp [cmp, cmpNil, hd, tl, slotCmp, swap_then, cmp_done_left]
    | sub j => simp [cmp, cmpNil, hd, tl, slotCmp, Ordering.swap, then_eq_right]
  | item x t =>
    cases b with
    | done => simp [cmp, hd, tl, slotCmp, cmp_done_right]
    | item y u => simp [cmp, hd, tl, slotCmp]
    | sub j => cases x <;> simp [cmp, hd, tl, slotCmp, Ordering.then]
  | sub i =>
    cases b with
    | done => simp [cmp, cmpNil, hd, tl, slotCmp, Ordering.swap, then_eq_right]
    | item y u => cases y <;> simp [cmp, hd, tl, slotCmp, Ordering.then]
    | sub j => simp [cmp, cmpNil, hd, tl, slotCmp, Ordering.swap, then_eq_right]

def slotCompat : Slot → Slot → Bool
  | .nil, _ => true
  | _, .nil => true
  | .atom a, .atom b => atomCompat a b
  | .atom (.int n), .list _ => n != 0
  | .atom (.str _), .list _ => false
  | .list _, .atom (.int n) => n != 0
  | .list _, .atom (.str _) => false
  | .list i, .list j => compat i j

theorem compat_done_right (a : MV) : compat a .done = true := by cases a <;> simp [compat]

theorem compat_unfold (a b : MV) : compat a b = (slotCompat (hd a) (hd b) && compat (tl a) (tl b)) := by
  cases a with
  | done => cases b <;> simp [compat, hd, tl, slotCompat]
  | item x t =>
    cases b with
    | done => cases t <;> simp [compat, hd, tl, slotCompat]
    | item y u => simp [compat, hd, tl, slotCompat]
    | sub j => cases x <;> simp [compat, hd, tl, slotCompat, compat_done_right]
  | sub i =>
    cases b with
    | done => simp [compat, hd, tl, slotCompat]
    | item y u => cases y <;> simp [compat, hd, tl, slotCompat]
    | sub j => simp [compat, hd, tl, slotCompat]

theorem atomCompat_symm (a b : Atom) : atomCompat b a = atomCompat a b := by
  cases a <;> cases b <;> simp [atomCompat]

theorem compat_symm : ∀ a b : MV, compat b a = compat a b
  | .done, b => by rw [compat_done_right]; simp [compat]
  | .item _ _, .done => by simp [compat]
  | .sub _, .done => by simp [compat]
  | .item a t, .item b u => by simp only [compat, atomCompat_symm a b, compat_symm t u]
  | .item (.int _) _, .sub _ => by simp [compat]
  | .item (.str _) _, .sub _ => by simp [compat]
  | .sub _, .item (.int _) _ => by simp [compat]
  | .sub _, .item (.str _) _ => by simp [compat]
  | .sub i, .sub j => by simp only [compat, compat_symm i j]

theorem size_tl_le (a : MV) : size (tl a) ≤ size a := by cases a <;> simp [tl, size]

theorem size_tl_lt {a : MV} (h : a ≠ .done) : size (tl a) < size a := by
  cases a <;> simp_all [tl, size]

/-! ### transitivity on pairwise compatible triples -/

/-- The statement proved by induction on the total size. -/
def TransUpTo (n : Nat) : Prop :=
  ∀ x y z : MV, size x + size y + size z < n →
    compat x y = true → compat y z = true → compat x z = true →
    cmp x y ≠ .gt → cmp y z ≠ .gt → cmp x z ≠ .gt

theorem natCmp_zero_ne_lt (n : Nat) : natCmp n 0 ≠ .lt := by
  unfold natCmp; by_cases h : n = 0 <;> simp [h]

theorem natCmp_pos {n : Nat} (h : n ≠ 0) : natCmp n 0 = .gt := by
  unfold natCmp; simp [h]

theorem natCmp_zero_eq : natCmp 0 0 = .eq := by simp [natCmp]

/-- Inner list of a slot, for the size bookkeeping. -/
def Slot.inner : Slot → MV
  | .list l => l
  | _ => .done

/-- One position: transitive for pairwise compatible slots, given
    transitivity for the (smaller) lists standing in the slots. -/
theorem slot_trans {n : Nat} (ih : TransUpTo n) (p q r : Slot)
    (hs : size p.inner + size q.inner + size r.inner < n)
    (c₁ : slotCompat p q = true) (c₂ : slotCompat q r = true) (c₃ : slotCompat p r = true)
    (h₁ : slotCmp p q ≠ .gt) (h₂ : slotCmp q r ≠ .gt) : slotCmp p r ≠ .gt := by
  have sT := strCmp_totalPre
  have nT := natCmp_totalPre
  cases p with
  | nil =>
    cases q with
    | nil => exact h₂
    | atom b =>
      cases r with
      | nil => simp [slotCmp]
      | atom c =>
        cases b with
        | int m =>
          cases c with
          | int k =>
            simp only [slotCmp, atomNil, atomCmp, natCmp_ne_gt, natCmp_swap_ne_gt] at h₁ h₂ ⊢
            omega
          | str t =>
            simp only [slotCmp, atomNil, atomCmp] at *
            simp at h₂
        | str s =>
          cases c with
          | int k =>
            simp only [slotCmp, atomNil, atomCmp, slotCompat, atomCompat] at *
            have : k ≠ 0 := by simpa using c₂
            simp [natCmp_pos this, Ordering.swap]
          | str t =>
            simp only [slotCmp, atomNil, atomCmp] at *
            rw [← sT.swap] at h₁ ⊢
            exact sT.trans _ _ _ h₁ h₂
      | list k =>
        cases b with
        | int m =>
          simp only [slotCmp] at *
          simp at h₂
        | str s => simp [slotCompat] at c₂
    | list j =>
      cases r with
      | nil => simp [slotCmp]
      | atom c =>
        cases c with
        | int k =>
          simp only [slotCmp, atomNil, slotCompat] at *
          have : k ≠ 0 := by simpa using c₂
          simp [natCmp_pos this, Ordering.swap]
        | str t => simp [slotCompat] at c₂
      | list k =>
        simp only [slotCmp, slotCompat, Slot.inner] at *
        rw [← cmp_done_left] at h₁ ⊢
        exact ih .done j k (by simpa [size] using hs) (by simp [compat]) c₂ (by simp [compat]) h₁ h₂
  | atom a =>
    cases q with
    | nil =>
      cases r with
      | nil => exact h₁
      | atom c =>
        cases a with
        | int m =>
          cases c with
          | int k =>
            simp only [slotCmp, atomNil, atomCmp, natCmp_ne_gt, natCmp_swap_ne_gt] at h₁ h₂ ⊢
            omega
          | str t =>
            simp only [slotCmp, atomNil, atomCmp, slotCompat, atomCompat] at *
            have : m ≠ 0 := by simpa using c₃
            simp [natCmp_pos this] at h₁
        | str s =>
          cases c with
          | int k => simp [slotCmp, atomCmp]
          | str t =>
            simp only [slotCmp, atomNil, atomCmp] at *
            rw [← sT.swap] at h₂
            exact sT.trans _ _ _ h₁ h₂
      | list k =>
        cases a with
        | int m =>
          simp only [slotCmp, atomNil, slotCompat] at *
          have : m ≠ 0 := by simpa using c₃
          simp [natCmp_pos this] at h₁
        | str s => simp [slotCompat] at c₃
    | atom b =>
      cases r with
      | nil =>
        cases a with
        | int m =>
          cases b with
          | int k =>
            simp only [slotCmp, atomNil, atomCmp, natCmp_ne_gt, natCmp_swap_ne_gt] at h₁ h₂ ⊢
            omega
          | str t => simp [slotCmp, atomCmp] at h₁
        | str s =>
          cases b with
          | int k =>
            simp only [slotCmp, atomNil, atomCmp, slotCompat, atomCompat] at *
            have : k ≠ 0 := by simpa using c₁
            simp [natCmp_pos this] at h₂
          | str t =>
            simp only [slotCmp, atomNil, atomCmp] at *
            exact sT.trans _ _ _ h₁ h₂
      | atom c =>
        cases a <;> cases b <;> cases c <;> simp only [slotCmp, atomCmp] at * <;> simp_all
        · exact nT.trans _ _ _ h₁ h₂
        · exact sT.trans _ _ _ h₁ h₂
      | list k =>
        cases a with
        | int m => cases b <;> simp_all [slotCmp, atomCmp, slotCompat]
        | str s => simp [slotCompat] at c₃
    | list j =>
      cases a with
      | int m => simp [slotCmp] at h₁
      | str s => simp [slotCompat] at c₁
  | list i =>
    cases q with
    | nil =>
      cases r with
      | nil => exact h₁
      | atom c =>
        cases c with
        | int k => simp [slotCmp]
        | str t => simp [slotCompat] at c₃
      | list k =>
        simp only [slotCmp, slotCompat, Slot.inner] at *
        rw [← cmp_done_right] at h₁
        rw [← cmp_done_left] at h₂
        exact ih i .done k (by simpa [size] using hs) (compat_done_right i) (by simp [compat]) c₃ h₁ h₂
    | atom b =>
      cases b with
      | int m =>
        cases r with
        | nil =>
          simp only [slotCmp, atomNil, slotCompat] at *
          have : m ≠ 0 := by simpa using c₁
          simp [natCmp_pos this] at h₂
        | atom c =>
          cases c with
          | int k => simp [slotCmp]
          | str t => simp [slotCompat] at c₃
        | list k => simp [slotCmp] at h₂
      | str s => simp [slotCompat] at c₁
    | list j =>
      cases r with
      | nil =>
        simp only [slotCmp, slotCompat, Slot.inner] at *
        rw [← cmp_done_right] at h₂ ⊢
        exact ih i j .done (by simpa [size] using hs) c₁ (compat_done_right j) (compat_done_right i) h₁ h₂
      | atom c =>
        cases c with
        | int k => simp [slotCmp]
        | str t => simp [slotCompat] at c₃
      | list k =>
        simp only [slotCmp, slotCompat, Slot.inner] at *
        exact ih i j k hs c₁ c₂ c₃ h₁ h₂

theorem slotCompat_symm (p q : Slot) : slotCompat q p = slotCompat p q := by
  cases p with
  | nil => cases q <;> simp [slotCompat]
  | atom a =>
    cases q with
    | nil => simp [slotCompat]
    | atom b => simp [slotCompat, atomCompat_symm]
    | list j => cases a <;> simp [slotCompat]
  | list i =>
    cases q with
    | nil => simp [slotCompat]
    | atom b => cases b <;> simp [slotCompat]
    | list j => simp [slotCompat, compat_symm]

theorem slotCmp_swap (p q : Slot) : slotCmp q p = (slotCmp p q).swap := by
  cases p with
  | nil => cases q <;> simp [slotCmp, swap_swap]
  | atom a =>
    cases q with
    | nil => simp [slotCmp]
    | atom b => simp [slotCmp, atomCmp_swap a b]
    | list j => cases a <;> simp [slotCmp, Ordering.swap]
  | list i =>
    cases q with
    | nil => simp [slotCmp]
    | atom b => cases b <;> simp [slotCmp, Ordering.swap]
    | list j => simp [slotCmp, cmp_swap i j]

theorem size_inner_hd_le (a : MV) : size (hd a).inner ≤ size a := by
  cases a <;> simp [hd, Slot.inner, size]

theorem size_inner_hd_lt (a : MV) (h : a ≠ .done) : size (hd a).inner < size a := by
  cases a <;> simp_all [hd, Slot.inner, size]

theorem trans_step (n : Nat) (ih : TransUpTo n) : TransUpTo (n + 1) := by
  intro x y z hs c₁ c₂ c₃ h₁ h₂
  by_cases hall : x = .done ∧ y = .done ∧ z = .done
  · obtain ⟨rfl, rfl, rfl⟩ := hall
    simp [cmp, cmpNil, Ordering.swap]
  · rw [cmp_unfold] at h₁ h₂ ⊢
    rw [compat_unfold] at c₁ c₂ c₃
    simp only [Bool.and_eq_true] at c₁ c₂ c₃
    have hin : size (hd x).inner + size (hd y).inner + size (hd z).inner < n := by
      have hx := size_inner_hd_le x; have hy := size_inner_hd_le y; have hz := size_inner_hd_le z
      by_cases ex : x = .done
      · by_cases ey : y = .done
        · have ez : z ≠ .done := fun e => hall ⟨ex, ey, e⟩
          have := size_inner_hd_lt z ez; omega
        · have := size_inner_hd_lt y ey; omega
      · have := size_inner_hd_lt x ex; omega
    have htl : size (tl x) + size (tl y) + size (tl z) < n := by
      have hx := size_tl_le x; have hy := size_tl_le y; have hz := size_tl_le z
      by_cases ex : x = .done
      · by_cases ey : y = .done
        · have ez : z ≠ .done := fun e => hall ⟨ex, ey, e⟩
          have := size_tl_lt ez; omega
        · have := size_tl_lt ey; omega
      · have := size_tl_lt ex; omega
    -- all six arrangements of the three head slots are transitive
    have sym := slotCompat_symm
    have T : ∀ p q r : Slot, size p.inner + size q.inner + size r.inner < n →
        slotCompat p q = true → slotCompat q r = true → slotCompat p r = true →
        slotCmp p q ≠ .gt → slotCmp q r ≠ .gt → slotCmp p r ≠ .gt := fun p q r => slot_trans ih p q r
    have cpq : slotCompat (hd x) (hd y) = true := c₁.1
    have cqr : slotCompat (hd y) (hd z) = true := c₂.1
    have cpr : slotCompat (hd x) (hd z) = true := c₃.1
    have cqp : slotCompat (hd y) (hd x) = true := by rw [sym]; exact cpq
    have crq : slotCompat (hd z) (hd y) = true := by rw [sym]; exact cqr
    have crp : slotCompat (hd z) (hd x) = true := by rw [sym]; exact cpr
    refine then_trans_local (x₁ := slotCmp (hd x) (hd y)) (x₂ := slotCmp (hd y) (hd z))
      (x₃ := slotCmp (hd x) (hd z)) ?_ ?_ ?_
      (ih (tl x) (tl y) (tl z) htl c₁.2 c₂.2 c₃.2) h₁ h₂
    · exact lt_of_lt_of_le_local slotCmp_swap (T _ _ _ hin cpq cqr cpr)
        (T _ _ _ (by omega) cqr crp cqp)
    · exact lt_of_le_of_lt_local slotCmp_swap (T _ _ _ hin cpq cqr cpr)
        (T _ _ _ (by omega) crp cpq crq)
    · exact eq_trans_local slotCmp_swap (T _ _ _ hin cpq cqr cpr)
        (T _ _ _ (by omega) crq cqp crp)

theorem transUpTo : ∀ n, TransUpTo n
  | 0 => fun _ _ _ h => absurd h (Nat.not_lt_zero _)
  | n + 1 => trans_step n (transUpTo n)

/-- `Compare` is transitive on pairwise compatible versions. -/
theorem cmp_trans_of_compat (x y z : MV)
    (c₁ : compat x y = true) (c₂ : compat y z = true) (c₃ : compat x z = true)
    (h₁ : cmp x y ≠ .gt) (h₂ : cmp y z ≠ .gt) : cmp x z ≠ .gt :=
  transUpTo _ x y z (Nat.lt_succ_self _) c₁ c₂ c₃ h₁ h₂

end ClairModel.Maven
