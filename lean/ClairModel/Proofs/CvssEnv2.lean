/-
  C18 — environmental scores of v2: for every valid vector that carries the
  environmental group, `V2.Score` (model, exact arithmetic) is the
  EnvironmentalScore of the v2 guide (AdjustedImpact, AdjustedTemporal, CDP, TD)
  over the specification's weights.  The code's expression is the published one, so
  no sweep is needed: the weight lookups are replaced by the specification
  table (`lk2_eq_w2`) and both sides coincide.
-/
import ClairModel.Proofs.CvssV2
import ClairModel.Proofs.CvssPrint2
namespace ClairModel.Cvss
open ClairModel.Gen.Cvss ClairModel.CvssSpec

/-- the value abbreviation of metric `m` in the vector, `ND` when the metric is not there -/
def abbr2 (v : Vec) (m : Nat) : Bytes := if v.get m = 0 then nd else v2Unparse m (v.get m)

theorem v2Val_lk2 (v : Vec) (m : Nat) : v2Val v m = lk2 m (v2Unparse m (v2ScoreByte v m)) := rfl

theorem unparse_default : ∀ m < 14, 6 ≤ m →
    v2Unparse m (if m ≤ 8 then cN else if m = 9 ∨ m = 10 then cX else cN) = nd := by decide

theorem nd_not_base : ∀ m < 6, ∀ b ∈ pk2 m, b ≠ 0 := by decide

theorem sb2_set (v : Vec) (m : Nat) (hz : v.get m ≠ 0) : v2ScoreByte v m = v.get m := by
  unfold v2ScoreByte
  simp only [hz, and_false, if_false]
  split <;> rfl

theorem sb2_unset (v : Vec) (m : Nat) (h6 : 6 ≤ m) (hm : m < 14) (hz : v.get m = 0) :
    v2ScoreByte v m = (if m ≤ 8 then cN else if m = 9 ∨ m = 10 then cX else cN) := by
  unfold v2ScoreByte
  simp only [hz, and_true]
  have h5 : ¬ m ≤ 5 := by omega
  have h13 : m ≤ 13 := by omega
  rw [if_neg h5, if_pos h13]

theorem w2_total : ∀ m < 14, ∀ val ∈ v2GrammarValues.getD m [], (w2 m val).isSome = true := by decide

theorem val2_abbr {v : Vec} (hv : Valid2 v) {m : Nat} (hm : m < 14) :
    v2Unparse m (v2ScoreByte v m) = abbr2 v m ∧ abbr2 v m ∈ v2GrammarValues.getD m [] := by
  have key : ∀ b, b ∈ pk2 m → v2Unparse m b ∈ v2GrammarValues.getD m [] := by
    intro b hb
    have := (pk2_facts m hm b hb).2.2.1
    simpa using this
  by_cases hz : v.get m = 0
  · have h6 : 6 ≤ m := by
      apply Nat.le_of_not_lt
      intro h6
      exact nd_not_base m h6 _ (hv.base m h6) hz
    rw [sb2_unset v m h6 hm hz, unparse_default m hm h6]
    have : abbr2 v m = nd := by simp [abbr2, hz]
    rw [this]
    exact ⟨rfl, nd_mem m hm h6⟩
  · have hb : v.get m ∈ pk2 m := by
      by_cases h6 : m < 6
      · exact hv.base m h6
      · by_cases h9 : m < 9
        · rcases hv.temporal with h | h
          · exact absurd (h m (by omega) h9) hz
          · exact h m (by omega) h9
        · rcases hv.env with h | h
          · exact absurd (h m (by omega) hm) hz
          · exact h m (by omega) hm
    rw [sb2_set v m hz]
    have : abbr2 v m = v2Unparse m (v.get m) := by simp [abbr2, hz]
    rw [this]
    exact ⟨rfl, key _ hb⟩

/-- v2, every valid vector that carries environmental metrics: `V2.Score`
    evaluated exactly is the EnvironmentalScore of the v2 guide -/
theorem v2_env_facts (v : Vec) (hv : Valid2 v) (he : v2Environmental v = true) :
    score2 v = env2 (abbr2 v 0) (abbr2 v 1) (abbr2 v 2) (abbr2 v 3) (abbr2 v 4) (abbr2 v 5) (abbr2 v 6) (abbr2 v 7)
      (abbr2 v 8) (abbr2 v 9) (abbr2 v 10) (abbr2 v 11) (abbr2 v 12) (abbr2 v 13) := by
  have f (m : Nat) (hm : m < 14) : ∃ x, v2Val v m = some x ∧ w2 m (abbr2 v m) = some x := by
    obtain ⟨h1, h2⟩ := val2_abbr hv hm
    obtain ⟨x, hx⟩ := Option.isSome_iff_exists.1 (w2_total m hm _ h2)
    exact ⟨x, by rw [v2Val_lk2, h1, lk2_eq_w2 m hm _ h2, hx], hx⟩
  obtain ⟨x0, a0, b0⟩ := f 0 (by decide)
  obtain ⟨x1, a1, b1⟩ := f 1 (by decide)
  obtain ⟨x2, a2, b2⟩ := f 2 (by decide)
  obtain ⟨x3, a3, b3⟩ := f 3 (by decide)
  obtain ⟨x4, a4, b4⟩ := f 4 (by decide)
  obtain ⟨x5, a5, b5⟩ := f 5 (by decide)
  obtain ⟨x6, a6, b6⟩ := f 6 (by decide)
  obtain ⟨x7, a7, b7⟩ := f 7 (by decide)
  obtain ⟨x8, a8, b8⟩ := f 8 (by decide)
  obtain ⟨x9, a9, b9⟩ := f 9 (by decide)
  obtain ⟨x10, a10, b10⟩ := f 10 (by decide)
  obtain ⟨x11, a11, b11⟩ := f 11 (by decide)
  obtain ⟨x12, a12, b12⟩ := f 12 (by decide)
  obtain ⟨x13, a13, b13⟩ := f 13 (by decide)
  simp only [score2, v2Vals, he, env2, a0, a1, a2, a3, a4, a5, a6, a7, a8, a9, a10, a11, a12, a13,
    b0, b1, b2, b3, b4, b5, b6, b7, b8, b9, b10, b11, b12, b13]
  rfl
end ClairModel.Cvss
