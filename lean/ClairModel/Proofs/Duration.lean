/-
  C17 — `time.ParseDuration (time.Duration.String d) = d` for every int64 `d`,
  for every `fracMul` that is exact when the scale divides the unit.
-/
import ClairModel.Model.Duration

namespace ClairModel.Duration
open ClairModel.Bytes

/-! ### digit strings -/

theorem parseDigits_le (ds : Bytes) : ∀ (x v : Nat), parseDigits x ds = some v → x ≤ v := by
  induction ds with
  | nil => intro x v h; simp [parseDigits] at h; omega
  | cons c cs ih =>
    intro x v h
    simp only [parseDigits] at h
    split at h
    · have := ih _ _ h; omega
    · cases h

/-- A string that is empty or starts with something that is not a digit. -/
def StopsInt (rest : Bytes) : Prop := rest = [] ∨ ∃ c cs, rest = c :: cs ∧ isDigit c = false

theorem leadingInt_digits (ds : Bytes) : ∀ (x v : Nat) (rest : Bytes),
    parseDigits x ds = some v → v ≤ two63 → StopsInt rest →
    leadingInt x (ds ++ rest) = some (v, rest) := by
  induction ds with
  | nil =>
    intro x v rest h _ hs
    simp [parseDigits] at h; subst h
    rcases hs with rfl | ⟨c, cs, rfl, hc⟩
    · rfl
    · simp [leadingInt, hc]
  | cons c cs ih =>
    intro x v rest h hv hs
    simp only [parseDigits] at h
    split at h
    · rename_i hd
      have hle := parseDigits_le cs _ _ h
      have h1 : ¬ x > two63 / 10 := by
        intro hgt
        have : two63 / 10 + 1 ≤ x := hgt
        have : (two63 / 10 + 1) * 10 ≤ x * 10 := Nat.mul_le_mul_right 10 this
        unfold two63 at *
        omega
      have h2 : ¬ x * 10 + (c - 48) > two63 := by omega
      simp only [List.cons_append, leadingInt, hd, if_true, h1, if_false, h2]
      exact ih _ _ _ h hv hs
    · cases h

theorem showNat_stops (n : Nat) : ¬ StopsInt (showNat n) := by
  obtain ⟨c, cs, hc, hd⟩ := showNat_head n
  rintro (h | ⟨c', cs', h, hd'⟩)
  · rw [hc] at h; cases h
  · rw [hc] at h; cases h; rw [hd] at hd'; cases hd'

theorem leadingInt_showNat (v : Nat) (rest : Bytes) (hv : v ≤ two63) (hs : StopsInt rest) :
    leadingInt 0 (showNat v ++ rest) = some (v, rest) :=
  leadingInt_digits _ 0 v rest (parseDigits_showNat v) hv hs

theorem leadingFraction_digits (ds : Bytes) : ∀ (x k v : Nat) (rest : Bytes),
    (∀ c ∈ ds, isDigit c = true) → parseDigits x ds = some v → v ≤ (two63 - 1) / 10 → StopsInt rest →
    leadingFraction x k false (ds ++ rest) = (v, k + ds.length, rest) := by
  induction ds with
  | nil =>
    intro x k v rest _ h _ hs
    simp [parseDigits] at h; subst h
    rcases hs with rfl | ⟨c, cs, rfl, hc⟩
    · rfl
    · simp [leadingFraction, hc]
  | cons c cs ih =>
    intro x k v rest hd h hv hs
    have hc : isDigit c = true := hd c (by simp)
    simp only [parseDigits, hc, if_true] at h
    have hle := parseDigits_le cs _ _ h
    have h1 : ¬ x > (two63 - 1) / 10 := by unfold two63 at *; omega
    have h2 : ¬ x * 10 + (c - 48) > two63 := by unfold two63 at *; omega
    simp only [List.cons_append, leadingFraction, hc, if_true, Bool.false_eq_true, if_false, h1, h2]
    rw [ih _ (k + 1) v rest (fun d hd' => hd d (List.mem_cons_of_mem _ hd')) h hv hs]
    simp only [List.length_cons]
    congr 2
    omega

/-! ### the fraction `fmtFrac` prints -/

theorem padDigits_length (p f : Nat) : (padDigits p f).length = p := by
  induction p generalizing f with
  | zero => rfl
  | succ p ih => simp [padDigits, ih]

theorem padDigits_digits (p f : Nat) : ∀ c ∈ padDigits p f, isDigit c = true := by
  induction p generalizing f with
  | zero => intro c h; simp [padDigits] at h
  | succ p ih =>
    intro c h
    simp only [padDigits, List.mem_append, List.mem_singleton] at h
    rcases h with h | rfl
    · exact ih _ c h
    · simp [isDigit]; omega

theorem parseDigits_padDigits (p : Nat) : ∀ (f x : Nat), f < 10 ^ p →
    parseDigits x (padDigits p f) = some (x * 10 ^ p + f) := by
  induction p with
  | zero => intro f x h; simp at h; subst h; simp [padDigits, parseDigits]
  | succ p ih =>
    intro f x h
    simp only [padDigits]
    rw [parseDigits_append _ _ _ (Nat.mod_lt _ (by omega))]
    have hlt : f / 10 < 10 ^ p := by
      rw [Nat.div_lt_iff_lt_mul (by omega)]
      simpa [Nat.pow_succ] using h
    rw [ih (f / 10) x hlt]
    simp only [Option.map_some, Option.some.injEq, Nat.pow_succ]
    have := Nat.div_add_mod f 10
    rw [Nat.add_mul, Nat.mul_assoc]
    omega

/-- Appending zeros multiplies the value by a power of ten. -/
theorem parseDigits_zeros (ds : Bytes) (z : Nat) : ∀ (x v : Nat), parseDigits x ds = some v →
    parseDigits x (ds ++ List.replicate z 48) = some (v * 10 ^ z) := by
  induction z with
  | zero => intro x v h; simpa using h
  | succ z ih =>
    intro x v h
    have : ds ++ List.replicate (z + 1) 48 = (ds ++ List.replicate z 48) ++ [48 + 0] := by
      rw [List.replicate_succ', List.append_assoc]
    rw [this, parseDigits_append _ _ 0 (by omega), ih x v h]
    simp [Nat.pow_succ, Nat.mul_assoc]

theorem dropWhile_zeros_spec (l : Bytes) :
    ∃ z, l = List.replicate z 48 ++ l.dropWhile (· == 48) := by
  induction l with
  | nil => exact ⟨0, rfl⟩
  | cons c cs ih =>
    by_cases hc : c = 48
    · obtain ⟨z, hz⟩ := ih
      refine ⟨z + 1, ?_⟩
      subst hc
      simp only [List.dropWhile_cons, beq_self_eq_true, if_true, List.replicate_succ, List.cons_append]
      rw [← hz]
    · refine ⟨0, ?_⟩
      have : (c == 48) = false := by simpa using hc
      simp [this]

theorem trimZeros_spec (l : Bytes) : ∃ z, l = trimZeros l ++ List.replicate z 48 := by
  obtain ⟨z, hz⟩ := dropWhile_zeros_spec l.reverse
  refine ⟨z, ?_⟩
  have := congrArg List.reverse hz
  simp only [List.reverse_reverse, List.reverse_append, List.reverse_replicate] at this
  unfold trimZeros
  exact this

theorem trimZeros_mem (l : Bytes) (c : Nat) (h : c ∈ trimZeros l) : c ∈ l := by
  obtain ⟨z, hz⟩ := trimZeros_spec l
  rw [hz]; exact List.mem_append_left _ h

theorem parseDigits_some_of_digits (ds : Bytes) : ∀ x, (∀ c ∈ ds, isDigit c = true) → ∃ v, parseDigits x ds = some v := by
  induction ds with
  | nil => intro x _; exact ⟨x, rfl⟩
  | cons c cs ih =>
    intro x h
    simp only [parseDigits, h c (by simp), if_true]
    exact ih _ fun d hd => h d (List.mem_cons_of_mem _ hd)

/-- The digits `fmtFrac` keeps: their value, scaled back by the zeros dropped, is the fraction. -/
theorem frac_digits (p f : Nat) (hf : f < 10 ^ p) :
    ∃ x, parseDigits 0 (trimZeros (padDigits p f)) = some x ∧
      (trimZeros (padDigits p f)).length ≤ p ∧
      x * 10 ^ (p - (trimZeros (padDigits p f)).length) = f ∧
      (∀ c ∈ trimZeros (padDigits p f), isDigit c = true) := by
  obtain ⟨z, hz⟩ := trimZeros_spec (padDigits p f)
  have hdig : ∀ c ∈ trimZeros (padDigits p f), isDigit c = true :=
    fun c hc => padDigits_digits p f c (trimZeros_mem _ c hc)
  obtain ⟨x, hx⟩ := parseDigits_some_of_digits (trimZeros (padDigits p f)) 0 hdig
  have hlen : (trimZeros (padDigits p f)).length + z = p := by
    have := congrArg List.length hz
    simp only [padDigits_length, List.length_append, List.length_replicate] at this
    omega
  have hval := parseDigits_zeros _ z 0 x hx
  rw [← hz, parseDigits_padDigits p f 0 hf] at hval
  simp only [Nat.zero_mul, Nat.zero_add, Option.some.injEq] at hval
  refine ⟨x, hx, by omega, ?_, hdig⟩
  have : p - (trimZeros (padDigits p f)).length = z := by omega
  rw [this]; exact hval.symm

/-! ### one group -/

/-- What follows a group: nothing, or the next group, which starts with a digit. -/
def NextGroup (rest : Bytes) : Prop := rest = [] ∨ ∃ c cs, rest = c :: cs ∧ isDigit c = true

theorem spanUnit_stop (rest : Bytes) (h : NextGroup rest) : spanUnit rest = ([], rest) := by
  rcases h with rfl | ⟨c, cs, rfl, hc⟩
  · rfl
  · simp [spanUnit, hc]

theorem spanUnit_unit (ub rest : Bytes) (hu : ∀ c ∈ ub, c ≠ 46 ∧ isDigit c = false) (hr : NextGroup rest) :
    spanUnit (ub ++ rest) = (ub, rest) := by
  induction ub with
  | nil => simpa using spanUnit_stop rest hr
  | cons c cs ih =>
    obtain ⟨h1, h2⟩ := hu c (by simp)
    have := ih fun d hd => hu d (List.mem_cons_of_mem _ hd)
    simp [spanUnit, h1, h2, this]

/-- A unit the printer uses: non-empty, no '.', no digit, known to `unitMap`. -/
structure UnitOK (ub : Bytes) (unit : Nat) : Prop where
  ne : ub ≠ []
  chars : ∀ c ∈ ub, c ≠ 46 ∧ isDigit c = false
  known : unitOf ub = some unit
  pos : 0 < unit

theorem stops_unit (ub rest : Bytes) (unit : Nat) (hu : UnitOK ub unit) : StopsInt (ub ++ rest) := by
  cases ub with
  | nil => exact absurd rfl hu.ne
  | cons c cs => exact Or.inr ⟨c, cs ++ rest, rfl, (hu.chars c (by simp)).2⟩

/-- The exactness the float step has whenever the scale divides the unit. -/
def ExactFrac (fm : Nat → Nat → Nat → Nat) : Prop :=
  ∀ f unit k, 10 ^ k ∣ unit → fm f unit k = f * (unit / 10 ^ k)

/-- One group, with what follows the integer part kept abstract. -/
theorem parseGroup_core (fm : Nat → Nat → Nat → Nat) (v unit x k : Nat) (X ub rest : Bytes) (post : Bool)
    (hu : UnitOK ub unit) (hX : StopsInt X) (hfr : parseFrac X = (x, k, ub ++ rest, post))
    (hsp : spanUnit (ub ++ rest) = (ub, rest)) (hv : v ≤ two63 / unit)
    (hsum : x > 0 → v * unit + fm x unit k ≤ two63) :
    parseGroup fm (showNat v ++ X) = some (if x > 0 then v * unit + fm x unit k else v * unit, rest) := by
  obtain ⟨c, cs, hc, hd⟩ := showNat_head v
  have hv63 : v ≤ two63 := Nat.le_trans hv (Nat.div_le_self _ _)
  have hhead : (showNat v ++ X).head? = some c := by rw [hc]; rfl
  have hli := leadingInt_showNat v X hv63 hX
  have hpre : (X.length != (showNat v ++ X).length) = true := by
    simp only [List.length_append, hc, List.length_cons, bne_iff_ne, ne_eq]; omega
  have hne : ub.isEmpty = false := by cases ub with
    | nil => exact absurd rfl hu.ne
    | cons _ _ => rfl
  have hvn : ¬ v > two63 / unit := Nat.not_lt.mpr hv
  have hcd : (!(c = 46 || isDigit c)) = false := by simp [hd]
  unfold parseGroup
  rw [hhead]
  simp only [hcd, Bool.false_eq_true, if_false, hli, hpre, Bool.not_true, Bool.false_and, hfr, hsp, hne,
    hu.known, hvn]
  by_cases hx0 : x > 0
  · have : ¬ v * unit + fm x unit k > two63 := Nat.not_lt.mpr (hsum hx0)
    simp [hx0, this]
  · simp [hx0]

/-- A group without a fraction: `<v><unit>`. -/
theorem parseGroup_int (fm : Nat → Nat → Nat → Nat) (v unit : Nat) (ub rest : Bytes)
    (hu : UnitOK ub unit) (hr : NextGroup rest) (hv : v ≤ two63 / unit) :
    parseGroup fm (showNat v ++ (ub ++ rest)) = some (v * unit, rest) := by
  have hfr : parseFrac (ub ++ rest) = (0, 0, ub ++ rest, false) := by
    cases ub with
    | nil => exact absurd rfl hu.ne
    | cons u us =>
      have : u ≠ 46 := (hu.chars u (by simp)).1
      simp only [List.cons_append, parseFrac]
      split
      · rename_i heq; cases heq; exact absurd rfl this
      · rfl
  have := parseGroup_core fm v unit 0 0 (ub ++ rest) ub rest false hu (stops_unit ub rest unit hu) hfr
    (spanUnit_unit ub rest hu.chars hr) hv (by intro h; omega)
  simpa using this

/-- A group with the fraction `fmtFrac f p` in front of the unit `10^p`. -/
theorem parseGroup_frac (fm : Nat → Nat → Nat → Nat) (hfm : ExactFrac fm) (v p f : Nat) (ub rest : Bytes)
    (hu : UnitOK ub (10 ^ p)) (hr : NextGroup rest) (hf : f < 10 ^ p) (hv : v ≤ two63 / 10 ^ p)
    (hp : p ≤ 9) (hsum : v * 10 ^ p + f ≤ two63) :
    parseGroup fm (showNat v ++ (fmtFrac f p ++ (ub ++ rest))) = some (v * 10 ^ p + f, rest) := by
  obtain ⟨x, hx, hlen, hval, hdig⟩ := frac_digits p f hf
  unfold fmtFrac
  by_cases he : (trimZeros (padDigits p f)).isEmpty = true
  · -- no fraction printed: f = 0
    have hnil : trimZeros (padDigits p f) = [] := by simpa using he
    rw [hnil] at hx hval
    simp [parseDigits] at hx
    subst hx
    have hf0 : f = 0 := by simpa using hval.symm
    subst hf0
    simp only [he, if_true, List.nil_append, Nat.add_zero]
    exact parseGroup_int fm v (10 ^ p) ub rest hu hr hv
  · have he' : (trimZeros (padDigits p f)).isEmpty = false := by simpa using he
    simp only [he', Bool.false_eq_true, if_false]
    have hxle : x ≤ (two63 - 1) / 10 := by
      have h1 : x ≤ f := by
        rw [← hval]; exact Nat.le_mul_of_pos_right _ (Nat.pow_pos (by omega))
      have h2 : f < 10 ^ 9 := Nat.lt_of_lt_of_le hf (Nat.pow_le_pow_right (by omega) hp)
      have h3 : (10 : Nat) ^ 9 = 1000000000 := by rfl
      rw [h3] at h2
      show x ≤ (9223372036854775808 - 1) / 10
      omega
    have hlf := leadingFraction_digits (trimZeros (padDigits p f)) 0 0 x (ub ++ rest) hdig hx hxle
      (stops_unit ub rest _ hu)
    have hpos : 0 < (trimZeros (padDigits p f)).length := by
      cases h : trimZeros (padDigits p f) with
      | nil => rw [h] at he'; simp at he'
      | cons _ _ => simp
    have hfr : parseFrac (46 :: (trimZeros (padDigits p f) ++ (ub ++ rest))) =
        (x, (trimZeros (padDigits p f)).length, ub ++ rest, true) := by
      simp only [parseFrac, hlf, Nat.zero_add, List.length_append, bne_iff_ne, ne_eq,
        Prod.mk.injEq, true_and]
      omega
    have hdiv : 10 ^ (trimZeros (padDigits p f)).length ∣ 10 ^ p := Nat.pow_dvd_pow 10 hlen
    have hq : 10 ^ p / 10 ^ (trimZeros (padDigits p f)).length = 10 ^ (p - (trimZeros (padDigits p f)).length) :=
      Nat.pow_div hlen (by omega)
    have hfmv : fm x (10 ^ p) (trimZeros (padDigits p f)).length = f := by
      rw [hfm _ _ _ hdiv, hq, hval]
    have hstop : StopsInt (46 :: (trimZeros (padDigits p f) ++ (ub ++ rest))) := Or.inr ⟨46, _, rfl, by decide⟩
    have := parseGroup_core fm v (10 ^ p) x _ _ ub rest true hu hstop hfr
      (spanUnit_unit ub rest hu.chars hr) hv (by intro _; rw [hfmv]; exact hsum)
    rw [hfmv] at this
    have hx0 : x > 0 := by
      cases Nat.eq_zero_or_pos x with
      | inl h0 =>
        exfalso
        -- x = 0 would make every kept digit a zero, but the last kept digit is not
        rw [h0] at hval
        simp at hval
        -- f = 0 : then all pad digits are zeros and the trimmed list is empty
        subst hval
        have : trimZeros (padDigits p 0) = [] := by
          have hz : padDigits p 0 = List.replicate p 48 := by
            clear hu hf hv hp hsum hx hlen hdig he he' hxle hlf hpos hfr hdiv hq hfmv hstop this
            induction p with
            | zero => rfl
            | succ p ih => simp [padDigits, ih, List.replicate_succ']
          unfold trimZeros
          rw [hz, List.reverse_replicate]
          have : List.dropWhile (· == 48) (List.replicate p 48) = [] := by
            clear hz
            induction p with
            | zero => rfl
            | succ p _ => simp [List.replicate_succ]
          rw [this]; rfl
        rw [this] at hpos; simp at hpos
      | inr h => exact h
    simpa [hx0] using this

/-! ### the loop, and the whole string -/

theorem parseLoop_step (fm : Nat → Nat → Nat → Nat) (n d v2 : Nat) (s rest : Bytes)
    (hg : parseGroup fm s = some (v2, rest)) (hsum : d + v2 ≤ two63) :
    parseLoop fm (n + 1) d s = parseLoop fm n (d + v2) rest := by
  cases s with
  | nil => simp [parseGroup] at hg
  | cons c cs =>
    have hmod : (d + v2) % (2 * two63) = d + v2 := Nat.mod_eq_of_lt (by unfold two63 at *; omega)
    have hn : ¬ d + v2 > two63 := Nat.not_lt.mpr hsum
    simp only [parseLoop, hg, hmod, hn, if_false]

theorem parseLoop_nil (fm : Nat → Nat → Nat → Nat) (n d : Nat) : parseLoop fm (n + 1) d [] = some d := rfl

theorem unitOK_ns : UnitOK unitNs 1 := ⟨by decide, by decide, by decide, by decide⟩
theorem unitOK_us : UnitOK unitUs (10 ^ 3) := ⟨by decide, by decide, by decide, by decide⟩
theorem unitOK_ms : UnitOK unitMs (10 ^ 6) := ⟨by decide, by decide, by decide, by decide⟩
theorem unitOK_s : UnitOK unitS (10 ^ 9) := ⟨by decide, by decide, by decide, by decide⟩
theorem unitOK_s1 : UnitOK unitS 1000000000 := ⟨by decide, by decide, by decide, by decide⟩
theorem unitOK_m : UnitOK unitM 60000000000 := ⟨by decide, by decide, by decide, by decide⟩
theorem unitOK_h : UnitOK unitH 3600000000000 := ⟨by decide, by decide, by decide, by decide⟩

theorem nextGroup_showNat (n : Nat) (rest : Bytes) : NextGroup (showNat n ++ rest) := by
  obtain ⟨c, cs, hc, hd⟩ := showNat_head n
  exact Or.inr ⟨c, cs ++ rest, by rw [hc]; rfl, hd⟩

/-- The seconds group parses to seconds-within-the-minute plus the fraction. -/
theorem parse_secGroup (fm : Nat → Nat → Nat → Nat) (hfm : ExactFrac fm) (u : Nat) :
    parseGroup fm (secGroup u) = some (u / 1000000000 % 60 * 1000000000 + u % 1000000000, []) := by
  have h9 : (10 : Nat) ^ 9 = 1000000000 := by rfl
  have := parseGroup_frac fm hfm (u / 1000000000 % 60) 9 (u % 1000000000) unitS [] unitOK_s (Or.inl rfl)
    (by rw [h9]; exact Nat.mod_lt _ (by omega))
    (by rw [h9]; unfold two63; have : u / 1000000000 % 60 < 60 := Nat.mod_lt _ (by omega)
        show u / 1000000000 % 60 ≤ 9223372036854775808 / 1000000000
        omega)
    (by omega)
    (by rw [h9]; unfold two63
        have : u / 1000000000 % 60 < 60 := Nat.mod_lt _ (by omega)
        have : u % 1000000000 < 1000000000 := Nat.mod_lt _ (by omega)
        omega)
  rw [h9] at this
  exact this

/-- Every magnitude up to 2^63 prints to a string the group loop reads back. -/
theorem parseLoop_body (fm : Nat → Nat → Nat → Nat) (hfm : ExactFrac fm) (u : Nat) (hu : u ≤ two63) (k : Nat) :
    parseLoop fm (k + 4) 0 (durationBody u) = some u := by
  have h3 : (10 : Nat) ^ 3 = 1000 := by rfl
  have h6 : (10 : Nat) ^ 6 = 1000000 := by rfl
  unfold durationBody
  split
  · rename_i hlt
    split
    · rename_i h0
      subst h0
      have := parseGroup_int fm 0 1000000000 unitS [] unitOK_s1 (Or.inl rfl) (by omega)
      rw [parseLoop_step fm _ 0 _ _ _ this (by unfold two63; omega)]
      rfl
    · split
      · rename_i h0 hk
        have := parseGroup_int fm u 1 unitNs [] unitOK_ns (Or.inl rfl) (by simpa using hu)
        rw [parseLoop_step fm _ 0 _ _ _ this (by omega)]
        simp [parseLoop_nil]
      · split
        · rename_i h0 hk hm
          have := parseGroup_frac fm hfm (u / 1000) 3 (u % 1000) unitUs [] unitOK_us (Or.inl rfl)
            (by rw [h3]; exact Nat.mod_lt _ (by omega))
            (by rw [h3]; unfold two63; show u / 1000 ≤ 9223372036854775808 / 1000; omega) (by omega)
            (by rw [h3]; unfold two63; omega)
          rw [h3] at this
          rw [parseLoop_step fm _ 0 _ _ _ this (by unfold two63; omega)]
          simp only [Nat.zero_add, parseLoop_nil, Option.some.injEq]
          omega
        · rename_i h0 hk hm
          have := parseGroup_frac fm hfm (u / 1000000) 6 (u % 1000000) unitMs [] unitOK_ms (Or.inl rfl)
            (by rw [h6]; exact Nat.mod_lt _ (by omega))
            (by rw [h6]; unfold two63; show u / 1000000 ≤ 9223372036854775808 / 1000000; omega) (by omega)
            (by rw [h6]; unfold two63; omega)
          rw [h6] at this
          rw [parseLoop_step fm _ 0 _ _ _ this (by unfold two63; omega)]
          simp only [Nat.zero_add, parseLoop_nil, Option.some.injEq]
          omega
  · rename_i hge
    have hs := parse_secGroup fm hfm u
    have hsl : u / 1000000000 % 60 < 60 := Nat.mod_lt _ (by omega)
    have hfl : u % 1000000000 < 1000000000 := Nat.mod_lt _ (by omega)
    simp only
    split
    · rename_i hm0
      rw [parseLoop_step fm _ 0 _ _ _ hs (by unfold two63 at *; omega)]
      simp only [Nat.zero_add, parseLoop_nil, Option.some.injEq]
      omega
    · split
      · rename_i hm0 hh0
        have hml : u / 1000000000 / 60 % 60 < 60 := Nat.mod_lt _ (by omega)
        have hm := parseGroup_int fm (u / 1000000000 / 60 % 60) 60000000000 unitM (secGroup u) unitOK_m
          (nextGroup_showNat _ _)
          (by unfold two63; show u / 1000000000 / 60 % 60 ≤ 9223372036854775808 / 60000000000; omega)
        rw [parseLoop_step fm _ 0 _ _ _ hm (by unfold two63 at *; omega)]
        rw [parseLoop_step fm _ _ _ _ _ hs (by unfold two63 at *; omega)]
        simp only [Nat.zero_add, parseLoop_nil, Option.some.injEq]
        omega
      · rename_i hm0 hh0
        have hml : u / 1000000000 / 60 % 60 < 60 := Nat.mod_lt _ (by omega)
        have hhv : u / 1000000000 / 60 / 60 ≤ two63 / 3600000000000 := by
          unfold two63 at *
          show u / 1000000000 / 60 / 60 ≤ 9223372036854775808 / 3600000000000
          omega
        have hh := parseGroup_int fm (u / 1000000000 / 60 / 60) 3600000000000 unitH
          (showNat (u / 1000000000 / 60 % 60) ++ (unitM ++ secGroup u)) unitOK_h (nextGroup_showNat _ _) hhv
        have hm := parseGroup_int fm (u / 1000000000 / 60 % 60) 60000000000 unitM (secGroup u) unitOK_m
          (nextGroup_showNat _ _)
          (by unfold two63; show u / 1000000000 / 60 % 60 ≤ 9223372036854775808 / 60000000000; omega)
        rw [parseLoop_step fm _ 0 _ _ _ hh (by unfold two63 at *; omega)]
        rw [parseLoop_step fm _ _ _ _ _ hm (by unfold two63 at *; omega)]
        rw [parseLoop_step fm _ _ _ _ _ hs (by unfold two63 at *; omega)]
        simp only [Nat.zero_add, parseLoop_nil, Option.some.injEq]
        omega

theorem fmtFrac_unit_ne (f p : Nat) (ub : Bytes) (h : ub ≠ []) : fmtFrac f p ++ (ub ++ []) ≠ [] := by
  intro he
  have := List.append_eq_nil_iff.1 he
  simp at this
  exact h this.2

/-- The printed magnitude starts with a number and continues with something. -/
theorem body_shape (u : Nat) : ∃ a Y, durationBody u = showNat a ++ Y ∧ Y ≠ [] := by
  unfold durationBody
  split
  · split
    · exact ⟨0, _, rfl, by decide⟩
    · split
      · exact ⟨u, _, rfl, by decide⟩
      · split
        · exact ⟨_, _, rfl, fmtFrac_unit_ne _ _ _ (by decide)⟩
        · exact ⟨_, _, rfl, fmtFrac_unit_ne _ _ _ (by decide)⟩
  · simp only
    split
    · exact ⟨_, _, rfl, fmtFrac_unit_ne _ _ _ (by decide)⟩
    · split
      · exact ⟨_, _, rfl, by simp [unitM]⟩
      · exact ⟨_, _, rfl, by simp [unitH]⟩

/-- `time.ParseDuration(time.Duration(d).String()) == d` for every int64 `d`
    (MinInt64 included), whenever the float step is exact on dividing scales. -/
theorem parseDuration_durationString (fm : Nat → Nat → Nat → Nat) (hfm : ExactFrac fm) (d : Int)
    (hlo : -9223372036854775808 ≤ d) (hhi : d < 9223372036854775808) :
    parseDuration fm (durationString d) = some d := by
  obtain ⟨a, Y, hb, hY⟩ := body_shape d.natAbs
  obtain ⟨c, cs, hc, hd⟩ := showNat_head a
  have hu : d.natAbs ≤ two63 := by unfold two63; omega
  have hbody : durationBody d.natAbs = c :: (cs ++ Y) := by rw [hb, hc]; rfl
  have h45 : c ≠ 45 := by intro e; subst e; simp [isDigit] at hd
  have h43 : c ≠ 43 := by intro e; subst e; simp [isDigit] at hd
  have hne48 : c :: (cs ++ Y) ≠ [48] := by
    intro e
    have : cs ++ Y = [] := by simpa using (List.cons.inj e).2
    exact hY (List.append_eq_nil_iff.1 this).2
  have hloop := parseLoop_body fm hfm d.natAbs hu (c :: (cs ++ Y)).length
  rw [hbody] at hloop
  unfold durationString
  have hstrip : stripSign (c :: (cs ++ Y)) = c :: (cs ++ Y) := by
    unfold stripSign
    split
    · rename_i r heq; exact absurd (List.cons.inj heq).1 h45
    · rename_i r heq; exact absurd (List.cons.inj heq).1 h43
    · rfl
  by_cases hneg : d < 0
  · have hs : stripSign (45 :: c :: (cs ++ Y)) = c :: (cs ++ Y) := rfl
    simp only [hneg, if_true, hbody, parseDuration, hs, List.head?_cons, beq_self_eq_true, hne48, if_false,
      reduceCtorEq, hloop]
    simp only [Option.some.injEq]
    omega
  · have hnegb : ((c :: (cs ++ Y)).head? == some 45) = false := by
      simp only [List.head?_cons, beq_eq_false_iff_ne, ne_eq, Option.some.injEq]; exact h45
    have hle : ¬ d.natAbs > two63 - 1 := by unfold two63; omega
    simp only [hneg, if_false, hbody, parseDuration, hstrip, hnegb, hne48, reduceCtorEq, hloop, hle,
      Bool.false_eq_true]
    simp only [Option.some.injEq]
    omega

/-- Whatever the loop accepts sums to at most 2^63. -/
theorem parseLoop_le (fm : Nat → Nat → Nat → Nat) : ∀ (n d : Nat) (s : Bytes) (r : Nat),
    d ≤ two63 → parseLoop fm n d s = some r → r ≤ two63 := by
  intro n
  induction n with
  | zero => intro d s r _ h; simp [parseLoop] at h
  | succ n ih =>
    intro d s r hd h
    cases s with
    | nil => simp [parseLoop] at h; omega
    | cons c cs =>
      simp only [parseLoop] at h
      split at h
      · cases h
      · rename_i v2 rest _
        split at h
        · cases h
        · rename_i hle
          exact ih _ _ _ (Nat.le_of_not_gt hle) h

/-- Whatever `ParseDuration` accepts is an int64. -/
theorem parseDuration_range (fm : Nat → Nat → Nat → Nat) (s : Bytes) (d : Int) (h : parseDuration fm s = some d) :
    -9223372036854775808 ≤ d ∧ d < 9223372036854775808 := by
  unfold parseDuration at h
  simp only at h
  split at h
  · cases h; omega
  · split at h
    · cases h
    · split at h
      · cases h
      · rename_i r hr
        have hle := parseLoop_le fm _ 0 _ r (by unfold two63; omega) hr
        unfold two63 at hle
        split at h
        · cases h; omega
        · split at h
          · cases h
          · rename_i hgt
            cases h
            unfold two63 at hgt
            omega

end ClairModel.Duration
