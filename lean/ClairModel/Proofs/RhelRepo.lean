/-
  Lemmas about Model/RhelRepo.lean: the reported CPEs are exactly the CPEs
  (that unbind) of the listed repositories the mapping knows, once each.
-/
import ClairModel.Model.RhelRepo

set_option autoImplicit false

namespace ClairModel.RhelRepo
open ClairModel.Bytes

theorem mem_dedup (x : Bytes) (l : List Bytes) : x ∈ dedup l ↔ x ∈ l := by
  induction l with
  | nil => simp [dedup]
  | cons y ys ih =>
    simp only [dedup]
    by_cases hc : ys.contains y = true
    · simp only [hc, if_true, ih, List.mem_cons]
      constructor
      · intro h; exact Or.inr h
      · intro h
        rcases h with rfl | h
        · exact List.contains_iff_mem.1 hc
        · exact h
    · have hc' : ys.contains y = false := by cases h : ys.contains y <;> simp_all
      simp only [hc', Bool.false_eq_true, if_false, List.mem_cons]
      rw [ih]

theorem nodup_dedup (l : List Bytes) : (dedup l).Nodup := by
  induction l with
  | nil => simp [dedup]
  | cons y ys ih =>
    simp only [dedup]
    cases hc : ys.contains y with
    | true => simpa using ih
    | false =>
      simp only [Bool.false_eq_true, if_false]
      refine List.nodup_cons.2 ⟨?_, ih⟩
      intro h
      have := List.contains_iff_mem.2 ((mem_dedup y ys).1 h)
      rw [hc] at this
      cases this

/-- which CPEs are reported for a list of content sets -/
theorem mem_cpesOf (m : Mapping) (rs : List Bytes) (c : Bytes) :
    c ∈ cpesOf m rs ↔ ∃ r ∈ rs, ∃ l, lookup m r = some l ∧ (c, true) ∈ l := by
  unfold cpesOf
  rw [mem_dedup]
  simp only [List.mem_filterMap, List.mem_flatMap]
  constructor
  · rintro ⟨⟨c', v⟩, ⟨r, hr, hin⟩, hsel⟩
    cases v with
    | false => simp at hsel
    | true =>
      simp only [if_true, Option.some.injEq] at hsel
      subst hsel
      cases hl : lookup m r with
      | none => rw [hl] at hin; simp at hin
      | some l => rw [hl] at hin; exact ⟨r, hr, l, hl, hin⟩
  · rintro ⟨r, hr, l, hl, hin⟩
    exact ⟨(c, true), ⟨r, hr, by rw [hl]; exact hin⟩, by simp⟩

theorem globOrder_single (f : Manifest) : globOrder [f] = [f] := by
  unfold globOrder
  cases h : (f.dir == 0) with
  | true => simp [List.filter, h, sortBy, insertBy, bne]
  | false => simp [List.filter, h, sortBy, insertBy, bne]

end ClairModel.RhelRepo
