/-
  C01 — `fileIsDeleted` is the OCI cover relation (except for an opaque marker at the
  root of a layer).  Lemmas about the lexical path functions of Model/Coalesce.lean.
  Core Lean only.
-/
import ClairModel.Model.LayerFS

namespace ClairModel.LayerFS
open ClairModel.Coalesce

/-! ### splitting on '/' -/

theorem splitChars_ne_nil (l : List Char) : splitChars l ≠ [] := by
  cases l with
  | nil => simp [splitChars]
  | cons c cs =>
    simp only [splitChars]
    by_cases h : c = '/'
    · simp [h]
    · simp only [h, if_false]
      cases splitChars cs <;> simp

/-- component-wise prefix on character lists -/
def prefP : List (List Char) → List (List Char) → Bool
  | [], _ => true
  | _ :: _, [] => false
  | c :: cs, f :: fs => decide (c = f) && prefP cs fs

/-- the components of `c` are a prefix of the components of `f` iff `f` is `c` or starts with `c/` -/
theorem prefP_split (c f : List Char) :
    prefP (splitChars c) (splitChars f) = (decide (f = c) || (c ++ ['/']).isPrefixOf f) := by
  induction c generalizing f with
  | nil =>
    cases f with
    | nil => simp [splitChars, prefP]
    | cons x f' =>
      simp only [splitChars, List.nil_append]
      by_cases hx : x = '/'
      · subst hx
        cases hs : splitChars f' with
        | nil => exact absurd hs (splitChars_ne_nil f')
        | cons h t => simp [prefP, List.isPrefixOf]
      · simp only [hx, if_false]
        cases hs : splitChars f' with
        | nil => exact absurd hs (splitChars_ne_nil f')
        | cons h t =>
          simp only [prefP]
          have : ¬ ('/' = x) := fun e => hx e.symm
          simp [List.isPrefixOf, this]
  | cons a c' ih =>
    by_cases ha : a = '/'
    · subst ha
      simp only [splitChars, if_true, List.cons_append]
      cases f with
      | nil =>
        cases hs : splitChars c' with
        | nil => exact absurd hs (splitChars_ne_nil c')
        | cons h t => simp [splitChars, prefP, List.isPrefixOf]
      | cons x f' =>
        by_cases hx : x = '/'
        · subst hx
          simp only [splitChars, if_true, prefP, decide_true, Bool.true_and]
          rw [ih f']
          simp [List.isPrefixOf]
        · simp only [splitChars, hx, if_false]
          cases hs : splitChars f' with
          | nil => exact absurd hs (splitChars_ne_nil f')
          | cons h t =>
            have : ¬ ('/' = x) := fun e => hx e.symm
            simp [prefP, List.isPrefixOf, this, hx]
    · simp only [splitChars, ha, if_false, List.cons_append]
      cases hsc : splitChars c' with
      | nil => exact absurd hsc (splitChars_ne_nil c')
      | cons hc tc =>
        simp only
        cases f with
        | nil => simp [splitChars, prefP, List.isPrefixOf]
        | cons x f' =>
          by_cases hx : x = '/'
          · subst hx
            have : ¬ ('/' = a) := fun e => ha e.symm
            simp [splitChars, prefP, List.isPrefixOf, ha, this]
          · simp only [splitChars, hx, if_false]
            cases hsf : splitChars f' with
            | nil => exact absurd hsf (splitChars_ne_nil f')
            | cons hf tf =>
              simp only [prefP]
              have key := ih f'
              rw [hsc, hsf] at key
              simp only [prefP] at key
              by_cases hax : a = x
              · subst hax
                simp only [List.cons.injEq, true_and, List.isPrefixOf, beq_self_eq_true, Bool.true_and]
                rw [← key]
              · have hxa : ¬ x = a := fun e => hax e.symm
                simp [List.isPrefixOf, hax, hxa]

theorem ofList_inj {a b : List Char} : String.ofList a = String.ofList b ↔ a = b := by
  constructor
  · intro h
    have := congrArg String.toList h
    simpa using this
  · intro h; rw [h]

theorem isPrefixParts_map (xs ys : List (List Char)) :
    isPrefixParts (xs.map String.ofList) (ys.map String.ofList) = prefP xs ys := by
  induction xs generalizing ys with
  | nil => simp [isPrefixParts, prefP]
  | cons x xs ih =>
    cases ys with
    | nil => simp [isPrefixParts, prefP]
    | cons y ys =>
      simp only [List.map_cons, isPrefixParts, prefP, ih]
      by_cases h : x = y
      · simp [h]
      · have : ¬ String.ofList x = String.ofList y := fun e => h (ofList_inj.1 e)
        simp [h, this]

/-- `fileIsDeleted`'s component comparison, for all strings: `fp` is `c` or lies below `c` -/
theorem isPrefixParts_split (c fp : String) :
    isPrefixParts (splitSlash c) (splitSlash fp) = (decide (fp = c) || under fp c) := by
  unfold splitSlash under
  rw [isPrefixParts_map, prefP_split, String.toList_append]
  have h1 : "/".toList = ['/'] := by decide
  rw [h1]
  by_cases h : fp = c
  · simp [h]
  · have : ¬ fp.toList = c.toList := fun e => h (String.toList_inj.1 e)
    simp [h, this]

/-! ### `clean` never returns the empty string -/

theorem ofList_eq_empty {l : List Char} : String.ofList l = "" ↔ l = [] := by
  constructor
  · intro h; have := congrArg String.toList h; simpa using this
  · intro h; subst h; rfl

theorem clean_ne_empty (p : String) : clean p ≠ "" := by
  unfold clean
  by_cases hp : p = ""
  · simp [hp]
  · simp only [hp, if_false]
    split
    · intro h; have := ofList_eq_empty.1 h; simp at this
    · split
      · simp
      · rename_i hb
        intro h
        have := ofList_eq_empty.1 h
        rw [this] at hb; simp at hb

theorem dir_ne_empty (p : String) : dir p ≠ "" := clean_ne_empty _

theorem join2_dir_ne_empty (p x : String) : join2 (dir p) x ≠ "" := by
  unfold join2
  have hd := dir_ne_empty p
  simp only [hd, false_and, if_false]
  split
  · exact clean_ne_empty _
  · exact clean_ne_empty _

theorem under_empty (c : String) : under "" c = false := by
  unfold under
  rw [String.toList_append]
  have h1 : "/".toList = ['/'] := by decide
  rw [h1]
  cases c.toList <;> simp

theorem under_ne {fp c : String} (h : under fp c = true) : c ≠ fp := by
  intro e
  subst e
  unfold under at h
  rw [String.toList_append] at h
  have h1 : "/".toList = ['/'] := by decide
  rw [h1] at h
  have := (List.isPrefixOf_iff_prefix.1 h).length_le
  simp at this
  omega

/-! ### the resolver's test is the OCI cover relation -/

/-- For a whiteout entry `w` (base name starts with `.wh.`) that is not an opaque marker at the
    root of the layer, and for EVERY path `fp`: `fileIsDeleted fp w` says exactly whether `w`
    covers `fp`. -/
theorem fileIsDeleted_eq_covers (fp w : String) (hw : isWhiteout w = true)
    (hroot : ¬ (base w = opqName ∧ dir w = ".")) : fileIsDeleted fp w = covers w fp := by
  unfold fileIsDeleted covers
  simp only
  by_cases hb : base w = opqName
  · have hb' : base w = ".wh..wh..opq" := hb
    have hd : ¬ dir w = "." := fun e => hroot ⟨hb, e⟩
    simp only [hb', opqName, if_true]
    by_cases hdf : dir w = fp
    · subst hdf
      simp only [if_true]
      cases hu : under (dir w) (dir w) with
      | false => simp [hd]
      | true => exact absurd rfl (under_ne hu)
    · simp only [hdf, if_false]
      rw [isPrefixParts_split]
      have : ¬ fp = dir w := fun e => hdf e.symm
      simp [this, hd]
  · have hb' : ¬ base w = ".wh..wh..opq" := hb
    have hpre : whPrefix.isPrefixOf (base w).toList = true := hw
    simp only [hb', opqName, if_false, hpre, if_true]
    rw [isPrefixParts_split]

/-- a package without a file path (OS packages) is never deleted by the resolver -/
theorem fileIsDeleted_nofp (w : String) : fileIsDeleted "" w = false := by
  unfold fileIsDeleted
  simp only
  split
  · rfl
  · rename_i c hc
    rw [isPrefixParts_split, under_empty]
    have : c ≠ "" := by
      split at hc
      · split at hc
        · simp at hc
        · simp only [Option.some.injEq] at hc; rw [← hc]; exact dir_ne_empty _
      · split at hc
        · simp only [Option.some.injEq] at hc; rw [← hc]; exact join2_dir_ne_empty _ _
        · simp at hc
    have : ¬ "" = c := fun e => this e.symm
    simp [this]

end ClairModel.LayerFS
