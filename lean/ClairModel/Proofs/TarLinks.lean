/-
  C06 — lemmas about the link-resolution model (Model/TarLinks.lean).
-/
import ClairModel.Model.TarLinks

namespace ClairModel.TarLinks

theorem hardLoop_lookups (a : Archive) (tgt hops : Nat) :
    (hardLoop a tgt hops).2 ≤ inodes a - hops + 2 := by
  fun_induction hardLoop a tgt hops with
  | case1 => omega
  | case2 => omega
  | case3 tgt hops t hget hlt r ih =>
    have hr : r.2 = (hardLoop a t (hops + 1)).2 := rfl
    simp only
    omega
  | case4 => omega

theorem openAt_lookups (a : Archive) (i hops : Nat) :
    (openAt a i hops).2 ≤ (inodes a + 1 - hops) + (inodes a + 3) := by
  fun_induction openAt a i hops with
  | case1 => omega
  | case2 => omega
  | case3 => omega
  | case4 i hops hle t hget r =>
    have hr : r.2 = (hardLoop a t 0).2 := rfl
    have h := hardLoop_lookups a t 0
    simp only
    omega
  | case5 i hops hle t hget r ih =>
    have hr : r.2 = (openAt a t (hops + 1)).2 := rfl
    simp only
    omega

end ClairModel.TarLinks
