/-
  C18 — printing and parsing, v4: `ParseV4` returns exactly the valid vectors
  and `parse4 (print4 v) = some v` for every valid vector (fixed metric order,
  optional metrics skipped, Provider Urgency spelled out).
-/
import ClairModel.Proofs.CvssPrint
namespace ClairModel.Cvss
open ClairModel.Gen.Cvss

/-! ### v4: printed form -/

/-- the text of value byte `b` of metric `m` (Provider Urgency is spelled out) -/
def val4 (m b : Nat) : Bytes :=
  if m = 31 ∧ b = cC then [67, 108, 101, 97, 114]
  else if m = 31 ∧ b = cG then [71, 114, 101, 101, 110]
  else if m = 31 ∧ b = cA then [65, 109, 98, 101, 114]
  else if m = 31 ∧ b = cR then [82, 101, 100]
  else [b]

def piece4 (m b : Nat) : Bytes := nameOf v4Names m ++ cColon :: val4 m b

def pieces4 (v : Vec) : List Nat → List Bytes
  | [] => []
  | m :: ms => if v.get m = 0 then pieces4 v ms else piece4 m (v.get m) :: pieces4 v ms

theorem v4GetString_eq (v : Vec) (m : Nat) :
    v4GetString v m = if v.get m = 0 then ([], false) else (val4 m (v.get m), true) := by
  unfold v4GetString val4
  simp only []
  split
  · rfl
  · split
    · rfl
    · split
      · rfl
      · split
        · rfl
        · split <;> rfl

theorem groupText_v4 (v : Vec) : ∀ ms : List Nat,
    groupText v4Names (v4GetString v) ms = (joinLead cSlash (pieces4 v ms), decide (pieces4 v ms ≠ [])) := by
  intro ms
  induction ms with
  | nil => rfl
  | cons m ms ih =>
    by_cases h : v.get m = 0
    · simp [groupText, v4GetString_eq, pieces4, h, ih]
    · have hne : (val4 m (v.get m)).isEmpty = false := by
        unfold val4; split <;> (try rfl); split <;> (try rfl); split <;> (try rfl); split <;> rfl
      simp [groupText, v4GetString_eq, pieces4, h, ih, joinLead_cons, piece4, hne]

theorem pieces4_append (v : Vec) (a b : List Nat) : pieces4 v (a ++ b) = pieces4 v a ++ pieces4 v b := by
  induction a with
  | nil => rfl
  | cons m ms ih => by_cases h : v.get m = 0 <;> simp [pieces4, h, ih]

theorem print4_shape (v : Vec) : print4 v = v4Prefix ++ joinLead cSlash (pieces4 v (List.range' 0 32)) := by
  have e : List.range' 0 32 = List.range' 0 (11 - 0) ++ (List.range' 11 (12 - 11) ++
      (List.range' 12 (26 - 12) ++ List.range' 26 (32 - 26))) := by decide
  rw [print4, e, pieces4_append, pieces4_append, pieces4_append, joinLead_append, joinLead_append, joinLead_append]
  simp only [marshalGroups, groupText_v4, List.append_nil]
  have k (ps : List Bytes) : (if decide (ps ≠ []) = true then joinLead cSlash ps else []) = joinLead cSlash ps := by
    cases ps <;> simp [joinLead]
  simp only [k]

/-! ### v4: parsing the printed form -/

/-- the bytes `ParseV4` can store for metric `m` -/
def gv4 (m : Nat) : List Nat := if m = 31 then [cX, cC, cG, cA, cR] else v4GrammarValues.getD m []

structure Valid4 (v : Vec) : Prop where
  len : v.mv.length = 32
  ver : v.ver = 0
  vals : ∀ m < 32, v.get m = 0 ∨ v.get m ∈ gv4 m
  base : ∀ m < 11, v.get m ≠ 0

/-- two byte strings differ at a position both have -/
def mismatch : Bytes → Bytes → Bool
  | a :: p, b :: q => a != b || mismatch p q
  | _, _ => false

theorem stripPrefix_mismatch : ∀ (p q r : Bytes), mismatch p q = true → stripPrefix p (q ++ r) = none
  | [], _, _, h => by simp [mismatch] at h
  | _ :: _, [], _, h => by simp [mismatch] at h
  | a :: p, b :: q, r, h => by
    simp only [mismatch, Bool.or_eq_true, bne_iff_ne, ne_eq] at h
    by_cases e : a = b
    · subst e
      simp only [not_true_eq_false, false_or] at h
      simp [stripPrefix, stripPrefix_mismatch p q r h]
    · simp [stripPrefix, e]

theorem v4_names_mismatch : ∀ m < 32, ∀ m' < 32, m ≠ m' →
    mismatch (nameOf v4Names m ++ [cColon]) (nameOf v4Names m' ++ [cColon]) = true := by decide

theorem v4_names_facts : ∀ m < 32, cSlash ∉ nameOf v4Names m := by decide

theorem gv4_facts : ∀ m < 32, ∀ b ∈ gv4 m, b ≠ 0 ∧ cSlash ∉ val4 m b ∧
    (if m = 31 then v4UrgencyValues.contains (val4 m b) = true ∧ (val4 m b).headD 0 = b
     else val4 m b = [b] ∧ (v4GrammarValues.getD m []).contains b = true) := by decide

theorem v4Piece_own {m b : Nat} (hm : m < 32) (hb : b ∈ gv4 m) : v4Piece m (piece4 m b) = some b := by
  have f := (gv4_facts m hm b hb).2.2
  have hs : stripPrefix (nameOf v4Names m ++ [cColon]) (piece4 m b) = some (val4 m b) := by
    have : piece4 m b = (nameOf v4Names m ++ [cColon]) ++ val4 m b := by simp [piece4]
    rw [this, stripPrefix_append]
  unfold v4Piece
  rw [hs]
  by_cases h31 : m = 31
  · simp only [h31, if_true] at f ⊢
    rw [f.1, if_pos rfl, f.2]
  · simp only [h31, if_false] at f ⊢
    rw [f.1]
    simp only [f.2, if_true]

theorem v4Piece_other {m m' b : Nat} (hm : m < 32) (hm' : m' < 32) (hne : m ≠ m') : v4Piece m (piece4 m' b) = none := by
  have : piece4 m' b = (nameOf v4Names m' ++ [cColon]) ++ val4 m' b := by simp [piece4]
  unfold v4Piece
  rw [this, stripPrefix_mismatch _ _ _ (v4_names_mismatch m hm m' hm' hne)]

theorem pieces4_mem (v : Vec) : ∀ (ms : List Nat) (p : Bytes), p ∈ pieces4 v ms → ∃ m ∈ ms, v.get m ≠ 0 ∧ p = piece4 m (v.get m)
  | [], p, h => by simp [pieces4] at h
  | m :: ms, p, h => by
    by_cases hz : v.get m = 0
    · simp only [pieces4, hz, if_true] at h
      obtain ⟨m', hm', h1, h2⟩ := pieces4_mem v ms p h
      exact ⟨m', List.mem_cons_of_mem _ hm', h1, h2⟩
    · simp only [pieces4, hz, if_false, List.mem_cons] at h
      rcases h with rfl | h
      · exact ⟨m, by simp, hz, rfl⟩
      · obtain ⟨m', hm', h1, h2⟩ := pieces4_mem v ms p h
        exact ⟨m', List.mem_cons_of_mem _ hm', h1, h2⟩

theorem v4Fill_printed (v : Vec) (hvals : ∀ m < 32, v.get m = 0 ∨ v.get m ∈ gv4 m) (hbase : ∀ m < 11, v.get m ≠ 0) :
    ∀ (ms : List Nat) (acc : Vec), ms.Nodup → (∀ m ∈ ms, m < 32) →
      v4Fill ms (pieces4 v ms) acc = some (fill3 v ms acc)
  | [], acc, _, _ => rfl
  | m :: ms, acc, hnd, hlt => by
    have hm := hlt m (by simp)
    have hnd' : ms.Nodup := (List.nodup_cons.1 hnd).2
    have hnm : m ∉ ms := (List.nodup_cons.1 hnd).1
    have hlt' : ∀ x ∈ ms, x < 32 := fun x hx => hlt x (List.mem_cons_of_mem _ hx)
    by_cases hz : v.get m = 0
    · have h11 : ¬ m < 11 := fun h => hbase m h hz
      have ih := v4Fill_printed v hvals hbase ms acc hnd' hlt'
      simp only [pieces4, fill3, hz, if_true]
      cases hp : pieces4 v ms with
      | nil =>
        rw [hp] at ih
        simp only [v4Fill, h11, if_false]
        exact ih
      | cons p ps =>
        rw [hp] at ih
        obtain ⟨m', hm', _, rfl⟩ := pieces4_mem v ms p (by rw [hp]; simp)
        have hne : m ≠ m' := fun e => hnm (e ▸ hm')
        simp only [v4Fill, v4Piece_other hm (hlt' m' hm') hne, h11, if_false]
        exact ih
    · have hb : v.get m ∈ gv4 m := (hvals m hm).resolve_left hz
      simp only [pieces4, fill3, hz, if_false, v4Fill, v4Piece_own hm hb]
      exact v4Fill_printed v hvals hbase ms _ hnd' hlt'

/-- printing a valid v4 vector and parsing the text gives the vector back -/
theorem parse4_print4 (v : Vec) (hv : Valid4 v) : parse4 (print4 v) = some v := by
  have hnd : (List.range' 0 32).Nodup := by decide
  have hmem : ∀ m ∈ List.range' 0 32, m < 32 := by decide
  have hr : List.range 32 = List.range' 0 32 := by decide
  have hne : pieces4 v (List.range' 0 32) ≠ [] := by
    have h0 := hv.base 0 (by decide)
    have : List.range' 0 32 = 0 :: List.range' 1 31 := by decide
    rw [this]
    simp [pieces4, h0]
  have hsep : ∀ p ∈ pieces4 v (List.range' 0 32), cSlash ∉ p := by
    intro p hp
    obtain ⟨m, hm, hz, rfl⟩ := pieces4_mem v _ p hp
    have hm32 := hmem m hm
    have hb := (hv.vals m hm32).resolve_left hz
    have f := (gv4_facts m hm32 _ hb).2.1
    have g := v4_names_facts m hm32
    intro hin
    simp only [piece4, List.mem_append, List.mem_cons] at hin
    rcases hin with hin | hin | hin
    · exact g hin
    · exact absurd hin (by decide)
    · exact f hin
  rw [print4_shape, parse4, stripPrefix_append]
  simp only []
  rw [splitOn_joinLead cSlash _ hsep hne]
  cases hp : pieces4 v (List.range' 0 32) with
  | nil => exact absurd hp hne
  | cons p ps =>
    simp only []
    rw [← hp, hr, v4Fill_printed v hv.vals hv.base _ _ hnd hmem]
    have hres : fill3 v (List.range' 0 32) (Vec.empty 32) = v := by
      apply Vec.ext_get
      · rw [fill3_ver]; simp [Vec.empty, hv.ver]
      · rw [fill3_length]; simp [Vec.empty, hv.len]
      · intro j hj
        rw [fill3_length] at hj
        have hj32 : j < 32 := by simpa [Vec.empty] using hj
        rw [fill3_get v _ _ j hnd (by intro m hm; simpa [Vec.empty] using hmem m hm)]
        have hjm : j ∈ List.range' 0 32 := by
          simp [List.mem_range']; omega
        have he : (Vec.empty 32).get j = 0 := get_empty 32 0 j
        by_cases hz : v.get j = 0
        · simp [hz, he]
        · simp [hz, hjm]
    rw [hres]

/-! ### what `ParseV4` returns is valid -/

theorem urgency_heads : ∀ val ∈ v4UrgencyValues, val.headD 0 ∈ gv4 31 := by decide

theorem v4Piece_sound {m : Nat} {p : Bytes} {b : Nat} (h : v4Piece m p = some b) : b ∈ gv4 m := by
  unfold v4Piece at h
  split at h
  · simp at h
  · rename_i val _
    split at h
    · rename_i h31
      split at h
      · rename_i hc
        have : val.headD 0 = b := by simpa using h
        subst this
        rw [h31]
        exact urgency_heads val (by simpa using hc)
      · simp at h
    · rename_i h31
      split at h
      · rename_i c _
        split at h
        · rename_i hc
          have : c = b := by simpa using h
          subst this
          simpa [gv4, h31] using hc
        · simp at h
      · simp at h

def Inv4 (a : Vec) : Prop := a.mv.length = 32 ∧ ∀ m < 32, a.get m = 0 ∨ a.get m ∈ gv4 m

theorem gv4_ne_zero {m b : Nat} (hm : m < 32) (hb : b ∈ gv4 m) : b ≠ 0 := (gv4_facts m hm b hb).1

theorem v4Fill_sound : ∀ (ms : List Nat) (ps : List Bytes) (acc v : Vec), v4Fill ms ps acc = some v →
    ms.Nodup → (∀ m ∈ ms, m < 32) → Inv4 acc →
    Inv4 v ∧ v.ver = acc.ver ∧ (∀ j, j ∉ ms → v.get j = acc.get j) ∧ (∀ m ∈ ms, m < 11 → v.get m ≠ 0)
  | [], [], acc, v, h, _, _, hi => by
    have : acc = v := by simpa [v4Fill] using h
    subst this
    exact ⟨hi, rfl, fun _ _ => rfl, fun m hm => absurd hm (by simp)⟩
  | [], _ :: _, acc, v, h, _, _, _ => by simp [v4Fill] at h
  | m :: ms, [], acc, v, h, hnd, hlt, hi => by
    have hnd' : ms.Nodup := (List.nodup_cons.1 hnd).2
    have hnm : m ∉ ms := (List.nodup_cons.1 hnd).1
    have hlt' : ∀ x ∈ ms, x < 32 := fun x hx => hlt x (List.mem_cons_of_mem _ hx)
    unfold v4Fill at h
    split at h
    · simp at h
    · rename_i h11
      obtain ⟨i1, i2, i3, i4⟩ := v4Fill_sound ms [] acc v h hnd' hlt' hi
      refine ⟨i1, i2, fun j hj => i3 j (fun e => hj (List.mem_cons_of_mem _ e)), ?_⟩
      intro x hx hx11
      rcases List.mem_cons.1 hx with rfl | hx'
      · exact absurd hx11 h11
      · exact i4 x hx' hx11
  | m :: ms, p :: ps, acc, v, h, hnd, hlt, hi => by
    have hm := hlt m (by simp)
    have hnd' : ms.Nodup := (List.nodup_cons.1 hnd).2
    have hnm : m ∉ ms := (List.nodup_cons.1 hnd).1
    have hlt' : ∀ x ∈ ms, x < 32 := fun x hx => hlt x (List.mem_cons_of_mem _ hx)
    unfold v4Fill at h
    split at h
    · rename_i b hb
      have hbg := v4Piece_sound hb
      have hi' : Inv4 (acc.set m b) := by
        refine ⟨by rw [Vec.set_length]; exact hi.1, ?_⟩
        intro j hj
        by_cases e : m = j
        · subst e
          rw [Vec.get_set_eq _ _ _ (by rw [hi.1]; exact hm)]
          exact Or.inr hbg
        · rw [Vec.get_set_ne _ _ _ _ e]
          exact hi.2 j hj
      obtain ⟨i1, i2, i3, i4⟩ := v4Fill_sound ms ps _ v h hnd' hlt' hi'
      have hvm : v.get m = b := by
        rw [i3 m hnm, Vec.get_set_eq _ _ _ (by rw [hi.1]; exact hm)]
      refine ⟨i1, by rw [i2, Vec.set_ver], ?_, ?_⟩
      · intro j hj
        have hjm : m ≠ j := fun e => hj (by simp [e])
        rw [i3 j (fun e => hj (List.mem_cons_of_mem _ e)), Vec.get_set_ne _ _ _ _ hjm]
      · intro x hx hx11
        rcases List.mem_cons.1 hx with rfl | hx'
        · rw [hvm]; exact gv4_ne_zero hm hbg
        · exact i4 x hx' hx11
    · split at h
      · simp at h
      · rename_i h11
        obtain ⟨i1, i2, i3, i4⟩ := v4Fill_sound ms (p :: ps) acc v h hnd' hlt' hi
        refine ⟨i1, i2, fun j hj => i3 j (fun e => hj (List.mem_cons_of_mem _ e)), ?_⟩
        intro x hx hx11
        rcases List.mem_cons.1 hx with rfl | hx'
        · exact absurd hx11 h11
        · exact i4 x hx' hx11

theorem parse4_sound {s : Bytes} {v : Vec} (h : parse4 s = some v) : Valid4 v := by
  unfold parse4 at h
  split at h
  · simp at h
  · split at h
    · rename_i p ps _
      have hr : List.range 32 = List.range' 0 32 := by decide
      have hi0 : Inv4 (Vec.empty 32) := ⟨by simp [Vec.empty], fun m _ => Or.inl (get_empty 32 0 m)⟩
      rw [hr] at h
      obtain ⟨⟨hlen, hvals⟩, hver, _, hbase⟩ := v4Fill_sound _ _ _ _ h (by decide) (by decide) hi0
      exact ⟨hlen, by rw [hver]; rfl, hvals, fun m hm => hbase m (by simp [List.mem_range']; omega) hm⟩
    · simp at h

end ClairModel.Cvss
