/-
  Lemmas about the semantic-version front ends (Model/Semver.lean): parsed
  numbers are non-negative, `FromSemver` after `NewVersion` never inverts
  Masterminds' `Compare`, `gobin.ParseVersion` is the same mapping on numbers
  of at most nine digits; and the upper-bound soundness of the OSV ranges for
  ALL versions (pre-releases, numbers above MaxInt32).
-/
import ClairModel.Proofs.OsvCover

set_option linter.unusedSimpArgs false
set_option linter.unusedVariables false

namespace ClairModel.Semver
open ClairModel.Order ClairModel.Version

theorem spanD_fst : ∀ s : List Char, AllDig (spanD s).1
  | [] => by intro c hc; simp [spanD] at hc
  | x :: xs => by
    unfold spanD
    by_cases hx : isDigit x = true
    · simp only [hx, if_true]
      intro c hc
      rcases List.mem_cons.1 hc with rfl | hc
      · exact hx
      · exact spanD_fst xs c hc
    · simp only [hx]
      intro c hc; simp at hc

theorem dotNum_fst (s : List Char) : AllDig (dotNum s).1 := by
  unfold dotNum
  split
  · rename_i r
    by_cases h : (spanD r).1.isEmpty = true
    · simp only [h, if_true]; intro c hc; simp at hc
    · simp only [h]; exact spanD_fst r
  · intro c hc; simp at hc

/-- `Atoi` on digits is the value of the digits. -/
theorem atoi_alldig {d : List Char} (h : AllDig d) {x : Int} (hx : atoi d = some x) : x = (natOfDigits d : Int) := by
  cases d with
  | nil => simp [atoi, stripSign] at hx
  | cons c cs =>
    obtain ⟨dg, hdg, rfl⟩ := isDigChar_of_isDigit (h _ List.mem_cons_self)
    obtain ⟨f1, f2, _⟩ := digChar_facts dg hdg
    rw [atoi_unsigned cs f1 f2] at hx
    have : (digitChar dg :: cs).all isDigit = true := List.all_eq_true.2 h
    rw [this] at hx
    simp only [if_true] at hx
    by_cases hl : natOfDigits (digitChar dg :: cs) < 9223372036854775808
    · rw [if_pos hl] at hx; simp only [Option.some.injEq] at hx; exact hx.symm
    · rw [if_neg hl] at hx; cases hx

theorem atoi_of_alldig {d : List Char} (hne : d ≠ []) (h : AllDig d) (hl : natOfDigits d < 9223372036854775808) :
    atoi d = some (natOfDigits d : Int) := by
  cases d with
  | nil => exact absurd rfl hne
  | cons c cs =>
    obtain ⟨dg, hdg, rfl⟩ := isDigChar_of_isDigit (h _ List.mem_cons_self)
    obtain ⟨f1, f2, _⟩ := digChar_facts dg hdg
    rw [atoi_unsigned cs f1 f2]
    have : (digitChar dg :: cs).all isDigit = true := List.all_eq_true.2 h
    simp [this, hl]

theorem segInt_alldig {d : List Char} (h : AllDig d) {x : Int} (hx : segInt d = some x) : x = (natOfDigits d : Int) := by
  unfold segInt at hx
  by_cases he : d.isEmpty = true
  · rw [if_pos he] at hx
    have : d = [] := List.isEmpty_iff.1 he
    subst this
    simp only [Option.some.injEq] at hx
    rw [← hx]; rfl
  · rw [if_neg he] at hx; exact atoi_alldig h hx

theorem groups_digits {s : List Char} {g : Groups} (h : groups s = some g) :
    g.m1 ≠ [] ∧ AllDig g.m1 ∧ AllDig g.m2 ∧ AllDig g.m3 := by
  unfold groups at h
  simp only at h
  by_cases he : (spanD (stripV s)).1.isEmpty = true
  · rw [if_pos he] at h; cases h
  · rw [if_neg he] at h
    split at h
    · cases h
    · simp only [Option.some.injEq] at h
      subst h
      refine ⟨?_, spanD_fst _, dotNum_fst _, dotNum_fst _⟩
      intro e; simp only at e; rw [e] at he; simp at he

/-- Every number of a parsed version is the value of its digits (so ≥ 0). -/
theorem parse_values {s : List Char} {v : SV} (h : parse s = some v) :
    ∃ g, groups s = some g ∧ v.major = (natOfDigits g.m1 : Int) ∧ v.minor = (natOfDigits g.m2 : Int) ∧
      v.patch = (natOfDigits g.m3 : Int) ∧ v.pre = g.pre := by
  unfold parse at h
  cases hg : groups s with
  | none => rw [hg] at h; cases h
  | some g =>
    rw [hg] at h
    obtain ⟨_, d1, d2, d3⟩ := groups_digits hg
    simp only at h
    cases h1 : atoi g.m1 with
    | none => rw [h1] at h; cases h
    | some a =>
      cases h2 : segInt g.m2 with
      | none => rw [h1, h2] at h; cases h
      | some b =>
        cases h3 : segInt g.m3 with
        | none => rw [h1, h2, h3] at h; cases h
        | some c =>
          rw [h1, h2, h3] at h
          simp only [Option.some.injEq] at h
          subst h
          exact ⟨g, rfl, atoi_alldig d1 h1, segInt_alldig d2 h2, segInt_alldig d3 h3, rfl⟩

theorem parse_nonneg {s : List Char} {v : SV} (h : parse s = some v) : 0 ≤ v.major ∧ 0 ≤ v.minor ∧ 0 ≤ v.patch := by
  obtain ⟨g, _, h1, h2, h3, _⟩ := parse_values h
  omega

/-- `FromSemver` is monotone on non-negative cores. -/
theorem project_mono (a b : SV) (ha : 0 ≤ a.major ∧ 0 ≤ a.minor ∧ 0 ≤ a.patch)
    (hb : 0 ≤ b.major ∧ 0 ≤ b.minor ∧ 0 ≤ b.patch) (h : semverCoreCmp (core a) (core b) ≠ .gt) :
    Version.cmp (project a) (project b) ≠ .gt := by
  unfold project fromSemver Version.cmp
  simp only [ne_eq, not_true_eq_false, if_false]
  rw [List.append_assoc, List.append_assoc, lexCmp_append_left intCmp_totalPre.refl,
    Version.lexCmp_append_right intCmp_totalPre.refl _ _ _ (by simp [Version.satSlots_length])]
  refine Version.satSlots_mono false [a.major, a.minor, a.patch] [b.major, b.minor, b.patch] rfl ?_ ?_ h
  · intro x hx; simp at hx; omega
  · intro x hx; simp at hx; omega

theorem cmp_core_of_ne_gt (a b : SV) (h : cmp a b ≠ .gt) : semverCoreCmp (core a) (core b) ≠ .gt := by
  intro hc; apply h
  unfold cmp; rw [hc]; rfl

theorem core_totalPre : TotalPre (fun x y : Int × Int × Int => semverCoreCmp x y) :=
  keyCmp_totalPre (lexCmp_totalPre intCmp_totalPre) (fun x : Int × Int × Int => [x.1, x.2.1, x.2.2])

/-- If the projection of `v` is strictly below that of `b`, so is the core. -/
theorem core_lt_of_project_lt (v b : SV) (hv : 0 ≤ v.major ∧ 0 ≤ v.minor ∧ 0 ≤ v.patch)
    (hb : 0 ≤ b.major ∧ 0 ≤ b.minor ∧ 0 ≤ b.patch) (h : Version.cmp (project v) (project b) = .lt) :
    semverCoreCmp (core v) (core b) = .lt := by
  cases hc : semverCoreCmp (core v) (core b) with
  | lt => rfl
  | eq =>
    have : semverCoreCmp (core b) (core v) ≠ .gt := by
      have := core_totalPre.swap (core v) (core b)
      rw [this, hc]; simp [Ordering.swap]
    have := project_mono b v hb hv this
    rw [cmp_totalPre.swap (project v) (project b), h] at this
    simp [Ordering.swap] at this
  | gt =>
    have : semverCoreCmp (core b) (core v) ≠ .gt := by
      have := core_totalPre.swap (core v) (core b)
      rw [this, hc]; simp [Ordering.swap]
    have := project_mono b v hb hv this
    rw [cmp_totalPre.swap (project v) (project b), h] at this
    simp [Ordering.swap] at this

theorem cmp_lt_of_core_lt (v b : SV) (h : semverCoreCmp (core v) (core b) = .lt) : cmp v b = .lt := by
  unfold cmp; rw [h]; rfl

/-! ### gobin.ParseVersion -/

theorem pow9 {l : List Char} (h : l.length ≤ 9) (hd : AllDig l) : natOfDigits l < 1000000000 := by
  have h1 := natOfDigits_lt hd
  have h2 : 10 ^ l.length ≤ 10 ^ 9 := Nat.pow_le_pow_right (by omega) h
  omega

/-- On a text whose three numbers have at most nine digits each,
    `gobin.ParseVersion` is `FromSemver ∘ NewVersion`. -/
theorem gobin_agrees {s : List Char} {g : Groups} (hg : groups s = some g)
    (h1 : g.m1.length ≤ 9) (h2 : g.m2.length ≤ 9) (h3 : g.m3.length ≤ 9) :
    ∃ v, parse s = some v ∧ gobinParse s = some (project v) := by
  obtain ⟨hne, d1, d2, d3⟩ := groups_digits hg
  have p1 := pow9 h1 d1
  have p2 := pow9 h2 d2
  have p3 := pow9 h3 d3
  have a1 : atoi g.m1 = some (natOfDigits g.m1 : Int) := atoi_of_alldig hne d1 (by omega)
  have seg : ∀ d : List Char, AllDig d → natOfDigits d < 1000000000 → segInt d = some (natOfDigits d : Int) := by
    intro d hd hp
    unfold segInt
    by_cases he : d.isEmpty = true
    · have : d = [] := List.isEmpty_iff.1 he
      subst this; rfl
    · rw [if_neg he]
      exact atoi_of_alldig (by intro e; simp [e] at he) hd (by omega)
  refine ⟨{ major := natOfDigits g.m1, minor := natOfDigits g.m2, patch := natOfDigits g.m3, pre := g.pre, build := g.build }, ?_, ?_⟩
  · unfold parse
    rw [hg]
    simp only [a1, seg g.m2 d2 p2, seg g.m3 d3 p3]
  · unfold gobinParse project
    rw [hg]
    simp only [fitInt32, List.take_of_length_le h1, List.take_of_length_le h2, List.take_of_length_le h3]
    rw [OsvRange.fromSemver_small _ _ _ (by omega) (by omega) (by omega)]
    rfl

end ClairModel.Semver

namespace ClairModel.OsvRange
open ClairModel.Order ClairModel.Version

/-- What a covered version is guaranteed about the closing bound of its
    interval, for ANY version (pre-release, numbers of any size): strictly
    below `fixed`, at most `last_affected` — in Masterminds' order. -/
def upperSound (c : Close) (v : Semver.SV) : Prop :=
  match c with
  | .fixed s => ∀ b, Semver.parse s = some b → Semver.cmp v b = .lt
  | .lastAffected s => ∀ b, Semver.parse s = some b → b.patch < 9223372036854775807 → Semver.cmp v b ≠ .gt
  | _ => True

theorem contains_upper {L U pv : Version} (h : contains { lower := L, upper := U } pv = true) :
    Version.cmp pv U = .lt := by
  unfold contains at h
  simp only [Bool.and_eq_true, beq_iff_eq] at h
  rw [cmp_totalPre.swap U pv, h.2]; rfl

theorem interval_upper_sound (hv : Bool) (iv : Interval)
    (hl : hv = false ∨ iv.close.isLastAffected = false) (t : List Char) (v : Semver.SV)
    (hv' : Semver.parse t = some v)
    (h : cellCovers (cellOf hv iv) (Semver.project v) = true) : upperSound iv.close v := by
  obtain ⟨intro, c⟩ := iv
  have nv := Semver.parse_nonneg hv'
  cases c with
  | none => trivial
  | limitStar => trivial
  | fixed s =>
    intro b hb
    have nb := Semver.parse_nonneg hb
    simp only [cellOf, hb] at h
    rw [cellCovers_eq] at h
    have hk : (Semver.project b).kind.isEmpty = false := rfl
    simp only [hk, Bool.false_eq_true, if_false] at h
    exact Semver.cmp_lt_of_core_lt v b (Semver.core_lt_of_project_lt v b nv nb (contains_upper h))
  | lastAffected s =>
    intro b hb hmax
    have nb := Semver.parse_nonneg hb
    have hvf : hv = false := by
      rcases hl with h | h
      · exact h
      · simp [Close.isLastAffected] at h
    subst hvf
    simp only [cellOf, hb, Bool.false_eq_true, if_false] at h
    rw [cellCovers_eq] at h
    have hk : (Semver.project (Semver.incPatch b)).kind.isEmpty = false := rfl
    simp only [hk, Bool.false_eq_true, if_false] at h
    have hlt := contains_upper h
    by_cases hp : b.pre.isEmpty = true
    · -- patch + 1
      have hinc : Semver.incPatch b = { b with patch := b.patch + 1, pre := [], build := [] } := by
        unfold Semver.incPatch
        simp only [hp, if_true]
        have : Semver.inc64 b.patch = b.patch + 1 := by unfold Semver.inc64; omega
        rw [this]
      have nb' : 0 ≤ (Semver.incPatch b).major ∧ 0 ≤ (Semver.incPatch b).minor ∧ 0 ≤ (Semver.incPatch b).patch := by
        rw [hinc]; simp only; omega
      have hc := Semver.core_lt_of_project_lt v (Semver.incPatch b) nv nb' hlt
      rw [hinc] at hc
      simp only [Semver.core, semverCoreCmp] at hc
      have hle := (lex_lt_succ v.major v.minor v.patch b.major b.minor b.patch).1 hc
      unfold Semver.cmp Semver.core semverCoreCmp
      simp only
      cases hcc : lexCmp intCmp [v.major, v.minor, v.patch] [b.major, b.minor, b.patch] with
      | lt => simp [Ordering.then]
      | gt => exact absurd hcc hle
      | eq =>
        simp only [Ordering.then, hp, Bool.and_true]
        by_cases hvp : v.pre.isEmpty = true
        · simp [hvp]
        · simp [hvp]
    · -- the pre-release is only stripped: same core
      have hinc : Semver.core (Semver.incPatch b) = Semver.core b := by
        unfold Semver.incPatch
        simp only [hp]; rfl
      have nb' : 0 ≤ (Semver.incPatch b).major ∧ 0 ≤ (Semver.incPatch b).minor ∧ 0 ≤ (Semver.incPatch b).patch := by
        unfold Semver.incPatch
        simp only [hp]; exact nb
      have hc := Semver.core_lt_of_project_lt v (Semver.incPatch b) nv nb' hlt
      rw [hinc] at hc
      rw [Semver.cmp_lt_of_core_lt v b hc]
      simp

/-- **Upper bounds hold for all versions.**  Whatever the numbers and
    pre-releases involved, a version whose projection is inside one of the
    ranges created for a well-shaped interval list lies below the closing
    bound of one of the intervals. -/
theorem covers_within_upper (hv : Bool) (ivs : List Interval) (t : List Char) (v : Semver.SV)
    (hw : wellShaped ivs = true) (hl : hv = false ∨ ∀ iv ∈ ivs, iv.close.isLastAffected = false)
    (hv' : Semver.parse t = some v)
    (h : covers (ranges hv (eventsOf ivs)) (Semver.project v) = true) :
    ∃ iv ∈ ivs, upperSound iv.close v := by
  unfold ranges at h
  have hr := run_intervals hv ivs {} (Or.inl ⟨rfl, rfl, rfl⟩) hw
  have e0 : ({} : St).vers = [] := rfl
  rw [hr, e0, List.nil_append, covers_filterMap, List.any_map, List.any_eq_true] at h
  obtain ⟨iv, hiv, hcov⟩ := h
  exact ⟨iv, hiv, interval_upper_sound hv iv (hl.elim Or.inl fun h => Or.inr (h iv hiv)) t v hv' hcov⟩

end ClairModel.OsvRange
