/-
  apk `installed` files: the writer (records of `K:value` lines, each record
  followed by an empty line) and the lemmas behind the C02 theorems about
  `Apk.scan`.
-/
import ClairModel.Model.Apk

namespace ClairModel.Apk
open ClairModel.Bytes

/-! ### writer -/

/-- one `K:value` line (without its newline) -/
structure Line where
  key : Nat
  value : Bytes
  deriving Repr

def Line.bytes (l : Line) : Bytes := l.key :: 58 :: l.value

/-- legal: key and value hold no newline -/
def Line.WF (l : Line) : Prop := l.key ≠ 10 ∧ 10 ∉ l.value

/-- the text of a record: its lines joined by `\n` (the last newline and the
    empty line after it are added by `render`) -/
def recText (r : List Line) : Bytes := joinWith 10 (r.map Line.bytes)

/-- every record is followed by `\n` and an empty line -/
def render : List (List Line) → Bytes
  | [] => []
  | r :: rs => recText r ++ 10 :: 10 :: render rs

/-! ### splitNN on rendered records -/

def prependHead (l : Bytes) : List Bytes → List Bytes
  | [] => [l]
  | p :: ps => (l ++ p) :: ps

theorem splitNN_ne_nil (s : Bytes) : splitNN s ≠ [] := by
  match s with
  | [] => simp [splitNN]
  | [c] => simp [splitNN]
  | c :: d :: rest =>
    simp only [splitNN]
    split
    · simp
    · have := splitNN_ne_nil (d :: rest)
      cases h : splitNN (d :: rest) with
      | nil => exact absurd h this
      | cons p ps => simp [consHead]

theorem splitNN_cons_ne (c d : Nat) (rest : Bytes) (hc : c ≠ 10) :
    splitNN (c :: d :: rest) = consHead c (splitNN (d :: rest)) := by
  simp [splitNN, hc]

theorem splitNN_nl_ne (d : Nat) (rest : Bytes) (hd : d ≠ 10) :
    splitNN (10 :: d :: rest) = consHead 10 (splitNN (d :: rest)) := by
  simp [splitNN, hd]

theorem consHead_eq (c : Nat) (l : List Bytes) (h : l ≠ []) : consHead c l = prependHead [c] l := by
  cases l with
  | nil => exact absurd rfl h
  | cons p ps => rfl

theorem prependHead_append (a b : Bytes) (l : List Bytes) (h : l ≠ []) :
    prependHead a (prependHead b l) = prependHead (a ++ b) l := by
  cases l with
  | nil => exact absurd rfl h
  | cons p ps => simp [prependHead]

/-- bytes without newline in front of a non-empty rest stay in the first piece -/
theorem splitNN_prefix (l : Bytes) (hl : 10 ∉ l) (x : Nat) (xs : Bytes) :
    splitNN (l ++ x :: xs) = prependHead l (splitNN (x :: xs)) := by
  induction l with
  | nil =>
    cases h : splitNN (x :: xs) with
    | nil => exact absurd h (splitNN_ne_nil _)
    | cons p ps => simp [prependHead, h]
  | cons c cs ih =>
    simp only [List.mem_cons, not_or] at hl
    have hc : c ≠ 10 := fun e => hl.1 e.symm
    have ih' := ih hl.2
    cases hcs : cs ++ x :: xs with
    | nil => simp at hcs
    | cons d rest =>
      simp only [List.cons_append, hcs]
      rw [splitNN_cons_ne c d rest hc, ← hcs, ih', consHead_eq _ _ (by
        cases h : splitNN (x :: xs) with
        | nil => exact absurd h (splitNN_ne_nil _)
        | cons p ps => simp [prependHead])]
      rw [prependHead_append _ _ _ (splitNN_ne_nil _)]
      simp

theorem line_no_nl (l : Line) (w : l.WF) : 10 ∉ l.bytes := by
  simp only [Line.bytes, List.mem_cons, not_or]
  exact ⟨fun e => w.1 e.symm, by decide, w.2⟩

/-- a record's text followed by `\n\n` is one piece of `bytes.Split(b, "\n\n")` -/
theorem splitNN_record (r : List Line) (hne : r ≠ []) (hw : ∀ l ∈ r, l.WF) (rest : Bytes) :
    splitNN (recText r ++ 10 :: 10 :: rest) = recText r :: splitNN rest := by
  induction r with
  | nil => exact absurd rfl hne
  | cons l ls ih =>
    have wl := hw l (by simp)
    by_cases hls : ls = []
    · subst hls
      simp only [recText, List.map_cons, List.map_nil, joinWith]
      rw [splitNN_prefix _ (line_no_nl l wl)]
      simp [splitNN, prependHead]
    · obtain ⟨m, ms, rfl⟩ : ∃ m ms, ls = m :: ms := by
        cases ls with
        | nil => exact absurd rfl hls
        | cons m ms => exact ⟨m, ms, rfl⟩
      have ih' := ih hls (fun x hx => hw x (List.mem_cons_of_mem _ hx))
      have hm := hw m (by simp)
      have hrt : recText (l :: m :: ms) = l.bytes ++ 10 :: recText (m :: ms) := by
        simp [recText, joinWith]
      have hmt : ∃ tl, recText (m :: ms) = m.key :: tl := by
        cases ms with
        | nil => exact ⟨58 :: m.value, by simp [recText, joinWith, Line.bytes]⟩
        | cons n ns => exact ⟨58 :: m.value ++ 10 :: recText (n :: ns), by simp [recText, joinWith, Line.bytes]⟩
      obtain ⟨tl, htl⟩ := hmt
      rw [hrt, List.append_assoc, List.cons_append, splitNN_prefix _ (line_no_nl l wl)]
      rw [htl, List.cons_append, splitNN_nl_ne _ _ hm.1, ← List.cons_append, ← htl, ih']
      simp [consHead, prependHead]

/-! ### one entry -/

theorem entryLines_all (ls : List Bytes) (h : ∀ l ∈ ls, 2 ≤ l.length) : entryLines ls = ls := by
  match ls with
  | [] => rfl
  | [last] =>
    have := h last (by simp)
    simp only [entryLines]
    split
    · omega
    · rfl
  | p :: q :: r =>
    have hp := h p (by simp)
    have : p.isEmpty = false := by cases p <;> simp_all
    simp only [entryLines, this, Bool.false_eq_true, if_false]
    rw [entryLines_all (q :: r) (fun x hx => h x (List.mem_cons_of_mem _ hx))]

theorem scanEntry_record (srcs : List (Bytes × Bytes)) (r : List Line) (hne : r ≠ []) (hw : ∀ l ∈ r, l.WF) :
    scanEntry srcs (recText r) = (r.map Line.bytes).foldl applyLine (srcs, Pkg.empty) := by
  obtain ⟨l, ls, rfl⟩ : ∃ l ls, r = l :: ls := by
    cases r with
    | nil => exact absurd rfl hne
    | cons l ls => exact ⟨l, ls, rfl⟩
  unfold scanEntry recText
  rw [List.map_cons, splitOn_joinWith 10 _ _ (by
    intro q hq
    have : q ∈ (l :: ls).map Line.bytes := by simpa using hq
    obtain ⟨x, hx, rfl⟩ := List.mem_map.1 this
    exact line_no_nl x (hw x hx))]
  rw [entryLines_all _ (by
    intro q hq
    have : q ∈ (l :: ls).map Line.bytes := by simpa using hq
    obtain ⟨x, _, rfl⟩ := List.mem_map.1 this
    simp [Line.bytes])]

/-- the loop over the entries, on written records -/
def scanRecords (srcs : List (Bytes × Bytes)) : List (List Line) → List Pkg
  | [] => []
  | r :: rs =>
    let st := (r.map Line.bytes).foldl applyLine (srcs, Pkg.empty)
    st.2 :: scanRecords st.1 rs

theorem recText_ne_nil (r : List Line) (hne : r ≠ []) : (recText r).isEmpty = false := by
  cases r with
  | nil => exact absurd rfl hne
  | cons l ls =>
    cases ls with
    | nil => simp [recText, joinWith, Line.bytes]
    | cons m ms => simp [recText, joinWith, Line.bytes]

theorem scanEntries_render (rs : List (List Line)) (hw : ∀ r ∈ rs, r ≠ [] ∧ ∀ l ∈ r, l.WF)
    (srcs : List (Bytes × Bytes)) :
    scanEntries srcs (splitNN (render rs)) = scanRecords srcs rs := by
  induction rs generalizing srcs with
  | nil => simp [render, splitNN, scanEntries, scanRecords]
  | cons r rs ih =>
    obtain ⟨hne, hwf⟩ := hw r (by simp)
    simp only [render]
    rw [splitNN_record r hne hwf]
    simp only [scanEntries, recText_ne_nil r hne, Bool.false_eq_true, if_false, scanRecords]
    rw [scanEntry_record srcs r hne hwf, ih (fun x hx => hw x (List.mem_cons_of_mem _ hx))]

/-! ### what a record states -/

/-- the keys the scanner acts on: P V A o c -/
def significant (k : Nat) : Bool := k == 80 || k == 86 || k == 65 || k == 111 || k == 99

theorem applyLine_other (st : List (Bytes × Bytes) × Pkg) (l : Line) (h : significant l.key = false) :
    applyLine st l.bytes = st := by
  obtain ⟨srcs, p⟩ := st
  simp only [significant, Bool.or_eq_false_iff, beq_eq_false_iff_ne] at h
  obtain ⟨⟨⟨⟨h1, h2⟩, h3⟩, h4⟩, h5⟩ := h
  simp only [applyLine, Line.bytes, List.head?_cons]
  split <;> simp_all

theorem foldl_others (st : List (Bytes × Bytes) × Pkg) (ls : List Line) (h : ∀ l ∈ ls, significant l.key = false) :
    (ls.map Line.bytes).foldl applyLine st = st := by
  induction ls generalizing st with
  | nil => rfl
  | cons l ls ih =>
    simp only [List.map_cons, List.foldl_cons, applyLine_other st l (h l (by simp))]
    exact ih st (fun x hx => h x (List.mem_cons_of_mem _ hx))

/-- ground truth of one record -/
structure Entry where
  name : Bytes
  version : Bytes
  arch : Bytes
  origin : Option Bytes
  commit : Option Bytes
  deriving Repr

def Entry.pkg (e : Entry) : Pkg :=
  ⟨e.name, e.version, e.arch, e.commit.getD [], e.origin.map (fun o => (o, e.version))⟩

def optLine (k : Nat) (pad : Bytes → Bytes) : Option Bytes → List Line
  | none => []
  | some v => [⟨k, pad v⟩]

/-- A record in apk's own order: `P`, `V`, `A`, then `o` and `c` when present,
    with any other lines (`C S I T U L m t D p F R a Z …`) before, between and
    after; `pad` is any white-space padding of the values. -/
structure Record where
  e : Entry
  pad : Bytes → Bytes
  x0 : List Line
  x1 : List Line
  x2 : List Line
  x3 : List Line
  x4 : List Line
  x5 : List Line

def Record.lines (r : Record) : List Line :=
  r.x0 ++ ⟨80, r.pad r.e.name⟩ :: r.x1 ++ ⟨86, r.pad r.e.version⟩ :: r.x2 ++ ⟨65, r.pad r.e.arch⟩ :: r.x3 ++
    optLine 111 r.pad r.e.origin ++ r.x4 ++ optLine 99 r.pad r.e.commit ++ r.x5

structure Record.WF (r : Record) : Prop where
  pad_ok : ∀ v, trimSpace (r.pad v) = v
  others : ∀ l ∈ r.x0 ++ r.x1 ++ r.x2 ++ r.x3 ++ r.x4 ++ r.x5, significant l.key = false

theorem applyLine_P (srcs : List (Bytes × Bytes)) (p : Pkg) (v : Bytes) :
    applyLine (srcs, p) (Line.bytes ⟨80, v⟩) = (srcs, { p with name := trimSpace v }) := by
  simp [applyLine, Line.bytes]

theorem applyLine_V (srcs : List (Bytes × Bytes)) (p : Pkg) (v : Bytes) :
    applyLine (srcs, p) (Line.bytes ⟨86, v⟩) = (srcs, { p with version := trimSpace v }) := by
  simp [applyLine, Line.bytes]

theorem applyLine_A (srcs : List (Bytes × Bytes)) (p : Pkg) (v : Bytes) :
    applyLine (srcs, p) (Line.bytes ⟨65, v⟩) = (srcs, { p with arch := trimSpace v }) := by
  simp [applyLine, Line.bytes]

theorem applyLine_c (srcs : List (Bytes × Bytes)) (p : Pkg) (v : Bytes) :
    applyLine (srcs, p) (Line.bytes ⟨99, v⟩) = (srcs, { p with hint := trimSpace v }) := by
  simp [applyLine, Line.bytes]

theorem applyLine_o (srcs : List (Bytes × Bytes)) (p : Pkg) (v : Bytes) :
    applyLine (srcs, p) (Line.bytes ⟨111, v⟩) =
      match lookupSrc srcs (trimSpace v) with
      | some x => (srcs, { p with src := some (trimSpace v, x) })
      | none => (srcs ++ [(trimSpace v, p.version)], { p with src := some (trimSpace v, p.version) }) := by
  simp only [applyLine, Line.bytes, List.head?_cons, List.drop_succ_cons, List.drop_zero]
  split <;> simp_all

/-- the source map after a record: unchanged, or extended by the new origin -/
def srcsAfter (srcs : List (Bytes × Bytes)) (e : Entry) : List (Bytes × Bytes) :=
  match e.origin with
  | none => srcs
  | some o => match lookupSrc srcs o with
    | some _ => srcs
    | none => srcs ++ [(o, e.version)]

/-- One record in apk's order yields the package it states, provided the source
    map holds the record's own version for its origin (or nothing). -/
theorem foldl_record (r : Record) (w : r.WF) (srcs : List (Bytes × Bytes))
    (hs : ∀ o x, r.e.origin = some o → lookupSrc srcs o = some x → x = r.e.version) :
    (r.lines.map Line.bytes).foldl applyLine (srcs, Pkg.empty) = (srcsAfter srcs r.e, r.e.pkg) := by
  have h0 : ∀ l ∈ r.x0, significant l.key = false := fun l hl => w.others l (by simp [hl])
  have h1 : ∀ l ∈ r.x1, significant l.key = false := fun l hl => w.others l (by simp [hl])
  have h2 : ∀ l ∈ r.x2, significant l.key = false := fun l hl => w.others l (by simp [hl])
  have h3 : ∀ l ∈ r.x3, significant l.key = false := fun l hl => w.others l (by simp [hl])
  have h4 : ∀ l ∈ r.x4, significant l.key = false := fun l hl => w.others l (by simp [hl])
  have h5 : ∀ l ∈ r.x5, significant l.key = false := fun l hl => w.others l (by simp [hl])
  simp only [Record.lines, List.map_append, List.map_cons, List.foldl_append, List.foldl_cons,
    foldl_others _ _ h0, foldl_others _ _ h1, foldl_others _ _ h2, foldl_others _ _ h3,
    foldl_others _ _ h4, foldl_others _ _ h5,
    applyLine_P, applyLine_V, applyLine_A, w.pad_ok]
  cases hor : r.e.origin with
  | none =>
    cases hc : r.e.commit with
    | none => simp [optLine, srcsAfter, Entry.pkg, hor, hc, Pkg.empty]
    | some c =>
      simp [optLine, applyLine_c, w.pad_ok, srcsAfter, Entry.pkg, hor, hc, Pkg.empty]
  | some o =>
    cases hl : lookupSrc srcs o with
    | some x =>
      have := hs o x hor hl
      subst this
      cases hc : r.e.commit with
      | none =>
        simp [optLine, applyLine_o, w.pad_ok, hl, srcsAfter, Entry.pkg, hor, hc, Pkg.empty]
      | some c =>
        simp [optLine, applyLine_o, applyLine_c, w.pad_ok, hl, srcsAfter, Entry.pkg, hor, hc, Pkg.empty]
    | none =>
      cases hc : r.e.commit with
      | none =>
        simp [optLine, applyLine_o, w.pad_ok, hl, srcsAfter, Entry.pkg, hor, hc, Pkg.empty]
      | some c =>
        simp [optLine, applyLine_o, applyLine_c, w.pad_ok, hl, srcsAfter, Entry.pkg, hor, hc, Pkg.empty]

/-- packages of one origin carry one version (true of apk subpackages) -/
def OriginsAgree (es : List Entry) : Prop :=
  es.Pairwise (fun a b => ∀ o, a.origin = some o → b.origin = some o → a.version = b.version)

def SrcsOk (srcs : List (Bytes × Bytes)) (es : List Entry) : Prop :=
  ∀ e ∈ es, ∀ o x, e.origin = some o → lookupSrc srcs o = some x → x = e.version

theorem lookupSrc_append (src : List (Bytes × Bytes)) (n v k : Bytes) :
    lookupSrc (src ++ [(n, v)]) k = match lookupSrc src k with
      | some x => some x
      | none => if n = k then some v else none := by
  induction src with
  | nil => simp [lookupSrc]
  | cons a r ih =>
    obtain ⟨a1, a2⟩ := a
    simp only [List.cons_append, lookupSrc]
    split
    · rfl
    · exact ih

theorem scanRecords_exact (rs : List Record) (hw : ∀ r ∈ rs, r.WF)
    (hag : OriginsAgree (rs.map (·.e))) (srcs : List (Bytes × Bytes)) (hs : SrcsOk srcs (rs.map (·.e))) :
    scanRecords srcs (rs.map Record.lines) = rs.map (fun r => r.e.pkg) := by
  induction rs generalizing srcs with
  | nil => rfl
  | cons r rs ih =>
    have hag' := List.pairwise_cons.1 hag
    simp only [List.map_cons, scanRecords]
    rw [foldl_record r (hw r (by simp)) srcs (fun o x ho hl => hs r.e (by simp) o x ho hl)]
    simp only [List.cons.injEq, true_and]
    apply ih (fun x hx => hw x (List.mem_cons_of_mem _ hx)) hag'.2
    intro e he o x heo hl
    have hs' := hs e (by simp [List.mem_map] at he ⊢; exact Or.inr he)
    unfold srcsAfter at hl
    cases hro : r.e.origin with
    | none => rw [hro] at hl; exact hs' o x heo hl
    | some ro =>
      rw [hro] at hl
      simp only at hl
      cases hlr : lookupSrc srcs ro with
      | some y => rw [hlr] at hl; exact hs' o x heo hl
      | none =>
        rw [hlr] at hl
        simp only at hl
        rw [lookupSrc_append] at hl
        cases hlo : lookupSrc srcs o with
        | some z => rw [hlo] at hl; simp only [Option.some.injEq] at hl; subst hl; exact hs' o _ heo hlo
        | none =>
          rw [hlo] at hl
          simp only at hl
          split at hl
          · rename_i heq
            subst heq
            simp only [Option.some.injEq] at hl
            subst hl
            exact hag'.1 e he ro hro heo
          · cases hl

end ClairModel.Apk
