/-
  C11: tree-consistent views. In a view whose lookup table and children tables
  agree (`TreeOK`), walkTo follows the lookup table and `getInode` is a lookup.
-/
import ClairModel.Proofs.TarFSSub
set_option linter.unusedSimpArgs false
namespace ClairModel.TarFS

/-! ### Names as lists of elements -/

/-- Elements a contained name other than "." is made of. -/
def GoodComps (cs : List Bytes) : Prop := ∀ c ∈ cs, GoodElem c ∧ SL ∉ c

/-- The name made of the elements (`"."` for none). -/
def pathOf (cs : List Bytes) : Bytes := if cs = [] then dotP else joinSlash cs

theorem goodComps_of_contained {k : Bytes} (h : Contained k) (hd : k ≠ dotP) :
    GoodComps (splitSlash k) ∧ k = joinSlash (splitSlash k) ∧ splitSlash k ≠ [] := by
  obtain ⟨_, hg⟩ := contained_iff.1 h
  rcases hg with hg | hg
  · exact absurd hg hd
  · exact ⟨fun c hc => ⟨hg c hc, splitSlash_noSlash k c hc⟩, (joinSlash_splitSlash k).symm, splitSlash_ne_nil k⟩

theorem clean_joinSlash {cs : List Bytes} (hne : cs ≠ []) (h : GoodComps cs) : clean (joinSlash cs) = joinSlash cs := by
  obtain ⟨x, rest, hj, hx⟩ := joinSlash_head_ne hne h
  rw [clean.eq_def]
  simp only [hj]
  rw [← hj, splitSlash_joinSlash cs hne (fun c hc => (h c hc).2)]
  simp only [hx, decide_false, cleanComps, foldl_cleanStep_good false cs (fun c hc => (h c hc).1)]
  simp [hj]

/-- `path.Clean` leaves a valid path alone. -/
theorem clean_contained {k : Bytes} (h : Contained k) : clean k = k := by
  by_cases hd : k = dotP
  · subst hd; decide
  · obtain ⟨hg, hk, hne⟩ := goodComps_of_contained h hd
    rw [hk]; exact clean_joinSlash hne hg

theorem dirOf_snoc {init : List Bytes} {c : Bytes} (h : GoodComps (init ++ [c])) :
    dirOf (joinSlash (init ++ [c])) = pathOf init := by
  have hc : SL ∉ c := (h c (by simp)).2
  by_cases hi : init = []
  · subst hi
    simp [joinSlash, pathOf, dirOf, splitDir_noSlash c hc, clean]
  · have hinit : GoodComps init := fun x hx => h x (by simp [hx])
    rw [joinSlash_snoc init c hi]
    unfold dirOf
    rw [splitDir_snoc _ c hc]
    obtain ⟨x, rest, hj, hx⟩ := joinSlash_head_ne hi hinit
    have hsp : splitSlash (joinSlash init ++ [SL]) = init ++ [[]] := by
      have := splitSlash_snoc (joinSlash init) [] (by simp)
      rw [this, splitSlash_joinSlash init hi (fun c hc => (hinit c hc).2)]
    have e : joinSlash init ++ [SL] = x :: (rest ++ [SL]) := by rw [hj]; rfl
    rw [clean.eq_def]
    simp only [e]
    rw [← e, hsp]
    simp only [hx, decide_false, cleanComps, List.foldl_append,
      foldl_cleanStep_good false init (fun c hc => (hinit c hc).1)]
    simp [cleanStep, hj, pathOf, hi]

theorem takeWhile_append_all {α : Type} (p : α → Bool) (x y : List α) (h : ∀ a ∈ x, p a = true) :
    (x ++ y).takeWhile p = x ++ y.takeWhile p := by
  induction x with
  | nil => rfl
  | cons a t ih =>
    simp only [List.cons_append, List.takeWhile_cons, h a (by simp), if_true]
    rw [ih (fun b hb => h b (by simp [hb]))]

theorem baseOf_snoc {init : List Bytes} {c : Bytes} (h : GoodComps (init ++ [c])) :
    baseOf (joinSlash (init ++ [c])) = c := by
  have hc := h c (by simp)
  have hcne : c ≠ [] := hc.1.1
  have hrev : ∀ b ∈ c.reverse, b ≠ SL := fun b hb e => hc.2 (by rw [← e]; exact List.mem_reverse.1 hb)
  obtain ⟨a, ha⟩ : ∃ a, joinSlash (init ++ [c]) = a ++ c ∧ (a = [] ∨ ∃ a', a = a' ++ [SL]) := by
    by_cases hi : init = []
    · subst hi; exact ⟨[], by simp [joinSlash], Or.inl rfl⟩
    · exact ⟨joinSlash init ++ [SL], by rw [joinSlash_snoc init c hi]; simp, Or.inr ⟨_, rfl⟩⟩
  obtain ⟨hj, ha⟩ := ha
  have hne : a ++ c ≠ [] := by simp [hcne]
  unfold baseOf
  rw [hj]
  simp only [hne, if_false, List.reverse_append]
  -- the reversed name starts with the reversed last element
  obtain ⟨y, ys, hy⟩ : ∃ y ys, c.reverse = y :: ys := by
    cases hcr : c.reverse with
    | nil => simp at hcr; exact absurd hcr hcne
    | cons y ys => exact ⟨y, ys, rfl⟩
  have hyne : y ≠ SL := hrev y (by rw [hy]; simp)
  have hdw : (c.reverse ++ a.reverse).dropWhile (fun x => decide (x = SL)) = c.reverse ++ a.reverse := by
    rw [hy]; simp [List.dropWhile_cons, hyne]
  rw [hdw, takeWhile_append_all _ c.reverse _ (by intro b hb; simp [hrev b hb])]
  have htw : a.reverse.takeWhile (fun x => decide (x ≠ SL)) = [] := by
    rcases ha with rfl | ⟨a', rfl⟩
    · rfl
    · simp [List.takeWhile_cons]
  rw [htw]
  simp [hcne]


theorem joinSlash_ne_dot {cs : List Bytes} (hne : cs ≠ []) (h : GoodComps cs) : joinSlash cs ≠ dotP := by
  intro e
  have := splitSlash_joinSlash cs hne (fun c hc => (h c hc).2)
  rw [e] at this
  have hd : dotP ∈ cs := by rw [← this]; decide
  exact (h dotP hd).1.2.1 rfl

theorem joinSlash_inj {a b : List Bytes} (ha : a ≠ []) (hb : b ≠ []) (ga : GoodComps a) (gb : GoodComps b)
    (e : joinSlash a = joinSlash b) : a = b := by
  rw [← splitSlash_joinSlash a ha (fun c hc => (ga c hc).2), e, splitSlash_joinSlash b hb (fun c hc => (gb c hc).2)]

theorem pathOf_inj {a b : List Bytes} (ga : GoodComps a) (gb : GoodComps b) (e : pathOf a = pathOf b) : a = b := by
  unfold pathOf at e
  by_cases ha : a = [] <;> by_cases hb : b = []
  · rw [ha, hb]
  · simp only [ha, hb, if_true, if_false] at e; exact absurd e.symm (joinSlash_ne_dot hb gb)
  · simp only [ha, hb, if_true, if_false] at e; exact absurd e (joinSlash_ne_dot ha ga)
  · simp only [ha, hb, if_false] at e; exact joinSlash_inj ha hb ga gb e

theorem pathOf_snoc (init : List Bytes) (c : Bytes) : pathOf (init ++ [c]) = joinSlash (init ++ [c]) := by
  simp [pathOf]

/-- A contained name other than "." is its directory's elements plus its base name. -/
theorem contained_decompose {k : Bytes} (h : Contained k) (hd : k ≠ dotP) :
    ∃ init c, GoodComps (init ++ [c]) ∧ k = joinSlash (init ++ [c]) := by
  obtain ⟨hg, hk, hne⟩ := goodComps_of_contained h hd
  have hdec : splitSlash k = (splitSlash k).dropLast ++ [(splitSlash k).getLast hne] :=
    (List.dropLast_concat_getLast hne).symm
  exact ⟨_, _, by rw [← hdec]; exact hg, by rw [← hdec]; exact hk⟩

theorem contained_joinSlash {cs : List Bytes} (hne : cs ≠ []) (h : GoodComps cs)
    (hu : ∀ c ∈ cs, ValidU c) : Contained (joinSlash cs) := by
  apply contained_iff.2
  refine ⟨?_, Or.inr ?_⟩
  · induction cs with
    | nil => exact absurd rfl hne
    | cons c rest ih =>
      cases rest with
      | nil => simpa [joinSlash] using hu c (by simp)
      | cons d r =>
        simp only [joinSlash]
        exact ValidU_append (hu c (by simp)) (ValidU_ascii (by decide)
          (ih (by simp) (fun x hx => h x (by simp [hx])) (fun x hx => hu x (by simp [hx]))))
  · rw [splitSlash_joinSlash cs hne (fun c hc => (h c hc).2)]
    exact fun e he => (h e he).1

/-! ### Tree-consistent views -/

/-- The view is a tree of directories with regular files, links and special
    files as leaves, in which the lookup table and the
    children tables say the same thing. `skip` lists the keys
    that are registered but not yet connected to their directory (the state in
    the middle of `add`). -/
structure TreeOK (skip : List Bytes) (fs : FS) : Prop where
  inv : Inv fs
  root : fs.get? dotP = some 0
  rootDir : (fs.ino 0).kind = .dir
  keyed : ∀ i, i < fs.inodes.length → ∃ k, fs.get? k = some i
  named : ∀ k i, fs.get? k = some i → (fs.ino i).name = k ∧ i < fs.inodes.length
  kinds : ∀ k i, fs.get? k = some i →
    ((fs.ino i).kind = .dir ∧ ∃ cs, (fs.ino i).children = some cs) ∨
    ((fs.ino i).kind ≠ .dir ∧ (fs.ino i).children = none ∧
      ((fs.ino i).kind = .reg → ∃ d, (fs.ino i).data = some d))
  up : ∀ k i, fs.get? k = some i → k ≠ dotP → k ∉ skip →
    ∃ j cs, fs.get? (dirOf k) = some j ∧ dirOf k ∉ skip ∧ (fs.ino j).kind = .dir ∧
      (fs.ino j).children = some cs ∧ i ∈ cs
  down : ∀ k j cs, fs.get? k = some j → (fs.ino j).children = some cs →
    ∀ c ∈ cs, ∃ k', fs.get? k' = some c ∧ k' ≠ dotP ∧ k' ∉ skip ∧ dirOf k' = k

theorem TreeOK.contained {skip : List Bytes} {fs : FS} (h : TreeOK skip fs) {k : Bytes} {i : Nat}
    (hk : fs.get? k = some i) : Contained k :=
  h.inv.get hk

/-- In a tree-consistent view the child scan of walkTo finds exactly the
    entry the lookup table has for the name. -/
theorem TreeOK.findChild_some {skip : List Bytes} {fs : FS} (h : TreeOK skip fs) {done : List Bytes} {n : Bytes} {cur c : Nat}
    (hg : GoodComps (done ++ [n])) (hcur : fs.get? (pathOf done) = some cur)
    (hc : fs.get? (joinSlash (done ++ [n])) = some c) (hskip : joinSlash (done ++ [n]) ∉ skip) :
    fs.findChild cur n = some c := by
  have hb_ne : joinSlash (done ++ [n]) ≠ dotP := joinSlash_ne_dot (by simp) hg
  obtain ⟨j, cs, hj, _, _, hcs, hmem⟩ := h.up _ c hc hb_ne hskip
  rw [dirOf_snoc hg, hcur] at hj
  cases hj
  unfold FS.findChild
  simp only [hcs]
  have hname : baseOf (fs.ino c).name = n := by rw [(h.named _ c hc).1, baseOf_snoc hg]
  cases hf : cs.find? (fun ci => decide (baseOf (fs.ino ci).name = n)) with
  | none =>
    have := List.find?_eq_none.1 hf c hmem
    simp [hname] at this
  | some c' =>
    have hc'mem := List.mem_of_find?_eq_some hf
    have hp := List.find?_some hf
    simp only [decide_eq_true_eq] at hp
    obtain ⟨k', hk', hk'ne, _, hk'dir⟩ := h.down _ cur cs hcur hcs c' hc'mem
    have hk'name := (h.named _ c' hk').1
    obtain ⟨init', c0, hg', hk'eq⟩ := contained_decompose (h.contained hk') hk'ne
    rw [hk'eq, dirOf_snoc hg'] at hk'dir
    rw [hk'name, hk'eq, baseOf_snoc hg'] at hp
    subst hp
    have hinit : init' = done :=
      pathOf_inj (fun x hx => hg' x (by simp [hx])) (fun x hx => hg x (by simp [hx])) hk'dir
    subst hinit
    rw [← hk'eq, hk'] at hc
    cases hc
    rfl

theorem TreeOK.findChild_none {skip : List Bytes} {fs : FS} (h : TreeOK skip fs) {done : List Bytes} {n : Bytes} {cur : Nat}
    (hg : GoodComps (done ++ [n])) (hcur : fs.get? (pathOf done) = some cur)
    (hc : fs.get? (joinSlash (done ++ [n])) = none) : fs.findChild cur n = none := by
  unfold FS.findChild
  cases hcs : (fs.ino cur).children with
  | none => rfl
  | some cs =>
    simp only
    apply List.find?_eq_none.2
    intro c' hc'mem hp
    simp only [decide_eq_true_eq] at hp
    obtain ⟨k', hk', hk'ne, _, hk'dir⟩ := h.down _ cur cs hcur hcs c' hc'mem
    have hk'name := (h.named _ c' hk').1
    obtain ⟨init', c0, hg', hk'eq⟩ := contained_decompose (h.contained hk') hk'ne
    rw [hk'eq, dirOf_snoc hg'] at hk'dir
    rw [hk'name, hk'eq, baseOf_snoc hg'] at hp
    subst hp
    have hinit : init' = done :=
      pathOf_inj (fun x hx => hg' x (by simp [hx])) (fun x hx => hg x (by simp [hx])) hk'dir
    subst hinit
    rw [← hk'eq, hk'] at hc
    cases hc


/-- Every proper, non-empty prefix of a connected key is the (connected) key of a directory. -/
theorem TreeOK.prefix_dir {skip : List Bytes} {fs : FS} (h : TreeOK skip fs) :
    ∀ (suf pre : List Bytes) (i : Nat), GoodComps (pre ++ suf) → pre ≠ [] → suf ≠ [] →
      fs.get? (joinSlash (pre ++ suf)) = some i → joinSlash (pre ++ suf) ∉ skip →
      ∃ c, fs.get? (joinSlash pre) = some c ∧ (fs.ino c).kind = .dir ∧ joinSlash pre ∉ skip := by
  intro suf
  induction hn : suf.length generalizing suf with
  | zero =>
    intro pre i _ _ hs
    exact absurd (List.eq_nil_of_length_eq_zero hn) hs
  | succ m ih =>
    intro pre i hg hpre hsuf hk hsk
    have hdec : suf = suf.dropLast ++ [suf.getLast hsuf] := (List.dropLast_concat_getLast hsuf).symm
    generalize hs' : suf.dropLast = s' at hdec
    generalize suf.getLast hsuf = y at hdec
    subst hdec
    have hg' : GoodComps ((pre ++ s') ++ [y]) := by simpa [List.append_assoc] using hg
    have hk' : fs.get? (joinSlash ((pre ++ s') ++ [y])) = some i := by simpa [List.append_assoc] using hk
    have hsk' : joinSlash ((pre ++ s') ++ [y]) ∉ skip := by simpa [List.append_assoc] using hsk
    obtain ⟨j, cs, hj, hjs, hkind, _, _⟩ := h.up _ i hk' (joinSlash_ne_dot (by simp) hg') hsk'
    rw [dirOf_snoc hg'] at hj hjs
    have hne : pre ++ s' ≠ [] := by simp [hpre]
    simp only [pathOf, hne, if_false] at hj hjs
    by_cases hs'' : s' = []
    · subst hs''; simp at hj hjs; exact ⟨j, hj, hkind, hjs⟩
    · have hlen : s'.length = m := by simp at hn; omega
      exact ih s' hlen pre j (fun x hx => hg x (by simp at hx ⊢; rcases hx with hx | hx <;> simp [hx])) hpre hs'' hj hjs

/-- The `Resolve:` loop on a child that is a directory, or anything but a
    directory or a symbolic link. -/
theorem resolve_plain (mk : Option (FS → Bytes → FS)) (last : Bool) (fuel : Nat) (fs : FS) (c : Nat) :
    ((fs.ino c).kind = .dir → resolve mk last (fuel + 1) fs [] c = (fs, .ok c)) ∧
    ((fs.ino c).kind ≠ .dir → (fs.ino c).kind ≠ .sym → resolve mk last (fuel + 1) fs [] c =
      (fs, if last then .ok c else .error .exist)) := by
  constructor
  · intro hk; simp [resolve, hk]
  · intro hk1 hk2
    cases hkk : (fs.ino c).kind <;> simp [resolve, hkk] at hk1 hk2 ⊢ <;> split <;> rfl

theorem joinSlash_done (done : List Bytes) (n : Bytes) :
    (if done.isEmpty = true then n else joinSlash done ++ SL :: n) = joinSlash (done ++ [n]) := by
  by_cases hd : done = []
  · subst hd; simp [joinSlash]
  · have : done.isEmpty = false := by cases done <;> simp at hd ⊢
    simp [this, joinSlash_snoc done n hd]

/-- walkTo without create follows the lookup table: it arrives exactly at
    the names that are (connected) keys. -/
theorem TreeOK.walkLoop_none {skip : List Bytes} {fs : FS} (h : TreeOK skip fs) :
    ∀ (rest done : List Bytes) (cur : Nat), GoodComps (done ++ rest) →
      fs.get? (pathOf done) = some cur →
      (∀ pre suf, done ++ rest = pre ++ suf → pre ≠ [] → joinSlash pre ∉ skip) →
      (∀ pre suf, done ++ rest = pre ++ suf → pre ≠ [] → ∀ i, fs.get? (joinSlash pre) = some i →
        (fs.ino i).kind ≠ .sym) →
      (∀ i, fs.get? (pathOf (done ++ rest)) = some i →
        walkLoop none fs cur (joinSlash done) done.isEmpty rest = (fs, .ok i)) ∧
      (fs.get? (pathOf (done ++ rest)) = none →
        ∃ e, walkLoop none fs cur (joinSlash done) done.isEmpty rest = (fs, .error e)) := by
  intro rest
  induction rest with
  | nil =>
    intro done cur _ hcur _ _
    simp only [List.append_nil, walkLoop]
    exact ⟨fun i hi => by rw [hcur] at hi; cases hi; rfl, fun hn => by rw [hcur] at hn; cases hn⟩
  | cons n rest ih =>
    intro done cur hg hcur hsk hns
    have hns' : ∀ pre suf, (done ++ [n]) ++ rest = pre ++ suf → pre ≠ [] → ∀ i, fs.get? (joinSlash pre) = some i →
        (fs.ino i).kind ≠ .sym := fun pre suf e hp => hns pre suf (by simpa [List.append_assoc] using e) hp
    have hg1 : GoodComps (done ++ [n]) := fun x hx => hg x (by simp at hx ⊢; rcases hx with hx | hx <;> simp [hx])
    have hg2 : GoodComps ((done ++ [n]) ++ rest) := by simpa [List.append_assoc] using hg
    have hfull : pathOf (done ++ n :: rest) = joinSlash ((done ++ [n]) ++ rest) := by
      simp [pathOf, List.append_assoc]
    have hskb : joinSlash (done ++ [n]) ∉ skip := hsk (done ++ [n]) rest (by simp) (by simp)
    have hskfull : joinSlash ((done ++ [n]) ++ rest) ∉ skip := hsk _ [] (by simp) (by simp)
    have hsk' : ∀ pre suf, (done ++ [n]) ++ rest = pre ++ suf → pre ≠ [] → joinSlash pre ∉ skip :=
      fun pre suf e hp => hsk pre suf (by simpa [List.append_assoc] using e) hp
    simp only [walkLoop, joinSlash_done]
    cases hb : fs.get? (joinSlash (done ++ [n])) with
    | none =>
      rw [h.findChild_none hg1 hcur hb]
      refine ⟨fun i hi => ?_, fun _ => ⟨_, rfl⟩⟩
      exfalso
      rw [hfull] at hi
      by_cases hr : rest = []
      · subst hr; simp at hi; rw [hb] at hi; cases hi
      · obtain ⟨c, hc, _⟩ := h.prefix_dir rest (done ++ [n]) i hg2 (by simp) hr hi hskfull
        rw [hb] at hc; cases hc
    | some c =>
      rw [h.findChild_some hg1 hcur hb hskb]
      simp only
      have hpath : pathOf (done ++ [n]) = joinSlash (done ++ [n]) := pathOf_snoc done n
      have hempty : (done ++ [n]).isEmpty = false := by simp
      rcases h.kinds _ c hb with ⟨hk, _⟩ | ⟨hk, _⟩
      · rw [(resolve_plain none rest.isEmpty _ fs c).1 hk]
        simp only
        have := ih (done ++ [n]) c hg2 (by rw [hpath]; exact hb) hsk' hns'
        rw [hempty] at this
        simpa [List.append_assoc] using this
      · rw [(resolve_plain none rest.isEmpty _ fs c).2 hk (hns (done ++ [n]) rest (by simp) (by simp) c hb)]
        by_cases hr : rest = []
        · subst hr
          simp only [List.isEmpty_nil, if_true, walkLoop]
          rw [hfull]
          simp only [List.append_nil]
          exact ⟨fun i hi => by rw [hb] at hi; cases hi; rfl, fun hn => by rw [hb] at hn; cases hn⟩
        · have : rest.isEmpty = false := by cases rest <;> simp at hr ⊢
          simp only [this, Bool.false_eq_true, if_false]
          refine ⟨fun i hi => ?_, fun _ => ⟨_, rfl⟩⟩
          exfalso
          rw [hfull] at hi
          obtain ⟨c', hc', hk', _⟩ := h.prefix_dir rest (done ++ [n]) i hg2 (by simp) hr hi hskfull
          rw [hb] at hc'; cases hc'
          exact hk hk'

/-- `getInode` is a lookup for every name none of whose prefixes is the
    unconnected key. -/
theorem TreeOK.getInode_eq {skip : List Bytes} {fs : FS} (h : TreeOK skip fs) {p : Bytes} (hp : Contained p)
    (hsk : ∀ pre suf, splitSlash p = pre ++ suf → pre ≠ [] → joinSlash pre ∉ skip)
    (hns : ∀ pre suf, splitSlash p = pre ++ suf → pre ≠ [] → suf ≠ [] → ∀ i, fs.get? (joinSlash pre) = some i →
      (fs.ino i).kind ≠ .sym) :
    getInode fs p = match fs.get? p with
      | some i => .ok i
      | none => .error .notexist := by
  unfold getInode
  have hv : validPath p = true := hp
  simp only [hv, Bool.not_true, Bool.false_eq_true, if_false, clean_contained hp]
  cases hget : fs.get? p with
  | some i => rfl
  | none =>
    simp only
    have hd : p ≠ dotP := by intro e; subst e; rw [h.root] at hget; cases hget
    obtain ⟨hg, hk, hne⟩ := goodComps_of_contained hp hd
    have hns' : ∀ pre suf, [] ++ splitSlash p = pre ++ suf → pre ≠ [] → ∀ i, fs.get? (joinSlash pre) = some i →
        (fs.ino i).kind ≠ .sym := by
      intro pre suf e hpre i hi
      by_cases hsuf : suf = []
      · subst hsuf
        simp only [List.nil_append, List.append_nil] at e
        rw [← e, ← hk, hget] at hi; cases hi
      · exact hns pre suf (by simpa using e) hpre hsuf i hi
    have hw := (h.walkLoop_none (splitSlash p) [] 0 (by simpa using hg) (by simpa [pathOf] using h.root)
      (by simpa using hsk) hns').2
      (by simp only [List.nil_append, pathOf, hne, if_false]; rw [← hk]; exact hget)
    obtain ⟨e, he⟩ := hw
    unfold walkTo
    simp only [FS.getD]
    have hroot : alGet fs.lookup dotP = some 0 := h.root
    simp only [hroot, Option.getD_some]
    simp only [joinSlash, List.isEmpty_nil] at he
    rw [he]

/-- No proper prefix of `p` (as a name) is the key of a symbolic link:
    the path is asked for as it was archived, not through a link. -/
def NoLinkOnPath (fs : FS) (p : Bytes) : Prop :=
  ∀ pre suf, splitSlash p = pre ++ suf → pre ≠ [] → suf ≠ [] →
    ∀ i, fs.get? (joinSlash pre) = some i → (fs.ino i).kind ≠ .sym

/-- With nothing pending, `getInode` is a lookup. -/
theorem TreeOK.getInode_eq' {fs : FS} (h : TreeOK [] fs) {p : Bytes} (hp : Contained p) (hns : NoLinkOnPath fs p) :
    getInode fs p = match fs.get? p with
      | some i => .ok i
      | none => .error .notexist := by
  by_cases hd : p = dotP
  · subst hd
    unfold getInode
    simp [show validPath dotP = true by decide, show clean dotP = dotP by decide, h.root]
  · apply h.getInode_eq hp _ hns
    intro pre suf e hpre
    simp

end ClairModel.TarFS
