/-
  C11: every name the view stores is contained in the root.
  `Inv fs` (all keys of the lookup table, all member names and all link targets
  are contained names) holds for the empty view and is preserved by
  add / walkTo / the cleanup of New / Sub.
-/
import ClairModel.Proofs.TarFS
set_option linter.unusedSimpArgs false
namespace ClairModel.TarFS

/-! ### Contained names -/

/-- A name that stays inside the root and can be asked for through io/fs:
    `fs.ValidPath` — "." or a relative path whose elements are not empty, "."
    or "..", valid UTF-8. -/
def Contained (k : Bytes) : Prop := validPath k = true

theorem contained_iff {k : Bytes} :
    Contained k ↔ ValidU k ∧ (k = dotP ∨ ∀ e ∈ splitSlash k, GoodElem e) := by
  unfold Contained validPath
  simp only [Bool.and_eq_true, Bool.or_eq_true, decide_eq_true_eq, List.all_eq_true, validUtf8_iff]
  constructor
  · rintro ⟨hu, h⟩
    refine ⟨hu, ?_⟩
    rcases h with h | h
    · exact Or.inl h
    · refine Or.inr fun e he => ?_
      have := h e he
      simp at this
      exact ⟨this.1.1, this.1.2, this.2⟩
  · rintro ⟨hu, h⟩
    refine ⟨hu, ?_⟩
    rcases h with h | h
    · exact Or.inl h
    · refine Or.inr fun e he => ?_
      have := h e he
      simp [this.1, this.2.1, this.2.2]

theorem contained_of_validPath {k : Bytes} (h : validPath k = true) : Contained k := h

theorem contained_normPath (p : Bytes) : Contained (normPath p) := normPath_valid p

theorem joinSlash_splitSlash (k : Bytes) : joinSlash (splitSlash k) = k := by
  induction k with
  | nil => simp [splitSlash, joinSlash]
  | cons c cs ih =>
    rw [splitSlash]
    split
    · rename_i hc
      subst hc
      have := splitSlash_ne_nil cs
      cases h : splitSlash cs with
      | nil => exact absurd h this
      | cons x xs => rw [h] at ih; simp [joinSlash, ih]
    · split
      · rename_i h; exact absurd h (splitSlash_ne_nil cs)
      · rename_i x xs h
        rw [h] at ih
        cases xs with
        | nil => simp [joinSlash] at ih ⊢; exact ih
        | cons y ys => simp [joinSlash] at ih ⊢; exact ih

theorem splitSlash_snoc (a n : Bytes) (hn : SL ∉ n) : splitSlash (a ++ SL :: n) = splitSlash a ++ [n] := by
  induction a with
  | nil =>
    simp only [List.nil_append, splitSlash_slash]
    have := splitSlash_append_noSlash n [] hn
    simp [splitSlash] at this
    simp [splitSlash, this]
  | cons c cs ih =>
    simp only [List.cons_append]
    rw [splitSlash, splitSlash.eq_def (c :: cs)]
    split
    · rename_i hc; simp [ih, hc]
    · rename_i hc
      simp only [ih]
      have := splitSlash_ne_nil cs
      cases h : splitSlash cs with
      | nil => exact absurd h this
      | cons x xs => simp [hc]


theorem dropWhile_append_all {α : Type} (p : α → Bool) (x y : List α) (h : ∀ a ∈ x, p a = true) :
    (x ++ y).dropWhile p = y.dropWhile p := by
  induction x with
  | nil => rfl
  | cons a t ih =>
    simp only [List.cons_append, List.dropWhile_cons, h a (by simp), if_true]
    exact ih (fun b hb => h b (by simp [hb]))

theorem splitDir_snoc (a c : Bytes) (hc : SL ∉ c) : splitDir (a ++ SL :: c) = a ++ [SL] := by
  unfold splitDir
  rw [List.reverse_append, List.reverse_cons, List.append_assoc,
    dropWhile_append_all _ c.reverse]
  · simp [List.dropWhile_cons]
  · intro b hb
    have : b ≠ SL := fun h => hc (by rw [← h]; exact List.mem_reverse.1 hb)
    simp [this]

theorem splitDir_noSlash (c : Bytes) (hc : SL ∉ c) : splitDir c = [] := by
  unfold splitDir
  have := dropWhile_append_all (fun x : UInt8 => decide (x ≠ SL)) c.reverse [] (by
    intro b hb
    have : b ≠ SL := fun h => hc (by rw [← h]; exact List.mem_reverse.1 hb)
    simp [this])
  simp at this
  simp [this]

theorem joinSlash_snoc (init : List Bytes) (c : Bytes) (h : init ≠ []) :
    joinSlash (init ++ [c]) = joinSlash init ++ SL :: c := by
  induction init with
  | nil => exact absurd rfl h
  | cons x xs ih =>
    cases xs with
    | nil => simp [joinSlash]
    | cons y ys =>
      have := ih (by simp)
      simp only [List.cons_append] at this ⊢
      simp only [joinSlash, this]
      simp

theorem cleanStep_good (r : Bool) (st : List Bytes) (c : Bytes) (h : GoodElem c) :
    cleanStep r st c = c :: st := by
  unfold cleanStep
  simp [h.1, h.2.1, h.2.2]

theorem foldl_cleanStep_good (r : Bool) (cs : List Bytes) (h : ∀ c ∈ cs, GoodElem c) :
    ∀ st, cs.foldl (cleanStep r) st = cs.reverse ++ st := by
  induction cs with
  | nil => intro st; rfl
  | cons c rest ih =>
    intro st
    simp only [List.foldl_cons, cleanStep_good r st c (h c (by simp))]
    rw [ih (fun x hx => h x (by simp [hx]))]
    simp

theorem joinSlash_head_ne {cs : List Bytes} (hne : cs ≠ []) (h : ∀ c ∈ cs, GoodElem c ∧ SL ∉ c) :
    ∃ x rest, joinSlash cs = x :: rest ∧ x ≠ SL := by
  cases cs with
  | nil => exact absurd rfl hne
  | cons c t =>
    have hc := h c (by simp)
    cases c with
    | nil => exact absurd rfl hc.1.1
    | cons x xr =>
      have hx : x ≠ SL := fun e => hc.2 (by simp [e])
      cases t with
      | nil => exact ⟨x, xr, by simp [joinSlash], hx⟩
      | cons d ds => exact ⟨x, xr ++ SL :: joinSlash (d :: ds), by simp [joinSlash], hx⟩

/-- `path.Dir` of a contained name is contained. -/
theorem contained_dirOf {k : Bytes} (hk0 : Contained k) : Contained (dirOf k) := by
  obtain ⟨hu, h⟩ := contained_iff.1 hk0
  clear hk0
  rcases h with rfl | h
  · show validPath (dirOf dotP) = true; decide
  · have hns := splitSlash_noSlash k
    have hne := splitSlash_ne_nil k
    have hk := joinSlash_splitSlash k
    generalize splitSlash k = cs at h hns hne hk
    have hdec : cs = cs.dropLast ++ [cs.getLast hne] := (List.dropLast_concat_getLast hne).symm
    generalize cs.dropLast = init at hdec
    generalize cs.getLast hne = c at hdec
    subst hdec
    have hc : SL ∉ c := hns c (by simp)
    by_cases hi : init = []
    · subst hi
      simp [joinSlash] at hk
      subst hk
      have : dirOf c = dotP := by simp [dirOf, splitDir_noSlash c hc, clean]
      rw [this]; show validPath dotP = true; decide
    · rw [joinSlash_snoc init c hi] at hk
      subst hk
      have hinit : ∀ x ∈ init, GoodElem x ∧ SL ∉ x := fun x hx => ⟨h x (by simp [hx]), hns x (by simp [hx])⟩
      obtain ⟨x, rest, hj, hx⟩ := joinSlash_head_ne hi hinit
      have hsp : splitSlash (joinSlash init ++ [SL]) = init ++ [[]] := by
        have := splitSlash_snoc (joinSlash init) [] (by simp)
        rw [this, splitSlash_joinSlash init hi (fun c hc => (hinit c hc).2)]
      have hcl : clean (joinSlash init ++ [SL]) = joinSlash init := by
        have e : joinSlash init ++ [SL] = x :: (rest ++ [SL]) := by rw [hj]; rfl
        rw [clean.eq_def]
        simp only [e]
        rw [← e, hsp]
        simp only [hx, decide_false, cleanComps, List.foldl_append,
          foldl_cleanStep_good false init (fun c hc => (hinit c hc).1)]
        simp [cleanStep, hj]
      apply contained_iff.2
      unfold dirOf
      rw [splitDir_snoc _ c hc, hcl, splitSlash_joinSlash init hi (fun c hc => (hinit c hc).2)]
      exact ⟨(ValidU_split_slash _ hu _ c rfl).1, Or.inr fun e he => (hinit e he).1⟩

/-! ### The invariant -/

theorem mem_alDel {β : Type} {l : List (Bytes × β)} {k : Bytes} {x : Bytes × β} (h : x ∈ alDel l k) : x ∈ l := by
  induction l with
  | nil => simp [alDel] at h
  | cons a t ih =>
    obtain ⟨k', v⟩ := a
    simp only [alDel] at h
    split at h
    · exact List.mem_cons_of_mem _ (ih h)
    · simp at h
      rcases h with rfl | h
      · simp
      · exact List.mem_cons_of_mem _ (ih h)

theorem mem_alSet {β : Type} {l : List (Bytes × β)} {k : Bytes} {v : β} {x : Bytes × β}
    (h : x ∈ alSet l k v) : x = (k, v) ∨ x ∈ l := by
  simp only [alSet, List.mem_cons] at h
  rcases h with h | h
  · exact Or.inl h
  · exact Or.inr (mem_alDel h)

theorem alGet_mem {β : Type} {l : List (Bytes × β)} {k : Bytes} {v : β} (h : alGet l k = some v) : (k, v) ∈ l := by
  induction l with
  | nil => simp [alGet] at h
  | cons a t ih =>
    obtain ⟨k', v'⟩ := a
    simp only [alGet] at h
    split at h
    · rename_i hk; simp at h; subst h; subst hk; simp
    · exact List.mem_cons_of_mem _ (ih h)

/-- What the invariant says about one inode. -/
def InoOK (n : Inode) : Prop := Contained n.name ∧ ((n.kind = .sym ∨ n.kind = .link) → Contained n.link)

structure Inv (fs : FS) : Prop where
  keys : ∀ x ∈ fs.lookup, Contained x.1
  inos : ∀ n ∈ fs.inodes, InoOK n

theorem contained_dot : Contained dotP := by show validPath dotP = true; decide

theorem inoOK_empty : InoOK emptyInode := ⟨contained_dot, by simp [emptyInode]⟩

theorem inoOK_newDir {p : Bytes} (h : Contained p) : InoOK (newDir p) := ⟨h, by simp [newDir]⟩

theorem Inv.ino {fs : FS} (h : Inv fs) (i : Nat) : InoOK (fs.ino i) := by
  unfold FS.ino List.getD
  cases hi : fs.inodes[i]? with
  | none => simpa using inoOK_empty
  | some a => simpa using h.inos a (List.mem_of_getElem? hi)

theorem Inv.get {fs : FS} (h : Inv fs) {k : Bytes} {i : Nat} (hk : fs.get? k = some i) : Contained k :=
  h.keys (k, i) (alGet_mem hk)

theorem Inv.setIno {fs : FS} (h : Inv fs) (p : Nat) (n : Inode) (hn : InoOK n) :
    Inv { fs with inodes := fs.inodes.set p n } :=
  ⟨h.keys, fun a ha => by
    rcases List.mem_or_eq_of_mem_set ha with ha | rfl
    · exact h.inos a ha
    · exact hn⟩

theorem Inv.linkChild {fs : FS} (h : Inv fs) (p i : Nat) : Inv (fs.linkChild p i) := by
  unfold FS.linkChild
  simp only []
  split
  · exact h.setIno p _ (h.ino p)
  · exact h

theorem Inv.unlinkChild {fs : FS} (h : Inv fs) (p i : Nat) : Inv (fs.unlinkChild p i) := by
  unfold FS.unlinkChild
  simp only []
  split
  · exact h.setIno p _ (h.ino p)
  · exact h

/-- A directory-making function that keeps the invariant. -/
def MkOK (mk : FS → Bytes → FS) : Prop := ∀ fs p, Inv fs → Contained p → Inv (mk fs p)

def MkOK? (mk : Option (FS → Bytes → FS)) : Prop := ∀ f, mk = some f → MkOK f

theorem resolve_inv (mk : Option (FS → Bytes → FS)) (hmk : MkOK? mk) (last : Bool) :
    ∀ (fuel : Nat) (fs : FS) (cyc : List Nat) (ci : Nat), Inv fs → Inv (resolve mk last fuel fs cyc ci).1 := by
  intro fuel
  induction fuel with
  | zero => intro fs cyc ci h; simpa [resolve] using h
  | succ fuel ih =>
    intro fs cyc ci h
    simp only [resolve]
    split
    · exact h
    · split
      · exact h
      · rename_i hk
        split
        · exact ih _ _ _ h
        · split
          · rename_i mkdir
            apply ih
            exact hmk mkdir rfl fs _ h ((h.ino ci).2 (Or.inl hk))
          · exact h
      · split <;> exact h


def OKElem (n : Bytes) : Prop := GoodElem n ∧ SL ∉ n ∧ ValidU n

/-- A path under construction: valid UTF-8 with good elements. -/
def GoodPath (b : Bytes) : Prop := ValidU b ∧ ∀ e ∈ splitSlash b, GoodElem e

theorem GoodPath.contained {b : Bytes} (h : GoodPath b) : Contained b :=
  contained_iff.2 ⟨h.1, Or.inr h.2⟩

theorem walkLoop_inv (mk : Option (FS → Bytes → FS)) (hmk : MkOK? mk) :
    ∀ (comps : List Bytes) (fs : FS) (cur : Nat) (built : Bytes) (first : Bool), Inv fs →
      ((comps = [dotP] ∧ first = true) ∨
        ((first = true ∨ GoodPath built) ∧ ∀ x ∈ comps, OKElem x)) →
      Inv (walkLoop mk fs cur built first comps).1 := by
  intro comps
  induction comps with
  | nil => intro fs cur built first h _; simpa [walkLoop] using h
  | cons n rest ih =>
    intro fs cur built first h H
    -- the name built for this element is contained, and good when more elements follow
    have hb : Contained (if first = true then n else built ++ SL :: n) ∧
        (rest ≠ [] → GoodPath (if first = true then n else built ++ SL :: n) ∧
          ∀ x ∈ rest, OKElem x) := by
      rcases H with ⟨hc, hf⟩ | ⟨hf, hall⟩
      · simp at hc
        obtain ⟨rfl, rfl⟩ := hc
        simp [hf, contained_dot]
      · have hn := hall n (by simp)
        have hrest : ∀ x ∈ rest, OKElem x := fun x hx => hall x (by simp [hx])
        by_cases hfirst : first = true
        · simp only [hfirst, if_true]
          have : GoodPath n := by
            refine ⟨hn.2.2, ?_⟩
            rw [splitSlash_single hn.2.1]; intro e he; simp at he; subst he; exact hn.1
          exact ⟨this.contained, fun _ => ⟨this, hrest⟩⟩
        · have hbuilt : GoodPath built := by
            rcases hf with hf | hf
            · exact absurd hf hfirst
            · exact hf
          simp only [hfirst, if_false]
          have : GoodPath (built ++ SL :: n) := by
            refine ⟨ValidU_append hbuilt.1 (ValidU_ascii (by decide) hn.2.2), ?_⟩
            rw [splitSlash_snoc built n hn.2.1]
            intro e he
            simp at he
            rcases he with he | rfl
            · exact hbuilt.2 e he
            · exact hn.1
          exact ⟨this.contained, fun _ => ⟨this, hrest⟩⟩
    -- continue with the rest
    have hcont : ∀ (fs' : FS) (c : Nat), Inv fs' →
        Inv (walkLoop mk fs' c (if first = true then n else built ++ SL :: n) false rest).1 := by
      intro fs' c h'
      by_cases hr : rest = []
      · subst hr; simpa [walkLoop] using h'
      · exact ih fs' c _ false h' (Or.inr ⟨Or.inr (hb.2 hr).1, (hb.2 hr).2⟩)
    simp only [walkLoop]
    split
    · rename_i ci _
      have hres := resolve_inv mk hmk rest.isEmpty (fs.inodes.length + 2) fs [] ci h
      split
      · rename_i fs' c heq
        rw [heq] at hres
        exact hcont fs' c hres
      · rename_i fs' e heq
        rw [heq] at hres
        exact hres
    · split
      · rename_i mkdir
        exact hcont _ _ (hmk mkdir rfl fs _ h hb.1)
      · exact h

theorem walkTo_inv (mk : Option (FS → Bytes → FS)) (hmk : MkOK? mk) (fs : FS) (p : Bytes)
    (h : Inv fs) (hp : Contained p) : Inv (walkTo mk fs p).1 := by
  unfold walkTo
  apply walkLoop_inv mk hmk _ fs _ [] true h
  obtain ⟨hu, hp⟩ := contained_iff.1 hp
  rcases hp with rfl | hp
  · left; exact ⟨by decide, rfl⟩
  · right
    exact ⟨Or.inl rfl, fun x hx => ⟨hp x hx, splitSlash_noSlash p x hx, ValidU_elems _ p (Nat.le_refl _) hu x hx⟩⟩

theorem addEnt_inv (mkdir : FS → Bytes → FS) (hmk : MkOK mkdir) (i : Nat) (name : Bytes) :
    ∀ (fuel : Nat) (fs : FS) (cyc : List Nat) (dir : Bytes), Inv fs → Contained dir →
      Inv (addEnt mkdir i name fuel fs cyc dir).1 := by
  intro fuel
  induction fuel with
  | zero => intro fs cyc dir h _; simpa [addEnt] using h
  | succ fuel ih =>
    intro fs cyc dir h hdir
    -- what happens once the parent is known
    have hpar : ∀ (fs2 : FS) (p : Nat), Inv fs2 →
        Inv (if p ∈ cyc then (fs2, some Err.invalid)
          else
            match (fs2.ino p).kind with
            | .dir => (fs2.linkChild p i, none)
            | .link => addEnt mkdir i name fuel fs2 (p :: cyc) (fs2.ino p).link
            | .sym => addEnt mkdir i name fuel fs2 (p :: cyc) (fs2.ino p).link
            | _ => (fs2, some Err.exist)).1 := by
      intro fs2 p hr
      split
      · exact hr
      · split
        · exact Inv.linkChild hr _ _
        · rename_i hk
          exact ih _ _ _ hr ((Inv.ino hr p).2 (Or.inr hk))
        · rename_i hk
          exact ih _ _ _ hr ((Inv.ino hr p).2 (Or.inl hk))
        · exact hr
    simp only [addEnt]
    split
    · exact h
    · split
      · exact h.linkChild _ _
      · cases hgi : getInode fs dir with
        | ok p => exact hpar fs p h
        | error e =>
          have hw := walkTo_inv (some mkdir) (fun f hf => by cases hf; exact hmk) fs dir h hdir
          simp only
          generalize walkTo (some mkdir) fs dir = r at hw
          obtain ⟨fs2, res⟩ := r
          cases res with
          | error e => exact hw
          | ok p => exact hpar fs2 p hw

theorem again_name_contained (fs : FS) (h : Inv fs) (kind : Kind) :
    ∀ (k : Nat) (name : Bytes), Contained name →
      (∀ nm, again fs kind k name = .fresh nm → Contained nm) ∧
      (∀ i nm, again fs kind k name = .replace i nm → Contained nm) := by
  intro k
  induction k with
  | zero =>
    intro name hn
    unfold again
    constructor
    · intro nm heq
      split at heq
      · cases heq; exact hn
      · split at heq
        · cases heq
        · split at heq <;> cases heq
    · intro i nm heq
      split at heq
      · cases heq
      · split at heq
        · cases heq
        · split at heq <;> first | cases heq; exact hn | cases heq
  | succ k ih =>
    intro name hn
    unfold again
    constructor
    · intro nm heq
      split at heq
      · cases heq; exact hn
      · rename_i i hi
        split at heq
        · cases heq
        · split at heq
          · cases heq
          · rename_i hm
            have hk : (fs.ino i).kind = .sym := by
              cases hkk : (fs.ino i).kind <;> simp [hkk, Kind.mtype] at hm
              rfl
            exact (ih _ ((h.ino i).2 (Or.inl hk))).1 nm heq
          · cases heq
    · intro j nm heq
      split at heq
      · cases heq
      · rename_i i hi
        split at heq
        · cases heq
        · split at heq
          · cases heq
          · rename_i hm
            have hk : (fs.ino i).kind = .sym := by
              cases hkk : (fs.ino i).kind <;> simp [hkk, Kind.mtype] at hm
              rfl
            exact (ih _ ((h.ino i).2 (Or.inl hk))).2 j nm heq
          · cases heq; exact hn


theorem add_inv : ∀ (fuel : Nat) (fs : FS) (hl : HL) (name : Bytes) (ino : Inode) (u : Bool),
    Inv fs → Contained name → ((ino.kind = .sym ∨ ino.kind = .link) → Contained ino.link) →
    Inv (add fuel fs hl name ino u).1 := by
  intro fuel
  induction fuel with
  | zero => intro fs hl name ino u h _ _; simpa [add] using h
  | succ fuel ih =>
    intro fs hl name ino u h hn hlink
    have hag := again_name_contained fs h ino.kind fs.inodes.length name hn
    simp only [add]
    split
    · exact h
    · rename_i i nm heq
      exact h.setIno i _ ⟨hag.2 i nm heq, hlink⟩
    · rename_i nm heq
      have hnm := hag.1 nm heq
      have hmk : MkOK (fun f p => (add fuel f [] p (newDir p) false).1) :=
        fun f p hf hp => ih f [] p (newDir p) false hf hp (by simp [newDir])
      have h1 : Inv { lookup := alSet fs.lookup nm fs.inodes.length,
                      inodes := fs.inodes ++ [{ ino with name := nm }] } := by
        constructor
        · intro x hx
          rcases mem_alSet hx with rfl | hx
          · exact hnm
          · exact h.keys x hx
        · intro n hn'
          simp only [List.mem_append, List.mem_singleton] at hn'
          rcases hn' with hn' | rfl
          · exact h.inos n hn'
          · exact ⟨hnm, hlink⟩
      exact addEnt_inv _ hmk _ nm _ _ [] _ h1 (contained_dirOf hnm)

theorem prepMember_ok (fs : FS) (m : Member) (ino : Inode) (h : prepMember fs m = some ino) :
    Contained ino.name ∧ ((ino.kind = .sym ∨ ino.kind = .link) → Contained ino.link) := by
  unfold prepMember at h
  simp only at h
  split at h
  · split at h
    · cases h
    · cases h; exact ⟨contained_normPath _, by simp⟩
  · cases h
    refine ⟨contained_normPath _, fun _ => ?_⟩
    simp only [normLink]
    split
    · exact contained_normPath _
    · split <;> exact contained_normPath _
  · cases h
    refine ⟨contained_normPath _, fun _ => ?_⟩
    simp only [normLink]
    split
    · exact contained_normPath _
    · split <;> exact contained_normPath _
  · cases h; exact ⟨contained_normPath _, by simp⟩
  · cases h; exact ⟨contained_normPath _, by simp⟩

theorem dirOverLink_inv (fs : FS) (m : Member) (h : Inv fs) : Inv (dirOverLink fs m) := by
  unfold dirOverLink
  split
  · split
    · exact h.setIno _ _ ⟨contained_normPath _, by simp [dirInode]⟩
    · exact h
  · exact h

theorem addMembers_inv : ∀ (ms : List Member) (fs : FS) (hl : HL) (fs' : FS) (hl' : HL),
    Inv fs → addMembers fs hl ms = .ok (fs', hl') → Inv fs' := by
  intro ms
  induction ms with
  | nil => intro fs hl fs' hl' h heq; simp [addMembers] at heq; obtain ⟨rfl, _⟩ := heq; exact h
  | cons m ms ih =>
    intro fs hl fs' hl' h heq
    simp only [addMembers] at heq
    split at heq
    · exact ih _ _ _ _ (dirOverLink_inv fs m h) heq
    · rename_i ino hprep
      have hok := prepMember_ok fs m ino hprep
      have hadd := add_inv addFuel fs hl ino.name ino true h hok.1 hok.2
      split at heq
      · rename_i fs1 hl1 he
        rw [he] at hadd
        exact ih _ _ _ _ hadd heq
      · cases heq

theorem cleanupOne_inv (tgt : Bytes) (fs : FS) (rm : Bytes) (h : Inv fs) : Inv (cleanupOne tgt fs rm) := by
  unfold cleanupOne
  simp only
  split
  · exact h
  · apply Inv.unlinkChild
    exact ⟨fun x hx => h.keys x (mem_alDel hx), h.inos⟩

theorem cleanup_inv (hl : HL) : ∀ (fs : FS), Inv fs → Inv (cleanup fs hl) := by
  unfold cleanup
  induction hl with
  | nil => intro fs h; exact h
  | cons e rest ih =>
    intro fs h
    simp only [List.foldl_cons]
    apply ih
    generalize e.2 = rms
    induction rms generalizing fs with
    | nil => exact h
    | cons rm t ih2 => simp only [List.foldl_cons]; exact ih2 _ (cleanupOne_inv _ _ _ h)

theorem rootFS_inv : Inv rootFS :=
  ⟨by intro x hx; simp [rootFS] at hx; subst hx; exact contained_dot,
   by intro n hn; simp [rootFS] at hn; subst hn; exact inoOK_newDir contained_dot⟩

theorem newFS_inv (ms : List Member) (fs : FS) (h : newFS ms = .ok fs) : Inv fs := by
  unfold newFS at h
  split at h
  · rename_i fs' hl heq
    cases h
    exact cleanup_inv hl fs' (addMembers_inv ms rootFS [] fs' hl rootFS_inv heq)
  · cases h

theorem subFS_inv (fs : FS) (dir : Bytes) (fs' : FS) (h : Inv fs) (hs : subFS fs dir = .ok fs') : Inv fs' := by
  unfold subFS at hs
  split at hs
  · cases hs
  · cases hs
    constructor
    · intro x hx
      simp only [List.mem_filterMap] at hx
      obtain ⟨⟨k, i⟩, hki, hx⟩ := hx
      simp only at hx
      split at hx
      · cases hx; exact h.keys _ hki
      · split at hx
        · cases hx; exact contained_normPath _
        · cases hx
    · exact h.inos


end ClairModel.TarFS
