import ClairModel.Proofs.ArenaProxy

/-!
  Invariant of the proxy layer (the code as it is now): every handle in a cleanup list is
  held until its proxy closes it, a closure of a running call is never closed under it, no
  handle is dropped.  `FetchProxy.Close` therefore closes each of its handles exactly once
  and touches nobody else's.
-/
set_option linter.unusedSimpArgs false
namespace ClairModel.ArenaProxy
open ClairModel ClairModel.Arena ClairModel.ArenaFd

/-- The moves of a task's program counter that involve a handle: a handle is only given up
    by `close` of that very task, and a closed task stays closed. -/
def legal (op : Op) (t : Nat) : Pc → Pc → Prop
  | .holding _ _, .closed => op = .close t
  | .holding _ _, _ => False
  | .closed, _ => False
  | .failed, _ => False
  | _, .closed => False
  | _, _ => True

theorem set_task_cases {tasks : List Pc} {t t' : Nat} {p q : Pc} (hp : tasks[t]? = some p) :
    (tasks.set t' q)[t]? = some p ∨ (t' = t ∧ (tasks.set t' q)[t]? = some q) := by
  by_cases h : t' = t
  · subst h
    right
    have hlt : t' < tasks.length := by
      rcases Nat.lt_or_ge t' tasks.length with hl | hl
      · exact hl
      · rw [List.getElem?_eq_none hl] at hp; cases hp
    exact ⟨rfl, List.getElem?_set_self hlt⟩
  · left
    rw [List.getElem?_set_ne h]; exact hp

theorem step_task (s : Arena.State) (op : Op) (t : Nat) (p : Pc) (hp : s.tasks[t]? = some p) :
    ∃ p', (step s op).1.tasks[t]? = some p' ∧ (p' = p ∨ legal op t p p') := by
  have same : ∃ p', s.tasks[t]? = some p' ∧ (p' = p ∨ legal op t p p') := ⟨p, hp, Or.inl rfl⟩
  -- a task `t'` in state `q0` moves to `q`
  have move : ∀ (tasks' : List Pc) (t' : Nat) (q0 q : Pc), tasks' = s.tasks.set t' q → s.tasks[t']? = some q0 →
      (t' = t → legal op t q0 q) → ∃ p', tasks'[t]? = some p' ∧ (p' = p ∨ legal op t p p') := by
    intro tasks' t' q0 q he hq0 hl
    subst he
    rcases set_task_cases (t' := t') (q := q) hp with h | ⟨ht, h⟩
    · exact ⟨p, h, Or.inl rfl⟩
    · subst ht
      rw [hp] at hq0; cases hq0
      exact ⟨q, h, Or.inr (hl rfl)⟩
  cases op with
  | spawn k =>
    simp only [step, stepG]
    have hlt : t < s.tasks.length := by
      rcases Nat.lt_or_ge t s.tasks.length with hl | hl
      · exact hl
      · rw [List.getElem?_eq_none hl] at hp; cases hp
    exact ⟨p, by rw [List.getElem?_append_left hlt]; exact hp, Or.inl rfl⟩
  | enter t' =>
    simp only [step, stepG]
    split
    · rename_i k hq
      split
      · exact move _ t' _ _ rfl hq (by intro _; simp [legal])
      · exact move _ t' _ _ rfl hq (by intro _; simp [legal])
    · exact same
  | fload k v =>
    simp only [step, stepG]
    split
    · split
      · split
        · split <;> exact same
        · exact same
      · exact same
    · exact same
  | fnet k ok =>
    simp only [step, stepG]
    split
    · split
      · split
        · exact same
        · split <;> exact same
      · exact same
    · exact same
  | freq k =>
    simp only [step, stepG]
    split
    · split
      · split <;> exact same
      · exact same
    · exact same
  | fbody k ok =>
    simp only [step, stepG]
    split
    · split
      · split
        · exact same
        · split <;> exact same
      · exact same
    · exact same
  | fstore k =>
    simp only [step, stepG]
    split
    · split
      · split <;> exact same
      · exact same
    · exact same
  | fend k =>
    simp only [step, stepG]
    split
    · split
      · rename_i res hres
        refine ⟨deliver k res p, by simp [List.getElem?_map, hp], ?_⟩
        unfold deliver
        split
        · rename_i hw; subst hw; right; cases res <;> simp [legal]
        · exact Or.inl rfl
      · exact same
    · exact same
  | cancel t' =>
    simp only [step, stepG]
    split
    · rename_i k hq
      split
      · split
        · exact move _ t' _ _ rfl hq (by intro _; simp [legal])
        · exact move _ t' _ _ rfl hq (by intro _; simp [legal])
      · exact move _ t' _ _ rfl hq (by intro _; simp [legal])
    · exact same
    · exact same
    · exact same
  | ref t' =>
    simp only [step, stepG]
    split
    · rename_i k r hq
      exact move _ t' _ _ rfl hq (by intro _; simp [legal])
    · exact same
  | val t' =>
    simp only [step, stepG]
    split
    · rename_i k r hq
      split
      · exact move _ t' _ _ rfl hq (by intro _; simp [legal])
      · exact move _ t' _ _ rfl hq (by intro _; simp [legal])
    · exact same
  | retry t' =>
    simp only [step, stepG]
    split
    · rename_i k r hq
      simp only [if_true]
      exact move _ t' _ (.ready k) (by simp [setTask, dec_tasks]) hq (by intro _; simp [legal])
    · exact same
  | init t' ok =>
    simp only [step, stepG]
    split
    · rename_i k r hq
      split
      · exact move _ t' _ _ rfl hq (by intro _; simp [legal])
      · exact move _ t' _ .failed (by simp [setTask, dec_tasks]) hq (by intro _; simp [legal])
    · exact same
  | close t' =>
    simp only [step, stepG]
    split
    · rename_i k r hq
      exact move _ t' _ .closed (by simp [setTask, dec_tasks]) hq (by intro he; subst he; simp [legal])
    · exact same
  | finalize i =>
    simp only [step, stepG]
    split
    · simp only [dec_tasks]; exact same
    · exact same
  | query k => exact same
  | aclose => exact same
  | ftmpfail k =>
    simp only [step, stepG]
    split
    · split <;> exact same
    · exact same


theorem isHolding_iff {a : Arena.State} {t : Nat} : isHolding a t = true ↔ ∃ k r, a.tasks[t]? = some (.holding k r) := by
  simp only [isHolding]
  split
  · rename_i k r h; simp [h]
  · rename_i h
    simp only [Bool.false_eq_true, false_iff]
    rintro ⟨k, r, hk⟩
    exact h k r hk

theorem holding_keeps {s : Arena.State} {op : Op} {t : Nat} (h : isHolding s t = true) (hop : op ≠ .close t) :
    isHolding (step s op).1 t = true := by
  obtain ⟨k, r, hk⟩ := isHolding_iff.1 h
  obtain ⟨p', hp', hl⟩ := step_task s op t _ hk
  rcases hl with rfl | hl
  · exact isHolding_iff.2 ⟨k, r, hp'⟩
  · cases p' <;> simp [legal] at hl
    exact absurd hl hop

theorem closed_keeps {s : Arena.State} {op : Op} {t : Nat} (h : s.tasks[t]? = some .closed) :
    (step s op).1.tasks[t]? = some .closed := by
  obtain ⟨p', hp', hl⟩ := step_task s op t _ h
  rcases hl with rfl | hl
  · exact hp'
  · simp [legal] at hl

theorem failed_keeps {s : Arena.State} {op : Op} {t : Nat} (h : s.tasks[t]? = some .failed) :
    (step s op).1.tasks[t]? = some .failed := by
  obtain ⟨p', hp', hl⟩ := step_task s op t _ h
  rcases hl with rfl | hl
  · exact hp'
  · simp [legal] at hl

/-- The closure has returned an error, or its handle has been closed. -/
def isOver (a : Arena.State) (t : Nat) : Prop := a.tasks[t]? = some .failed ∨ a.tasks[t]? = some .closed

theorem over_keeps {s : Arena.State} {op : Op} {t : Nat} (h : isOver s t) : isOver (step s op).1 t := by
  rcases h with h | h
  · exact Or.inl (failed_keeps h)
  · exact Or.inr (closed_keeps h)

theorem notclosed_keeps {s : Arena.State} {op : Op} {t : Nat} (hlt : t < s.tasks.length)
    (h : s.tasks[t]? ≠ some .closed) (hop : op ≠ .close t) :
    t < (step s op).1.tasks.length ∧ (step s op).1.tasks[t]? ≠ some .closed := by
  have hp : s.tasks[t]? = some s.tasks[t] := List.getElem?_eq_getElem hlt
  obtain ⟨p', hp', hl⟩ := step_task s op t _ hp
  have hlt' : t < (step s op).1.tasks.length := by
    rcases Nat.lt_or_ge t (step s op).1.tasks.length with hl' | hl'
    · exact hl'
    · rw [List.getElem?_eq_none hl'] at hp'; cases hp'
  refine ⟨hlt', ?_⟩
  rw [hp']
  rcases hl with rfl | hl
  · rw [← hp]; exact h
  · intro he
    cases he
    generalize s.tasks[t] = q at hl hp
    cases q <;> simp [legal] at hl
    exact hop hl

theorem fstep_a (f : FState) (op : Op) : (fstep f (.base op)).1.a = (step f.a op).1 := (fstep_base f op).1

theorem runBase_holding (ops : List Op) : ∀ (f : FState) (t : Nat), isHolding f.a t = true →
    (∀ op ∈ ops, op ≠ .close t) → isHolding (runBase f ops).a t = true := by
  induction ops with
  | nil => intro f t h _; exact h
  | cons op ops ih =>
    intro f t h hops
    simp only [runBase, List.foldl_cons] at ih ⊢
    apply ih
    · rw [fstep_a]; exact holding_keeps h (hops op List.mem_cons_self)
    · exact fun o ho => hops o (List.mem_cons_of_mem _ ho)

theorem runBase_notclosed (ops : List Op) : ∀ (f : FState) (t : Nat), t < f.a.tasks.length →
    f.a.tasks[t]? ≠ some .closed → (∀ op ∈ ops, op ≠ .close t) →
    t < (runBase f ops).a.tasks.length ∧ (runBase f ops).a.tasks[t]? ≠ some .closed := by
  induction ops with
  | nil => intro f t h1 h2 _; exact ⟨h1, h2⟩
  | cons op ops ih =>
    intro f t h1 h2 hops
    simp only [runBase, List.foldl_cons] at ih ⊢
    have := notclosed_keeps (op := op) h1 h2 (hops op List.mem_cons_self)
    apply ih
    · rw [fstep_a]; exact this.1
    · rw [fstep_a]; exact this.2
    · exact fun o ho => hops o (List.mem_cons_of_mem _ ho)

theorem runBase_closed_keeps (ops : List Op) : ∀ (f : FState) (t : Nat), f.a.tasks[t]? = some .closed →
    (runBase f ops).a.tasks[t]? = some .closed := by
  induction ops with
  | nil => intro f t h; exact h
  | cons op ops ih =>
    intro f t h
    simp only [runBase, List.foldl_cons] at ih ⊢
    apply ih
    rw [fstep_a]; exact closed_keeps h

theorem runBase_over_keeps (ops : List Op) : ∀ (f : FState) (t : Nat), isOver f.a t → isOver (runBase f ops).a t := by
  induction ops with
  | nil => intro f t h; exact h
  | cons op ops ih =>
    intro f t h
    simp only [runBase, List.foldl_cons] at ih ⊢
    apply ih
    rw [fstep_a]; exact over_keeps h

/-- Closing a list of handles: each of them that was held is closed afterwards. -/
theorem runBase_closes (ts : List Nat) : ∀ (f : FState) (t : Nat), t ∈ ts → isHolding f.a t = true →
    (runBase f (ts.map .close)).a.tasks[t]? = some .closed := by
  induction ts with
  | nil => intro f t h _; cases h
  | cons t0 ts ih =>
    intro f t hm hh
    simp only [List.map_cons, runBase, List.foldl_cons] at ih ⊢
    by_cases he : t0 = t
    · subst he
      apply runBase_closed_keeps
      rw [fstep_a]
      obtain ⟨k, r, hk⟩ := isHolding_iff.1 hh
      simp [step, stepG, hk, setTask, dec_tasks]
      have hlt : t0 < f.a.tasks.length := by
        rcases Nat.lt_or_ge t0 f.a.tasks.length with hl | hl
        · exact hl
        · rw [List.getElem?_eq_none hl] at hk; cases hk
      exact List.getElem?_set_self hlt
    · rcases List.mem_cons.1 hm with rfl | hm'
      · exact absurd rfl he
      · apply ih _ _ hm'
        rw [fstep_a]
        exact holding_keeps hh (by intro hc; cases hc; exact he rfl)

/-- ... and no other task is touched. -/
theorem runBase_close_frame (ts : List Nat) : ∀ (f : FState) (t : Nat), t ∉ ts →
    (runBase f (ts.map .close)).a.tasks[t]? = f.a.tasks[t]? := by
  induction ts with
  | nil => intro f t _; rfl
  | cons t0 ts ih =>
    intro f t hm
    simp only [List.map_cons, runBase, List.foldl_cons] at ih ⊢
    have h0 : t ≠ t0 := fun he => hm (he ▸ List.mem_cons_self)
    rw [ih _ _ (fun hh => hm (List.mem_cons_of_mem _ hh)), fstep_a]
    exact close_other_task f.a t0 t h0

theorem mem_tasksOf {s : PState} {p t : Nat} {ro : Role} :
    t ∈ tasksOf s p ro ↔ t < s.f.a.tasks.length ∧ s.own t = some (p, ro) := by
  simp [tasksOf]


/-! ### the invariant of the proxy layer (code as it is now) -/

structure PInv (s : PState) : Prop where
  finv : FInv s.f
  /-- every handle in a cleanup list is held: nobody but its proxy closes it -/
  cleanupHolding : ∀ t p, s.own t = some (p, .cleanup) → isHolding s.f.a t = true
  callBound : ∀ t p, s.own t = some (p, .call) → t < s.f.a.tasks.length
  /-- a closure of a running call has not been closed -/
  callNotClosed : ∀ t p, s.own t = some (p, .call) → s.f.a.tasks[t]? ≠ some .closed
  /-- no handle is ever dropped from a cleanup list without being closed -/
  noLost : s.lost = []
  /-- a closure a proxy started and no longer owns has returned an error or was closed -/
  released : ∀ t, s.wasOwned t = true → s.own t = none → isOver s.f.a t

theorem pinv_init : PInv pinit := by
  refine ⟨finv_init, ?_, ?_, ?_, rfl, ?_⟩
  · intro t p h; simp [pinit] at h
  · intro t p h; simp [pinit] at h
  · intro t p h; simp [pinit] at h
  · intro t h; simp [pinit] at h

/-- The proxies are not part of the invariant's statement. -/
theorem pinv_px {s : PState} (h : PInv s) (px : List Proxy) : PInv { s with px := px } :=
  ⟨h.finv, h.cleanupHolding, h.callBound, h.callNotClosed, h.noLost, h.released⟩

/-- Arena transitions that close no handle of a proxy. -/
theorem pinv_runBase {s : PState} (h : PInv s) (ops : List Op)
    (hops : ∀ op ∈ ops, ∀ t, op = .close t → s.own t = none) :
    PInv { s with f := runBase s.f ops } := by
  have hne : ∀ t x, s.own t = some x → ∀ op ∈ ops, op ≠ .close t := by
    intro t x hx op ho he
    rw [hops op ho t he] at hx; cases hx
  refine ⟨(runBase_reach ops s.f).finv h.finv, ?_, ?_, ?_, h.noLost, ?_⟩
  · intro t p ht
    exact runBase_holding ops s.f t (h.cleanupHolding t p ht) (hne t _ ht)
  · intro t p ht
    exact (runBase_notclosed ops s.f t (h.callBound t p ht) (h.callNotClosed t p ht) (hne t _ ht)).1
  · intro t p ht
    exact (runBase_notclosed ops s.f t (h.callBound t p ht) (h.callNotClosed t p ht) (hne t _ ht)).2
  · intro t hw ho
    exact runBase_over_keeps ops s.f t (h.released t hw ho)

theorem pinv_refill (p : Nat) : ∀ (n : Nat) (s : PState) (c : Call), PInv s → PInv (refill s p c n).1 := by
  intro n
  induction n with
  | zero => intro s c h; exact h
  | succ n ih =>
    intro s c h
    simp only [refill]
    split
    · rename_i k hk
      split
      · apply ih
        have ha : (fstep s.f (.base (.spawn k))).1.a = (step s.f.a (.spawn k)).1 := fstep_a _ _
        have hlen : (fstep s.f (.base (.spawn k))).1.a.tasks = s.f.a.tasks ++ [.ready k] := by
          rw [ha]; rfl
        have hold : ∀ t, t < s.f.a.tasks.length →
            (fstep s.f (.base (.spawn k))).1.a.tasks[t]? = s.f.a.tasks[t]? := by
          intro t hlt; rw [hlen, List.getElem?_append_left hlt]
        refine ⟨finv_step h.finv _, ?_, ?_, ?_, h.noLost, ?_⟩
        rotate_right
        · intro t hw ho
          by_cases he : t = s.f.a.tasks.length
          · subst he; simp at ho
          · simp only [upd_other _ _ _ _ he] at hw ho
            show isOver (fstep s.f (.base (.spawn k))).1.a t
            rw [ha]
            exact over_keeps (h.released t hw ho)
        · intro t q ht
          by_cases he : t = s.f.a.tasks.length
          · subst he; simp at ht
          · simp only [upd_other _ _ _ _ he] at ht
            have := h.cleanupHolding t q ht
            rw [ha]
            exact holding_keeps this (by simp)
        · intro t q ht
          show t < (fstep s.f (.base (.spawn k))).1.a.tasks.length
          rw [hlen]
          by_cases he : t = s.f.a.tasks.length
          · subst he; simp
          · simp only [upd_other _ _ _ _ he] at ht
            have := h.callBound t q ht
            simp; omega
        · intro t q ht
          show (fstep s.f (.base (.spawn k))).1.a.tasks[t]? ≠ some .closed
          by_cases he : t = s.f.a.tasks.length
          · subst he; rw [hlen]; simp
          · simp only [upd_other _ _ _ _ he] at ht
            rw [hold t (h.callBound t q ht)]
            exact h.callNotClosed t q ht
      · exact h
    · exact h

theorem pinv_settleCall {s : PState} (h : PInv s) (p : Nat) (c : Call) : PInv (settleCall s p c).1 := by
  simp only [settleCall]
  apply pinv_refill
  split
  · exact pinv_runBase h _ (by
      intro op ho t he
      obtain ⟨t', _, rfl⟩ := List.mem_map.1 ho
      cases he)
  · exact h

theorem relabel_eq {own : Nat → Option (Nat × Role)} {p : Nat} {ro : Role} {to : Option (Nat × Role)}
    {t : Nat} {x : Nat × Role} (h : relabel own p ro to t = some x) :
    (own t = some (p, ro) ∧ to = some x) ∨ (own t ≠ some (p, ro) ∧ own t = some x) := by
  simp only [relabel] at h
  split at h
  · rename_i ho; exact Or.inl ⟨ho, h⟩
  · rename_i ho; exact Or.inr ⟨ho, h⟩

/-- A proxy closes handles that are its own (`ro` to it) and gives all of those up. -/
theorem pinv_closeRole {s : PState} (h : PInv s) (p : Nat) (ro : Role) (ts : List Nat)
    (hts : ∀ t ∈ ts, s.own t = some (p, ro))
    (hover : ∀ t, s.own t = some (p, ro) → isOver (runBase s.f (ts.map .close)).a t) :
    PInv { s with f := runBase s.f (ts.map .close), own := relabel s.own p ro none } := by
  have hne : ∀ t x, relabel s.own p ro none t = some x → s.own t = some x ∧ ∀ op ∈ ts.map Op.close, op ≠ .close t := by
    intro t x hx
    rcases relabel_eq hx with ⟨_, hto⟩ | ⟨hn, ho⟩
    · cases hto
    · refine ⟨ho, ?_⟩
      intro op hop he
      obtain ⟨t', ht', rfl⟩ := List.mem_map.1 hop
      cases he
      exact hn (hts t ht')
  refine ⟨(runBase_reach _ s.f).finv h.finv, ?_, ?_, ?_, h.noLost, ?_⟩
  rotate_right
  · intro t hw ho
    simp only [relabel] at ho
    split at ho
    · rename_i hro
      exact hover t hro
    · exact runBase_over_keeps _ s.f t (h.released t hw ho)
  · intro t q ht
    obtain ⟨ho, hn⟩ := hne t _ ht
    exact runBase_holding _ s.f t (h.cleanupHolding t q ho) hn
  · intro t q ht
    obtain ⟨ho, hn⟩ := hne t _ ht
    exact (runBase_notclosed _ s.f t (h.callBound t q ho) (h.callNotClosed t q ho) hn).1
  · intro t q ht
    obtain ⟨ho, hn⟩ := hne t _ ht
    exact (runBase_notclosed _ s.f t (h.callBound t q ho) (h.callNotClosed t q ho) hn).2

theorem pinv_finishCall {s : PState} (h : PInv s) (p : Nat) (c : Call) : PInv (finishCall true s p c).1 := by
  simp only [finishCall]
  split
  · rename_i hfin
    split
    · -- a closure failed: the handles of the others are closed, the call is over
      refine pinv_closeRole h p .call ((tasksOf s p .call).filter (isHolding s.f.a)) (by
        intro t ht
        exact (mem_tasksOf.1 (List.mem_filter.1 ht).1).2) ?_
      intro t ht
      have hm : t ∈ tasksOf s p .call := mem_tasksOf.2 ⟨h.callBound t p ht, ht⟩
      have hd := List.all_eq_true.1 hfin.2 t hm
      cases hh : isHolding s.f.a t with
      | true => exact Or.inr (runBase_closes _ s.f t (List.mem_filter.2 ⟨hm, hh⟩) hh)
      | false =>
        apply runBase_over_keeps
        simp only [isDone, isHolding, isOver] at hd hh ⊢
        split at hd <;> simp_all
    · rename_i hnf
      simp only [if_true]
      refine ⟨h.finv, ?_, ?_, ?_, h.noLost, ?_⟩
      rotate_right
      · intro t hw ho
        simp only [relabel] at ho
        split at ho
        · cases ho
        · exact h.released t hw ho
      · intro t q ht
        rcases relabel_eq ht with ⟨ho, hto⟩ | ⟨_, ho⟩
        · have hlt := h.callBound t p ho
          have hm : t ∈ tasksOf s p .call := mem_tasksOf.2 ⟨hlt, ho⟩
          have hd := List.all_eq_true.1 hfin.2 t hm
          have hf : isFailed s.f.a t = false := by
            cases hb : isFailed s.f.a t with
            | false => rfl
            | true => exact absurd (List.any_eq_true.2 ⟨t, hm, hb⟩) hnf
          have hnc := h.callNotClosed t p ho
          simp only [isDone, isFailed, isHolding] at hd hf ⊢
          split at hd <;> simp_all
        · exact h.cleanupHolding t q ho
      · intro t q ht
        rcases relabel_eq ht with ⟨_, hto⟩ | ⟨_, ho⟩
        · cases hto
        · exact h.callBound t q ho
      · intro t q ht
        rcases relabel_eq ht with ⟨_, hto⟩ | ⟨_, ho⟩
        · cases hto
        · exact h.callNotClosed t q ho
  · exact h

theorem pinv_settleProxy {s : PState} (h : PInv s) (i : Nat) : PInv (settleProxy true s i) := by
  simp only [settleProxy]
  split
  · split
    · exact pinv_px (pinv_finishCall (pinv_settleCall h _ _) _ _) _
    · exact h
  · exact h

theorem pinv_settleAll {s : PState} (h : PInv s) : PInv (settleAll true s) := by
  simp only [settleAll]
  generalize List.range s.px.length = is
  induction is generalizing s with
  | nil => exact h
  | cons i is ih => simp only [List.foldl_cons]; exact ih (pinv_settleProxy h i)

/-- Every transition of the proxy machine (the code as it is now) preserves the invariant. -/
theorem pinv_step {s : PState} (h : PInv s) (op : POp) : PInv (pstep s op).1 := by
  cases op with
  | base op =>
    simp only [pstep, pstepG]
    split
    · exact h
    · rename_i hres
      apply pinv_settleAll
      cases op with
      | extOpen => exact ⟨finv_step h.finv _, h.cleanupHolding, h.callBound, h.callNotClosed, h.noLost, h.released⟩
      | extClose n =>
        have ha : (fstep s.f (.extClose n)).1.a = s.f.a := by
          simp only [fstep, fstepG]; split <;> rfl
        refine ⟨finv_step h.finv _, ?_, ?_, ?_, h.noLost, ?_⟩
        rotate_right
        · intro t hw ho; show isOver (fstep s.f (.extClose n)).1.a t; rw [ha]; exact h.released t hw ho
        · intro t p ht; show isHolding (fstep s.f (.extClose n)).1.a t = true; rw [ha]; exact h.cleanupHolding t p ht
        · intro t p ht; show t < (fstep s.f (.extClose n)).1.a.tasks.length; rw [ha]; exact h.callBound t p ht
        · intro t p ht; show (fstep s.f (.extClose n)).1.a.tasks[t]? ≠ _; rw [ha]; exact h.callNotClosed t p ht
      | base aop =>
        have hne : ∀ t x, s.own t = some x → aop ≠ .close t := by
          intro t x hx he
          subst he
          simp [reserved, owned, hx] at hres
        refine ⟨finv_step h.finv _, ?_, ?_, ?_, h.noLost, ?_⟩
        rotate_right
        · intro t hw ho
          show isOver (fstep s.f (.base aop)).1.a t
          rw [fstep_a]; exact over_keeps (h.released t hw ho)
        · intro t p ht
          show isHolding (fstep s.f (.base aop)).1.a t = true
          rw [fstep_a]; exact holding_keeps (h.cleanupHolding t p ht) (hne t _ ht)
        · intro t p ht
          show t < (fstep s.f (.base aop)).1.a.tasks.length
          rw [fstep_a]; exact (notclosed_keeps (h.callBound t p ht) (h.callNotClosed t p ht) (hne t _ ht)).1
        · intro t p ht
          show (fstep s.f (.base aop)).1.a.tasks[t]? ≠ _
          rw [fstep_a]; exact (notclosed_keeps (h.callBound t p ht) (h.callNotClosed t p ht) (hne t _ ht)).2
  | pnew => exact pinv_px h _
  | realize p limit ks =>
    simp only [pstep, pstepG]
    split
    · split
      · exact h
      · exact pinv_settleAll (pinv_px h _)
    · exact h
  | pcancel p =>
    simp only [pstep, pstepG]
    split
    · split
      · exact pinv_settleAll (pinv_px h _)
      · exact h
    · exact h
  | pclose p =>
    simp only [pstep, pstepG]
    split
    · split
      · exact h
      · split
        · simp only [if_true]
          refine pinv_closeRole h p .cleanup (tasksOf s p .cleanup) (fun t ht => (mem_tasksOf.1 ht).2) ?_
          intro t ht
          have hh := h.cleanupHolding t p ht
          have hlt : t < s.f.a.tasks.length := by
            obtain ⟨k, r, hk⟩ := isHolding_iff.1 hh
            rcases Nat.lt_or_ge t s.f.a.tasks.length with hl | hl
            · exact hl
            · rw [List.getElem?_eq_none hl] at hk; cases hk
          exact Or.inr (runBase_closes _ s.f t (mem_tasksOf.2 ⟨hlt, ht⟩) hh)
        · exact h
    · exact h

theorem preachable_pinv (ops : List POp) : PInv (Sm.run pstep pinit ops) :=
  Sm.invariant_run (Inv := PInv) (fun _ op h => pinv_step h op) ops pinit pinv_init

/-! ### what FetchProxy.Close does -/

/-- `p.Close()` never runs into a handle that is already closed ("Layer closed twice"), closes
    every handle of the proxy, gives all of them up, and touches no other task. -/
theorem pclose_facts {s : PState} (h : PInv s) (p : Nat) (q : Proxy) (hq : s.px[p]? = some q)
    (hc : q.call = none) :
    (pstep s (.pclose p)).2 = .closed (tasksOf s p .cleanup).length ∧
    (∀ t, s.own t = some (p, .cleanup) → (pstep s (.pclose p)).1.f.a.tasks[t]? = some .closed) ∧
    (∀ t, (pstep s (.pclose p)).1.own t ≠ some (p, .cleanup)) ∧
    (∀ t, s.own t ≠ some (p, .cleanup) →
      (pstep s (.pclose p)).1.f.a.tasks[t]? = s.f.a.tasks[t]? ∧ (pstep s (.pclose p)).1.own t = s.own t) := by
  have hall : (tasksOf s p .cleanup).all (isHolding s.f.a) = true := by
    apply List.all_eq_true.2
    intro t ht
    exact h.cleanupHolding t p (mem_tasksOf.1 ht).2
  simp only [pstep, pstepG, hq, hc, hall, Option.isSome_none, Bool.false_eq_true, if_false, if_true]
  refine ⟨trivial, ?_, ?_, ?_⟩
  · intro t ht
    have hh := h.cleanupHolding t p ht
    have hlt : t < s.f.a.tasks.length := by
      obtain ⟨k, r, hk⟩ := isHolding_iff.1 hh
      rcases Nat.lt_or_ge t s.f.a.tasks.length with hl | hl
      · exact hl
      · rw [List.getElem?_eq_none hl] at hk; cases hk
    exact runBase_closes _ s.f t (mem_tasksOf.2 ⟨hlt, ht⟩) hh
  · intro t ht
    rcases relabel_eq ht with ⟨_, hto⟩ | ⟨hn, ho⟩
    · cases hto
    · exact hn ho
  · intro t ht
    refine ⟨runBase_close_frame _ s.f t (fun hm => ht (mem_tasksOf.1 hm).2), ?_⟩
    simp [relabel, ht]


/-- When a RealizeDescriptions call ends in an error, none of its closures keeps a handle. -/
theorem failed_call_keeps_no_handle {s : PState} (h : PInv s) (p : Nat) (c : Call)
    (hfin : c.started = c.descs.length ∧ (tasksOf s p .call).all (isDone s.f.a) = true)
    (hfail : (tasksOf s p .call).any (isFailed s.f.a) = true) (t : Nat) (ht : s.own t = some (p, .call)) :
    (finishCall true s p c).2 = none ∧ isHolding (finishCall true s p c).1.f.a t = false ∧
      (finishCall true s p c).1.own t = none := by
  simp only [finishCall, hfin, hfail, and_self, if_true]
  refine ⟨trivial, ?_, by simp [relabel, ht]⟩
  have hm : t ∈ tasksOf s p .call := mem_tasksOf.2 ⟨h.callBound t p ht, ht⟩
  cases hh : isHolding s.f.a t with
  | true =>
    have := runBase_closes ((tasksOf s p .call).filter (isHolding s.f.a)) s.f t
      (List.mem_filter.2 ⟨hm, hh⟩) hh
    simp [isHolding, this]
  | false =>
    have := runBase_close_frame ((tasksOf s p .call).filter (isHolding s.f.a)) s.f t
      (by intro hmem; rw [(List.mem_filter.1 hmem).2] at hh; cases hh)
    simp only [isHolding] at hh ⊢
    rw [this]; exact hh

end ClairModel.ArenaProxy
