/-
  C18 — `fromCVSS2` reads only the base metrics of a printed v2 vector.
-/
import ClairModel.Proofs.CvssOsv
import ClairModel.Proofs.CvssPrint2
import ClairModel.Proofs.CvssV2
namespace ClairModel.Cvss
open ClairModel.Gen.Cvss ClairModel.CvssSpec

/-! ### `fromCVSS2` reads only the base metrics of a printed vector -/

theorem osv2_ignored_names : ∀ m, 6 ≤ m → m < 14 →
    lookupBytes osv2Weights (nameOf v2Names m) = none ∧ osv2Ignored.contains (nameOf v2Names m) = true ∧
    cColon ∉ nameOf v2Names m := by
  intro m h1 h2
  have : m = 6 ∨ m = 7 ∨ m = 8 ∨ m = 9 ∨ m = 10 ∨ m = 11 ∨ m = 12 ∨ m = 13 := by omega
  rcases this with rfl | rfl | rfl | rfl | rfl | rfl | rfl | rfl <;> decide

theorem osvFill2_ignored (v : Vec) : ∀ (ms : List Nat) (ns : List Int), (∀ m ∈ ms, 6 ≤ m ∧ m < 14) →
    osvFill osv2Weights osv2Ignored (ms.map fun m => piece2 m (v.get m)) ns = some ns
  | [], ns, _ => rfl
  | m :: ms, ns, h => by
    have hm := h m (by simp)
    have ih := osvFill2_ignored v ms ns (fun x hx => h x (List.mem_cons_of_mem _ hx))
    obtain ⟨f1, f2, f3⟩ := osv2_ignored_names m hm.1 hm.2
    have hc : cut cColon (piece2 m (v.get m)) = some (nameOf v2Names m, v2Unparse m (v.get m)) := cut_name cColon _ _ f3
    simp only [List.map_cons, osvFill, hc, f1, f2, if_true]
    exact ih

/-- the base part of a v2 vector -/
def baseOf2 (v : Vec) : Vec := mk2 (v.get 0) (v.get 1) (v.get 2) (v.get 3) (v.get 4) (v.get 5)

theorem baseOf2_get (v : Vec) : ∀ m ∈ v2BaseIdx, (baseOf2 v).get m = v.get m := by
  intro m hm
  have : m = 0 ∨ m = 1 ∨ m = 2 ∨ m = 3 ∨ m = 4 ∨ m = 5 := by
    have : ∀ x ∈ v2BaseIdx, x < 6 := by decide
    have := this m hm; omega
  rcases this with rfl | rfl | rfl | rfl | rfl | rfl <;> rfl

theorem baseOf2_valid (v : Vec) (hv : Valid2 v) : Valid2 (baseOf2 v) := by
  have inB : ∀ m < 6, m ∈ v2BaseIdx := by decide
  refine ⟨rfl, rfl, ?_, Or.inl ?_, Or.inl ?_⟩
  · intro m hm
    rw [baseOf2_get v m (inB m hm)]
    exact hv.base m hm
  · intro m h1 h2
    have : m = 6 ∨ m = 7 ∨ m = 8 := by omega
    rcases this with rfl | rfl | rfl <;> rfl
  · intro m h1 h2
    have : m = 9 ∨ m = 10 ∨ m = 11 ∨ m = 12 ∨ m = 13 := by omega
    rcases this with rfl | rfl | rfl | rfl | rfl <;> rfl

theorem osv2Score_print2 (v : Vec) (hv : Valid2 v) :
    osv2Score (print2 v) =
      match osvFill osv2Weights osv2Ignored (v2BaseIdx.map fun m => piece2 m (v.get m)) (List.replicate 6 0) with
      | none => none
      | some ns => some (osv2Core ns) := by
  obtain ⟨_, hmem, _, _⟩ := idx2_facts v hv
  have hne : ((idx2 v).map fun m => piece2 m (v.get m)) ≠ [] := by simp [idx2, v2BaseIdx]
  have hsep : ∀ p ∈ (idx2 v).map (fun m => piece2 m (v.get m)), cSlash ∉ p := by
    intro p hp
    obtain ⟨m, hm, rfl⟩ := List.mem_map.1 hp
    obtain ⟨hm14, hb⟩ := hmem m hm
    have f := (pk2_facts m hm14 _ hb).2.1
    have g := v2_names_facts m hm14
    intro hin
    simp only [piece2, List.mem_append, List.mem_cons] at hin
    rcases hin with hin | hin | hin
    · exact g hin
    · exact absurd hin (by decide)
    · exact f hin
  have hrest : ∀ m ∈ (if v.get 6 = 0 then [] else v2TemporalIdx) ++ (if v.get 9 = 0 then [] else v2EnvIdx),
      6 ≤ m ∧ m < 14 := by
    have hT : ∀ m ∈ v2TemporalIdx, 6 ≤ m ∧ m < 14 := by decide
    have hE : ∀ m ∈ v2EnvIdx, 6 ≤ m ∧ m < 14 := by decide
    intro m hm
    rcases List.mem_append.1 hm with h | h
    · split at h
      · simp at h
      · exact hT m h
    · split at h
      · simp at h
      · exact hE m h
  have hcount : ¬ ((idx2 v).map fun m => piece2 m (v.get m)).length < 6 := by
    simp [idx2, v2BaseIdx]
  rw [print2_shape v hv, osv2Score]
  rw [splitOn_joinLead_drop cSlash _ hsep hne]
  simp only [hcount, if_false]
  rw [idx2, List.map_append, osvFill_append]
  cases hA : osvFill osv2Weights osv2Ignored (v2BaseIdx.map fun m => piece2 m (v.get m)) (List.replicate 6 0) with
  | none => rfl
  | some ns =>
    simp only [Option.bind_some]
    rw [osvFill2_ignored v _ ns hrest]

/-- `fromCVSS2` ignores temporal and environmental metrics -/
theorem osv2_print2_base (v : Vec) (hv : Valid2 v) : osv2 (print2 v) = osv2 (print2 (baseOf2 v)) := by
  unfold osv2
  rw [osv2Score_print2 v hv, osv2Score_print2 (baseOf2 v) (baseOf2_valid v hv)]
  have : (v2BaseIdx.map fun m => piece2 m ((baseOf2 v).get m)) = v2BaseIdx.map fun m => piece2 m (v.get m) := by
    apply List.map_congr_left
    intro m hm
    rw [baseOf2_get v m hm]
  rw [this]

end ClairModel.Cvss
