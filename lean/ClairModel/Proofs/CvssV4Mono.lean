/-
  C18 — `V4.macrovector()` is monotone in severity: making any metric the score
  depends on more severe never moves an equivalence class to a higher (less
  severe) level.  The six level functions are small finite functions of the
  effective metric bytes; each is checked on its complete domain.
-/
import ClairModel.Proofs.CvssV4Tab
import ClairModel.Proofs.CvssPrint4
namespace ClairModel.Cvss
open ClairModel.Gen.Cvss ClairModel.CvssSpec

/-! ### the levels of `macrovector()` as functions of the effective metric bytes -/

def eq1f (av pr ui : Nat) : Nat :=
  if av = cN ∧ pr = cN ∧ ui = cN then 0 else if (av = cN ∨ pr = cN ∨ ui = cN) ∧ av ≠ cP then 1 else 2
def eq2f (ac at' : Nat) : Nat := if ac = cL ∧ at' = cN then 0 else 1
def eq3f (vc vi va : Nat) : Nat := if vc = cH ∧ vi = cH then 0 else if vc = cH ∨ vi = cH ∨ va = cH then 1 else 2
def eq4f (safety : Bool) (sc si sa : Nat) : Nat :=
  if safety = true then 0 else if sc = cH ∨ si = cH ∨ sa = cH then 1 else 2
def eq5f (e : Nat) : Nat := if e = cA ∨ e = cX then 0 else if e = cP then 1 else 2
def eq6f (cr ir ar vc vi va : Nat) : Nat :=
  if (cr = cH ∧ vc = cH) ∨ (ir = cH ∧ vi = cH) ∨ (ar = cH ∧ va = cH) then 0 else 1

def v4Safety (v : Vec) : Bool := decide (v4ScoreByte v 24 = cS ∨ v4ScoreByte v 25 = cS)

theorem v4Macro_eq (v : Vec) :
    v4Macro v = [eq1f (v4ScoreByte v 0) (v4ScoreByte v 3) (v4ScoreByte v 4), eq2f (v4ScoreByte v 1) (v4ScoreByte v 2),
      eq3f (v4ScoreByte v 5) (v4ScoreByte v 6) (v4ScoreByte v 7),
      eq4f (v4Safety v) (v4ScoreByte v 8) (v4ScoreByte v 9) (v4ScoreByte v 10), eq5f (v4ScoreByte v 11),
      eq6f (v4ScoreByte v 12) (v4ScoreByte v 13) (v4ScoreByte v 14) (v4ScoreByte v 5) (v4ScoreByte v 6) (v4ScoreByte v 7)] := by
  simp only [v4Macro, eq1f, eq2f, eq3f, eq4f, eq5f, eq6f, v4Safety, decide_eq_true_eq]

/-- the values of the fifteen metrics the score depends on, from the most to the
    least severe (specification section 2; for E and CR / IR / AR the value
    Not Defined has already been replaced by the most severe one) -/
def sevOrder : List (List Nat) := [
  [cN, cA, cL, cP], [cL, cH], [cN, cP], [cN, cL, cH], [cN, cP, cA],
  [cH, cL, cN], [cH, cL, cN], [cH, cL, cN], [cH, cL, cN], [cH, cL, cN], [cH, cL, cN],
  [cA, cP, cU], [cH, cM, cL], [cH, cM, cL], [cH, cM, cL]]

def so (m : Nat) : List Nat := sevOrder.getD m []

/-- rank of a value: 0 = most severe -/
def sev4 (m b : Nat) : Nat := (indexByte b (so m)).getD 99

theorem eq1_mono : ∀ a ∈ so 0, ∀ a' ∈ so 0, ∀ p ∈ so 3, ∀ p' ∈ so 3, ∀ u ∈ so 4, ∀ u' ∈ so 4,
    sev4 0 a' ≤ sev4 0 a → sev4 3 p' ≤ sev4 3 p → sev4 4 u' ≤ sev4 4 u → eq1f a' p' u' ≤ eq1f a p u := by decide +kernel
theorem eq2_mono : ∀ a ∈ so 1, ∀ a' ∈ so 1, ∀ p ∈ so 2, ∀ p' ∈ so 2,
    sev4 1 a' ≤ sev4 1 a → sev4 2 p' ≤ sev4 2 p → eq2f a' p' ≤ eq2f a p := by decide +kernel
theorem eq3_mono : ∀ a ∈ so 5, ∀ a' ∈ so 5, ∀ p ∈ so 6, ∀ p' ∈ so 6, ∀ u ∈ so 7, ∀ u' ∈ so 7,
    sev4 5 a' ≤ sev4 5 a → sev4 6 p' ≤ sev4 6 p → sev4 7 u' ≤ sev4 7 u → eq3f a' p' u' ≤ eq3f a p u := by decide +kernel
theorem eq4_mono : ∀ a ∈ so 8, ∀ a' ∈ so 8, ∀ p ∈ so 9, ∀ p' ∈ so 9, ∀ u ∈ so 10, ∀ u' ∈ so 10,
    sev4 8 a' ≤ sev4 8 a → sev4 9 p' ≤ sev4 9 p → sev4 10 u' ≤ sev4 10 u →
    eq4f false a' p' u' ≤ eq4f false a p u := by decide +kernel
theorem eq5_mono : ∀ a ∈ so 11, ∀ a' ∈ so 11, sev4 11 a' ≤ sev4 11 a → eq5f a' ≤ eq5f a := by decide +kernel
/-- a requirement / impact pair that is High / High stays so when both get at least as severe -/
def hitMono (k : Nat) : Prop := ∀ r ∈ so (12 + k), ∀ r' ∈ so (12 + k), ∀ x ∈ so (5 + k), ∀ x' ∈ so (5 + k),
    sev4 (12 + k) r' ≤ sev4 (12 + k) r → sev4 (5 + k) x' ≤ sev4 (5 + k) x → (r = cH ∧ x = cH) → (r' = cH ∧ x' = cH)

theorem hit_mono0 : hitMono 0 := by unfold hitMono; decide +kernel
theorem hit_mono1 : hitMono 1 := by unfold hitMono; decide +kernel
theorem hit_mono2 : hitMono 2 := by unfold hitMono; decide +kernel

/-- `macrovector()` is monotone: if every metric the score depends on is, in
    `w`, at least as severe as in `v` (after the defaults of `getScore`), and
    the Safety flag of MSI / MSA does not go away, then no equivalence class of
    `w` is at a higher (less severe) level than in `v` -/
theorem v4Macro_mono (v w : Vec) (hv : ∀ m < 15, v4ScoreByte v m ∈ so m) (hw : ∀ m < 15, v4ScoreByte w m ∈ so m)
    (hsev : ∀ m < 15, sev4 m (v4ScoreByte w m) ≤ sev4 m (v4ScoreByte v m))
    (hsafe : v4Safety v = true → v4Safety w = true) :
    ∀ i < 6, (v4Macro w).getD i 0 ≤ (v4Macro v).getD i 0 := by
  intro i hi
  rw [v4Macro_eq v, v4Macro_eq w]
  have c (m : Nat) (h : m < 15) := hsev m h
  have i0 : i = 0 ∨ i = 1 ∨ i = 2 ∨ i = 3 ∨ i = 4 ∨ i = 5 := by omega
  rcases i0 with rfl | rfl | rfl | rfl | rfl | rfl
  · exact eq1_mono _ (hv 0 (by decide)) _ (hw 0 (by decide)) _ (hv 3 (by decide)) _ (hw 3 (by decide))
      _ (hv 4 (by decide)) _ (hw 4 (by decide)) (c 0 (by decide)) (c 3 (by decide)) (c 4 (by decide))
  · exact eq2_mono _ (hv 1 (by decide)) _ (hw 1 (by decide)) _ (hv 2 (by decide)) _ (hw 2 (by decide))
      (c 1 (by decide)) (c 2 (by decide))
  · exact eq3_mono _ (hv 5 (by decide)) _ (hw 5 (by decide)) _ (hv 6 (by decide)) _ (hw 6 (by decide))
      _ (hv 7 (by decide)) _ (hw 7 (by decide)) (c 5 (by decide)) (c 6 (by decide)) (c 7 (by decide))
  · show eq4f (v4Safety w) _ _ _ ≤ eq4f (v4Safety v) _ _ _
    by_cases hs : v4Safety w = true
    · simp [eq4f, hs]
    · have hs' : v4Safety v = false := by
        cases h : v4Safety v
        · rfl
        · exact absurd (hsafe h) hs
      have hs'' : v4Safety w = false := by simpa using hs
      rw [hs', hs'']
      exact eq4_mono _ (hv 8 (by decide)) _ (hw 8 (by decide)) _ (hv 9 (by decide)) _ (hw 9 (by decide))
        _ (hv 10 (by decide)) _ (hw 10 (by decide)) (c 8 (by decide)) (c 9 (by decide)) (c 10 (by decide))
  · exact eq5_mono _ (hv 11 (by decide)) _ (hw 11 (by decide)) (c 11 (by decide))
  · show eq6f _ _ _ _ _ _ ≤ eq6f _ _ _ _ _ _
    have h0 := hit_mono0 _ (hv 12 (by decide)) _ (hw 12 (by decide)) _ (hv 5 (by decide)) _ (hw 5 (by decide))
      (c 12 (by decide)) (c 5 (by decide))
    have h1 := hit_mono1 _ (hv 13 (by decide)) _ (hw 13 (by decide)) _ (hv 6 (by decide)) _ (hw 6 (by decide))
      (c 13 (by decide)) (c 6 (by decide))
    have h2 := hit_mono2 _ (hv 14 (by decide)) _ (hw 14 (by decide)) _ (hv 7 (by decide)) _ (hw 7 (by decide))
      (c 14 (by decide)) (c 7 (by decide))
    unfold eq6f
    by_cases hh : (v4ScoreByte v 12 = cH ∧ v4ScoreByte v 5 = cH) ∨ (v4ScoreByte v 13 = cH ∧ v4ScoreByte v 6 = cH) ∨
        (v4ScoreByte v 14 = cH ∧ v4ScoreByte v 7 = cH)
    · have : (v4ScoreByte w 12 = cH ∧ v4ScoreByte w 5 = cH) ∨ (v4ScoreByte w 13 = cH ∧ v4ScoreByte w 6 = cH) ∨
          (v4ScoreByte w 14 = cH ∧ v4ScoreByte w 7 = cH) := by
        rcases hh with h | h | h
        · exact Or.inl (h0 h)
        · exact Or.inr (Or.inl (h1 h))
        · exact Or.inr (Or.inr (h2 h))
      simp [hh, this]
    · simp only [hh, if_false]
      split <;> omega

/-- the hypothesis of `v4Macro_mono` holds for every vector `ParseV4` returns -/
theorem so_of_valid : ∀ m < 15, ∀ b, (b ∈ gv4 m → (if 11 ≤ m ∧ b = cX then (if m = 11 then cA else cH) else b) ∈ so m) := by
  decide +kernel

theorem valid4_eff_mem {v : Vec} (hv : Valid4 v) : ∀ m < 15, v4ScoreByte v m ∈ so m := by
  intro m hm
  have hvals := hv.vals m (by omega)
  unfold v4ScoreByte
  simp only []
  by_cases h11 : 11 ≤ m
  · by_cases hb : v.get m = 0 ∨ v.get m = cX
    · have hlt : ¬ (15 ≤ m ∧ m ≤ 25) := by omega
      simp only [h11, hb, and_self, if_true, hlt, if_false]
      have : m = 11 ∨ m = 12 ∨ m = 13 ∨ m = 14 := by omega
      rcases this with rfl | rfl | rfl | rfl <;> decide
    · have h0 : v.get m ≠ 0 := fun e => hb (Or.inl e)
      have hx : v.get m ≠ cX := fun e => hb (Or.inr e)
      simp only [hb, and_false, if_false]
      have := so_of_valid m hm _ (hvals.resolve_left h0)
      simpa [hx] using this
  · have hlt : ¬ (11 ≤ m ∧ (v.get m = 0 ∨ v.get m = cX)) := fun h => h11 h.1
    simp only [hlt, if_false]
    have h0 : v.get m ≠ 0 := hv.base m (by omega)
    have := so_of_valid m hm _ (hvals.resolve_left h0)
    have hn : ¬ (11 ≤ m ∧ v.get m = cX) := fun h => h11 h.1
    simpa [hn] using this

end ClairModel.Cvss
