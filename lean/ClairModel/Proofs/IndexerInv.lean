/-
  What every part of one Index call guarantees under an arbitrary fault
  oracle: the store invariant is preserved, the store only grows, other
  manifests are untouched, a stub scanner runs only on a pair that is not
  recorded as scanned, a failed call surfaces as an error of the enclosing
  function. From these, the invariants of `runLoop` / `index`.
-/
import ClairModel.Proofs.IndexerBasic

namespace ClairModel.Indexer

variable {sem : Sem} {o : Oracle} {m : Manifest}

def exceptErr {α : Type} : Except ErrClass α → Option ErrClass
  | .error c => some c
  | .ok _ => none

@[simp] theorem exceptErr_error {α : Type} (c : ErrClass) : exceptErr (.error c : Except ErrClass α) = some c := rfl
@[simp] theorem exceptErr_ok {α : Type} (a : α) : exceptErr (.ok a : Except ErrClass α) = none := rfl

/-- Guarantees of a piece of the controller that took the world from `w` to
    `w'` and returned error class `r`, for any oracle. -/
structure Step0 (sem : Sem) (o : Oracle) (m : Manifest) (w w' : W) (r : Option ErrClass) : Prop where
  inv : Inv sem w.st → Inv sem w'.st
  le : Le w.st w'.st
  frame : Frame m w.st w'.st
  scans : ∀ x, x ∈ w'.e.scans → x ∈ w.e.scans ∨ x ∉ w.st.scannedLayer
  dead : w.e.dead = true → w'.e.dead = true
  failedErr : w'.e.failed = true → w.e.failed = true ∨ r ≠ none
  noDl : NoDeadline o → r ≠ some .dl

/-- ... and that did not touch scanned_manifest (everything but indexFinished). -/
structure Step (sem : Sem) (o : Oracle) (m : Manifest) (w w' : W) (r : Option ErrClass) : Prop
    extends Step0 sem o m w w' r where
  sm : w'.st.scannedManifest = w.st.scannedManifest

theorem Step0.refl (w : W) : Step0 sem o m w w none :=
  ⟨id, Le.refl _, Frame.refl _ _, fun _ h => Or.inl h, id, fun h => Or.inl h, fun _ h => by cases h⟩

theorem Step.refl (w : W) : Step sem o m w w none := ⟨Step0.refl w, rfl⟩

/-- Sequencing: the first part returned no error. -/
theorem Step0.seq {w w' w'' : W} {r : Option ErrClass} (h₁ : Step0 sem o m w w' none) (h₂ : Step0 sem o m w' w'' r) :
    Step0 sem o m w w'' r where
  inv := fun h => h₂.inv (h₁.inv h)
  le := h₁.le.trans h₂.le
  frame := h₁.frame.trans h₂.frame
  scans := by
    intro x hx
    rcases h₂.scans x hx with h | h
    · exact h₁.scans x h
    · exact Or.inr fun hm => h (h₁.le.scannedLayer x hm)
  dead := fun h => h₂.dead (h₁.dead h)
  failedErr := by
    intro h
    rcases h₂.failedErr h with h' | h'
    · rcases h₁.failedErr h' with h'' | h''
      · exact Or.inl h''
      · exact absurd rfl h''
    · exact Or.inr h'
  noDl := h₂.noDl

theorem Step.seq {w w' w'' : W} {r : Option ErrClass} (h₁ : Step sem o m w w' none) (h₂ : Step sem o m w' w'' r) :
    Step sem o m w w'' r := ⟨h₁.toStep0.seq h₂.toStep0, h₂.sm.trans h₁.sm⟩

/-- The piece went through but its caller turns the outcome into an ordinary error. -/
theorem Step.toGen {w w' : W} (h : Step sem o m w w' none) : Step sem o m w w' (some .gen) :=
  { h with failedErr := fun _ => Or.inr (by simp), noDl := fun _ h => by cases h }

theorem Step.toCan {w w' : W} (h : Step sem o m w w' none) : Step sem o m w w' (some .can) :=
  { h with failedErr := fun _ => Or.inr (by simp), noDl := fun _ h => by cases h }

/-- A read-only piece. -/
structure RO (o : Oracle) (w w' : W) (r : Option ErrClass) : Prop where
  st : w'.st = w.st
  scans : w'.e.scans = w.e.scans
  fetched : w'.e.fetched = w.e.fetched
  dead : w.e.dead = true → w'.e.dead = true
  failedErr : w'.e.failed = true → w.e.failed = true ∨ r ≠ none
  noDl : NoDeadline o → r ≠ some .dl

theorem RO.refl (w : W) : RO o w w none :=
  ⟨rfl, rfl, rfl, id, fun h => Or.inl h, fun _ h => by cases h⟩

theorem RO.seq {w w' w'' : W} {r : Option ErrClass} (h₁ : RO o w w' none) (h₂ : RO o w' w'' r) : RO o w w'' r where
  st := h₂.st.trans h₁.st
  scans := h₂.scans.trans h₁.scans
  fetched := h₂.fetched.trans h₁.fetched
  dead := fun h => h₂.dead (h₁.dead h)
  failedErr := by
    intro h
    rcases h₂.failedErr h with h' | h'
    · rcases h₁.failedErr h' with h'' | h''
      · exact Or.inl h''
      · exact absurd rfl h''
    · exact Or.inr h'
  noDl := h₂.noDl

theorem RO.toStep {w w' : W} {r : Option ErrClass} (h : RO o w w' r) : Step sem o m w w' r where
  inv := fun hi => h.st ▸ hi
  le := h.st ▸ Le.refl _
  frame := h.st ▸ Frame.refl _ _
  scans := fun x hx => Or.inl (h.scans ▸ hx)
  dead := h.dead
  failedErr := h.failedErr
  noDl := h.noDl
  sm := by rw [h.st]

/-- One call that leaves the store alone. -/
theorem RO.of_call {w : W} {e : Env} {v : Verdict} (hs : CallSpec o w e v) : RO o w ⟨w.st, e⟩ v.err :=
  ⟨rfl, hs.scans, hs.fetched, hs.dead, fun h => by
    by_cases hv : v.err = none
    · left; rw [← hs.okFailed hv]; exact h
    · exact Or.inr hv, hs.noDl⟩

/-- One call whose effect (if any) led to store `st'`. -/
theorem Step0.of_call {w : W} {e : Env} {v : Verdict} (hs : CallSpec o w e v) (st' : Store)
    (hinv : Inv sem w.st → Inv sem st') (hle : Le w.st st') (hfr : Frame m w.st st') :
    Step0 sem o m w ⟨st', e⟩ v.err where
  inv := hinv
  le := hle
  frame := hfr
  scans := fun x hx => Or.inl (hs.scans ▸ hx)
  dead := hs.dead
  failedErr := fun h => by
    by_cases hv : v.err = none
    · left; rw [← hs.okFailed hv]; exact h
    · exact Or.inr hv
  noDl := hs.noDl

theorem Step.of_call {w : W} {e : Env} {v : Verdict} (hs : CallSpec o w e v) (st' : Store)
    (hinv : Inv sem w.st → Inv sem st') (hle : Le w.st st') (hfr : Frame m w.st st')
    (hsm : st'.scannedManifest = w.st.scannedManifest := by rfl) :
    Step sem o m w ⟨st', e⟩ v.err := ⟨Step0.of_call hs st' hinv hle hfr, hsm⟩

/-! ## checkManifest -/

theorem filterUnscanned_ro (o : Oracle) (m : Manifest) : ∀ (vs : List Scanner) (w : W),
    RO o w (filterUnscanned o m vs w).1 (exceptErr (filterUnscanned o m vs w).2)
  | [], w => by simp only [filterUnscanned, exceptErr_ok]; exact RO.refl w
  | s :: rest, w => by
    obtain ⟨e, v, hc, hs⟩ := call_spec o w 'M'
    simp only [filterUnscanned, hc]
    have h1 := RO.of_call hs
    cases hv : v.err with
    | some c => simp only [exceptErr_error]; exact hv ▸ h1
    | none =>
      simp only []
      have ih := filterUnscanned_ro o m rest ⟨w.st, e⟩
      rw [hv] at h1
      generalize filterUnscanned o m rest ⟨w.st, e⟩ = res at ih ⊢
      obtain ⟨w', r⟩ := res
      cases r <;> exact h1.seq ih

/-- The scanners dropped by the filter are recorded as having scanned the manifest. -/
theorem filterUnscanned_spec (o : Oracle) (m : Manifest) : ∀ (vs : List Scanner) (w : W) (l : List Scanner),
    (filterUnscanned o m vs w).2 = .ok l →
      (∀ s, s ∈ l → s ∈ vs) ∧ (∀ s, s ∈ vs → s ∈ l ∨ (m, s) ∈ w.st.scannedManifest)
  | [], w, l => by
    simp only [filterUnscanned]
    intro h; cases h
    simp
  | s :: rest, w, l => by
    obtain ⟨e, v, hc, hs⟩ := call_spec o w 'M'
    simp only [filterUnscanned, hc]
    cases hv : v.err with
    | some c => simp
    | none =>
      simp only []
      have ih := filterUnscanned_spec o m rest ⟨w.st, e⟩
      generalize filterUnscanned o m rest ⟨w.st, e⟩ = res at ih ⊢
      obtain ⟨w', r⟩ := res
      cases r with
      | error c => simp
      | ok l' =>
        simp only [Except.ok.injEq]
        intro h
        obtain ⟨ih1, ih2⟩ := ih l' rfl
        subst h
        by_cases hsc : w.st.manifestScanned m [s] = true
        · simp only [hsc, if_true]
          refine ⟨fun s' hs' => List.mem_cons_of_mem _ (ih1 s' hs'), ?_⟩
          intro s' hs'
          rcases List.mem_cons.1 hs' with rfl | hs'
          · right
            exact (Store.manifestScanned_iff _ _ _).1 hsc s' (by simp)
          · exact ih2 s' hs'
        · simp only [hsc, if_false]
          refine ⟨?_, ?_⟩
          · intro s' hs'
            rcases List.mem_cons.1 hs' with rfl | hs'
            · simp
            · exact List.mem_cons_of_mem _ (ih1 s' hs')
          · intro s' hs'
            rcases List.mem_cons.1 hs' with rfl | hs'
            · simp
            · rcases ih2 s' hs' with h | h
              · exact Or.inl (List.mem_cons_of_mem _ h)
              · exact Or.inr h

/-- Everything about `checkManifest` under an arbitrary oracle. -/
structure CheckManifestSpec (sem : Sem) (o : Oracle) (m : Manifest) (w : W) (c : Ctl) (res : StateRet) : Prop where
  step : Step sem o m w res.1 res.2.2.2
  cur : res.2.1.cur = c.cur
  errTerminal : res.2.2.2 ≠ none → res.2.2.1 = .terminal ∧ res.2.1.report = c.report
  ok : res.2.2.2 = none →
    (res.2.2.1 = .terminal ∧ w.st.manifestScanned m c.vs = true ∧ res.1.st = w.st ∧
        w.st.report? m = some res.2.1.report ∧ res.2.1.vs = c.vs) ∨
    (res.2.2.1 = .fetchLayers ∧ w.st.manifestScanned m c.vs = false ∧ m ∈ res.1.st.manifests ∧
        res.1.st = w.st.persistManifest m ∧ res.2.1.report = c.report ∧
        (∀ s, s ∈ res.2.1.vs → s ∈ c.vs) ∧ (∀ s, s ∈ c.vs → s ∈ res.2.1.vs ∨ (m, s) ∈ w.st.scannedManifest))

theorem checkManifest_spec (sem : Sem) (o : Oracle) (m : Manifest) (w : W) (c : Ctl) :
    CheckManifestSpec sem o m w c (checkManifest o m w c) := by
  obtain ⟨e, v, hc, hs⟩ := call_spec o w 'M'
  have h1 : Step sem o m w ⟨w.st, e⟩ v.err := (RO.of_call hs).toStep
  unfold checkManifest
  simp only [hc]
  cases hv : v.err with
  | some cl =>
    simp only []
    exact ⟨hv ▸ h1, rfl, fun _ => ⟨rfl, rfl⟩, fun h => by cases h⟩
  | none =>
    simp only []
    rw [hv] at h1
    by_cases hsc : w.st.manifestScanned m c.vs = true
    · simp only [hsc, if_true]
      obtain ⟨e2, v2, hc2, hs2⟩ := call_spec o ⟨w.st, e⟩ 'G'
      have h2 : Step sem o m ⟨w.st, e⟩ ⟨w.st, e2⟩ v2.err := (RO.of_call hs2).toStep
      simp only [hc2]
      cases hv2 : v2.err with
      | some cl =>
        simp only []
        exact ⟨h1.seq (hv2 ▸ h2), rfl, fun _ => ⟨rfl, rfl⟩, fun h => by cases h⟩
      | none =>
        simp only []
        rw [hv2] at h2
        cases hr : w.st.report? m with
        | none =>
          simp only []
          refine ⟨?_, rfl, fun _ => ⟨rfl, rfl⟩, fun h => by cases h⟩
          exact (h1.seq h2).toGen
        | some r =>
          simp only []
          exact ⟨h1.seq h2, rfl, fun h => absurd rfl h, fun _ => Or.inl ⟨rfl, hsc, rfl, hr, rfl⟩⟩
    · have hsc' : w.st.manifestScanned m c.vs = false := by simpa using hsc
      simp only [hsc', Bool.false_eq_true, if_false]
      have hro := filterUnscanned_ro o m c.vs ⟨w.st, e⟩
      have hsp := filterUnscanned_spec o m c.vs ⟨w.st, e⟩
      generalize filterUnscanned o m c.vs ⟨w.st, e⟩ = res at hro hsp ⊢
      obtain ⟨w2, r2⟩ := res
      cases r2 with
      | error cl =>
        simp only []
        exact ⟨h1.seq hro.toStep, rfl, fun _ => ⟨rfl, rfl⟩, fun h => by cases h⟩
      | ok vs' =>
        simp only []
        simp only [exceptErr_ok] at hro
        obtain ⟨hsub, hcov⟩ := hsp vs' rfl
        obtain ⟨e3, v3, hc3, hs3⟩ := call_spec o w2 'P'
        simp only [hc3]
        have hst2 : w2.st = w.st := hro.st
        have h3 : Step sem o m w2 (if v3.effect = true then ⟨w2.st.persistManifest m, e3⟩ else ⟨w2.st, e3⟩) v3.err := by
          split
          · exact Step.of_call hs3 _ (fun h => Store.inv_persistManifest h m) (Store.le_persistManifest _ _) (Store.frame_persistManifest _ _ _)
              (by unfold Store.persistManifest; split <;> rfl)
          · exact Step.of_call hs3 _ id (Le.refl _) (Frame.refl _ _)
        have h123 := (h1.seq hro.toStep).seq h3
        cases hv3 : v3.err with
        | some cl =>
          simp only []
          rw [hv3] at h123
          refine ⟨?_, rfl, fun _ => ⟨rfl, rfl⟩, fun h => by cases h⟩
          cases heff : v3.effect <;> simp only [heff, Bool.false_eq_true, if_false, if_true] at h123 ⊢ <;> exact h123
        | none =>
          simp only []
          rw [hv3] at h123
          have heff := hs3.okEffect hv3
          simp only [heff, if_true] at h123 ⊢
          refine ⟨h123, rfl, fun h => absurd rfl h, fun _ => Or.inr ⟨rfl, hsc', ?_, ?_, rfl, hsub, hcov⟩⟩
          · exact Store.mem_persistManifest _ _
          · simp only [hst2]

/-! ## fetchLayers -/

theorem reduceInner_ro (o : Oracle) (l : Layer) : ∀ (vs : List Scanner) (w : W),
    RO o w (reduceInner o l vs w).1 (exceptErr (reduceInner o l vs w).2)
  | [], w => by simp only [reduceInner, exceptErr_ok]; exact RO.refl w
  | s :: rest, w => by
    obtain ⟨e, v, hc, hs⟩ := call_spec o w 'L'
    simp only [reduceInner, hc]
    have h1 := RO.of_call hs
    cases hv : v.err with
    | some c => simp only [exceptErr_error]; exact hv ▸ h1
    | none =>
      simp only []
      rw [hv] at h1
      split
      · exact h1.seq (reduceInner_ro o l rest ⟨w.st, e⟩)
      · simp only [exceptErr_ok]; exact h1

theorem reduce_ro (o : Oracle) (vs : List Scanner) : ∀ (ls : List Layer) (w : W),
    RO o w (reduce o vs ls w).1 (exceptErr (reduce o vs ls w).2)
  | [], w => by simp only [reduce, exceptErr_ok]; exact RO.refl w
  | l :: ls, w => by
    have h1 := reduceInner_ro o l vs w
    simp only [reduce]
    generalize reduceInner o l vs w = res at h1 ⊢
    obtain ⟨w1, r1⟩ := res
    cases r1 with
    | error c => exact h1
    | ok b =>
      simp only [exceptErr_ok] at h1 ⊢
      have h2 := reduce_ro o vs ls w1
      generalize reduce o vs ls w1 = res2 at h2 ⊢
      obtain ⟨w2, r2⟩ := res2
      cases r2 <;> exact h1.seq h2

/-- Facts shared by the state functions that do not touch the controller fields. -/
structure PlainSpec (sem : Sem) (o : Oracle) (m : Manifest) (w : W) (c : Ctl) (res : StateRet) (okNext : CState) : Prop where
  step : Step sem o m w res.1 res.2.2.2
  ctl : res.2.1 = c
  errTerminal : res.2.2.2 ≠ none → res.2.2.1 = .terminal
  okNext : res.2.2.2 = none → res.2.2.1 = okNext

theorem fetchLayers_spec (sem : Sem) (o : Oracle) (m : Manifest) (w : W) (c : Ctl) :
    PlainSpec sem o m w c (fetchLayers o m w c) .scanLayers ∧ (fetchLayers o m w c).1.st = w.st := by
  have h1 := reduce_ro o c.vs m w
  unfold fetchLayers
  generalize reduce o c.vs m w = res at h1 ⊢
  obtain ⟨w1, r1⟩ := res
  cases r1 with
  | error cl => exact ⟨⟨h1.toStep, rfl, fun _ => rfl, fun h => by cases h⟩, h1.st⟩
  | ok toFetch =>
    simp only [exceptErr_ok] at h1
    simp only []
    obtain ⟨e, v, hc, hs⟩ := call_spec o w1 'Z'
    simp only [hc]
    have h2 : Step sem o m w1 (if v.effect = true then ⟨w1.st, { e with fetched := toFetch ++ e.fetched }⟩ else ⟨w1.st, e⟩) v.err := by
      have h := Step.of_call (sem := sem) (m := m) hs w1.st id (Le.refl _) (Frame.refl _ _)
      split
      · exact { h with }
      · exact h
    have h12 := h1.toStep.seq h2
    have hst : (if v.effect = true then (⟨w1.st, { e with fetched := toFetch ++ e.fetched }⟩ : W) else ⟨w1.st, e⟩).st = w.st := by
      split <;> exact h1.st
    cases hv : v.err with
    | some cl =>
      simp only []
      rw [hv] at h12
      exact ⟨⟨h12, rfl, fun _ => rfl, fun h => by cases h⟩, hst⟩
    | none =>
      simp only []
      rw [hv] at h12
      exact ⟨⟨h12, rfl, fun h => absurd rfl h, fun _ => rfl⟩, hst⟩

/-! ## scanLayers -/

theorem mem_toStore_sound (sem : Sem) (s : Scanner) (l : Layer) (g : List Row) (hg : g ∈ toStore sem s l)
    (r : Row) (hr : r ∈ g) : r ∈ sem.scan s l := by
  simp only [toStore, List.mem_filterMap, List.mem_map] at hg
  obtain ⟨p, ⟨t, _, rfl⟩, hp⟩ := hg
  split at hp
  · cases hp
    simp only [rowsOf, List.mem_filter] at hr
    exact hr.1
  · cases hp

theorem mem_toStore_complete (sem : Sem) (s : Scanner) (l : Layer) (r : Row) (hr : r ∈ sem.scan s l) :
    ∃ g, g ∈ toStore sem s l ∧ r ∈ g := by
  refine ⟨rowsOf r.tag (sem.scan s l), ?_, ?_⟩
  · simp only [toStore, List.mem_filterMap, List.mem_map]
    refine ⟨(r.tag, rowsOf r.tag (sem.scan s l)), ⟨r.tag, ?_, rfl⟩, ?_⟩
    · cases r.tag <;> simp
    · have hne : rowsOf r.tag (sem.scan s l) ≠ [] := by
        intro h
        have : r ∈ rowsOf r.tag (sem.scan s l) := by simp [rowsOf, hr]
        rw [h] at this; cases this
      simp [hne]
  · simp [rowsOf, hr]

theorem storeGroups_step (sem : Sem) (o : Oracle) (m : Manifest) (l : Layer) (s : Scanner) :
    ∀ (gs : List (List Row)) (w : W), (∀ g, g ∈ gs → ∀ r, r ∈ g → r ∈ sem.scan s l) →
      Step sem o m w (storeGroups o l s gs w).1 (storeGroups o l s gs w).2 ∧
      ((storeGroups o l s gs w).2 = none → ∀ g, g ∈ gs → ∀ r, r ∈ g → (⟨l, s, r⟩ : ArtRow) ∈ (storeGroups o l s gs w).1.st.rows)
  | [], w, _ => by simp only [storeGroups]; exact ⟨Step.refl w, fun _ g hg => by cases hg⟩
  | g :: gs, w, hsound => by
    obtain ⟨e, v, hc, hs⟩ := call_spec o w 'I'
    simp only [storeGroups, hc]
    have hg : ∀ r, r ∈ g → r ∈ sem.scan s l := hsound g (by simp)
    have h1 : Step sem o m w (if v.effect = true then ⟨w.st.insertRows l s g, e⟩ else ⟨w.st, e⟩) v.err := by
      split
      · exact Step.of_call hs _ (fun h => Store.inv_insertRows h l s g hg) (Store.le_insertRows _ _ _ _) (Store.frame_insertRows _ _ _ _ _)
      · exact Step.of_call hs _ id (Le.refl _) (Frame.refl _ _)
    cases hv : v.err with
    | some c =>
      simp only []
      rw [hv] at h1
      refine ⟨?_, fun h => by cases h⟩
      cases heff : v.effect <;> simp only [heff, Bool.false_eq_true, if_false, if_true] at h1 ⊢ <;> exact h1
    | none =>
      simp only []
      rw [hv] at h1
      have heff := hs.okEffect hv
      simp only [heff, if_true] at h1 ⊢
      obtain ⟨ih1, ih2⟩ := storeGroups_step sem o m l s gs ⟨w.st.insertRows l s g, e⟩ (fun g' hg' => hsound g' (List.mem_cons_of_mem _ hg'))
      refine ⟨h1.seq ih1, ?_⟩
      intro hnone g' hg' r hr
      rcases List.mem_cons.1 hg' with rfl | hg'
      · exact ih1.le.rows _ (Store.mem_insertRows _ _ _ _ _ hr)
      · exact ih2 hnone g' hg' r hr

theorem doScan_step (sem : Sem) (o : Oracle) (m : Manifest) (l : Layer) (s : Scanner) (w : W)
    (hun : (l, s) ∉ w.st.scannedLayer) :
    Step sem o m w (doScan sem o l s w).1 (doScan sem o l s w).2 ∧ (doScan sem o l s w).1.st = w.st := by
  unfold doScan
  split
  · split
    · exact ⟨Step.refl w, rfl⟩
    · exact ⟨(Step.refl w).toGen, rfl⟩
  · obtain ⟨e, v, hc, hs⟩ := call_spec o w 'S'
    simp only [hc]
    have h1 : Step sem o m w ⟨w.st, e⟩ v.err := (RO.of_call hs).toStep
    split
    · exact ⟨h1, rfl⟩
    · split
      · refine ⟨?_, rfl⟩
        refine { h1 with scans := ?_ }
        intro x hx
        simp only [List.mem_cons] at hx
        rcases hx with rfl | hx
        · exact Or.inr hun
        · exact Or.inl (hs.scans ▸ hx)
      · refine ⟨?_, rfl⟩
        exact { h1 with failedErr := fun _ => Or.inr (by simp), noDl := fun _ h => by cases h }

theorem scanLayer_step (sem : Sem) (o : Oracle) (m : Manifest) (l : Layer) (s : Scanner) (w : W) :
    Step sem o m w (scanLayer sem o l s w).1 (scanLayer sem o l s w).2 ∧
    ((scanLayer sem o l s w).2 = none → (l, s) ∈ (scanLayer sem o l s w).1.st.scannedLayer) := by
  obtain ⟨e, v, hc, hs⟩ := call_spec o w 'L'
  unfold scanLayer
  simp only [hc]
  have h1 : Step sem o m w ⟨w.st, e⟩ v.err := (RO.of_call hs).toStep
  cases hv : v.err with
  | some c => simp only []; exact ⟨hv ▸ h1, fun h => by cases h⟩
  | none =>
    simp only []
    rw [hv] at h1
    by_cases hsc : w.st.layerScanned l s = true
    · simp only [hsc, if_true]
      exact ⟨h1, fun _ => (Store.layerScanned_iff _ _ _).1 hsc⟩
    · have hun : (l, s) ∉ w.st.scannedLayer := fun h => hsc ((Store.layerScanned_iff _ _ _).2 h)
      have hsc' : w.st.layerScanned l s = false := by simpa using hsc
      simp only [hsc', Bool.false_eq_true, if_false]
      obtain ⟨h2, hst2⟩ := doScan_step sem o m l s ⟨w.st, e⟩ hun
      generalize doScan sem o l s ⟨w.st, e⟩ = res2 at h2 hst2 ⊢
      obtain ⟨w2, r2⟩ := res2
      cases r2 with
      | some c => simp only []; exact ⟨h1.seq h2, fun h => by cases h⟩
      | none =>
        simp only []
        obtain ⟨h3, hrows⟩ := storeGroups_step sem o m l s (toStore sem s l) w2 (mem_toStore_sound sem s l)
        generalize storeGroups o l s (toStore sem s l) w2 = res3 at h3 hrows ⊢
        obtain ⟨w3, r3⟩ := res3
        cases r3 with
        | some c => simp only []; exact ⟨(h1.seq h2).seq h3, fun h => by cases h⟩
        | none =>
          simp only []
          obtain ⟨e4, v4, hc4, hs4⟩ := call_spec o w3 'K'
          simp only [hc4]
          have hcomplete : ∀ r, r ∈ sem.scan s l → (⟨l, s, r⟩ : ArtRow) ∈ w3.st.rows := by
            intro r hr
            obtain ⟨g, hg, hrg⟩ := mem_toStore_complete sem s l r hr
            exact hrows rfl g hg r hrg
          have h4 : Step sem o m w3 (if v4.effect = true then ⟨w3.st.setLayerScanned l s, e4⟩ else ⟨w3.st, e4⟩) v4.err := by
            split
            · exact Step.of_call hs4 _ (fun h => Store.inv_setLayerScanned h l s hcomplete) (Store.le_setLayerScanned _ _ _) (Store.frame_setLayerScanned _ _ _ _)
            · exact Step.of_call hs4 _ id (Le.refl _) (Frame.refl _ _)
          refine ⟨((h1.seq h2).seq h3).seq h4, ?_⟩
          intro hnone
          have heff := hs4.okEffect hnone
          simp only [heff, if_true, Store.setLayerScanned, List.mem_cons, true_or]

theorem scanPairs_step (sem : Sem) (o : Oracle) (m : Manifest) : ∀ (ps : List (Layer × Scanner)) (w : W),
    Step sem o m w (scanPairs sem o ps w).1 (scanPairs sem o ps w).2 ∧
    ((scanPairs sem o ps w).2 = none → ∀ p, p ∈ ps → p ∈ (scanPairs sem o ps w).1.st.scannedLayer)
  | [], w => by simp only [scanPairs]; exact ⟨Step.refl w, fun _ p hp => by cases hp⟩
  | (l, s) :: rest, w => by
    simp only [scanPairs]
    split
    · refine ⟨?_, fun h => by cases h⟩
      exact (Step.refl w).toCan
    · obtain ⟨h1, hm1⟩ := scanLayer_step sem o m l s w
      generalize scanLayer sem o l s w = res at h1 hm1 ⊢
      obtain ⟨w1, r1⟩ := res
      cases r1 with
      | some c => simp only []; exact ⟨h1, fun h => by cases h⟩
      | none =>
        simp only []
        obtain ⟨h2, hm2⟩ := scanPairs_step sem o m rest w1
        refine ⟨h1.seq h2, ?_⟩
        intro hnone p hp
        rcases List.mem_cons.1 hp with rfl | hp
        · exact h2.le.scannedLayer _ (hm1 rfl)
        · exact hm2 hnone p hp

theorem mem_dedupe {l : Layer} : ∀ {ls : List Layer}, l ∈ dedupe ls ↔ l ∈ ls
  | [] => by simp [dedupe]
  | x :: xs => by
    simp only [dedupe, List.mem_cons, List.mem_filter, mem_dedupe (ls := xs)]
    constructor
    · rintro (h | ⟨h, _⟩)
      · exact Or.inl h
      · exact Or.inr h
    · rintro (h | h)
      · exact Or.inl h
      · by_cases hx : l = x
        · exact Or.inl hx
        · exact Or.inr ⟨h, by simpa using hx⟩

theorem mem_pairs (cfg : Cfg) (m : Manifest) (l : Layer) (s : Scanner) (hl : l ∈ m) (hs : s ∈ cfg.scanners) :
    (l, s) ∈ pairs cfg m := by
  simp only [pairs, List.mem_flatMap, List.mem_map]
  exact ⟨l, mem_dedupe.2 hl, s, hs, rfl⟩

theorem scanLayers_spec (sem : Sem) (o : Oracle) (cfg : Cfg) (m : Manifest) (w : W) (c : Ctl) :
    PlainSpec sem o m w c (scanLayers sem o cfg m w c) .coalesce ∧
    ((scanLayers sem o cfg m w c).2.2.2 = none →
      ∀ l, l ∈ m → ∀ s, s ∈ cfg.scanners → (l, s) ∈ (scanLayers sem o cfg m w c).1.st.scannedLayer) := by
  obtain ⟨h1, hm⟩ := scanPairs_step sem o m (pairs cfg m) w
  unfold scanLayers
  generalize scanPairs sem o (pairs cfg m) w = res at h1 hm ⊢
  obtain ⟨w1, r1⟩ := res
  cases r1 with
  | some cl => exact ⟨⟨h1, rfl, fun _ => rfl, fun h => by cases h⟩, fun h => by cases h⟩
  | none => exact ⟨⟨h1, rfl, fun h => absurd rfl h, fun _ => rfl⟩, fun _ l hl s hs => hm rfl _ (mem_pairs cfg m l s hl hs)⟩

/-! ## coalesce -/

theorem readCall_ro (o : Oracle) (ch : Char) (w : W) : RO o w (readCall o ch w).1 (readCall o ch w).2 := by
  obtain ⟨e, v, hc, hs⟩ := call_spec o w ch
  simp only [readCall, hc]
  exact RO.of_call hs

/-- All scanners of the ecosystem have scanned the layer. -/
def EcoMarked (st : Store) (eco : Eco) (l : Layer) : Prop :=
  ∀ s, (s ∈ eco.ps ∨ s ∈ eco.ds ∨ s ∈ eco.rs ∨ s ∈ eco.fs) → (l, s) ∈ st.scannedLayer

theorem gatherLayer_ro (sem : Sem) (o : Oracle) (eco : Eco) (l : Layer) (w : W) :
    RO o w (gatherLayer o eco l w).1 (exceptErr (gatherLayer o eco l w).2) ∧
    (∀ a, (gatherLayer o eco l w).2 = .ok a → Inv sem w.st → EcoMarked w.st eco l → a = idealArts sem eco l) := by
  unfold gatherLayer
  have h1 := readCall_ro o 'A' w
  generalize readCall o 'A' w = r1 at h1 ⊢
  obtain ⟨w1, e1⟩ := r1
  cases e1 with
  | some c => exact ⟨h1, fun a h => by cases h⟩
  | none =>
  simp only []
  have h2 := readCall_ro o 'B' w1
  generalize readCall o 'B' w1 = r2 at h2 ⊢
  obtain ⟨w2, e2⟩ := r2
  cases e2 with
  | some c => exact ⟨h1.seq h2, fun a h => by cases h⟩
  | none =>
  simp only []
  have h3 := readCall_ro o 'D' w2
  generalize readCall o 'D' w2 = r3 at h3 ⊢
  obtain ⟨w3, e3⟩ := r3
  cases e3 with
  | some c => exact ⟨(h1.seq h2).seq h3, fun a h => by cases h⟩
  | none =>
  simp only []
  have h4 := readCall_ro o 'B' w3
  generalize readCall o 'B' w3 = r4 at h4 ⊢
  obtain ⟨w4, e4⟩ := r4
  cases e4 with
  | some c => exact ⟨((h1.seq h2).seq h3).seq h4, fun a h => by cases h⟩
  | none =>
  simp only []
  have h5 := readCall_ro o 'F' w4
  generalize readCall o 'F' w4 = r5 at h5 ⊢
  obtain ⟨w5, e5⟩ := r5
  cases e5 with
  | some c => exact ⟨(((h1.seq h2).seq h3).seq h4).seq h5, fun a h => by cases h⟩
  | none =>
  simp only [exceptErr_ok]
  have hall := (((h1.seq h2).seq h3).seq h4).seq h5
  refine ⟨hall, ?_⟩
  intro a ha hi hm
  simp only [Except.ok.injEq] at ha
  subst ha
  have hst : w5.st = w.st := hall.st
  simp only [idealArts, hst]
  rw [itemsBy_ideal hi l eco.ps .pkg (fun s hs => hm s (Or.inl hs)),
      itemsBy_ideal hi l eco.ps .repo (fun s hs => hm s (Or.inl hs)),
      itemsBy_ideal hi l eco.ds .dist (fun s hs => hm s (Or.inr (Or.inl hs))),
      itemsBy_ideal hi l eco.rs .repo (fun s hs => hm s (Or.inr (Or.inr (Or.inl hs)))),
      itemsBy_ideal hi l eco.fs .file (fun s hs => hm s (Or.inr (Or.inr (Or.inr hs))))]

theorem gatherEco_ro (sem : Sem) (o : Oracle) (eco : Eco) : ∀ (ls : List Layer) (w : W),
    RO o w (gatherEco o eco ls w).1 (exceptErr (gatherEco o eco ls w).2) ∧
    (∀ as, (gatherEco o eco ls w).2 = .ok as → Inv sem w.st → (∀ l, l ∈ ls → EcoMarked w.st eco l) →
      as = ls.map (idealArts sem eco))
  | [], w => by
    simp only [gatherEco, exceptErr_ok]
    exact ⟨RO.refl w, fun as h _ _ => by cases h; rfl⟩
  | l :: ls, w => by
    obtain ⟨h1, hs1⟩ := gatherLayer_ro sem o eco l w
    simp only [gatherEco]
    generalize gatherLayer o eco l w = r1 at h1 hs1 ⊢
    obtain ⟨w1, e1⟩ := r1
    cases e1 with
    | error c => exact ⟨h1, fun as h => by cases h⟩
    | ok a =>
      simp only [exceptErr_ok] at h1 ⊢
      obtain ⟨h2, hs2⟩ := gatherEco_ro sem o eco ls w1
      generalize gatherEco o eco ls w1 = r2 at h2 hs2 ⊢
      obtain ⟨w2, e2⟩ := r2
      cases e2 with
      | error c => exact ⟨h1.seq h2, fun as h => by cases h⟩
      | ok as' =>
        simp only [exceptErr_ok] at h2 ⊢
        refine ⟨h1.seq h2, ?_⟩
        intro as has hi hm
        simp only [Except.ok.injEq] at has
        subst has
        have hst : w1.st = w.st := h1.st
        rw [hs1 a rfl hi (hm l (by simp)), hs2 as' rfl (hst ▸ hi) (fun l' hl' => hst ▸ hm l' (List.mem_cons_of_mem _ hl'))]
        rfl

theorem gatherAll_ro (sem : Sem) (o : Oracle) (m : Manifest) : ∀ (ecos : List Eco) (w : W),
    RO o w (gatherAll sem o m ecos w).1 (exceptErr (gatherAll sem o m ecos w).2) ∧
    (∀ bs, (gatherAll sem o m ecos w).2 = .ok bs → Inv sem w.st →
      (∀ eco, eco ∈ ecos → ∀ l, l ∈ m → EcoMarked w.st eco l) →
      bs = ecos.map fun eco => sem.coal eco (m.map (idealArts sem eco)))
  | [], w => by
    simp only [gatherAll, exceptErr_ok]
    exact ⟨RO.refl w, fun bs h _ _ => by cases h; rfl⟩
  | eco :: ecos, w => by
    obtain ⟨h1, hs1⟩ := gatherEco_ro sem o eco m w
    simp only [gatherAll]
    generalize gatherEco o eco m w = r1 at h1 hs1 ⊢
    obtain ⟨w1, e1⟩ := r1
    cases e1 with
    | error c => exact ⟨h1, fun bs h => by cases h⟩
    | ok arts =>
      simp only [exceptErr_ok] at h1 ⊢
      obtain ⟨h2, hs2⟩ := gatherAll_ro sem o m ecos w1
      generalize gatherAll sem o m ecos w1 = r2 at h2 hs2 ⊢
      obtain ⟨w2, e2⟩ := r2
      cases e2 with
      | error c => exact ⟨h1.seq h2, fun bs h => by cases h⟩
      | ok bs' =>
        simp only [exceptErr_ok] at h2 ⊢
        refine ⟨h1.seq h2, ?_⟩
        intro bs hbs hi hm
        simp only [Except.ok.injEq] at hbs
        subst hbs
        have hst : w1.st = w.st := h1.st
        rw [hs1 arts rfl hi (hm eco (by simp)),
            hs2 bs' rfl (hst ▸ hi) (fun eco' he' l hl => hst ▸ hm eco' (List.mem_cons_of_mem _ he') l hl)]
        rfl

theorem coalCalls_ro (sem : Sem) (o : Oracle) : ∀ (ecos : List Eco) (w : W),
    RO o w (coalCalls sem o ecos w).1 (coalCalls sem o ecos w).2
  | [], w => by simp only [coalCalls]; exact RO.refl w
  | eco :: ecos, w => by
    simp only [coalCalls]
    split
    · exact coalCalls_ro sem o ecos w
    · have h1 := readCall_ro o 'C' w
      generalize readCall o 'C' w = r1 at h1 ⊢
      obtain ⟨w1, e1⟩ := r1
      cases e1 with
      | some c => exact h1
      | none => exact h1.seq (coalCalls_ro sem o ecos w1)

structure CoalesceSpec (sem : Sem) (o : Oracle) (cfg : Cfg) (m : Manifest) (w : W) (c : Ctl) (res : StateRet) : Prop where
  step : Step sem o m w res.1 res.2.2.2
  st : res.1.st = w.st
  errTerminal : res.2.2.2 ≠ none → res.2.2.1 = .terminal ∧ res.2.1 = c
  okNext : res.2.2.2 = none → res.2.2.1 = .indexManifest ∧
    ∃ b, res.2.1 = { c with report := { c.report with body := b } } ∧
      (Inv sem w.st → (∀ l, l ∈ m → ∀ s, s ∈ cfg.scanners → (l, s) ∈ w.st.scannedLayer) → b = freshBody sem cfg m)

theorem coalesce_spec (sem : Sem) (o : Oracle) (cfg : Cfg) (m : Manifest) (w : W) (c : Ctl) :
    CoalesceSpec sem o cfg m w c (coalesce sem o cfg m w c) := by
  obtain ⟨h1, hs1⟩ := gatherAll_ro sem o m cfg w
  unfold coalesce
  generalize gatherAll sem o m cfg w = r1 at h1 hs1 ⊢
  obtain ⟨w1, e1⟩ := r1
  cases e1 with
  | error cl => exact ⟨h1.toStep, h1.st, fun _ => ⟨rfl, rfl⟩, fun h => by cases h⟩
  | ok bodies =>
    simp only [exceptErr_ok] at h1
    simp only []
    have h2 := coalCalls_ro sem o cfg w1
    generalize coalCalls sem o cfg w1 = r2 at h2 ⊢
    obtain ⟨w2, e2⟩ := r2
    have h12 := h1.seq h2
    cases e2 with
    | some cl => exact ⟨h12.toStep, h12.st, fun _ => ⟨rfl, rfl⟩, fun h => by cases h⟩
    | none =>
      refine ⟨h12.toStep, h12.st, fun h => absurd rfl h, fun _ => ⟨rfl, sem.merge bodies, rfl, ?_⟩⟩
      intro hi hm
      rw [hs1 bodies rfl hi ?_]
      · rfl
      · intro eco heco l hl s hs
        exact hm l hl s ((mem_scanners cfg s).2 ⟨eco, heco, hs⟩)

/-! ## indexManifest, indexFinished -/

theorem indexManifest_spec (sem : Sem) (o : Oracle) (m : Manifest) (w : W) (c : Ctl) :
    PlainSpec sem o m w c (indexManifest o m w c) .indexFinished ∧
    ((indexManifest o m w c).2.2.2 = none → ∃ b, (m, b) ∈ (indexManifest o m w c).1.st.index) ∧
    (indexManifest o m w c).1.st.scannedManifest = w.st.scannedManifest := by
  obtain ⟨e, v, hc, hs⟩ := call_spec o w 'X'
  unfold indexManifest
  simp only [hc]
  have h1 : Step sem o m w (if v.effect = true then ⟨w.st.indexManifest m c.report.body, e⟩ else ⟨w.st, e⟩) v.err := by
    split
    · exact Step.of_call hs _ (fun h => Store.inv_indexManifest h m _) (Store.le_indexManifest _ _ _) (Store.frame_indexManifest _ _ _ _)
    · exact Step.of_call hs _ id (Le.refl _) (Frame.refl _ _)
  have hsm : (if v.effect = true then (⟨w.st.indexManifest m c.report.body, e⟩ : W) else ⟨w.st, e⟩).st.scannedManifest = w.st.scannedManifest := by
    split <;> rfl
  cases hv : v.err with
  | some cl =>
    simp only []
    rw [hv] at h1
    exact ⟨⟨h1, rfl, fun _ => rfl, fun h => by cases h⟩, (fun h => by cases h), hsm⟩
  | none =>
    simp only []
    rw [hv] at h1
    refine ⟨⟨h1, rfl, fun h => absurd rfl h, fun _ => rfl⟩, fun _ => ?_, hsm⟩
    have heff := hs.okEffect hv
    simp only [heff, if_true, Store.indexManifest]
    exact ⟨_, List.mem_cons_self⟩

structure IndexFinishedSpec (sem : Sem) (o : Oracle) (m : Manifest) (w : W) (c : Ctl) (res : StateRet) : Prop where
  step : Step0 sem o m w res.1 res.2.2.2
  next : res.2.2.1 = .terminal
  ctl : res.2.1 = { c with report := { c.report with success := true } }
  /-- either nothing was written, or the marks and this report were -/
  effect : res.1.st = w.st ∨
    (res.1.st.report? m = some res.2.1.report ∧
     ∀ x, x ∈ res.1.st.scannedManifest ↔ (x.1 = m ∧ x.2 ∈ c.vs) ∨ x ∈ w.st.scannedManifest)
  okEffect : res.2.2.2 = none →
     (res.1.st.report? m = some res.2.1.report ∧
     ∀ x, x ∈ res.1.st.scannedManifest ↔ (x.1 = m ∧ x.2 ∈ c.vs) ∨ x ∈ w.st.scannedManifest)
  noCommit : NoCommitErr o → res.2.2.2 ≠ none → res.1.st = w.st

theorem indexFinished_spec (sem : Sem) (o : Oracle) (m : Manifest) (w : W) (c : Ctl)
    (hl : ∀ s, s ∈ c.vs → ∀ l, l ∈ m → (l, s) ∈ w.st.scannedLayer) (hx : ∃ b, (m, b) ∈ w.st.index) :
    IndexFinishedSpec sem o m w c (indexFinished o m w c) := by
  obtain ⟨e, v, hc, hs⟩ := call_spec o w 'Y'
  unfold indexFinished
  simp only [hc]
  cases heff : v.effect with
  | false =>
    simp only [Bool.false_eq_true, if_false]
    have h1 : Step0 sem o m w ⟨w.st, e⟩ v.err := ((RO.of_call hs).toStep (sem := sem) (m := m)).toStep0
    refine ⟨h1, rfl, rfl, Or.inl rfl, ?_, fun _ _ => rfl⟩
    intro hnone
    have := hs.okEffect hnone
    rw [heff] at this; cases this
  | true =>
    simp only [if_true]
    cases hf : w.st.setIndexFinished m c.vs { c.report with success := true } with
    | none =>
      simp only []
      have h1 : Step0 sem o m w ⟨w.st, e⟩ v.err := ((RO.of_call hs).toStep (sem := sem) (m := m)).toStep0
      refine ⟨?_, rfl, rfl, Or.inl rfl, (fun h => by cases h), fun _ _ => rfl⟩
      exact { h1 with failedErr := fun _ => Or.inr (by simp), noDl := fun _ h => by cases h }
    | some st' =>
      simp only []
      have h1 : Step0 sem o m w ⟨st', e⟩ v.err :=
        Step0.of_call hs st' (fun h => Store.inv_setIndexFinished h hf hl hx) (Store.le_setIndexFinished hf) (Store.frame_setIndexFinished hf)
      have heffect : (st'.report? m = some { c.report with success := true } ∧
          ∀ x, x ∈ st'.scannedManifest ↔ (x.1 = m ∧ x.2 ∈ c.vs) ∨ x ∈ w.st.scannedManifest) :=
        ⟨Store.report?_setIndexFinished hf, Store.mem_setIndexFinished hf⟩
      refine ⟨h1, rfl, rfl, Or.inr heffect, fun _ => heffect, ?_⟩
      intro hnc hne
      have := hs.noCommit hnc hne
      rw [heff] at this; cases this

/-! ## The SetIndexReport after every state -/

structure PersistSpec (sem : Sem) (o : Oracle) (m : Manifest) (w : W) (c : Ctl) (next : CState)
    (carry : Option ErrClass) (res : W × Ctl × Option ErrClass × Bool) : Prop where
  sm : res.1.st.scannedManifest = w.st.scannedManifest
  cases : (∃ cl, Step sem o m w res.1 (some cl) ∧ res.2.2.1 = some cl ∧ res.2.2.2 = true ∧
              (NoCommitErr o → res.1.st = w.st)) ∨
          (Step sem o m w res.1 none ∧ res.1.st.report? m = some c.report ∧ res.2.2.1 = carry ∧
              ((next = .terminal ∧ res.2.1 = c ∧ res.2.2.2 = true) ∨
               (next ≠ .terminal ∧ res.2.1 = setState c next ∧ res.2.2.2 = carry.isSome)))

theorem persistAndAdvance_spec (sem : Sem) (o : Oracle) (m : Manifest) (w : W) (c : Ctl) (next : CState)
    (carry : Option ErrClass) : PersistSpec sem o m w c next carry (persistAndAdvance o m w c next carry) := by
  obtain ⟨e, v, hc, hs⟩ := call_spec o w 'R'
  unfold persistAndAdvance
  simp only [hc]
  cases heff : v.effect with
  | false =>
    simp only [Bool.false_eq_true, if_false]
    have h1 : Step sem o m w ⟨w.st, e⟩ v.err := (RO.of_call hs).toStep
    cases hv : v.err with
    | none => have := hs.okEffect hv; rw [heff] at this; cases this
    | some cl =>
      simp only []
      exact ⟨rfl, Or.inl ⟨cl, hv ▸ h1, rfl, rfl, fun _ => rfl⟩⟩
  | true =>
    simp only [if_true]
    cases hf : w.st.setIndexReport m c.report with
    | none =>
      simp only []
      have h1 : Step sem o m w ⟨w.st, e⟩ v.err := (RO.of_call hs).toStep
      refine ⟨rfl, Or.inl ⟨.gen, ?_, rfl, rfl, fun _ => rfl⟩⟩
      exact { h1 with failedErr := fun _ => Or.inr (by simp), noDl := fun _ h => by cases h }
    | some st' =>
      simp only []
      have hsm : st'.scannedManifest = w.st.scannedManifest := by
        obtain ⟨_, rfl⟩ := Store.setIndexReport_eq hf; rfl
      have h1 : Step sem o m w ⟨st', e⟩ v.err :=
        Step.of_call hs st' (fun h => Store.inv_setIndexReport h hf) (Store.le_setIndexReport hf) (Store.frame_setIndexReport hf) hsm
      cases hv : v.err with
      | some cl =>
        simp only []
        refine ⟨hsm, Or.inl ⟨cl, hv ▸ h1, rfl, rfl, ?_⟩⟩
        intro hnc
        have := hs.noCommit hnc (by rw [hv]; simp)
        rw [heff] at this; cases this
      | none =>
        simp only []
        rw [hv] at h1
        refine ⟨by split <;> exact hsm, Or.inr ⟨by split <;> exact h1, by split <;> exact Store.report?_setIndexReport hf, by split <;> rfl, ?_⟩⟩
        by_cases hn : next = .terminal
        · simp [hn]
        · simp [hn]

end ClairModel.Indexer
