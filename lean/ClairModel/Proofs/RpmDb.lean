/-
  Helper lemmas about the bdb / ndb walker models (Model/RpmDb.lean).
-/
import ClairModel.Model.RpmDb

namespace ClairModel.RpmDb

/-- overflow pages linked into one header -/
def Hdr.hops : Hdr → Nat
  | .ov r => r.length
  | .inl _ => 0

/-- total number of overflow pages linked into a list of headers -/
def hops (rs : List Hdr) : Nat := (rs.map Hdr.hops).sum

@[simp] theorem hops_nil : hops [] = 0 := rfl
theorem hops_append (a b : List Hdr) : hops (a ++ b) = hops a + hops b := by
  simp [hops, List.map_append, List.sum_append]
theorem hops_single (h : Hdr) : hops [h] = h.hops := by simp [hops]

namespace Bdb

theorem count_set_eq (l : List Bool) (n : Nat) (h : l.getD n true = false) :
    count (l.set n true) false + 1 = count l false := by
  induction l generalizing n with
  | nil => simp [List.getD] at h
  | cons x xs ih =>
    cases n with
    | zero =>
      simp only [List.getD_cons_zero] at h
      subst h
      simp [count, List.filter]
    | succ k =>
      simp only [List.getD_cons_succ] at h
      have := ih k h
      cases x <;> simp_all [count, List.filter] <;> omega

theorem count_replicate_false (n : Nat) : count (List.replicate n false) false = n := by
  induction n with
  | zero => rfl
  | succ k ih => simp_all [count, List.replicate_succ]

/-- every hop of a chain walk marks one page that was not marked before -/
theorem chain_count (db : Db) (n : Nat) (vis : List Bool) (acc : Rope) (rope : Rope) (vis' : List Bool)
    (h : chain db n vis acc = some (rope, vis')) :
    rope.length + count vis' false = acc.length + count vis false := by
  fun_induction chain db n vis acc with
  | case1 vis acc =>
    injection h with h; injection h with h1 h2; subst h1 h2; simp
  | case2 => cases h
  | case3 => cases h
  | case4 => cases h
  | case5 n vis acc hn hv hr off ht next sec ih =>
    have := ih h
    have hc := count_set_eq vis n (by simpa using hv)
    simp only [List.length_cons] at this
    omega

theorem items_count (db : Db) (pageOff : Nat) (offs : List (Nat × Nat)) (vis : List Bool) (acc : List Hdr)
    (acc' : List Hdr) (vis' : List Bool) (h : items db pageOff offs vis acc = some (acc', vis')) :
    hops acc' + count vis' false = hops acc + count vis false := by
  induction offs generalizing vis acc with
  | nil =>
    simp only [items] at h
    injection h with h; injection h with h1 h2; subst h1 h2; rfl
  | cons d rest ih =>
    obtain ⟨k, d⟩ := d
    simp only [items] at h
    split at h
    · cases h
    · split at h
      · split at h
        · have h1 := ih _ _ h
          rw [hops_append, hops_single] at h1
          simpa [Hdr.hops] using h1
        · exact ih _ _ h
      · split at h
        · exact ih _ _ h
        · split at h
          · cases h
          · split at h
            · cases h
            · rename_i rope vis1 hch
              have h1 := ih _ _ h
              have h2 := chain_count _ _ _ _ _ _ hch
              rw [hops_append, hops_single] at h1
              simp only [List.length_nil] at h2
              simp only [Hdr.hops] at h1
              omega

theorem pages_count (db : Db) (n : Nat) (vis : List Bool) (acc : List Hdr) (hps : 0 < db.pageSz)
    (rs : List Hdr) (h : pages db n vis acc hps = some rs) :
    hops rs ≤ hops acc + count vis false := by
  fun_induction pages db n vis acc hps with
  | case1 => injection h with h; subst h; omega
  | case2 => cases h
  | case3 n vis acc _ _ off typ _ ih => exact ih h
  | case4 => cases h
  | case5 => cases h
  | case6 n vis acc _ _ off typ _ offs _ acc' vis' hit ih =>
    have h1 := ih h
    have h2 := items_count _ _ _ _ _ _ _ hit
    omega

theorem parse_pageSz (file : Bytes) (db : Db) (h : parse file = some db) :
    512 ≤ db.pageSz ∧ db.file = file := by
  unfold parse at h
  split at h; · cases h
  simp only at h
  split at h; · cases h
  split at h; · cases h
  split at h; · cases h
  split at h; · cases h
  rename_i _ _ _ hps
  injection h with h
  subst h
  simp only [Bool.not_eq_true] at hps
  refine ⟨?_, rfl⟩
  simp only
  unfold pageSizeOK at hps
  simp at hps
  omega

end Bdb

namespace Ndb

/-- every slot that `Parse` keeps was read from 16 bytes inside the file -/
theorem slots_len (file : Bytes) (limit off : Nat) (acc ss : List Slot)
    (h : slots file limit off acc = some ss) (hoff : off ≤ file.length ∨ off ≥ limit) :
    ss.length * 16 + off ≤ acc.length * 16 + max file.length off := by
  fun_induction slots file limit off acc with
  | case1 => injection h with h; subst h; simp; omega
  | case2 => cases h
  | case3 => cases h
  | case4 off acc _ _ _ _ ih =>
    have := ih h (by omega)
    omega
  | case5 => cases h
  | case6 off acc _ hrd _ _ _ ih =>
    have := ih h (by omega)
    simp only [List.length_cons] at this
    omega

theorem getHeader_within (file : Bytes) (s : Slot) (id : Nat) (sec : Section)
    (h : getHeader file s id = some sec) :
    s.blkOffset * 16 + s.blkCount * 16 ≤ file.length ∧ sec.start = s.blkOffset * 16 + 16 ∧ sec.start ≤ file.length := by
  unfold getHeader at h
  simp only at h
  split at h; · cases h
  split at h; · cases h
  split at h; · cases h
  split at h; · cases h
  split at h; · cases h
  split at h; · cases h
  split at h; · cases h
  injection h with h
  subst h
  refine ⟨?_, rfl, ?_⟩
  · omega
  · show s.blkOffset * 16 + 16 ≤ file.length
    omega

end Ndb

end ClairModel.RpmDb
