/-
  Lemmas about the Debian release table over histories (Model/JoinHist.lean):
  the table only grows, an entry never changes, and a release read once is
  stamped by every later Parse.
-/
import ClairModel.Model.JoinHist
import ClairModel.Lib.Sm

namespace ClairModel.Join
open ClairModel

theorem RelTable.get_append_some (t u : RelTable) (c : Bytes) (v : Int) (h : t.get c = some v) :
    RelTable.get (t ++ u) c = some v := by
  induction t with
  | nil => simp [RelTable.get] at h
  | cons kv rest ih =>
    obtain ⟨k, w⟩ := kv
    simp only [List.cons_append, RelTable.get] at h ⊢
    split <;> simp_all

theorem RelTable.get_append_none (t u : RelTable) (c : Bytes) (h : t.get c = none) :
    RelTable.get (t ++ u) c = RelTable.get u c := by
  induction t with
  | nil => rfl
  | cons kv rest ih =>
    obtain ⟨k, w⟩ := kv
    simp only [List.cons_append, RelTable.get] at h ⊢
    split <;> simp_all

/-- An entry, once there, is never changed by `record`. -/
theorem RelTable.get_record_mono (t : RelTable) (c c' : Bytes) (v v' : Int) (h : t.get c = some v) :
    (t.record c' v').get c = some v := by
  unfold RelTable.record
  split
  · exact h
  · exact RelTable.get_append_some t _ c v h

/-- After `record c v` the name is known: with the old version if there was
    one, else with `v`. -/
theorem RelTable.get_record_self (t : RelTable) (c : Bytes) (v : Int) :
    (t.record c v).get c = some ((t.get c).getD v) := by
  unfold RelTable.record
  cases h : t.get c with
  | some w => simp [h]
  | none =>
    simp only [Option.getD_none]
    rw [RelTable.get_append_none t _ c h]
    simp [RelTable.get]

theorem RelTable.get_learn_mono (t : RelTable) (e : Bytes × RelOutcome) (c : Bytes) (v : Int)
    (h : t.get c = some v) : (t.learn e).get c = some v := by
  unfold RelTable.learn
  split
  · exact RelTable.get_record_mono t c e.1 v _ h
  · exact h

theorem RelTable.get_foldl_learn_mono (es : List (Bytes × RelOutcome)) (t : RelTable) (c : Bytes) (v : Int)
    (h : t.get c = some v) : (es.foldl RelTable.learn t).get c = some v := by
  induction es generalizing t with
  | nil => exact h
  | cons e rest ih => exact ih _ (RelTable.get_learn_mono t e c v h)

/-- A name read with a version in this enumeration is known afterwards. -/
theorem RelTable.get_foldl_learn_known (es : List (Bytes × RelOutcome)) (t : RelTable) (c : Bytes) (v : Int)
    (h : (c, RelOutcome.version v) ∈ es) : ∃ w, (es.foldl RelTable.learn t).get c = some w := by
  induction es generalizing t with
  | nil => simp at h
  | cons e rest ih =>
    rcases List.mem_cons.1 h with rfl | h'
    · refine ⟨(t.get c).getD v, ?_⟩
      exact RelTable.get_foldl_learn_mono rest (t.learn (c, .version v)) c _ (RelTable.get_record_self t c v)
    · exact ih _ h'

/-- Every step of a history keeps what the table knows. -/
theorem histStep_mono (t : RelTable) (e : HistEvent) (c : Bytes) (v : Int) (h : t.get c = some v) :
    (histStep t e).1.get c = some v := by
  cases e with
  | enumerate ok es =>
    cases ok with
    | false => exact h
    | true => exact RelTable.get_foldl_learn_mono es t c v h
  | parse rs => exact h

theorem histRun_mono (evs : List HistEvent) (t : RelTable) (c : Bytes) (v : Int) (h : t.get c = some v) :
    (Sm.run histStep t evs).get c = some v :=
  Sm.invariant_run (Inv := fun t => t.get c = some v) (fun s op hs => histStep_mono s op c v hs) evs t h

/-- A release read successfully somewhere in the history is known at its end. -/
theorem histRun_known (evs : List HistEvent) (t : RelTable) (c : Bytes) (h : readIn c evs) :
    ∃ w, (Sm.run histStep t evs).get c = some w := by
  obtain ⟨es, v, hmem, hin⟩ := h
  obtain ⟨pre, post, rfl⟩ := List.append_of_mem hmem
  rw [Sm.run_append]
  simp only [Sm.run_cons]
  obtain ⟨w, hw⟩ := RelTable.get_foldl_learn_known es (Sm.run histStep t pre) c v hin
  exact ⟨w, histRun_mono post _ c w (by simpa [histStep] using hw)⟩

theorem mem_filterMap_stamp (t : RelTable) (rs : List Bytes) (c : Bytes) (w : Int)
    (hc : c ∈ rs) (hw : t.get c = some w) : (c, debianUpdDist c w) ∈ rs.filterMap (stampOne t) := by
  rw [List.mem_filterMap]
  exact ⟨c, hc, by simp [stampOne, hw]⟩

/-- One step of the Alpine factory: the set handed out is the factory's
    current set afterwards, or the result of an incomplete walk (and then the
    state is unchanged). -/
theorem alpStep_set_is_cur (s : AlpState) (e : AlpEvent) (ns : List Bytes)
    (h : (alpStep s e).2 = .set ns) :
    (alpStep s e).1.cur = ns ∨ (∃ st etag, e = .stampIs st etag (some (ns, false)) ∧ (alpStep s e).1 = s) := by
  cases e with
  | stampFault => simp [alpStep] at h
  | notModified => left; simpa [alpStep] using h
  | stampIs st etag walk =>
    cases hk : alpKeeps s st etag with
    | true => left; simpa [alpStep, hk] using h
    | false =>
      cases walk with
      | none => simp [alpStep, hk] at h
      | some w =>
        obtain ⟨found, complete⟩ := w
        cases complete with
        | true => left; simpa [alpStep, hk] using h
        | false =>
          right
          have : found = ns := by simpa [alpStep, hk] using h
          subst this
          exact ⟨st, etag, rfl, by simp [alpStep, hk]⟩

/-- The state changes only by a COMPLETE walk under a new stamp. -/
theorem alpStep_cur_change (s : AlpState) (e : AlpEvent) (h : (alpStep s e).1 ≠ s) :
    ∃ st etag found, e = .stampIs st etag (some (found, true)) ∧ s.stamp ≠ some st ∧
      (alpStep s e).1 = { stamp := some st, etag := etag, cur := found } := by
  cases e with
  | stampFault => simp [alpStep] at h
  | notModified => simp [alpStep] at h
  | stampIs st etag walk =>
    cases hk : alpKeeps s st etag with
    | true => simp [alpStep, hk] at h
    | false =>
      cases walk with
      | none => simp [alpStep, hk] at h
      | some w =>
        obtain ⟨found, complete⟩ := w
        cases complete with
        | false => simp [alpStep, hk] at h
        | true =>
          refine ⟨st, etag, found, rfl, ?_, by simp [alpStep, hk]⟩
          intro hs
          simp [alpKeeps, hs] at hk

/-- The OSV factory's invariant under a bucket whose validator determines its
    content: the stored set is the set of the stored validator's listing. -/
def osvInv (content : Bytes → List Bytes) (s : OsvState) : Prop :=
  s.etag = [] ∨ s.cur = osvUpdaterNames (content s.etag)

theorem osvStep_inv (content : Bytes → List Bytes) (s : OsvState) (etag : Bytes) (ok : Bool)
    (h : osvInv content s) : osvInv content (osvStep s (.listing etag (content etag) ok)).1 := by
  cases hk : (s.etag != [] && s.etag == etag) with
  | true => simpa [osvStep, hk] using h
  | false =>
    cases ok with
    | true => right; simp [osvStep, hk]
    | false => simpa [osvStep, hk] using h

theorem osvStep_answer (content : Bytes → List Bytes) (s : OsvState) (etag : Bytes) (ok : Bool) (ns : List Bytes)
    (h : osvInv content s) (hout : (osvStep s (.listing etag (content etag) ok)).2 = .set ns) :
    ns = osvUpdaterNames (content etag) := by
  cases hk : (s.etag != [] && s.etag == etag) with
  | true =>
    have hk' := hk
    simp only [Bool.and_eq_true, bne_iff_ne, ne_eq, beq_iff_eq] at hk'
    have hcur : s.cur = ns := by simpa [osvStep, hk] using hout
    rcases h with h | h
    · exact absurd h hk'.1
    · rw [← hcur, h, hk'.2]
  | false =>
    cases ok with
    | true =>
      have : osvUpdaterNames (content etag) = ns := by simpa [osvStep, hk] using hout
      exact this.symm
    | false => simp [osvStep, hk] at hout

theorem osvRun_inv (content : Bytes → List Bytes) (evs : List (Option (Bytes × Bool))) (s : OsvState)
    (h : osvInv content s) : osvInv content (Sm.run osvStep s (evs.map (osvEvOf content))) := by
  induction evs generalizing s with
  | nil => exact h
  | cons e rest ih =>
    simp only [List.map_cons, Sm.run_cons]
    apply ih
    cases e with
    | none => simpa [osvEvOf, osvStep] using h
    | some p =>
      obtain ⟨t, k⟩ := p
      exact osvStep_inv content s t k h

end ClairModel.Join
