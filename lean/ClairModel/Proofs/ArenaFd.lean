import ClairModel.Model.ArenaFd
import ClairModel.Proofs.ArenaHeld

/-!
  Invariant of the descriptor layer (Model/ArenaFd.lean) and its preservation by every
  transition: the descriptor number an rc's os.File was opened with names the rc's own file
  for as long as that file is open; every descriptor in the table that the arena code owns
  is accounted for by the arena state (an open rc, a flight between openTemp and its end, a
  task past Val).
-/
set_option linter.unusedSimpArgs false
namespace ClairModel.ArenaFd
open ClairModel ClairModel.Arena

theorem look_eq (tab : Tab) (n : Nat) : look tab n = (tab[n]?).getD none := by
  simp [look, List.getD_eq_getElem?_getD]

theorem look_some_lt {tab : Tab} {n : Nat} {x : Ent} (h : look tab n = some x) : n < tab.length := by
  rcases Nat.lt_or_ge n tab.length with hl | hl
  · exact hl
  · simp [look_eq, List.getElem?_eq_none hl] at h

theorem look_some_iff {tab : Tab} {n : Nat} {x : Ent} : look tab n = some x ↔ tab[n]? = some (some x) := by
  rw [look_eq]
  cases h : tab[n]? with
  | none => simp
  | some y => simp

/-- The slot `alloc` picks is free (or past the end). -/
theorem alloc_slot_free (tab : Tab) : look tab (tab.findIdx Option.isNone) = none := by
  rw [look_eq]
  rcases Nat.lt_or_ge (tab.findIdx Option.isNone) tab.length with hl | hl
  · have := List.findIdx_getElem (w := hl)
    rw [List.getElem?_eq_getElem hl]
    cases hx : tab[tab.findIdx Option.isNone] with
    | none => rfl
    | some y => rw [hx] at this; simp at this
  · simp [List.getElem?_eq_none hl]

theorem look_alloc_new (tab : Tab) (e : Ent) : look (alloc tab e).1 (alloc tab e).2 = some e := by
  simp only [alloc]
  split
  · rename_i hl
    rw [look_some_iff]
    simp [List.getElem?_set_self hl]
  · rename_i hl
    have hge : tab.length ≤ tab.findIdx Option.isNone := Nat.le_of_not_lt hl
    have heq : tab.findIdx Option.isNone = tab.length := Nat.le_antisymm List.findIdx_le_length hge
    rw [look_some_iff, heq]
    simp

theorem look_alloc_old {tab : Tab} {n : Nat} {x : Ent} (e : Ent) (h : look tab n = some x) :
    look (alloc tab e).1 n = some x := by
  have hfree := alloc_slot_free tab
  have hne : tab.findIdx Option.isNone ≠ n := by
    intro he; rw [he, h] at hfree; cases hfree
  have hlt := look_some_lt h
  rw [look_some_iff] at h ⊢
  simp only [alloc]
  split
  · rw [List.getElem?_set_ne hne]; exact h
  · rw [List.getElem?_append_left hlt]; exact h

theorem alloc_snd (tab : Tab) (e : Ent) : (alloc tab e).2 = tab.findIdx Option.isNone := by
  simp only [alloc]; split <;> rfl

theorem look_alloc_inv {tab : Tab} {n : Nat} {x e : Ent} (h : look (alloc tab e).1 n = some x) :
    (n = (alloc tab e).2 ∧ x = e) ∨ look tab n = some x := by
  by_cases hn : n = (alloc tab e).2
  · left
    refine ⟨hn, ?_⟩
    rw [hn, look_alloc_new] at h
    exact (Option.some.inj h).symm
  · right
    rw [alloc_snd] at hn
    rw [look_some_iff] at h ⊢
    simp only [alloc] at h
    split at h
    · rw [List.getElem?_set_ne (Ne.symm hn)] at h; exact h
    · rename_i hl
      have hge : tab.length ≤ tab.findIdx Option.isNone := Nat.le_of_not_lt hl
      have heq : tab.findIdx Option.isNone = tab.length := Nat.le_antisymm List.findIdx_le_length hge
      rw [heq] at hn
      rcases Nat.lt_or_ge n tab.length with hlt | hge'
      · rw [List.getElem?_append_left hlt] at h; exact h
      · have : n < (tab ++ [some e]).length := by
          rcases Nat.lt_or_ge n (tab ++ [some e]).length with h1 | h1
          · exact h1
          · rw [List.getElem?_eq_none h1] at h; cases h
        simp at this
        omega

theorem look_closeOwner {tab : Tab} {o : Owner} {n : Nat} {x : Ent} :
    look (closeOwner tab o) n = some x ↔ look tab n = some x ∧ x.owner ≠ o := by
  simp only [look_some_iff, closeOwner, List.getElem?_map]
  cases h : tab[n]? with
  | none => simp
  | some y =>
    cases y with
    | none => simp
    | some z =>
      by_cases hz : z.owner = o
      · simp [hz]
        intro he; subst he; exact hz
      · simp [hz]
        intro he; subst he; exact hz

theorem look_retag {tab : Tab} {o o' : Owner} {n : Nat} {x : Ent} :
    look (retag tab o o') n = some x ↔
      ∃ y, look tab n = some y ∧ x = (if y.owner = o then { y with owner := o' } else y) := by
  simp only [look_some_iff, retag, List.getElem?_map]
  cases h : tab[n]? with
  | none => simp
  | some y =>
    cases y with
    | none => simp
    | some z =>
      by_cases hz : z.owner = o
      · simp [hz]; exact eq_comm
      · simp [hz]; exact eq_comm

theorem look_set_none {tab : Tab} {n m : Nat} {x : Ent} :
    look (tab.set n none) m = some x ↔ m ≠ n ∧ look tab m = some x := by
  simp only [look_some_iff]
  by_cases hm : m = n
  · subst hm
    rcases Nat.lt_or_ge m tab.length with hl | hl
    · simp [List.getElem?_set_self hl]
    · simp [List.getElem?_eq_none, hl]
  · rw [List.getElem?_set_ne (Ne.symm hm)]
    simp [hm]

theorem fdOf_some {tab : Tab} {o : Owner} {n : Nat} (h : fdOf tab o = some n) :
    ∃ i, look tab n = some ⟨o, i⟩ := by
  simp only [fdOf] at h
  split at h
  · rename_i hl
    cases h
    have := List.findIdx_getElem (w := hl)
    cases hx : tab[tab.findIdx _] with
    | none => rw [hx] at this; simp at this
    | some y =>
      rw [hx] at this
      simp at this
      refine ⟨y.ino, ?_⟩
      rw [look_some_iff, List.getElem?_eq_getElem hl, hx]
      cases y; simp at this ⊢; exact this
  · cases h

theorem fdOf_none {tab : Tab} {o : Owner} (h : fdOf tab o = none) (n i : Nat) :
    look tab n ≠ some ⟨o, i⟩ := by
  intro hl
  simp only [fdOf] at h
  split at h
  · cases h
  · rename_i hnl
    apply hnl
    have hlt := look_some_lt hl
    rw [look_some_iff] at hl
    apply List.findIdx_lt_length_of_exists
    refine ⟨some ⟨o, i⟩, List.mem_of_getElem? hl, ?_⟩
    simp



/-- The phases in which the flight's temp file is open and not yet stored. -/
def inS (p : Phase) : Prop := p = .requesting ∨ p = .fetched

/-- The rc whose file task `t` reads through a private descriptor. -/
def uses (a : Arena.State) (t : Nat) : Option Nat := (a.tasks[t]?).bind Pc.usesFile

structure FInv (s : FState) : Prop where
  inv : Inv s.a
  /-- the number the rc's os.File was opened with still names the rc's own file -/
  rcAt : ∀ r, (s.a.rc r).fileOpen = true → look s.tab (s.rcNum r) = some ⟨.rc r, s.rcIno r⟩
  rcOnly : ∀ n r i, look s.tab n = some ⟨.rc r, i⟩ → (s.a.rc r).fileOpen = true
  tmpAt : ∀ k f, s.a.flight k = some f → inS f.phase → ∃ n i, look s.tab n = some ⟨.tmp k, i⟩
  tmpOnly : ∀ n k i, look s.tab n = some ⟨.tmp k, i⟩ → ∃ f, s.a.flight k = some f ∧ inS f.phase
  privOnly : ∀ n t i, look s.tab n = some ⟨.priv t, i⟩ → ∃ r, uses s.a t = some r ∧ i = s.rcIno r

theorem finv_init : FInv finit := by
  refine ⟨inv_init, ?_, ?_, ?_, ?_, ?_⟩ <;> simp [finit, look, Arena.init]
  all_goals (intros; simp_all)

/-- A transition that leaves the table alone, opens and closes no file, keeps the flights with
    an open temp file and the tasks with a private descriptor as they are. -/
theorem finv_frame {s : FState} (h : FInv s) (a' : Arena.State) (hinv : Inv a')
    (hrc : ∀ r, (a'.rc r).fileOpen = (s.a.rc r).fileOpen)
    (hfl1 : ∀ k f', a'.flight k = some f' → inS f'.phase → ∃ f, s.a.flight k = some f ∧ inS f.phase)
    (hfl2 : ∀ k f, s.a.flight k = some f → inS f.phase → ∃ f', a'.flight k = some f' ∧ inS f'.phase)
    (htk : ∀ t r, uses s.a t = some r → uses a' t = some r) :
    FInv { s with a := a' } := by
  refine ⟨hinv, ?_, ?_, ?_, ?_, ?_⟩
  · intro r ho
    exact h.rcAt r (by rw [← hrc r]; exact ho)
  · intro n r i hl
    rw [hrc r]
    exact h.rcOnly n r i hl
  · intro k f' hf' hs
    obtain ⟨f, hf, hsf⟩ := hfl1 k f' hf' hs
    exact h.tmpAt k f hf hsf
  · intro n k i hl
    obtain ⟨f, hf, hsf⟩ := h.tmpOnly n k i hl
    exact hfl2 k f hf hsf
  · intro n t i hl
    obtain ⟨r, hu, hi⟩ := h.privOnly n t i hl
    exact ⟨r, htk t r hu, hi⟩


theorem fstep_base_eq (s : FState) (op : Op) :
    fstep s (.base op) = ({ effects s op (step s.a op).2 (step s.a op).1 with a := (step s.a op).1 }, (step s.a op).2) := by
  simp [fstep, fstepG, arenaStep]

theorem uses_set_ne {a : Arena.State} {t t' : Nat} (p : Pc) (h : t' ≠ t) :
    uses (setTask a t p) t' = uses a t' := by
  simp only [uses, setTask]
  rw [List.getElem?_set_ne (Ne.symm h)]

theorem uses_set_self {a : Arena.State} {t : Nat} {q : Pc} (p : Pc) (h : a.tasks[t]? = some q) :
    uses (setTask a t p) t = p.usesFile := by
  have hlt : t < a.tasks.length := by
    rcases Nat.lt_or_ge t a.tasks.length with hl | hl
    · exact hl
    · rw [List.getElem?_eq_none hl] at h; cases h
  simp only [uses, setTask]
  rw [List.getElem?_set_self hlt]
  rfl

/-- A task other than a holder moves to a state without a private descriptor. -/
theorem htk_setTask {a : Arena.State} {t : Nat} {q p : Pc} (hq : a.tasks[t]? = some q)
    (hqu : q.usesFile = none) : ∀ t' r, uses a t' = some r → uses (setTask a t p) t' = some r := by
  intro t' r hu
  by_cases ht : t' = t
  · subst ht
    simp [uses, hq, hqu] at hu
  · rw [uses_set_ne p ht]; exact hu


theorem finv_spawn {s : FState} (h : FInv s) (k : Nat) : FInv (fstep s (.base (.spawn k))).1 := by
  rw [fstep_base_eq]
  have he : effects s (.spawn k) (step s.a (.spawn k)).2 (step s.a (.spawn k)).1 = s := by
    simp [effects]
  simp only [he]
  refine finv_frame h _ (inv_step h.inv _) (fun r => rfl) (fun k f hf hs => ⟨f, hf, hs⟩)
    (fun k f hf hs => ⟨f, hf, hs⟩) ?_
  intro t r hu
  simp only [step, stepG, uses] at hu ⊢
  cases ht : s.a.tasks[t]? with
  | none => simp [ht] at hu
  | some p =>
    have hlt : t < s.a.tasks.length := by
      rcases Nat.lt_or_ge t s.a.tasks.length with hl | hl
      · exact hl
      · rw [List.getElem?_eq_none hl] at ht; cases ht
    rw [List.getElem?_append_left hlt]
    exact hu


/-- A flight moves between phases on the same side of "its temp file is open". -/
theorem hfl_upd {fl : Nat → Option Flight} {k : Nat} {fnew : Flight}
    (h1 : inS fnew.phase → ∃ f, fl k = some f ∧ inS f.phase)
    (h2 : ∀ f, fl k = some f → inS f.phase → inS fnew.phase) :
    (∀ k' f', upd fl k (some fnew) k' = some f' → inS f'.phase → ∃ f, fl k' = some f ∧ inS f.phase) ∧
    (∀ k' f, fl k' = some f → inS f.phase → ∃ f', upd fl k (some fnew) k' = some f' ∧ inS f'.phase) := by
  constructor
  · intro k' f' hf' hs
    by_cases hk : k' = k
    · subst hk
      simp only [upd_same, Option.some.injEq] at hf'
      subst hf'
      exact h1 hs
    · rw [upd_other _ _ _ _ hk] at hf'
      exact ⟨f', hf', hs⟩
  · intro k' f hf hs
    by_cases hk : k' = k
    · subst hk
      exact ⟨fnew, by simp, h2 f hf hs⟩
    · exact ⟨f, by rw [upd_other _ _ _ _ hk]; exact hf, hs⟩

theorem not_inS_of {p : Phase} (h : p ≠ .requesting ∧ p ≠ .fetched) : ¬ inS p := by
  intro hs; rcases hs with hs | hs
  · exact h.1 hs
  · exact h.2 hs

/-- openTemp: the flight of `k`, whose temp file was not open, now has one. -/
theorem finv_openTmp {s : FState} (h : FInv s) (k : Nat) (a' : Arena.State) (hinv : Inv a')
    (hrc : ∀ r, (a'.rc r).fileOpen = (s.a.rc r).fileOpen)
    (hold : ∀ f, s.a.flight k = some f → ¬ inS f.phase)
    (hnew : ∃ f', a'.flight k = some f' ∧ inS f'.phase)
    (hoth : ∀ k', k' ≠ k → a'.flight k' = s.a.flight k')
    (htk : ∀ t r, uses s.a t = some r → uses a' t = some r) :
    FInv { openTmp s k with a := a' } := by
  refine ⟨hinv, ?_, ?_, ?_, ?_, ?_⟩
  · intro r ho
    exact look_alloc_old _ (h.rcAt r (by rw [← hrc r]; exact ho))
  · intro n r i hl
    rw [hrc r]
    rcases look_alloc_inv hl with ⟨_, he⟩ | hl'
    · cases he
    · exact h.rcOnly n r i hl'
  · intro k' f' hf' hs
    by_cases hk : k' = k
    · subst hk
      exact ⟨_, _, look_alloc_new _ _⟩
    · rw [hoth k' hk] at hf'
      obtain ⟨n, i, hl⟩ := h.tmpAt k' f' hf' hs
      exact ⟨n, i, look_alloc_old _ hl⟩
  · intro n k' i hl
    rcases look_alloc_inv hl with ⟨_, he⟩ | hl'
    · cases he
      exact hnew
    · obtain ⟨f, hf, hs⟩ := h.tmpOnly n k' i hl'
      by_cases hk : k' = k
      · subst hk
        exact absurd hs (hold f hf)
      · exact ⟨f, by rw [hoth k' hk]; exact hf, hs⟩
  · intro n t i hl
    rcases look_alloc_inv hl with ⟨_, he⟩ | hl'
    · cases he
    · obtain ⟨r, hu, hi⟩ := h.privOnly n t i hl'
      exact ⟨r, htk t r hu, hi⟩

/-- The deferred `f.Close()` of a failed fetch: the flight of `k` no longer has a temp file. -/
theorem finv_closeTmp {s : FState} (h : FInv s) (k : Nat) (a' : Arena.State) (hinv : Inv a')
    (hrc : ∀ r, (a'.rc r).fileOpen = (s.a.rc r).fileOpen)
    (hnew : ∀ f', a'.flight k = some f' → ¬ inS f'.phase)
    (hoth : ∀ k', k' ≠ k → a'.flight k' = s.a.flight k')
    (htk : ∀ t r, uses s.a t = some r → uses a' t = some r) :
    FInv { s with tab := closeOwner s.tab (.tmp k), a := a' } := by
  refine ⟨hinv, ?_, ?_, ?_, ?_, ?_⟩
  · intro r ho
    exact look_closeOwner.2 ⟨h.rcAt r (by rw [← hrc r]; exact ho), by simp⟩
  · intro n r i hl
    rw [hrc r]
    exact h.rcOnly n r i (look_closeOwner.1 hl).1
  · intro k' f' hf' hs
    have hk : k' ≠ k := by
      intro he; subst he; exact hnew f' hf' hs
    rw [hoth k' hk] at hf'
    obtain ⟨n, i, hl⟩ := h.tmpAt k' f' hf' hs
    exact ⟨n, i, look_closeOwner.2 ⟨hl, by simpa using hk⟩⟩
  · intro n k' i hl
    obtain ⟨hl', hne⟩ := look_closeOwner.1 hl
    have hk : k' ≠ k := by simpa using hne
    obtain ⟨f, hf, hs⟩ := h.tmpOnly n k' i hl'
    exact ⟨f, by rw [hoth k' hk]; exact hf, hs⟩
  · intro n t i hl
    obtain ⟨r, hu, hi⟩ := h.privOnly n t i (look_closeOwner.1 hl).1
    exact ⟨r, htk t r hu, hi⟩


theorem fstep_base_fst (s : FState) (op : Op) (a' : Arena.State) (out : Out) (h : step s.a op = (a', out)) :
    (fstep s (.base op)).1 = { effects s op out a' with a := a' } := by
  rw [fstep_base_eq, h]

theorem finv_fnet {s : FState} (h : FInv s) (k : Nat) (ok : Bool) : FInv (fstep s (.base (.fnet k ok))).1 := by
  have hinv := inv_step h.inv (.fnet k ok)
  generalize hst : step s.a (.fnet k ok) = res at hinv
  obtain ⟨a', out⟩ := res
  rw [fstep_base_fst s _ a' out hst]
  simp only [step, stepG] at hst
  split at hst
  · rename_i f hf
    split at hst
    · rename_i hph
      have hold : ∀ f0, s.a.flight k = some f0 → ¬ inS f0.phase := by
        intro f0 hf0; rw [hf] at hf0; cases hf0; rw [hph]; exact not_inS_of ⟨by simp, by simp⟩
      split at hst
      · cases hst
        simp only [effects]
        obtain ⟨h1, h2⟩ := hfl_upd (fl := s.a.flight) (k := k) (fnew := { f with phase := .failed })
          (by intro hs; exact absurd hs (not_inS_of ⟨by simp, by simp⟩))
          (by intro f0 hf0 hs; exact absurd hs (hold f0 hf0))
        exact finv_frame h _ hinv (fun r => rfl) h1 h2 (fun t r hu => hu)
      · split at hst
        · cases hst
          simp only [effects]
          exact finv_openTmp h k _ hinv (fun r => rfl) hold
            ⟨{ f with phase := .fetched }, by simp [setPhase], Or.inr rfl⟩
            (by intro k' hk; simp [setPhase, upd_other _ _ _ _ hk]) (fun t r hu => hu)
        · cases hst
          simp only [effects]
          obtain ⟨h1, h2⟩ := hfl_upd (fl := s.a.flight) (k := k) (fnew := { f with phase := .failed })
            (by intro hs; exact absurd hs (not_inS_of ⟨by simp, by simp⟩))
            (by intro f0 hf0 hs; exact absurd hs (hold f0 hf0))
          exact finv_frame h _ hinv (fun r => rfl) h1 h2 (fun t r hu => hu)
    · cases hst
      simp only [effects]
      exact h
  · cases hst
    simp only [effects]
    exact h


/-- Prelude shared by the cases: name the result of the arena transition. -/
theorem finv_of_step {s : FState} (h : FInv s) (op : Op)
    (H : ∀ a' out, step s.a op = (a', out) → Inv a' → FInv { effects s op out a' with a := a' }) :
    FInv (fstep s (.base op)).1 := by
  have hinv := inv_step h.inv op
  generalize hst : step s.a op = res at hinv
  obtain ⟨a', out⟩ := res
  rw [fstep_base_fst s _ a' out hst]
  exact H a' out hst hinv

theorem finv_flightOnly {s : FState} (h : FInv s) {k : Nat} {f : Flight} (hf : s.a.flight k = some f)
    (hnot : ¬ inS f.phase) (fnew : Flight) (hnew : ¬ inS fnew.phase) (hits' : Nat → Nat)
    (hinv : Inv { s.a with flight := upd s.a.flight k (some fnew), hits := hits' }) :
    FInv { s with a := { s.a with flight := upd s.a.flight k (some fnew), hits := hits' } } := by
  obtain ⟨h1, h2⟩ := hfl_upd (fl := s.a.flight) (k := k) (fnew := fnew)
    (by intro hs; exact absurd hs hnew)
    (by intro f0 hf0 hs; rw [hf] at hf0; cases hf0; exact absurd hs hnot)
  exact finv_frame h _ hinv (fun r => rfl) h1 h2 (fun t r hu => hu)

theorem finv_fload {s : FState} (h : FInv s) (k : Nat) (v : Bool) : FInv (fstep s (.base (.fload k v))).1 := by
  apply finv_of_step h
  intro a' out hst hinv
  simp only [step, stepG] at hst
  split at hst
  · rename_i f hf
    split at hst
    · rename_i hph
      have hnot : ¬ inS f.phase := by rw [hph]; exact not_inS_of ⟨by simp, by simp⟩
      split at hst
      · split at hst
        · cases hst; simp only [effects]
          exact finv_flightOnly h hf hnot _ (not_inS_of ⟨by simp, by simp⟩) s.a.hits hinv
        · cases hst; simp only [effects]
          exact finv_flightOnly h hf hnot _ (not_inS_of ⟨by simp, by simp⟩) s.a.hits hinv
      · cases hst; simp only [effects]
        exact finv_flightOnly h hf hnot _ (not_inS_of ⟨by simp, by simp⟩) s.a.hits hinv
    · cases hst; simp only [effects]; exact h
  · cases hst; simp only [effects]; exact h

theorem finv_ftmpfail {s : FState} (h : FInv s) (k : Nat) : FInv (fstep s (.base (.ftmpfail k))).1 := by
  apply finv_of_step h
  intro a' out hst hinv
  simp only [step, stepG] at hst
  split at hst
  · rename_i f hf
    split at hst
    · rename_i hph
      have hnot : ¬ inS f.phase := by rw [hph]; exact not_inS_of ⟨by simp, by simp⟩
      cases hst; simp only [effects]
      exact finv_flightOnly h hf hnot _ (not_inS_of ⟨by simp, by simp⟩) s.a.hits hinv
    · cases hst; simp only [effects]; exact h
  · cases hst; simp only [effects]; exact h

theorem finv_freq {s : FState} (h : FInv s) (k : Nat) : FInv (fstep s (.base (.freq k))).1 := by
  apply finv_of_step h
  intro a' out hst hinv
  simp only [step, stepG] at hst
  split at hst
  · rename_i f hf
    split at hst
    · rename_i hph
      have hnot : ¬ inS f.phase := by rw [hph]; exact not_inS_of ⟨by simp, by simp⟩
      split at hst
      · cases hst; simp only [effects]
        exact finv_flightOnly h hf hnot _ (not_inS_of ⟨by simp, by simp⟩) s.a.hits hinv
      · cases hst; simp only [effects]
        exact finv_openTmp h k _ hinv (fun r => rfl)
          (by intro f0 hf0; rw [hf] at hf0; cases hf0; exact hnot)
          ⟨{ f with phase := .requesting }, by simp [setPhase], Or.inl rfl⟩
          (by intro k' hk; simp [setPhase, upd_other _ _ _ _ hk]) (fun t r hu => hu)
    · cases hst; simp only [effects]; exact h
  · cases hst; simp only [effects]; exact h

theorem finv_fbody {s : FState} (h : FInv s) (k : Nat) (ok : Bool) : FInv (fstep s (.base (.fbody k ok))).1 := by
  apply finv_of_step h
  intro a' out hst hinv
  simp only [step, stepG] at hst
  split at hst
  · rename_i f hf
    split at hst
    · rename_i hph
      have hfail : FInv { s with tab := closeOwner s.tab (.tmp k), a := setPhase s.a k f .failed } →
          FInv { s with tab := closeOwner s.tab (.tmp k), a := setPhase s.a k f .failed } := id
      split at hst
      · cases hst; simp only [effects]
        exact finv_closeTmp h k _ hinv (fun r => rfl)
          (by intro f' hf'; simp [setPhase] at hf'; subst hf'; exact not_inS_of ⟨by simp, by simp⟩)
          (by intro k' hk; simp [setPhase, upd_other _ _ _ _ hk]) (fun t r hu => hu)
      · split at hst
        · cases hst; simp only [effects]
          obtain ⟨h1, h2⟩ := hfl_upd (fl := s.a.flight) (k := k) (fnew := { f with phase := .fetched })
            (by intro _; exact ⟨f, hf, Or.inl hph⟩)
            (by intro f0 hf0 hs; exact Or.inr rfl)
          exact finv_frame h _ hinv (fun r => rfl) h1 h2 (fun t r hu => hu)
        · cases hst; simp only [effects]
          exact finv_closeTmp h k _ hinv (fun r => rfl)
            (by intro f' hf'; simp [setPhase] at hf'; subst hf'; exact not_inS_of ⟨by simp, by simp⟩)
            (by intro k' hk; simp [setPhase, upd_other _ _ _ _ hk]) (fun t r hu => hu)
    · cases hst; simp only [effects]; exact h
  · cases hst; simp only [effects]; exact h


theorem finv_enter {s : FState} (h : FInv s) (t : Nat) : FInv (fstep s (.base (.enter t))).1 := by
  apply finv_of_step h
  intro a' out hst hinv
  simp only [step, stepG] at hst
  split at hst
  · rename_i k ht
    split at hst
    · cases hst; simp only [effects]
      exact finv_frame h _ hinv (fun r => rfl) (fun k f hf hs => ⟨f, hf, hs⟩) (fun k f hf hs => ⟨f, hf, hs⟩)
        (htk_setTask ht rfl)
    · rename_i hfl
      cases hst; simp only [effects]
      obtain ⟨h1, h2⟩ := hfl_upd (fl := s.a.flight) (k := k) (fnew := ⟨t, .begun, false⟩)
        (by intro hs; exact absurd hs (not_inS_of ⟨by simp, by simp⟩))
        (by intro f0 hf0 hs; rw [hfl] at hf0; cases hf0)
      exact finv_frame h _ hinv (fun r => rfl) h1 h2 (htk_setTask ht rfl)
  · cases hst; simp only [effects]; exact h

theorem uses_deliver (a : Arena.State) (k : Nat) (res : Option Nat) (t r : Nat)
    (hu : uses a t = some r) : ((a.tasks.map (deliver k res))[t]?).bind Pc.usesFile = some r := by
  simp only [uses] at hu
  rw [List.getElem?_map]
  cases hp : a.tasks[t]? with
  | none => simp [hp] at hu
  | some p =>
    simp only [hp, Option.bind_some, Option.map_some] at hu ⊢
    unfold deliver
    split
    · rename_i hw; subst hw; simp [Pc.usesFile] at hu
    · exact hu

theorem finv_fend {s : FState} (h : FInv s) (k : Nat) : FInv (fstep s (.base (.fend k))).1 := by
  apply finv_of_step h
  intro a' out hst hinv
  simp only [step, stepG] at hst
  split at hst
  · rename_i f hf
    split at hst
    · rename_i res hres
      cases hst; simp only [effects]
      have hnot : ¬ inS f.phase := by
        intro hs; rcases hs with hs | hs <;> (rw [hs] at hres; simp [resultOf] at hres)
      refine finv_frame h _ hinv (fun r => rfl) ?_ ?_ ?_
      · intro k' f' hf' hs
        by_cases hk : k' = k
        · subst hk; simp at hf'
        · simp only [upd_other _ _ _ _ hk] at hf'
          exact ⟨f', hf', hs⟩
      · intro k' f0 hf0 hs
        have hk : k' ≠ k := by
          intro he; subst he; rw [hf] at hf0; cases hf0; exact hnot hs
        exact ⟨f0, by simp only [upd_other _ _ _ _ hk]; exact hf0, hs⟩
      · intro t r hu
        exact uses_deliver s.a k res t r hu
    · cases hst; simp only [effects]; exact h
  · cases hst; simp only [effects]; exact h

theorem finv_ref {s : FState} (h : FInv s) (t : Nat) : FInv (fstep s (.base (.ref t))).1 := by
  apply finv_of_step h
  intro a' out hst hinv
  simp only [step, stepG] at hst
  split at hst
  · rename_i k r ht
    cases hst; simp only [effects]
    refine finv_frame h _ hinv ?_ (fun k f hf hs => ⟨f, hf, hs⟩) (fun k f hf hs => ⟨f, hf, hs⟩) ?_
    · intro r'
      by_cases hr : r' = r
      · subst hr; simp [setTask]
      · simp [setTask, upd_other _ _ _ _ hr]
    · exact htk_setTask ht rfl
  · cases hst; simp only [effects]; exact h


theorem finv_cancel {s : FState} (h : FInv s) (t : Nat) : FInv (fstep s (.base (.cancel t))).1 := by
  apply finv_of_step h
  intro a' out hst hinv
  simp only [step, stepG] at hst
  split at hst
  · rename_i k ht
    split at hst
    · rename_i f hf
      split at hst
      · cases hst
        simp only [effects, ht, hf]
        by_cases hreq : f.phase = .requesting
        · simp only [hreq, if_true] at hinv ⊢
          exact finv_closeTmp h k _ hinv (fun r => rfl)
            (by intro f' hf'; simp [setTask] at hf'; subst hf'; exact not_inS_of ⟨by simp, by simp⟩)
            (by intro k' hk; simp [setTask, upd_other _ _ _ _ hk]) (htk_setTask ht rfl)
        · simp only [hreq, if_false] at hinv ⊢
          obtain ⟨h1, h2⟩ := hfl_upd (fl := s.a.flight) (k := k) (fnew := ⟨f.leader, f.phase, true⟩)
            (by intro hs; exact ⟨f, hf, hs⟩)
            (by intro f0 hf0 hs; rw [hf] at hf0; cases hf0; exact hs)
          exact finv_frame h _ hinv (fun r => rfl) h1 h2 (htk_setTask ht rfl)
      · cases hst; simp only [effects]
        exact finv_frame h _ hinv (fun r => rfl) (fun k f hf hs => ⟨f, hf, hs⟩) (fun k f hf hs => ⟨f, hf, hs⟩)
          (htk_setTask ht rfl)
    · cases hst; simp only [effects]
      exact finv_frame h _ hinv (fun r => rfl) (fun k f hf hs => ⟨f, hf, hs⟩) (fun k f hf hs => ⟨f, hf, hs⟩)
        (htk_setTask ht rfl)
  · cases hst; simp only [effects]; exact h
  · cases hst; simp only [effects]; exact h
  · cases hst; simp only [effects]; exact h

/-- `Val`: the private descriptor is opened on the file that the rc's descriptor number names,
    and that is the rc's own file. -/
theorem finv_val {s : FState} (h : FInv s) (t : Nat) : FInv (fstep s (.base (.val t))).1 := by
  apply finv_of_step h
  intro a' out hst hinv
  simp only [step, stepG] at hst
  split at hst
  · rename_i k r ht
    split at hst
    · rename_i ho
      cases hst
      simp only [effects, ht, reopen, h.rcAt r ho]
      refine ⟨hinv, ?_, ?_, ?_, ?_, ?_⟩
      · intro r' ho'
        exact look_alloc_old _ (h.rcAt r' ho')
      · intro n r' i hl
        rcases look_alloc_inv hl with ⟨_, he⟩ | hl'
        · cases he
        · exact h.rcOnly n r' i hl'
      · intro k' f' hf' hs
        obtain ⟨n, i, hl⟩ := h.tmpAt k' f' hf' hs
        exact ⟨n, i, look_alloc_old _ hl⟩
      · intro n k' i hl
        rcases look_alloc_inv hl with ⟨_, he⟩ | hl'
        · cases he
        · exact h.tmpOnly n k' i hl'
      · intro n t' i hl
        rcases look_alloc_inv hl with ⟨_, he⟩ | hl'
        · cases he
          exact ⟨r, by rw [uses_set_self _ ht]; rfl, rfl⟩
        · obtain ⟨r', hu, hi⟩ := h.privOnly n t' i hl'
          exact ⟨r', htk_setTask ht rfl t' r' hu, hi⟩
    · cases hst; simp only [effects]
      exact finv_frame h _ (by exact hinv) (fun r => rfl) (fun k f hf hs => ⟨f, hf, hs⟩)
        (fun k f hf hs => ⟨f, hf, hs⟩) (htk_setTask ht rfl)
  · cases hst; simp only [effects]; exact h


theorem dec_rc_other (a : Arena.State) {r r' : Nat} (h : r' ≠ r) : (dec true a r).1.rc r' = a.rc r' := by
  simp only [dec]
  split
  · rfl
  · split
    · simp [upd_other _ _ _ _ h]
    · simp [upd_other _ _ _ _ h]

theorem dec_open_mono (a : Arena.State) (r : Nat) (h : ((dec true a r).1.rc r).fileOpen = true) :
    (a.rc r).fileOpen = true := by
  simp only [dec] at h
  split at h
  · exact h
  · split at h
    · simp at h
    · simpa using h

theorem look_closeIfDied {a a' : Arena.State} {tab : Tab} {r n : Nat} {x : Ent} :
    look (closeIfDied a a' tab (some r)) n = some x ↔
      look tab n = some x ∧ ¬ (((a.rc r).fileOpen = true ∧ (a'.rc r).fileOpen = false) ∧ x.owner = .rc r) := by
  simp only [closeIfDied]
  split
  · rename_i hd
    simp only [Bool.and_eq_true, Bool.not_eq_true'] at hd
    rw [look_closeOwner]
    constructor
    · rintro ⟨hl, hne⟩; exact ⟨hl, fun hh => hne hh.2⟩
    · rintro ⟨hl, hne⟩; exact ⟨hl, fun hh => hne ⟨hd, hh⟩⟩
  · rename_i hd
    simp only [Bool.and_eq_true, Bool.not_eq_true'] at hd
    constructor
    · intro hl; exact ⟨hl, fun hh => hd hh.1⟩
    · rintro ⟨hl, _⟩; exact hl

/-- A task gives up its reference on `r` (`rc.dec`, which closes the file with the last
    reference); `closePriv`: it closes its private descriptor first. -/
theorem finv_release {s : FState} (h : FInv s) {t r : Nat} {q p' : Pc} (closePriv : Bool)
    (ht : s.a.tasks[t]? = some q) (hq : closePriv = false → q.usesFile = none)
    (hinv : Inv (setTask (dec true s.a r).1 t p')) :
    FInv { s with tab := closeIfDied s.a (setTask (dec true s.a r).1 t p')
                    (if closePriv then closeOwner s.tab (.priv t) else s.tab) (some r),
                  a := setTask (dec true s.a r).1 t p' } := by
  have hrc' : ∀ r', ((setTask (dec true s.a r).1 t p').rc r').fileOpen = true → (s.a.rc r').fileOpen = true := by
    intro r' ho
    by_cases hr : r' = r
    · subst hr; exact dec_open_mono s.a r' ho
    · have : (setTask (dec true s.a r).1 t p').rc r' = s.a.rc r' := dec_rc_other s.a hr
      rw [this] at ho; exact ho
  have hT1 : ∀ n x, look (if closePriv then closeOwner s.tab (.priv t) else s.tab) n = some x →
      look s.tab n = some x ∧ (closePriv = true → x.owner ≠ .priv t) := by
    intro n x hl
    cases closePriv with
    | false => exact ⟨hl, by intro hh; cases hh⟩
    | true => simp only [if_true] at hl; exact ⟨(look_closeOwner.1 hl).1, fun _ => (look_closeOwner.1 hl).2⟩
  have hT1' : ∀ n x, look s.tab n = some x → x.owner ≠ .priv t →
      look (if closePriv then closeOwner s.tab (.priv t) else s.tab) n = some x := by
    intro n x hl hne
    cases closePriv with
    | false => exact hl
    | true => simp only [if_true]; exact look_closeOwner.2 ⟨hl, hne⟩
  have hfl : (setTask (dec true s.a r).1 t p').flight = s.a.flight := by
    simp only [setTask, dec_flight]
  refine ⟨hinv, ?_, ?_, ?_, ?_, ?_⟩
  · intro r' ho
    have hold := h.rcAt r' (hrc' r' ho)
    refine look_closeIfDied.2 ⟨hT1' _ _ hold (by simp), ?_⟩
    rintro ⟨⟨_, hcl⟩, he⟩
    simp only [Owner.rc.injEq] at he
    subst he
    rw [hcl] at ho; cases ho
  · intro n r' i hl
    obtain ⟨hl1, hnd⟩ := look_closeIfDied.1 hl
    have hold := h.rcOnly n r' i (hT1 _ _ hl1).1
    by_cases hr : r' = r
    · subst hr
      cases hb : ((setTask (dec true s.a r').1 t p').rc r').fileOpen with
      | true => rfl
      | false => exact absurd ⟨⟨hold, hb⟩, rfl⟩ hnd
    · have : (setTask (dec true s.a r).1 t p').rc r' = s.a.rc r' := dec_rc_other s.a hr
      rw [this]; exact hold
  · intro k f' hf' hs
    rw [hfl] at hf'
    obtain ⟨n, i, hl⟩ := h.tmpAt k f' hf' hs
    exact ⟨n, i, look_closeIfDied.2 ⟨hT1' _ _ hl (by simp), by simp⟩⟩
  · intro n k i hl
    rw [hfl]
    exact h.tmpOnly n k i (hT1 _ _ (look_closeIfDied.1 hl).1).1
  · intro n t' i hl
    obtain ⟨hl1, hne⟩ := hT1 _ _ (look_closeIfDied.1 hl).1
    obtain ⟨r'', hu, hi⟩ := h.privOnly n t' i hl1
    have htt : t' ≠ t := by
      intro he; subst he
      cases hc : closePriv with
      | true => exact hne hc rfl
      | false =>
        simp only [uses, ht, Option.bind_some, hq hc] at hu
        cases hu
    refine ⟨r'', ?_, hi⟩
    rw [uses_set_ne p' htt]
    simp only [uses, dec_tasks] at hu ⊢
    exact hu


theorem finv_retry {s : FState} (h : FInv s) (t : Nat) : FInv (fstep s (.base (.retry t))).1 := by
  apply finv_of_step h
  intro a' out hst hinv
  simp only [step, stepG] at hst
  split at hst
  · rename_i k r ht
    simp only [if_true] at hst
    cases hst
    simp only [effects, releasedRc, ht]
    exact finv_release h false ht (fun _ => rfl) hinv
  · cases hst; simp only [effects]; exact h

theorem finv_initOp {s : FState} (h : FInv s) (t : Nat) (ok : Bool) : FInv (fstep s (.base (.init t ok))).1 := by
  apply finv_of_step h
  intro a' out hst hinv
  simp only [step, stepG] at hst
  split at hst
  · rename_i k r ht
    split at hst
    · cases hst
      have he : effects s (.init t ok) .held (setTask s.a t (.holding k r)) = s := by
        cases ok <;> simp [effects]
      rw [he]
      refine finv_frame h _ hinv (fun r => rfl) (fun k f hf hs => ⟨f, hf, hs⟩) (fun k f hf hs => ⟨f, hf, hs⟩) ?_
      intro t' r' hu
      by_cases htt : t' = t
      · subst htt
        rw [uses_set_self _ ht]
        simp only [uses, ht, Option.bind_some, Pc.usesFile] at hu ⊢
        exact hu
      · rw [uses_set_ne _ htt]; exact hu
    · rename_i hok
      have hok' : ok = false := by simpa using hok
      subst hok'
      cases hst
      simp only [effects, closeHandle, releasedRc, ht]
      exact finv_release h true ht (fun hc => by cases hc) hinv
  · cases hst
    have he : effects s (.init t ok) .bad s.a = s := by
      cases ok <;> simp [effects]
    rw [he]; exact h

theorem finv_close {s : FState} (h : FInv s) (t : Nat) : FInv (fstep s (.base (.close t))).1 := by
  apply finv_of_step h
  intro a' out hst hinv
  simp only [step, stepG] at hst
  split at hst
  · rename_i k r ht
    have hnb := (inv_dec_task (p' := .closed) (q := .holding k r) (r := r) h.inv ht (by simp [Pc.refOn])
      (by intro r'; rfl) rfl rfl (by intro k' hk'; cases hk')).2
    simp only [hnb] at hst
    cases hst
    simp only [effects, closeHandle, releasedRc, ht]
    exact finv_release h true ht (fun hc => by cases hc) hinv
  · cases hst; simp only [effects]; exact h


theorem finv_fstore {s : FState} (h : FInv s) (k : Nat) : FInv (fstep s (.base (.fstore k))).1 := by
  apply finv_of_step h
  intro a' out hst hinv
  simp only [step, stepG] at hst
  split at hst
  · rename_i f hf
    split at hst
    · rename_i hph
      have hnone : s.a.arena k = none := (inv_fstore h.inv hf hph).1
      rw [hnone] at hst
      simp only at hst
      cases hst
      obtain ⟨n0, i0, hl0⟩ := h.tmpAt k f hf (Or.inr hph)
      cases hfd : fdOf s.tab (.tmp k) with
      | none => exact absurd hl0 (fdOf_none hfd n0 i0)
      | some n =>
        obtain ⟨i, hl⟩ := fdOf_some hfd
        simp only [effects, hfd, hl]
        have hopen_lt : ∀ r, (s.a.rc r).fileOpen = true → r ≠ s.a.nrc := by
          intro r ho he
          have := h.inv.fresh r (by omega)
          rw [this] at ho; cases ho
        refine ⟨hinv, ?_, ?_, ?_, ?_, ?_⟩
        · intro r ho
          by_cases hr : r = s.a.nrc
          · subst hr
            simp only [upd_same]
            exact look_retag.2 ⟨_, hl, by simp⟩
          · simp only [setPhase, upd_other _ _ _ _ hr] at ho ⊢
            exact look_retag.2 ⟨_, h.rcAt r ho, by simp⟩
        · intro n' r i' hl'
          obtain ⟨y, hy, hx⟩ := look_retag.1 hl'
          by_cases hr : r = s.a.nrc
          · subst hr; simp [setPhase]
          · simp only [setPhase, upd_other _ _ _ _ hr]
            split at hx
            · cases hx; exact absurd rfl hr
            · subst hx; exact h.rcOnly n' r i' hy
        · intro k' f' hf' hs
          by_cases hk : k' = k
          · subst hk
            simp only [setPhase, upd_same, Option.some.injEq] at hf'
            subst hf'
            exact absurd hs (not_inS_of ⟨by simp, by simp⟩)
          · simp only [setPhase, upd_other _ _ _ _ hk] at hf'
            obtain ⟨n', i', hl'⟩ := h.tmpAt k' f' hf' hs
            exact ⟨n', i', look_retag.2 ⟨_, hl', by simp [hk]⟩⟩
        · intro n' k' i' hl'
          obtain ⟨y, hy, hx⟩ := look_retag.1 hl'
          split at hx
          · cases hx
          · subst hx
            rename_i hne
            have hk : k' ≠ k := by
              intro he; subst he; exact hne rfl
            obtain ⟨f0, hf0, hs⟩ := h.tmpOnly n' k' i' hy
            exact ⟨f0, by simp only [setPhase, upd_other _ _ _ _ hk]; exact hf0, hs⟩
        · intro n' t i' hl'
          obtain ⟨y, hy, hx⟩ := look_retag.1 hl'
          split at hx
          · cases hx
          · subst hx
            obtain ⟨r, hu, hi⟩ := h.privOnly n' t i' hy
            refine ⟨r, hu, ?_⟩
            have hr : r ≠ s.a.nrc := by
              simp only [uses] at hu
              cases hp : s.a.tasks[t]? with
              | none => simp [hp] at hu
              | some p =>
                simp only [hp, Option.bind_some] at hu
                have hm := List.mem_of_getElem? hp
                exact hopen_lt r (h.inv.openHeld p hm r hu)
            show i' = upd s.rcIno s.a.nrc i r
            rw [upd_other _ _ _ _ hr]; exact hi
    · cases hst; simp only [effects]; exact h
  · cases hst; simp only [effects]; exact h

theorem finv_misc {s : FState} (h : FInv s) (op : Op)
    (hop : (∃ i, op = .finalize i) ∨ (∃ k, op = .query k) ∨ op = .aclose) :
    FInv (fstep s (.base op)).1 := by
  apply finv_of_step h
  intro a' out hst hinv
  rcases hop with ⟨i, rfl⟩ | ⟨k, rfl⟩ | rfl
  · simp only [step, stepG, h.inv.noLeak] at hst
    simp at hst
    obtain ⟨rfl, rfl⟩ := hst
    simp only [effects]; exact h
  · simp only [step, stepG] at hst
    cases hst; simp only [effects]; exact h
  · simp only [step, stepG] at hst
    cases hst; simp only [effects]
    exact finv_frame h _ hinv (fun r => rfl) (fun k f hf hs => ⟨f, hf, hs⟩) (fun k f hf hs => ⟨f, hf, hs⟩)
      (fun t r hu => hu)

/-- Every transition of the descriptor machine preserves the invariant. -/
theorem finv_step {s : FState} (h : FInv s) (op : FOp) : FInv (fstep s op).1 := by
  cases op with
  | extOpen =>
    simp only [fstep, fstepG]
    refine ⟨h.inv, ?_, ?_, ?_, ?_, ?_⟩
    · intro r ho; exact look_alloc_old _ (h.rcAt r ho)
    · intro n r i hl
      rcases look_alloc_inv hl with ⟨_, he⟩ | hl'
      · cases he
      · exact h.rcOnly n r i hl'
    · intro k f hf hs
      obtain ⟨n, i, hl⟩ := h.tmpAt k f hf hs
      exact ⟨n, i, look_alloc_old _ hl⟩
    · intro n k i hl
      rcases look_alloc_inv hl with ⟨_, he⟩ | hl'
      · cases he
      · exact h.tmpOnly n k i hl'
    · intro n t i hl
      rcases look_alloc_inv hl with ⟨_, he⟩ | hl'
      · cases he
      · exact h.privOnly n t i hl'
  | extClose n =>
    simp only [fstep, fstepG]
    split
    · rename_i i hn
      have keep : ∀ m x, look s.tab m = some x → x.owner ≠ .ext → look (s.tab.set n none) m = some x := by
        intro m x hl hne
        refine look_set_none.2 ⟨?_, hl⟩
        intro he; subst he; rw [hn] at hl; cases hl; exact hne rfl
      refine ⟨h.inv, ?_, ?_, ?_, ?_, ?_⟩
      · intro r ho; exact keep _ _ (h.rcAt r ho) (by simp)
      · intro m r i hl; exact h.rcOnly m r i (look_set_none.1 hl).2
      · intro k f hf hs
        obtain ⟨m, i, hl⟩ := h.tmpAt k f hf hs
        exact ⟨m, i, keep _ _ hl (by simp)⟩
      · intro m k i hl; exact h.tmpOnly m k i (look_set_none.1 hl).2
      · intro m t i hl; exact h.privOnly m t i (look_set_none.1 hl).2
    · exact h
  | base op =>
    cases op with
    | spawn k => exact finv_spawn h k
    | enter t => exact finv_enter h t
    | fload k v => exact finv_fload h k v
    | fnet k ok => exact finv_fnet h k ok
    | freq k => exact finv_freq h k
    | fbody k ok => exact finv_fbody h k ok
    | fstore k => exact finv_fstore h k
    | fend k => exact finv_fend h k
    | cancel t => exact finv_cancel h t
    | ref t => exact finv_ref h t
    | val t => exact finv_val h t
    | retry t => exact finv_retry h t
    | init t ok => exact finv_initOp h t ok
    | close t => exact finv_close h t
    | finalize i => exact finv_misc h _ (Or.inl ⟨i, rfl⟩)
    | query k => exact finv_misc h _ (Or.inr (Or.inl ⟨k, rfl⟩))
    | aclose => exact finv_misc h _ (Or.inr (Or.inr rfl))
    | ftmpfail k => exact finv_ftmpfail h k

theorem freachable_inv (ops : List FOp) : FInv (Sm.run fstep finit ops) :=
  Sm.invariant_run (Inv := FInv) (fun _ op h => finv_step h op) ops finit finv_init


/-! ### consequences -/

/-- A private descriptor refers to the file of the rc its task holds a reference on - the
    file that rc's own descriptor still names. -/
theorem priv_is_entry_file {s : FState} (h : FInv s) {n t i : Nat}
    (hl : look s.tab n = some ⟨.priv t, i⟩) :
    ∃ k r, (s.a.tasks[t]? = some (.opened k r) ∨ s.a.tasks[t]? = some (.holding k r)) ∧
      (s.a.rc r).fileOpen = true ∧ look s.tab (s.rcNum r) = some ⟨.rc r, i⟩ := by
  obtain ⟨r, hu, hi⟩ := h.privOnly n t i hl
  simp only [uses] at hu
  cases hp : s.a.tasks[t]? with
  | none => simp [hp] at hu
  | some p =>
    simp only [hp, Option.bind_some] at hu
    have ho := h.inv.openHeld p (List.mem_of_getElem? hp) r hu
    have hat := h.rcAt r ho
    rw [← hi] at hat
    cases p <;> simp [Pc.usesFile] at hu
    · rename_i k r'; subst hu; exact ⟨k, r', Or.inl rfl, ho, hat⟩
    · rename_i k r'; subst hu; exact ⟨k, r', Or.inr rfl, ho, hat⟩

/-- `Val` that succeeds leaves the task with a descriptor on its entry's file. -/
theorem val_opens_entry_file {s : FState} (h : FInv s) {t k r : Nat}
    (ht : s.a.tasks[t]? = some (.reffed k r)) (ho : (s.a.rc r).fileOpen = true) :
    (fstep s (.base (.val t))).2 = .valOk ∧
      ∃ n, look (fstep s (.base (.val t))).1.tab n = some ⟨.priv t, s.rcIno r⟩ := by
  have hst : step s.a (.val t) = (setTask s.a t (.opened k r), .valOk) := by
    simp [step, stepG, ht, ho]
  rw [fstep_base_eq, hst]
  refine ⟨rfl, ?_⟩
  simp only [effects, ht, reopen, h.rcAt r ho]
  exact ⟨_, look_alloc_new _ _⟩

/-- When everybody is done (and no flight ended unobserved) the arena code owns no
    descriptor at all. -/
theorem quiescent_no_descriptors {s : FState} (h : FInv s) (hq : Quiescent s.a) (ho : s.a.orphans = [])
    (n : Nat) (e : Ent) (hl : look s.tab n = some e) : e.owner = .ext := by
  obtain ⟨_, hclosed, _⟩ := quiescent_facts h.inv hq ho
  obtain ⟨htasks, hfl, _⟩ := hq
  obtain ⟨o, i⟩ := e
  cases o with
  | ext => rfl
  | rc r =>
    have := h.rcOnly n r i hl
    rw [hclosed r] at this; cases this
  | tmp k =>
    obtain ⟨f, hf, _⟩ := h.tmpOnly n k i hl
    rw [hfl k] at hf; cases hf
  | priv t =>
    obtain ⟨r, hu, _⟩ := h.privOnly n t i hl
    simp only [uses] at hu
    cases hp : s.a.tasks[t]? with
    | none => simp [hp] at hu
    | some p =>
      simp only [hp, Option.bind_some] at hu
      rcases htasks p (List.mem_of_getElem? hp) with rfl | rfl <;> simp [Pc.usesFile] at hu

end ClairModel.ArenaFd
