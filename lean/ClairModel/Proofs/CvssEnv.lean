/-
  C18 — environmental scores of v3.0 / v3.1: for every valid vector with an
  environmental metric, `V3.Score` (model, exact arithmetic) equals the
  environmental score of specification section 7.3 computed from the Modified
  metrics (Not Defined = the Base value), the requirement weights and the
  temporal weights.
-/
import ClairModel.Proofs.CvssEnvDefs
import ClairModel.Proofs.CvssTemporal
import ClairModel.Proofs.CvssTables
import ClairModel.Proofs.CvssPrint
namespace ClairModel.Cvss
open ClairModel.Gen.Cvss ClairModel.CvssSpec

/-! ### tables used by the assembly -/

theorem lk3_mod : ∀ m < 8, ∀ b ∈ g3 m, lk3 (m + 14) b = w3 m b := by decide +kernel
theorem lk3_low : ∀ m < 14, ∀ b ∈ g3 m, 8 ≤ m → lk3 m b = w3 m b := by decide +kernel
theorem mod_mem : ∀ m < 8, ∀ b ∈ g3 (m + 14), b ≠ cX → b ∈ g3 m := by decide
theorem x_mem : ∀ m < 14, 8 ≤ m → cX ∈ g3 m := by decide

def p7Ok (k : Nat) : Bool :=
  (g3 (11 + k)).all fun r => (g3 (5 + k)).all fun c =>
    match w3 (11 + k) r, w3 (5 + k) c with
    | some a, some b => P7.contains (a * b)
    | _, _ => false

theorem p7_all : p7Ok 0 = true ∧ p7Ok 1 = true ∧ p7Ok 2 = true := by decide +kernel

theorem p7_spec {k : Nat} (h : p7Ok k = true) {r c : Nat} (hr : r ∈ g3 (11 + k)) (hc : c ∈ g3 (5 + k)) :
    ∃ a b, w3 (11 + k) r = some a ∧ w3 (5 + k) c = some b ∧ a * b ∈ P7 := by
  simp only [p7Ok, List.all_eq_true] at h
  have h' := h r hr c hc
  split at h'
  · rename_i a b e1 e2
    exact ⟨a, b, e1, e2, by simpa using h'⟩
  · simp at h'

theorem P7_pos {p : Q} (h : p ∈ P7) : p.Pos := by
  obtain ⟨i, hi, rfl⟩ := P7_idx h
  have : i = 0 ∨ i = 1 ∨ i = 2 ∨ i = 3 ∨ i = 4 ∨ i = 5 ∨ i = 6 := by omega
  rcases this with rfl | rfl | rfl | rfl | rfl | rfl | rfl <;> (show (0 : Nat) < (pv _).d; decide)

theorem envIss_Pos {p1 p2 p3 : Q} (h1 : p1.Pos) (h2 : p2.Pos) (h3 : p3.Pos) : (envIss p1 p2 p3).Pos :=
  Q.min_Pos (Q.dec_Pos _ (by decide))
    (Q.sub_Pos one_Pos (Q.mul_Pos (Q.mul_Pos (Q.sub_Pos one_Pos h1) (Q.sub_Pos one_Pos h2)) (Q.sub_Pos one_Pos h3)))

theorem Q.mul_one' (a : Q) : a * one = a := by
  show (⟨a.n * 1, a.d * 1⟩ : Q) = a
  simp

/-- the impact of `V3.Score` with environmental metrics is the ModifiedImpact of section 7.3 -/
theorem v3Impact_env (minor ms : Nat) (hm : minor = 0 ∨ minor = 1) (hs : ms = cU ∨ ms = cC) (miss : Q) :
    v3Impact minor true ms miss = some (mimpact3 minor ms miss) := by
  rcases hm with rfl | rfl <;> rcases hs with rfl | rfl <;>
    simp [v3Impact, mimpact3, Q.mul_one', (by decide : cU ≠ cC), (by decide : cC ≠ cU)]

theorem eff_mem {v : Vec} (hv : Valid3 v) {m : Nat} (hm : m < 8) : modified3 (v.get (m + 14)) (v.get m) ∈ g3 m := by
  have hb : v.get m ∈ g3 m := (hv.vals m (by omega)).resolve_left (hv.base m hm)
  unfold modified3
  split
  · exact hb
  · rename_i h
    have h0 : ¬ v.get (m + 14) = 0 := fun e => h (Or.inl e)
    have hx : v.get (m + 14) ≠ cX := fun e => h (Or.inr e)
    exact mod_mem m hm _ ((hv.vals (m + 14) (by omega)).resolve_left h0) hx

theorem orX_mem {v : Vec} (hv : Valid3 v) {m : Nat} (h8 : 8 ≤ m) (hm : m < 14) : orX (v.get m) ∈ g3 m := by
  unfold orX
  split
  · exact x_mem m hm h8
  · rename_i h
    exact (hv.vals m (by omega)).resolve_left h

theorem explE_eq {ms av ac pr ui : Nat} (hs : ms ∈ g3 4) (hav : av ∈ g3 0) (hac : ac ∈ g3 1) (hpr : pr ∈ g3 2)
    (hui : ui ∈ g3 3) : explE lk3 ms av ac pr ui = explW w3 ms av ac pr ui := by
  simp only [explE, explW, sb_of_mem (by decide) hs, sb_of_mem (by decide) hav, sb_of_mem (by decide) hac,
    sb_of_mem (by decide) hpr, sb_of_mem (by decide) hui,
    lk3_mod 0 (by decide) av hav, lk3_mod 1 (by decide) ac hac, lk3_mod 2 (by decide) pr hpr,
    lk3_mod 3 (by decide) ui hui]
  generalize w3 0 av = a
  generalize w3 1 ac = b
  generalize (if ms = cC ∧ pr = cL then some (Q.dec 68 100) else if ms = cC ∧ pr = cH then some (Q.dec 50 100) else w3 2 pr) = c
  generalize w3 3 ui = d
  cases a <;> cases b <;> cases c <;> cases d <;> rfl

/-- what the v3.1 sweeps (both scopes) establish -/
structure EnvSwept : Prop where
  nU : envNormOk cU = true
  nC : envNormOk cC = true
  sU : envSweep31 cU (g3 0) = true
  sC1 : envSweep31 cC [cN, cA] = true
  sC2 : envSweep31 cC [cL, cP] = true

theorem v3_env_facts (hsw : EnvSwept) (hxU : envExplOk cU = true) (hxC : envExplOk cC = true)
    (htab : temporalTable 1 = true) (v : Vec) (hv : Valid3 v) (he : v3Environmental v = true) :
    score3 v = env3 v.ver (modified3 (v.get 14) (v.get 0)) (modified3 (v.get 15) (v.get 1))
      (modified3 (v.get 16) (v.get 2)) (modified3 (v.get 17) (v.get 3)) (modified3 (v.get 18) (v.get 4))
      (modified3 (v.get 19) (v.get 5)) (modified3 (v.get 20) (v.get 6)) (modified3 (v.get 21) (v.get 7))
      (orX (v.get 11)) (orX (v.get 12)) (orX (v.get 13)) (orX (v.get 8)) (orX (v.get 9)) (orX (v.get 10)) := by
  have m0 := eff_mem hv (m := 0) (by decide)
  have m1 := eff_mem hv (m := 1) (by decide)
  have m2 := eff_mem hv (m := 2) (by decide)
  have m3 := eff_mem hv (m := 3) (by decide)
  have m4 := eff_mem hv (m := 4) (by decide)
  have m5 := eff_mem hv (m := 5) (by decide)
  have m6 := eff_mem hv (m := 6) (by decide)
  have m7 := eff_mem hv (m := 7) (by decide)
  have r8 := orX_mem hv (m := 8) (by decide) (by decide)
  have r9 := orX_mem hv (m := 9) (by decide) (by decide)
  have r10 := orX_mem hv (m := 10) (by decide) (by decide)
  have r11 := orX_mem hv (m := 11) (by decide) (by decide)
  have r12 := orX_mem hv (m := 12) (by decide) (by decide)
  have r13 := orX_mem hv (m := 13) (by decide) (by decide)
  simp only [Nat.reduceAdd] at m0 m1 m2 m3 m4 m5 m6 m7
  have hms : modified3 (v.get 18) (v.get 4) ≠ cX := by
    intro e; rw [e] at m4; exact absurd m4 (by decide)
  rw [score3_env v he hms]
  generalize modified3 (v.get 14) (v.get 0) = mav at *
  generalize modified3 (v.get 15) (v.get 1) = mac at *
  generalize modified3 (v.get 16) (v.get 2) = mpr at *
  generalize modified3 (v.get 17) (v.get 3) = mui at *
  generalize modified3 (v.get 18) (v.get 4) = ms at *
  generalize modified3 (v.get 19) (v.get 5) = mc at *
  generalize modified3 (v.get 20) (v.get 6) = mi at *
  generalize modified3 (v.get 21) (v.get 7) = ma at *
  generalize orX (v.get 8) = e at *
  generalize orX (v.get 9) = rl at *
  generalize orX (v.get 10) = rc at *
  generalize orX (v.get 11) = cr at *
  generalize orX (v.get 12) = ir at *
  generalize orX (v.get 13) = ar at *
  have hver : v.ver = 0 ∨ v.ver = 1 := by have := hv.ver; omega
  generalize v.ver = minor at *
  have hmm : ¬ (minor ≠ 0 ∧ minor ≠ 1) := by omega
  have hs : ms = cU ∨ ms = cC := by simpa [g3, v3GrammarValues] using m4
  obtain ⟨q0, q1, q2⟩ := p7_all
  obtain ⟨wcr, wmc, ecr, emc, hp1⟩ := p7_spec q0 (r := cr) (c := mc) r11 m5
  obtain ⟨wir, wmi, eir, emi, hp2⟩ := p7_spec q1 (r := ir) (c := mi) r12 m6
  obtain ⟨war, wma, ear, ema, hp3⟩ := p7_spec q2 (r := ar) (c := ma) r13 m7
  simp only [Nat.reduceAdd] at ecr emc eir emi ear ema
  -- exploitability: model and specification
  have hx : ∃ ex ey, explW w3 ms mav mac mpr mui = some ex ∧ exploitability3 ms mav mac mpr mui = some ey ∧ Q.Eqv ex ey := by
    rcases hs with rfl | rfl
    · exact envExplOk_spec hxU m0 m1 m2 m3
    · exact envExplOk_spec hxC m0 m1 m2 m3
  obtain ⟨ex, ey, hex, hey, hexy⟩ := hx
  -- temporal weights
  obtain ⟨we, wrl, wrc, ee, erl, erc, _, _⟩ := temporalTable_spec htab (k := 0) (by decide) r8 r9 r10
  have himp := v3Impact_env minor ms hver hs (envIss (wcr * wmc) (wir * wmi) (war * wma))
  -- both sides
  simp only [fastEnv, hmm, if_false, lk3_low 11 (by decide) cr r11 (by decide), lk3_low 12 (by decide) ir r12 (by decide),
    lk3_low 13 (by decide) ar r13 (by decide), lk3_mod 5 (by decide) mc m5, lk3_mod 6 (by decide) mi m6,
    lk3_mod 7 (by decide) ma m7, ecr, emc, eir, emi, ear, ema, himp, explE_eq m4 m0 m1 m2 m3, hex,
    lk3_low 8 (by decide) e r8 (by decide), lk3_low 9 (by decide) rl r9 (by decide),
    lk3_low 10 (by decide) rc r10 (by decide), ee, erl, erc, env3, hey]
  have hiss : (Q.dec 915 1000).min (one - (one - wcr * wmc) * (one - wir * wmi) * (one - war * wma)) =
      envIss (wcr * wmc) (wir * wmi) (war * wma) := rfl
  rw [hiss]
  have hpos : (mimpact3 minor ms (envIss (wcr * wmc) (wir * wmi) (war * wma))).Pos :=
    v3Impact_Pos (envIss_Pos (P7_pos hp1) (P7_pos hp2) (P7_pos hp3)) himp
  -- what the sweep says about this impact (only used for v3.1)
  have hsweep : minor = 1 → ∃ imp' ey', Q.Eqv (mimpact3 minor ms (envIss (wcr * wmc) (wir * wmi) (war * wma))) imp' ∧
      exploitability3 ms mav mac mpr mui = some ey' ∧ okInner31 ms imp' ey' = true := by
    intro h1
    subst h1
    have := fun (avs : List Nat) (hav : mav ∈ avs) (hn : envNormOk ms = true) (h : envSweep31 ms avs = true) =>
      envSweep31_spec hn h hp1 hp2 hp3 hav m1 m2 m3
    rw [himp] at this
    rcases hs with rfl | rfl
    · exact this _ m0 hsw.nU hsw.sU
    · have hsplit : mav ∈ [cN, cA] ∨ mav ∈ [cL, cP] := by
        have : mav = cN ∨ mav = cA ∨ mav = cL ∨ mav = cP := by simpa [g3, v3GrammarValues] using m0
        rcases this with rfl | rfl | rfl | rfl <;> simp
      rcases hsplit with h | h
      · exact this _ h hsw.nC hsw.sC1
      · exact this _ h hsw.nC hsw.sC2
  generalize mimpact3 minor ms (envIss (wcr * wmc) (wir * wmi) (war * wma)) = imp at *
  by_cases hle : Q.le imp (Q.ofInt 0) = true
  · simp [v3Finish, hle]
  · rw [if_neg hle]
    refine congrArg some ?_
    simp only [v3Finish, hle, Bool.false_eq_true, if_false]
    have hipos : 0 < imp.d := hpos
    -- the model's inner argument and the specification's are equal numbers
    have hAS : Q.Eqv (Q.min ((if ms = cC then Q.dec 108 100 else one) * (imp + ex)) ten) (Q.min (minner3 ms imp ey) ten) := by
      apply Q.Eqv.min _ (Q.Eqv.rfl' (by decide))
      have hsum : Q.Eqv (imp + ex) (imp + ey) := Q.Eqv.add (Q.Eqv.rfl' hipos) hexy
      unfold minner3
      split
      · exact Q.Eqv.mul (Q.Eqv.rfl' (by decide)) hsum
      · exact Q.Eqv.one_mul hsum
    rcases hver with rfl | rfl
    · -- v3.0: one Roundup, the code's is the specification's
      rw [v3Roundup10_congr 0 hAS]
      rfl
    · -- v3.1
      obtain ⟨imp', ey', hii, hey', hok⟩ := hsweep rfl
      rw [hey] at hey'
      have := Option.some.inj hey'
      subst this
      have hle' : Q.le imp' (Q.ofInt 0) = false := by
        rw [← Q.Eqv.le hii (Q.Eqv.rfl' (by decide))]
        simpa using hle
      simp only [okInner31, hle', Bool.false_or, forceQ_eq, forceInt_eq, Bool.and_eq_true, decide_eq_true_eq] at hok
      obtain ⟨⟨hr, h0⟩, h100⟩ := hok
      have hXS : Q.Eqv (Q.min (minner3 ms imp' ey) ten) (Q.min (minner3 ms imp ey) ten) := by
        apply Q.Eqv.min _ (Q.Eqv.rfl' (by decide))
        have hsum : Q.Eqv (imp' + ey) (imp + ey) := Q.Eqv.add hii.symm (Q.Eqv.rfl' hexy.pb)
        unfold minner3
        split
        · exact Q.Eqv.mul (Q.Eqv.rfl' (by decide)) hsum
        · exact hsum
      have hB : v3Roundup10 1 (Q.min ((if ms = cC then Q.dec 108 100 else one) * (imp + ex)) ten) =
          roundup3 1 (Q.min (minner3 ms imp ey) ten) := by
        rw [v3Roundup10_congr 1 (hAS.trans hXS.symm)]
        show v31Roundup10 _ = roundup31 _
        rw [hr, roundup31_congr hXS]
      have h0' : 0 ≤ roundup3 1 (Q.min (minner3 ms imp ey) ten) := by
        show 0 ≤ roundup31 _
        rw [← roundup31_congr hXS, ← hr]; exact h0
      have h100' : roundup3 1 (Q.min (minner3 ms imp ey) ten) ≤ 100 := by
        show roundup31 _ ≤ 100
        rw [← roundup31_congr hXS, ← hr]; exact h100
      rw [hB]
      generalize roundup3 1 (Q.min (minner3 ms imp ey) ten) = B at *
      have hBn : B = ((B.toNat : Nat) : Int) := by omega
      obtain ⟨we', wrl', wrc', e1, e2, e3, t1, _⟩ := temporalTable_spec htab (k := B.toNat) (by omega) r8 r9 r10
      rw [ee] at e1; rw [erl] at e2; rw [erc] at e3
      have := Option.some.inj e1; subst this
      have := Option.some.inj e2; subst this
      have := Option.some.inj e3; subst this
      rw [← hBn] at t1
      exact t1

end ClairModel.Cvss
