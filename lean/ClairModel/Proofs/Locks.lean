import ClairModel.Lib.Sm
import ClairModel.Model.Locks

namespace ClairModel.Locks

/-- The invariant of the lock machine. -/
structure Inv (s : State) : Prop where
  heldNodup : s.held.Nodup
  oneHolder : (s.active.map (·.key)).Nodup
  heldIff : ∀ k, k ∈ s.held ↔ k ∈ s.active.map (·.key)
  gidLt : ∀ g ∈ s.active, g.gid < s.issued
  gidNodup : (s.active.map (·.gid)).Nodup
  tidNodup : (s.parked.map (·.tid)).Nodup
  noLostWake : ∀ w ∈ s.parked, w.runnable = false → w.key ∈ s.held

theorem inv_init : Inv init := by
  constructor <;> simp [init]

theorem inv_acquire {s : State} (h : Inv s) (k p : Nat) (hk : k ∉ s.held) :
    Inv (acquire s k p).1 := by
  have hk' : k ∉ s.active.map (·.key) := fun hm => hk ((h.heldIff k).2 hm)
  constructor
  · simp [acquire, h.heldNodup, hk]
  · simp only [acquire, List.map_cons, List.nodup_cons]; exact ⟨hk', h.oneHolder⟩
  · intro k'
    simp only [acquire, List.mem_cons, List.map_cons]
    rw [h.heldIff k']
  · intro g hg
    simp only [acquire, List.mem_cons] at hg ⊢
    rcases hg with rfl | hg
    · simp
    · have := h.gidLt g hg; omega
  · simp only [acquire, List.map_cons, List.nodup_cons]
    refine ⟨?_, h.gidNodup⟩
    intro hm
    rcases List.mem_map.1 hm with ⟨g, hg, hge⟩
    have := h.gidLt g hg
    omega
  · simpa [acquire] using h.tidNodup
  · intro w hw hr
    simp only [acquire, List.mem_cons]
    exact Or.inr (h.noLostWake w hw hr)

theorem nodup_filter {α : Type} (p : α → Bool) (l : List α) (h : l.Nodup) : (l.filter p).Nodup := by
  induction l with
  | nil => simp
  | cons x xs ih =>
    simp only [List.nodup_cons] at h
    by_cases hp : p x
    · simp only [List.filter_cons_of_pos hp, List.nodup_cons]
      exact ⟨fun hm => h.1 (List.mem_filter.1 hm).1, ih h.2⟩
    · simp only [List.filter_cons_of_neg hp]; exact ih h.2

theorem nodup_map_filter {α β : Type} (f : α → β) (p : α → Bool) (l : List α)
    (h : (l.map f).Nodup) : ((l.filter p).map f).Nodup := by
  induction l with
  | nil => simp
  | cons x xs ih =>
    simp only [List.map_cons, List.nodup_cons] at h
    by_cases hp : p x
    · simp only [List.filter_cons_of_pos hp, List.map_cons, List.nodup_cons]
      refine ⟨?_, ih h.2⟩
      intro hm
      apply h.1
      rcases List.mem_map.1 hm with ⟨y, hy, hye⟩
      exact List.mem_map.2 ⟨y, (List.mem_filter.1 hy).1, hye⟩
    · simp only [List.filter_cons_of_neg hp]; exact ih h.2

theorem find_gid {s : State} {g : Nat} {gr : Grant}
    (h : s.active.find? (fun gr => gr.gid == g) = some gr) : gr ∈ s.active ∧ gr.gid = g := by
  refine ⟨List.mem_of_find?_eq_some h, ?_⟩
  have := List.find?_some h
  simpa using this

/-- In a list whose keys are pairwise distinct, the element with a given key is unique. -/
theorem eq_of_nodup_map {α β : Type} (f : α → β) (l : List α) (h : (l.map f).Nodup)
    {a b : α} (ha : a ∈ l) (hb : b ∈ l) (hab : f a = f b) : a = b := by
  induction l with
  | nil => cases ha
  | cons x xs ih =>
    simp only [List.map_cons, List.nodup_cons] at h
    rcases List.mem_cons.1 ha with rfl | ha' <;> rcases List.mem_cons.1 hb with rfl | hb'
    · rfl
    · exact absurd (List.mem_map.2 ⟨b, hb', hab.symm⟩) h.1
    · exact absurd (List.mem_map.2 ⟨a, ha', hab⟩) h.1
    · exact ih h.2 ha' hb'

theorem inv_release {s : State} (h : Inv s) (g : Nat) : Inv (step s (.release g)).1 := by
  simp only [step]
  split
  · exact h
  · rename_i gr hf
    obtain ⟨hmem, hgid⟩ := find_gid hf
    constructor
    · exact nodup_filter _ _ h.heldNodup
    · exact nodup_map_filter _ _ _ h.oneHolder
    · intro k
      simp only [List.mem_filter, List.mem_map, Bool.not_eq_eq_eq_not, Bool.not_true, beq_eq_false_iff_ne, ne_eq]
      constructor
      · rintro ⟨hk, hne⟩
        rcases List.mem_map.1 ((h.heldIff k).1 hk) with ⟨g', hg', hke⟩
        refine ⟨g', ⟨hg', ?_⟩, hke⟩
        intro hgg
        apply hne
        have : g' = gr := eq_of_nodup_map (·.gid) _ h.gidNodup hg' hmem (by simp [hgg, hgid])
        rw [← hke, this]
      · rintro ⟨g', ⟨hg', hne⟩, hke⟩
        refine ⟨(h.heldIff k).2 (List.mem_map.2 ⟨g', hg', hke⟩), ?_⟩
        intro hkk
        apply hne
        have : g' = gr := eq_of_nodup_map (·.key) _ h.oneHolder hg' hmem (by simp [hke, hkk])
        rw [this, hgid]
    · intro g' hg'
      exact h.gidLt g' (List.mem_filter.1 hg').1
    · exact nodup_map_filter _ _ _ h.gidNodup
    · simpa [List.map_map, Function.comp_def] using h.tidNodup
    · intro w hw hr
      rcases List.mem_map.1 hw with ⟨w', _, rfl⟩
      simp at hr

theorem inv_step {s : State} (h : Inv s) (op : Op) : Inv (step s op).1 := by
  cases op with
  | tryLock k p =>
    simp only [step]
    split
    · exact h
    · rename_i hk; exact inv_acquire h k p hk
  | lock t k p =>
    simp only [step]
    split
    · exact h
    · rename_i ht
      split
      · rename_i hk
        constructor
        · exact h.heldNodup
        · exact h.oneHolder
        · exact h.heldIff
        · exact h.gidLt
        · exact h.gidNodup
        · simp only [List.map_append, List.map_cons, List.map_nil]
          refine List.nodup_append.2 ⟨h.tidNodup, by simp, ?_⟩
          intro a ha b hb
          simp only [List.mem_singleton] at hb
          subst hb
          intro hab
          subst hab
          apply ht
          rcases List.mem_map.1 ha with ⟨w, hw, hwe⟩
          exact List.any_eq_true.2 ⟨w, hw, by simp [hwe]⟩
        · intro w hw hr
          rcases List.mem_append.1 hw with hw | hw
          · exact h.noLostWake w hw hr
          · simp only [List.mem_singleton] at hw; subst hw; exact hk
      · rename_i hk; exact inv_acquire h k p hk
  | retest t =>
    simp only [step]
    split
    · exact h
    · rename_i w hf
      split
      · rename_i hk
        constructor
        · exact h.heldNodup
        · exact h.oneHolder
        · exact h.heldIff
        · exact h.gidLt
        · exact h.gidNodup
        · have : (s.parked.map fun w' => if w'.tid == t then { w' with runnable := false } else w').map (·.tid)
              = s.parked.map (·.tid) := by
            rw [List.map_map]; apply List.map_congr_left; intro a _; simp only [Function.comp]; split <;> rfl
          simp only [this]; exact h.tidNodup
        · intro w' hw' hr
          rcases List.mem_map.1 hw' with ⟨w0, hw0, rfl⟩
          by_cases ht : (w0.tid == t) = true
          · have hwm := List.mem_of_find?_eq_some hf
            have hwt : w.tid = t := by have := List.find?_some hf; simp at this; exact this.1
            have : w0 = w := eq_of_nodup_map (·.tid) _ h.tidNodup hw0 hwm (by simp at ht; simp [ht, hwt])
            simp only [ht, if_true]; rw [this]; exact hk
          · simp only [ht] at hr ⊢
            exact h.noLostWake w0 hw0 hr
      · rename_i hk
        refine inv_acquire (s := { s with parked := s.parked.filter fun w' => !(w'.tid == t) }) ?_ _ _ hk
        constructor
        · exact h.heldNodup
        · exact h.oneHolder
        · exact h.heldIff
        · exact h.gidLt
        · exact h.gidNodup
        · exact nodup_map_filter _ _ _ h.tidNodup
        · intro w' hw' hr
          exact h.noLostWake w' (List.mem_filter.1 hw').1 hr
  | release g => exact inv_release h g
  | cancelParent p =>
    simp only [step]
    exact ⟨h.heldNodup, h.oneHolder, h.heldIff, h.gidLt, h.gidNodup, h.tidNodup, h.noLostWake⟩
  | ctx g => simp only [step]; exact h
  | close => simp only [step]; exact h

end ClairModel.Locks
