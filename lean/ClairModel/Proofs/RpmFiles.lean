/-
  C06 — lemmas about the file-name model (Model/RpmFiles.lean).
-/
import ClairModel.Model.RpmFiles

namespace ClairModel.RpmFiles

/-! ### the index loop -/

/-- every index the loop uses is inside its array -/
def IndexesOK (dirnames : List Bytes) (dirindexes : List Int) (n j : Nat) : Prop :=
  ∀ k, k < n → ∃ ix, dirindexes[j + k]? = some ix ∧ 0 ≤ ix ∧ ix.toNat < dirnames.length

theorem fileLoop_isSome_iff (dn : List Bytes) (di : List Int) (bs : List Bytes) (j : Nat) (acc : List Bytes) :
    (fileLoop dn di bs j acc).isSome = true ↔ IndexesOK dn di bs.length j := by
  induction bs generalizing j acc with
  | nil => simp [fileLoop, IndexesOK]
  | cons b bs ih =>
    unfold fileLoop
    constructor
    · intro h
      cases hix : di[j]? with
      | none => simp [hix] at h
      | some ix =>
        simp only [hix] at h
        by_cases hneg : ix < 0
        · simp [hneg] at h
        · simp only [hneg, if_false] at h
          cases hd : dn[ix.toNat]? with
          | none => simp [hd] at h
          | some d =>
            simp only [hd] at h
            have hrest := (ih (j + 1) _).mp h
            intro k hk
            cases k with
            | zero =>
              refine ⟨ix, by simpa using hix, by omega, ?_⟩
              have := List.getElem?_eq_some_iff.mp hd
              exact this.1
            | succ k =>
              have := hrest k (by simp at hk; omega)
              simpa [Nat.add_assoc, Nat.add_comm 1 k] using this
    · intro h
      obtain ⟨ix, hix, hpos, hlt⟩ := h 0 (by simp)
      simp only [Nat.add_zero] at hix
      simp only [hix]
      have hneg : ¬ ix < 0 := by omega
      simp only [hneg, if_false]
      have hd : dn[ix.toNat]? = some dn[ix.toNat] := List.getElem?_eq_getElem hlt
      simp only [hd]
      apply (ih (j + 1) _).mpr
      intro k hk
      have := h (k + 1) (by simp; omega)
      simpa [Nat.add_assoc, Nat.add_comm 1 k] using this

/-- the loop appends at most one name per base name -/
theorem fileLoop_length_le (dn : List Bytes) (di : List Int) (bs : List Bytes) (j : Nat) (acc out : List Bytes)
    (h : fileLoop dn di bs j acc = some out) : out.length ≤ acc.length + bs.length := by
  induction bs generalizing j acc with
  | nil => simp [fileLoop] at h; subst h; simp
  | cons b bs ih =>
    unfold fileLoop at h
    cases hix : di[j]? with
    | none => simp [hix] at h
    | some ix =>
      simp only [hix] at h
      by_cases hneg : ix < 0
      · simp [hneg] at h
      · simp only [hneg, if_false] at h
        cases hd : dn[ix.toNat]? with
        | none => simp [hd] at h
        | some d =>
          simp only [hd] at h
          have := ih _ _ h
          split at this <;> simp at this ⊢ <;> omega

/-- what the loop appends was already there or is a recorded name; names only
    come from pairs that matched the pattern -/
theorem fileLoop_prefix (dn : List Bytes) (di : List Int) (bs : List Bytes) (j : Nat) (acc out : List Bytes)
    (h : fileLoop dn di bs j acc = some out) : ∃ more, out = acc ++ more := by
  induction bs generalizing j acc with
  | nil => simp [fileLoop] at h; exact ⟨[], by simp [h]⟩
  | cons b bs ih =>
    unfold fileLoop at h
    cases hix : di[j]? with
    | none => simp [hix] at h
    | some ix =>
      simp only [hix] at h
      by_cases hneg : ix < 0
      · simp [hneg] at h
      · simp only [hneg, if_false] at h
        cases hd : dn[ix.toNat]? with
        | none => simp [hd] at h
        | some d =>
          simp only [hd] at h
          obtain ⟨more, hm⟩ := ih _ _ h
          split at hm
          · exact ⟨List.drop 1 (join d b) :: more, by simp [hm]⟩
          · exact ⟨more, hm⟩

/-! ### path.Clean does not grow its argument -/

/-- bytes of the elements plus one separator each -/
def weight (l : List Bytes) : Nat := (l.map fun x => x.length + 1).sum

theorem weight_cons (x : Bytes) (l : List Bytes) : weight (x :: l) = x.length + 1 + weight l := by
  simp [weight]

theorem weight_reverse (l : List Bytes) : weight l.reverse = weight l := by
  simp [weight, List.sum_reverse]

theorem splitSlash_weight (p acc : Bytes) : weight (splitSlash p acc) = p.length + acc.length + 1 := by
  induction p generalizing acc with
  | nil => simp [splitSlash, weight]
  | cons c cs ih =>
    unfold splitSlash
    split
    · rw [weight_cons, ih]; simp; omega
    · rw [ih]; simp; omega

theorem joinSlash_length (l : List Bytes) (h : l ≠ []) : (joinSlash l).length + 1 = weight l := by
  induction l with
  | nil => exact absurd rfl h
  | cons x xs ih =>
    cases xs with
    | nil => simp [joinSlash, weight]
    | cons y ys =>
      have := ih (by simp)
      simp only [joinSlash, List.length_append, List.length_cons, weight_cons] at this ⊢
      omega

theorem cleanStep_weight (rooted : Bool) (stack : List Bytes) (c : Bytes) :
    weight (cleanStep rooted stack c) ≤ weight stack + (c.length + 1) := by
  unfold cleanStep
  split
  · omega
  · split
    · rename_i hc
      have hc' : c.length = 2 := by
        have : c = dotdot := by simpa using hc
        subst this; rfl
      cases stack with
      | nil => cases rooted <;> simp [weight, dotdot] <;> omega
      | cons top rest =>
        simp only
        split
        · rw [weight_cons]; simp [dotdot]; omega
        · rw [weight_cons]; omega
    · rw [weight_cons]; omega

theorem foldl_cleanStep_weight (rooted : Bool) (cs : List Bytes) (stack : List Bytes) :
    weight (cs.foldl (cleanStep rooted) stack) ≤ weight stack + weight cs := by
  induction cs generalizing stack with
  | nil => simp [weight]
  | cons c cs ih =>
    simp only [List.foldl_cons]
    have h1 := ih (cleanStep rooted stack c)
    have h2 := cleanStep_weight rooted stack c
    rw [weight_cons]
    omega

/-- a rooted path starts with an empty element, which is dropped -/
theorem splitSlash_rooted (cs : Bytes) : splitSlash (slash :: cs) [] = [] :: splitSlash cs [] := by
  simp [splitSlash]

theorem clean_length_le (p : Bytes) : (clean p).length ≤ max p.length 1 := by
  unfold clean
  cases p with
  | nil => simp
  | cons c0 cs =>
    simp only
    by_cases hr : c0 == slash
    · have hc : c0 = slash := by simpa using hr
      subst hc
      simp only [beq_self_eq_true, if_true, splitSlash_rooted, List.foldl_cons]
      have hstep : cleanStep true [] [] = [] := by simp [cleanStep]
      rw [hstep]
      have hw := foldl_cleanStep_weight true (splitSlash cs []) []
      rw [splitSlash_weight] at hw
      simp only [weight, List.map_nil, List.sum_nil, List.length_nil, Nat.zero_add, Nat.add_zero] at hw
      generalize hst : (splitSlash cs []).foldl (cleanStep true) [] = st at hw
      by_cases he : st.reverse = []
      · simp [he, joinSlash]
      · have := joinSlash_length st.reverse he
        rw [weight_reverse] at this
        simp only [List.length_cons]
        have : weight st = (st.map fun x => x.length + 1).sum := rfl
        omega
    · simp only [hr, if_false, Bool.false_eq_true]
      have hw := foldl_cleanStep_weight false (splitSlash (c0 :: cs) []) []
      rw [splitSlash_weight] at hw
      simp only [weight, List.map_nil, List.sum_nil, List.length_nil, Nat.zero_add, Nat.add_zero] at hw
      generalize hst : (splitSlash (c0 :: cs) []).foldl (cleanStep false) [] = st at hw
      by_cases he : st.reverse = []
      · simp [he, joinSlash]
      · have := joinSlash_length st.reverse he
        rw [weight_reverse] at this
        have hw' : weight st = (st.map fun x => x.length + 1).sum := rfl
        split
        · simp
        · simp only [List.length_cons] at hw ⊢
          omega

theorem clean_ne_nil (p : Bytes) : clean p ≠ [] := by
  unfold clean
  cases p with
  | nil => simp
  | cons c0 cs =>
    simp only
    split
    · simp
    · split
      · simp
      · rename_i h; intro h2; simp [h2] at h

theorem join_length_le (d b : Bytes) : (join d b).length ≤ d.length + b.length + 1 := by
  unfold join
  split
  · simp
  · split
    · have := clean_length_le b; omega
    · have := clean_length_le (d ++ slash :: b)
      simp only [List.length_append, List.length_cons] at this
      omega

end ClairModel.RpmFiles
