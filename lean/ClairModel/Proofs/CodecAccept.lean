/-
  Lemmas behind the `accepts_iff` theorems of C17: exact descriptions of what
  `bytes.Index`, the cut at the first ':', the decimal parsers and the Version
  slot loop accept.
-/
import ClairModel.Proofs.Codec

namespace ClairModel.Codec
open ClairModel.Bytes

/-! ### bytes.Index -/

theorem isPrefix_nil_right (a : Bytes) : isPrefix a [] = true ↔ a = [] := by
  cases a <;> simp [isPrefix]

theorem isPrefix_iff (a b : Bytes) : isPrefix a b = true ↔ ∃ r, b = a ++ r := by
  induction a generalizing b with
  | nil => simp [isPrefix]
  | cons x xs ih =>
    cases b with
    | nil => simp [isPrefix]
    | cons y ys =>
      simp only [isPrefix, Bool.and_eq_true, beq_iff_eq, ih, List.cons_append, List.cons.injEq]
      constructor
      · rintro ⟨rfl, r, rfl⟩; exact ⟨r, rfl, rfl⟩
      · rintro ⟨r, rfl, rfl⟩; exact ⟨rfl, r, rfl⟩

/-- `bytes.Index`: the answer is the first offset at which the needle is a
    prefix of the rest of the haystack. -/
theorem indexFrom_iff (needle : Bytes) (hay : Bytes) (k i : Nat) :
    indexFrom needle hay k = some i ↔
      k ≤ i ∧ i - k ≤ hay.length ∧ isPrefix needle (hay.drop (i - k)) = true ∧
      ∀ j, j < i - k → isPrefix needle (hay.drop j) = false := by
  induction hay generalizing k with
  | nil =>
    simp only [indexFrom, List.length_nil, Nat.le_zero_eq, List.drop_nil]
    constructor
    · intro h
      split at h
      · rename_i he
        cases h
        have : needle = [] := by cases needle <;> simp_all
        subst this
        exact ⟨Nat.le_refl _, by omega, rfl, by intro j hj; omega⟩
      · cases h
    · rintro ⟨h1, h2, h3, _⟩
      have : needle = [] := (isPrefix_nil_right needle).1 h3
      subst this
      have : i = k := by omega
      subst this; simp
  | cons c cs ih =>
    simp only [indexFrom]
    by_cases hp : isPrefix needle (c :: cs) = true
    · simp only [hp, if_true, Option.some.injEq]
      constructor
      · intro h; subst h
        refine ⟨Nat.le_refl _, by simp, by simpa using hp, by intro j hj; omega⟩
      · rintro ⟨h1, _, _, h4⟩
        by_cases hik : i = k
        · exact hik.symm
        · have := h4 0 (by omega)
          simp only [List.drop_zero] at this
          rw [hp] at this; cases this
    · have hpf : isPrefix needle (c :: cs) = false := by simpa using hp
      simp only [hp, if_false, Bool.false_eq_true]
      rw [ih (k + 1)]
      constructor
      · rintro ⟨h1, h2, h3, h4⟩
        have e : i - k = (i - (k + 1)) + 1 := by omega
        refine ⟨by omega, by simp only [List.length_cons]; omega, by rw [e]; simpa using h3, ?_⟩
        intro j hj
        cases j with
        | zero => simpa using hpf
        | succ j => simpa using h4 j (by omega)
      · rintro ⟨h1, h2, h3, h4⟩
        have hik : i ≠ k := by
          intro e; subst e
          simp only [Nat.sub_self, List.drop_zero] at h3
          rw [hpf] at h3; cases h3
        have e : i - k = (i - (k + 1)) + 1 := by omega
        refine ⟨by omega, by simp only [List.length_cons] at h2; omega, by rw [e] at h3; simpa using h3, ?_⟩
        intro j hj
        have := h4 (j + 1) (by omega)
        simpa using this

theorem index_iff (hay needle : Bytes) (i : Nat) :
    index hay needle = some i ↔
      i ≤ hay.length ∧ isPrefix needle (hay.drop i) = true ∧
      ∀ j, j < i → isPrefix needle (hay.drop j) = false := by
  unfold index
  rw [indexFrom_iff]
  simp

/-! ### cut at the first separator -/

theorem cut_eq (sep : Nat) (s : Bytes) : ∀ (a b : Bytes), cut sep s = some (a, b) → s = a ++ sep :: b := by
  induction s with
  | nil => intro a b h; simp [cut] at h
  | cons c cs ih =>
    intro a b h
    simp only [cut] at h
    by_cases hc : c = sep
    · simp only [hc, if_true, Option.some.injEq, Prod.mk.injEq] at h
      rw [← h.1, ← h.2, hc]; rfl
    · simp only [hc, if_false] at h
      cases hcut : cut sep cs with
      | none => simp [hcut] at h
      | some p =>
        obtain ⟨a', b'⟩ := p
        simp only [hcut, Option.some.injEq, Prod.mk.injEq] at h
        rw [← h.1, ← h.2, ih a' b' hcut]; rfl

theorem cut_iff (sep : Nat) (s a b : Bytes) :
    cut sep s = some (a, b) ↔ s = a ++ sep :: b ∧ sep ∉ a :=
  ⟨fun h => ⟨cut_eq sep s a b h, cut_fst_no_sep sep s a b h⟩, fun ⟨h1, h2⟩ => by rw [h1]; exact cut_append sep a b h2⟩

theorem cut_none_iff (sep : Nat) (s : Bytes) : cut sep s = none ↔ sep ∉ s := by
  induction s with
  | nil => simp [cut]
  | cons c cs ih =>
    simp only [cut, List.mem_cons, not_or]
    by_cases hc : c = sep
    · simp [hc]
    · simp only [hc, if_false]
      cases hcut : cut sep cs with
      | none =>
        simp only [true_iff]
        exact ⟨fun e => hc e.symm, ih.1 hcut⟩
      | some p =>
        obtain ⟨a', b'⟩ := p
        simp only [reduceCtorEq, false_iff, not_and, Classical.not_not]
        intro _
        have : ¬ cut sep cs = none := by rw [hcut]; simp
        exact Classical.byContradiction fun hn => this (ih.2 hn)

/-! ### decimal -/

theorem parseDigits_isSome_iff (s : Bytes) (acc : Nat) :
    (parseDigits acc s).isSome = true ↔ ∀ c ∈ s, isDigit c = true := by
  induction s generalizing acc with
  | nil => simp [parseDigits]
  | cons c cs ih =>
    simp only [parseDigits, List.mem_cons, forall_eq_or_imp]
    by_cases hd : isDigit c = true
    · simp [hd, ih]
    · simp [hd]

/-- The digit loop accepts exactly the non-empty strings of ASCII digits. -/
theorem parseNat_isSome_iff (s : Bytes) :
    (parseNat s).isSome = true ↔ s ≠ [] ∧ ∀ c ∈ s, isDigit c = true := by
  unfold parseNat
  cases s with
  | nil => simp
  | cons c cs => simp [parseDigits_isSome_iff]

/-- Whatever `ParseInt(s, 10, 32)` accepts is in the int32 range. -/
theorem parseInt32_range (s : Bytes) (n : Int) (h : parseInt32 s = some n) : inInt32 n := by
  unfold parseInt32 at h
  unfold inInt32
  split at h
  · split at h
    · cases h
    · split at h
      · cases h; omega
      · cases h
  · split at h
    · cases h
    · split at h
      · cases h; omega
      · cases h
  · split at h
    · cases h
    · split at h
      · cases h; omega
      · cases h

/-! ### the Version slot loop -/

theorem fillSlots_isSome_iff (ps : List Bytes) : ∀ (v : List Int) (i : Nat), i ≤ 10 →
    ((fillSlots v ps i).isSome = true ↔ i + ps.length ≤ 10 ∧ ∀ p ∈ ps, (parseInt32 p).isSome = true) := by
  induction ps with
  | nil => intro v i hi; simp [fillSlots]; exact hi
  | cons p ps ih =>
    intro v i hi
    simp only [fillSlots, List.length_cons, List.mem_cons, forall_eq_or_imp]
    by_cases h10 : i ≥ 10
    · simp only [h10, if_true, Option.isSome_none, Bool.false_eq_true, false_iff, not_and]
      intro h; omega
    · simp only [h10, if_false]
      cases hp : parseInt32 p with
      | none => simp
      | some n =>
        simp only [Option.isSome_some, true_and]
        rw [ih _ (i + 1) (by omega)]
        constructor
        · rintro ⟨h1, h2⟩; exact ⟨by omega, h2⟩
        · rintro ⟨h1, h2⟩; exact ⟨by omega, h2⟩

/-- The loop that also reports the receiver agrees with the plain one. -/
theorem fillSlotsX_ok (ps : List Bytes) : ∀ (v : List Int) (i : Nat),
    (fillSlotsX v ps i).2 = (fillSlots v ps i).isSome ∧
    (∀ w, fillSlots v ps i = some w → (fillSlotsX v ps i).1 = w) := by
  induction ps with
  | nil => intro v i; simp [fillSlots, fillSlotsX]
  | cons p ps ih =>
    intro v i
    simp only [fillSlots, fillSlotsX]
    by_cases h10 : i ≥ 10
    · simp [h10]
    · simp only [h10, if_false]
      cases hp : parseInt32 p with
      | none => simp
      | some n => exact ih _ _

theorem fillSlotsX_length (ps : List Bytes) : ∀ (v : List Int) (i : Nat),
    (fillSlotsX v ps i).1.length = v.length := by
  induction ps with
  | nil => intro v i; simp [fillSlotsX]
  | cons p ps ih =>
    intro v i
    simp only [fillSlotsX]
    split
    · rfl
    · split
      · rfl
      · rw [ih]; simp [setSlot]

/-! ### round trips (used by Props/C17 and by the report proofs) -/

theorem versionUnmarshal_marshal (kind : Bytes) (v : List Int) (old : Version)
    (hk : kind ≠ []) (hc : 58 ∉ kind) (hv : v.length = 10)
    (hr : ∀ x ∈ v, inInt32 x) :
    versionUnmarshal old (versionMarshal ⟨kind, v⟩) = some ⟨kind, v⟩ := by
  have hke : kind.isEmpty = false := by cases kind <;> simp_all
  simp only [versionMarshal, hke, Bool.false_eq_true, if_false, versionUnmarshal]
  rw [cut_append 58 kind _ hc]
  simp only
  match v, hv, hr with
  | x :: xs, hv, hr =>
    have hparts : ∀ q ∈ showInt x :: xs.map showInt, 46 ∉ q := by
      intro q hq
      have : q ∈ (x :: xs).map showInt := by simpa using hq
      rcases List.mem_map.1 this with ⟨y, _, rfl⟩
      exact showInt_no 46 (by decide) (by decide) y
    rw [List.map_cons, splitOn_joinWith 46 _ _ hparts, ← List.map_cons]
    have hz : Version.zero.v.length = 10 := by simp [Version.zero]
    rw [fillSlots_showInt (x :: xs) Version.zero.v 0 hz (by omega) hr]
    have hlen : Version.zero.v.length ≤ 0 + (x :: xs).length := by omega
    rw [List.drop_eq_nil_of_le hlen]
    simp

theorem digestParse_repr (d : Digest) (hb : ∀ b ∈ d.checksum, b < 256)
    (hs : digestSize d.algo = some d.checksum.length) :
    digestParse (digestRepr d) = some d := by
  have hc : 58 ∉ d.algo := by
    unfold digestSize at hs
    split at hs
    · rename_i h; rw [h]; decide
    · split at hs
      · rename_i h; rw [h]; decide
      · cases hs
  simp only [digestParse, digestRepr, cut_append 58 d.algo _ hc, hexDecode_hexEncode _ hb, hs, if_true]

end ClairModel.Codec
