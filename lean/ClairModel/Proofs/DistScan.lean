/-
  Lemmas about Model/DistScan.lean: what the distribution scanners report on
  release files of the usual shapes.

  * rhel: `Red Hat Enterprise Linux [Server |Atomic Host ]release N…` and
    `Red Hat Enterprise Linux N…` report release `N`; a number that does not
    fit an int64 is an error; `etc/oracle-release` wins; `etc/redhat-release`
    is searched before `etc/os-release`.
  * alpine: `VERSION_ID=a.b.c` reports `a.b`; `PRETTY_NAME` of edge; the
    `etc/issue` phrase.
  * debian: `VERSION_CODENAME`, else the `(word)` at the end of `VERSION`.
  * ubuntu: the line loop on the three keys in any order.
-/
import ClairModel.Model.DistScan
import ClairModel.Proofs.PyMeta

set_option autoImplicit false

namespace ClairModel.DistScan
open ClairModel.Bytes ClairModel.OsRelease

/-! ### shapes -/

def Digits (d : Bytes) : Prop := d ≠ [] ∧ ∀ c ∈ d, isDigit c = true

def NoDigitHead : Bytes → Prop
  | [] => True
  | c :: _ => isDigit c = false

/-- the text does not start with a byte `p` accepts -/
def NoHead (p : Nat → Bool) : Bytes → Prop
  | [] => True
  | c :: _ => p c = false

theorem NoDigitHead.noHead {s : Bytes} (h : NoDigitHead s) : NoHead isDigit s := by
  cases s with
  | nil => trivial
  | cons c cs => exact h

/-! ### takeWhile / dropWhile on a run followed by a stop -/

theorem takeWhile_run (p : Nat → Bool) (d rest : Bytes) (hd : ∀ c ∈ d, p c = true) (hr : NoHead p rest) :
    (d ++ rest).takeWhile p = d := by
  induction d with
  | nil =>
    cases rest with
    | nil => rfl
    | cons c cs =>
      have : p c = false := hr
      simp [this]
  | cons c cs ih =>
    have hc : p c = true := hd c (List.mem_cons_self ..)
    simp only [List.cons_append, List.takeWhile_cons, hc, if_true]
    rw [ih (fun x hx => hd x (List.mem_cons_of_mem _ hx))]

theorem dropWhile_run (p : Nat → Bool) (d rest : Bytes) (hd : ∀ c ∈ d, p c = true) (hr : NoHead p rest) :
    (d ++ rest).dropWhile p = rest := by
  induction d with
  | nil =>
    cases rest with
    | nil => rfl
    | cons c cs =>
      have : p c = false := hr
      simp [this]
  | cons c cs ih =>
    have hc : p c = true := hd c (List.mem_cons_self ..)
    simp only [List.cons_append, List.dropWhile_cons, hc, if_true]
    exact ih (fun x hx => hd x (List.mem_cons_of_mem _ hx))

theorem dropWhile_noHead (p : Nat → Bool) (s : Bytes) (h : NoHead p s) : s.dropWhile p = s := by
  cases s with
  | nil => rfl
  | cons c cs =>
    have : p c = false := h
    simp [this]

theorem noHead_append (p : Nat → Bool) (d rest : Bytes) (hne : d ≠ []) (h : NoHead p d) : NoHead p (d ++ rest) := by
  cases d with
  | nil => exact absurd rfl hne
  | cons c cs => exact h

/-- a non-empty run of digits starts with a digit -/
theorem Digits.head {d : Bytes} (h : Digits d) : ∃ c cs, d = c :: cs ∧ isDigit c = true := by
  cases d with
  | nil => exact absurd rfl h.1
  | cons c cs => exact ⟨c, cs, rfl, h.2 c (List.mem_cons_self ..)⟩

theorem digit_range {c : Nat} (h : isDigit c = true) : 48 ≤ c ∧ c ≤ 57 := by
  simpa [isDigit] using h

theorem digit_not_space {c : Nat} (h : isDigit c = true) : isReSpace c = false := by
  have := digit_range h
  simp only [isReSpace, Bool.or_eq_false_iff, beq_eq_false_iff_ne, ne_eq]
  omega

theorem digit_isWord {c : Nat} (h : isDigit c = true) : isWord c = true := by
  simp [isWord, h]

theorem letter_isWord {c : Nat} (h : isLetter c = true) : isWord c = true := by
  simp [isWord, h]

theorem Digits.noSpaceHead {d : Bytes} (h : Digits d) (rest : Bytes) : NoHead isReSpace (d ++ rest) := by
  obtain ⟨c, cs, rfl, hc⟩ := h.head
  exact digit_not_space hc

/-! ### `findAfter` -/

theorem findAfter_cons {α : Type} (pre : Bytes) (f : Bytes → Option α) (c : Nat) (cs : Bytes) :
    findAfter pre f (c :: cs) =
      match (if isPrefix pre (c :: cs) then f ((c :: cs).drop pre.length) else none) with
      | some r => some r
      | none => findAfter pre f cs := by
  rw [findAfter]
  rfl

/-- the phrase at the very start: what follows is tried first, else the search goes on one byte later -/
theorem findAfter_at {α : Type} (pre : Bytes) (f : Bytes → Option α) (x : Bytes) (hne : pre ≠ []) :
    findAfter pre f (pre ++ x) =
      match f x with
      | some r => some r
      | none => findAfter pre f (pre.tail ++ x) := by
  cases pre with
  | nil => exact absurd rfl hne
  | cons c cs =>
    have hp : isPrefix (c :: cs) (c :: (cs ++ x)) = true := PyMeta.isPrefix_append (c :: cs) x
    have hdrop : (c :: (cs ++ x)).drop (c :: cs).length = x := by
      simp
    rw [List.cons_append, findAfter_cons, hp, hdrop]
    rfl

theorem findAfter_here {α : Type} (pre : Bytes) (f : Bytes → Option α) (x : Bytes) (r : α) (hne : pre ≠ [])
    (h : f x = some r) : findAfter pre f (pre ++ x) = some r := by
  rw [findAfter_at pre f x hne, h]

/-- a stretch without the first byte of the phrase is skipped -/
theorem findAfter_skip {α : Type} (c : Nat) (p : Bytes) (f : Bytes → Option α) (s x : Bytes) (hs : c ∉ s) :
    findAfter (c :: p) f (s ++ x) = findAfter (c :: p) f x := by
  induction s with
  | nil => rfl
  | cons d ds ih =>
    have hd : c ≠ d := fun e => hs (by simp [e])
    have hp : isPrefix (c :: p) (d :: (ds ++ x)) = false := by simp [isPrefix, hd]
    rw [List.cons_append, findAfter_cons, hp]
    exact ih (fun e => hs (List.mem_cons_of_mem _ e))

theorem findAfter_absent {α : Type} (c : Nat) (p : Bytes) (f : Bytes → Option α) (s : Bytes) (hs : c ∉ s) :
    findAfter (c :: p) f s = none := by
  have := findAfter_skip c p f s [] hs
  simp [findAfter] at this
  exact this

/-! ### rhel -/

theorem sRhel_eq : sRhel = [82, 101, 100, 32, 72, 97, 116, 32, 69, 110, 116, 101, 114, 112, 114, 105, 115, 101, 32,
    76, 105, 110, 117, 120, 32] := by decide
theorem asc_release_sp : asc "release " = [114, 101, 108, 101, 97, 115, 101, 32] := by decide
theorem asc_release : asc "release" = [114, 101, 108, 101, 97, 115, 101] := by decide
theorem asc_server_sp : asc "Server " = [83, 101, 114, 118, 101, 114, 32] := by decide
theorem asc_server : asc "Server" = [83, 101, 114, 118, 101, 114] := by decide
theorem asc_atomic_sp : asc "Atomic Host " = [65, 116, 111, 109, 105, 99, 32, 72, 111, 115, 116, 32] := by decide
theorem asc_atomic : asc "Atomic Host" = [65, 116, 111, 109, 105, 99, 32, 72, 111, 115, 116] := by decide

theorem sRhel_ne : sRhel ≠ [] := by decide

theorem wsDigits_digits (d rest : Bytes) (hd : Digits d) (hr : NoDigitHead rest) : wsDigits (d ++ rest) = some d := by
  have hne : d.isEmpty = false := by
    cases d with
    | nil => exact absurd rfl hd.1
    | cons _ _ => rfl
  simp only [wsDigits]
  rw [dropWhile_noHead _ _ (hd.noSpaceHead rest), takeWhile_run _ _ _ hd.2 hr.noHead]
  simp [hne]

theorem wsDigits_sp (s : Bytes) : wsDigits (32 :: s) = wsDigits s := by
  simp [wsDigits, isReSpace]

/-- `8…` -/
theorem releaseTail_digits (d rest : Bytes) (hd : Digits d) (hr : NoDigitHead rest) :
    releaseTail (d ++ rest) = some d := by
  obtain ⟨c, cs, hc, hcd⟩ := hd.head
  have hw := wsDigits_digits d rest hd hr
  have hrange := digit_range hcd
  have hnp : isPrefix (asc "release") (d ++ rest) = false := by
    subst hc
    have : (114 == c) = false := by simp; omega
    simp [asc_release, isPrefix, this]
  simp only [releaseTail]
  rw [dropWhile_noHead _ _ (hd.noSpaceHead rest), hnp, hw]
  rfl

/-- `release 8…` -/
theorem releaseTail_release (d rest : Bytes) (hd : Digits d) (hr : NoDigitHead rest) :
    releaseTail (asc "release " ++ (d ++ rest)) = some d := by
  have hw := wsDigits_digits d rest hd hr
  rw [asc_release_sp]
  simp only [releaseTail, asc_release]
  have h1 : ([114, 101, 108, 101, 97, 115, 101, 32] ++ (d ++ rest)).dropWhile isReSpace =
      114 :: 101 :: 108 :: 101 :: 97 :: 115 :: 101 :: 32 :: (d ++ rest) := by
    simp [isReSpace]
  rw [h1]
  have h2 : isPrefix [114, 101, 108, 101, 97, 115, 101]
      (114 :: 101 :: 108 :: 101 :: 97 :: 115 :: 101 :: 32 :: (d ++ rest)) = true := by
    simp [isPrefix]
  rw [h2]
  simp only [if_true, List.drop_succ_cons, List.drop_zero, wsDigits_sp, hw]
  rfl

theorem releaseTail_sp (s : Bytes) : releaseTail (32 :: s) = releaseTail s := by
  simp [releaseTail, isReSpace]

/-- `release 8…` after nothing, `Server ` or `Atomic Host ` -/
theorem rhelTail_release (variant d rest : Bytes)
    (hv : variant = [] ∨ variant = asc "Server " ∨ variant = asc "Atomic Host ")
    (hd : Digits d) (hr : NoDigitHead rest) :
    rhelTail (variant ++ (asc "release " ++ (d ++ rest))) = some d := by
  have hrel := releaseTail_release d rest hd hr
  rcases hv with hv | hv | hv
  · subst hv
    have h1 : isPrefix (asc "Server") ([] ++ (asc "release " ++ (d ++ rest))) = false := by
      simp [asc_server, asc_release_sp, isPrefix]
    have h2 : isPrefix (asc "Atomic Host") ([] ++ (asc "release " ++ (d ++ rest))) = false := by
      simp [asc_atomic, asc_release_sp, isPrefix]
    simp only [rhelTail, h1, h2]
    simp only [List.nil_append, hrel]
    rfl
  · subst hv
    have h1 : isPrefix (asc "Server") (asc "Server " ++ (asc "release " ++ (d ++ rest))) = true := by
      simp [asc_server, asc_server_sp, isPrefix]
    have h2 : (asc "Server " ++ (asc "release " ++ (d ++ rest))).drop 6 = 32 :: (asc "release " ++ (d ++ rest)) := by
      simp [asc_server_sp]
    simp only [rhelTail, h1, h2, releaseTail_sp, hrel]
    rfl
  · subst hv
    have h1 : isPrefix (asc "Server") (asc "Atomic Host " ++ (asc "release " ++ (d ++ rest))) = false := by
      simp [asc_server, asc_atomic_sp, isPrefix]
    have h2 : isPrefix (asc "Atomic Host") (asc "Atomic Host " ++ (asc "release " ++ (d ++ rest))) = true := by
      simp [asc_atomic, asc_atomic_sp, isPrefix]
    have h3 : (asc "Atomic Host " ++ (asc "release " ++ (d ++ rest))).drop 11 =
        32 :: (asc "release " ++ (d ++ rest)) := by
      simp [asc_atomic_sp]
    simp only [rhelTail, h1, h2, h3, releaseTail_sp, hrel]
    rfl

/-- `8…` right after the phrase -/
theorem rhelTail_digits (d rest : Bytes) (hd : Digits d) (hr : NoDigitHead rest) : rhelTail (d ++ rest) = some d := by
  obtain ⟨c, cs, hc, hcd⟩ := hd.head
  have hrange := digit_range hcd
  have hrel := releaseTail_digits d rest hd hr
  have h1 : isPrefix (asc "Server") (d ++ rest) = false := by
    subst hc
    have : (83 == c) = false := by simp; omega
    simp [asc_server, isPrefix, this]
  have h2 : isPrefix (asc "Atomic Host") (d ++ rest) = false := by
    subst hc
    have : (65 == c) = false := by simp; omega
    simp [asc_atomic, isPrefix, this]
  simp only [rhelTail, h1, h2, hrel]
  rfl

/-- the phrase at the start of the file followed by something `rhelTail` accepts -/
theorem rhelOfFile_found (x d : Bytes) (h : rhelTail x = some d) :
    rhelOfFile (sRhel ++ x) =
      if natOfDigits d < 9223372036854775808 then some (.dist (mkRelease (natOfDigits d))) else some .err := by
  simp only [rhelOfFile]
  rw [findAfter_here sRhel rhelTail x d sRhel_ne h]

/-- `Red Hat Enterprise Linux [Server |Atomic Host ]release N<rest>` reports release `N` -/
theorem rhelOfFile_release (variant d rest : Bytes)
    (hv : variant = [] ∨ variant = asc "Server " ∨ variant = asc "Atomic Host ")
    (hd : Digits d) (hr : NoDigitHead rest) (hn : natOfDigits d < 9223372036854775808) :
    rhelOfFile (sRhel ++ variant ++ asc "release " ++ d ++ rest) = some (.dist (mkRelease (natOfDigits d))) := by
  have := rhelOfFile_found _ d (rhelTail_release variant d rest hv hd hr)
  simp only [List.append_assoc]
  rw [this, if_pos hn]

/-- `Red Hat Enterprise Linux 8` -/
theorem rhelOfFile_bare (d rest : Bytes) (hd : Digits d) (hr : NoDigitHead rest)
    (hn : natOfDigits d < 9223372036854775808) :
    rhelOfFile (sRhel ++ d ++ rest) = some (.dist (mkRelease (natOfDigits d))) := by
  have := rhelOfFile_found _ d (rhelTail_digits d rest hd hr)
  simp only [List.append_assoc]
  rw [this, if_pos hn]

/-- a release number that does not fit an int64 is an error, not "no match" -/
theorem rhelOfFile_overflow (d rest : Bytes) (hd : Digits d) (hr : NoDigitHead rest)
    (hn : 9223372036854775808 ≤ natOfDigits d) :
    rhelOfFile (sRhel ++ asc "release " ++ d ++ rest) = some .err := by
  have := rhelOfFile_found _ d (rhelTail_release [] d rest (Or.inl rfl) hd hr)
  simp only [List.append_assoc]
  rw [List.nil_append] at this
  rw [this, if_neg (by omega)]

/-- the same with a variant word -/
theorem rhelOfFile_overflow_variant (variant d rest : Bytes)
    (hv : variant = [] ∨ variant = asc "Server " ∨ variant = asc "Atomic Host ")
    (hd : Digits d) (hr : NoDigitHead rest) (hn : 9223372036854775808 ≤ natOfDigits d) :
    rhelOfFile (sRhel ++ variant ++ asc "release " ++ d ++ rest) = some .err := by
  have := rhelOfFile_found _ d (rhelTail_release variant d rest hv hd hr)
  simp only [List.append_assoc]
  rw [this, if_neg (by omega)]

/-- `etc/oracle-release` present: nothing is reported -/
theorem rhelScan_oracle (a b : Option Bytes) : rhelScan true a b = .none := rfl

theorem rhelScan_redhat_release_first (f : Bytes) (r : Res) (o : Option Bytes) (h : rhelOfFile f = some r) :
    rhelScan false (some f) o = r := by
  simp [rhelScan, h]

theorem rhelScan_falls_back (f g : Bytes) (h : rhelOfFile f = none) :
    rhelScan false (some f) (some g) = (match rhelOfFile g with | some r => r | none => .none) := by
  cases hg : rhelOfFile g <;> simp [rhelScan, h, hg]

/-! ### alpine -/

/-- `a.b.c` ↦ `a.b`: everything before the last dot -/
theorem beforeLastDot_written (a p : Bytes) (hp : 46 ∉ p) : beforeLastDot (a ++ 46 :: p) = some a := by
  unfold beforeLastDot
  rw [PyMeta.splitOn_append', splitOn_no_sep 46 p hp]
  have hne := splitOn_ne_nil 46 a
  have hj := PyMeta.joinWith_splitOn 46 a
  cases h : splitOn 46 a with
  | nil => exact absurd h hne
  | cons q qs =>
    rw [h] at hj
    simp only [List.reverse_append, List.reverse_cons, List.reverse_nil, List.nil_append, List.singleton_append]
    cases hr : qs.reverse ++ [q] with
    | nil => simp at hr
    | cons y ys =>
      simp only
      rw [← hr]
      simp [hj]

theorem asc_alpine : asc "alpine" = [97, 108, 112, 105, 110, 101] := by decide

theorem alpineOfMap_release (m : List (Bytes × Bytes)) (mm patch name pretty : Bytes)
    (hid : get m "ID" = asc "alpine") (hv : get m "VERSION_ID" = mm ++ 46 :: patch) (hp : 46 ∉ patch)
    (hname : get m "NAME" = name) (hpretty : get m "PRETTY_NAME" = pretty) (hne : pretty ≠ edgePretty) :
    alpineOfMap m = some { name := name, did := asc "alpine", version := mm, versionId := [], codeName := [],
                           prettyName := pretty, cpe := [] } := by
  simp [alpineOfMap, hid, hv, beforeLastDot_written mm patch hp, hname, hpretty, hne]

theorem alpineOfMap_edge (m : List (Bytes × Bytes)) (mm patch name pretty : Bytes)
    (hid : get m "ID" = asc "alpine") (hv : get m "VERSION_ID" = mm ++ 46 :: patch) (hp : 46 ∉ patch)
    (hname : get m "NAME" = name) (hpretty : get m "PRETTY_NAME" = pretty) (he : pretty = edgePretty) :
    alpineOfMap m = some { name := name, did := asc "alpine", version := asc "edge", versionId := [], codeName := [],
                           prettyName := pretty, cpe := [] } := by
  simp [alpineOfMap, hid, hv, beforeLastDot_written mm patch hp, hname, hpretty, he]

theorem alpineOfMap_other (m : List (Bytes × Bytes)) (h : get m "ID" ≠ asc "alpine") : alpineOfMap m = none := by
  simp [alpineOfMap, h]

theorem sAlpineLinux_eq : sAlpineLinux = 65 :: [108, 112, 105, 110, 101, 32, 76, 105, 110, 117, 120, 32] := by decide
theorem asc_edge_tail : asc " (edge)" = [32, 40, 101, 100, 103, 101, 41] := by decide

theorem digit_ne_A {c : Nat} (h : isDigit c = true) : 65 ≠ c := by
  have := digit_range h
  omega

theorem digits_no_A (d : Bytes) (h : ∀ c ∈ d, isDigit c = true) : 65 ∉ d :=
  fun hm => digit_ne_A (h 65 hm) rfl

theorem isDigit_dot : isDigit 46 = false := by decide

/-- `3.18` then the end or a newline -/
theorem majorMinor_written (a b rest : Bytes) (ha : Digits a) (hb : Digits b) (hr : NoDigitHead rest) :
    majorMinor (a ++ 46 :: (b ++ rest)) = some (a ++ 46 :: b) := by
  have hae : a.isEmpty = false := by
    cases a with
    | nil => exact absurd rfl ha.1
    | cons _ _ => rfl
  have hbe : b.isEmpty = false := by
    cases b with
    | nil => exact absurd rfl hb.1
    | cons _ _ => rfl
  have hdot : NoHead isDigit (46 :: (b ++ rest)) := isDigit_dot
  simp only [majorMinor]
  rw [dropWhile_run _ _ _ ha.2 hdot, takeWhile_run _ _ _ ha.2 hdot]
  simp only
  rw [takeWhile_run _ _ _ hb.2 hr.noHead]
  simp [hae, hbe]

/-- `3.18` then the end or a newline is not an edge phrase -/
theorem edgeTail_written (a b rest : Bytes) (ha : Digits a) (hb : Digits b)
    (hrest : rest = [] ∨ ∃ r, rest = 10 :: r) :
    edgeTail (a ++ 46 :: (b ++ rest)) = none := by
  have hdot : NoHead isDigit (46 :: (b ++ rest)) := isDigit_dot
  have hw : NoHead isWord rest := by
    rcases hrest with h | ⟨r, h⟩
    · subst h; trivial
    · subst h; show isWord 10 = false; decide
  have hnp : isPrefix (asc " (edge)") rest = false := by
    rcases hrest with h | ⟨r, h⟩
    · subst h; rw [asc_edge_tail]; rfl
    · subst h; rw [asc_edge_tail]; simp [isPrefix]
  simp only [edgeTail]
  rw [dropWhile_run _ _ _ ha.2 hdot]
  simp only
  rw [dropWhile_run _ _ _ (fun c hc => digit_isWord (hb.2 c hc)) hw, hnp]
  simp

/-- `Welcome to Alpine Linux 3.18\n…`: the first occurrence of the phrase decides,
    provided no edge phrase follows. -/
theorem alpineOfIssue_release (pre a b rest : Bytes) (hpre : 65 ∉ pre) (ha : Digits a) (hb : Digits b)
    (hrest : rest = [] ∨ ∃ r, rest = 10 :: r)
    (hedge : findAfter sAlpineLinux edgeTail rest = none) :
    alpineOfIssue (pre ++ sAlpineLinux ++ a ++ 46 :: b ++ rest) =
      some { name := asc "Alpine Linux", did := asc "alpine", version := a ++ 46 :: b, versionId := [], codeName := [],
             prettyName := asc "Alpine Linux v" ++ (a ++ 46 :: b), cpe := [] } := by
  have hndr : NoDigitHead rest := by
    rcases hrest with h | ⟨r, h⟩
    · subst h; trivial
    · subst h; show isDigit 10 = false; decide
  have hshape : pre ++ sAlpineLinux ++ a ++ 46 :: b ++ rest = pre ++ (sAlpineLinux ++ (a ++ 46 :: (b ++ rest))) := by
    simp only [List.append_assoc, List.cons_append]
  have hne : sAlpineLinux ≠ [] := by decide
  -- the version phrase is found at the first occurrence
  have hmm : findAfter sAlpineLinux majorMinor (pre ++ (sAlpineLinux ++ (a ++ 46 :: (b ++ rest)))) =
      some (a ++ 46 :: b) := by
    have h1 := findAfter_here sAlpineLinux majorMinor _ _ hne (majorMinor_written a b rest ha hb hndr)
    rw [sAlpineLinux_eq] at h1 ⊢
    rw [findAfter_skip 65 _ majorMinor pre _ hpre]
    exact h1
  -- no edge phrase: not at the first occurrence, not inside it, not after it
  have hed : findAfter sAlpineLinux edgeTail (pre ++ (sAlpineLinux ++ (a ++ 46 :: (b ++ rest)))) = none := by
    have h1 := findAfter_at sAlpineLinux edgeTail (a ++ 46 :: (b ++ rest)) hne
    rw [edgeTail_written a b rest ha hb hrest] at h1
    have hmid : 65 ∉ sAlpineLinux.tail ++ (a ++ 46 :: b) := by
      intro hm
      rcases List.mem_append.1 hm with hm | hm
      · revert hm; decide
      · rcases List.mem_append.1 hm with hm | hm
        · exact digits_no_A a ha.2 hm
        · rcases List.mem_cons.1 hm with hm | hm
          · exact absurd hm (by decide)
          · exact digits_no_A b hb.2 hm
    have h2 : sAlpineLinux.tail ++ (a ++ 46 :: (b ++ rest)) = (sAlpineLinux.tail ++ (a ++ 46 :: b)) ++ rest := by
      simp only [List.append_assoc, List.cons_append]
    rw [h2] at h1
    rw [sAlpineLinux_eq] at h1 hedge hmid ⊢
    rw [findAfter_skip 65 _ edgeTail pre _ hpre, h1]
    simp only
    rw [findAfter_skip 65 _ edgeTail _ rest hmid]
    exact hedge
  rw [hshape]
  simp [alpineOfIssue, hed, hmm]

/-- the same when the rest of the file has no `A` at all -/
theorem alpineOfIssue_release_noA (pre a b rest : Bytes) (hpre : 65 ∉ pre) (ha : Digits a) (hb : Digits b)
    (hrest : rest = [] ∨ ∃ r, rest = 10 :: r) (hA : 65 ∉ rest) :
    alpineOfIssue (pre ++ sAlpineLinux ++ a ++ 46 :: b ++ rest) =
      some { name := asc "Alpine Linux", did := asc "alpine", version := a ++ 46 :: b, versionId := [], codeName := [],
             prettyName := asc "Alpine Linux v" ++ (a ++ 46 :: b), cpe := [] } := by
  apply alpineOfIssue_release pre a b rest hpre ha hb hrest
  rw [sAlpineLinux_eq]
  exact findAfter_absent 65 _ edgeTail rest hA

/-! ### debian -/

theorem asc_debian : asc "debian" = [100, 101, 98, 105, 97, 110] := by decide

theorem isEmpty_false_of_ne {s : Bytes} (h : s ≠ []) : s.isEmpty = false := by
  cases s with
  | nil => exact absurd rfl h
  | cons _ _ => rfl

/-- no sign: `strconv.ParseInt` looks at the digits only -/
theorem parseInt32_head (c : Nat) (cs : Bytes) (h45 : c ≠ 45) (h43 : c ≠ 43) :
    parseInt32 (c :: cs) =
      if (!(c :: cs).all isDigit) = true then none
      else if natOfDigits (c :: cs) ≤ 2147483647 then some (natOfDigits (c :: cs) : Int) else none := by
  unfold parseInt32
  split
  rename_i neg d heq
  split at heq
  · rename_i r h; exact absurd (List.cons.inj h).1 h45
  · rename_i r h; exact absurd (List.cons.inj h).1 h43
  · cases heq
    simp

/-- `strconv.ParseInt` on a plain run of digits within int32 -/
theorem parseInt32_digits (d : Bytes) (hd : Digits d) (hn : natOfDigits d ≤ 2147483647) :
    parseInt32 d = some (natOfDigits d : Int) := by
  obtain ⟨c, cs, hc, hcd⟩ := hd.head
  have hrange := digit_range hcd
  have hall : d.all isDigit = true := by
    rw [List.all_eq_true]
    exact hd.2
  subst hc
  rw [parseInt32_head c cs (by omega) (by omega), hall]
  simp [hn]

theorem debianOfMap_codename (m : List (Bytes × Bytes)) (name d : Bytes)
    (hid : get m "ID" = asc "debian") (hc : mapGet m (asc "VERSION_CODENAME") = some name) (hne : name ≠ [])
    (hv : get m "VERSION_ID" = d) (hd : Digits d) (hn : natOfDigits d ≤ 2147483647) :
    debianOfMap m = some (debianDist name (natOfDigits d)) := by
  have hhas : has m "VERSION_CODENAME" = true := by simp [has, hc]
  have hget : get m "VERSION_CODENAME" = name := by simp [get, hc]
  simp [debianOfMap, hid, hhas, hget, hv, isEmpty_false_of_ne hne, isEmpty_false_of_ne hd.1,
    parseInt32_digits d hd hn]

theorem isWord_lparen : isWord 40 = false := by decide

/-- `11 (bullseye)` ↦ `bullseye` -/
theorem parenWordAtEnd_written (pre word : Bytes) (hw : word ≠ [] ∧ ∀ c ∈ word, isLetter c = true) :
    parenWordAtEnd (pre ++ 40 :: (word ++ [41])) = some word := by
  have hrev : (pre ++ 40 :: (word ++ [41])).reverse = 41 :: (word.reverse ++ 40 :: pre.reverse) := by
    simp
  have hall : ∀ c ∈ word.reverse, isWord c = true := fun c hc => letter_isWord (hw.2 c (List.mem_reverse.1 hc))
  have hstop : NoHead isWord (40 :: pre.reverse) := isWord_lparen
  have hne : word.reverse.isEmpty = false := isEmpty_false_of_ne (by simpa using hw.1)
  unfold parenWordAtEnd
  rw [hrev]
  simp only
  rw [dropWhile_run _ _ _ hall hstop, takeWhile_run _ _ _ hall hstop]
  simp [hne]

/-- trimming non-letters off a word of letters changes nothing -/
theorem trimNonLetters_letters (word : Bytes) (hw : ∀ c ∈ word, isLetter c = true) : trimNonLetters word = word := by
  have h1 : word.dropWhile (fun c => !isLetter c) = word := by
    apply dropWhile_noHead
    cases word with
    | nil => trivial
    | cons c cs => show (!isLetter c) = false; simp [hw c (List.mem_cons_self ..)]
  have h2 : word.reverse.dropWhile (fun c => !isLetter c) = word.reverse := by
    apply dropWhile_noHead
    cases hr : word.reverse with
    | nil => trivial
    | cons c cs =>
      have : c ∈ word := List.mem_reverse.1 (by rw [hr]; exact List.mem_cons_self ..)
      show (!isLetter c) = false
      simp [hw c this]
  simp [trimNonLetters, h1, h2]

theorem debianOfMap_version_fallback (m : List (Bytes × Bytes)) (pre word d : Bytes)
    (hid : get m "ID" = asc "debian") (hc : mapGet m (asc "VERSION_CODENAME") = none)
    (hver : get m "VERSION" = pre ++ 40 :: (word ++ [41]))
    (hw : word ≠ [] ∧ ∀ c ∈ word, isLetter c = true)
    (hv : get m "VERSION_ID" = d) (hd : Digits d) (hn : natOfDigits d ≤ 2147483647) :
    debianOfMap m = some (debianDist word (natOfDigits d)) := by
  have hhas : has m "VERSION_CODENAME" = false := by simp [has, hc]
  simp [debianOfMap, hid, hhas, hver, parenWordAtEnd_written pre word hw, trimNonLetters_letters word hw.2, hv,
    isEmpty_false_of_ne hw.1, isEmpty_false_of_ne hd.1, parseInt32_digits d hd hn]

theorem debianOfMap_other (m : List (Bytes × Bytes)) (h : get m "ID" ≠ asc "debian") : debianOfMap m = none := by
  simp [debianOfMap, h]

/-! ### ubuntu -/

/-- a line that leaves the state as it is: no `=`, or another key -/
def UNeutral (idKey verKey nameKey l : Bytes) : Prop := ∀ st, ubuntuLine idKey verKey nameKey st l = some st

theorem ubuntuLoop_append_neutral (idKey verKey nameKey : Bytes) (st : UState) (n rest : List Bytes)
    (hn : ∀ l ∈ n, UNeutral idKey verKey nameKey l) :
    ubuntuLoop idKey verKey nameKey st (n ++ rest) = ubuntuLoop idKey verKey nameKey st rest := by
  induction n with
  | nil => rfl
  | cons l ls ih =>
    simp only [List.cons_append, ubuntuLoop]
    rw [hn l (List.mem_cons_self ..) st]
    exact ih (fun x hx => hn x (List.mem_cons_of_mem _ hx))

theorem cutEq_append (a v : Bytes) (h : 61 ∉ a) : cutEq (a ++ 61 :: v) = some (a, v) := by
  induction a with
  | nil => simp [cutEq]
  | cons c cs ih =>
    have hc : c ≠ 61 := fun e => h (by simp [e])
    have hcs : 61 ∉ cs := fun e => h (List.mem_cons_of_mem _ e)
    simp [cutEq, hc, ih hcs]

theorem cutEq_none (l : Bytes) (h : 61 ∉ l) : cutEq l = none := by
  induction l with
  | nil => rfl
  | cons c cs ih =>
    have hc : c ≠ 61 := fun e => h (by simp [e])
    simp [cutEq, hc, ih (fun e => h (List.mem_cons_of_mem _ e))]

/-- a line without `=` is neutral -/
theorem uneutral_no_eq (idKey verKey nameKey l : Bytes) (h : 61 ∉ l) : UNeutral idKey verKey nameKey l := by
  intro st
  simp [ubuntuLine, cutEq_none l h]

/-- a line with another key is neutral -/
theorem uneutral_other_key (idKey verKey nameKey k v : Bytes) (hk : 61 ∉ k)
    (h1 : k ≠ idKey) (h2 : k ≠ nameKey) (h3 : k ≠ verKey) : UNeutral idKey verKey nameKey (k ++ 61 :: v) := by
  intro st
  simp [ubuntuLine, cutEq_append k v hk, h1, h2, h3]

/-! what `strings.Trim(v, "\"\r\n")` leaves of a written value -/

theorem trimQ_nl (v : Bytes) (hh : NoHead inCutset v) (hl : NoHead inCutset v.reverse) : trimQ (v ++ [10]) = v := by
  cases v with
  | nil => decide
  | cons c cs =>
    have h1 : ((c :: cs) ++ [10]).dropWhile inCutset = (c :: cs) ++ [10] :=
      dropWhile_noHead _ _ (noHead_append _ _ _ (by simp) hh)
    have h2 : ((c :: cs) ++ [10]).reverse = 10 :: (c :: cs).reverse := by simp
    have h3 : (10 :: (c :: cs).reverse).dropWhile inCutset = (c :: cs).reverse := by
      rw [List.dropWhile_cons]
      simp only [show inCutset 10 = true by decide, if_true]
      exact dropWhile_noHead _ _ hl
    unfold trimQ
    rw [h1, h2, h3, List.reverse_reverse]

theorem trimQ_quoted_nl (v : Bytes) (hh : NoHead inCutset v) (hl : NoHead inCutset v.reverse) :
    trimQ (34 :: v ++ [34, 10]) = v := by
  cases v with
  | nil => decide
  | cons c cs =>
    have h1 : (34 :: (c :: cs) ++ [34, 10]).dropWhile inCutset = (c :: cs) ++ [34, 10] := by
      rw [List.cons_append, List.dropWhile_cons]
      simp only [show inCutset 34 = true by decide, if_true]
      exact dropWhile_noHead _ _ (noHead_append _ _ _ (by simp) hh)
    have h2 : ((c :: cs) ++ [34, 10]).reverse = 10 :: 34 :: (c :: cs).reverse := by simp
    have h3 : (10 :: 34 :: (c :: cs).reverse).dropWhile inCutset = (c :: cs).reverse := by
      rw [List.dropWhile_cons]
      simp only [show inCutset 10 = true by decide, if_true]
      rw [List.dropWhile_cons]
      simp only [show inCutset 34 = true by decide, if_true]
      exact dropWhile_noHead _ _ hl
    unfold trimQ
    rw [h1, h2, h3, List.reverse_reverse]

/-- the same with `\r\n` -/
theorem trimQ_crnl (v : Bytes) (hh : NoHead inCutset v) (hl : NoHead inCutset v.reverse) :
    trimQ (v ++ [13, 10]) = v := by
  cases v with
  | nil => decide
  | cons c cs =>
    have h1 : ((c :: cs) ++ [13, 10]).dropWhile inCutset = (c :: cs) ++ [13, 10] :=
      dropWhile_noHead _ _ (noHead_append _ _ _ (by simp) hh)
    have h2 : ((c :: cs) ++ [13, 10]).reverse = 10 :: 13 :: (c :: cs).reverse := by simp
    have h3 : (10 :: 13 :: (c :: cs).reverse).dropWhile inCutset = (c :: cs).reverse := by
      rw [List.dropWhile_cons]
      simp only [show inCutset 10 = true by decide, if_true]
      rw [List.dropWhile_cons]
      simp only [show inCutset 13 = true by decide, if_true]
      exact dropWhile_noHead _ _ hl
    unfold trimQ
    rw [h1, h2, h3, List.reverse_reverse]

/-! the three keys -/

inductive UKey where
  | id | ver | name
  deriving DecidableEq, Repr

def UKey.text (idKey verKey nameKey : Bytes) : UKey → Bytes
  | .id => idKey
  | .ver => verKey
  | .name => nameKey

/-- what a line with key `k` and trimmed value `v` does to the state -/
def UKey.set (k : UKey) (st : UState) (v : Bytes) : UState :=
  match k with
  | .id => { st with hasID := true }
  | .ver => { st with ver := v }
  | .name => { st with name := v }

/-- `KEY=raw` where `raw` is everything after the `=`, newline included -/
def uLine (idKey verKey nameKey : Bytes) (k : UKey) (raw : Bytes) : Bytes := k.text idKey verKey nameKey ++ 61 :: raw

/-- the three keys are distinct and contain no `=` -/
structure KeysOK (idKey verKey nameKey : Bytes) : Prop where
  iv : idKey ≠ verKey
  inm : idKey ≠ nameKey
  vn : verKey ≠ nameKey
  i61 : 61 ∉ idKey
  v61 : 61 ∉ verKey
  n61 : 61 ∉ nameKey

theorem ubuntuLine_id (idKey verKey nameKey : Bytes) (hk : KeysOK idKey verKey nameKey) (st : UState) (v : Bytes)
    (hu : lower (trimQ (v ++ [10])) = asc "ubuntu") :
    ubuntuLine idKey verKey nameKey st (idKey ++ 61 :: v ++ [10]) = some { st with hasID := true } := by
  have : idKey ++ 61 :: v ++ [10] = idKey ++ 61 :: (v ++ [10]) := by simp
  rw [this]
  simp [ubuntuLine, cutEq_append idKey _ hk.i61, hu]

theorem ubuntuLine_id_other (idKey verKey nameKey : Bytes) (hk : KeysOK idKey verKey nameKey) (st : UState) (v : Bytes)
    (hu : lower (trimQ (v ++ [10])) ≠ asc "ubuntu") :
    ubuntuLine idKey verKey nameKey st (idKey ++ 61 :: v ++ [10]) = none := by
  have : idKey ++ 61 :: v ++ [10] = idKey ++ 61 :: (v ++ [10]) := by simp
  rw [this]
  simp [ubuntuLine, cutEq_append idKey _ hk.i61, hu]

theorem ubuntuLine_name (idKey verKey nameKey : Bytes) (hk : KeysOK idKey verKey nameKey) (st : UState) (v : Bytes) :
    ubuntuLine idKey verKey nameKey st (nameKey ++ 61 :: v ++ [10]) = some { st with name := trimQ (v ++ [10]) } := by
  have : nameKey ++ 61 :: v ++ [10] = nameKey ++ 61 :: (v ++ [10]) := by simp
  rw [this]
  simp [ubuntuLine, cutEq_append nameKey _ hk.n61, Ne.symm hk.inm]

theorem ubuntuLine_ver (idKey verKey nameKey : Bytes) (hk : KeysOK idKey verKey nameKey) (st : UState) (v : Bytes) :
    ubuntuLine idKey verKey nameKey st (verKey ++ 61 :: v ++ [10]) = some { st with ver := trimQ (v ++ [10]) } := by
  have : verKey ++ 61 :: v ++ [10] = verKey ++ 61 :: (v ++ [10]) := by simp
  rw [this]
  simp [ubuntuLine, cutEq_append verKey _ hk.v61, Ne.symm hk.iv, hk.vn]

/-- all three at once, on any raw value -/
theorem ubuntuLine_key (idKey verKey nameKey : Bytes) (hk : KeysOK idKey verKey nameKey) (st : UState) (k : UKey)
    (raw : Bytes) (hu : k = .id → lower (trimQ raw) = asc "ubuntu") :
    ubuntuLine idKey verKey nameKey st (uLine idKey verKey nameKey k raw) = some (k.set st (trimQ raw)) := by
  cases k with
  | id => simp [uLine, UKey.text, UKey.set, ubuntuLine, cutEq_append idKey _ hk.i61, hu rfl]
  | ver => simp [uLine, UKey.text, UKey.set, ubuntuLine, cutEq_append verKey _ hk.v61, Ne.symm hk.iv, hk.vn]
  | name => simp [uLine, UKey.text, UKey.set, ubuntuLine, cutEq_append nameKey _ hk.n61, Ne.symm hk.inm]

theorem ubuntuLoop_key (idKey verKey nameKey : Bytes) (hk : KeysOK idKey verKey nameKey) (st : UState) (k : UKey)
    (raw : Bytes) (rest : List Bytes) (hu : k = .id → lower (trimQ raw) = asc "ubuntu") :
    ubuntuLoop idKey verKey nameKey st (uLine idKey verKey nameKey k raw :: rest) =
      ubuntuLoop idKey verKey nameKey (k.set st (trimQ raw)) rest := by
  simp only [ubuntuLoop]
  rw [ubuntuLine_key idKey verKey nameKey hk st k raw hu]

/-- the value written for key `k` among three lines -/
def valOf (k k1 k2 : UKey) (x1 x2 x3 : Bytes) : Bytes := if k1 = k then x1 else if k2 = k then x2 else x3

/-- the three keys once each, in any order, with any neutral lines around them -/
theorem ubuntuLoop_three (idKey verKey nameKey : Bytes) (hk : KeysOK idKey verKey nameKey)
    (k1 k2 k3 : UKey) (r1 r2 r3 : Bytes) (n0 n1 n2 n3 : List Bytes)
    (d12 : k1 ≠ k2) (d13 : k1 ≠ k3) (d23 : k2 ≠ k3)
    (hn0 : ∀ l ∈ n0, UNeutral idKey verKey nameKey l) (hn1 : ∀ l ∈ n1, UNeutral idKey verKey nameKey l)
    (hn2 : ∀ l ∈ n2, UNeutral idKey verKey nameKey l) (hn3 : ∀ l ∈ n3, UNeutral idKey verKey nameKey l)
    (hu : lower (trimQ (valOf .id k1 k2 r1 r2 r3)) = asc "ubuntu") :
    ubuntuLoop idKey verKey nameKey ⟨false, [], []⟩
        (n0 ++ uLine idKey verKey nameKey k1 r1 :: (n1 ++ uLine idKey verKey nameKey k2 r2 ::
          (n2 ++ uLine idKey verKey nameKey k3 r3 :: n3))) =
      some ⟨true, trimQ (valOf .ver k1 k2 r1 r2 r3), trimQ (valOf .name k1 k2 r1 r2 r3)⟩ := by
  have u1 : k1 = .id → lower (trimQ r1) = asc "ubuntu" := by
    intro e; simpa [valOf, e] using hu
  have u2 : k2 = .id → lower (trimQ r2) = asc "ubuntu" := by
    intro e
    have : k1 ≠ .id := fun e1 => d12 (e1.trans e.symm)
    simpa [valOf, e, this] using hu
  have u3 : k3 = .id → lower (trimQ r3) = asc "ubuntu" := by
    intro e
    have h1 : k1 ≠ .id := fun e1 => d13 (e1.trans e.symm)
    have h2 : k2 ≠ .id := fun e1 => d23 (e1.trans e.symm)
    simpa [valOf, h1, h2] using hu
  have hn3' := ubuntuLoop_append_neutral idKey verKey nameKey
    (k3.set (k2.set (k1.set ⟨false, [], []⟩ (trimQ r1)) (trimQ r2)) (trimQ r3)) n3 [] hn3
  rw [List.append_nil] at hn3'
  rw [ubuntuLoop_append_neutral _ _ _ _ _ _ hn0, ubuntuLoop_key _ _ _ hk _ _ _ _ u1,
    ubuntuLoop_append_neutral _ _ _ _ _ _ hn1, ubuntuLoop_key _ _ _ hk _ _ _ _ u2,
    ubuntuLoop_append_neutral _ _ _ _ _ _ hn2, ubuntuLoop_key _ _ _ hk _ _ _ _ u3, hn3']
  cases k1 <;> cases k2 <;> cases k3 <;> simp_all [UKey.set, valOf, ubuntuLoop]

/-- the keys of `etc/lsb-release` and of `etc/os-release` -/
theorem keysOK_lsb : KeysOK (asc "DISTRIB_ID") (asc "DISTRIB_RELEASE") (asc "DISTRIB_CODENAME") :=
  ⟨by decide, by decide, by decide, by decide, by decide, by decide⟩

theorem keysOK_osr : KeysOK (asc "ID") (asc "VERSION_ID") (asc "VERSION_CODENAME") :=
  ⟨by decide, by decide, by decide, by decide, by decide, by decide⟩

/-- lsb-release wins when it exists, whatever os-release says -/
theorem ubuntuScan_lsb_first (b : Bytes) (o : Option Bytes) :
    ubuntuScan (some b) o = ubuntuOfFile "DISTRIB_ID" "DISTRIB_RELEASE" "DISTRIB_CODENAME" b := rfl

theorem ubuntuScan_osr (b : Bytes) :
    ubuntuScan none (some b) = ubuntuOfFile "ID" "VERSION_ID" "VERSION_CODENAME" b := rfl

end ClairModel.DistScan
