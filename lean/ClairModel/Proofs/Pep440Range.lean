/-
  Lemmas about pkg/pep440/range.go (Model/Pep440.lean `parseRange`,
  `rangeMatch`): a specifier is the conjunction of its comma-separated parts,
  each part is one of seven operators applied to a parsed version.
-/
import ClairModel.Proofs.Pep440

set_option linter.unusedSimpArgs false
set_option linter.unusedVariables false

namespace ClairModel.Pep440
open ClairModel.Order ClairModel.Version

theorem rangeMatch_append (a b : List Criterion) (v : Ver) :
    rangeMatch (a ++ b) v = (rangeMatch a v && rangeMatch b v) := by
  simp [rangeMatch, List.all_append]

/-- What `parseCriteria` returns matches exactly when every part's criteria match. -/
theorem parseCriteria_spec : ∀ (parts : List (List Char)) (cs : List Criterion), parseCriteria parts = some cs →
    ∀ v, (rangeMatch cs v = true ↔ ∀ p ∈ parts, ∃ c, parseCriterion p = some c ∧ rangeMatch c v = true)
  | [], cs, h, v => by
    simp only [parseCriteria, Option.some.injEq] at h
    subst h
    simp [rangeMatch]
  | p :: ps, cs, h, v => by
    unfold parseCriteria at h
    cases hp : parseCriterion p with
    | none => rw [hp] at h; cases h
    | some a =>
      cases hps : parseCriteria ps with
      | none => rw [hp, hps] at h; cases h
      | some b =>
        rw [hp, hps] at h
        simp only [Option.some.injEq] at h
        subst h
        have ih := parseCriteria_spec ps b hps v
        rw [rangeMatch_append, Bool.and_eq_true, ih]
        constructor
        · rintro ⟨h1, h2⟩ q hq
          rcases List.mem_cons.1 hq with rfl | hq
          · exact ⟨a, hp, h1⟩
          · exact h2 q hq
        · intro hall
          refine ⟨?_, fun q hq => hall q (List.mem_cons_of_mem _ hq)⟩
          obtain ⟨c, hc, hm⟩ := hall p List.mem_cons_self
          rw [hp] at hc
          simp only [Option.some.injEq] at hc
          subst hc; exact hm

/-- The operator table: whatever `opCriteria` accepts is one of seven operators. -/
theorem opCriteria_cases {o : List Char} {c : Ver} {cs : List Criterion} (h : opCriteria o c = some cs) :
    (o = ['=', '='] ∧ cs = [⟨.eq, c⟩]) ∨ (o = ['!', '='] ∧ cs = [⟨.ne, c⟩]) ∨ (o = ['<', '='] ∧ cs = [⟨.le, c⟩]) ∨
    (o = ['>', '='] ∧ cs = [⟨.ge, c⟩]) ∨ (o = ['<'] ∧ cs = [⟨.lt, c⟩]) ∨ (o = ['>'] ∧ cs = [⟨.gt, c⟩]) ∨
    (o = ['~', '='] ∧ 2 ≤ c.release.length ∧ cs = [⟨.ge, c⟩, ⟨.lt, compatUpper c⟩]) := by
  unfold opCriteria at h
  by_cases h1 : o = ['=', '=']
  · rw [if_pos h1] at h; simp only [Option.some.injEq] at h; exact Or.inl ⟨h1, h.symm⟩
  rw [if_neg h1] at h
  by_cases h2 : o = ['!', '=']
  · rw [if_pos h2] at h; simp only [Option.some.injEq] at h; exact Or.inr (Or.inl ⟨h2, h.symm⟩)
  rw [if_neg h2] at h
  by_cases h3 : o = ['<', '=']
  · rw [if_pos h3] at h; simp only [Option.some.injEq] at h; exact Or.inr (Or.inr (Or.inl ⟨h3, h.symm⟩))
  rw [if_neg h3] at h
  by_cases h4 : o = ['>', '=']
  · rw [if_pos h4] at h; simp only [Option.some.injEq] at h; exact Or.inr (Or.inr (Or.inr (Or.inl ⟨h4, h.symm⟩)))
  rw [if_neg h4] at h
  by_cases h5 : o = ['<']
  · rw [if_pos h5] at h; simp only [Option.some.injEq] at h
    exact Or.inr (Or.inr (Or.inr (Or.inr (Or.inl ⟨h5, h.symm⟩))))
  rw [if_neg h5] at h
  by_cases h6 : o = ['>']
  · rw [if_pos h6] at h; simp only [Option.some.injEq] at h
    exact Or.inr (Or.inr (Or.inr (Or.inr (Or.inr (Or.inl ⟨h6, h.symm⟩)))))
  rw [if_neg h6] at h
  by_cases h7 : o = ['~', '=']
  · rw [if_pos h7] at h
    by_cases hl : c.release.length < 2
    · rw [if_pos hl] at h; cases h
    · rw [if_neg hl] at h; simp only [Option.some.injEq] at h
      exact Or.inr (Or.inr (Or.inr (Or.inr (Or.inr (Or.inr ⟨h7, by omega, h.symm⟩)))))
  · rw [if_neg h7] at h; cases h

end ClairModel.Pep440
