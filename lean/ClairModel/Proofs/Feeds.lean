/-
  C14 — helper lemmas for the feed-parser models.
-/
import ClairModel.Model.FeedSeverity
import ClairModel.Model.FeedFlat
import ClairModel.Model.FeedOval
import ClairModel.Model.FeedOsv

namespace ClairModel.Feeds

/-! ### table lookup -/

theorem lookupL_not_mem (t : List (List Char × Nat)) (d : Nat) (x : List Char)
    (h : ∀ p ∈ t, p.1 ≠ x) : lookupL t d x = d := by
  unfold lookupL
  have : t.find? (fun p => p.1 == x) = none := by
    rw [List.find?_eq_none]
    intro p hp
    simpa using h p hp
  rw [this]

theorem lookupL_cases (t : List (List Char × Nat)) (d : Nat) (x : List Char) :
    lookupL t d x = d ∨ ∃ p ∈ t, p.1 = x ∧ lookupL t d x = p.2 := by
  unfold lookupL
  cases hf : t.find? (fun p => p.1 == x) with
  | none => exact Or.inl rfl
  | some p =>
    refine Or.inr ⟨p, List.mem_of_find?_eq_some hf, ?_, rfl⟩
    have := List.find?_some hf
    simpa using this

theorem lookupL_lt (t : List (List Char × Nat)) (d n : Nat) (x : List Char)
    (ht : ∀ p ∈ t, p.2 < n) (hd : d < n) : lookupL t d x < n := by
  rcases lookupL_cases t d x with h | ⟨p, hp, _, h⟩
  · rw [h]; exact hd
  · rw [h]; exact ht p hp

theorem tablesAgree_sound (a : List (List Char × Nat)) (da : Nat) (b : List (List Char × Nat)) (db : Nat)
    (h : tablesAgree a da b db = true) (x : List Char) : lookupL a da x = lookupL b db x := by
  unfold tablesAgree at h
  simp only [Bool.and_eq_true, beq_iff_eq, List.all_eq_true] at h
  obtain ⟨hd, hall⟩ := h
  by_cases hx : ∃ p ∈ a ++ b, p.1 = x
  · obtain ⟨p, hp, rfl⟩ := hx
    exact hall p hp
  · have ha : ∀ p ∈ a, p.1 ≠ x := fun p hp he => hx ⟨p, List.mem_append_left _ hp, he⟩
    have hb : ∀ p ∈ b, p.1 ≠ x := fun p hp he => hx ⟨p, List.mem_append_right _ hp, he⟩
    rw [lookupL_not_mem a da x ha, lookupL_not_mem b db x hb, hd]

/-- The code's switch and the documented table (read with the code's case
    folding) give the same severity for every string, provided they agree on
    the finitely many keys either mentions (a decidable check). -/
theorem normalize_eq_doc (mode : String) (t : List (String × Nat)) (d : Nat) (doc : List (String × Nat))
    (h : tablesAgree (t.map fun p => (codeKey mode p.1, p.2)) d
          ((docRows doc).map fun p => (docKey mode p.1, p.2)) (docDefault doc) = true)
    (s : String) : normalize mode t d s = docLookup mode doc s := by
  unfold normalize docLookup
  exact tablesAgree_sound _ _ _ _ h _

theorem normalize_lt (mode : String) (t : List (String × Nat)) (d n : Nat) (s : String)
    (ht : ∀ p ∈ t, p.2 < n) (hd : d < n) : normalize mode t d s < n := by
  unfold normalize
  apply lookupL_lt _ _ _ _ _ hd
  intro p hp
  obtain ⟨q, hq, rfl⟩ := List.mem_map.1 hp
  exact ht q hq

/-! ### rating bands -/

theorem rate_none_of_gt (bands : List (String × Nat × Nat)) (k : Nat) (h : bandsMax bands < k) :
    rate bands k = none := by
  induction bands with
  | nil => rfl
  | cons b rest ih =>
    obtain ⟨op, bd, v⟩ := b
    simp only [bandsMax] at h
    have h1 : bd < k := by omega
    have h2 : bandsMax rest < k := by omega
    simp only [rate]
    have : bandHolds op bd k = false := by
      unfold bandHolds
      split
      · simp; omega
      · split
        · simp; omega
        · split
          · simp; omega
          · rfl
    rw [this]; simpa using ih h2

theorem docRate_none_of_gt (doc : List (Nat × Nat × Nat)) (k : Nat) (h : docBandsMax doc < k) :
    docRate doc k = none := by
  induction doc with
  | nil => rfl
  | cons b rest ih =>
    obtain ⟨lo, hi, v⟩ := b
    simp only [docBandsMax] at h
    simp only [docRate]
    have : ¬ (lo ≤ k ∧ k ≤ hi) := by omega
    rw [if_neg this]
    exact ih (by omega)

/-- Agreement on `0 … max` (decidable) gives agreement for every score. -/
theorem rate_eq_docRate (bands : List (String × Nat × Nat)) (doc : List (Nat × Nat × Nat))
    (h : ∀ k ∈ List.range (max (bandsMax bands) (docBandsMax doc) + 1), rate bands k = docRate doc k)
    (k : Nat) : rate bands k = docRate doc k := by
  by_cases hk : k < max (bandsMax bands) (docBandsMax doc) + 1
  · exact h k (List.mem_range.2 hk)
  · rw [rate_none_of_gt bands k (by omega), docRate_none_of_gt doc k (by omega)]

theorem rate_lt (bands : List (String × Nat × Nat)) (n k v : Nat)
    (hb : ∀ b ∈ bands, b.2.2 < n) (h : rate bands k = some v) : v < n := by
  induction bands with
  | nil => simp [rate] at h
  | cons b rest ih =>
    obtain ⟨op, bd, w⟩ := b
    simp only [rate] at h
    split at h
    · cases h; exact hb _ (List.mem_cons_self ..)
    · exact ih (fun b hb' => hb b (List.mem_cons_of_mem _ hb')) h

/-! ### flat formats: what a document states -/

/-- The (package, fixed version, identifier) triples an Alpine secdb states, in document order. -/
def secdbStated (pkgs : List SecdbPkg) : List (String × String × String) :=
  pkgs.flatMap fun p => p.secfixes.flatMap fun fx => fx.2.map fun id => (p.name, fx.1, id)

/-- One stated entry of a Debian tracker document whose release is known. -/
structure DebStated where
  src : String
  id : String
  desc : String
  dist : String
  fixed : String
  urgency : String
deriving DecidableEq, Repr

/-- The entries a Debian tracker document states for known releases, in document order. -/
def debStated (known : List (String × String)) (data : List (String × List DebVuln)) : List DebStated :=
  data.flatMap fun src => src.2.flatMap fun v => v.releases.filterMap fun r =>
    (getDist known r.release).map fun d => { src := src.1, id := v.id, desc := v.desc, dist := d, fixed := r.fixed, urgency := r.urgency }

/-- The (update, package) pairs an updateinfo document states, in document order. -/
def awsStated (ups : List AlasUpdate) : List (AlasUpdate × AlasPkg) :=
  ups.flatMap fun u => u.pkgs.map fun p => (u, p)

/-! ### OVAL: the criteria walk -/

/-- `x` is a criterion of some node of the tree (any depth). -/
inductive Occurs (x : Criterion) : Criteria → Prop
  | here {subs : List Criteria} {leaves : List Criterion} : x ∈ leaves → Occurs x (.node subs leaves)
  | there {subs : List Criteria} {leaves : List Criterion} {c : Criteria} : c ∈ subs → Occurs x c → Occurs x (.node subs leaves)

mutual
/-- Number of criterions in the tree. -/
def critCount : Criteria → Nat
  | .node subs leaves => critCountList subs + leaves.length
def critCountList : List Criteria → Nat
  | [] => 0
  | c :: cs => critCount c + critCountList cs
end

mutual
theorem walk_mem (x : Criterion) : ∀ c, x ∈ walk c ↔ Occurs x c
  | .node subs leaves => by
    simp only [walk, List.mem_append]
    constructor
    · rintro (h | h)
      · obtain ⟨c, hc, ho⟩ := (walkList_mem x subs).1 h
        exact .there hc ho
      · exact .here h
    · intro h
      cases h with
      | here h => exact Or.inr h
      | there hc ho => exact Or.inl ((walkList_mem x subs).2 ⟨_, hc, ho⟩)
theorem walkList_mem (x : Criterion) : ∀ cs, x ∈ walkList cs ↔ ∃ c ∈ cs, Occurs x c
  | [] => by simp [walkList]
  | c :: cs => by
    simp only [walkList, List.mem_append, walk_mem x c, walkList_mem x cs, List.mem_cons]
    constructor
    · rintro (h | ⟨c', hc', ho⟩)
      · exact ⟨c, Or.inl rfl, h⟩
      · exact ⟨c', Or.inr hc', ho⟩
    · rintro ⟨c', (rfl | hc'), ho⟩
      · exact Or.inl ho
      · exact Or.inr ⟨c', hc', ho⟩
end

mutual
theorem walk_length : ∀ c, (walk c).length = critCount c
  | .node subs leaves => by simp [walk, critCount, walkList_length subs]
theorem walkList_length : ∀ cs, (walkList cs).length = critCountList cs
  | [] => rfl
  | c :: cs => by simp [walkList, critCountList, walk_length c, walkList_length cs]
end

/-! ### OVAL: what the walkers return -/

/-- The criterions that resolve to a package (name, optional state, var_ref), in order. -/
def resolvedLeaves (tk ok sk : String) (root : OvalRoot) (cris : List Criterion) : List (String × Option OvalState × String) :=
  cris.filterMap fun c =>
    match resolveLeaf tk ok sk root c with
    | .pkg n st vr => some (n, st, vr)
    | _ => none

/-- The criterion does not reference a test of the wanted kind that lacks an
    `<object>` (the schema requires one; the walkers return an error for it). -/
def leafOk (tk ok sk : String) (root : OvalRoot) (c : Criterion) : Bool :=
  match resolveLeaf tk ok sk root c with
  | .malformed => false
  | _ => true

/-- `enabledModules` with the default empty module. -/
def modulesOf (cris : List Criterion) : List String :=
  if (enabledModules cris).isEmpty then [""] else enabledModules cris

theorem rpmLeaves_eq (root : OvalRoot) (mods : List String) (protos : List Vuln) :
    ∀ (cris : List Criterion),
    (∀ c ∈ cris, leafOk "rpminfo_test" "rpminfo_object" "rpminfo_state" root c = true) →
    rpmLeaves root mods protos cris =
      some ((resolvedLeaves "rpminfo_test" "rpminfo_object" "rpminfo_state" root cris).flatMap fun l => rpmEmit mods protos l.1 l.2.1)
  | [], _ => rfl
  | c :: cs, h => by
    have hc := h c (List.mem_cons_self ..)
    have ih := rpmLeaves_eq root mods protos cs (fun c' hc' => h c' (List.mem_cons_of_mem _ hc'))
    simp only [rpmLeaves, resolvedLeaves, List.filterMap_cons]
    unfold leafOk at hc
    cases hr : resolveLeaf "rpminfo_test" "rpminfo_object" "rpminfo_state" root c with
    | malformed => rw [hr] at hc; simp at hc
    | skip => simpa [resolvedLeaves] using ih
    | pkg n st vr => simp [ih, resolvedLeaves]

/-- The vulnerabilities one definition states, read flatly: prototypes of the
    definition × package criterions × enabled modules. -/
def rpmDefSpec (root : OvalRoot) (proto : ProtoFn) (d : OvalDef) : List Vuln :=
  match proto d with
  | none => []
  | some ps =>
    (resolvedLeaves "rpminfo_test" "rpminfo_object" "rpminfo_state" root (walk d.criteria)).flatMap fun l =>
      (modulesOf (walk d.criteria)).flatMap fun m => ps.map fun p => rpmVuln p l.1 l.2.1 m

theorem rpmDef_eq (root : OvalRoot) (proto : ProtoFn) (d : OvalDef)
    (h : ∀ c ∈ walk d.criteria, leafOk "rpminfo_test" "rpminfo_object" "rpminfo_state" root c = true) :
    rpmDef root proto d = some (rpmDefSpec root proto d) := by
  unfold rpmDef rpmDefSpec
  cases proto d with
  | none => rfl
  | some ps =>
    simp only
    rw [rpmLeaves_eq root _ ps _ h]
    simp [rpmEmit, modulesOf]

theorem rpmDefsToVulns_eq (root : OvalRoot) (proto : ProtoFn) :
    ∀ (defs : List OvalDef),
    (∀ d ∈ defs, ∀ c ∈ walk d.criteria, leafOk "rpminfo_test" "rpminfo_object" "rpminfo_state" root c = true) →
    rpmDefsToVulns root proto defs = some (defs.flatMap (rpmDefSpec root proto))
  | [], _ => rfl
  | d :: ds, h => by
    simp only [rpmDefsToVulns, rpmDef_eq root proto d (h d (List.mem_cons_self ..)),
      rpmDefsToVulns_eq root proto ds (fun d' hd' => h d' (List.mem_cons_of_mem _ hd'))]
    simp

theorem dpkgLeaves_eq (root : OvalRoot) (protos : List Vuln) :
    ∀ (cris : List Criterion),
    (∀ c ∈ cris, leafOk "dpkginfo_test" "dpkginfo_object" "dpkginfo_state" root c = true) →
    dpkgLeaves root protos cris =
      some ((resolvedLeaves "dpkginfo_test" "dpkginfo_object" "dpkginfo_state" root cris).flatMap fun l =>
        dpkgEmit protos (dpkgNames root l.1 l.2.2) l.2.1)
  | [], _ => rfl
  | c :: cs, h => by
    have hc := h c (List.mem_cons_self ..)
    have ih := dpkgLeaves_eq root protos cs (fun c' hc' => h c' (List.mem_cons_of_mem _ hc'))
    simp only [dpkgLeaves, resolvedLeaves, List.filterMap_cons]
    unfold leafOk at hc
    cases hr : resolveLeaf "dpkginfo_test" "dpkginfo_object" "dpkginfo_state" root c with
    | malformed => rw [hr] at hc; simp at hc
    | skip => simpa [resolvedLeaves] using ih
    | pkg n st vr => simp [ih, resolvedLeaves]

/-- The vulnerabilities one dpkg definition states: prototypes × package
    criterions whose state (if any) has a valid version × names of the criterion. -/
def dpkgDefSpec (root : OvalRoot) (proto : ProtoFn) (d : OvalDef) : List Vuln :=
  match proto d with
  | none => []
  | some ps =>
    ((resolvedLeaves "dpkginfo_test" "dpkginfo_object" "dpkginfo_state" root (walk d.criteria)).filter
        fun l => dpkgStateOk l.2.1).flatMap fun l =>
      ps.flatMap fun p => (dpkgNames root l.1 l.2.2).map fun n => dpkgVuln p n l.2.1

theorem dpkgDef_eq (root : OvalRoot) (proto : ProtoFn) (d : OvalDef)
    (h : ∀ c ∈ walk d.criteria, leafOk "dpkginfo_test" "dpkginfo_object" "dpkginfo_state" root c = true) :
    dpkgDef root proto d = some (dpkgDefSpec root proto d) := by
  unfold dpkgDef dpkgDefSpec
  cases proto d with
  | none => rfl
  | some ps =>
    simp only
    rw [dpkgLeaves_eq root ps _ h]
    congr 1
    generalize resolvedLeaves "dpkginfo_test" "dpkginfo_object" "dpkginfo_state" root (walk d.criteria) = ls
    induction ls with
    | nil => rfl
    | cons l ls ih =>
      simp only [List.flatMap_cons, List.filter_cons, ih]
      unfold dpkgEmit
      cases dpkgStateOk l.2.1 <;> simp

theorem dpkgDefsToVulns_eq (root : OvalRoot) (proto : ProtoFn) :
    ∀ (defs : List OvalDef),
    (∀ d ∈ defs, ∀ c ∈ walk d.criteria, leafOk "dpkginfo_test" "dpkginfo_object" "dpkginfo_state" root c = true) →
    dpkgDefsToVulns root proto defs = some (defs.flatMap (dpkgDefSpec root proto))
  | [], _ => rfl
  | d :: ds, h => by
    simp only [dpkgDefsToVulns, dpkgDef_eq root proto d (h d (List.mem_cons_self ..)),
      dpkgDefsToVulns_eq root proto ds (fun d' hd' => h d' (List.mem_cons_of_mem _ hd'))]
    simp

/-! ### OVAL: Oracle prototypes -/

/-- The distributions of the known platform strings of a definition, in document order. -/
def oraclePlatformDists (platformDist : List (String × String)) (d : OvalDef) : List String :=
  d.platforms.flatMap fun ps => ps.filterMap fun p => assoc? platformDist p

/-- The Oracle prototype of a definition for one distribution. -/
def oracleProtoOf (sev : String → Nat) (updater : String) (d : OvalDef) (dist : String) : Vuln :=
  { updater := updater, name := d.title, desc := d.desc, links := ovalLinks d, sev := d.severity, nsev := sev d.severity,
    dist := dist, issued := d.issued }
/-! ### OSV: intervals and the event machine -/

/-- How an interval ends. -/
inductive Closing where
  | fixed (v : String) (p : SemverParse)
  | lastAffected (v : String) (p : SemverParse)
deriving Repr, DecidableEq

/-- One `introduced … (fixed | last_affected)?` interval of an OSV range. -/
structure Interval where
  intro : String
  introV : SemverParse
  close : Option Closing
deriving Repr, DecidableEq

def Closing.event : Closing → OsvEvent
  | .fixed v p => { fixed := v, fixedV := p }
  | .lastAffected v p => { lastAffected := v, lastAffectedV := p }

def Closing.version : Closing → String
  | .fixed v _ => v
  | .lastAffected v _ => v

def introEvent (iv : Interval) : OsvEvent := { introduced := iv.intro, introducedV := iv.introV }

/-- The events of an interval, as the OSV schema writes them: one field per event object. -/
def Interval.events (iv : Interval) : List OsvEvent :=
  introEvent iv :: (match iv.close with | none => [] | some c => [c.event])

def eventsOf (ivs : List Interval) : List OsvEvent := ivs.flatMap Interval.events

/-- Version strings are non-empty and only the last interval may be open. -/
def WellShaped : List Interval → Prop
  | [] => True
  | iv :: rest => iv.intro ≠ "" ∧ (∀ c, iv.close = some c → c.version ≠ "") ∧ (iv.close = none → rest = []) ∧ WellShaped rest

/-- SEMVER: the cell after the `introduced` event of an interval. -/
def semverIntro (iv : Interval) : Cell :=
  let c : Cell := {}
  if iv.intro = "0" then { c with lower := { c.lower with kind := "semver" } }
  else match iv.introV with
    | some p => { c with lower := fromSemver p }
    | none => c

/-- SEMVER: the effect of the closing event. -/
def semverClose (hasVersions : Bool) (c : Cell) : Closing → Cell
  | .fixed v p => (match p with | some q => { c with upper := fromSemver q, fixed := v } | none => c)
  | .lastAffected _ p => if hasVersions then c else (match p with | some q => { c with upper := incPatch q } | none => c)

/-- The cell `Insert` should build for an interval of a SEMVER range. -/
def semverCell (hasVersions : Bool) (iv : Interval) : Cell :=
  match iv.close with
  | none => semverIntro iv
  | some cl => semverClose hasVersions (semverIntro iv) cl

/-- States between intervals: either nothing happened yet, or the previous interval was closed and recorded once. -/
def Between (s : EvState) : Prop :=
  (s.seen = true ∧ s.curCount = 1) ∨ (s.seen = false ∧ s.curCount = 0 ∧ s.cur = {})

theorem stepSemver_intro (hv last : Bool) (s : EvState) (iv : Interval) (hs : Between s) (hi : iv.intro ≠ "") :
    stepSemver hv last s (introEvent iv) =
      { closed := s.closed ++ List.replicate s.curCount s.cur, cur := semverIntro iv,
        curCount := if last then 1 else 0, seen := true } := by
  rcases hs with ⟨h1, h2⟩ | ⟨h1, h2, h3⟩
  · cases last <;>
      simp [stepSemver, introEvent, hi, h1, h2, EvState.fresh, EvState.append, semverIntro] <;> rfl
  · cases last <;>
      simp [stepSemver, introEvent, hi, h1, h2, h3, EvState.append, semverIntro] <;> rfl

theorem stepSemver_close (hv last : Bool) (s : EvState) (cl : Closing) (h0 : s.curCount = 0) (hv' : cl.version ≠ "") :
    stepSemver hv last s cl.event = { s with cur := semverClose hv s.cur cl, curCount := 1 } := by
  cases cl with
  | fixed v p =>
    simp only [Closing.version] at hv'
    cases p <;> simp [stepSemver, Closing.event, hv', EvState.appendOnce, h0, semverClose]
  | lastAffected v p =>
    simp only [Closing.version] at hv'
    cases hv <;> cases p <;> simp [stepSemver, Closing.event, hv', EvState.appendOnce, h0, semverClose]

theorem semver_intervals_aux (hv : Bool) :
    ∀ (ivs : List Interval) (s : EvState), Between s → WellShaped ivs →
      (runEvents .semver hv s (eventsOf ivs)).vers = s.closed ++ List.replicate s.curCount s.cur ++ ivs.map (semverCell hv)
  | [], s, _, _ => by simp [eventsOf, runEvents, EvState.vers]
  | iv :: rest, s, hs, hw => by
    obtain ⟨hi, hc, hopen, hrest⟩ := hw
    cases hcl : iv.close with
    | none =>
      have : rest = [] := hopen hcl
      subst this
      simp [eventsOf, Interval.events, hcl, runEvents, stepSemver_intro hv true s iv hs hi, EvState.vers, semverCell]
    | some cl =>
      have hcv := hc cl hcl
      have e : eventsOf (iv :: rest) = introEvent iv :: cl.event :: eventsOf rest := by
        simp [eventsOf, Interval.events, hcl]
      rw [e]
      simp only [runEvents, List.isEmpty_cons]
      rw [stepSemver_intro hv false s iv hs hi]
      rw [stepSemver_close hv _ _ cl (by simp) hcv]
      rw [semver_intervals_aux hv rest _ (Or.inl ⟨rfl, rfl⟩) hrest]
      simp [semverCell, hcl]


/-- Maven / PyPI / RubyGems: the `url.Values` after the `introduced` event. -/
def encIntro (iv : Interval) : Cell :=
  { hasRange := false, eco := if iv.intro = "0" then [] else [("introduced", iv.intro)] }

def encClose (c : Cell) : Closing → Cell
  | .fixed v _ => { c with eco := c.eco ++ [("fixed", v)] }
  | .lastAffected v _ => { c with eco := c.eco ++ [("lastAffected", v)] }

def encCell (iv : Interval) : Cell :=
  match iv.close with
  | none => encIntro iv
  | some cl => encClose (encIntro iv) cl

theorem stepEncoded_intro (last : Bool) (s : EvState) (iv : Interval) (hs : Between s) (hi : iv.intro ≠ "") :
    stepEncoded last s (introEvent iv) =
      { closed := s.closed ++ List.replicate s.curCount { s.cur with hasRange := false }, cur := encIntro iv,
        curCount := if last then 1 else 0, seen := true } := by
  rcases hs with ⟨h1, h2⟩ | ⟨h1, h2, h3⟩
  · cases last <;> by_cases h0 : iv.intro = "0" <;>
      simp [stepEncoded, introEvent, hi, h0, h1, h2, EvState.fresh, EvState.append, encIntro]
  · cases last <;> by_cases h0 : iv.intro = "0" <;>
      simp [stepEncoded, introEvent, hi, h0, h1, h2, h3, EvState.append, encIntro]

theorem stepEncoded_close (last : Bool) (s : EvState) (cl : Closing) (h0 : s.curCount = 0) (hr : s.cur.hasRange = false)
    (hv' : cl.version ≠ "") :
    stepEncoded last s cl.event = { s with cur := encClose s.cur cl, curCount := 1 } := by
  cases cl with
  | fixed v p =>
    simp only [Closing.version] at hv'
    simp [stepEncoded, Closing.event, hv', EvState.appendOnce, h0, encClose, hr]
  | lastAffected v p =>
    simp only [Closing.version] at hv'
    simp [stepEncoded, Closing.event, hv', EvState.appendOnce, h0, encClose, hr]

/-- Between intervals of an encoded range every recorded cell already has no semver range. -/
def BetweenEnc (s : EvState) : Prop :=
  (s.seen = true ∧ s.curCount = 1 ∧ s.cur.hasRange = false) ∨ (s.seen = false ∧ s.curCount = 0 ∧ s.cur = {})

theorem BetweenEnc.between {s : EvState} (h : BetweenEnc s) : Between s := by
  rcases h with ⟨a, b, _⟩ | h
  · exact Or.inl ⟨a, b⟩
  · exact Or.inr h

theorem enc_intervals_aux :
    ∀ (ivs : List Interval) (s : EvState), BetweenEnc s → WellShaped ivs →
      (runEvents .encoded false s (eventsOf ivs)).vers = s.closed ++ List.replicate s.curCount s.cur ++ ivs.map encCell
  | [], s, _, _ => by simp [eventsOf, runEvents, EvState.vers]
  | iv :: rest, s, hs, hw => by
    obtain ⟨hi, hc, hopen, hrest⟩ := hw
    have hrep : List.replicate s.curCount { s.cur with hasRange := false } = List.replicate s.curCount s.cur := by
      rcases hs with ⟨_, _, h3⟩ | ⟨_, h2, _⟩
      · congr 1; cases hc' : s.cur; simp [hc'] at h3; simp [h3]
      · simp [h2]
    cases hcl : iv.close with
    | none =>
      have : rest = [] := hopen hcl
      subst this
      simp [eventsOf, Interval.events, hcl, runEvents, stepEncoded_intro true s iv hs.between hi, EvState.vers, encCell, hrep]
    | some cl =>
      have hcv := hc cl hcl
      have e : eventsOf (iv :: rest) = introEvent iv :: cl.event :: eventsOf rest := by
        simp [eventsOf, Interval.events, hcl]
      rw [e]
      simp only [runEvents, List.isEmpty_cons]
      rw [stepEncoded_intro false s iv hs.between hi]
      rw [stepEncoded_close _ _ cl (by simp) (by simp [encIntro]) hcv]
      rw [enc_intervals_aux rest _ (Or.inl ⟨rfl, rfl, by cases cl <;> simp [encClose, encIntro]⟩) hrest]
      simp [encCell, hcl, hrep]


/-! ### OSV: the whole range, other ecosystems, vulnerabilities -/

theorem between_init : Between ({} : EvState) := Or.inr ⟨rfl, rfl, rfl⟩
theorem betweenEnc_init : BetweenEnc ({} : EvState) := Or.inr ⟨rfl, rfl, rfl⟩

/-- ECOSYSTEM ranges of ecosystems without encoder: there is one cell, recorded at most once. -/
theorem other_vers_length (hv : Bool) :
    ∀ (evs : List OsvEvent) (s : EvState), s.closed = [] → s.curCount ≤ 1 →
      (runEvents .other hv s evs).vers.length ≤ 1
  | [], s, h1, h2 => by simp [runEvents, EvState.vers, h1]; exact h2
  | ev :: rest, s, h1, h2 => by
    simp only [runEvents]
    apply other_vers_length hv rest
    · simp [stepOther, EvState.appendOnce]; split <;> simp [h1]
    · simp [stepOther, EvState.appendOnce]; split <;> simp <;> omega

/-- What the OSV schema states for an interval of a SEMVER range (a
    `last_affected` bound is always meaningful). -/
def specCell (iv : Interval) : Cell := semverCell false iv

/-- No interval ends with `last_affected`. -/
def NoLastAffected (ivs : List Interval) : Prop :=
  ∀ iv ∈ ivs, ∀ v p, iv.close ≠ some (.lastAffected v p)

theorem semverCell_eq_spec (hv : Bool) (iv : Interval) (h : hv = false ∨ ∀ v p, iv.close ≠ some (.lastAffected v p)) :
    semverCell hv iv = specCell iv := by
  rcases h with rfl | h
  · rfl
  · unfold specCell semverCell
    cases hc : iv.close with
    | none => rfl
    | some cl =>
      cases cl with
      | fixed v p => rfl
      | lastAffected v p => exact absurd hc (h v p)

/-! ### OSV: other ecosystems, severity selection, repository hints -/

/-- What one event of an ECOSYSTEM range of an ecosystem without encoder does to the range's only cell. -/
def otherUpd (c : Cell) (ev : OsvEvent) : Cell :=
  if ev.introduced = "" ∧ ev.fixed ≠ "" then { c with fixed := ev.fixed } else c

theorem runOther_eq (hv : Bool) : ∀ (evs : List OsvEvent) (s : EvState), s.closed = [] → s.curCount ≤ 1 →
    (runEvents .other hv s evs).vers = if evs.isEmpty then s.vers else [evs.foldl otherUpd s.cur]
  | [], s, _, _ => by simp [runEvents]
  | ev :: rest, s, h1, h2 => by
    simp only [runEvents, List.isEmpty_cons, Bool.false_eq_true, if_false, List.foldl_cons]
    have hs : stepOther s ev = { s with cur := otherUpd s.cur ev, curCount := 1 } := by
      unfold stepOther EvState.appendOnce otherUpd
      have : s.curCount = 0 ∨ s.curCount = 1 := by omega
      rcases this with h | h <;> simp [h]
    rw [hs]
    have ih := runOther_eq hv rest { s with cur := otherUpd s.cur ev, curCount := 1 } h1 (by simp)
    rw [ih]
    cases rest with
    | nil => simp [EvState.vers, h1]
    | cons _ _ => simp

theorem osvCvss_append (a b : List OsvSeverity) (acc : String × Nat) : osvCvss (a ++ b) acc = osvCvss b (osvCvss a acc) := by
  induction a generalizing acc with
  | nil => rfl
  | cons s rest ih => simp only [List.cons_append, osvCvss]; split <;> exact ih _

theorem osvCvss_none (l : List OsvSeverity) (acc : String × Nat) (h : ∀ s ∈ l, s.type ≠ "CVSS_V3" ∧ s.type ≠ "CVSS_V2") :
    osvCvss l acc = acc := by
  induction l generalizing acc with
  | nil => rfl
  | cons s rest ih =>
    simp only [osvCvss]
    have := h s (List.mem_cons_self ..)
    rw [if_neg (by simp [this.1, this.2])]
    exact ih _ (fun s' hs' => h s' (List.mem_cons_of_mem _ hs'))

theorem shareHints_id (vs : List Vuln) (h : ∀ v ∈ vs, ∀ w ∈ vs, v.pkgName = w.pkgName → v.pkgHint = w.pkgHint) :
    shareHints vs = vs := by
  unfold shareHints
  conv => rhs; rw [← List.map_id vs]
  apply List.map_congr_left
  intro v hv
  cases hf : vs.find? (fun w => w.pkgName == v.pkgName) with
  | none => rfl
  | some w =>
    have hw := List.mem_of_find?_eq_some hf
    have hn : w.pkgName = v.pkgName := by have := List.find?_some hf; simpa using this
    simp only [id]
    rw [← h v hv w hw hn.symm]

end ClairModel.Feeds
