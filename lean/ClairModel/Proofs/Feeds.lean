/-
  C14 — helper lemmas for the feed-parser models.
-/
import ClairModel.Model.FeedSeverity

namespace ClairModel.Feeds

/-! ### table lookup -/

theorem lookupL_not_mem (t : List (List Char × Nat)) (d : Nat) (x : List Char)
    (h : ∀ p ∈ t, p.1 ≠ x) : lookupL t d x = d := by
  unfold lookupL
  have : t.find? (fun p => p.1 == x) = none := by
    rw [List.find?_eq_none]
    intro p hp
    simpa using h p hp
  rw [this]

theorem lookupL_cases (t : List (List Char × Nat)) (d : Nat) (x : List Char) :
    lookupL t d x = d ∨ ∃ p ∈ t, p.1 = x ∧ lookupL t d x = p.2 := by
  unfold lookupL
  cases hf : t.find? (fun p => p.1 == x) with
  | none => exact Or.inl rfl
  | some p =>
    refine Or.inr ⟨p, List.mem_of_find?_eq_some hf, ?_, rfl⟩
    have := List.find?_some hf
    simpa using this

theorem lookupL_lt (t : List (List Char × Nat)) (d n : Nat) (x : List Char)
    (ht : ∀ p ∈ t, p.2 < n) (hd : d < n) : lookupL t d x < n := by
  rcases lookupL_cases t d x with h | ⟨p, hp, _, h⟩
  · rw [h]; exact hd
  · rw [h]; exact ht p hp

theorem tablesAgree_sound (a : List (List Char × Nat)) (da : Nat) (b : List (List Char × Nat)) (db : Nat)
    (h : tablesAgree a da b db = true) (x : List Char) : lookupL a da x = lookupL b db x := by
  unfold tablesAgree at h
  simp only [Bool.and_eq_true, beq_iff_eq, List.all_eq_true] at h
  obtain ⟨hd, hall⟩ := h
  by_cases hx : ∃ p ∈ a ++ b, p.1 = x
  · obtain ⟨p, hp, rfl⟩ := hx
    exact hall p hp
  · have ha : ∀ p ∈ a, p.1 ≠ x := fun p hp he => hx ⟨p, List.mem_append_left _ hp, he⟩
    have hb : ∀ p ∈ b, p.1 ≠ x := fun p hp he => hx ⟨p, List.mem_append_right _ hp, he⟩
    rw [lookupL_not_mem a da x ha, lookupL_not_mem b db x hb, hd]

/-- The code's switch and the documented table (read with the code's case
    folding) give the same severity for every string, provided they agree on
    the finitely many keys either mentions (a decidable check). -/
theorem normalize_eq_doc (mode : String) (t : List (String × Nat)) (d : Nat) (doc : List (String × Nat))
    (h : tablesAgree (t.map fun p => (codeKey mode p.1, p.2)) d
          ((docRows doc).map fun p => (docKey mode p.1, p.2)) (docDefault doc) = true)
    (s : String) : normalize mode t d s = docLookup mode doc s := by
  unfold normalize docLookup
  exact tablesAgree_sound _ _ _ _ h _

theorem normalize_lt (mode : String) (t : List (String × Nat)) (d n : Nat) (s : String)
    (ht : ∀ p ∈ t, p.2 < n) (hd : d < n) : normalize mode t d s < n := by
  unfold normalize
  apply lookupL_lt _ _ _ _ _ hd
  intro p hp
  obtain ⟨q, hq, rfl⟩ := List.mem_map.1 hp
  exact ht q hq

/-! ### rating bands -/

theorem rate_none_of_gt (bands : List (String × Nat × Nat)) (k : Nat) (h : bandsMax bands < k) :
    rate bands k = none := by
  induction bands with
  | nil => rfl
  | cons b rest ih =>
    obtain ⟨op, bd, v⟩ := b
    simp only [bandsMax] at h
    have h1 : bd < k := by omega
    have h2 : bandsMax rest < k := by omega
    simp only [rate]
    have : bandHolds op bd k = false := by
      unfold bandHolds
      split
      · simp; omega
      · split
        · simp; omega
        · split
          · simp; omega
          · rfl
    rw [this]; simpa using ih h2

theorem docRate_none_of_gt (doc : List (Nat × Nat × Nat)) (k : Nat) (h : docBandsMax doc < k) :
    docRate doc k = none := by
  induction doc with
  | nil => rfl
  | cons b rest ih =>
    obtain ⟨lo, hi, v⟩ := b
    simp only [docBandsMax] at h
    simp only [docRate]
    have : ¬ (lo ≤ k ∧ k ≤ hi) := by omega
    rw [if_neg this]
    exact ih (by omega)

/-- Agreement on `0 … max` (decidable) gives agreement for every score. -/
theorem rate_eq_docRate (bands : List (String × Nat × Nat)) (doc : List (Nat × Nat × Nat))
    (h : ∀ k ∈ List.range (max (bandsMax bands) (docBandsMax doc) + 1), rate bands k = docRate doc k)
    (k : Nat) : rate bands k = docRate doc k := by
  by_cases hk : k < max (bandsMax bands) (docBandsMax doc) + 1
  · exact h k (List.mem_range.2 hk)
  · rw [rate_none_of_gt bands k (by omega), docRate_none_of_gt doc k (by omega)]

theorem rate_lt (bands : List (String × Nat × Nat)) (n k v : Nat)
    (hb : ∀ b ∈ bands, b.2.2 < n) (h : rate bands k = some v) : v < n := by
  induction bands with
  | nil => simp [rate] at h
  | cons b rest ih =>
    obtain ⟨op, bd, w⟩ := b
    simp only [rate] at h
    split at h
    · cases h; exact hb _ (List.mem_cons_self ..)
    · exact ih (fun b hb' => hb b (List.mem_cons_of_mem _ hb')) h

end ClairModel.Feeds
