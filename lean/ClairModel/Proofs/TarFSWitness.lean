/-
  C11: the witnesses of the recorded findings, evaluated on the model (which
  follows the code line by line and is compared with it on these very
  archives in every run). Each theorem keeps one clause of the full statement
  visible that the unchanged code violates.
-/
import ClairModel.Model.TarFSDir
set_option linter.unusedVariables false
namespace ClairModel.TarFS.Witness
open ClairModel.TarFS

def dirM (n : Bytes) : Member := ⟨.dir, n, [], [], {}⟩
def regM (n d : Bytes) : Member := ⟨.reg, n, [], d, { hsize := d.length, seg := 1024 }⟩
def symM (n l : Bytes) : Member := ⟨.sym, n, l, [], {}⟩
def lnkM (n l : Bytes) : Member := ⟨.link, n, l, [], {}⟩

-- "d/" "b" "d" "b/c" "d/c" "hc" "b/h" "nope" "c" "h"
def n_d_ : Bytes := [100, 47]
def n_d : Bytes := [100]
def n_b : Bytes := [98]
def n_bc : Bytes := [98, 47, 99]
def n_dc : Bytes := [100, 47, 99]
def n_hc : Bytes := [104, 99]
def n_bh : Bytes := [98, 47, 104]
def n_dh : Bytes := [100, 47, 104]
def n_nope : Bytes := [110, 111, 112, 101]
def n_c : Bytes := [99]
def n_h : Bytes := [104]

def viewOf (ms : List Member) : Option FS :=
  match newFS ms with
  | .ok fs => some fs
  | .error _ => none

def idx (fs : FS) (p : Bytes) : Option Nat := (getInode fs p).toOption

def contentOf (fs : FS) (p : Bytes) : Option Bytes :=
  match openFS fs p with
  | .file _ d => some d
  | _ => none

def opensAsDir (fs : FS) (p : Bytes) : Bool :=
  match openFS fs p with
  | .dir _ _ => true
  | _ => false

def openErr (fs : FS) (p : Bytes) : Option Err :=
  match openFS fs p with
  | .err e => some e
  | _ => none

def statType (fs : FS) (p : Bytes) : Option MType :=
  match statFS fs p with
  | .ok i => some i.mtype
  | .error _ => none

def statSize (fs : FS) (p : Bytes) : Option Nat :=
  match statFS fs p with
  | .ok i => some i.size
  | .error _ => none

def childNames (fs : FS) (i : Nat) : List Bytes :=
  ((fs.ino i).children.getD []).map fun c => baseOf (fs.ino c).name

/-! literal-names: {d/, b -> d, file b/c} -/
def msLiteral : List Member := [dirM n_d_, symM n_b n_d, regM n_bc [49]]

theorem literal_names :
    (viewOf msLiteral).map (fun fs => (fs.lookup.map (·.1), fs.get? n_dc, idx fs n_dc, childNames fs 1)) =
      some ([n_bc, n_b, n_d, dotP], none, some 3, [n_c]) := by decide

/-! alias-duplicate: {d/, b -> d, file b/c, file d/c} -/
def msAlias : List Member := [dirM n_d_, symM n_b n_d, regM n_bc [49], regM n_dc [50]]

theorem alias_duplicate :
    (viewOf msAlias).map (fun fs => childNames fs 1) = some [n_c, n_c] := by decide

/-! hardlink-alias-target: {d/, b -> d, file b/c, hc hard link to d/c} -/
def msHlAlias : List Member := [dirM n_d_, symM n_b n_d, regM n_bc [49], lnkM n_hc n_dc]

theorem hardlink_alias_target :
    (viewOf msHlAlias).map (fun fs => (idx fs n_hc, idx fs n_dc)) = some (none, some 3) := by decide

/-! dangling-hardlink-ghost: {d/, b -> d, b/h hard link to a missing name} -/
def msGhost : List Member := [dirM n_d_, symM n_b n_d, lnkM n_bh n_nope]

theorem dangling_hardlink_ghost :
    (viewOf msGhost).map (fun fs => (childNames fs 1, fs.get? n_bh, fs.get? n_dh, openErr fs n_dh)) =
      some ([n_h], none, none, some .notexist) := by decide

/-! link-lexical: {d/e/, d/x "D", x "R", s -> d/e, t -> s/../x} -/
def msLexical : List Member :=
  [dirM [100, 47, 101, 47], regM [100, 47, 120] [68], regM [120] [82], symM [115] [100, 47, 101],
   symM [116] [115, 47, 46, 46, 47, 120]]

theorem link_lexical :
    (viewOf msLexical).map (fun fs => contentOf fs [116]) = some (some [82]) := by decide

/-! link-target-through-link: {b/s1 -> ., b/e -> s1/b, file b/b/f} -/
def msLinkThrough : List Member :=
  [symM [98, 47, 115, 49] [46], symM [98, 47, 101] [115, 49, 47, 98], regM [98, 47, 98, 47, 102] [49]]

theorem link_target_through_link :
    (viewOf msLinkThrough).map (fun fs => (opensAsDir fs [98, 47, 101], idx fs [98, 47, 101, 47, 102], idx fs [98, 47, 98, 47, 102])) =
      some (true, none, some 4) := by decide

/-! sub-links: {file a/f, a/h hard link to a/f}, Sub("a") -/
def msSubLinks : List Member := [regM [97, 47, 102] [100, 97, 116, 97], lnkM [97, 47, 104] [97, 47, 102]]

def subOf (fs : FS) (d : Bytes) : Option FS := (subFS fs d).toOption

theorem sub_links :
    ((viewOf msSubLinks).bind fun fs => (subOf fs [97]).map fun s => (contentOf fs [97, 47, 104], idx s [104], openErr s [104])) =
      some (some [100, 97, 116, 97], some 3, some .notexist) := by decide

/-! sub-nested: {file a/b/c}, Sub("a") then Sub("b") -/
def msSubNested : List Member := [regM [97, 47, 98, 47, 99] [49]]

theorem sub_nested :
    ((viewOf msSubNested).bind fun fs => (subOf fs [97]).bind fun s1 => (subOf s1 [98]).map fun s2 =>
        (contentOf s1 [98, 47, 99], s2.lookup.map (·.1), openErr s2 [99])) =
      some (some [49], [], some .notexist) := by decide

/-! stat-symlink-lstat: {d/, s -> d} -/
def msLstat : List Member := [dirM n_d_, symM [115] n_d]

theorem stat_symlink_lstat :
    (viewOf msLstat).map (fun fs => (statType fs [115], opensAsDir fs [115])) = some (some .symlink, true) := by decide

/-! hardlink-stat-size: {file f (4 bytes), h hard link to f} -/
def msHlSize : List Member := [regM [102] [100, 97, 116, 97], lnkM n_h [102]]

theorem hardlink_stat_size :
    (viewOf msHlSize).map (fun fs => (statSize fs n_h, (contentOf fs n_h).map List.length)) = some (some 0, some 4) := by decide

/-! sparse-oversize-refused: a member whose header size exceeds its segment -/
def msOversize : List Member := [⟨.reg, [115, 112], [], [0, 0, 0, 120], { hsize := 8193, seg := 2560 }⟩]

theorem sparse_oversize :
    (viewOf msOversize).map (fun fs => (statSize fs [115, 112], openErr fs [115, 112])) = some (some 8193, some .invalid) := by decide

end ClairModel.TarFS.Witness
