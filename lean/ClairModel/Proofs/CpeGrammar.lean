/-
  C19 — `validate` accepts exactly the value strings of `CpeSpec.ValueGrammar`.
-/
import ClairModel.Proofs.Cpe

namespace ClairModel.Cpe
open ClairModel.CpeTypes ClairModel.CpeSpec

/-- The scanner has not yet seen "a run of `?` after an ordinary character". -/
def Open (st : VSt) : Prop := ¬(st.qRun = true ∧ st.atStart = false)

theorem unreserved_iff (c : Nat) : unreservedC c = !reserved c := by
  simp only [unreservedC, reserved]
  rw [Bool.eq_iff_iff]
  simp only [Bool.or_eq_true, Bool.and_eq_true, decide_eq_true_eq, beq_iff_eq, Bool.not_eq_true',
    Bool.and_eq_false_iff, Bool.or_eq_false_iff, decide_eq_false_iff_not, bne_eq_false_iff_eq]
  omega

theorem reserved_special (c : Nat) (h : c = 42 ∨ c = 63 ∨ c = 92) : reserved c = true := by
  rcases h with h | h | h <;> subst h <;> decide

theorem vstep_esc (n i : Nat) (st : VSt) (c : Nat) (he : st.esc = true) : vstep n i st c = vtail st c := by
  unfold vstep
  simp only [he, if_true, Bool.not_true, Bool.and_false, Bool.false_eq_true, if_false]
  split
  · rfl
  · split
    · rfl
    · split <;> rfl

theorem vtail_open (st : VSt) (c : Nat) (ho : Open st) (h : c ≠ 63 ∨ st.esc = true) :
    vtail st c = some ⟨false, false, false⟩ := by
  rcases st with ⟨e, q, a⟩
  unfold vtail
  simp only [Open] at ho
  simp only at h
  rw [if_pos h]
  cases q <;> cases a <;> simp_all

theorem open_fff : Open ⟨false, false, false⟩ := by simp [Open]

/-! ### grammar ⇒ validate -/

theorem vscan_body (n : Nat) (body rest : Str) (i : Nat) (st : VSt) (ho : Open st)
    (hb : bodyStr st.esc body = true) :
    vscan n i st (body ++ rest) =
      vscan n (i + body.length) (if body = [] then st else ⟨false, false, false⟩) rest := by
  induction body generalizing i st with
  | nil => simp
  | cons c b ih =>
    simp only [List.cons_append, vscan, List.length_cons, reduceCtorEq, if_false]
    cases he : st.esc with
    | true =>
      rw [he] at hb
      simp only [bodyStr, if_true] at hb
      rw [vstep_esc n i st c he, vtail_open st c ho (Or.inr he)]
      simp only
      rw [ih (i + 1) ⟨false, false, false⟩ open_fff hb]
      have : i + 1 + b.length = i + (b.length + 1) := by omega
      rw [this]
      split <;> rfl
    | false =>
      rw [he] at hb
      simp only [bodyStr, Bool.false_eq_true, if_false] at hb
      by_cases h92 : c = 92
      · subst h92
        simp only [if_true] at hb
        have hstep : vstep n i st 92 = some { st with esc := true } := by
          simp [vstep, he]
        rw [hstep]
        simp only
        have ho' : Open { st with esc := true } := ho
        have hne : b ≠ [] := by
          intro h; subst h; simp [bodyStr] at hb
        rw [ih (i + 1) { st with esc := true } ho' hb]
        have : i + 1 + b.length = i + (b.length + 1) := by omega
        rw [this]
        simp [hne]
      · simp only [h92, if_false, Bool.and_eq_true] at hb
        have hres : reserved c = false := by
          have := hb.1
          rw [unreserved_iff] at this
          simpa using this
        have h42 : c ≠ 42 := by intro h; subst h; simp [reserved] at hres
        have h63 : c ≠ 63 := by intro h; subst h; simp [reserved] at hres
        have hstep : vstep n i st c = vtail st c := by
          simp [vstep, h92, h42, h63, hres]
        rw [hstep, vtail_open st c ho (Or.inl h63)]
        simp only
        rw [ih (i + 1) ⟨false, false, false⟩ open_fff hb.2]
        have : i + 1 + b.length = i + (b.length + 1) := by omega
        rw [this]
        split <;> rfl

theorem vstep_q (n i : Nat) (st : VSt) (he : st.esc = false) :
    vstep n i st 63 = some ⟨false, true, st.atStart⟩ := by
  rcases st with ⟨e, q, a⟩
  simp only at he
  subst he
  simp [vstep, vtail]

theorem vscan_qs (n k : Nat) (rest : Str) (i : Nat) (st : VSt) (he : st.esc = false) :
    vscan n i st (List.replicate k 63 ++ rest) =
      vscan n (i + k) (if k = 0 then st else ⟨false, true, st.atStart⟩) rest := by
  induction k generalizing i st with
  | zero => simp
  | succ k ih =>
    simp only [List.replicate_succ, List.cons_append, vscan, vstep_q n i st he]
    rw [ih (i + 1) ⟨false, true, st.atStart⟩ rfl]
    have : i + 1 + k = i + (k + 1) := by omega
    rw [this]
    simp only [Nat.add_one_ne_zero, if_false]
    split <;> rfl

theorem vscan_trail (n i : Nat) (st : VSt) (r : Option Nat) (ho : Open st) (he : st.esc = false)
    (hn : i + (leadStr r).length = n) : vscan n i st (leadStr r) = true := by
  cases r with
  | none =>
    simp only [leadStr, List.length_singleton] at hn
    have h1 : ¬(i ≠ 0 ∧ i + 1 ≠ n) := by omega
    have hstep : vstep n i st 42 = vtail st 42 := by
      simp [vstep, he, h1]
    simp only [leadStr, vscan, hstep, vtail_open st 42 ho (Or.inl (by decide))]
    rfl
  | some m =>
    have := vscan_qs n m [] i st he
    simp only [List.append_nil] at this
    simp only [leadStr, this, vscan]
    split
    · simp [he]
    · rfl

theorem vscan_lead (n : Nat) (l : Option Nat) (rest : Str) :
    ∃ st, Open st ∧ st.esc = false ∧
      vscan n 0 vInit (leadStr l ++ rest) = vscan n (leadStr l).length st rest := by
  cases l with
  | none =>
    refine ⟨⟨false, false, false⟩, open_fff, rfl, ?_⟩
    simp [leadStr, vscan, vstep, vInit, vtail]
  | some k =>
    refine ⟨if k = 0 then vInit else ⟨false, true, true⟩, ?_, ?_, ?_⟩
    · split <;> simp [Open, vInit]
    · split <;> rfl
    · have := vscan_qs n k rest 0 vInit rfl
      simpa [leadStr, vInit] using this

theorem grammar_vscan (l r : Option Nat) (body : Str) (hb : bodyStr false body = true) :
    vscan (leadStr l ++ body ++ leadStr r).length 0 vInit (leadStr l ++ body ++ leadStr r) = true := by
  generalize hn : (leadStr l ++ body ++ leadStr r).length = n
  obtain ⟨st1, ho1, he1, h1⟩ := vscan_lead n l (body ++ leadStr r)
  rw [List.append_assoc, h1]
  rw [vscan_body _ body (leadStr r) _ st1 ho1 (by rw [he1]; exact hb)]
  apply vscan_trail
  · split
    · exact ho1
    · exact open_fff
  · split
    · exact he1
    · rfl
  · rw [← hn]; simp [Nat.add_assoc]

theorem printable_eq_preOk (s : Str) : s.all printableC = preOk s := by
  unfold preOk
  congr 1

theorem grammar_validate (s : Str) (h : ValueGrammar s) : validate s = true := by
  obtain ⟨hp, h1, h2, l, body, r, hs, hb⟩ := h
  simp only [validate, Bool.and_eq_true, bne_iff_ne, ne_eq]
  refine ⟨⟨⟨?_, h1⟩, h2⟩, ?_⟩
  · rw [← printable_eq_preOk]; exact hp
  · rw [hs]; exact grammar_vscan l r body hb

/-! ### validate ⇒ grammar -/

/-- After "ordinary character, then `?`" nothing but `?` may follow; inside a
    quoting in that state the scan fails. -/
theorem vscan_dead (n i : Nat) (s : Str) : vscan n i ⟨true, true, false⟩ s = false := by
  cases s with
  | nil => rfl
  | cons c rest =>
    simp only [vscan, vstep_esc n i ⟨true, true, false⟩ c rfl]
    simp [vtail]

theorem vscan_trailing_qs (n i : Nat) (s : Str) (h : vscan n i ⟨false, true, false⟩ s = true) :
    s = List.replicate s.length 63 := by
  induction s generalizing i with
  | nil => rfl
  | cons c rest ih =>
    simp only [vscan] at h
    by_cases h63 : c = 63
    · subst h63
      rw [vstep_q n i ⟨false, true, false⟩ rfl] at h
      simp only at h
      rw [List.length_cons, List.replicate_succ, ← ih (i + 1) h]
    · exfalso
      by_cases h92 : c = 92
      · subst h92
        have : vstep n i ⟨false, true, false⟩ 92 = some ⟨true, true, false⟩ := by simp [vstep]
        rw [this] at h
        simp only at h
        rw [vscan_dead] at h
        cases h
      · by_cases h42 : c = 42
        · subst h42
          have : vstep n i ⟨false, true, false⟩ 42 = none := by
            simp [vstep, vtail]
          simp [this] at h
        · have : vstep n i ⟨false, true, false⟩ c = none := by
            simp only [vstep, vtail, h92, h42, h63, if_false]
            split <;> simp [h63]
          simp [this] at h

/-- The scan from an `Open` state at a position after the first: what follows
    is a run of `?` (only if the scan is still at the start), a body, and the
    special characters of the end. -/
theorem vscan_decompose (n : Nat) (s : Str) (i : Nat) (st : VSt) (ho : Open st)
    (h : vscan n i st s = true) (hi : 1 ≤ i) (hn : i + s.length = n) :
    ∃ k body r, s = List.replicate k 63 ++ body ++ leadStr r ∧ bodyStr st.esc body = true ∧
      (0 < k → st.atStart = true ∧ st.esc = false) := by
  induction s generalizing i st with
  | nil =>
    simp only [vscan, Bool.not_eq_true'] at h
    exact ⟨0, [], some 0, by simp [leadStr], by simp [bodyStr, h], by omega⟩
  | cons c rest ih =>
    simp only [vscan] at h
    simp only [List.length_cons] at hn
    cases he : st.esc with
    | true =>
      rw [vstep_esc n i st c he, vtail_open st c ho (Or.inr he)] at h
      simp only at h
      obtain ⟨k, body, r, hs, hb, hk⟩ := ih (i + 1) ⟨false, false, false⟩ open_fff h (by omega) (by omega)
      have hk0 : k = 0 := by
        cases k with
        | zero => rfl
        | succ k => have := (hk (by omega)).1; simp at this
      subst hk0
      refine ⟨0, c :: body, r, by simp [hs], by simpa [bodyStr] using hb, by omega⟩
    | false =>
      by_cases h92 : c = 92
      · subst h92
        have hstep : vstep n i st 92 = some { st with esc := true } := by simp [vstep, he]
        rw [hstep] at h
        simp only at h
        have ho' : Open { st with esc := true } := ho
        obtain ⟨k, body, r, hs, hb, hk⟩ := ih (i + 1) { st with esc := true } ho' h (by omega) (by omega)
        have hk0 : k = 0 := by
          cases k with
          | zero => rfl
          | succ k => have := (hk (by omega)).2; simp at this
        subst hk0
        refine ⟨0, 92 :: body, r, by simp [hs], by simpa [bodyStr] using hb, by omega⟩
      · by_cases h42 : c = 42
        · subst h42
          -- an asterisk after the first position must be the last character
          have hlast : rest = [] := by
            cases hr : rest with
            | nil => rfl
            | cons d rest' =>
              exfalso
              have h1 : (i ≠ 0 ∧ i + 1 ≠ n) := by
                rw [hr] at hn; simp at hn; omega
              have : vstep n i st 42 = none := by simp [vstep, he, h1]
              simp [this] at h
          subst hlast
          exact ⟨0, [], none, by simp [leadStr], by simp [bodyStr], by omega⟩
        · by_cases h63 : c = 63
          · subst h63
            rw [vstep_q n i st he] at h
            simp only at h
            cases ha : st.atStart with
            | true =>
              rw [ha] at h
              obtain ⟨k, body, r, hs, hb, _⟩ :=
                ih (i + 1) ⟨false, true, true⟩ (by simp [Open]) h (by omega) (by omega)
              refine ⟨k + 1, body, r, ?_, by simpa using hb, fun _ => ⟨rfl, rfl⟩⟩
              rw [hs, List.replicate_succ]; simp
            | false =>
              rw [ha] at h
              have hq := vscan_trailing_qs n (i + 1) rest h
              refine ⟨0, [], some (rest.length + 1), ?_, by simp [bodyStr], by omega⟩
              simp only [List.replicate_zero, List.nil_append, leadStr, List.replicate_succ]
              rw [← hq]
          · -- an ordinary character
            have hres : reserved c = false := by
              cases hr : reserved c with
              | false => rfl
              | true =>
                exfalso
                have : vstep n i st c = none := by simp [vstep, h92, h42, h63, hr, he]
                simp [this] at h
            have hstep : vstep n i st c = vtail st c := by simp [vstep, h92, h42, h63, hres]
            rw [hstep, vtail_open st c ho (Or.inl h63)] at h
            simp only at h
            obtain ⟨k, body, r, hs, hb, hk⟩ := ih (i + 1) ⟨false, false, false⟩ open_fff h (by omega) (by omega)
            have hk0 : k = 0 := by
              cases k with
              | zero => rfl
              | succ k => have := (hk (by omega)).1; simp at this
            subst hk0
            refine ⟨0, c :: body, r, by simp [hs], ?_, by omega⟩
            have hu : unreservedC c = true := by rw [unreserved_iff, hres]; rfl
            simpa [bodyStr, h92, hu] using hb

theorem vscan_grammar (s : Str) (h : vscan s.length 0 vInit s = true) :
    ∃ l body r, s = leadStr l ++ body ++ leadStr r ∧ bodyStr false body = true := by
  cases s with
  | nil => exact ⟨some 0, [], some 0, by simp [leadStr], rfl⟩
  | cons c rest =>
    simp only [vscan] at h
    by_cases h92 : c = 92
    · subst h92
      have hstep : vstep (92 :: rest).length 0 vInit 92 = some ⟨true, false, true⟩ := by simp [vstep, vInit]
      rw [hstep] at h
      simp only at h
      obtain ⟨k, body, r, hs, hb, hk⟩ :=
        vscan_decompose _ rest 1 ⟨true, false, true⟩ (by simp [Open]) h (by omega) (by simp; omega)
      have hk0 : k = 0 := by
        cases k with
        | zero => rfl
        | succ k => have := (hk (by omega)).2; simp at this
      subst hk0
      exact ⟨some 0, 92 :: body, r, by simp [leadStr, hs], by simpa [bodyStr] using hb⟩
    · by_cases h42 : c = 42
      · subst h42
        have hstep : vstep (42 :: rest).length 0 vInit 42 = some ⟨false, false, false⟩ := by
          simp [vstep, vInit, vtail]
        rw [hstep] at h
        simp only at h
        obtain ⟨k, body, r, hs, hb, hk⟩ :=
          vscan_decompose _ rest 1 ⟨false, false, false⟩ open_fff h (by omega) (by simp; omega)
        have hk0 : k = 0 := by
          cases k with
          | zero => rfl
          | succ k => have := (hk (by omega)).1; simp at this
        subst hk0
        exact ⟨none, body, r, by simp [leadStr, hs], hb⟩
      · by_cases h63 : c = 63
        · subst h63
          rw [vstep_q _ 0 vInit rfl] at h
          simp only [vInit] at h
          obtain ⟨k, body, r, hs, hb, _⟩ :=
            vscan_decompose _ rest 1 ⟨false, true, true⟩ (by simp [Open]) h (by omega) (by simp; omega)
          refine ⟨some (k + 1), body, r, ?_, hb⟩
          rw [hs]; simp [leadStr, List.replicate_succ]
        · have hres : reserved c = false := by
            cases hr : reserved c with
            | false => rfl
            | true =>
              exfalso
              have : ∀ m, vstep m 0 vInit c = none := by
                intro m; simp [vstep, h92, h42, h63, hr, vInit]
              simp [this] at h
          have hstep : vstep (c :: rest).length 0 vInit c = some ⟨false, false, false⟩ := by
            simp [vstep, h92, h42, h63, hres, vInit, vtail]
          rw [hstep] at h
          simp only at h
          obtain ⟨k, body, r, hs, hb, hk⟩ :=
            vscan_decompose _ rest 1 ⟨false, false, false⟩ open_fff h (by omega) (by simp; omega)
          have hk0 : k = 0 := by
            cases k with
            | zero => rfl
            | succ k => have := (hk (by omega)).1; simp at this
          subst hk0
          have hu : unreservedC c = true := by rw [unreserved_iff, hres]; rfl
          exact ⟨some 0, c :: body, r, by simp [leadStr, hs], by simpa [bodyStr, h92, hu] using hb⟩

theorem validate_grammar (s : Str) (h : validate s = true) : ValueGrammar s := by
  simp only [validate, Bool.and_eq_true, bne_iff_ne, ne_eq] at h
  obtain ⟨⟨⟨hp, h1⟩, h2⟩, hv⟩ := h
  exact ⟨by rw [printable_eq_preOk]; exact hp, h1, h2, vscan_grammar s hv⟩

theorem validate_iff_grammar' (s : Str) : validate s = true ↔ ValueGrammar s :=
  ⟨validate_grammar s, grammar_validate s⟩

end ClairModel.Cpe
