/-
  C18 — `fromCVSS2` on the RAW input string: the pieces of a string `ParseV2`
  accepts are the printed pieces of the parsed vector, so `fromCVSS2` answers
  on the input what it answers on the printed vector.
-/
import ClairModel.Proofs.CvssOsv2
import ClairModel.Proofs.CvssTables
namespace ClairModel.Cvss
open ClairModel.Gen.Cvss ClairModel.CvssSpec

theorem v2Piece_shape {m : Nat} {p : Bytes} {b : Nat} (hm : m < 14) (h : v2Piece m p = some b) : p = piece2 m b := by
  unfold v2Piece at h
  split at h
  · simp at h
  · rename_i val hs
    split at h
    · rename_i hc
      have hb : v2Pack m val = b := by simpa using h
      have hmem : val ∈ v2GrammarValues.getD m [] := by simpa using hc
      have := stripPrefix_some _ _ _ hs
      rw [this, piece2, ← hb, (v2_pack_unpack m hm val hmem).1]
      simp
    · simp at h

/-- the pieces of a string `ParseV2` accepts are the `NAME:VALUE` texts of the metrics it filled, in order -/
theorem v2Fill_pieces : ∀ (ms : List Nat) (ps : List Bytes) (acc v : Vec), v2Fill ms ps acc = some v →
    ms.Nodup → (∀ m ∈ ms, m < 14) → acc.mv.length = 14 → ps = ms.map fun m => piece2 m (v.get m)
  | [], [], _, _, _, _, _, _ => rfl
  | [], _ :: _, acc, v, h, _, _, _ => by simp [v2Fill] at h
  | _ :: _, [], acc, v, h, _, _, _ => by simp [v2Fill] at h
  | m :: ms, p :: ps, acc, v, h, hnd, hlt, hl => by
    have hm := hlt m (by simp)
    have hnd' : ms.Nodup := (List.nodup_cons.1 hnd).2
    have hnm : m ∉ ms := (List.nodup_cons.1 hnd).1
    have hlt' : ∀ x ∈ ms, x < 14 := fun x hx => hlt x (List.mem_cons_of_mem _ hx)
    unfold v2Fill at h
    split at h
    · simp at h
    · rename_i b hb
      have hl' : (acc.set m b).mv.length = 14 := by rw [Vec.set_length]; exact hl
      obtain ⟨_, _, i3, _⟩ := v2Fill_sound ms ps _ v h hnd' hlt' hl'
      have hvm : v.get m = b := by rw [i3 m hnm, Vec.get_set_eq _ _ _ (by rw [hl]; exact hm)]
      rw [List.map_cons, hvm, ← v2Fill_pieces ms ps _ v h hnd' hlt' hl', v2Piece_shape hm hb]

/-- `fromCVSS2` on the RAW input: for every string `ParseV2` accepts, `fromCVSS2`
    answers what it answers on the vector printed by the library -/
theorem osv2_raw {s : Bytes} {v : Vec} (h : parse2 s = some v) : osv2 s = osv2 (print2 v) := by
  have hv := parse2_sound h
  have hl0 : (Vec.empty 14).mv.length = 14 := by simp [Vec.empty]
  have key : ∀ rest : List Nat, (v2BaseIdx ++ rest).Nodup → (∀ m ∈ v2BaseIdx ++ rest, m < 14) →
      (∀ m ∈ rest, 6 ≤ m ∧ m < 14) →
      v2Fill (v2BaseIdx ++ rest) (splitOn cSlash s) (Vec.empty 14) = some v → osv2Score s = osv2Score (print2 v) := by
    intro rest hnd hlt hrest hf
    have hp := v2Fill_pieces _ _ _ _ hf hnd hlt hl0
    have hcount : ¬ (splitOn cSlash s).length < 6 := by
      rw [hp]; simp [v2BaseIdx]
    rw [osv2Score_print2 v hv, osv2Score]
    simp only [hcount, if_false]
    rw [hp, List.map_append, osvFill_append]
    cases hA : osvFill osv2Weights osv2Ignored (v2BaseIdx.map fun m => piece2 m (v.get m)) (List.replicate 6 0) with
    | none => rfl
    | some ns =>
      simp only [Option.bind_some]
      rw [osvFill2_ignored v _ ns hrest]
  have hs : osv2Score s = osv2Score (print2 v) := by
    unfold parse2 at h
    simp only [] at h
    split at h
    · exact key [] (by decide) (by decide) (by simp) (by simpa using h)
    · split at h
      · exact key v2TemporalIdx (by decide) (by decide) (by decide) h
      · split at h
        · exact key v2EnvIdx (by decide) (by decide) (by decide) h
        · split at h
          · exact key (v2TemporalIdx ++ v2EnvIdx) (by decide) (by decide) (by decide) (by simpa [List.append_assoc] using h)
          · simp at h
  unfold osv2
  rw [hs]

end ClairModel.Cvss
