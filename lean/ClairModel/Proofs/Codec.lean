import ClairModel.Model.Codec

namespace ClairModel.Codec
open ClairModel.Bytes

theorem findOff_spec (off : Nat) (xs : List Nat) (k n : Nat) (h : findOff off xs k = some n) :
    k ≤ n ∧ n - k < xs.length ∧ xs.getD (n - k) 0 = off := by
  induction xs generalizing k with
  | nil => simp [findOff] at h
  | cons x xs ih =>
    simp only [findOff] at h
    split at h
    · rename_i hx
      cases h
      simp [hx]
    · obtain ⟨h1, h2, h3⟩ := ih (k + 1) h
      refine ⟨by omega, by simp only [List.length_cons]; omega, ?_⟩
      have : n - k = (n - (k + 1)) + 1 := by omega
      rw [this]
      simpa using h3

/-- Whatever text is offered, a successful stringer-table decode yields a real
    member of the enum (never the one-past-the-end offset), provided the index
    table ends at the length of the name string, which is non-empty and shorter
    than 256 bytes. -/
theorem decode_member (name : Bytes) (idx : List Nat) (text : Bytes) (i n : Nat)
    (hne : name ≠ []) (hlen : name.length < 256)
    (hlast : idx.getD (idx.length - 1) 0 = name.length)
    (hi : index name text = some i) (hf : findOff (i % 256) idx 0 = some n) :
    n + 1 < idx.length := by
  have hb := indexFrom_bound text name 0 i hi
  have hilt : i < name.length := by
    cases text with
    | nil =>
      have : index name [] = some 0 := indexFrom_nil_needle name 0
      rw [this] at hi; cases hi
      cases name with
      | nil => exact absurd rfl hne
      | cons _ _ => simp
    | cons c cs => simp only [List.length_cons] at hb; omega
  obtain ⟨_, h2, h3⟩ := findOff_spec _ _ _ _ hf
  have hmod : i % 256 = i := Nat.mod_eq_of_lt (by omega)
  simp only [Nat.sub_zero] at h2 h3
  rw [hmod] at h3
  by_cases hn : n = idx.length - 1
  · rw [hn, hlast] at h3; omega
  · omega

theorem set_take_succ (w : List Int) (i : Nat) (x : Int) (h : i < w.length) :
    (w.set i x).take (i + 1) = w.take i ++ [x] := by
  induction w generalizing i with
  | nil => simp at h
  | cons a as ih =>
    cases i with
    | zero => simp
    | succ j =>
      simp only [List.set_cons_succ, List.take_succ_cons, List.cons_append]
      rw [ih j (by simpa using h)]

theorem set_drop_succ (w : List Int) (i k : Nat) (x : Int) :
    (w.set i x).drop (i + 1 + k) = w.drop (i + 1 + k) := by
  induction w generalizing i with
  | nil => simp
  | cons a as ih =>
    cases i with
    | zero =>
      have : 0 + 1 + k = k + 1 := by omega
      simp [this]
    | succ j =>
      have : j + 1 + 1 + k = (j + 1 + k) + 1 := by omega
      simp only [List.set_cons_succ, this, List.drop_succ_cons]
      exact ih j

theorem fillSlots_showInt (xs : List Int) : ∀ (w : List Int) (i : Nat),
    w.length = 10 → i + xs.length ≤ 10 → (∀ x ∈ xs, inInt32 x) →
    fillSlots w (xs.map showInt) i = some (w.take i ++ xs ++ w.drop (i + xs.length)) := by
  induction xs with
  | nil => intro w i _ _ _; simp [fillSlots]
  | cons x xs ih =>
    intro w i hw hi hr
    simp only [List.length_cons] at hi
    have hilt : ¬ i ≥ 10 := by omega
    simp only [List.map_cons, fillSlots, hilt, if_false, parseInt32_showInt x (hr x (by simp)), setSlot]
    rw [ih (w.set i x) (i + 1) (by simp [hw]) (by omega) (fun y hy => hr y (List.mem_cons_of_mem _ hy))]
    rw [set_take_succ w i x (by omega)]
    have : i + 1 + xs.length = i + (xs.length + 1) := by omega
    rw [set_drop_succ w i xs.length x, this]
    simp

theorem fillSlots_too_many (ps : List Bytes) : ∀ (w : List Int) (i : Nat),
    i ≤ 10 → i + ps.length > 10 → fillSlots w ps i = none := by
  induction ps with
  | nil => intro w i h1 h; simp only [List.length_nil, Nat.add_zero] at h; omega
  | cons p ps ih =>
    intro w i h1 h
    simp only [fillSlots]
    split
    · rfl
    · split
      · rfl
      · exact ih _ _ (by omega) (by simp only [List.length_cons] at h; omega)

theorem fillSlots_length (ps : List Bytes) : ∀ (w w' : List Int) (i : Nat),
    fillSlots w ps i = some w' → w'.length = w.length := by
  induction ps with
  | nil => intro w w' i h; simp [fillSlots] at h; subst h; rfl
  | cons p ps ih =>
    intro w w' i h
    simp only [fillSlots] at h
    split at h
    · cases h
    · split at h
      · cases h
      · have := ih _ _ _ h
        simpa [setSlot] using this

theorem unhexDigit_lt (c x : Nat) (h : unhexDigit c = some x) : x < 16 := by
  unfold unhexDigit at h
  split at h
  · cases h; omega
  · split at h
    · cases h; omega
    · split at h
      · cases h; omega
      · cases h

theorem hexDecode_bytes : ∀ (n : Nat) (s bs : Bytes), s.length ≤ n → hexDecode s = some bs → ∀ b ∈ bs, b < 256 := by
  intro n
  induction n with
  | zero =>
    intro s bs hl h
    have : s = [] := by cases s <;> simp_all
    subst this; simp [hexDecode] at h; subst h; simp
  | succ n ih =>
    intro s bs hl h
    match s, h with
    | [], h => simp [hexDecode] at h; subst h; simp
    | [_], h => simp [hexDecode] at h
    | a :: b :: rest, h =>
      simp only [hexDecode] at h
      split at h
      · rename_i x y r hx hy hr
        cases h
        intro c hc
        rcases List.mem_cons.1 hc with rfl | hc
        · have := unhexDigit_lt _ _ hx; have := unhexDigit_lt _ _ hy; omega
        · exact ih rest r (by simp only [List.length_cons] at hl; omega) hr c hc
      · cases h

theorem cut_fst_no_sep (sep : Nat) (s : Bytes) : ∀ (a b : Bytes), cut sep s = some (a, b) → sep ∉ a := by
  induction s with
  | nil => intro a b h; simp [cut] at h
  | cons c cs ih =>
    intro a b h
    simp only [cut] at h
    by_cases hc : c = sep
    · simp only [hc, if_true, Option.some.injEq, Prod.mk.injEq] at h
      rw [← h.1]; simp
    · simp only [hc, if_false] at h
      cases hcut : cut sep cs with
      | none => simp [hcut] at h
      | some p =>
        obtain ⟨a', b'⟩ := p
        simp only [hcut, Option.some.injEq, Prod.mk.injEq] at h
        rw [← h.1]
        simp only [List.mem_cons, not_or]
        exact ⟨fun e => hc e.symm, ih a' b' hcut⟩

end ClairModel.Codec
