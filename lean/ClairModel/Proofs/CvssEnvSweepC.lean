/-
  C18 — v3.1 environmental sweep, Modified Scope Changed (84 impacts, each
  with its 13th power, x 24 exploitability values: Modified Attack Vector N, A).
-/
import ClairModel.Proofs.CvssEnvDefs

namespace ClairModel.Cvss

set_option maxRecDepth 100000 in
theorem envSweep31_C1 : envSweep31 cC [cN, cA] = true := by decide +kernel

end ClairModel.Cvss
