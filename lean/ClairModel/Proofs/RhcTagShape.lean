/-
  The string-level fragment of rhctag (Model/RhcTag.lean `shapeNums`): a text
  `[v]digits`, `[v]digits.` or `[v]digits.digits` followed by the end, a `-`
  (or, after the second number, a `.`), without `:` and with both numbers below
  2^31, is parsed by `rhctag.Parse` to exactly those two numbers, and the
  parsed tag is `plain` — so the projection theorem applies to texts that can
  be recognised without running the parser.
-/
import ClairModel.Proofs.RhcTag

set_option linter.unusedSimpArgs false
set_option linter.unusedVariables false

namespace ClairModel.RhcTag
open ClairModel.Order ClairModel.Version

theorem spanP_append (p : Char → Bool) : ∀ s : List Char, (spanP p s).1 ++ (spanP p s).2 = s
  | [] => rfl
  | c :: cs => by
    unfold spanP
    by_cases h : p c = true
    · simp only [h, if_true, List.cons_append, spanP_append p cs]
    · simp only [h]; rfl

theorem spanP_snd_head (p : Char → Bool) : ∀ (s : List Char) (c : Char) (r : List Char),
    (spanP p s).2 = c :: r → p c = false
  | [], c, r, h => by simp [spanP] at h
  | x :: xs, c, r, h => by
    unfold spanP at h
    by_cases hx : p x = true
    · simp only [hx, if_true] at h
      exact spanP_snd_head p xs c r h
    · rw [if_neg hx] at h
      simp only [List.cons.injEq] at h
      rw [← h.1]; simpa using hx

/-- Facts about the ten digit characters. -/
theorem digChar_facts2 : ∀ d, d < 10 →
    isAlpha (digitChar d) = false ∧ digitChar d ≠ '~' ∧ digitChar d ≠ '-' ∧ digitChar d ≠ '.' ∧
    digitChar d ≠ ':' ∧ digitChar d ≠ 'v' ∧ digitChar d ≠ '+' := by
  decide

theorem digit_facts {c : Char} (h : isDigit c = true) :
    isAlpha c = false ∧ c ≠ '~' ∧ c ≠ '-' ∧ c ≠ '.' ∧ c ≠ ':' ∧ c ≠ 'v' ∧ c ≠ '+' := by
  obtain ⟨d, hd, rfl⟩ := isDigChar_of_isDigit h
  exact digChar_facts2 d hd

/-- `p` holds along the list, fails at the head of the tail: `spanP` splits there. -/
theorem spanP_of (p : Char → Bool) : ∀ (d tail : List Char), (∀ c ∈ d, p c = true) →
    (∀ c r, tail = c :: r → p c = false) → spanP p (d ++ tail) = (d, tail)
  | [], tail, _, ht => by
    cases tail with
    | nil => rfl
    | cons c r => simp [spanP, ht c r rfl]
  | x :: xs, tail, hd, ht => by
    have hx : p x = true := hd x List.mem_cons_self
    have ih := spanP_of p xs tail (fun c hc => hd c (List.mem_cons_of_mem _ hc)) ht
    simp [spanP, hx, ih]

theorem tokens_digits (fuel : Nat) (d0 : Char) (ds tail : List Char) (h0 : isDigit d0 = true)
    (hds : AllDig ds) (ht : ∀ c r, tail = c :: r → isDigit c = false) :
    tokens (fuel + 1) (d0 :: ds ++ tail) = .num (d0 :: ds) :: tokens fuel tail := by
  have ha := (digit_facts h0).1
  simp only [tokens, List.cons_append, ha, h0, if_true, Bool.false_eq_true, if_false,
    spanP_of isDigit ds tail hds ht]

theorem tokens_v (fuel : Nat) (d0 : Char) (r : List Char) (h0 : isDigit d0 = true) :
    tokens (fuel + 1) ('v' :: d0 :: r) = .alpha ['v'] :: tokens fuel (d0 :: r) := by
  have ha := (digit_facts h0).1
  have hv : isAlpha 'v' = true := by decide
  simp only [tokens, hv, if_true, spanP, ha, Bool.false_eq_true, if_false]

theorem tokens_dot (fuel : Nat) (r : List Char) : tokens (fuel + 1) ('.' :: r) = tokens fuel r := by
  have h1 : isAlpha '.' = false := by decide
  have h2 : isDigit '.' = false := by decide
  have h3 : ('.' : Char) ≠ '~' := by decide
  simp only [tokens, h1, h2, h3, Bool.false_eq_true, if_false]

theorem cut_append_left (sep : Char) : ∀ (d t : List Char), sep ∉ d →
    cut sep (d ++ t) = (d ++ (cut sep t).1, (cut sep t).2)
  | [], t, _ => by simp
  | x :: xs, t, h => by
    have hx : x ≠ sep := fun e => h (e ▸ List.mem_cons_self)
    have ih := cut_append_left sep xs t (fun hm => h (List.mem_cons_of_mem _ hm))
    simp [cut, hx, ih]

theorem cut_head (sep : Char) (r : List Char) : cut sep (sep :: r) = ([], some r) := by simp [cut]

theorem allDig_not_mem {d : List Char} (h : AllDig d) {x : Char} (hx : isDigit x = false) : x ∉ d :=
  fun hm => by rw [h x hm] at hx; cases hx

/-- `Atoi` on a non-empty digit string below 2^63. -/
theorem atoi_digits {d : List Char} (hne : d ≠ []) (h : AllDig d) (hlt : natOfDigits d < 9223372036854775808) :
    atoi d = some (natOfDigits d : Int) := by
  cases d with
  | nil => exact absurd rfl hne
  | cons c cs =>
    obtain ⟨_, _, f1, _, _, _, f2⟩ := digit_facts (h c List.mem_cons_self)
    rw [atoi_unsigned cs f1 f2]
    have : (c :: cs).all isDigit = true := List.all_eq_true.2 h
    simp [this, hlt]

theorem atoi_nil : atoi [] = none := by decide

/-- `upToDot` on `digits` alone. -/
theorem upToDot_digits {d : List Char} (hne : d ≠ []) (h : AllDig d) (hlt : natOfDigits d < 9223372036854775808) :
    upToDot d = some ((natOfDigits d : Int), []) := by
  unfold upToDot
  rw [cut_no_sep '.' d (allDig_not_mem h (by decide))]
  simp [atoi_digits hne h hlt]

/-- `upToDot` on `digits.rest`. -/
theorem upToDot_digits_dot {d : List Char} (r : List Char) (hne : d ≠ []) (h : AllDig d)
    (hlt : natOfDigits d < 9223372036854775808) :
    upToDot (d ++ '.' :: r) = some ((natOfDigits d : Int), r) := by
  unfold upToDot
  rw [cut_append_left '.' d _ (allDig_not_mem h (by decide)), cut_head]
  have : d.isEmpty = false := by
    cases d with
    | nil => exact absurd rfl hne
    | cons _ _ => rfl
  simp only [List.append_nil, this, Bool.false_eq_true, if_false, atoi_digits hne h hlt, Option.map]

theorem upToDot_nil : upToDot [] = none := by decide

/-- What the recogniser `shapeBody` accepts, as a decomposition of the text. -/
inductive Body : List Char → Nat → Nat → Prop
  /-- `digits` then the end or `-…` -/
  | major (dM tail : List Char) : dM ≠ [] → AllDig dM → endOrDash tail = true →
      Body (dM ++ tail) (natOfDigits dM) 0
  /-- `digits.` then the end or `-…` -/
  | majorDot (dM tail : List Char) : dM ≠ [] → AllDig dM → endOrDash tail = true →
      Body (dM ++ '.' :: tail) (natOfDigits dM) 0
  /-- `digits.digits` then the end, `-…` or `.…` -/
  | minor (dM dm tail : List Char) : dM ≠ [] → AllDig dM → dm ≠ [] → AllDig dm → endDashDot tail = true →
      Body (dM ++ '.' :: (dm ++ tail)) (natOfDigits dM) (natOfDigits dm)

theorem isEmpty_false_ne {l : List Char} (h : l.isEmpty = false) : l ≠ [] := by
  intro e; rw [e] at h; cases h

theorem shapeBody_body {s : List Char} {M m : Nat} (h : shapeBody s = some (M, m)) : Body s M m := by
  unfold shapeBody at h
  have hs := spanP_append isDigit s
  have hd : AllDig (spanP isDigit s).1 := spanP_fst isDigit s
  by_cases he : (spanP isDigit s).1.isEmpty = true
  · simp [he] at h
  · have he' : (spanP isDigit s).1.isEmpty = false := by simpa using he
    rw [if_neg he] at h
    have hne := isEmpty_false_ne he'
    split at h
    · rename_i r1 hr
      have hs1 := spanP_append isDigit r1
      have hd1 : AllDig (spanP isDigit r1).1 := spanP_fst isDigit r1
      by_cases he1 : (spanP isDigit r1).1.isEmpty = true
      · rw [if_pos he1] at h
        by_cases hed : endOrDash r1 = true
        · rw [if_pos hed] at h
          simp only [Option.some.injEq, Prod.mk.injEq] at h
          rw [← hs, hr, ← h.1, ← h.2]
          exact Body.majorDot _ r1 hne hd hed
        · rw [if_neg hed] at h; cases h
      · have he1' : (spanP isDigit r1).1.isEmpty = false := by simpa using he1
        rw [if_neg he1] at h
        by_cases hed : endDashDot (spanP isDigit r1).2 = true
        · rw [if_pos hed] at h
          simp only [Option.some.injEq, Prod.mk.injEq] at h
          rw [← hs, hr, ← hs1, ← h.1, ← h.2]
          exact Body.minor _ _ _ hne hd (isEmpty_false_ne he1') hd1 hed
        · rw [if_neg hed] at h; cases h
    · rename_i r hr
      by_cases hed : endOrDash (spanP isDigit s).2 = true
      · rw [if_pos hed] at h
        simp only [Option.some.injEq, Prod.mk.injEq] at h
        rw [← hs, ← h.1, ← h.2]
        exact Body.major _ _ hne hd hed
      · rw [if_neg hed] at h; cases h

/-- `stripRev` on `d ++ tail` with `d` non-empty and free of `-`. -/
theorem stripRev_append {d : List Char} (tail : List Char) (hne : d ≠ []) (hd : '-' ∉ d) :
    stripRev (d ++ tail) = d ++ (cut '-' tail).1 := by
  unfold stripRev
  rw [cut_append_left '-' d tail hd]
  have : (d ++ (cut '-' tail).1).isEmpty = false := by
    cases d with
    | nil => exact absurd rfl hne
    | cons _ _ => rfl
  cases hc : (cut '-' tail).2 with
  | some r => simp [this]
  | none =>
    have : (cut '-' tail).1 = tail := by
      clear this
      induction tail with
      | nil => rfl
      | cons c cs ih =>
        unfold cut at hc ⊢
        by_cases hcs : c = '-'
        · simp [hcs] at hc
        · simp only [hcs, if_false] at hc ⊢
          rw [ih hc]
    simp [this]

theorem endOrDash_cut {tail : List Char} (h : endOrDash tail = true) : (cut '-' tail).1 = [] := by
  cases tail with
  | nil => rfl
  | cons c r =>
    have : c = '-' := by simpa [endOrDash] using h
    rw [this, cut_head]

/-- After the second number: the text up to the first `-` is empty or starts with `.`. -/
theorem endDashDot_cut {tail : List Char} (h : endDashDot tail = true) :
    (cut '-' tail).1 = [] ∨ ∃ r, (cut '-' tail).1 = '.' :: r := by
  cases tail with
  | nil => exact Or.inl rfl
  | cons c r =>
    have : c = '-' ∨ c = '.' := by simpa [endDashDot] using h
    rcases this with rfl | rfl
    · exact Or.inl (by rw [cut_head])
    · refine Or.inr ⟨(cut '-' r).1, ?_⟩
      have : ('.' : Char) ≠ '-' := by decide
      simp [cut, this]

theorem dash_not_digit : isDigit '-' = false := by decide
theorem dot_not_digit : isDigit '.' = false := by decide

/-- `Parse` on a body (the text after the optional `v`). -/
theorem parseCanon_body (orig : List Char) {s : List Char} {M m : Nat} (hb : Body s M m)
    (hM : M < 2147483648) (hm : m < 2147483648) :
    parseCanon orig (stripRev s) = some { original := orig, major := M, minor := m } := by
  cases hb with
  | major dM tail hne hd hed =>
    rw [stripRev_append tail hne (allDig_not_mem hd dash_not_digit), endOrDash_cut hed, List.append_nil]
    unfold parseCanon
    rw [upToDot_digits hne hd (by omega)]
    simp [upToDot_nil]
  | majorDot dM tail hne hd hed =>
    have : stripRev (dM ++ '.' :: tail) = dM ++ ['.'] := by
      rw [stripRev_append _ hne (allDig_not_mem hd dash_not_digit)]
      have hdot : ('.' : Char) ≠ '-' := by decide
      simp [cut, hdot, endOrDash_cut hed]
    rw [this]
    unfold parseCanon
    rw [upToDot_digits_dot [] hne hd (by omega)]
    simp [upToDot_nil]
  | minor dM dm tail hne hd hne1 hd1 hed =>
    have hdot : ('.' : Char) ≠ '-' := by decide
    have : stripRev (dM ++ '.' :: (dm ++ tail)) = dM ++ '.' :: (dm ++ (cut '-' tail).1) := by
      rw [stripRev_append _ hne (allDig_not_mem hd dash_not_digit)]
      simp [cut, hdot, cut_append_left '-' dm tail (allDig_not_mem hd1 dash_not_digit)]
    rw [this]
    unfold parseCanon
    rw [upToDot_digits_dot _ hne hd (by omega)]
    simp only
    rcases endDashDot_cut hed with h0 | ⟨r, hr⟩
    · rw [h0, List.append_nil, upToDot_digits hne1 hd1 (by omega)]
    · rw [hr, upToDot_digits_dot r hne1 hd1 (by omega)]

/-- The rpm tokens of the version part (text before the first `-`) of a body. -/
theorem tokens_body {s : List Char} {M m : Nat} (hb : Body s M m) (extra : Nat) :
    ∃ dM rest, tokens ((cut '-' s).1.length + extra) (cut '-' s).1 = Tok.num dM :: rest ∧
      natOfDigits dM = M ∧
      ((rest = [] ∧ m = 0) ∨ ∃ dm rest', rest = Tok.num dm :: rest' ∧ natOfDigits dm = m) := by
  have hdot : ('.' : Char) ≠ '-' := by decide
  cases hb with
  | major dM tail hne hd hed =>
    rw [cut_append_left '-' dM tail (allDig_not_mem hd dash_not_digit), endOrDash_cut hed, List.append_nil]
    cases dM with
    | nil => exact absurd rfl hne
    | cons d0 ds =>
      refine ⟨d0 :: ds, [], ?_, rfl, Or.inl ⟨rfl, rfl⟩⟩
      have := tokens_digits (ds.length + extra) d0 ds [] (hd d0 List.mem_cons_self) hd.tail (by simp)
      rw [List.append_nil] at this
      have e : (d0 :: ds).length + extra = ds.length + extra + 1 := by simp; omega
      rw [e, this]
      cases ds.length + extra <;> simp [tokens]
  | majorDot dM tail hne hd hed =>
    have hc : (cut '-' (dM ++ '.' :: tail)).1 = dM ++ ['.'] := by
      rw [cut_append_left '-' dM _ (allDig_not_mem hd dash_not_digit)]
      simp [cut, hdot, endOrDash_cut hed]
    rw [hc]
    cases dM with
    | nil => exact absurd rfl hne
    | cons d0 ds =>
      refine ⟨d0 :: ds, [], ?_, rfl, Or.inl ⟨rfl, rfl⟩⟩
      have := tokens_digits (ds.length + 1 + extra) d0 ds ['.'] (hd d0 List.mem_cons_self) hd.tail
        (by intro c r h; simp only [List.cons.injEq] at h; rw [← h.1]; exact dot_not_digit)
      have e : (d0 :: ds ++ ['.']).length + extra = ds.length + 1 + extra + 1 := by simp; omega
      rw [e, this]
      have e2 : ds.length + 1 + extra = (ds.length + extra) + 1 := by omega
      rw [e2, tokens_dot]
      cases ds.length + extra <;> simp [tokens]
  | minor dM dm tail hne hd hne1 hd1 hed =>
    have hc : (cut '-' (dM ++ '.' :: (dm ++ tail))).1 = dM ++ '.' :: (dm ++ (cut '-' tail).1) := by
      rw [cut_append_left '-' dM _ (allDig_not_mem hd dash_not_digit)]
      simp [cut, hdot, cut_append_left '-' dm tail (allDig_not_mem hd1 dash_not_digit)]
    rw [hc]
    have htl : ∀ c r, (cut '-' tail).1 = c :: r → isDigit c = false := by
      intro c r h
      rcases endDashDot_cut hed with h0 | ⟨r', hr⟩
      · rw [h0] at h; cases h
      · rw [hr] at h; simp only [List.cons.injEq] at h; rw [← h.1]; exact dot_not_digit
    cases dM with
    | nil => exact absurd rfl hne
    | cons d0 ds =>
      cases dm with
      | nil => exact absurd rfl hne1
      | cons e0 es =>
        generalize (cut '-' tail).1 = t at htl
        have key : tokens ((d0 :: ds ++ '.' :: (e0 :: es ++ t)).length + extra) (d0 :: ds ++ '.' :: (e0 :: es ++ t))
            = Tok.num (d0 :: ds) :: Tok.num (e0 :: es) :: tokens (ds.length + es.length + t.length + extra) t := by
          have h1 := tokens_digits (ds.length + (es.length + t.length + 1) + 1 + extra) d0 ds
            ('.' :: (e0 :: es ++ t)) (hd d0 List.mem_cons_self) hd.tail
            (by intro c r h; simp only [List.cons.injEq] at h; rw [← h.1]; exact dot_not_digit)
          have e : (d0 :: ds ++ '.' :: (e0 :: es ++ t)).length + extra
              = ds.length + (es.length + t.length + 1) + 1 + extra + 1 := by
            simp; omega
          rw [e, h1]
          have e2 : ds.length + (es.length + t.length + 1) + 1 + extra
              = (ds.length + es.length + t.length + 1 + extra) + 1 := by omega
          rw [e2, tokens_dot]
          have e3 : ds.length + es.length + t.length + 1 + extra = (ds.length + es.length + t.length + extra) + 1 := by
            omega
          rw [e3, tokens_digits _ e0 es t (hd1 e0 List.mem_cons_self) hd1.tail htl]
        exact ⟨_, _, key, rfl, Or.inr ⟨_, _, rfl, rfl⟩⟩

theorem cut_cons_ne {sep c : Char} (r : List Char) (h : c ≠ sep) : (cut sep (c :: r)).1 = c :: (cut sep r).1 := by
  simp [cut, h]

theorem body_head {s : List Char} {M m : Nat} (hb : Body s M m) :
    ∃ d0 r, (cut '-' s).1 = d0 :: r ∧ isDigit d0 = true ∧ s = d0 :: (s.drop 1) := by
  cases hb with
  | major dM tail hne hd _ =>
    cases dM with
    | nil => exact absurd rfl hne
    | cons d0 ds =>
      have h0 := hd d0 List.mem_cons_self
      have : d0 ≠ '-' := (digit_facts h0).2.2.1
      exact ⟨d0, _, cut_cons_ne _ this, h0, by simp⟩
  | majorDot dM tail hne hd _ =>
    cases dM with
    | nil => exact absurd rfl hne
    | cons d0 ds =>
      have h0 := hd d0 List.mem_cons_self
      have : d0 ≠ '-' := (digit_facts h0).2.2.1
      exact ⟨d0, _, cut_cons_ne _ this, h0, by simp⟩
  | minor dM dm tail hne hd _ _ _ =>
    cases dM with
    | nil => exact absurd rfl hne
    | cons d0 ds =>
      have h0 := hd d0 List.mem_cons_self
      have : d0 ≠ '-' := (digit_facts h0).2.2.1
      exact ⟨d0, _, cut_cons_ne _ this, h0, by simp⟩

theorem stripV_of_ne {c : Char} (r : List Char) (h : c ≠ 'v') : stripV (c :: r) = c :: r ∧ hasV (c :: r) = false := by
  constructor
  · unfold stripV
    split
    · rename_i hm; simp only [List.cons.injEq] at hm; exact absurd hm.1 h
    · rfl
  · unfold hasV
    split
    · rename_i hm; simp only [List.cons.injEq] at hm; exact absurd hm.1 h
    · rfl

/-- The match of `plain` on a token list of the right form. -/
theorem plain_of_tokens (v : Bool) (t : Tag) (hc : ':' ∉ t.original) (dM : List Char) (rest : List Tok)
    (ht : tokens (cut '-' t.original).1.length (cut '-' t.original).1
      = (if v then [Tok.alpha ['v']] else []) ++ Tok.num dM :: rest)
    (hM : (natOfDigits dM : Int) = t.major) (hM' : t.major < 2147483648)
    (hr : (rest = [] ∧ t.minor = 0) ∨
      ∃ dm rest', rest = Tok.num dm :: rest' ∧ (natOfDigits dm : Int) = t.minor ∧ t.minor < 2147483648) :
    plain v t = true := by
  unfold plain
  rw [ht]
  have hc' : t.original.contains ':' = false := by simpa using hc
  have hav : afterV v ((if v then [Tok.alpha ['v']] else []) ++ Tok.num dM :: rest) = some (Tok.num dM :: rest) := by
    cases v <;> simp [afterV]
  rw [hav, hc']
  rcases hr with ⟨rfl, hz⟩ | ⟨dm, rest', rfl, hm, hm'⟩
  · simp [hM, hM', hz]
  · simp [hM, hM', hm, hm']

/-- **String-level shape ⇒ parse result and `plain`.**  A text accepted by
    `shapeNums` (no `:`, optional `v`, `digits[.[digits]]` followed by the end,
    `-` or — after the second number — `.`, numbers below 2^31) is parsed by
    `rhctag.Parse` to exactly these numbers, and the tag is in the fragment
    `plain` of the projection theorem. -/
theorem shape_parse_plain {s : List Char} {v : Bool} {M m : Nat} (h : shapeNums s = some (v, M, m)) :
    parse s = some { original := s, major := M, minor := m } ∧
    plain v { original := s, major := M, minor := m } = true := by
  unfold shapeNums at h
  by_cases hc : s.contains ':' = true
  · rw [if_pos hc] at h; cases h
  · rw [if_neg hc] at h
    have hc' : ':' ∉ s := by simpa using hc
    split at h
    · cases h
    · rename_i mm hb
      by_cases hlt : (mm.1 < 2147483648 && mm.2 < 2147483648) = true
      · rw [if_pos hlt] at h
        simp only [Option.some.injEq, Prod.mk.injEq] at h
        obtain ⟨hv, rfl, rfl⟩ := h
        simp only [Bool.and_eq_true, decide_eq_true_eq] at hlt
        have body := shapeBody_body (s := stripV s) (M := mm.1) (m := mm.2) (by rw [hb])
        obtain ⟨d0, r0, hcut, hd0, hs0⟩ := body_head body
        obtain ⟨dM, rest, htok, hMv, hrest⟩ := tokens_body body 0
        have hparse : parse s = some { original := s, major := (mm.1 : Int), minor := (mm.2 : Int) } := by
          unfold parse
          exact parseCanon_body s body hlt.1 hlt.2
        refine ⟨hparse, ?_⟩
        have hrest' : (rest = [] ∧ ((mm.2 : Nat) : Int) = 0) ∨
            ∃ dm rest', rest = Tok.num dm :: rest' ∧ (natOfDigits dm : Int) = ((mm.2 : Nat) : Int) ∧
              ((mm.2 : Nat) : Int) < 2147483648 := by
          rcases hrest with ⟨h1, h2⟩ | ⟨dm, rest', h1, h2⟩
          · exact Or.inl ⟨h1, by omega⟩
          · exact Or.inr ⟨dm, rest', h1, by omega, by omega⟩
        -- with or without the `v`
        cases s with
        | nil =>
          have : stripV ([] : List Char) = [] := rfl
          rw [this] at hs0; cases hs0
        | cons c cs =>
          by_cases hcv : c = 'v'
          · subst hcv
            have hsv : stripV ('v' :: cs) = cs := rfl
            have hhv : hasV ('v' :: cs) = true := rfl
            rw [hhv] at hv; subst hv
            rw [hsv] at hcut htok hs0
            have hvd : ('v' : Char) ≠ '-' := by decide
            have hcutv : (cut '-' ('v' :: cs)).1 = 'v' :: (cut '-' cs).1 := by simp [cut, hvd]
            refine plain_of_tokens true _ hc' dM rest ?_ (by simp; omega) (by simp; omega) hrest'
            simp only [hcutv, List.length_cons, if_true]
            rw [hcut] at htok ⊢
            rw [tokens_v _ d0 r0 hd0]
            simpa using htok
          · obtain ⟨hsv, hhv⟩ := stripV_of_ne cs hcv
            rw [hhv] at hv; subst hv
            rw [hsv] at htok
            refine plain_of_tokens false _ hc' dM rest ?_ (by simp; omega) (by simp; omega) hrest'
            simpa using htok
      · rw [if_neg hlt] at h; cases h

end ClairModel.RhcTag
