/-
  The generalised loop is the loop: with the model's table of state functions
  `runLoopWith` / `indexWith` are `runLoop` / `index`, and with no scanner
  dropped `indexOff` is `index`. Facts about `configAndFilter` and `newLib`.
-/
import ClairModel.Model.IndexerExt
import ClairModel.Proofs.IndexerBasic

namespace ClairModel.Indexer

theorem runLoopWith_stateFn (sem : Sem) (o : Oracle) (cfg : Cfg) (m : Manifest) :
    ∀ (fuel : Nat) (w : W) (c : Ctl), runLoopWith (stateFn sem o cfg m) o m fuel w c = runLoop sem o cfg m fuel w c
  | 0, _, _ => rfl
  | fuel + 1, w, c => by
    rw [runLoopWith, runLoop]
    simp only [runLoopWith_stateFn sem o cfg m fuel]
    rfl

theorem indexWith_stateFn (sem : Sem) (o : Oracle) (cfg : Cfg) (m : Manifest) (st : Store) (d : Bool) :
    indexWith (stateFn sem o cfg m) o cfg m st d = index sem o cfg m st d := by
  simp only [indexWith, index, runLoopWith_stateFn]

theorem stateFnOff_none (sem : Sem) (o : Oracle) (cfg : Cfg) (m : Manifest) :
    stateFnOff (fun _ => false) sem o cfg m = stateFn sem o cfg m := by
  funext s w c
  have hf : ∀ (l : List (Layer × Scanner)), (l.filter fun p => !(fun _ => false) p.2) = l :=
    fun l => List.filter_eq_self.2 (fun _ _ => rfl)
  cases s <;> simp only [stateFnOff, stateFn, scanLayersOff, scanLayers, hf] <;> rfl

/-- With every scanner configured successfully the deployment is the one all
    the theorems about `index` speak of. -/
theorem indexOff_none (sem : Sem) (o : Oracle) (cfg : Cfg) (m : Manifest) (st : Store) (d : Bool) :
    indexOff (fun _ => false) sem o cfg m st d = index sem o cfg m st d := by
  simp only [indexOff, stateFnOff_none, indexWith_stateFn]

/-! ## configAndFilter -/

/-- A scanner is dropped exactly when it has a Configure method and that fails. -/
theorem configOne_kept (x : Impl) : (configOne x).2 = !((x.rpc || x.configurable) && x.fails) := by
  unfold configOne
  cases x.rpc <;> cases x.configurable <;> cases x.fails <;> rfl

/-- Configure is called exactly on the scanners that implement one of the two
    interfaces, once, with the deployment's function iff one was supplied, and
    with the HTTP client iff the scanner is an RPCScanner. -/
theorem configOne_event (x : Impl) :
    (configOne x).1 = if x.rpc || x.configurable then some ⟨x.s, x.rpc, x.haveCfg, x.rpc⟩ else none := by
  unfold configOne
  cases x.rpc <;> cases x.configurable <;> rfl

theorem mem_running (xs : List Impl) (s : Scanner) :
    s ∈ (configAndFilter xs).2 ↔ ∃ x, x ∈ xs ∧ x.s = s ∧ ((x.rpc || x.configurable) && x.fails) = false := by
  simp only [configAndFilter, List.mem_map, List.mem_filter, configOne_kept]
  constructor
  · rintro ⟨x, ⟨hx, hk⟩, rfl⟩
    refine ⟨x, hx, rfl, ?_⟩
    cases hb : ((x.rpc || x.configurable) && x.fails)
    · rfl
    · rw [hb] at hk; cases hk
  · rintro ⟨x, hx, rfl, hk⟩
    exact ⟨x, ⟨hx, by rw [hk]; rfl⟩, rfl⟩

/-- Nothing is dropped when no Configure fails. -/
theorem running_all (xs : List Impl) (h : ∀ x, x ∈ xs → x.fails = false) : (configAndFilter xs).2 = xs.map (·.s) := by
  simp only [configAndFilter]
  congr 1
  apply List.filter_eq_self.2
  intro x hx
  rw [configOne_kept, h x hx]
  simp

/-! ## libindex.New -/

/-- `New` succeeds exactly when all four required arguments are present, no
    scanner constructor fails in either walk and RegisterScanners succeeds. -/
theorem newLib_ok_iff (i : NewIn) :
    (newLib i).ok = true ↔
      i.locker = true ∧ i.store = true ∧ i.arena = true ∧ i.client = true ∧ i.registerErr = false ∧
      (∀ k, i.ctorErr = some k → 2 * i.nctor ≤ k) := by
  obtain ⟨locker, store, arena, client, ctorErr, nctor, registerErr, impls⟩ := i
  unfold newLib
  cases locker <;> cases store <;> cases arena <;> cases client <;> simp
  cases ctorErr with
  | none => cases registerErr <;> simp
  | some k =>
    simp only [Option.some.injEq, forall_eq']
    by_cases h1 : k < nctor
    · simp [h1]; omega
    · cases registerErr
      · by_cases h2 : k < 2 * nctor
        · simp [h1, h2]
        · simp [h1, h2]; omega
      · simp [h1]

/-- A failed `New` configured nothing and runs nothing; RegisterScanners was
    reached only if the first walk over the constructors went through. -/
theorem newLib_failed (i : NewIn) (h : (newLib i).ok = false) :
    (newLib i).events = [] ∧ (newLib i).running = [] ∧
    ((newLib i).registered = true → i.locker = true ∧ i.store = true ∧ i.arena = true ∧ i.client = true ∧
      ∀ k, i.ctorErr = some k → i.nctor ≤ k) := by
  obtain ⟨locker, store, arena, client, ctorErr, nctor, registerErr, impls⟩ := i
  unfold newLib at h ⊢
  cases locker <;> cases store <;> cases arena <;> cases client <;> simp at h ⊢
  cases ctorErr with
  | none => cases registerErr <;> simp at h ⊢
  | some k =>
    by_cases h1 : k < nctor
    · simp [h1]
    · cases registerErr
      · by_cases h2 : k < 2 * nctor
        · simp [h1, h2]; omega
        · simp [h1, h2] at h
      · simp [h1]; omega

end ClairModel.Indexer
