/-
  C11: how registering a key (`pend`) and connecting it to its directory
  (`linkChild`) change a tree-consistent view.
-/
import ClairModel.Proofs.TarFSTree
import ClairModel.Model.TarFSExtract
set_option linter.unusedSimpArgs false
namespace ClairModel.TarFS

/-! ### State updates -/

theorem alGet_alDel {β : Type} (l : List (Bytes × β)) (k k' : Bytes) :
    alGet (alDel l k) k' = if k = k' then none else alGet l k' := by
  induction l with
  | nil => simp [alDel, alGet]
  | cons a t ih =>
    obtain ⟨a1, a2⟩ := a
    by_cases h1 : a1 = k
    · subst h1
      simp only [alDel, if_true, ih, alGet]
      by_cases h2 : a1 = k' <;> simp [h2]
    · simp only [alDel, h1, if_false, alGet, ih]
      by_cases h2 : a1 = k'
      · subst h2; simp [Ne.symm h1]
      · simp [h2]

theorem alGet_alSet {β : Type} (l : List (Bytes × β)) (k k' : Bytes) (v : β) :
    alGet (alSet l k v) k' = if k = k' then some v else alGet l k' := by
  simp only [alSet, alGet, alGet_alDel]
  by_cases h : k = k' <;> simp [h]

theorem ino_append_lt (lk : List (Bytes × Nat)) (ins : List Inode) (x : Inode) {i : Nat} (h : i < ins.length) :
    (FS.mk lk (ins ++ [x])).ino i = (FS.mk lk ins).ino i := by
  simp [FS.ino, List.getD, List.getElem?_append_left h]

theorem ino_append_len (lk : List (Bytes × Nat)) (ins : List Inode) (x : Inode) :
    (FS.mk lk (ins ++ [x])).ino ins.length = x := by
  simp [FS.ino, List.getD]

theorem ino_lookup_irrel (lk lk' : List (Bytes × Nat)) (ins : List Inode) (i : Nat) :
    (FS.mk lk ins).ino i = (FS.mk lk' ins).ino i := rfl

theorem ino_set_eq (fs : FS) {j : Nat} (x : Inode) (h : j < fs.inodes.length) :
    ({ fs with inodes := fs.inodes.set j x } : FS).ino j = x := by
  simp [FS.ino, List.getD, h]

theorem ino_set_ne (fs : FS) {i j : Nat} (x : Inode) (h : i ≠ j) :
    ({ fs with inodes := fs.inodes.set j x } : FS).ino i = fs.ino i := by
  simp [FS.ino, List.getD, List.getElem?_set_ne (Ne.symm h)]

theorem ino_default {fs : FS} {i : Nat} (h : fs.inodes.length ≤ i) : fs.ino i = emptyInode := by
  simp [FS.ino, List.getD, List.getElem?_eq_none h]

/-- `linkChild` on a directory inode. -/
theorem linkChild_eq (fs : FS) {j : Nat} {cs : List Nat} (i : Nat) (hcs : (fs.ino j).children = some cs) :
    fs.linkChild j i =
      { fs with inodes := fs.inodes.set j { fs.ino j with children := some (addChild cs i) } } := by
  simp [FS.linkChild, hcs]

theorem mem_addChild {cs : List Nat} {i c : Nat} : c ∈ addChild cs i ↔ c ∈ cs ∨ c = i := by
  unfold addChild
  split
  · rename_i h
    constructor
    · exact Or.inl
    · rintro (h' | rfl)
      · exact h'
      · exact h
  · simp


theorem lt_of_children {fs : FS} {j : Nat} {cs : List Nat} (h : (fs.ino j).children = some cs) : j < fs.inodes.length := by
  apply Decidable.byContradiction
  intro hge
  rw [ino_default (Nat.le_of_not_lt hge)] at h
  simp [emptyInode] at h

theorem linkChild_get (fs : FS) (j i : Nat) (k : Bytes) : (fs.linkChild j i).get? k = fs.get? k := by
  unfold FS.linkChild
  simp only
  split <;> rfl

theorem linkChild_ino (fs : FS) {j : Nat} {cs : List Nat} (i t : Nat) (hcs : (fs.ino j).children = some cs) :
    (fs.linkChild j i).ino t = if t = j then { fs.ino j with children := some (addChild cs i) } else fs.ino t := by
  rw [linkChild_eq fs i hcs]
  split
  · rename_i h; subst h; exact ino_set_eq fs _ (lt_of_children hcs)
  · rename_i h; exact ino_set_ne fs _ h

theorem linkChild_length (fs : FS) (j i : Nat) : (fs.linkChild j i).inodes.length = fs.inodes.length := by
  unfold FS.linkChild
  simp only
  split <;> simp

/-- Register a new key with a new inode, not yet connected. -/
def FS.pend (fs : FS) (p : Bytes) (x : Inode) : FS :=
  { lookup := alSet fs.lookup p fs.inodes.length, inodes := fs.inodes ++ [x] }

theorem pend_get (fs : FS) (p : Bytes) (x : Inode) (k : Bytes) :
    (fs.pend p x).get? k = if p = k then some fs.inodes.length else fs.get? k := by
  simp [FS.pend, FS.get?, alGet_alSet]

theorem pend_ino_lt (fs : FS) (p : Bytes) (x : Inode) {i : Nat} (h : i < fs.inodes.length) :
    (fs.pend p x).ino i = fs.ino i := ino_append_lt _ _ _ h

theorem pend_ino_len (fs : FS) (p : Bytes) (x : Inode) : (fs.pend p x).ino fs.inodes.length = x :=
  ino_append_len _ _ _

/-- A leaf inode: an empty directory, or a regular file, symbolic link or special file. -/
def LeafIno (x : Inode) : Prop :=
  (x.kind = .dir ∧ x.children = some []) ∨
  (x.kind ≠ .dir ∧ x.children = none ∧ (x.kind = .reg → ∃ d, x.data = some d))

theorem TreeOK.pend {skip : List Bytes} {fs : FS} {p : Bytes} {x : Inode} (h : TreeOK skip fs)
    (hp : Contained p) (hfresh : fs.get? p = none) (hx : x.name = p) (hleaf : LeafIno x)
    (hxl : (x.kind = .sym ∨ x.kind = .link) → Contained x.link) :
    TreeOK (p :: skip) (fs.pend p x) := by
  have hpd : p ≠ dotP := by intro e; subst e; rw [h.root] at hfresh; cases hfresh
  have hxok : InoOK x := ⟨hx ▸ hp, hxl⟩
  -- an old key keeps its index, and its inode
  have hold : ∀ k i, (fs.pend p x).get? k = some i → k ≠ p → fs.get? k = some i := by
    intro k i hk hne
    rw [pend_get] at hk
    simpa [Ne.symm hne] using hk
  have hkeep : ∀ k i, fs.get? k = some i → (fs.pend p x).get? k = some i ∧ (fs.pend p x).ino i = fs.ino i := by
    intro k i hk
    have hne : p ≠ k := by intro e; subst e; rw [hfresh] at hk; cases hk
    exact ⟨by rw [pend_get]; simp [hne, hk], pend_ino_lt fs p x (h.named k i hk).2⟩
  constructor
  · constructor
    · intro y hy
      rcases mem_alSet hy with rfl | hy
      · exact hp
      · exact h.inv.keys y hy
    · intro n hn
      simp only [FS.pend, List.mem_append, List.mem_singleton] at hn
      rcases hn with hn | rfl
      · exact h.inv.inos n hn
      · exact hxok
  · rw [pend_get]; simp [hpd, h.root]
  · rw [pend_ino_lt fs p x (h.named _ 0 h.root).2]; exact h.rootDir
  · intro i hi
    by_cases hlt : i < fs.inodes.length
    · obtain ⟨k, hk⟩ := h.keyed i hlt
      exact ⟨k, (hkeep k i hk).1⟩
    · have : i = fs.inodes.length := by simp [FS.pend] at hi; omega
      subst this
      exact ⟨p, by rw [pend_get]; simp⟩
  · intro k i hk
    by_cases hkp : k = p
    · subst hkp
      rw [pend_get] at hk
      simp at hk; subst hk
      rw [pend_ino_len]
      exact ⟨hx, by simp [FS.pend]⟩
    · have := hold k i hk hkp
      rw [(hkeep k i this).2]
      exact ⟨(h.named k i this).1, by simp [FS.pend]; have := (h.named k i this).2; omega⟩
  · intro k i hk
    by_cases hkp : k = p
    · subst hkp
      rw [pend_get] at hk
      simp at hk; subst hk
      rw [pend_ino_len]
      rcases hleaf with ⟨hk, hc⟩ | hleaf
      · exact Or.inl ⟨hk, [], hc⟩
      · exact Or.inr hleaf
    · have := hold k i hk hkp
      rw [(hkeep k i this).2]
      exact h.kinds k i this
  · intro k i hk hkd hksk
    have hkp : k ≠ p := fun e => hksk (by simp [e])
    have hksk' : k ∉ skip := fun e => hksk (by simp [e])
    have hko := hold k i hk hkp
    obtain ⟨j, cs, hj, hjs, hjd, hcs, hmem⟩ := h.up k i hko hkd hksk'
    have hdp : dirOf k ≠ p := by intro e; rw [e, hfresh] at hj; cases hj
    refine ⟨j, cs, (hkeep _ j hj).1, by simp [hdp, hjs], ?_, ?_, hmem⟩
    · rw [(hkeep _ j hj).2]; exact hjd
    · rw [(hkeep _ j hj).2]; exact hcs
  · intro k j cs hk hcs c hc
    by_cases hkp : k = p
    · subst hkp
      rw [pend_get] at hk
      simp at hk; subst hk
      rw [pend_ino_len] at hcs
      rcases hleaf with ⟨_, hc'⟩ | ⟨_, hc', _⟩
      · rw [hc'] at hcs; cases hcs; simp at hc
      · rw [hc'] at hcs; cases hcs
    · have hko := hold k j hk hkp
      rw [(hkeep k j hko).2] at hcs
      obtain ⟨k', hk', hk'd, hk's, hk'dir⟩ := h.down k j cs hko hcs c hc
      have hk'p : k' ≠ p := by intro e; rw [e, hfresh] at hk'; cases hk'
      exact ⟨k', (hkeep k' c hk').1, hk'd, by simp [hk'p, hk's], hk'dir⟩


theorem TreeOK.connect {skip : List Bytes} {fs : FS} {p : Bytes} {i j : Nat} {cs : List Nat}
    (h : TreeOK (p :: skip) fs) (hpi : fs.get? p = some i) (hpd : p ≠ dotP) (hps : p ∉ skip)
    (hj : fs.get? (dirOf p) = some j) (hjs : dirOf p ∉ skip) (hjd : (fs.ino j).kind = .dir)
    (hcs : (fs.ino j).children = some cs) : TreeOK skip (fs.linkChild j i) := by
  have hino := fun t => linkChild_ino fs i t hcs
  have hget := linkChild_get fs j i
  -- the inode of any index keeps kind and name; children only grow at j
  have hkind : ∀ t, ((fs.linkChild j i).ino t).kind = (fs.ino t).kind := by
    intro t; rw [hino]; split
    · rename_i e; subst e; rfl
    · rfl
  have hname : ∀ t, ((fs.linkChild j i).ino t).name = (fs.ino t).name := by
    intro t; rw [hino]; split
    · rename_i e; subst e; rfl
    · rfl
  constructor
  · exact h.inv.linkChild j i
  · rw [hget]; exact h.root
  · rw [hkind]; exact h.rootDir
  · intro t ht
    rw [linkChild_length] at ht
    obtain ⟨k, hk⟩ := h.keyed t ht
    exact ⟨k, by rw [hget]; exact hk⟩
  · intro k t hk
    rw [hget] at hk
    rw [hname, linkChild_length]
    exact h.named k t hk
  · intro k t hk
    rw [hget] at hk
    rw [hkind, hino]
    split
    · rename_i e; subst e
      exact Or.inl ⟨hjd, _, rfl⟩
    · exact h.kinds k t hk
  · intro k t hk hkd hksk
    rw [hget] at hk
    by_cases hkp : k = p
    · subst hkp
      rw [hpi] at hk; cases hk
      refine ⟨j, addChild cs i, by rw [hget]; exact hj, hjs, by rw [hkind]; exact hjd, ?_, mem_addChild.2 (Or.inr rfl)⟩
      rw [hino]; simp
    · obtain ⟨j', cs', hj', hjs', hjd', hcs', hmem⟩ := h.up k t hk hkd (by simp [hkp, hksk])
      have hjs'' : dirOf k ∉ skip := fun e => hjs' (by simp [e])
      by_cases hjj : j' = j
      · subst hjj
        rw [hcs] at hcs'; cases hcs'
        refine ⟨j', addChild cs i, ?_, hjs'', by rw [hkind]; exact hjd', ?_, ?_⟩
        · rw [hget]; exact hj'
        · rw [hino]; simp
        · exact mem_addChild.2 (Or.inl hmem)
      · refine ⟨j', cs', by rw [hget]; exact hj', hjs'', by rw [hkind]; exact hjd', ?_, hmem⟩
        rw [hino]; simp [hjj, hcs']
  · intro k j' cs' hk hcs' c hc
    rw [hget] at hk
    rw [hino] at hcs'
    by_cases hjj : j' = j
    · subst hjj
      simp at hcs'
      subst hcs'
      rcases mem_addChild.1 hc with hc | rfl
      · obtain ⟨k', hk', hk'd, hk's, hk'dir⟩ := h.down k j' cs hk hcs c hc
        exact ⟨k', by rw [hget]; exact hk', hk'd, fun e => hk's (by simp [e]), hk'dir⟩
      · refine ⟨p, by rw [hget]; exact hpi, hpd, hps, ?_⟩
        rw [← (h.named _ j' hj).1, (h.named k j' hk).1]
    · simp [hjj] at hcs'
      obtain ⟨k', hk', hk'd, hk's, hk'dir⟩ := h.down k j' cs' hk hcs' c hc
      exact ⟨k', by rw [hget]; exact hk', hk'd, fun e => hk's (by simp [e]), hk'dir⟩

end ClairModel.TarFS
