/-
  Lemmas about the jsonblob model (Model/JsonBlob.lean) used by Props/C16.lean.
-/
import ClairModel.Model.JsonBlob
import ClairModel.Lib.Sm

namespace ClairModel.JsonBlob

/-! ### What `Store.Store` writes -/

/-- The file `Store.Store` writes for the entries `es` when no line is too long:
    each entry's records, in order, as consecutive lines sharing its ref. -/
def render (es : List Entry) : List Line := es.flatMap fun e => e.recs.map (mkLine e)

def Entry.AllFit (e : Entry) : Prop := ∀ r ∈ e.recs, r.fits = true

theorem emitRecs_fits (e : Entry) (rs : List Rec) (h : ∀ r ∈ rs, r.fits = true) :
    emitRecs e rs = (rs.map (mkLine e), true) := by
  induction rs with
  | nil => rfl
  | cons r rs ih =>
    have hr : r.fits = true := h r (by simp)
    have ih' := ih (fun x hx => h x (by simp [hx]))
    simp [emitRecs, hr, ih']

theorem storeOut_fits (es : List Entry) (h : ∀ e ∈ es, e.AllFit) :
    storeOut es = (render es, [], true) := by
  induction es with
  | nil => rfl
  | cons e es ih =>
    have he := emitRecs_fits e e.recs (h e (by simp))
    have ih' := ih (fun x hx => h x (by simp [hx]))
    simp [storeOut, he, ih', render]

/-- `Store.Store` returns nil exactly when every line fits the scanner buffer. -/
theorem storeOut_ok_iff (es : List Entry) : (storeOut es).2.2 = true ↔ ∀ e ∈ es, e.AllFit := by
  induction es with
  | nil => simp [storeOut]
  | cons e es ih =>
    have emit_ok : ∀ rs : List Rec, (emitRecs e rs).2 = true ↔ ∀ r ∈ rs, r.fits = true := by
      intro rs
      induction rs with
      | nil => simp [emitRecs]
      | cons r rs ihr =>
        by_cases hr : r.fits = true
        · simp [emitRecs, hr, ihr]
        · simp [emitRecs, hr]
    by_cases hok : (emitRecs e e.recs).2 = true
    · have : e.AllFit := (emit_ok e.recs).1 hok
      simp only [storeOut, hok, if_true]
      simp [ih, this]
    · have : ¬ e.AllFit := fun h => hok ((emit_ok e.recs).2 h)
      simp only [storeOut, hok]
      simp [this]

theorem render_cons (e : Entry) (es : List Entry) :
    render (e :: es) = e.recs.map (mkLine e) ++ render es := by
  simp [render]

/-- Zero-length entries contribute no line. -/
theorem render_filter (es : List Entry) :
    render (es.filter fun e => !e.recs.isEmpty) = render es := by
  induction es with
  | nil => rfl
  | cons e es ih =>
    by_cases h : e.recs = []
    · simp [List.filter, h, render_cons, ih]
    · have : (!e.recs.isEmpty) = true := by simp [h]
      simp [List.filter, this, render_cons, ih]

theorem length_le_render (es : List Entry) (h : ∀ e ∈ es, e.recs ≠ []) :
    es.length ≤ (render es).length := by
  induction es with
  | nil => simp
  | cons e es ih =>
    have he : e.recs ≠ [] := h e (by simp)
    have := ih (fun x hx => h x (by simp [hx]))
    have hl : 0 < e.recs.length := List.length_pos_iff.2 he
    simp [render_cons]
    omega

/-! ### The loader on a block of lines sharing a ref -/

def LEntry.addRecs (n : LEntry) : Kind → List Rec → LEntry
  | .vuln, rs => { n with vuln := n.vuln ++ rs }
  | .enrich, rs => { n with enrich := n.enrich ++ rs }

/-- Lines continuing the current ref are appended to `l.next`. -/
theorem loop_absorb (e0 : Option LEntry) (en : Entry) (rs : List Rec) :
    ∀ (p : LEntry) (rest : List Line),
      loop e0 (some p) en.ref (rs.map (mkLine en) ++ rest) =
      loop e0 (some (p.addRecs en.kind rs)) en.ref rest := by
  induction rs with
  | nil => intro p rest; cases hk : en.kind <;> simp [LEntry.addRecs]
  | cons r rs ih =>
    intro p rest
    cases hk : en.kind
    · simp only [List.map_cons, List.cons_append]
      rw [loop]
      simp only [mkLine, hk, Kind.body]
      simp only [bne_self_eq_false, Bool.false_eq_true, if_false, Option.map_some, reduceCtorEq]
      have := ih (p.addVuln r) rest
      simp only [hk] at this
      rw [this]
      simp [LEntry.addRecs, LEntry.addVuln]
    · simp only [List.map_cons, List.cons_append]
      rw [loop]
      simp only [mkLine, hk, Kind.body]
      simp only [bne_self_eq_false, Bool.false_eq_true, if_false, Option.map_some, reduceCtorEq]
      have := ih (p.addEnrich r) rest
      simp only [hk] at this
      rw [this]
      simp [LEntry.addRecs, LEntry.addEnrich]

/-- The first line of a different ref promotes `l.next` to `l.e`; `Next` reports it. -/
theorem loop_boundary (e0 : Option LEntry) (p : LEntry) (cur : Nat) (en : Entry) (r : Rec)
    (rest : List Line) (h : en.ref ≠ cur) :
    loop e0 (some p) cur (mkLine en r :: rest) =
      ({ err := .none, e := some p, next := some ((LEntry.new (mkLine en r)).addRecs en.kind [r]),
         cur := en.ref, rest := rest }, .yes) := by
  have hb : (en.ref != cur) = true := by simp [h]
  cases hk : en.kind <;>
    simp [loop, mkLine, hk, Kind.body, hb, LEntry.addRecs, LEntry.addVuln, LEntry.addEnrich, LEntry.new]

/-- The very first line of a file (`l.cur` is uuid.Nil, nothing to promote). -/
theorem loop_first (en : Entry) (r : Rec) (rest : List Line) (h : en.ref ≠ 0) :
    loop none none 0 (mkLine en r :: rest) =
      loop none (some ((LEntry.new (mkLine en r)).addRecs en.kind [r])) en.ref rest := by
  have hb : (en.ref != 0) = true := by simp [h]
  cases hk : en.kind <;>
    simp [loop, mkLine, hk, Kind.body, hb, LEntry.addRecs, LEntry.addVuln, LEntry.addEnrich, LEntry.new]

theorem loop_end (e0 : Option LEntry) (p : LEntry) (cur : Nat) :
    loop e0 (some p) cur [] =
      ({ err := .eof, e := some p, next := some p, cur := cur, rest := [] }, .yes) := by
  simp [loop, boolOut]

theorem loaded_eq (en : Entry) (r : Rec) (rs : List Rec) (h : en.recs = r :: rs) :
    ((LEntry.new (mkLine en r)).addRecs en.kind [r]).addRecs en.kind rs = en.loaded := by
  cases hk : en.kind <;> simp [LEntry.new, LEntry.addRecs, Entry.loaded, mkLine, hk, h]

/-! ### Draining the iterator -/

/-- The loader between two `Next` calls, inside the block of ref `cur`. -/
def Loader.mid (e0 : Option LEntry) (p : LEntry) (cur : Nat) (rest : List Line) : Loader :=
  { err := .none, e := e0, next := some p, cur := cur, rest := rest }

theorem drain_congr (n : Nat) (l₁ l₂ : Loader) (h : l₁.step = l₂.step) : drain n l₁ = drain n l₂ := by
  cases n with
  | zero => rfl
  | succ n => simp only [drain, h]

theorem step_mid (e0 : Option LEntry) (p : LEntry) (cur : Nat) (rest : List Line) :
    (Loader.mid e0 p cur rest).step = loop e0 (some p) cur rest := by
  simp [Loader.step, Loader.mid]

theorem drain_absorb (n : Nat) (e0 : Option LEntry) (en : Entry) (rs : List Rec) (p : LEntry)
    (rest : List Line) :
    drain n (Loader.mid e0 p en.ref (rs.map (mkLine en) ++ rest)) =
    drain n (Loader.mid e0 (p.addRecs en.kind rs) en.ref rest) := by
  apply drain_congr
  rw [step_mid, step_mid, loop_absorb]

def DistinctRefs (es : List Entry) : Prop := es.Pairwise fun a b => a.ref ≠ b.ref

/-- From inside a block, the loader yields the block's entry and then exactly
    the remaining entries, and ends cleanly. -/
theorem drain_mid (es : List Entry) :
    ∀ (fuel : Nat) (e0 : Option LEntry) (p : LEntry) (cur : Nat),
      (∀ e ∈ es, e.recs ≠ []) → DistinctRefs es → (∀ e ∈ es, e.ref ≠ cur) →
      es.length + 2 ≤ fuel →
      drain fuel (Loader.mid e0 p cur (render es)) =
        (some p :: es.map (fun e => some e.loaded), .ok) := by
  induction es with
  | nil =>
    intro fuel e0 p cur _ _ _ hf
    obtain ⟨f, rfl⟩ : ∃ f, fuel = f + 2 := ⟨fuel - 2, by simp at hf; omega⟩
    have h1 : (Loader.mid e0 p cur (render [])).step =
        ({ err := .eof, e := some p, next := some p, cur := cur, rest := [] }, .yes) := by
      rw [step_mid]; exact loop_end e0 p cur
    rw [drain, h1]
    simp only
    rw [drain]
    simp [Loader.step, LErr.fin]
  | cons en es ih =>
    intro fuel e0 p cur hne hd hc hf
    obtain ⟨f, rfl⟩ : ∃ f, fuel = f + 1 := ⟨fuel - 1, by simp at hf; omega⟩
    obtain ⟨r, rs, hrs⟩ : ∃ r rs, en.recs = r :: rs := by
      have := hne en (by simp)
      cases h : en.recs with
      | nil => exact absurd h this
      | cons r rs => exact ⟨r, rs, rfl⟩
    have hd' : DistinctRefs es := (List.pairwise_cons.1 hd).2
    have hfirst : ∀ e ∈ es, e.ref ≠ en.ref := fun e he => fun h => (List.pairwise_cons.1 hd).1 e he h.symm
    have hstep : (Loader.mid e0 p cur (render (en :: es))).step =
        (Loader.mid (some p) ((LEntry.new (mkLine en r)).addRecs en.kind [r]) en.ref
          (rs.map (mkLine en) ++ render es), .yes) := by
      rw [step_mid, render_cons, hrs, List.map_cons, List.cons_append, loop_boundary _ _ _ _ _ _ (hc en (by simp))]
      rfl
    rw [drain, hstep]
    simp only
    rw [drain_absorb, loaded_eq en r rs hrs,
      ih f (some p) en.loaded en.ref (fun e he => hne e (by simp [he])) hd' hfirst (by simp at hf ⊢; omega)]
    simp [Loader.mid]

/-- Loading what `Store.Store` wrote for non-empty entries with distinct,
    non-Nil refs yields exactly those entries, in the order written. -/
theorem loadAll_render (es : List Entry) (hne : ∀ e ∈ es, e.recs ≠ []) (hd : DistinctRefs es)
    (h0 : ∀ e ∈ es, e.ref ≠ 0) :
    loadAll (render es) = (es.map (fun e => some e.loaded), .ok) := by
  cases es with
  | nil => rfl
  | cons en es =>
    obtain ⟨r, rs, hrs⟩ : ∃ r rs, en.recs = r :: rs := by
      have := hne en (by simp)
      cases h : en.recs with
      | nil => exact absurd h this
      | cons r rs => exact ⟨r, rs, rfl⟩
    have hd' : DistinctRefs es := (List.pairwise_cons.1 hd).2
    have hfirst : ∀ e ∈ es, e.ref ≠ en.ref := fun e he => fun h => (List.pairwise_cons.1 hd).1 e he h.symm
    have hstep : (Loader.init (render (en :: es))).step =
        (Loader.mid none en.loaded en.ref (render es)).step := by
      rw [step_mid]
      simp only [Loader.step, Loader.init]
      rw [render_cons, hrs, List.map_cons, List.cons_append]
      simp only [ne_eq, not_true_eq_false, if_false]
      rw [loop_first en r _ (h0 en (by simp)), loop_absorb, loaded_eq en r rs hrs]
    unfold loadAll
    rw [drain_congr _ _ _ hstep]
    have hlen := length_le_render (en :: es) hne
    exact drain_mid es _ none en.loaded en.ref (fun e he => hne e (by simp [he])) hd' hfirst
      (by simp at hlen ⊢; omega)

/-! ### `Next` true implies a non-nil `Entry` (the repaired defect), for every file -/

theorem loop_yes_entry (lines : List Line) :
    ∀ (e next : Option LEntry) (cur : Nat),
      (loop e next cur lines).2 = .yes → (loop e next cur lines).1.e.isSome = true := by
  induction lines with
  | nil => intro e next cur; cases next <;> simp [loop, boolOut]
  | cons ln rest ih =>
    intro e next cur
    rw [loop]
    by_cases hg : ln.body = .garbage
    · cases next <;> simp [hg, boolOut]
    · simp only [hg, if_false]
      split
      · split <;> simp
      · split
        · split
          · rename_i h; intro _; exact h
          · exact ih _ _ _
        · exact ih _ _ _

theorem step_yes_entry (l : Loader) (h : l.step.2 = .yes) : l.step.1.e.isSome = true := by
  unfold Loader.step at h ⊢
  by_cases he : l.err ≠ .none
  · simp [he] at h
  · simp only [he, if_false] at h ⊢
    exact loop_yes_entry _ _ _ _ h

theorem drain_all_some (n : Nat) : ∀ (l : Loader), ∀ x ∈ (drain n l).1, x.isSome = true := by
  induction n with
  | zero => intro l x hx; simp [drain] at hx
  | succ n ih =>
    intro l x hx
    rw [drain] at hx
    have hs := step_yes_entry l
    revert hx hs
    generalize l.step = st
    obtain ⟨l', o⟩ := st
    cases o with
    | yes =>
      intro hx hs
      simp only [List.mem_cons] at hx
      rcases hx with rfl | hx
      · exact hs rfl
      · exact ih l' x hx
    | no => intro hx _; simp at hx
    | panic => intro hx _; simp at hx

/-! ### The map order given to `Store.store` -/

theorem filter_ne_self (l : List Entry) (r : Nat) (h : ∀ x ∈ l, x.ref ≠ r) :
    l.filter (fun x => !(x.ref == r)) = l := by
  apply List.filter_eq_self.2
  intro x hx
  simp [h x hx]

theorem perm_cons_filter (l : List Entry) (e : Entry) (hd : DistinctRefs l) (he : e ∈ l) :
    (e :: l.filter (fun x => !(x.ref == e.ref))).Perm l := by
  induction l with
  | nil => simp at he
  | cons a l ih =>
    have hal : ∀ x ∈ l, a.ref ≠ x.ref := (List.pairwise_cons.1 hd).1
    have hd' : DistinctRefs l := (List.pairwise_cons.1 hd).2
    by_cases hae : a.ref = e.ref
    · have : e = a := by
        rcases List.mem_cons.1 he with h | h
        · exact h
        · exact absurd hae (hal e h)
      subst this
      have : (e :: l).filter (fun x => !(x.ref == e.ref)) = l := by
        simp only [List.filter, beq_self_eq_true, Bool.not_true]
        exact filter_ne_self l e.ref (fun x hx => (hal x hx).symm)
      rw [this]
    · have hel : e ∈ l := by
        rcases List.mem_cons.1 he with h | h
        · exact absurd (h ▸ rfl) hae
        · exact h
      have hb : (!(a.ref == e.ref)) = true := by simp [hae]
      simp only [List.filter, hb]
      exact (List.Perm.swap a e _).trans ((ih hd' hel).cons a)

theorem arrange_mem (order : List Nat) : ∀ (entries es : List Entry),
    arrange entries order = some es → ∀ x ∈ es, x ∈ entries := by
  induction order with
  | nil =>
    intro entries es h x hx
    simp only [arrange] at h
    split at h
    · cases h; simp at hx
    · cases h
  | cons r rs ih =>
    intro entries es h x hx
    simp only [arrange] at h
    split at h
    · cases h
    · rename_i e hf
      split at h
      · cases h
      · rename_i es' ha
        cases h
        rcases List.mem_cons.1 hx with rfl | hx
        · exact List.mem_of_find?_eq_some hf
        · exact (List.mem_filter.1 (ih _ _ ha x hx)).1

theorem arrange_perm (order : List Nat) : ∀ (entries es : List Entry), DistinctRefs entries →
    arrange entries order = some es → es.Perm entries := by
  induction order with
  | nil =>
    intro entries es _ h
    simp only [arrange] at h
    split at h
    · rename_i he
      cases h
      rw [List.isEmpty_iff.1 he]
    · cases h
  | cons r rs ih =>
    intro entries es hd h
    simp only [arrange] at h
    split at h
    · cases h
    · rename_i e hf
      split at h
      · cases h
      · rename_i es' ha
        cases h
        have hmem : e ∈ entries := List.mem_of_find?_eq_some hf
        have href : e.ref = r := by have := List.find?_some hf; simpa using this
        have hd' : DistinctRefs (entries.filter fun x => !(x.ref == r)) := List.Pairwise.filter _ hd
        have h1 := ih _ _ hd' ha
        subst href
        exact (h1.cons e).trans (perm_cons_filter entries e hd hmem)

/-- The insertion order is one possible map order (the hypothesis of the
    theorems about `Store.store` is satisfiable for every store). -/
theorem arrange_self (entries : List Entry) (hd : DistinctRefs entries) :
    arrange entries (entries.map (·.ref)) = some entries := by
  induction entries with
  | nil => rfl
  | cons a l ih =>
    have hal : ∀ x ∈ l, a.ref ≠ x.ref := (List.pairwise_cons.1 hd).1
    have hd' : DistinctRefs l := (List.pairwise_cons.1 hd).2
    have hf : (a :: l).filter (fun x => !(x.ref == a.ref)) = l := by
      simp only [List.filter, beq_self_eq_true, Bool.not_true]
      exact filter_ne_self l a.ref (fun x hx => (hal x hx).symm)
    simp only [List.map_cons, arrange, List.find?_cons, beq_self_eq_true, hf, ih hd']

theorem distinct_perm {l₁ l₂ : List Entry} (h : l₁.Perm l₂) (hd : DistinctRefs l₂) : DistinctRefs l₁ :=
  (h.pairwise_iff (fun hab => fun hba => hab hba.symm)).2 hd

/-- What is left in the map after `Store.Store` is a suffix of the order visited. -/
theorem storeOut_left_suffix (es : List Entry) : ∃ pre, es = pre ++ (storeOut es).2.1 := by
  induction es with
  | nil => exact ⟨[], rfl⟩
  | cons e es ih =>
    obtain ⟨pre, hpre⟩ := ih
    by_cases hok : (emitRecs e e.recs).2 = true
    · refine ⟨e :: pre, ?_⟩
      simp only [storeOut, hok, if_true, List.cons_append]
      rw [← hpre]
    · exact ⟨[e], by simp [storeOut, hok]⟩

/-! ### `Store.Store` with disk-buffer faults: the no-fault case is `storeOut` -/

theorem storeOutF_nil (es : List Entry) : storeOutF [] es = storeOut es := by
  induction es with
  | nil => rfl
  | cons e es ih => simp [storeOutF, storeOut, cutOf, emitCut, ih]

theorem storeF_nil (s : Store) (order : List Nat) : s.storeF order [] = s.store order := by
  simp [Store.storeF, Store.store, storeOutF_nil]

theorem storeOutF_left_suffix (faults : List (Nat × Nat)) (es : List Entry) :
    ∃ pre, es = pre ++ (storeOutF faults es).2.1 := by
  induction es with
  | nil => exact ⟨[], rfl⟩
  | cons e es ih =>
    obtain ⟨pre, hpre⟩ := ih
    by_cases hok : (emitCut e (cutOf faults e.ref)).2 = true
    · refine ⟨e :: pre, ?_⟩
      simp only [storeOutF, hok, if_true, List.cons_append]
      rw [← hpre]
    · exact ⟨[e], by simp [storeOutF, hok]⟩

/-! ### Histories -/

/-- What a recording call was given. -/
structure Update where
  kind : Kind
  updater : String
  fp : String
  recs : List Rec
deriving DecidableEq, Repr

def Entry.update (e : Entry) : Update := ⟨e.kind, e.updater, e.fp, e.recs⟩

/-- The `Entry` the loader should produce for a recorded update. -/
def Update.loaded (u : Update) : LEntry :=
  match u.kind with
  | .vuln => { updater := u.updater, fp := u.fp, vuln := u.recs }
  | .enrich => { updater := u.updater, fp := u.fp, enrich := u.recs }

theorem Entry.update_loaded (e : Entry) : e.update.loaded = e.loaded := by
  cases hk : e.kind <;> simp [Entry.update, Update.loaded, Entry.loaded, hk]

def Op.update? : Op → Option Update
  | .record k u f recs _ => some ⟨k, u, f, recs⟩
  | .delta u f recs _ _ => some ⟨.vuln, u, f, recs⟩
  | .store _ _ => none
  | .failed k u f recs => some ⟨k, u, f, recs⟩
  | .tear => none
  | .newfile => none

/-- A history of recording calls only (failed ones included). -/
def RecOnly (ops : List Op) : Prop := ∀ op ∈ ops, op.update?.isSome = true

/-- The updates of the recording calls that returned a ref, in call order. -/
def returned (w : World) : List Op → List Update
  | [] => []
  | op :: ops =>
    match (step w op).2, op.update? with
    | .ref _ _, some u => u :: returned (step w op).1 ops
    | _, _ => returned (step w op).1 ops

/-- Keys of the map are pairwise different and none is uuid.Nil. -/
structure Inv (w : World) : Prop where
  distinct : DistinctRefs w.store.entries
  nonNil : ∀ e ∈ w.store.entries, e.ref ≠ 0

theorem inv_init : Inv World.init := ⟨List.Pairwise.nil, by simp [World.init]⟩

theorem pickRef_spec (taken : Nat → Bool) (cands : List Nat) :
    ∀ (u r k : Nat), pickRef taken cands u = some (r, k) → taken r = false ∧ r ≠ 0 := by
  induction cands with
  | nil => intro u r k h; simp [pickRef] at h
  | cons c cs ih =>
    intro u r k h
    simp only [pickRef] at h
    split at h
    · exact ih _ _ _ h
    · rename_i ht
      cases h
      exact ⟨by simpa using ht, by simp [mkUuid]⟩

theorem record_entries (s : Store) (k : Kind) (u f : String) (recs : List Rec) (cands : List Nat) :
    (∃ r used, s.record k u f recs cands =
        ({ s with entries := s.entries ++ [⟨r, u, f, k, recs⟩],
                  latestV := if k = .vuln then r else s.latestV,
                  latestE := if k = .enrich then r else s.latestE }, some (r, used)) ∧
        s.hasRef r = false ∧ r ≠ 0) ∨
    s.record k u f recs cands = (s, none) := by
  unfold Store.record
  cases hp : pickRef s.hasRef cands 0 with
  | none => right; rfl
  | some p =>
    obtain ⟨r, used⟩ := p
    left
    refine ⟨r, used, ?_, pickRef_spec _ _ _ _ _ hp⟩
    cases k <;> simp

theorem inv_append (s : Store) (e : Entry) (hd : DistinctRefs s.entries)
    (h0 : ∀ x ∈ s.entries, x.ref ≠ 0) (hfresh : s.hasRef e.ref = false) (hr : e.ref ≠ 0) :
    DistinctRefs (s.entries ++ [e]) ∧ ∀ x ∈ s.entries ++ [e], x.ref ≠ 0 := by
  constructor
  · refine List.pairwise_append.2 ⟨hd, List.pairwise_singleton _ _, ?_⟩
    intro a ha b hb
    simp only [List.mem_singleton] at hb
    subst hb
    have := List.any_eq_false.1 hfresh a ha
    simpa using this
  · intro x hx
    rcases List.mem_append.1 hx with h | h
    · exact h0 x h
    · simp only [List.mem_singleton] at h; subst h; exact hr

theorem inv_step (w : World) (op : Op) (h : Inv w) : Inv (step w op).1 := by
  cases op with
  | record k u f recs cands =>
    simp only [step]
    rcases record_entries w.store k u f recs cands with ⟨r, used, he, hf, hr⟩ | he
    · rw [he]
      obtain ⟨h1, h2⟩ := inv_append w.store ⟨r, u, f, k, recs⟩ h.distinct h.nonNil hf hr
      exact ⟨h1, h2⟩
    · rw [he]; exact h
  | delta u f recs del cands =>
    simp only [step, Store.recordDelta]
    rcases record_entries w.store .vuln u f recs cands with ⟨r, used, he, hf, hr⟩ | he
    · rw [he]
      obtain ⟨h1, h2⟩ := inv_append w.store ⟨r, u, f, .vuln, recs⟩ h.distinct h.nonNil hf hr
      exact ⟨h1, h2⟩
    · rw [he]; exact h
  | store order faults =>
    simp only [step, Store.storeF]
    cases ha : arrange w.store.entries order with
    | none => exact h
    | some es =>
      have hperm := arrange_perm order _ _ h.distinct ha
      have hdes : DistinctRefs es := distinct_perm hperm h.distinct
      obtain ⟨pre, hpre⟩ := storeOutF_left_suffix faults es
      simp only
      constructor
      · show DistinctRefs (storeOutF faults es).2.1
        have : DistinctRefs (pre ++ (storeOutF faults es).2.1) := hpre ▸ hdes
        exact (List.pairwise_append.1 this).2.1
      · intro e he
        have he' : e ∈ (storeOutF faults es).2.1 := he
        have : e ∈ es := by rw [hpre]; exact List.mem_append_right _ he'
        exact h.nonNil e (hperm.mem_iff.1 this)
  | failed k u f recs => exact h
  | tear => exact ⟨h.distinct, h.nonNil⟩
  | newfile => exact ⟨h.distinct, h.nonNil⟩

theorem inv_run (ops : List Op) : Inv (Sm.run step World.init ops) :=
  Sm.invariant_run (Inv := Inv) (fun w op h => inv_step w op h) ops World.init inv_init

/-- Recording calls only add their update to the map and write nothing. -/
theorem run_recOnly (ops : List Op) : ∀ (w : World), RecOnly ops →
    (Sm.run step w ops).store.entries.map Entry.update =
      w.store.entries.map Entry.update ++ returned w ops ∧
    (Sm.run step w ops).out = w.out := by
  induction ops with
  | nil => intro w _; simp [returned]
  | cons op ops ih =>
    intro w hrec
    have hrec' : RecOnly ops := fun o ho => hrec o (by simp [ho])
    have hop := hrec op (by simp)
    obtain ⟨ih1, ih2⟩ := ih (step w op).1 hrec'
    simp only [Sm.run_cons, returned]
    rw [ih1, ih2]
    cases op with
    | record k u f recs cands =>
      simp only [step, Op.update?]
      rcases record_entries w.store k u f recs cands with ⟨r, used, he, _, _⟩ | he
      · rw [he]; simp [Entry.update]
      · rw [he]; simp
    | delta u f recs del cands =>
      simp only [step, Op.update?, Store.recordDelta]
      rcases record_entries w.store .vuln u f recs cands with ⟨r, used, he, _, _⟩ | he
      · rw [he]; simp [Entry.update]
      · rw [he]; simp
    | store order faults => simp [Op.update?] at hop
    | failed k u f recs => simp [step, Op.update?]
    | tear => simp [Op.update?] at hop
    | newfile => simp [Op.update?] at hop

/-- Store then Load after a history of recording calls: the loader yields, in
    the order the map was visited, exactly the non-empty recorded updates. -/
theorem store_load_general (ops : List Op) (hrec : RecOnly ops) (order : List Nat)
    (hfit : ∀ u ∈ returned World.init ops, ∀ r ∈ u.recs, r.fits = true)
    (s' : Store) (lines : List Line) (ok : Bool)
    (hst : (Sm.run step World.init ops).store.store order = some (s', lines, ok)) :
    ok = true ∧ s'.entries = [] ∧
    ∃ L : List Update, L.Perm ((returned World.init ops).filter fun u => !u.recs.isEmpty) ∧
      loadAll lines = (L.map (fun u => some u.loaded), .ok) := by
  have hinv := inv_run ops
  have hent : (Sm.run step World.init ops).store.entries.map Entry.update =
      returned World.init ops := by
    rw [(run_recOnly ops World.init hrec).1]
    exact List.nil_append _
  generalize Sm.run step World.init ops = w at hst hinv hent
  unfold Store.store at hst
  cases ha : arrange w.store.entries order with
  | none => simp [ha] at hst
  | some es =>
    have hperm := arrange_perm order _ _ hinv.distinct ha
    have hdes : DistinctRefs es := distinct_perm hperm hinv.distinct
    have hfit' : ∀ e ∈ es, e.AllFit := by
      intro e he r hr
      have : e.update ∈ returned World.init ops := by
        rw [← hent]; exact List.mem_map.2 ⟨e, hperm.mem_iff.1 he, rfl⟩
      exact hfit _ this r hr
    simp only [ha, storeOut_fits es hfit', Option.some.injEq, Prod.mk.injEq] at hst
    obtain ⟨hs', hl, hok⟩ := hst
    refine ⟨hok.symm, by rw [← hs'], (es.filter fun e => !e.recs.isEmpty).map Entry.update, ?_, ?_⟩
    · have h1 : ((es.filter fun e => !e.recs.isEmpty).map Entry.update).Perm
          ((w.store.entries.filter fun e => !e.recs.isEmpty).map Entry.update) :=
        (hperm.filter _).map _
      have h2 : (w.store.entries.filter fun e => !e.recs.isEmpty).map Entry.update =
          (w.store.entries.map Entry.update).filter fun u => !u.recs.isEmpty := by
        rw [List.filter_map]; rfl
      rw [h2, hent] at h1
      exact h1
    · rw [← hl, ← render_filter es]
      rw [loadAll_render _ (fun e he => by simpa using (List.mem_filter.1 he).2)
        (List.Pairwise.filter _ hdes)
        (fun e he => hinv.nonNil e (hperm.mem_iff.1 (List.mem_filter.1 he).1))]
      simp [List.map_map, Function.comp_def, Entry.update_loaded]

/-- Some map order always exists. -/
theorem store_order_exists (ops : List Op) :
    ∃ order s' lines ok, (Sm.run step World.init ops).store.store order = some (s', lines, ok) := by
  have hinv := inv_run ops
  refine ⟨(Sm.run step World.init ops).store.entries.map (·.ref), ?_⟩
  simp only [Store.store, arrange_self _ hinv.distinct]
  exact ⟨_, _, _, rfl⟩

/-! ### Several `Store` calls to one writer -/

theorem render_append (a b : List Entry) : render (a ++ b) = render a ++ render b := by
  simp [render]

/-- What a call must satisfy for `Store` never to fail: the records of a call
    that is recorded fit the scanner buffer, and no disk buffer is damaged when
    it is read back. -/
def Op.fitOk : Op → Prop
  | .record _ _ _ recs _ => ∀ r ∈ recs, r.fits = true
  | .delta _ _ recs _ _ => ∀ r ∈ recs, r.fits = true
  | .store _ faults => faults = []
  | .failed _ _ _ _ => True
  | .tear => False
  | .newfile => False

/-- Every recorded record fits the scanner buffer; every disk buffer reads back. -/
def FitOps (ops : List Op) : Prop := ∀ op ∈ ops, op.fitOk

/-- No recording call is handed a uuid that some line already written carries
    (uuid.New() never repeats a value it produced before an earlier flush). -/
def NoReuse (w : World) : List Op → Prop
  | [] => True
  | op :: ops =>
    (∀ r used, (step w op).2 = .ref r used → ∀ ln ∈ w.out, ln.ref ≠ r) ∧ NoReuse (step w op).1 ops

def nonEmpty (e : Entry) : Bool := !e.recs.isEmpty

/-- `F` are the non-empty entries flushed so far, in the order written. -/
structure Flushed (F : List Entry) (w : World) : Prop where
  out : w.out = render F
  ne : ∀ e ∈ F, e.recs ≠ []
  distinct : DistinctRefs (F ++ w.store.entries)
  nonNil : ∀ e ∈ F ++ w.store.entries, e.ref ≠ 0
  fit : ∀ e ∈ w.store.entries, e.AllFit

theorem mem_render_ref (F : List Entry) (e : Entry) (he : e ∈ F) (hne : e.recs ≠ []) :
    ∃ ln ∈ render F, ln.ref = e.ref := by
  obtain ⟨r, rs, hrs⟩ : ∃ r rs, e.recs = r :: rs := by
    cases h : e.recs with
    | nil => exact absurd h hne
    | cons r rs => exact ⟨r, rs, rfl⟩
  refine ⟨mkLine e r, ?_, rfl⟩
  simp only [render, List.mem_flatMap, List.mem_map]
  exact ⟨e, he, r, by simp [hrs], rfl⟩

theorem flushed_record (F : List Entry) (w : World) (k : Kind) (u f : String) (recs : List Rec)
    (cands : List Nat) (h : Flushed F w) (hfit : ∀ r ∈ recs, r.fits = true)
    (hnr : ∀ r used, (step w (.record k u f recs cands)).2 = .ref r used → ∀ ln ∈ w.out, ln.ref ≠ r) :
    Flushed F (step w (.record k u f recs cands)).1 ∧
    ((F ++ (step w (.record k u f recs cands)).1.store.entries.filter nonEmpty).map Entry.update =
      (F ++ w.store.entries.filter nonEmpty).map Entry.update ++
        (returned w [.record k u f recs cands]).filter fun u => !u.recs.isEmpty) := by
  simp only [step, returned, Op.update?] at hnr ⊢
  rcases record_entries w.store k u f recs cands with ⟨r, used, he, hf, hr⟩ | he
  · rw [he] at hnr ⊢
    simp only at hnr ⊢
    have hnotF : ∀ a ∈ F, a.ref ≠ r := by
      intro a ha hab
      obtain ⟨ln, hln, hlr⟩ := mem_render_ref F a ha (h.ne a ha)
      exact hnr r used rfl ln (h.out ▸ hln) (hlr.trans hab)
    have hnotE : ∀ a ∈ w.store.entries, a.ref ≠ r := by
      intro a ha
      have := List.any_eq_false.1 hf a ha
      simpa using this
    refine ⟨⟨h.out, h.ne, ?_, ?_, ?_⟩, ?_⟩
    · rw [← List.append_assoc]
      refine List.pairwise_append.2 ⟨h.distinct, List.pairwise_singleton _ _, ?_⟩
      intro a ha b hb
      simp only [List.mem_singleton] at hb
      subst hb
      rcases List.mem_append.1 ha with h1 | h1
      · exact hnotF a h1
      · exact hnotE a h1
    · intro e hmem
      rw [← List.append_assoc] at hmem
      rcases List.mem_append.1 hmem with h1 | h1
      · exact h.nonNil e h1
      · simp only [List.mem_singleton] at h1; subst h1; exact hr
    · intro e hmem
      rcases List.mem_append.1 hmem with h1 | h1
      · exact h.fit e h1
      · simp only [List.mem_singleton] at h1; subst h1; exact hfit
    · by_cases hre : recs = []
      · simp [List.filter_append, nonEmpty, hre, List.filter]
      · have hb : (!recs.isEmpty) = true := by simp [hre]
        simp [List.filter_append, nonEmpty, hb, List.filter, Entry.update]
  · rw [he] at hnr ⊢
    simp only
    exact ⟨h, by simp [List.filter]⟩

theorem flushed_store (F : List Entry) (w : World) (order : List Nat) (h : Flushed F w) :
    ∃ F', Flushed F' (step w (.store order [])).1 ∧
      ((F' ++ (step w (.store order [])).1.store.entries.filter nonEmpty).map Entry.update).Perm
        ((F ++ w.store.entries.filter nonEmpty).map Entry.update) := by
  simp only [step, storeF_nil, Store.store]
  have hdE : DistinctRefs w.store.entries := (List.pairwise_append.1 h.distinct).2.1
  cases ha : arrange w.store.entries order with
  | none => exact ⟨F, h, List.Perm.refl _⟩
  | some es =>
    have hperm := arrange_perm order _ _ hdE ha
    have hfit : ∀ e ∈ es, e.AllFit := fun e he => h.fit e (hperm.mem_iff.1 he)
    simp only [storeOut_fits es hfit]
    have hsub : (F ++ es.filter nonEmpty).Sublist (F ++ es) :=
      List.Sublist.append (List.Sublist.refl F) List.filter_sublist
    have hpermF : (F ++ es).Perm (F ++ w.store.entries) := hperm.append_left F
    refine ⟨F ++ es.filter nonEmpty, ⟨?_, ?_, ?_, ?_, ?_⟩, ?_⟩
    · show w.out ++ render es = render (F ++ es.filter nonEmpty)
      rw [render_append, h.out]
      have : render (es.filter nonEmpty) = render es := render_filter es
      rw [this]
    · intro e he
      rcases List.mem_append.1 he with h1 | h1
      · exact h.ne e h1
      · have := (List.mem_filter.1 h1).2
        simpa [nonEmpty] using this
    · simp only [List.append_nil]
      exact List.Pairwise.sublist hsub (distinct_perm hpermF h.distinct)
    · intro e he
      simp only [List.append_nil] at he
      exact h.nonNil e (hpermF.mem_iff.1 (hsub.subset he))
    · intro e he; simp at he
    · simp only [List.filter_nil, List.append_nil]
      exact ((hperm.filter nonEmpty).append_left F).map _

/-- Invariant of arbitrary histories with any number of flushes. -/
theorem flushed_run (ops : List Op) : ∀ (w : World) (F : List Entry), Flushed F w → FitOps ops →
    NoReuse w ops →
    ∃ F', Flushed F' (Sm.run step w ops) ∧
      ((F' ++ (Sm.run step w ops).store.entries.filter nonEmpty).map Entry.update).Perm
        ((F ++ w.store.entries.filter nonEmpty).map Entry.update ++
          (returned w ops).filter fun u => !u.recs.isEmpty) := by
  induction ops with
  | nil => intro w F h _ _; exact ⟨F, h, by simp [returned]⟩
  | cons op ops ih =>
    intro w F h hfit hnr
    have hfit' : FitOps ops := fun o ho => hfit o (by simp [ho])
    obtain ⟨hnr1, hnr2⟩ := hnr
    have key : ∃ F1, Flushed F1 (step w op).1 ∧
        ((F1 ++ (step w op).1.store.entries.filter nonEmpty).map Entry.update).Perm
          ((F ++ w.store.entries.filter nonEmpty).map Entry.update ++
            (returned w [op]).filter fun u => !u.recs.isEmpty) := by
      cases op with
      | record k u f recs cands =>
        obtain ⟨h1, h2⟩ := flushed_record F w k u f recs cands h
          (hfit (.record k u f recs cands) (by simp)) hnr1
        exact ⟨F, h1, by rw [h2]⟩
      | delta u f recs del cands =>
        have hd : step w (.delta u f recs del cands) = step w (.record .vuln u f recs cands) := by
          simp [step, Store.recordDelta]
        have hr : returned w [.delta u f recs del cands] = returned w [.record .vuln u f recs cands] := by
          simp [returned, hd, Op.update?]
        rw [hd, hr]
        obtain ⟨h1, h2⟩ := flushed_record F w .vuln u f recs cands h
          (hfit (.delta u f recs del cands) (by simp)) (by rw [← hd]; exact hnr1)
        exact ⟨F, h1, by rw [h2]⟩
      | store order faults =>
        have hf0 : faults = [] := hfit (.store order faults) (by simp)
        subst hf0
        obtain ⟨F', h1, h2⟩ := flushed_store F w order h
        exact ⟨F', h1, by simpa [returned, Op.update?] using h2⟩
      | failed k u f recs =>
        exact ⟨F, h, by simp [step, returned, Op.update?]⟩
      | tear => exact absurd (hfit .tear (by simp)) (by simp [Op.fitOk])
      | newfile => exact absurd (hfit .newfile (by simp)) (by simp [Op.fitOk])
    obtain ⟨F1, hF1, hp1⟩ := key
    obtain ⟨F', hF', hp'⟩ := ih (step w op).1 F1 hF1 hfit' hnr2
    refine ⟨F', hF', ?_⟩
    simp only [Sm.run_cons]
    refine hp'.trans ?_
    have hret : (returned w (op :: ops)) = returned w [op] ++ returned (step w op).1 ops := by
      simp only [returned]
      split <;> simp
    rw [hret, List.filter_append, ← List.append_assoc]
    exact hp1.append_right _

theorem flushed_init : Flushed [] World.init :=
  ⟨rfl, by simp, List.Pairwise.nil, by simp [World.init], by simp [World.init]⟩

/-- Loading everything written by any number of `Store` calls. -/
theorem multi_flush_general (ops : List Op) (hfit : FitOps ops) (hnr : NoReuse World.init ops) :
    ∃ L : List Update,
      loadAll (Sm.run step World.init ops).out = (L.map (fun u => some u.loaded), .ok) ∧
      (L ++ ((Sm.run step World.init ops).store.entries.filter nonEmpty).map Entry.update).Perm
        ((returned World.init ops).filter fun u => !u.recs.isEmpty) := by
  obtain ⟨F, hF, hp⟩ := flushed_run ops World.init [] flushed_init hfit hnr
  refine ⟨F.map Entry.update, ?_, ?_⟩
  · rw [hF.out, loadAll_render F hF.ne (List.pairwise_append.1 hF.distinct).1
      (fun e he => hF.nonNil e (List.mem_append_left _ he))]
    simp [List.map_map, Function.comp_def, Entry.update_loaded]
  · simpa [World.init] using hp

end ClairModel.JsonBlob
