import ClairModel.Model.JsonBlob

namespace ClairModel.JsonBlob

end ClairModel.JsonBlob
