/-
  C01 — lemmas for the composition theorem index = scan ∘ flatten
  (Model/LayerFS.lean).  Core Lean only.
-/
import ClairModel.Model.LayerFS
import ClairModel.Proofs.Coalesce
import ClairModel.Proofs.PathsC01

namespace ClairModel.LayerFS
open ClairModel.Coalesce

/-! ### `present`: the newest layer holding the file decides, unless a newer layer hides it -/

theorem presentRev_some_iff (ls : List FSLayer) (q c : String) :
    presentRev ls q = some c ↔
      ∃ newer l older, ls = newer ++ l :: older ∧ fileOf l q = some c ∧
        ∀ l' ∈ newer, fileOf l' q = none ∧ hides l' q = false := by
  induction ls with
  | nil => simp [presentRev]
  | cons l0 rest ih =>
    simp only [presentRev]
    cases hf : fileOf l0 q with
    | some c0 =>
      simp only [Option.some.injEq]
      constructor
      · intro h; subst h
        exact ⟨[], l0, rest, rfl, hf, by simp⟩
      · rintro ⟨newer, l, older, h1, h2, h3⟩
        cases newer with
        | nil =>
          simp only [List.nil_append, List.cons.injEq] at h1
          rw [← h1.1, hf] at h2; exact Option.some.inj h2
        | cons x n' =>
          simp only [List.cons_append, List.cons.injEq] at h1
          have := (h3 x List.mem_cons_self).1
          rw [← h1.1, hf] at this; simp at this
    | none =>
      simp only
      by_cases hh : hides l0 q = true
      · simp only [hh, if_true]
        constructor
        · intro h; simp at h
        · rintro ⟨newer, l, older, h1, h2, h3⟩
          cases newer with
          | nil =>
            simp only [List.nil_append, List.cons.injEq] at h1
            rw [← h1.1, hf] at h2; simp at h2
          | cons x n' =>
            simp only [List.cons_append, List.cons.injEq] at h1
            have := (h3 x List.mem_cons_self).2
            rw [← h1.1, hh] at this; simp at this
      · simp only [hh, Bool.false_eq_true, if_false]
        rw [ih]
        constructor
        · rintro ⟨newer, l, older, h1, h2, h3⟩
          refine ⟨l0 :: newer, l, older, by simp [h1], h2, ?_⟩
          intro l' hl'
          rcases List.mem_cons.1 hl' with h | h
          · subst h; exact ⟨hf, by simpa using hh⟩
          · exact h3 l' h
        · rintro ⟨newer, l, older, h1, h2, h3⟩
          cases newer with
          | nil =>
            simp only [List.nil_append, List.cons.injEq] at h1
            rw [← h1.1, hf] at h2; simp at h2
          | cons x n' =>
            simp only [List.cons_append, List.cons.injEq] at h1
            exact ⟨n', l, older, h1.2, h2, fun l' hl' => h3 l' (List.mem_cons_of_mem _ hl')⟩

/-- `present`, in application order: some layer has the file and no later layer rewrites or hides it. -/
theorem present_some_iff (layers : List FSLayer) (q c : String) :
    present layers q = some c ↔
      ∃ pre l post, layers = pre ++ l :: post ∧ fileOf l q = some c ∧
        ∀ l' ∈ post, fileOf l' q = none ∧ hides l' q = false := by
  unfold present
  rw [presentRev_some_iff]
  constructor
  · rintro ⟨newer, l, older, h1, h2, h3⟩
    refine ⟨older.reverse, l, newer.reverse, ?_, h2, fun l' hl' => h3 l' (List.mem_reverse.1 hl')⟩
    have := congrArg List.reverse h1
    simpa using this
  · rintro ⟨pre, l, post, h1, h2, h3⟩
    refine ⟨post.reverse, l, pre.reverse, ?_, h2, fun l' hl' => h3 l' (List.mem_reverse.1 hl')⟩
    rw [h1]; simp

theorem fileOf_some {l : FSLayer} {q c : String} (h : fileOf l q = some c) :
    (q, Entry.file c) ∈ l.entries ∧ isWhiteout q = false := by
  unfold fileOf at h
  cases hf : l.entries.find? (fun e => e.1 = q) with
  | none => simp [hf] at h
  | some e =>
    obtain ⟨p, en⟩ := e
    have hp : p = q := by simpa using List.find?_some hf
    have hm := List.mem_of_find?_eq_some hf
    subst hp
    cases en with
    | dir => simp [hf] at h
    | file c0 =>
      simp only [hf] at h
      by_cases hw : isWhiteout p = true
      · simp [hw] at h
      · simp only [hw, Bool.false_eq_true, if_false, Option.some.injEq] at h
        subst h
        exact ⟨hm, by simpa using hw⟩

theorem mem_dedup (x : String) (xs : List String) : x ∈ dedup xs ↔ x ∈ xs := by
  induction xs with
  | nil => simp [dedup]
  | cons y ys ih =>
    simp only [dedup]
    by_cases h : ys.contains y = true
    · simp only [h, if_true, ih, List.mem_cons]
      constructor
      · intro hx; exact Or.inr hx
      · rintro (hx | hx)
        · subst hx; simpa using h
        · exact hx
    · simp only [h, Bool.false_eq_true, if_false, List.mem_cons, ih]

theorem mem_flatten_iff (layers : List FSLayer) (q c : String) :
    (q, c) ∈ flatten layers ↔ present layers q = some c := by
  unfold flatten
  rw [List.mem_filterMap]
  constructor
  · rintro ⟨q', _, h⟩
    cases hp : present layers q' with
    | none => simp [hp] at h
    | some c' => simp [hp] at h; rw [← h.1, ← h.2]; exact hp
  · intro h
    refine ⟨q, ?_, by simp [h]⟩
    obtain ⟨pre, l, post, h1, h2, _⟩ := (present_some_iff layers q c).1 h
    unfold filePaths
    rw [mem_dedup, List.mem_flatMap]
    refine ⟨l, by rw [h1]; simp, ?_⟩
    rw [List.mem_filterMap]
    exact ⟨(q, Entry.file c), (fileOf_some h2).1, rfl⟩

/-! ### layer order: `layerSorter` on a manifest without duplicate digests -/

theorem sorterGo_notin (h : String) (l : List String) (i acc : Nat) (hn : h ∉ l) : sorterIdx.go h l i acc = acc := by
  induction l generalizing i acc with
  | nil => rfl
  | cons x l ih =>
    simp only [sorterIdx.go]
    have hx : ¬ x = h := fun e => hn (e ▸ List.mem_cons_self)
    simp only [hx, if_false]
    exact ih _ _ (fun hm => hn (List.mem_cons_of_mem _ hm))

theorem sorterGo_split (h : String) (pre post : List String) (i acc : Nat) (hn : h ∉ post) :
    sorterIdx.go h (pre ++ h :: post) i acc = i + pre.length := by
  induction pre generalizing i acc with
  | nil =>
    simp only [List.nil_append, sorterIdx.go, if_true, List.length_nil, Nat.add_zero]
    exact sorterGo_notin h post _ _ hn
  | cons x pre ih =>
    simp only [List.cons_append, sorterIdx.go, List.length_cons]
    rw [ih]; omega

theorem sorterIdx_split (h : String) (pre post : List String) (hn : h ∉ post) :
    sorterIdx (pre ++ h :: post) h = pre.length := by
  unfold sorterIdx; rw [sorterGo_split h pre post 0 0 hn]; simp

theorem exists_last_occurrence {a : String} {l : List String} (h : a ∈ l) : ∃ p1 p2, l = p1 ++ a :: p2 ∧ a ∉ p2 := by
  induction l with
  | nil => simp at h
  | cons x l ih =>
    by_cases hl : a ∈ l
    · obtain ⟨p1, p2, h1, h2⟩ := ih hl
      exact ⟨x :: p1, p2, by simp [h1], h2⟩
    · rcases List.mem_cons.1 h with h1 | h1
      · subst h1; exact ⟨[], l, rfl, hl⟩
      · exact absurd h1 hl

/-- a layer after the last occurrence of `b` is a child of `b` … -/
theorem later_of_mem_post {pre post : List String} {a b : String} (hb : b ∉ post) (ha : a ∈ post) :
    sorterIdx (pre ++ b :: post) a > sorterIdx (pre ++ b :: post) b := by
  obtain ⟨p1, p2, hp, ha2⟩ := exists_last_occurrence ha
  have hbi : sorterIdx (pre ++ b :: post) b = pre.length := sorterIdx_split b pre post hb
  have : pre ++ b :: post = (pre ++ b :: p1) ++ a :: p2 := by rw [hp]; simp
  rw [hbi, this, sorterIdx_split a _ p2 ha2]
  simp

/-- … and `b` itself, or a layer before it that does not occur again later, is not. -/
theorem not_later_of_mem_pre {pre post : List String} {a b : String} (hb : b ∉ post) (ha2 : a ∉ post)
    (ha : a ∈ pre ∨ a = b) :
    ¬ sorterIdx (pre ++ b :: post) a > sorterIdx (pre ++ b :: post) b := by
  have hbi : sorterIdx (pre ++ b :: post) b = pre.length := sorterIdx_split b pre post hb
  by_cases hab : a = b
  · subst hab; omega
  · rcases ha with ha | ha
    · obtain ⟨p1, p2, hp, hp2⟩ := exists_last_occurrence ha
      have hnot : a ∉ p2 ++ b :: post := by
        intro hm
        rcases List.mem_append.1 hm with h | h
        · exact hp2 h
        · rcases List.mem_cons.1 h with h | h
          · exact hab h
          · exact ha2 h
      have : pre ++ b :: post = p1 ++ a :: (p2 ++ b :: post) := by rw [hp]; simp
      rw [hbi, this, sorterIdx_split a p1 _ hnot, hp]
      simp
    · exact absurd ha hab

theorem count_one_split {hs pre post : List String} {h : String} (hdec : hs = pre ++ h :: post)
    (hc : hs.count h = 1) : h ∉ pre ∧ h ∉ post := by
  rw [hdec, List.count_append, List.count_cons_self] at hc
  have h1 : List.count h pre = 0 := by omega
  have h2 : List.count h post = 0 := by omega
  exact ⟨List.count_eq_zero.1 h1, List.count_eq_zero.1 h2⟩

/-! ### the language coalescer, exactly: per id, the last layer (with a repository) holding it -/

def lastPkg (id : String) : List Pkg → Option Pkg
  | [] => none
  | p :: rest =>
    match lastPkg id rest with
    | some x => some x
    | none => if p.id = id then some p else none

def lastLang (id : String) : List Layer → Option (Layer × Pkg)
  | [] => none
  | a :: rest =>
    match lastLang id rest with
    | some x => some x
    | none => if a.repos.isEmpty then none else (lastPkg id a.pkgs).map fun p => (a, p)

theorem lastPkg_some {id : String} {pkgs : List Pkg} {p : Pkg} (h : lastPkg id pkgs = some p) : p ∈ pkgs ∧ p.id = id := by
  induction pkgs with
  | nil => simp [lastPkg] at h
  | cons q rest ih =>
    simp only [lastPkg] at h
    cases hr : lastPkg id rest with
    | some x =>
      simp only [hr, Option.some.injEq] at h; subst h
      exact ⟨List.mem_cons_of_mem _ (ih hr).1, (ih hr).2⟩
    | none =>
      simp only [hr] at h
      by_cases hq : q.id = id
      · simp only [hq, if_true, Option.some.injEq] at h; subst h; exact ⟨List.mem_cons_self, hq⟩
      · simp [hq] at h

theorem lastPkg_none {id : String} {pkgs : List Pkg} : lastPkg id pkgs = none ↔ ∀ p ∈ pkgs, p.id ≠ id := by
  induction pkgs with
  | nil => simp [lastPkg]
  | cons q rest ih =>
    simp only [lastPkg]
    cases hr : lastPkg id rest with
    | some x =>
      simp only [reduceCtorEq, false_iff]
      intro hall
      have := ih.2 (fun p hp => hall p (List.mem_cons_of_mem _ hp))
      rw [hr] at this; simp at this
    | none =>
      simp only
      have hrest := ih.1 hr
      by_cases hq : q.id = id
      · simp only [hq, if_true, reduceCtorEq, false_iff]
        intro hall; exact hall q List.mem_cons_self hq
      · simp only [hq, if_false, true_iff]
        intro p hp
        rcases List.mem_cons.1 hp with h | h
        · subst h; exact hq
        · exact hrest p h

theorem lastLang_some {id : String} {arts : List Layer} {a : Layer} {p : Pkg} (h : lastLang id arts = some (a, p)) :
    ∃ pre post, arts = pre ++ a :: post ∧ a.repos.isEmpty = false ∧ lastPkg id a.pkgs = some p ∧
      lastLang id post = none := by
  induction arts with
  | nil => simp [lastLang] at h
  | cons b rest ih =>
    simp only [lastLang] at h
    cases hr : lastLang id rest with
    | some x =>
      simp only [hr, Option.some.injEq] at h; subst h
      obtain ⟨pre, post, h1, h2, h3, h4⟩ := ih hr
      exact ⟨b :: pre, post, by simp [h1], h2, h3, h4⟩
    | none =>
      simp only [hr] at h
      by_cases hb : b.repos.isEmpty = true
      · simp [hb] at h
      · simp only [hb, Bool.false_eq_true, if_false] at h
        cases hl : lastPkg id b.pkgs with
        | none => simp [hl] at h
        | some q =>
          simp only [hl, Option.map_some, Option.some.injEq, Prod.mk.injEq] at h
          obtain ⟨h1, h2⟩ := h; subst h1; subst h2
          exact ⟨[], rest, rfl, by simpa using hb, hl, hr⟩

theorem lastLang_none {id : String} {arts : List Layer} :
    lastLang id arts = none ↔ ∀ a ∈ arts, a.repos.isEmpty = true ∨ lastPkg id a.pkgs = none := by
  induction arts with
  | nil => simp [lastLang]
  | cons b rest ih =>
    simp only [lastLang]
    cases hr : lastLang id rest with
    | some x =>
      simp only [reduceCtorEq, false_iff]
      intro hall
      have := ih.2 (fun a ha => hall a (List.mem_cons_of_mem _ ha))
      rw [hr] at this; simp at this
    | none =>
      simp only
      have hrest := ih.1 hr
      by_cases hb : b.repos.isEmpty = true
      · simp only [hb, if_true, true_iff]
        intro a ha
        rcases List.mem_cons.1 ha with h | h
        · subst h; exact Or.inl hb
        · exact hrest a h
      · simp only [hb, Bool.false_eq_true, if_false]
        cases hl : lastPkg id b.pkgs with
        | none =>
          simp only [Option.map_none, true_iff]
          intro a ha
          rcases List.mem_cons.1 ha with h | h
          · subst h; exact Or.inr hl
          · exact hrest a h
        | some q =>
          simp only [Option.map_some, reduceCtorEq, false_iff]
          intro hall
          rcases hall b List.mem_cons_self with h | h
          · exact hb h
          · rw [hl] at h; simp at h

theorem langLayerPkgs_get (a : Layer) (rs : List String) (pkgs : List Pkg) (ir : Report) (id : String) :
    aget id (langLayerPkgs a rs pkgs ir).envs =
      (match lastPkg id pkgs with
       | some p => some [{ db := p.db, intro := a.hash, repoIds := rs }]
       | none => aget id ir.envs) ∧
    aget id (langLayerPkgs a rs pkgs ir).pkgs =
      (match lastPkg id pkgs with
       | some p => some p
       | none => aget id ir.pkgs) := by
  induction pkgs generalizing ir with
  | nil => simp [langLayerPkgs, lastPkg]
  | cons p rest ih =>
    simp only [langLayerPkgs, lastPkg]
    obtain ⟨h1, h2⟩ := ih (ir.setPkgEnv p { db := p.db, intro := a.hash, repoIds := rs })
    rw [h1, h2]
    cases hr : lastPkg id rest with
    | some x => simp
    | none =>
      simp only [Report.setPkgEnv, aget_aset]
      by_cases hq : p.id = id <;> simp [hq]

/-- the environment the language coalescers build for package `p` of layer `a` -/
def langEnv (a : Layer) (p : Pkg) : Env := { db := p.db, intro := a.hash, repoIds := a.repos.map (·.id) }

theorem langFold_get (arts : List Layer) (ir : Report) (id : String) :
    aget id (langFold arts ir).envs =
      (match lastLang id arts with
       | some (a, p) => some [langEnv a p]
       | none => aget id ir.envs) ∧
    aget id (langFold arts ir).pkgs =
      (match lastLang id arts with
       | some (_, p) => some p
       | none => aget id ir.pkgs) := by
  induction arts generalizing ir with
  | nil => simp [langFold, lastLang]
  | cons a rest ih =>
    simp only [langFold, lastLang]
    by_cases hb : a.repos.isEmpty = true
    · simp only [hb, if_true]
      obtain ⟨h1, h2⟩ := ih ir
      rw [h1, h2]
      cases hr : lastLang id rest with
      | some x => simp
      | none => simp
    · simp only [hb, Bool.false_eq_true, if_false]
      obtain ⟨h1, h2⟩ := ih (langLayerPkgs a (a.repos.map (·.id)) a.pkgs { ir with repos := setRepos a.repos ir.repos })
      rw [h1, h2]
      cases hr : lastLang id rest with
      | some x => simp
      | none =>
        obtain ⟨g1, g2⟩ := langLayerPkgs_get a (a.repos.map (·.id)) a.pkgs { ir with repos := setRepos a.repos ir.repos } id
        simp only [g1, g2]
        cases hl : lastPkg id a.pkgs with
        | some q => simp [langEnv]
        | none => simp

theorem keysUniq_langLayerPkgs (a : Layer) (rs : List String) (pkgs : List Pkg) (ir : Report)
    (h1 : KeysUniq ir.envs) (h2 : KeysUniq ir.pkgs) :
    KeysUniq (langLayerPkgs a rs pkgs ir).envs ∧ KeysUniq (langLayerPkgs a rs pkgs ir).pkgs := by
  induction pkgs generalizing ir with
  | nil => exact ⟨h1, h2⟩
  | cons p rest ih =>
    simp only [langLayerPkgs]
    exact ih _ (keysUniq_aset _ _ h1) (keysUniq_aset _ _ h2)

theorem keysUniq_langFold (arts : List Layer) (ir : Report) (h1 : KeysUniq ir.envs) (h2 : KeysUniq ir.pkgs) :
    KeysUniq (langFold arts ir).envs ∧ KeysUniq (langFold arts ir).pkgs := by
  induction arts generalizing ir with
  | nil => exact ⟨h1, h2⟩
  | cons a rest ih =>
    simp only [langFold]
    by_cases hb : a.repos.isEmpty = true
    · simp only [hb, if_true]; exact ih ir h1 h2
    · simp only [hb, Bool.false_eq_true, if_false]
      obtain ⟨g1, g2⟩ := keysUniq_langLayerPkgs a (a.repos.map (·.id)) a.pkgs { ir with repos := setRepos a.repos ir.repos } h1 h2
      exact ih _ g1 g2

/-! ### the whiteout coalescer's `Files` map -/

def whFold (arts : List Layer) (m : List (String × File)) : List (String × File) :=
  arts.foldl (fun m a => a.files.foldl (fun m f => aset a.hash f m) m) m

theorem whInner_mem {h : String} {fs : List File} {m : List (String × File)} {k : String} {f : File}
    (hm : (k, f) ∈ fs.foldl (fun m f => aset h f m) m) : (k, f) ∈ m ∨ (k = h ∧ f ∈ fs) := by
  induction fs generalizing m with
  | nil => exact Or.inl hm
  | cons x fs ih =>
    simp only [List.foldl_cons] at hm
    rcases ih hm with h1 | ⟨h1, h2⟩
    · rcases mem_aset h1 with ⟨hk, hv⟩ | h3
      · right; exact ⟨hk, by rw [hv]; exact List.mem_cons_self⟩
      · exact Or.inl h3
    · right; exact ⟨h1, List.mem_cons_of_mem _ h2⟩

/-- every entry of `Files` is a whiteout some layer's scan reported, stored under that layer's digest -/
theorem whFold_mem {arts : List Layer} {m : List (String × File)} {k : String} {f : File}
    (hm : (k, f) ∈ whFold arts m) : (k, f) ∈ m ∨ ∃ a ∈ arts, a.hash = k ∧ f ∈ a.files := by
  unfold whFold at hm
  induction arts generalizing m with
  | nil => exact Or.inl hm
  | cons a rest ih =>
    simp only [List.foldl_cons] at hm
    rcases ih hm with h1 | ⟨b, hb, h2, h3⟩
    · rcases whInner_mem h1 with h4 | ⟨h4, h5⟩
      · exact Or.inl h4
      · right; exact ⟨a, List.mem_cons_self, h4.symm, h5⟩
    · right; exact ⟨b, List.mem_cons_of_mem _ hb, h2, h3⟩

theorem whInner_get_ne {h k : String} {fs : List File} {m : List (String × File)} (hne : h ≠ k) :
    aget k (fs.foldl (fun m f => aset h f m) m) = aget k m := by
  induction fs generalizing m with
  | nil => rfl
  | cons x fs ih => simp only [List.foldl_cons]; rw [ih, aget_aset_ne hne]

theorem whFold_get_ne {arts : List Layer} {m : List (String × File)} {k : String} (hne : ∀ a ∈ arts, a.hash ≠ k) :
    aget k (whFold arts m) = aget k m := by
  unfold whFold
  induction arts generalizing m with
  | nil => rfl
  | cons a rest ih =>
    simp only [List.foldl_cons]
    rw [ih (fun b hb => hne b (List.mem_cons_of_mem _ hb)), whInner_get_ne (hne a List.mem_cons_self)]

/-- a layer with exactly one whiteout, in a manifest without duplicate digests, keeps it -/
theorem whFold_single {pre post : List Layer} {a : Layer} {f : File} (m : List (String × File))
    (hf : a.files = [f]) (hpost : ∀ b ∈ post, b.hash ≠ a.hash) :
    (a.hash, f) ∈ whFold (pre ++ a :: post) m := by
  apply mem_of_aget
  unfold whFold
  rw [List.foldl_append, List.foldl_cons]
  have := whFold_get_ne (arts := post) (m := a.files.foldl (fun m f => aset a.hash f m)
    (pre.foldl (fun m a => a.files.foldl (fun m f => aset a.hash f m) m) m)) hpost
  unfold whFold at this
  rw [this, hf]
  simp [aget_aset_self]

/-! ### MergeSR, exactly -/

theorem keysUniq_foldl_aset {β : Type} (xs : List (String × β)) (m : List (String × β)) (h : KeysUniq m) :
    KeysUniq (xs.foldl (fun m e => aset e.1 e.2 m) m) := by
  induction xs generalizing m with
  | nil => exact h
  | cons x xs ih => exact ih _ (keysUniq_aset _ _ h)

theorem keysUniq_foldl_aappend {β : Type} (xs : List (String × List β)) (m : List (String × List β)) (h : KeysUniq m) :
    KeysUniq (xs.foldl (fun m e => aappend e.1 e.2 m) m) := by
  induction xs generalizing m with
  | nil => exact h
  | cons x xs ih => exact ih _ (keysUniq_aset _ _ h)

/-- the three maps of a report the composition theorem looks at have unique keys -/
structure Uniq (r : Report) : Prop where
  pkgs : KeysUniq r.pkgs
  envs : KeysUniq r.envs
  files : KeysUniq r.files

theorem uniq_empty : Uniq {} := ⟨trivial, trivial, trivial⟩

theorem uniq_mergeOne {src ir : Report} (h : Uniq src) : Uniq (mergeOne src ir) :=
  ⟨keysUniq_foldl_aset _ _ h.pkgs, keysUniq_foldl_aappend _ _ h.envs, keysUniq_foldl_aset _ _ h.files⟩

theorem uniq_mergeSR (rs : List Report) (src : Report) (h : Uniq src) : Uniq (mergeSR src rs) := by
  unfold mergeSR
  induction rs generalizing src with
  | nil => exact h
  | cons r rs ih => exact ih _ (uniq_mergeOne h)

/-- an environment of the merged report comes from the source report or from one of the merged ones, and conversely -/
theorem mergeSR_envs (rs : List Report) (src : Report) (hu : KeysUniq src.envs) (id : String) (e : Env) :
    (∃ ws, aget id (mergeSR src rs).envs = some ws ∧ e ∈ ws) ↔
      (∃ es, aget id src.envs = some es ∧ e ∈ es) ∨ ∃ r ∈ rs, ∃ es, (id, es) ∈ r.envs ∧ e ∈ es := by
  unfold mergeSR
  induction rs generalizing src with
  | nil => simp
  | cons r rs ih =>
    simp only [List.foldl_cons]
    rw [ih (mergeOne src r) (keysUniq_foldl_aappend _ _ hu)]
    constructor
    · rintro (⟨ws, h1, h2⟩ | ⟨r', hr', es, h1, h2⟩)
      · obtain ⟨_, h3⟩ := foldl_aappend_from (mem_of_aget h1)
        rcases h3 e h2 with ⟨vs, h4, h5⟩ | ⟨vs, h4, h5⟩
        · exact Or.inl ⟨vs, aget_of_mem_uniq hu h4, h5⟩
        · exact Or.inr ⟨r, List.mem_cons_self, vs, h4, h5⟩
      · exact Or.inr ⟨r', List.mem_cons_of_mem _ hr', es, h1, h2⟩
    · rintro (⟨es, h1, h2⟩ | ⟨r', hr', es, h1, h2⟩)
      · obtain ⟨ws, h3, h4⟩ := foldl_aappend_src (xs := r.envs) h1
        exact Or.inl ⟨ws, h3, h4 e h2⟩
      · rcases List.mem_cons.1 hr' with h | h
        · subst h
          obtain ⟨ws, h3, h4⟩ := foldl_aappend_mem (src := src.envs) h1
          exact Or.inl ⟨ws, h3, h4 e h2⟩
        · exact Or.inr ⟨r', h, es, h1, h2⟩

theorem mergeSR_pkgs_from (rs : List Report) (src : Report) (id : String) (p : Pkg)
    (h : (id, p) ∈ (mergeSR src rs).pkgs) : (id, p) ∈ src.pkgs ∨ ∃ r ∈ rs, (id, p) ∈ r.pkgs := by
  unfold mergeSR at h
  induction rs generalizing src with
  | nil => exact Or.inl h
  | cons r rs ih =>
    simp only [List.foldl_cons] at h
    rcases ih _ h with h1 | ⟨r', hr', h1⟩
    · rcases mem_foldl_aset h1 with h2 | h2
      · exact Or.inl h2
      · exact Or.inr ⟨r, List.mem_cons_self, h2⟩
    · exact Or.inr ⟨r', List.mem_cons_of_mem _ hr', h1⟩

theorem mergeSR_pkgs_has (rs : List Report) (src : Report) (id : String)
    (h : (aget id src.pkgs).isSome ∨ ∃ r ∈ rs, ∃ p, (id, p) ∈ r.pkgs) : (aget id (mergeSR src rs).pkgs).isSome := by
  unfold mergeSR
  induction rs generalizing src with
  | nil =>
    rcases h with h | ⟨r, hr, _⟩
    · exact h
    · simp at hr
  | cons r rs ih =>
    simp only [List.foldl_cons]
    apply ih
    rcases h with h | ⟨r', hr', p, hp⟩
    · exact Or.inl (isSome_foldl_aset_of_src h)
    · rcases List.mem_cons.1 hr' with h1 | h1
      · subst h1; exact Or.inl (isSome_foldl_aset_of_mem hp)
      · exact Or.inr ⟨r', h1, p, hp⟩

theorem mergeSR_files_from (rs : List Report) (src : Report) (k : String) (f : File)
    (h : (k, f) ∈ (mergeSR src rs).files) : (k, f) ∈ src.files ∨ ∃ r ∈ rs, (k, f) ∈ r.files := by
  unfold mergeSR at h
  induction rs generalizing src with
  | nil => exact Or.inl h
  | cons r rs ih =>
    simp only [List.foldl_cons] at h
    rcases ih _ h with h1 | ⟨r', hr', h1⟩
    · rcases mem_foldl_aset h1 with h2 | h2
      · exact Or.inl h2
      · exact Or.inr ⟨r, List.mem_cons_self, h2⟩
    · exact Or.inr ⟨r', List.mem_cons_of_mem _ hr', h1⟩

theorem aget_foldl_aset_of_mem_uniq {β : Type} {xs : List (String × β)} (src : List (String × β)) {k : String} {v : β}
    (hu : KeysUniq xs) (hm : (k, v) ∈ xs) : aget k (xs.foldl (fun m e => aset e.1 e.2 m) src) = some v := by
  induction xs generalizing src with
  | nil => simp at hm
  | cons x xs ih =>
    obtain ⟨k0, v0⟩ := x
    simp only [List.foldl_cons]
    rcases List.mem_cons.1 hm with h | h
    · cases h
      -- no later entry has key k
      have hnone : aget k xs = none := hu.1
      have : ∀ (ys : List (String × β)) (m : List (String × β)), aget k ys = none → aget k m = some v →
          aget k (ys.foldl (fun m e => aset e.1 e.2 m) m) = some v := by
        intro ys
        induction ys with
        | nil => intro m _ hm; exact hm
        | cons y ys ihy =>
          intro m hy hm
          obtain ⟨k1, v1⟩ := y
          rw [aget_cons] at hy
          by_cases hk : k1 = k
          · simp [hk] at hy
          · simp only [hk, if_false] at hy
            simp only [List.foldl_cons]
            exact ihy _ hy (by rw [aget_aset_ne hk]; exact hm)
      exact this xs _ hnone (aget_aset_self _ _ _)
    · exact ih _ hu.2 h

/-- a file map entry of one merged report (with unique keys) survives when every later report has no files -/
theorem mergeSR_files_last (rs : List Report) (src r : Report) (k : String) (f : File)
    (hu : KeysUniq r.files) (hm : (k, f) ∈ r.files) : (k, f) ∈ (mergeSR src (rs ++ [r])).files := by
  unfold mergeSR
  rw [List.foldl_append]
  simp only [List.foldl_cons, List.foldl_nil, mergeOne]
  exact mem_of_aget (aget_foldl_aset_of_mem_uniq _ hu hm)

/-! ### the resolver, exactly -/

/-- the resolver's verdict for package `p` stored under `id` -/
def delOf (layers : List String) (ir : Report) (id : String) (p : Pkg) : Bool :=
  match aget id ir.envs with
  | some (e0 :: es) => pkgDeleted layers ir.files p (pkgLayer layers es e0.intro)
  | _ => false

theorem resolveLoop_from (layers : List String) (ir : Report) (todo : List (String × Pkg)) (acc fin : Report)
    (h : resolveLoop layers ir todo acc = some fin) (id : String) (p : Pkg) (hm : (id, p) ∈ fin.pkgs) :
    (id, p) ∈ acc.pkgs ∨ ((id, p) ∈ todo ∧ delOf layers ir id p = false) := by
  induction todo generalizing acc with
  | nil => simp only [resolveLoop, Option.some.injEq] at h; subst h; exact Or.inl hm
  | cons x rest ih =>
    obtain ⟨k, q⟩ := x
    simp only [resolveLoop] at h
    cases hg : aget k ir.envs with
    | none => simp [hg] at h
    | some es0 =>
      cases es0 with
      | nil => simp [hg] at h
      | cons e0 es =>
        simp only [hg] at h
        by_cases hd : pkgDeleted layers ir.files q (pkgLayer layers es e0.intro) = true
        · simp only [hd, if_true] at h
          rcases ih _ h with h1 | ⟨h1, h2⟩
          · exact Or.inl h1
          · exact Or.inr ⟨List.mem_cons_of_mem _ h1, h2⟩
        · simp only [hd, Bool.false_eq_true, if_false] at h
          rcases ih _ h with h1 | ⟨h1, h2⟩
          · simp only at h1
            rcases mem_aset h1 with ⟨hk, hv⟩ | hold
            · right
              subst hk; subst hv
              refine ⟨List.mem_cons_self, ?_⟩
              simp only [delOf, hg]
              simpa using hd
            · exact Or.inl hold
          · exact Or.inr ⟨List.mem_cons_of_mem _ h1, h2⟩

theorem resolveLoop_keep (layers : List String) (ir : Report) (todo : List (String × Pkg)) (acc fin : Report)
    (h : resolveLoop layers ir todo acc = some fin) :
    (∀ id, (aget id acc.pkgs).isSome → (aget id fin.pkgs).isSome) ∧
    (∀ id p, (id, p) ∈ todo → (∃ e0 es, aget id ir.envs = some (e0 :: es)) → delOf layers ir id p = false →
      (aget id fin.pkgs).isSome) := by
  induction todo generalizing acc with
  | nil => simp only [resolveLoop, Option.some.injEq] at h; subst h; exact ⟨fun _ h => h, by simp⟩
  | cons x rest ih =>
    obtain ⟨k, q⟩ := x
    simp only [resolveLoop] at h
    cases hg : aget k ir.envs with
    | none => simp [hg] at h
    | some es0 =>
      cases es0 with
      | nil => simp [hg] at h
      | cons e0 es =>
        simp only [hg] at h
        by_cases hd : pkgDeleted layers ir.files q (pkgLayer layers es e0.intro) = true
        · simp only [hd, if_true] at h
          obtain ⟨i1, i2⟩ := ih _ h
          refine ⟨i1, ?_⟩
          intro id p hm hex hdel
          rcases List.mem_cons.1 hm with h1 | h1
          · cases h1
            simp only [delOf, hg] at hdel
            rw [hd] at hdel; simp at hdel
          · exact i2 id p h1 hex hdel
        · simp only [hd, Bool.false_eq_true, if_false] at h
          obtain ⟨i1, i2⟩ := ih _ h
          refine ⟨fun id hs => i1 id (aget_aset_isSome hs), ?_⟩
          intro id p hm hex hdel
          rcases List.mem_cons.1 hm with h1 | h1
          · cases h1
            exact i1 k (by simp [aget_aset_self])
          · exact i2 id p h1 hex hdel

/-- What `Resolve` keeps: exactly the ids whose package is not covered by a later whiteout, with
    their environments unchanged. -/
theorem resolve_exact {S : Prop} {B : String → Env → Prop} (layers : List String) (ir r : Report)
    (hI : Inv S B ir) (hu : KeysUniq ir.pkgs) (h : resolve layers ir = some r) (id : String) :
    (∀ es, aget id r.envs = some es →
      aget id ir.envs = some es ∧ ∃ p, aget id ir.pkgs = some p ∧ delOf layers ir id p = false) ∧
    (∀ p, aget id ir.pkgs = some p → delOf layers ir id p = false → aget id r.envs = aget id ir.envs) := by
  unfold resolve at h
  cases hl : resolveLoop layers ir ir.pkgs {} with
  | none => simp [hl] at h
  | some fin =>
    simp only [hl, Option.some.injEq] at h
    subst h
    obtain ⟨fin', hf', s1, s2⟩ := resolveLoop_spec layers ir hI ir.pkgs {} (fun _ _ h => h) (by simp) (by simp)
    rw [hl] at hf'; cases hf'
    constructor
    · intro es hes
      simp only at hes
      obtain ⟨h1, h2⟩ := s2 id es (mem_of_aget hes)
      refine ⟨h1, ?_⟩
      cases hp : aget id fin.pkgs with
      | none => simp [hp] at h2
      | some p' =>
        rcases resolveLoop_from layers ir ir.pkgs {} fin hl id p' (mem_of_aget hp) with h3 | ⟨h3, h4⟩
        · simp at h3
        · exact ⟨p', aget_of_mem_uniq hu h3, h4⟩
    · intro p hp hdel
      simp only
      obtain ⟨_, es, hes, hne⟩ := hI.pkgEnv id p (mem_of_aget hp)
      have hex : ∃ e0 es', aget id ir.envs = some (e0 :: es') := by
        cases es with
        | nil => exact absurd rfl hne
        | cons e0 es' => exact ⟨e0, es', hes⟩
      have := (resolveLoop_keep layers ir ir.pkgs {} fin hl).2 id p (mem_of_aget hp) hex hdel
      cases hp' : aget id fin.pkgs with
      | none => simp [hp'] at this
      | some p' => exact (s1 id p' (mem_of_aget hp')).2

/-! ### small list facts -/

theorem two_decomp {α : Type} {pre post pre' post' : List α} {l l' : α}
    (h : pre ++ l :: post = pre' ++ l' :: post') :
    (pre = pre' ∧ l = l' ∧ post = post') ∨ l' ∈ post ∨ l ∈ post' := by
  induction pre generalizing pre' with
  | nil =>
    cases pre' with
    | nil => simp at h; exact Or.inl ⟨rfl, h.1, h.2⟩
    | cons x p' =>
      simp at h
      right; left; rw [h.2]; simp
  | cons y p ih =>
    cases pre' with
    | nil =>
      simp at h
      right; right; rw [← h.2]; simp
    | cons x p' =>
      simp at h
      rcases ih h.2 with ⟨h1, h2, h3⟩ | h1 | h1
      · exact Or.inl ⟨by rw [h.1, h1], h2, h3⟩
      · exact Or.inr (Or.inl h1)
      · exact Or.inr (Or.inr h1)

theorem map_decomp {α β : Type} {f : α → β} {xs : List α} {pre post : List β} {b : β}
    (h : xs.map f = pre ++ b :: post) :
    ∃ xpre x xpost, xs = xpre ++ x :: xpost ∧ xpre.map f = pre ∧ f x = b ∧ xpost.map f = post := by
  induction pre generalizing xs with
  | nil =>
    cases xs with
    | nil => simp at h
    | cons x xs => simp at h; exact ⟨[], x, xs, rfl, rfl, h.1, h.2⟩
  | cons y pre ih =>
    cases xs with
    | nil => simp at h
    | cons x xs =>
      simp at h
      obtain ⟨xpre, x', xpost, h1, h2, h3, h4⟩ := ih h.2
      exact ⟨x :: xpre, x', xpost, by simp [h1], by simp [h.1, h2], h3, h4⟩

theorem lastMention_of_decomp {d : String} {pre post : List Layer} {a : Layer}
    (ha : mentions d a = true) (hpost : ∀ b ∈ post, mentions d b = false) :
    lastMention d (pre ++ a :: post) = some a := by
  have hnone : lastMention d post = none := by
    induction post with
    | nil => rfl
    | cons b post ih =>
      simp only [lastMention, ih (fun c hc => hpost c (List.mem_cons_of_mem _ hc)), hpost b List.mem_cons_self]
      simp
  induction pre with
  | nil => simp [lastMention, hnone, ha]
  | cons x pre ih => simp [lastMention, ih]

/-! ### the hypothesis of the composition theorem -/

/-- `Tame S layers`: the layer stacks on which the indexer provably agrees with the flattened image.
    Each clause is a restriction the unchanged code needs (see the `…_counterexample` theorems
    and the recorded findings). -/
structure Tame (S : Scanners) (layers : List FSLayer) : Prop where
  /-- the digest is a function of the content: layers with one digest have the same entries
      (a layer may occur any number of times in the manifest) -/
  digests : ∀ l ∈ layers, ∀ l' ∈ layers, l.hash = l'.hash → l.entries = l'.entries
  /-- a layer lists a path once -/
  paths : ∀ l ∈ layers, (l.entries.map (·.1)).Nodup
  /-- at most one whiteout entry per layer, and it is a regular file (finding whiteout-one-per-layer) -/
  oneWhiteout : ∀ l ∈ layers, (whiteoutsOf l).length ≤ 1 ∧ whiteoutsOf l = whiteoutFiles l
  /-- no opaque marker at the root of a layer (`fileIsDeleted` ignores it; everywhere else it is
      the OCI cover relation, theorem `fileIsDeleted_eq_covers`) -/
  noRootOpaque : ∀ l ∈ layers, ∀ w ∈ whiteoutsOf l, ¬ (base w = opqName ∧ dir w = ".")
  /-- package files are hidden by whiteouts only (no file-replaces-directory games on their paths) -/
  hidesSpec : ∀ l ∈ layers, ∀ l' ∈ layers, ∀ p ∈ allFilePkgs S l',
    hides l p.fp = (whiteoutFiles l).any fun w => covers w p.fp
  /-- an OS package database is never hidden and never lists nothing (findings os-db-removed, os-db-emptied) -/
  osDb : ∀ d ∈ S.allDbs, ∀ l ∈ layers, hides l d = false ∧ ∀ c ∈ fileOf l d, S.scanDB d c ≠ []
  /-- a package file is not overwritten by a later layer with other packages, unless that
      layer also whites the old one out (finding lang-overwrite-in-place) -/
  noOverwrite : ∀ E ∈ S.fecos, layers.Pairwise fun l l' => ∀ e ∈ l.entries, ∀ c ∈ fileOf l e.1, ∀ p ∈ E.scan e.1 c,
    ∀ c' ∈ fileOf l' e.1, (∃ p' ∈ E.scan e.1 c', p'.id = p.id) ∨ hides l' e.1 = true
  /-- within an ecosystem a package id lives at one path, in one package database
      (finding lang-same-package-two-paths) -/
  onePath : ∀ E ∈ S.fecos, ∀ l ∈ layers, ∀ l' ∈ layers, ∀ p ∈ filePkgs E l, ∀ p' ∈ filePkgs E l',
    p.id = p'.id → p.fp = p'.fp ∧ p.db = p'.db
  /-- OS package ids and file package ids are different (in the real store they differ in arch / kind) -/
  disjoint : ∀ d ∈ S.allDbs, ∀ l ∈ layers, ∀ c ∈ fileOf l d, ∀ p ∈ S.scanDB d c,
    ∀ l' ∈ layers, ∀ p' ∈ allFilePkgs S l', p.id ≠ p'.id
  /-- two file ecosystems never find the same package id (finding lang-shared-id-across-ecosystems) -/
  ecosApart : S.fecos.Pairwise (ecoApart layers)
  /-- the package database of a Go executable's packages starts with `go:` (the gobin coalescer drops the others) -/
  goDb : ∀ E ∈ S.fecos, E.gobin = true → ∀ l ∈ layers, ∀ p ∈ filePkgs E l, hasGoPrefix p.db = true

/-- `Tame` is decidable: every clause is a bounded check over the stack. -/
instance instDecidableTame (S : Scanners) (layers : List FSLayer) : Decidable (Tame S layers) :=
  let A1 := ∀ l ∈ layers, ∀ l' ∈ layers, l.hash = l'.hash → l.entries = l'.entries
  let A2 := ∀ l ∈ layers, (l.entries.map (·.1)).Nodup
  let A3 := ∀ l ∈ layers, (whiteoutsOf l).length ≤ 1 ∧ whiteoutsOf l = whiteoutFiles l
  let A4 := ∀ l ∈ layers, ∀ w ∈ whiteoutsOf l, ¬ (base w = opqName ∧ dir w = ".")
  let A5 := ∀ l ∈ layers, ∀ l' ∈ layers, ∀ p ∈ allFilePkgs S l', hides l p.fp = (whiteoutFiles l).any fun w => covers w p.fp
  let A6 := ∀ d ∈ S.allDbs, ∀ l ∈ layers, hides l d = false ∧ ∀ c ∈ fileOf l d, S.scanDB d c ≠ []
  let A7 := ∀ E ∈ S.fecos, layers.Pairwise fun l l' => ∀ e ∈ l.entries, ∀ c ∈ fileOf l e.1, ∀ p ∈ E.scan e.1 c,
      ∀ c' ∈ fileOf l' e.1, (∃ p' ∈ E.scan e.1 c', p'.id = p.id) ∨ hides l' e.1 = true
  let A8 := ∀ E ∈ S.fecos, ∀ l ∈ layers, ∀ l' ∈ layers, ∀ p ∈ filePkgs E l, ∀ p' ∈ filePkgs E l',
      p.id = p'.id → p.fp = p'.fp ∧ p.db = p'.db
  let A9 := ∀ d ∈ S.allDbs, ∀ l ∈ layers, ∀ c ∈ fileOf l d, ∀ p ∈ S.scanDB d c,
      ∀ l' ∈ layers, ∀ p' ∈ allFilePkgs S l', p.id ≠ p'.id
  let A10 := S.fecos.Pairwise (ecoApart layers)
  let A11 := ∀ E ∈ S.fecos, E.gobin = true → ∀ l ∈ layers, ∀ p ∈ filePkgs E l, hasGoPrefix p.db = true
  have _d1 : Decidable A1 := inferInstance
  have _d2 : Decidable A2 := inferInstance
  have _d3 : Decidable A3 := inferInstance
  have _d4 : Decidable A4 := inferInstance
  have _d5 : Decidable A5 := inferInstance
  have _d6 : Decidable A6 := inferInstance
  have _d7 : Decidable A7 := inferInstance
  have _d8 : Decidable A8 := inferInstance
  have _d9 : Decidable A9 := inferInstance
  have _d10 : Decidable A10 := inferInstance
  have _d11 : Decidable A11 := inferInstance
  have _e10 : Decidable (A10 ∧ A11) := instDecidableAnd
  have _e9 : Decidable (A9 ∧ A10 ∧ A11) := instDecidableAnd
  have _e8 : Decidable (A8 ∧ A9 ∧ A10 ∧ A11) := instDecidableAnd
  have _e7 : Decidable (A7 ∧ A8 ∧ A9 ∧ A10 ∧ A11) := instDecidableAnd
  have _e6 : Decidable (A6 ∧ A7 ∧ A8 ∧ A9 ∧ A10 ∧ A11) := instDecidableAnd
  have _e5 : Decidable (A5 ∧ A6 ∧ A7 ∧ A8 ∧ A9 ∧ A10 ∧ A11) := instDecidableAnd
  have _e4 : Decidable (A4 ∧ A5 ∧ A6 ∧ A7 ∧ A8 ∧ A9 ∧ A10 ∧ A11) := instDecidableAnd
  have _e3 : Decidable (A3 ∧ A4 ∧ A5 ∧ A6 ∧ A7 ∧ A8 ∧ A9 ∧ A10 ∧ A11) := instDecidableAnd
  have _e2 : Decidable (A2 ∧ A3 ∧ A4 ∧ A5 ∧ A6 ∧ A7 ∧ A8 ∧ A9 ∧ A10 ∧ A11) := instDecidableAnd
  have _e1 : Decidable (A1 ∧ A2 ∧ A3 ∧ A4 ∧ A5 ∧ A6 ∧ A7 ∧ A8 ∧ A9 ∧ A10 ∧ A11) := instDecidableAnd
  decidable_of_iff (A1 ∧ A2 ∧ A3 ∧ A4 ∧ A5 ∧ A6 ∧ A7 ∧ A8 ∧ A9 ∧ A10 ∧ A11)
    ⟨fun ⟨a, b, c, d, e, f, g, h, i, j, k⟩ => ⟨a, b, c, d, e, f, g, h, i, j, k⟩,
     fun ⟨a, b, c, d, e, f, g, h, i, j, k⟩ => ⟨a, b, c, d, e, f, g, h, i, j, k⟩⟩

/-- the driver's Boolean check is the predicate `Tame` -/
theorem tameB_iff (S : Scanners) (layers : List FSLayer) : tameB S layers = true ↔ Tame S layers := by
  unfold tameB
  simp only [Bool.and_eq_true, decide_eq_true_eq]
  exact ⟨fun ⟨⟨⟨⟨⟨⟨⟨⟨⟨⟨a, b⟩, c⟩, d⟩, e⟩, f⟩, g⟩, h⟩, i⟩, j⟩, k⟩ => ⟨a, b, c, d, e, f, g, h, i, j, k⟩,
    fun ⟨a, b, c, d, e, f, g, h, i, j, k⟩ => ⟨⟨⟨⟨⟨⟨⟨⟨⟨⟨a, b⟩, c⟩, d⟩, e⟩, f⟩, g⟩, h⟩, i⟩, j⟩, k⟩⟩

theorem whiteoutsOf_isWhiteout {l : FSLayer} {w : String} (h : w ∈ whiteoutsOf l) : isWhiteout w = true := by
  unfold whiteoutsOf at h
  obtain ⟨e, _, he⟩ := List.mem_filterMap.1 h
  cases hk : e.2 with
  | file c =>
    simp only [hk] at he
    by_cases hw : isWhiteout e.1 = true
    · simp only [hw, if_true, Option.some.injEq] at he; rw [← he]; exact hw
    · simp [hw] at he
  | dir =>
    simp only [hk] at he
    by_cases hw : isWhiteout e.1 = true
    · simp only [hw, if_true, Option.some.injEq] at he; rw [← he]; exact hw
    · simp [hw] at he

/-- on a tame stack the resolver's test is the OCI cover relation, for every path -/
theorem Tame.delSpec {S : Scanners} {layers : List FSLayer} (ht : Tame S layers) :
    ∀ l ∈ layers, ∀ w ∈ whiteoutsOf l, fileIsDeleted "" w = false ∧ ∀ fp, fileIsDeleted fp w = covers w fp :=
  fun l hl w hw => ⟨fileIsDeleted_nofp w,
    fun fp => fileIsDeleted_eq_covers fp w (whiteoutsOf_isWhiteout hw) (ht.noRootOpaque l hl w hw)⟩

/-- everything the scanners read from a layer depends on its entries only -/
theorem whiteoutsOf_congr {l l' : FSLayer} (h : l.entries = l'.entries) : whiteoutsOf l = whiteoutsOf l' := by
  unfold whiteoutsOf; rw [h]

theorem filePkgs_congr (E : FileEco) {l l' : FSLayer} (h : l.entries = l'.entries) : filePkgs E l = filePkgs E l' := by
  unfold filePkgs; rw [h]

/-- the last position of a digest in the manifest carries the same entries as any layer with that digest -/
theorem Tame.last_of_hash {S : Scanners} {layers : List FSLayer} (ht : Tame S layers) {l : FSLayer} (hl : l ∈ layers) :
    ∃ pre l' post, layers = pre ++ l' :: post ∧ l'.hash = l.hash ∧ l'.entries = l.entries ∧
      l.hash ∉ post.map (·.hash) := by
  have hm : l.hash ∈ layers.map (·.hash) := List.mem_map.2 ⟨l, hl, rfl⟩
  obtain ⟨p1, p2, hdec, hnot⟩ := exists_last_occurrence hm
  obtain ⟨pre, l', post, h1, _, h3, h4⟩ := map_decomp hdec
  refine ⟨pre, l', post, h1, h3, ?_, by rw [h4]; exact hnot⟩
  exact ht.digests l' (by rw [h1]; simp) l hl h3

/-! ### artifacts of a layer -/

theorem filePkgsAt_mem {E : FileEco} {q c : String} {p : Pkg} (h : p ∈ filePkgsAt E q c) :
    p.fp = q ∧ ∃ p0 ∈ E.scan q c, p.id = p0.id ∧ p.db = p0.db := by
  unfold filePkgsAt at h
  obtain ⟨p0, hp0, he⟩ := List.mem_map.1 h
  subst he
  exact ⟨rfl, p0, hp0, rfl, rfl⟩

theorem mem_filePkgs {E : FileEco} {l : FSLayer} {p : Pkg} :
    p ∈ filePkgs E l ↔ ∃ q c, (q, Entry.file c) ∈ l.entries ∧ isWhiteout q = false ∧ p ∈ filePkgsAt E q c := by
  unfold filePkgs
  rw [List.mem_flatMap]
  constructor
  · rintro ⟨⟨q, en⟩, hm, h⟩
    cases en with
    | dir => simp at h
    | file c =>
      simp only at h
      by_cases hw : isWhiteout q = true
      · simp [hw] at h
      · simp only [hw, Bool.false_eq_true, if_false] at h
        exact ⟨q, c, hm, by simpa using hw, h⟩
  · rintro ⟨q, c, hm, hw, h⟩
    exact ⟨(q, Entry.file c), hm, by simp [hw, h]⟩

theorem mem_allFilePkgs {S : Scanners} {l : FSLayer} {p : Pkg} :
    p ∈ allFilePkgs S l ↔ ∃ E ∈ S.fecos, p ∈ filePkgs E l := by
  unfold allFilePkgs; rw [List.mem_flatMap]

theorem entry_unique {l : FSLayer} (hnd : (l.entries.map (·.1)).Nodup) {q : String} {e1 e2 : Entry}
    (h1 : (q, e1) ∈ l.entries) (h2 : (q, e2) ∈ l.entries) : e1 = e2 := by
  generalize l.entries = es at *
  induction es with
  | nil => simp at h1
  | cons x es ih =>
    simp only [List.map_cons, List.nodup_cons] at hnd
    rcases List.mem_cons.1 h1 with a1 | a1 <;> rcases List.mem_cons.1 h2 with a2 | a2
    · rw [← a1] at a2; exact (Prod.mk.inj a2).2.symm
    · exfalso; apply hnd.1; rw [← a1]; exact List.mem_map.2 ⟨(q, e2), a2, rfl⟩
    · exfalso; apply hnd.1; rw [← a2]; exact List.mem_map.2 ⟨(q, e1), a1, rfl⟩
    · exact ih hnd.2 a1 a2

theorem fileOf_of_mem {l : FSLayer} (hnd : (l.entries.map (·.1)).Nodup) {q c : String}
    (hm : (q, Entry.file c) ∈ l.entries) (hw : isWhiteout q = false) : fileOf l q = some c := by
  unfold fileOf
  cases hf : l.entries.find? (fun e => e.1 = q) with
  | none =>
    have := List.find?_eq_none.1 hf (q, Entry.file c) hm
    simp at this
  | some e =>
    obtain ⟨q', en⟩ := e
    have hq : q' = q := by simpa using List.find?_some hf
    subst hq
    have := entry_unique hnd (List.mem_of_find?_eq_some hf) hm
    subst this
    simp [hw]

theorem fileArts_repos_isEmpty {E : FileEco} {l : FSLayer} :
    (fileArts E l).repos.isEmpty = (filePkgs E l).isEmpty := by
  unfold fileArts
  by_cases h : (filePkgs E l).isEmpty = true <;> simp [h]

/-- a layer's file artifacts hold a package with this id iff `lastPkg` finds one -/
theorem lastPkg_fileArts_none {E : FileEco} {l : FSLayer} {id : String} :
    ((fileArts E l).repos.isEmpty = true ∨ lastPkg id (fileArts E l).pkgs = none) ↔ ∀ p ∈ filePkgs E l, p.id ≠ id := by
  rw [fileArts_repos_isEmpty]
  constructor
  · rintro (h | h)
    · intro p hp; simp at h; rw [h] at hp; simp at hp
    · exact lastPkg_none.1 h
  · intro h; exact Or.inr (lastPkg_none.2 h)

/-! ### the gobin coalescer on the artifacts of a Go ecosystem is the language coalescer -/

theorem gobinLayerPkgs_eq_lang (a : Layer) (rid : String) (pkgs : List Pkg) (ir : Report)
    (h : ∀ p ∈ pkgs, hasGoPrefix p.db = true) :
    gobinLayerPkgs a rid pkgs ir = langLayerPkgs a [rid] pkgs ir := by
  induction pkgs generalizing ir with
  | nil => rfl
  | cons p rest ih =>
    simp only [gobinLayerPkgs, langLayerPkgs, h p List.mem_cons_self, if_true]
    exact ih _ fun q hq => h q (List.mem_cons_of_mem _ hq)

theorem gobinFold_eq_langFold (arts : List Layer) (ir : Report)
    (h : ∀ a ∈ arts, (∀ p ∈ a.pkgs, hasGoPrefix p.db = true) ∧ ((a.repos = [] ∧ a.pkgs = []) ∨ a.repos = [goRepo])) :
    gobinFold arts ir = langFold arts ir := by
  induction arts generalizing ir with
  | nil => rfl
  | cons a rest ih =>
    obtain ⟨hgo, hrep⟩ := h a List.mem_cons_self
    have hrest := fun b hb => h b (List.mem_cons_of_mem _ hb)
    simp only [gobinFold, langFold]
    rcases hrep with ⟨h1, h2⟩ | h1
    · simp only [h1, h2, List.find?_nil, List.isEmpty_nil, if_true, gobinLayerPkgs]
      exact ih ir hrest
    · have hfind : a.repos.find? isGoRepo = some goRepo := by rw [h1]; rfl
      simp only [hfind]
      rw [h1]
      simp only [List.isEmpty_cons, Bool.false_eq_true, if_false, List.map_cons, List.map_nil]
      rw [gobinLayerPkgs_eq_lang a goRepo.id a.pkgs _ hgo]
      have : setRepos [goRepo] ir.repos = aset goRepo.id goRepo ir.repos := rfl
      rw [this]
      exact ih _ hrest

/-! ### the reports of the ecosystems -/

/-- the linux coalescer's report (it never fails) -/
def linuxRep (arts : List Layer) : Report :=
  match linuxCoalesce arts with
  | .ok r => r
  | .error _ => {}

theorem linuxRep_ok (arts : List Layer) : linuxCoalesce arts = .ok (linuxRep arts) := by
  obtain ⟨r, h, _⟩ := linuxCoalesce_ok (S := False) arts
  simp [linuxRep, h]

def osReps (S : Scanners) (layers : List FSLayer) : List Report :=
  S.osDbs.map fun d => linuxRep (layers.map (osArts S false d))

/-- the rhel coalescer's report (it never fails) -/
def rhelRep (arts : List Layer) : Report :=
  match rhelCoalesce arts with
  | .ok r => r
  | .error _ => {}

theorem rhelRep_ok (arts : List Layer) : rhelCoalesce arts = .ok (rhelRep arts) := by
  obtain ⟨r, h, _⟩ := rhelCoalesce_ok (S := False) arts
  simp [rhelRep, h]

def rhelReps (S : Scanners) (layers : List FSLayer) : List Report :=
  S.rhelDbs.map fun d => rhelRep (layers.map (osArts S true d))

/-- the reports of the OS package database ecosystems -/
def dbReps (S : Scanners) (layers : List FSLayer) : List Report := osReps S layers ++ rhelReps S layers

/-- the report of one file ecosystem: its own coalescer on its own artifacts -/
def fileRep (E : FileEco) (layers : List FSLayer) : Report :=
  if E.gobin then gobinFold (layers.map (fileArts E)) {} else langFold (layers.map (fileArts E)) {}

def fileReps (S : Scanners) (layers : List FSLayer) : List Report := S.fecos.map fun E => fileRep E layers

def whRep (layers : List FSLayer) : Report := { files := whFold (layers.map whArts) [] }

/-- on a tame stack every file ecosystem's report is the language fold of its artifacts -/
theorem fileRep_lang {S : Scanners} {layers : List FSLayer} (ht : Tame S layers) {E : FileEco} (hE : E ∈ S.fecos) :
    fileRep E layers = langFold (layers.map (fileArts E)) {} := by
  unfold fileRep
  by_cases hg : E.gobin = true
  · simp only [hg, if_true]
    apply gobinFold_eq_langFold
    intro a ha
    obtain ⟨l, hl, hla⟩ := List.mem_map.1 ha
    subst hla
    refine ⟨fun p hp => ht.goDb E hE hg l hl p hp, ?_⟩
    unfold fileArts
    by_cases he : (filePkgs E l).isEmpty = true
    · left; simp only [he, if_true, true_and]; simpa using he
    · right; simp [he, FileEco.repo, hg]
  · simp [hg]

theorem coalesceAll_append (a b : List (Kind × List Layer)) :
    coalesceAll (a ++ b) =
      match coalesceAll a, coalesceAll b with
      | some x, some y => some (x ++ y)
      | _, _ => none := by
  induction a with
  | nil => simp [coalesceAll]; cases coalesceAll b <;> rfl
  | cons ka rest ih =>
    obtain ⟨k, arts⟩ := ka
    simp only [List.cons_append, coalesceAll, ih]
    cases coalesceKind k arts with
    | error f => cases coalesceAll rest <;> cases coalesceAll b <;> rfl
    | ok r => cases coalesceAll rest <;> cases coalesceAll b <;> rfl

theorem coalesceAll_os (S : Scanners) (layers : List FSLayer) (ds : List String) :
    coalesceAll (ds.map fun d => (Kind.linux, layers.map (osArts S false d))) =
      some (ds.map fun d => linuxRep (layers.map (osArts S false d))) := by
  induction ds with
  | nil => rfl
  | cons d ds ih => simp [coalesceAll, coalesceKind, linuxRep_ok, ih]

theorem coalesceAll_rhel (S : Scanners) (layers : List FSLayer) (ds : List String) :
    coalesceAll (ds.map fun d => (Kind.rhel, layers.map (osArts S true d))) =
      some (ds.map fun d => rhelRep (layers.map (osArts S true d))) := by
  induction ds with
  | nil => rfl
  | cons d ds ih => simp [coalesceAll, coalesceKind, rhelRep_ok, ih]

theorem coalesceAll_files (layers : List FSLayer) (es : List FileEco) :
    coalesceAll (es.map fun E => (E.kind, layers.map (fileArts E))) = some (es.map fun E => fileRep E layers) := by
  induction es with
  | nil => rfl
  | cons E es ih =>
    simp only [List.map_cons, coalesceAll, ih]
    have : coalesceKind E.kind (layers.map (fileArts E)) = .ok (fileRep E layers) := by
      unfold FileEco.kind fileRep
      by_cases hg : E.gobin = true <;> simp [hg, coalesceKind, gobinCoalesce, langCoalesce]
    rw [this]

theorem coalesceAll_ecos (S : Scanners) (layers : List FSLayer) :
    coalesceAll (ecosOf S layers) = some ((dbReps S layers ++ fileReps S layers) ++ [whRep layers]) := by
  unfold ecosOf
  rw [coalesceAll_append, coalesceAll_append, coalesceAll_append, coalesceAll_os, coalesceAll_rhel, coalesceAll_files]
  simp [coalesceAll, coalesceKind, whCoalesce, dbReps, osReps, rhelReps, fileReps, whRep, whFold]

/-- the merged report, before the resolver -/
def merged (S : Scanners) (layers : List FSLayer) : Report :=
  mergeSR {} ((dbReps S layers ++ fileReps S layers) ++ [whRep layers])

theorem indexModel_eq (S : Scanners) (layers : List FSLayer) :
    indexModel S layers = resolve (layers.map (·.hash)) (merged S layers) := by
  simp [indexModel, indexCoalesce, coalesceAll_ecos, merged]

theorem merged_inv (S : Scanners) (layers : List FSLayer) :
    Inv False (BackedAny (ecosOf S layers)) (merged S layers) := by
  obtain ⟨rs, h1, h2⟩ := coalesceAll_ok (S := False) (ecosOf S layers) (fun h => h.elim)
  rw [coalesceAll_ecos] at h1
  cases h1
  exact inv_mergeSR _ {} (inv_of_nil rfl rfl) h2

theorem merged_uniq (S : Scanners) (layers : List FSLayer) : Uniq (merged S layers) :=
  uniq_mergeSR _ {} uniq_empty

theorem reps_cases {S : Scanners} {layers : List FSLayer} {rr : Report}
    (h : rr ∈ (dbReps S layers ++ fileReps S layers) ++ [whRep layers]) :
    rr ∈ dbReps S layers ∨ (∃ E ∈ S.fecos, rr = fileRep E layers) ∨ rr = whRep layers := by
  rcases List.mem_append.1 h with h | h
  · rcases List.mem_append.1 h with h | h
    · exact Or.inl h
    · obtain ⟨E, hE, he⟩ := List.mem_map.1 h
      exact Or.inr (Or.inl ⟨E, hE, he.symm⟩)
  · simp only [List.mem_cons, List.mem_nil_iff, or_false] at h; exact Or.inr (Or.inr h)

theorem fileRep_mem_reps {S : Scanners} {layers : List FSLayer} {E : FileEco} (hE : E ∈ S.fecos) :
    fileRep E layers ∈ (dbReps S layers ++ fileReps S layers) ++ [whRep layers] :=
  List.mem_append_left _ (List.mem_append_right _ (List.mem_map.2 ⟨E, hE, rfl⟩))

theorem dbRep_mem_reps {S : Scanners} {layers : List FSLayer} {r : Report} (h : r ∈ dbReps S layers) :
    r ∈ (dbReps S layers ++ fileReps S layers) ++ [whRep layers] :=
  List.mem_append_left _ (List.mem_append_left _ h)

/-! ### OS package databases: the linux coalescer against the flattened image -/

theorem mem_osPkgsOf {S : Scanners} {d c : String} {p : Pkg} (h : p ∈ osPkgsOf S d c) :
    p.db = d ∧ p.fp = "" ∧ ∃ p0 ∈ S.scanDB d c, p.id = p0.id := by
  unfold osPkgsOf at h
  obtain ⟨p0, hp0, he⟩ := List.mem_map.1 h
  subst he
  exact ⟨rfl, rfl, p0, hp0, rfl⟩

theorem osArts_pkgs {S : Scanners} {rh : Bool} {d : String} {l : FSLayer} {p : Pkg} (h : p ∈ (osArts S rh d l).pkgs) :
    ∃ c, fileOf l d = some c ∧ p ∈ osPkgsOf S d c := by
  unfold osArts at h
  cases hf : fileOf l d with
  | none => simp [hf] at h
  | some c => simp only [hf] at h; exact ⟨c, rfl, h⟩

theorem mentions_osArts {S : Scanners} {rh : Bool} {d : String} {l : FSLayer} (hos : ∀ c, fileOf l d = some c → S.scanDB d c ≠ []) :
    mentions d (osArts S rh d l) = true ↔ ∃ c, fileOf l d = some c := by
  unfold mentions
  rw [List.any_eq_true]
  constructor
  · rintro ⟨p, hp, _⟩
    obtain ⟨c, hc, _⟩ := osArts_pkgs hp
    exact ⟨c, hc⟩
  · rintro ⟨c, hc⟩
    have hne := hos c hc
    cases hs : S.scanDB d c with
    | nil => exact absurd hs hne
    | cons p0 rest =>
      refine ⟨{ p0 with db := d, fp := "" }, ?_, by simp⟩
      simp [osArts, hc, osPkgsOf, hs]

/-- the last layer carrying the database file is the one the flattened image shows -/
theorem present_osDb {S : Scanners} {layers : List FSLayer} (ht : Tame S layers) {d : String} (hd : d ∈ S.allDbs)
    {pre post : List FSLayer} {l : FSLayer} (hl : layers = pre ++ l :: post) {c : String} (hc : fileOf l d = some c)
    (hpost : ∀ l' ∈ post, fileOf l' d = none) : present layers d = some c := by
  rw [present_some_iff]
  refine ⟨pre, l, post, hl, hc, fun l' hl' => ⟨hpost l' hl', ?_⟩⟩
  exact (ht.osDb d hd l' (by rw [hl]; simp [hl'])).1

/-- OS side, report ⇒ image -/
theorem os_env_scan {S : Scanners} {layers : List FSLayer} (ht : Tame S layers) {d : String} (hd : d ∈ S.allDbs)
    {id : String} {es : List Env} (hes : aget id (linuxRep (layers.map (osArts S false d))).envs = some es)
    {e : Env} (he : e ∈ es) : ∃ p ∈ scanImage S layers, p.id = id ∧ p.db = e.db := by
  obtain ⟨es', h1, e', h2, h3⟩ : ∃ es', aget id (linuxRep (layers.map (osArts S false d))).envs = some es' ∧ ∃ e' ∈ es', e'.db = e.db :=
    ⟨es, hes, e, he, rfl⟩
  -- newest-db-wins for the database e.db
  have hnw : ∃ a, lastMention e.db (layers.map (osArts S false d)) = some a ∧ ∃ p ∈ a.pkgs, p.db = e.db ∧ p.id = id := by
    have hok := linuxRep_ok (layers.map (osArts S false d))
    unfold linuxCoalesce at hok
    rcases linuxFill_from _ _ _ hok id es' h1 e' h2 with ⟨es0, h0, _⟩ | ⟨db, p, hm, hid, henv⟩
    · simp at h0
    · obtain ⟨a, hlm, hp, hdb⟩ := mem_linux_entries.1 hm
      have : db = e.db := by rw [← h3]; exact (linuxEnv_db henv).1.symm
      subst this
      exact ⟨a, hlm, p, hp, hdb, hid⟩
  obtain ⟨a, hlm, p, hp, hpdb, hpid⟩ := hnw
  obtain ⟨apre, apost, hdec, _, hnone⟩ := lastMention_newest _ _ _ hlm
  obtain ⟨lpre, l, lpost, hl, _, hfa, hfpost⟩ := map_decomp hdec
  subst hfa
  obtain ⟨c, hc, hpc⟩ := osArts_pkgs hp
  have hdb : e.db = d := by rw [← hpdb]; exact (mem_osPkgsOf hpc).1
  have hpost : ∀ l' ∈ lpost, fileOf l' d = none := by
    intro l' hl'
    have hm : mentions e.db (osArts S false d l') = false := hnone _ (by rw [← hfpost]; exact List.mem_map.2 ⟨l', hl', rfl⟩)
    cases hf : fileOf l' d with
    | none => rfl
    | some c' =>
      have hl'mem : l' ∈ layers := by rw [hl]; simp [hl']
      have := (mentions_osArts (S := S) (rh := false) (d := d) (l := l') (fun c hc => (ht.osDb d hd l' hl'mem).2 c hc)).2 ⟨c', hf⟩
      rw [hdb] at hm; rw [hm] at this; simp at this
  have hpres := present_osDb ht hd hl hc hpost
  refine ⟨p, ?_, hpid, hpdb⟩
  unfold scanImage
  apply List.mem_append_left
  rw [List.mem_flatMap]
  exact ⟨d, hd, by simp [hpres, hpc]⟩

/-- OS side, image ⇒ report -/
theorem os_scan_env {S : Scanners} {layers : List FSLayer} (ht : Tame S layers) {d : String} (hd : d ∈ S.allDbs)
    {c : String} (hpres : present layers d = some c) {p : Pkg} (hp : p ∈ osPkgsOf S d c) :
    ∃ es, aget p.id (linuxRep (layers.map (osArts S false d))).envs = some es ∧ ∃ e ∈ es, e.db = d := by
  obtain ⟨pre, l, post, hl, hc, hpost⟩ := (present_some_iff layers d c).1 hpres
  have hlmem : l ∈ layers := by rw [hl]; simp
  have hment : mentions d (osArts S false d l) = true :=
    (mentions_osArts (fun c hc => (ht.osDb d hd l hlmem).2 c hc)).2 ⟨c, hc⟩
  have hlm : lastMention d (layers.map (osArts S false d)) = some (osArts S false d l) := by
    rw [hl, List.map_append, List.map_cons]
    apply lastMention_of_decomp hment
    intro b hb
    obtain ⟨l', hl', hbe⟩ := List.mem_map.1 hb
    subst hbe
    cases hm : mentions d (osArts S false d l') with
    | false => rfl
    | true =>
      have hl'mem : l' ∈ layers := by rw [hl]; simp [hl']
      obtain ⟨c', hc'⟩ := (mentions_osArts (fun c hc => (ht.osDb d hd l' hl'mem).2 c hc)).1 hm
      rw [(hpost l' hl').1] at hc'; simp at hc'
  have hpa : p ∈ (osArts S false d l).pkgs := by simp [osArts, hc, hp]
  have hm : (d, p) ∈ dbEntries (linuxDbs (layers.map (osArts S false d))) :=
    mem_linux_entries.2 ⟨_, hlm, hpa, (mem_osPkgsOf hp).1⟩
  have hok := linuxRep_ok (layers.map (osArts S false d))
  unfold linuxCoalesce at hok
  exact linuxFill_has _ _ _ hok d p hm

/-! ### OS package databases under the rhel coalescer -/

theorem rhel_layer_decomp {S : Scanners} {layers : List FSLayer} (ht : Tame S layers) {d : String} (hd : d ∈ S.allDbs)
    {apre apost : List Layer} {a : Layer} (hdec : layers.map (osArts S true d) = apre ++ a :: apost)
    (ha : a.pkgs ≠ []) (hpost : ∀ b ∈ apost, b.pkgs = []) :
    ∃ c, present layers d = some c ∧ a.pkgs = osPkgsOf S d c := by
  obtain ⟨lpre, l, lpost, hl, _, hfa, hfpost⟩ := map_decomp hdec
  subst hfa
  cases hc : fileOf l d with
  | none => simp [osArts, hc] at ha
  | some c =>
    refine ⟨c, ?_, by simp [osArts, hc]⟩
    apply present_osDb ht hd hl hc
    intro l' hl'
    have hempty : (osArts S true d l').pkgs = [] := hpost _ (by rw [← hfpost]; exact List.mem_map.2 ⟨l', hl', rfl⟩)
    cases hf : fileOf l' d with
    | none => rfl
    | some c' =>
      exfalso
      have hl'mem : l' ∈ layers := by rw [hl]; simp [hl']
      have hne := (ht.osDb d hd l' hl'mem).2 c' hf
      simp only [osArts, hf, osPkgsOf, List.map_eq_nil_iff] at hempty
      exact hne hempty

/-- rhel side, report ⇒ image -/
theorem rhel_env_scan {S : Scanners} {layers : List FSLayer} (ht : Tame S layers) {d : String} (hd : d ∈ S.allDbs)
    {id : String} {es : List Env} (hes : aget id (rhelRep (layers.map (osArts S true d))).envs = some es)
    {e : Env} (he : e ∈ es) : ∃ p ∈ scanImage S layers, p.id = id ∧ p.db = e.db := by
  obtain ⟨r', h1, hinv, _⟩ := rhelCoalesce_ok (S := False) (layers.map (osArts S true d))
  rw [rhelRep_ok] at h1; cases h1
  obtain ⟨hpk, hall⟩ := hinv.envOk id es (mem_of_aget hes)
  -- the environment's database is d
  obtain ⟨⟨a', ha', _, q', hq', hq'db, _⟩, _⟩ := hall e he
  obtain ⟨l', _, hla'⟩ := List.mem_map.1 ha'
  subst hla'
  obtain ⟨c', _, hq'c⟩ := osArts_pkgs hq'
  have hedb : e.db = d := by rw [← hq'db]; exact (mem_osPkgsOf hq'c).1
  -- the id is in the last package-bearing layer
  obtain ⟨q, hq, hqid⟩ := (rhelCoalesce_ids _ _ (rhelRep_ok _) id).1 hpk
  have hne : lastPkgs (layers.map (osArts S true d)) ≠ [] := by intro h0; rw [h0] at hq; simp at hq
  obtain ⟨apre, a, apost, hdec, hlast, hpost⟩ := lastPkgs_spec hne
  obtain ⟨c, hpres, hapk⟩ := rhel_layer_decomp ht hd hdec (by rw [← hlast]; exact hne) hpost
  rw [hlast, hapk] at hq
  refine ⟨q, ?_, hqid, by rw [hedb]; exact (mem_osPkgsOf hq).1⟩
  unfold scanImage
  apply List.mem_append_left
  rw [List.mem_flatMap]
  exact ⟨d, hd, by simp [hpres, hq]⟩

/-- rhel side, image ⇒ report -/
theorem rhel_scan_env {S : Scanners} {layers : List FSLayer} (_ht : Tame S layers) {d : String} (_hd : d ∈ S.allDbs)
    {c : String} (hpres : present layers d = some c) {p : Pkg} (hp : p ∈ osPkgsOf S d c) :
    ∃ es, aget p.id (rhelRep (layers.map (osArts S true d))).envs = some es ∧ ∃ e ∈ es, e.db = d := by
  obtain ⟨pre, l, post, hl, hc, hpost⟩ := (present_some_iff layers d c).1 hpres
  have hdec : layers.map (osArts S true d) = pre.map (osArts S true d) ++ osArts S true d l :: post.map (osArts S true d) := by
    rw [hl]; simp
  have hapk : (osArts S true d l).pkgs = osPkgsOf S d c := by simp [osArts, hc]
  have hne : (osArts S true d l).pkgs ≠ [] := by rw [hapk]; intro h0; rw [h0] at hp; simp at hp
  have hlater : ∀ b ∈ post.map (osArts S true d), b.pkgs = [] := by
    intro b hb
    obtain ⟨l', hl', hbe⟩ := List.mem_map.1 hb
    subst hbe
    simp [osArts, (hpost l' hl').1]
  have hlast := lastPkgs_decomp hdec hne hlater
  obtain ⟨r', h1, hinv, _⟩ := rhelCoalesce_ok (S := False) (layers.map (osArts S true d))
  rw [rhelRep_ok] at h1; cases h1
  have hpk := (rhelCoalesce_ids _ _ (rhelRep_ok (layers.map (osArts S true d))) p.id).2 ⟨p, by rw [hlast, hapk]; exact hp, rfl⟩
  cases hg : aget p.id (rhelRep (layers.map (osArts S true d))).pkgs with
  | none => rw [hg] at hpk; simp at hpk
  | some p' =>
    obtain ⟨_, es, hes, hnee⟩ := hinv.pkgEnv p.id p' (mem_of_aget hg)
    cases es with
    | nil => exact absurd rfl hnee
    | cons e es' =>
      refine ⟨e :: es', hes, e, List.mem_cons_self, ?_⟩
      obtain ⟨⟨a', ha', _, q', hq', hq'db, _⟩, _⟩ := (hinv.envOk p.id (e :: es') (mem_of_aget hes)).2 e List.mem_cons_self
      obtain ⟨l', _, hla'⟩ := List.mem_map.1 ha'
      subst hla'
      obtain ⟨c', _, hq'c⟩ := osArts_pkgs hq'
      rw [← hq'db]; exact (mem_osPkgsOf hq'c).1

/-- OS side for either coalescer, report ⇒ image -/
theorem db_env_scan {S : Scanners} {layers : List FSLayer} (ht : Tame S layers) {r : Report} (hr : r ∈ dbReps S layers)
    {id : String} {es : List Env} (hm : (id, es) ∈ r.envs) {e : Env} (he : e ∈ es) :
    ∃ p ∈ scanImage S layers, p.id = id ∧ p.db = e.db := by
  rcases List.mem_append.1 hr with hr | hr
  · obtain ⟨d, hd, hre⟩ := List.mem_map.1 hr
    subst hre
    have hu := (linuxCoalesce_pkgs (linuxRep_ok (layers.map (osArts S false d)))).2.1
    exact os_env_scan ht (List.mem_append_left _ hd) (aget_of_mem_uniq hu hm) he
  · obtain ⟨d, hd, hre⟩ := List.mem_map.1 hr
    subst hre
    have hu := (rhelCoalesce_pkgs (rhelRep_ok (layers.map (osArts S true d)))).2.1
    exact rhel_env_scan ht (List.mem_append_right _ hd) (aget_of_mem_uniq hu hm) he

/-- OS side for either coalescer, image ⇒ report -/
theorem db_scan_env {S : Scanners} {layers : List FSLayer} (ht : Tame S layers) {d : String} (hd : d ∈ S.allDbs)
    {c : String} (hpres : present layers d = some c) {p : Pkg} (hp : p ∈ osPkgsOf S d c) :
    ∃ r ∈ dbReps S layers, ∃ es, aget p.id r.envs = some es ∧ ∃ e ∈ es, e.db = d := by
  rcases List.mem_append.1 hd with h | h
  · exact ⟨_, List.mem_append_left _ (List.mem_map.2 ⟨d, h, rfl⟩), os_scan_env ht hd hpres hp⟩
  · exact ⟨_, List.mem_append_right _ (List.mem_map.2 ⟨d, h, rfl⟩), rhel_scan_env ht hd hpres hp⟩

/-! ### the `Files` map of the merged report -/

theorem keysUniq_whFold (arts : List Layer) (m : List (String × File)) (h : KeysUniq m) : KeysUniq (whFold arts m) := by
  unfold whFold
  induction arts generalizing m with
  | nil => exact h
  | cons a rest ih =>
    simp only [List.foldl_cons]
    apply ih
    generalize a.files = fs
    induction fs generalizing m with
    | nil => exact h
    | cons f fs ihf => exact ihf _ (keysUniq_aset _ _ h)

theorem dbReps_files {S : Scanners} {layers : List FSLayer} {r : Report} (h : r ∈ dbReps S layers) : r.files = [] := by
  rcases List.mem_append.1 h with h | h
  · obtain ⟨d, _, hr⟩ := List.mem_map.1 h
    obtain ⟨r', h1, _, _, h4⟩ := linuxCoalesce_ok (S := False) (layers.map (osArts S false d))
    rw [linuxRep_ok] at h1; cases h1
    rw [← hr]; exact h4
  · obtain ⟨d, _, hr⟩ := List.mem_map.1 h
    obtain ⟨r', h1, _, h4⟩ := rhelCoalesce_ok (S := False) (layers.map (osArts S true d))
    rw [rhelRep_ok] at h1; cases h1
    rw [← hr]; exact h4

theorem fileRep_files (E : FileEco) (layers : List FSLayer) : (fileRep E layers).files = [] := by
  unfold fileRep
  by_cases hg : E.gobin = true
  · simp only [hg, if_true]
    exact (gobinFold_inv (S := False) _ _ {} (fun _ h => h) (fun h => h.elim) (inv_of_nil rfl rfl)).2.2
  · simp only [hg, Bool.false_eq_true, if_false]
    exact (langFold_inv (S := False) _ _ {} (fun _ h => h) (inv_of_nil rfl rfl)).2.2

/-- every entry of the merged `Files` map is a whiteout of the layer it is stored under -/
theorem merged_files_from {S : Scanners} {layers : List FSLayer} {k : String} {f : File}
    (h : (k, f) ∈ (merged S layers).files) :
    ∃ l ∈ layers, l.hash = k ∧ f.path ∈ whiteoutsOf l ∧ f.kind = whiteoutKind := by
  rcases mergeSR_files_from _ _ k f h with h1 | ⟨r, hr, h1⟩
  · simp at h1
  · rcases reps_cases hr with h2 | ⟨E, _, h2⟩ | h2
    · rw [dbReps_files h2] at h1; simp at h1
    · rw [h2, fileRep_files] at h1; simp at h1
    · rw [h2] at h1
      simp only [whRep] at h1
      rcases whFold_mem h1 with h3 | ⟨a, ha, h3, h4⟩
      · simp at h3
      · obtain ⟨l, hl, hla⟩ := List.mem_map.1 ha
        subst hla
        simp only [whArts, List.mem_map] at h4
        obtain ⟨w, hw, hwf⟩ := h4
        exact ⟨l, hl, h3, by rw [← hwf]; exact hw, by rw [← hwf]⟩

/-- with one whiteout per layer, every whiteout is in the merged `Files` map (under the digest of
    its layer — which every layer with that digest shares) -/
theorem merged_files_has {S : Scanners} {layers : List FSLayer} (ht : Tame S layers) {l : FSLayer} (hl : l ∈ layers)
    {w : String} (hw : whiteoutsOf l = [w]) :
    (l.hash, { path := w, kind := whiteoutKind }) ∈ (merged S layers).files := by
  obtain ⟨pre, l', post, hdec, hh, hent, hnot⟩ := ht.last_of_hash hl
  have hw' : whiteoutsOf l' = [w] := by rw [whiteoutsOf_congr hent]; exact hw
  have hpost : ∀ b ∈ post.map whArts, b.hash ≠ (whArts l').hash := by
    intro b hb
    obtain ⟨l2, hl2, hbe⟩ := List.mem_map.1 hb
    subst hbe
    intro heq
    apply hnot
    simp only [whArts] at heq
    rw [← hh, ← heq]; exact List.mem_map.2 ⟨l2, hl2, rfl⟩
  have hmem : ((whArts l').hash, ({ path := w, kind := whiteoutKind } : File)) ∈ (whRep layers).files := by
    simp only [whRep]
    rw [hdec, List.map_append, List.map_cons]
    exact whFold_single [] (by simp [whArts, hw']) hpost
  have hk : (whArts l').hash = l.hash := hh
  rw [hk] at hmem
  exact mergeSR_files_last _ _ _ _ _ (keysUniq_whFold _ _ (by simp [KeysUniq])) hmem

/-! ### deletion by the resolver = hidden by a later layer -/

theorem pkgLayer_const (hs : List String) (es : List Env) (h : String) (hall : ∀ e ∈ es, e.intro = h) :
    pkgLayer hs es h = h := by
  induction es with
  | nil => rfl
  | cons e es ih =>
    simp only [pkgLayer]
    have he := hall e List.mem_cons_self
    by_cases hc : sorterIdx hs e.intro > sorterIdx hs h
    · simp only [hc, if_true]; rw [he]; exact ih fun x hx => hall x (List.mem_cons_of_mem _ hx)
    · simp only [hc, if_false]; exact ih fun x hx => hall x (List.mem_cons_of_mem _ hx)

theorem pkgDeleted_nofp {S : Scanners} {layers : List FSLayer} (ht : Tame S layers) (p : Pkg) (hfp : p.fp = "") (pl : String) :
    pkgDeleted (layers.map (·.hash)) (merged S layers).files p pl = false := by
  unfold pkgDeleted
  rw [List.any_eq_false]
  intro kf hkf
  obtain ⟨k, f⟩ := kf
  obtain ⟨l, hl, _, hw, _⟩ := merged_files_from hkf
  have := (ht.delSpec l hl f.path hw).1
  simp [hfp, this]

/-- a position after `pre.length` of `pre ++ l :: post` lies in `post` -/
theorem mem_post_of_longer {α : Type} {pre post q1 q2 : List α} {l l2 : α}
    (h : pre ++ l :: post = q1 ++ l2 :: q2) (hlen : q1.length > pre.length) : l2 ∈ post := by
  induction pre generalizing q1 with
  | nil =>
    cases q1 with
    | nil => simp at hlen
    | cons x q1' => simp at h; rw [h.2]; simp
  | cons y pre ih =>
    cases q1 with
    | nil => simp at hlen
    | cons x q1' =>
      simp at h
      exact ih h.2 (by simpa using hlen)

/-- for a package whose newest environment is layer `l` (the last position of its digest): the
    resolver deletes it exactly when a later layer hides its file -/
theorem pkgDeleted_iff_hidden {S : Scanners} {layers : List FSLayer} (ht : Tame S layers)
    {pre post : List FSLayer} {l : FSLayer} (hdec : layers = pre ++ l :: post)
    (hlast : l.hash ∉ post.map (·.hash))
    {l0 : FSLayer} (hl0 : l0 ∈ layers) {p : Pkg} (hp : p ∈ allFilePkgs S l0) :
    pkgDeleted (layers.map (·.hash)) (merged S layers).files p l.hash = true ↔ ∃ l' ∈ post, hides l' p.fp = true := by
  have hmap : layers.map (·.hash) = pre.map (·.hash) ++ l.hash :: post.map (·.hash) := by rw [hdec]; simp
  have hidx : sorterIdx (layers.map (·.hash)) l.hash = pre.length := by
    rw [hmap, sorterIdx_split _ _ _ hlast]; simp
  unfold pkgDeleted
  rw [List.any_eq_true]
  constructor
  · rintro ⟨⟨k, f⟩, hkf, hcond⟩
    simp only [Bool.and_eq_true, decide_eq_true_eq] at hcond
    obtain ⟨⟨_, hlater⟩, hdel⟩ := hcond
    obtain ⟨l1, hl1, hk, hw, _⟩ := merged_files_from hkf
    have hcov : covers f.path p.fp = true := by rw [← (ht.delSpec l1 hl1 f.path hw).2 p.fp]; exact hdel
    -- the last layer with digest k: it has the same whiteout, and lies after l
    obtain ⟨q1, l2, q2, hdec2, hh2, hent2, hnot2⟩ := ht.last_of_hash hl1
    have hidx2 : sorterIdx (layers.map (·.hash)) k = q1.length := by
      have : layers.map (·.hash) = q1.map (·.hash) ++ k :: q2.map (·.hash) := by rw [hdec2]; simp [hh2, hk]
      rw [this, sorterIdx_split _ _ _ (by rw [← hk]; exact hnot2)]; simp
    rw [hidx, hidx2] at hlater
    have hpost : l2 ∈ post := mem_post_of_longer (hdec.symm.trans hdec2) hlater
    have hl2mem : l2 ∈ layers := by rw [hdec2]; simp
    refine ⟨l2, hpost, ?_⟩
    rw [ht.hidesSpec l2 hl2mem l0 hl0 p hp, List.any_eq_true]
    refine ⟨f.path, ?_, hcov⟩
    rw [← (ht.oneWhiteout l2 hl2mem).2, whiteoutsOf_congr hent2]; exact hw
  · rintro ⟨l', hl', hh⟩
    have hl'mem : l' ∈ layers := by rw [hdec]; simp [hl']
    rw [ht.hidesSpec l' hl'mem l0 hl0 p hp, List.any_eq_true] at hh
    obtain ⟨w, hw, hcov⟩ := hh
    rw [← (ht.oneWhiteout l' hl'mem).2] at hw
    have hone : whiteoutsOf l' = [w] := by
      have hlen := (ht.oneWhiteout l' hl'mem).1
      cases hws : whiteoutsOf l' with
      | nil => rw [hws] at hw; simp at hw
      | cons x xs =>
        rw [hws] at hw hlen
        cases xs with
        | nil => simp at hw; rw [hw]
        | cons y ys => simp at hlen
    refine ⟨(l'.hash, { path := w, kind := whiteoutKind }), merged_files_has ht hl'mem hone, ?_⟩
    simp only [Bool.and_eq_true, decide_eq_true_eq]
    refine ⟨⟨by simp, ?_⟩, ?_⟩
    · rw [hmap]
      exact later_of_mem_post hlast (List.mem_map.2 ⟨l', hl', rfl⟩)
    · rw [(ht.delSpec l' hl'mem w (by rw [hone]; simp)).2 p.fp]; exact hcov

/-! ### which report an id comes from -/

theorem os_pkg_origin {S : Scanners} {layers : List FSLayer} {r : Report} (hr : r ∈ dbReps S layers)
    {id : String} {p : Pkg} (hm : (id, p) ∈ r.pkgs) :
    p.fp = "" ∧ ∃ d ∈ S.allDbs, ∃ l ∈ layers, ∃ c, fileOf l d = some c ∧ ∃ p0 ∈ S.scanDB d c, p0.id = id := by
  have key : ∀ rh d, p.id = id → p ∈ allPkgs (layers.map (osArts S rh d)) → d ∈ S.allDbs →
      p.fp = "" ∧ ∃ d ∈ S.allDbs, ∃ l ∈ layers, ∃ c, fileOf l d = some c ∧ ∃ p0 ∈ S.scanDB d c, p0.id = id := by
    intro rh d hid hall hd
    obtain ⟨a, ha, hpa⟩ := List.mem_flatMap.1 hall
    obtain ⟨l, hl, hla⟩ := List.mem_map.1 ha
    subst hla
    obtain ⟨c, hc, hpc⟩ := osArts_pkgs hpa
    obtain ⟨_, hfp, p0, hp0, hid0⟩ := mem_osPkgsOf hpc
    exact ⟨hfp, d, hd, l, hl, c, hc, p0, hp0, by rw [← hid0, hid]⟩
  rcases List.mem_append.1 hr with hr | hr
  · obtain ⟨d, hd, hre⟩ := List.mem_map.1 hr
    subst hre
    obtain ⟨r', h1, hinv, _, _⟩ := linuxCoalesce_ok (S := False) (layers.map (osArts S false d))
    rw [linuxRep_ok] at h1; cases h1
    exact key false d (hinv.pkgEnv id p hm).1
      ((linuxCoalesce_pkgs (linuxRep_ok (layers.map (osArts S false d)))).2.2 id p hm) (List.mem_append_left _ hd)
  · obtain ⟨d, hd, hre⟩ := List.mem_map.1 hr
    subst hre
    obtain ⟨r', h1, hinv, _⟩ := rhelCoalesce_ok (S := False) (layers.map (osArts S true d))
    rw [rhelRep_ok] at h1; cases h1
    exact key true d (hinv.pkgEnv id p hm).1
      ((rhelCoalesce_pkgs (rhelRep_ok (layers.map (osArts S true d)))).2.2 id p hm) (List.mem_append_right _ hd)

theorem os_env_has_pkg {S : Scanners} {layers : List FSLayer} {r : Report} (hr : r ∈ dbReps S layers)
    {id : String} {es : List Env} (hm : (id, es) ∈ r.envs) : ∃ p, (id, p) ∈ r.pkgs := by
  have key : ∀ {B : String → Env → Prop}, Inv False B r → ∃ p, (id, p) ∈ r.pkgs := by
    intro B hinv
    have := (hinv.envOk id es hm).1
    cases hg : aget id r.pkgs with
    | none => simp [hg] at this
    | some p => exact ⟨p, mem_of_aget hg⟩
  rcases List.mem_append.1 hr with hr | hr
  · obtain ⟨d, _, hre⟩ := List.mem_map.1 hr
    subst hre
    obtain ⟨r', h1, hinv, _, _⟩ := linuxCoalesce_ok (S := False) (layers.map (osArts S false d))
    rw [linuxRep_ok] at h1; cases h1
    exact key hinv
  · obtain ⟨d, _, hre⟩ := List.mem_map.1 hr
    subst hre
    obtain ⟨r', h1, hinv, _⟩ := rhelCoalesce_ok (S := False) (layers.map (osArts S true d))
    rw [rhelRep_ok] at h1; cases h1
    exact key hinv

/-- a file package id never occurs in an OS report -/
theorem file_id_not_os {S : Scanners} {layers : List FSLayer} (ht : Tame S layers)
    {l0 : FSLayer} (hl0 : l0 ∈ layers) {p0 : Pkg} (hp0 : p0 ∈ allFilePkgs S l0)
    {r : Report} (hr : r ∈ dbReps S layers) {p : Pkg} (hm : (p0.id, p) ∈ r.pkgs) : False := by
  obtain ⟨_, d, hd, l, hl, c, hc, q, hq, hqid⟩ := os_pkg_origin hr hm
  exact ht.disjoint d hd l hl c hc q hq l0 hl0 p0 hp0 hqid

theorem lastLang_layers {E : FileEco} {layers : List FSLayer} {id : String} {a : Layer} {pL : Pkg}
    (h : lastLang id (layers.map (fileArts E)) = some (a, pL)) :
    ∃ lpre l lpost, layers = lpre ++ l :: lpost ∧ a = fileArts E l ∧ pL ∈ filePkgs E l ∧ pL.id = id ∧
      ∀ l' ∈ lpost, ∀ p ∈ filePkgs E l', p.id ≠ id := by
  obtain ⟨apre, apost, h1, _, h3, h4⟩ := lastLang_some h
  obtain ⟨lpre, l, lpost, hl, _, hfa, hfpost⟩ := map_decomp h1
  refine ⟨lpre, l, lpost, hl, hfa.symm, ?_, ?_, ?_⟩
  · have := (lastPkg_some h3).1; rw [← hfa] at this; exact this
  · exact (lastPkg_some h3).2
  · intro l' hl'
    have := lastLang_none.1 h4 (fileArts E l') (by rw [← hfpost]; exact List.mem_map.2 ⟨l', hl', rfl⟩)
    exact lastPkg_fileArts_none.1 this

theorem lastLang_exists {E : FileEco} {layers : List FSLayer} {l : FSLayer} (hl : l ∈ layers) {p : Pkg}
    (hp : p ∈ filePkgs E l) : ∃ a pL, lastLang p.id (layers.map (fileArts E)) = some (a, pL) := by
  cases h : lastLang p.id (layers.map (fileArts E)) with
  | some x => exact ⟨x.1, x.2, rfl⟩
  | none =>
    have := lastLang_none.1 h (fileArts E l) (List.mem_map.2 ⟨l, hl, rfl⟩)
    exact absurd rfl (lastPkg_fileArts_none.1 this p hp)

theorem fileRep_get {S : Scanners} {layers : List FSLayer} (ht : Tame S layers) {E : FileEco} (hE : E ∈ S.fecos)
    (id : String) :
    aget id (fileRep E layers).envs =
      (match lastLang id (layers.map (fileArts E)) with
       | some (a, p) => some [langEnv a p]
       | none => none) ∧
    aget id (fileRep E layers).pkgs =
      (match lastLang id (layers.map (fileArts E)) with
       | some (_, p) => some p
       | none => none) := by
  obtain ⟨h1, h2⟩ := langFold_get (layers.map (fileArts E)) {} id
  rw [fileRep_lang ht hE, h1, h2]
  cases lastLang id (layers.map (fileArts E)) <;> simp

theorem fileRep_uniq {S : Scanners} {layers : List FSLayer} (ht : Tame S layers) {E : FileEco} (hE : E ∈ S.fecos) :
    KeysUniq (fileRep E layers).envs ∧ KeysUniq (fileRep E layers).pkgs := by
  rw [fileRep_lang ht hE]
  exact keysUniq_langFold _ {} (by simp [KeysUniq]) (by simp [KeysUniq])

theorem whRep_empty (layers : List FSLayer) : (whRep layers).envs = [] ∧ (whRep layers).pkgs = [] := ⟨rfl, rfl⟩

/-- an id in a file ecosystem's report is the id of a package its scanner found in some layer -/
theorem fileRep_id_origin {S : Scanners} {layers : List FSLayer} (ht : Tame S layers) {E : FileEco} (hE : E ∈ S.fecos)
    {id : String} (h : (aget id (fileRep E layers).envs).isSome ∨ (aget id (fileRep E layers).pkgs).isSome) :
    ∃ l ∈ layers, ∃ p ∈ filePkgs E l, p.id = id := by
  obtain ⟨g1, g2⟩ := fileRep_get ht hE id
  cases hlast : lastLang id (layers.map (fileArts E)) with
  | none => rw [hlast] at g1 g2; simp only at g1 g2; rw [g1, g2] at h; simp at h
  | some apl =>
    obtain ⟨a, pL⟩ := apl
    obtain ⟨lpre, l, lpost, hl, _, hpL, hpid, _⟩ := lastLang_layers hlast
    exact ⟨l, by rw [hl]; simp, pL, hpL, hpid⟩

theorem pairwise_mem {α : Type} {R : α → α → Prop} {l : List α} (h : l.Pairwise R) {a b : α} (ha : a ∈ l) (hb : b ∈ l) :
    a = b ∨ R a b ∨ R b a := by
  induction l with
  | nil => simp at ha
  | cons x xs ih =>
    obtain ⟨h1, h2⟩ := List.pairwise_cons.1 h
    rcases List.mem_cons.1 ha with ha1 | ha2 <;> rcases List.mem_cons.1 hb with hb1 | hb2
    · exact Or.inl (ha1.trans hb1.symm)
    · rw [ha1]; exact Or.inr (Or.inl (h1 b hb2))
    · rw [hb1]; exact Or.inr (Or.inr (h1 a ha2))
    · exact ih h2 ha2 hb2

/-- two file ecosystems that both know an id are the same ecosystem -/
theorem eco_of_id {S : Scanners} {layers : List FSLayer} (ht : Tame S layers) {E E' : FileEco}
    (hE : E ∈ S.fecos) (hE' : E' ∈ S.fecos) {id : String}
    {l : FSLayer} (hl : l ∈ layers) {p : Pkg} (hp : p ∈ filePkgs E l) (hpid : p.id = id)
    {l' : FSLayer} (hl' : l' ∈ layers) {p' : Pkg} (hp' : p' ∈ filePkgs E' l') (hpid' : p'.id = id) : E = E' := by
  rcases pairwise_mem ht.ecosApart hE hE' with h | h | h
  · exact h
  · exact absurd (hpid.trans hpid'.symm) (h l hl p hp l' hl' p' hp')
  · exact absurd (hpid'.trans hpid.symm) (h l' hl' p' hp' l hl p hp)

/-- the merged report's view of a file package id: one kind of environment, the last layer's package -/
theorem merged_file_id {S : Scanners} {layers : List FSLayer} (ht : Tame S layers) {E : FileEco} (hE : E ∈ S.fecos)
    {id : String} {a : Layer} {pL : Pkg}
    (hlast : lastLang id (layers.map (fileArts E)) = some (a, pL)) :
    (∃ ws, aget id (merged S layers).envs = some ws ∧ langEnv a pL ∈ ws ∧ ∀ e ∈ ws, e = langEnv a pL) ∧
    aget id (merged S layers).pkgs = some pL := by
  obtain ⟨lpre, l, lpost, hl, _, hpL, hpid, _⟩ := lastLang_layers hlast
  have hlmem : l ∈ layers := by rw [hl]; simp
  have hpLall : pL ∈ allFilePkgs S l := mem_allFilePkgs.2 ⟨E, hE, hpL⟩
  obtain ⟨g1, g2⟩ := fileRep_get ht hE id
  rw [hlast] at g1 g2
  simp only at g1 g2
  have hin := fileRep_mem_reps (layers := layers) hE
  constructor
  · have hex := (mergeSR_envs ((dbReps S layers ++ fileReps S layers) ++ [whRep layers]) {} (by simp [KeysUniq]) id (langEnv a pL)).2
      (Or.inr ⟨fileRep E layers, hin, [langEnv a pL], mem_of_aget g1, by simp⟩)
    obtain ⟨ws, hws, hmem⟩ := hex
    refine ⟨ws, hws, hmem, ?_⟩
    intro e he
    rcases (mergeSR_envs ((dbReps S layers ++ fileReps S layers) ++ [whRep layers]) {} (by simp [KeysUniq]) id e).1 ⟨ws, hws, he⟩ with
      ⟨es, h0, _⟩ | ⟨r, hr, es, h1, h2⟩
    · simp at h0
    · rcases reps_cases hr with h3 | ⟨E', hE', h3⟩ | h3
      · exfalso
        obtain ⟨p, hp⟩ := os_env_has_pkg h3 h1
        rw [← hpid] at hp
        exact file_id_not_os ht hlmem hpLall h3 hp
      · subst h3
        have hsome : (aget id (fileRep E' layers).envs).isSome := aget_isSome_of_mem h1
        obtain ⟨l', hl', p', hp', hpid'⟩ := fileRep_id_origin ht hE' (Or.inl hsome)
        have : E = E' := eco_of_id ht hE hE' hlmem hpL hpid hl' hp' hpid'
        subst this
        have := aget_of_mem_uniq (fileRep_uniq ht hE).1 h1
        rw [g1] at this
        cases this
        simpa using h2
      · subst h3; simp [whRep] at h1
  · have hsome := mergeSR_pkgs_has ((dbReps S layers ++ fileReps S layers) ++ [whRep layers]) {} id
      (Or.inr ⟨fileRep E layers, hin, pL, mem_of_aget g2⟩)
    cases hg : aget id (merged S layers).pkgs with
    | none => rw [merged] at hg; rw [hg] at hsome; simp at hsome
    | some p =>
      rcases mergeSR_pkgs_from _ _ id p (mem_of_aget hg) with h0 | ⟨r, hr, h1⟩
      · simp at h0
      · rcases reps_cases hr with h3 | ⟨E', hE', h3⟩ | h3
        · exfalso
          rw [← hpid] at h1
          exact file_id_not_os ht hlmem hpLall h3 h1
        · subst h3
          have hsome : (aget id (fileRep E' layers).pkgs).isSome := aget_isSome_of_mem h1
          obtain ⟨l', hl', p', hp', hpid'⟩ := fileRep_id_origin ht hE' (Or.inr hsome)
          have : E = E' := eco_of_id ht hE hE' hlmem hpL hpid hl' hp' hpid'
          subst this
          have := aget_of_mem_uniq (fileRep_uniq ht hE).2 h1
          rw [g2] at this
          exact congrArg some (Option.some.inj this).symm
        · subst h3; simp [whRep] at h1

/-- the layer `lastLang` names is the last position of its digest -/
theorem lastLang_hash_last {S : Scanners} {layers : List FSLayer} (ht : Tame S layers) {E : FileEco}
    {lpre lpost : List FSLayer} {l : FSLayer} (hl : layers = lpre ++ l :: lpost) {pL : Pkg} (hpL : pL ∈ filePkgs E l)
    (hlater : ∀ l' ∈ lpost, ∀ p ∈ filePkgs E l', p.id ≠ pL.id) : l.hash ∉ lpost.map (·.hash) := by
  intro hm
  obtain ⟨l', hl', hh⟩ := List.mem_map.1 hm
  have hl'mem : l' ∈ layers := by rw [hl]; simp [hl']
  have hent := ht.digests l' hl'mem l (by rw [hl]; simp) hh
  have : pL ∈ filePkgs E l' := by rw [filePkgs_congr E hent]; exact hpL
  exact hlater l' hl' pL this rfl

/-! ### the composition theorem -/

theorem delOf_lang {S : Scanners} {layers : List FSLayer} {id : String} {p : Pkg} {e0 : Env} {es : List Env} {h : String}
    (hws : aget id (merged S layers).envs = some (e0 :: es)) (hall : ∀ e ∈ e0 :: es, e.intro = h) :
    delOf (layers.map (·.hash)) (merged S layers) id p =
      pkgDeleted (layers.map (·.hash)) (merged S layers).files p h := by
  unfold delOf
  rw [hws]
  simp only
  rw [hall e0 List.mem_cons_self, pkgLayer_const _ _ _ fun e he => hall e (List.mem_cons_of_mem _ he)]

theorem hex_id (S : Scanners) (layers : List FSLayer) (_ht : Tame S layers) (r : Report)
    (hr : resolve (layers.map (·.hash)) (merged S layers) = some r) (id : String) (p : Pkg)
    (hp : aget id (merged S layers).pkgs = some p) (hdel : delOf (layers.map (·.hash)) (merged S layers) id p = false) :
    aget id r.envs = aget id (merged S layers).envs :=
  (resolve_exact (layers.map (·.hash)) (merged S layers) r (merged_inv S layers) (merged_uniq S layers).pkgs hr id).2 p hp hdel

theorem index_eq_flatten {S : Scanners} {layers : List FSLayer} (ht : Tame S layers) :
    ∃ r, indexModel S layers = some r ∧
      ∀ id db, (∃ es, aget id r.envs = some es ∧ ∃ e ∈ es, e.db = db) ↔
        ∃ p ∈ scanImage S layers, p.id = id ∧ p.db = db := by
  obtain ⟨r, hr, _⟩ := resolve_ok (layers.map (·.hash)) (merged S layers) (merged_inv S layers)
  refine ⟨r, by rw [indexModel_eq]; exact hr, ?_⟩
  intro id db
  have hex := resolve_exact (layers.map (·.hash)) (merged S layers) r (merged_inv S layers) (merged_uniq S layers).pkgs hr id
  constructor
  · -- report ⇒ image
    rintro ⟨es, hes, e, he, hdb⟩
    obtain ⟨hMenvs, p, hMp, hnd⟩ := hex.1 es hes
    rcases (mergeSR_envs _ {} (by simp [KeysUniq]) id e).1 ⟨es, hMenvs, he⟩ with ⟨es0, h0, _⟩ | ⟨rr, hrr, es', h1, h2⟩
    · simp at h0
    · rcases reps_cases hrr with hos | ⟨E, hE, hlang⟩ | hwh
      · obtain ⟨q, hq, hqid, hqdb⟩ := db_env_scan ht hos h1 h2
        exact ⟨q, hq, hqid, by rw [hqdb, hdb]⟩
      · subst hlang
        have hg := aget_of_mem_uniq (fileRep_uniq ht hE).1 h1
        obtain ⟨g1, _⟩ := fileRep_get ht hE id
        rw [hg] at g1
        cases hlast : lastLang id (layers.map (fileArts E)) with
        | none => rw [hlast] at g1; simp at g1
        | some apl =>
          obtain ⟨a, pL⟩ := apl
          rw [hlast] at g1
          simp only [Option.some.injEq] at g1
          rw [g1] at h2
          simp only [List.mem_singleton] at h2
          obtain ⟨lpre, l, lpost, hl, ha, hpL, hpid, hlater⟩ := lastLang_layers hlast
          have hlmem : l ∈ layers := by rw [hl]; simp
          have hpLall : pL ∈ allFilePkgs S l := mem_allFilePkgs.2 ⟨E, hE, hpL⟩
          have hhash : l.hash ∉ lpost.map (·.hash) :=
            lastLang_hash_last ht hl hpL (fun l' hl' q hq => by rw [hpid]; exact hlater l' hl' q hq)
          obtain ⟨⟨ws, hws, _, hall⟩, hMpL⟩ := merged_file_id ht hE hlast
          rw [hMenvs] at hws; cases hws
          rw [hMpL] at hMp; cases hMp
          -- not deleted: no later layer hides the file
          have hintro : ∀ e' ∈ es, e'.intro = l.hash := by
            intro e' he'; rw [hall e' he', ha]; rfl
          have hnothid : ∀ l' ∈ lpost, hides l' p.fp = false := by
            intro l' hl'
            cases hh : hides l' p.fp with
            | false => rfl
            | true =>
              have := (pkgDeleted_iff_hidden ht hl hhash hlmem hpLall).2 ⟨l', hl', hh⟩
              cases es with
              | nil => simp at he
              | cons e0 es0 =>
                have hdel := delOf_lang (p := p) hMenvs hintro
                rw [hnd, this] at hdel; simp at hdel
          obtain ⟨q, c, hmem, hwq, hat⟩ := mem_filePkgs.1 hpL
          obtain ⟨hfp, p00, hscan, hid00, _⟩ := filePkgsAt_mem hat
          have hfile : fileOf l q = some c := fileOf_of_mem (ht.paths l hlmem) hmem hwq
          have hpres : present layers q = some c := by
            rw [present_some_iff]
            refine ⟨lpre, l, lpost, hl, hfile, fun l' hl' => ⟨?_, by rw [← hfp]; exact hnothid l' hl'⟩⟩
            cases hf' : fileOf l' q with
            | none => rfl
            | some c' =>
              exfalso
              have hpw := ht.noOverwrite E hE
              rw [hl, List.pairwise_append] at hpw
              rcases (List.pairwise_cons.1 hpw.2.1).1 l' hl' (q, Entry.file c) hmem c hfile p00 hscan c' hf' with
                ⟨p', hs', hid'⟩ | hhid
              · obtain ⟨hm', hw'⟩ := fileOf_some hf'
                have : ({ p' with fp := q } : Pkg) ∈ filePkgs E l' :=
                  mem_filePkgs.2 ⟨q, c', hm', hw', List.mem_map.2 ⟨p', hs', rfl⟩⟩
                apply hlater l' hl' _ this
                simp only
                rw [hid', ← hid00, hpid]
              · have := hnothid l' hl'
                rw [hfp] at this
                simp only at hhid
                rw [this] at hhid; simp at hhid
          refine ⟨p, ?_, hpid, ?_⟩
          · unfold scanImage
            apply List.mem_append_right
            rw [List.mem_flatMap]
            refine ⟨E, hE, ?_⟩
            rw [List.mem_flatMap]
            exact ⟨(q, c), (mem_flatten_iff layers q c).2 hpres, hat⟩
          · rw [← hdb, h2]; rfl
      · subst hwh; simp [whRep] at h1
  · -- image ⇒ report
    rintro ⟨p, hp, hid, hdb⟩
    unfold scanImage at hp
    rcases List.mem_append.1 hp with hos | hlang
    · obtain ⟨d, hd, hpd⟩ := List.mem_flatMap.1 hos
      cases hpres : present layers d with
      | none => simp [hpres] at hpd
      | some c =>
        simp only [hpres] at hpd
        obtain ⟨rdb, hrdb, es, hes, e, he, hedb⟩ := db_scan_env ht hd hpres hpd
        obtain ⟨hpdb, _, p00, hp00, hid00⟩ := mem_osPkgsOf hpd
        have hin := dbRep_mem_reps (layers := layers) hrdb
        obtain ⟨ws, hws0, hews⟩ := (mergeSR_envs _ {} (by simp [KeysUniq]) p.id e).2
          (Or.inr ⟨_, hin, es, mem_of_aget hes, he⟩)
        have hws : aget p.id (merged S layers).envs = some ws := hws0
        have hpk := ((merged_inv S layers).envOk p.id ws (mem_of_aget hws)).1
        cases hMp : aget p.id (merged S layers).pkgs with
        | none => rw [hMp] at hpk; simp at hpk
        | some p' =>
          have hfp : p'.fp = "" := by
            rcases mergeSR_pkgs_from _ _ p.id p' (mem_of_aget hMp) with h0 | ⟨rr, hrr, h1⟩
            · simp at h0
            · rcases reps_cases hrr with h3 | ⟨E, hE, h3⟩ | h3
              · exact (os_pkg_origin h3 h1).1
              · exfalso
                subst h3
                obtain ⟨l, hlmem, pL, hpL, hpid⟩ := fileRep_id_origin ht hE (Or.inr (aget_isSome_of_mem h1))
                obtain ⟨pre, l2, post, hl2, hc2, _⟩ := (present_some_iff layers d c).1 hpres
                have hl2mem : l2 ∈ layers := by rw [hl2]; simp
                exact ht.disjoint d hd l2 hl2mem c hc2 p00 hp00 l hlmem pL (mem_allFilePkgs.2 ⟨E, hE, hpL⟩)
                  (by rw [← hid00, hpid])
              · subst h3; simp [whRep] at h1
          have hdel : delOf (layers.map (·.hash)) (merged S layers) p.id p' = false := by
            unfold delOf
            rw [hws]
            cases ws with
            | nil => rfl
            | cons e0 es0 => exact pkgDeleted_nofp ht p' hfp _
          have := hex_id S layers ht r hr p.id p' hMp hdel
          refine ⟨ws, by rw [← hid, this]; exact hws, e, hews, by rw [hedb, ← hdb, hpdb]⟩
    · obtain ⟨E, hE, hin⟩ := List.mem_flatMap.1 hlang
      obtain ⟨⟨q, c⟩, hqc, hat⟩ := List.mem_flatMap.1 hin
      simp only at hat
      have hpres := (mem_flatten_iff layers q c).1 hqc
      obtain ⟨pre, l, post, hl, hfile, hpost⟩ := (present_some_iff layers q c).1 hpres
      have hlmem : l ∈ layers := by rw [hl]; simp
      obtain ⟨hm, hw⟩ := fileOf_some hfile
      have hpl : p ∈ filePkgs E l := mem_filePkgs.2 ⟨q, c, hm, hw, hat⟩
      have hfp := (filePkgsAt_mem hat).1
      obtain ⟨a, pL, hlast⟩ := lastLang_exists hlmem hpl
      obtain ⟨lpre, l2, lpost, hl2, ha, hpL, hpid, hlater⟩ := lastLang_layers hlast
      have hl2mem : l2 ∈ layers := by rw [hl2]; simp
      obtain ⟨hfpL0, hdbL⟩ := ht.onePath E hE l2 hl2mem l hlmem pL hpL p hpl hpid
      have hfpL : pL.fp = q := by rw [← hfp]; exact hfpL0
      have hsame : pre = lpre ∧ l = l2 ∧ post = lpost := by
        rcases two_decomp (hl.symm.trans hl2) with h | h | h
        · exact h
        · exfalso
          obtain ⟨q', c', hm', hw', hat'⟩ := mem_filePkgs.1 hpL
          have hq' : q' = q := by rw [← (filePkgsAt_mem hat').1]; exact hfpL
          subst hq'
          have := fileOf_of_mem (ht.paths l2 hl2mem) hm' hw'
          rw [(hpost l2 h).1] at this; simp at this
        · exfalso; exact hlater l h p hpl rfl
      obtain ⟨_, hl12, hpost12⟩ := hsame
      subst hl12; subst hpost12
      have hpLall : pL ∈ allFilePkgs S l := mem_allFilePkgs.2 ⟨E, hE, hpL⟩
      have hhash : l.hash ∉ post.map (·.hash) :=
        lastLang_hash_last ht hl hpL (fun l' hl' q' hq' => by rw [hpid]; exact hlater l' hl' q' hq')
      obtain ⟨⟨ws, hws, hmem, hall⟩, hMp⟩ := merged_file_id ht hE hlast
      have hintro : ∀ e' ∈ ws, e'.intro = l.hash := by
        intro e' he'; rw [hall e' he', ha]; rfl
      have hdel : delOf (layers.map (·.hash)) (merged S layers) p.id pL = false := by
        cases ws with
        | nil => simp at hmem
        | cons e0 es0 =>
          rw [delOf_lang hws hintro]
          cases hd : pkgDeleted (layers.map (·.hash)) (merged S layers).files pL l.hash with
          | false => rfl
          | true =>
            exfalso
            obtain ⟨l', hl', hh⟩ := (pkgDeleted_iff_hidden ht hl hhash hlmem hpLall).1 hd
            rw [hfpL, (hpost l' hl').2] at hh; simp at hh
      have := hex_id S layers ht r hr p.id pL hMp hdel
      refine ⟨ws, by rw [← hid, this]; exact hws, langEnv a pL, hmem, ?_⟩
      rw [← hdb, ← hdbL]; rfl

/-! ### executable forms of the two sides -/

/-- the finished report lists package `id` with package database `db` -/
def reportHas (r : Report) (id db : String) : Bool := ((aget id r.envs).getD []).any fun e => e.db = db

/-- the scanners find package `id` with package database `db` on the flattened image -/
def imageHas (S : Scanners) (layers : List FSLayer) (id db : String) : Bool :=
  (scanImage S layers).any fun p => p.id = id ∧ p.db = db

theorem reportHas_iff (r : Report) (id db : String) :
    reportHas r id db = true ↔ ∃ es, aget id r.envs = some es ∧ ∃ e ∈ es, e.db = db := by
  unfold reportHas
  cases h : aget id r.envs with
  | none => simp
  | some es => simp [List.any_eq_true]

theorem imageHas_iff (S : Scanners) (layers : List FSLayer) (id db : String) :
    imageHas S layers id db = true ↔ ∃ p ∈ scanImage S layers, p.id = id ∧ p.db = db := by
  simp [imageHas, List.any_eq_true]

/-! ### example scanners and stacks (witnesses for Props/C01) -/

namespace Ex

def mk (id db : String) : Pkg :=
  { id := id, name := id, version := "1", kind := "binary", arch := "", src := "", db := db, fp := "" }

def dpkgDB : String := "var/lib/dpkg/status"

/-- toy language ecosystem: the file content names the package; the package database is derived from the path -/
def langEco : FileEco where
  scan := fun q c =>
    if c = "requests1" then [mk "requests-1" ("lang:" ++ q)]
    else if c = "requests2" then [mk "requests-2" ("lang:" ++ q)]
    else if c = "leftpad1" then [mk "left-pad-1" ("lang:" ++ q)]
    else if c = "leftpad2" then [mk "left-pad-2" ("lang:" ++ q)]
    else if c = "X" then [mk "X" ("lang:" ++ q)]
    else []

/-- toy Go ecosystem: an executable carries its standard library, main module and dependencies -/
def goEco : FileEco where
  gobin := true
  scan := fun q c =>
    if c = "app1" then [mk "stdlib-1.21" ("go:" ++ q), mk "app-1" ("go:" ++ q), mk "dep-1" ("go:" ++ q)]
    else if c = "app2" then [mk "stdlib-1.22" ("go:" ++ q), mk "app-2" ("go:" ++ q), mk "dep-1b" ("go:" ++ q)]
    else if c = "tool1" then [mk "stdlib-1.21" ("go:" ++ q), mk "tool-1" ("go:" ++ q)]
    else if c = "odd" then [mk "odd-1" ("exe:" ++ q)]
    else []

/-- toy scanners: an OS database whose content names its packages, a language ecosystem, a Go ecosystem;
    the distribution scanner reads `etc/os-release` -/
def S0 : Scanners where
  osDbs := [dpkgDB]
  scanDB := fun d c =>
    if c = "bash1" then [mk "bash-1" d]
    else if c = "bash2+curl" then [mk "bash-2" d, mk "curl-7" d]
    else if c = "bash1+curl" then [mk "bash-1" d, mk "curl-7" d]
    else if c = "X" then [mk "X" d]
    else []
  fecos := [langEco, goEco]
  scanDist := fun _ _ c => if c = "debian11" then some { id := "debian-11" } else if c = "debian12" then some { id := "debian-12" } else none

/-- install, upgrade (old files whited out), remove, a Go executable moved and rebuilt, an unrelated
    file, a layer applied twice: inside the hypothesis -/
def tameStack : List FSLayer := [
  { hash := "L0", entries := [(dpkgDB, .file "bash1"), ("etc/os-release", .file "debian12"),
      ("site/requests-1.dist-info/METADATA", .file "requests1"),
      ("app/node_modules/left-pad/package.json", .file "leftpad1"), ("usr/bin/app", .file "app1")] },
  { hash := "L1", entries := [(dpkgDB, .file "bash2+curl"), ("site/.wh.requests-1.dist-info", .file ""),
      ("site/requests-2.dist-info/METADATA", .file "requests2")] },
  { hash := "L2", entries := [("app/node_modules/.wh.left-pad", .file ""), ("srv/readme", .file "hello")] },
  { hash := "L3", entries := [("usr/bin/.wh.app", .file ""), ("usr/local/bin/app", .file "app2")] },
  { hash := "L2", entries := [("app/node_modules/.wh.left-pad", .file ""), ("srv/readme", .file "hello")] }]

def rpmDB : String := "var/lib/rpm/rpmdb.sqlite"

/-- the same toy scanners with the OS database coalesced by rhel.Coalescer -/
def S1 : Scanners := { S0 with osDbs := [], rhelDbs := [rpmDB] }

/-- install, upgrade, an unrelated layer, with an rpm-style database under the rhel coalescer -/
def rhelStack : List FSLayer := [
  { hash := "L0", entries := [(rpmDB, .file "bash1"), ("site/requests-1.dist-info/METADATA", .file "requests1")] },
  { hash := "L1", entries := [(rpmDB, .file "bash2+curl")] },
  { hash := "L2", entries := [("srv/readme", .file "hello")] },
  { hash := "L3", entries := [("site/.wh.requests-1.dist-info", .file "")] }]

/-- two whiteouts in one layer -/
def twoWhiteouts : List FSLayer := [
  { hash := "L0", entries := [("a/x", .file "requests1"), ("b/y", .file "leftpad1")] },
  { hash := "L1", entries := [("a/.wh.x", .file ""), ("b/.wh.y", .file "")] }]

/-- a package file overwritten in place -/
def overwritten : List FSLayer := [
  { hash := "L0", entries := [("app/node_modules/left-pad/package.json", .file "leftpad1")] },
  { hash := "L1", entries := [("app/node_modules/left-pad/package.json", .file "leftpad2")] }]

/-- a Go executable rebuilt in place with another dependency version -/
def goRebuilt : List FSLayer := [
  { hash := "L0", entries := [("usr/bin/app", .file "app1")] },
  { hash := "L1", entries := [("usr/bin/app", .file "app2")] }]

/-- the same package at two paths -/
def twoPaths : List FSLayer := [
  { hash := "L0", entries := [("a/m", .file "requests1"), ("b/m", .file "requests1")] }]

/-- two Go executables built with the same toolchain: they share the `stdlib` package -/
def twoGoBinaries : List FSLayer := [
  { hash := "L0", entries := [("usr/bin/app", .file "app1"), ("usr/bin/tool", .file "tool1")] }]

/-- … and the one whose environment survived is deleted later -/
def twoGoBinariesOneDeleted : List FSLayer := [
  { hash := "L0", entries := [("usr/bin/app", .file "app1"), ("usr/bin/tool", .file "tool1")] },
  { hash := "L1", entries := [("usr/bin/.wh.tool", .file "")] }]

/-- the OS package database deleted by a later layer -/
def dbRemoved : List FSLayer := [
  { hash := "L0", entries := [(dpkgDB, .file "bash1")] },
  { hash := "L1", entries := [("var/lib/.wh.dpkg", .file "")] }]

/-- the OS package database rewritten with no entries -/
def dbEmptied : List FSLayer := [
  { hash := "L0", entries := [(dpkgDB, .file "bash1")] },
  { hash := "L1", entries := [(dpkgDB, .file "")] }]

/-- an OS package and a language package under one id; the language file is deleted later -/
def sharedId : List FSLayer := [
  { hash := "L0", entries := [(dpkgDB, .file "X"), ("a/f", .file "X")] },
  { hash := "L1", entries := [("a/.wh.f", .file "")] }]

/-- an opaque marker at the root of a layer -/
def rootOpaque : List FSLayer := [
  { hash := "L0", entries := [("a/x", .file "requests1")] },
  { hash := "L1", entries := [(".wh..wh..opq", .file "")] }]

/-- a regular file replaces the directory that held the package -/
def dirReplaced : List FSLayer := [
  { hash := "L0", entries := [("a/x", .file "requests1")] },
  { hash := "L1", entries := [("a", .file "not a directory any more")] }]

/-- a distribution upgrade: the release file changes, a package of the old release stays installed -/
def distUpgrade : List FSLayer := [
  { hash := "L0", entries := [(dpkgDB, .file "bash1"), ("etc/os-release", .file "debian11")] },
  { hash := "L1", entries := [(dpkgDB, .file "bash1+curl"), ("etc/os-release", .file "debian12")] }]

/-- a DIRECTORY whose name starts with `.wh.`: the whiteout scanner reports every entry with such a name,
    the layer semantics only act on regular files -/
def whiteoutDirectory : List FSLayer := [
  { hash := "L0", entries := [("a/x", .file "requests1")] },
  { hash := "L1", entries := [("a/.wh.x", .dir)] }]

/-- two different layers under one digest (a digest collision: the layer sorter cannot tell them apart) -/
def digestCollision : List FSLayer := [
  { hash := "L0", entries := [("a/x", .file "requests1")] },
  { hash := "L0", entries := [("a/.wh.x", .file "")] }]

/-- a layer listing one path twice (the flattened image takes the first entry, the package scan sees both) -/
def pathTwice : List FSLayer := [
  { hash := "L0", entries := [("a/x", .file "requests1"), ("a/x", .file "requests2")] }]

/-- a Go executable whose packages carry a database without the `go:` prefix -/
def goOddDb : List FSLayer := [
  { hash := "L0", entries := [("usr/bin/odd", .file "odd")] }]

/-- two language ecosystems whose scanners find the same (name, version): pypi `six` and npm `six` -/
def pyEco : FileEco where
  scan := fun q c => if c = "six-py" then [mk "six-1" ("python:" ++ q)] else []

def jsEco : FileEco where
  scan := fun q c => if c = "six-js" then [mk "six-1" ("nodejs:" ++ q)] else []

def S2 : Scanners := { S0 with osDbs := [], fecos := [pyEco, jsEco] }

/-- the same scanners, the coalescers finishing in the other order -/
def S2' : Scanners := { S0 with osDbs := [], fecos := [jsEco, pyEco] }

/-- the python one is deleted by a later layer -/
def crossEco : List FSLayer := [
  { hash := "L0", entries := [("a/p", .file "six-py"), ("b/j", .file "six-js")] },
  { hash := "L1", entries := [("a/.wh.p", .file "")] }]

/-- the two sides disagree on (id, db): reported but not in the image -/
def reportedNotInImage (S : Scanners) (layers : List FSLayer) (id db : String) : Prop :=
  (indexModel S layers).map (fun r => reportHas r id db) = some true ∧ imageHas S layers id db = false

/-- … in the image but not reported -/
def inImageNotReported (S : Scanners) (layers : List FSLayer) (id db : String) : Prop :=
  (indexModel S layers).map (fun r => reportHas r id db) = some false ∧ imageHas S layers id db = true

instance (S : Scanners) (layers : List FSLayer) (id db : String) : Decidable (reportedNotInImage S layers id db) := by
  unfold reportedNotInImage; infer_instance

instance (S : Scanners) (layers : List FSLayer) (id db : String) : Decidable (inImageNotReported S layers id db) := by
  unfold inImageNotReported; infer_instance

end Ex

end ClairModel.LayerFS
