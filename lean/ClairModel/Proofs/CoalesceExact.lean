/-
  C01 — exact descriptions of what the coalescers put into an environment:
  the distribution linux.DistSearcher picks, the rhel coalescer's walk (introducing layer,
  current distribution, shared repositories), and what that means when every layer's
  distribution scanner gives the same answer.  Core Lean only.
-/
import ClairModel.Proofs.MergeOrder

namespace ClairModel.Coalesce

/-! ### linux.DistSearcher.Search: own layer, else the nearest earlier layer, else the nearest later one -/

theorem firstSome_none {α : Type} {l : List (Option α)} : firstSome l = none ↔ ∀ x ∈ l, x = none := by
  induction l with
  | nil => simp [firstSome]
  | cons o l ih =>
    cases o with
    | none => simp [firstSome, ih]
    | some y => simp [firstSome]

/-- the choice `Search` makes, spelled out -/
def distPick (pre : List (Option Dist)) (s : Option Dist) (post : List (Option Dist)) : Option Dist :=
  match s with
  | some d => some d
  | none =>
    match firstSome pre.reverse with
    | some d => some d
    | none => firstSome post

theorem distSearch_exact (pre post : List (Option Dist)) (s : Option Dist) :
    distSearch (pre ++ s :: post) pre.length = some (distPick pre s post) := by
  unfold distSearch distPick
  have h1 : ¬ pre.length ≥ (pre ++ s :: post).length := by simp
  have hget : (pre ++ s :: post).getD pre.length none = s := by
    rw [List.getD_eq_getElem?_getD]; simp
  have htake : (pre ++ s :: post).take pre.length = pre := by simp
  have hdrop : (pre ++ s :: post).drop (pre.length + 1) = post := by simp
  simp only [h1, if_false, hget, htake, hdrop]
  cases s with
  | some d => rfl
  | none =>
    simp only
    cases firstSome pre.reverse <;> rfl

/-- when every layer that has a distribution has the same one, `Search` returns it from anywhere -/
theorem distPick_stable {pre post : List (Option Dist)} {s : Option Dist} {od : Option Dist}
    (hall : ∀ x ∈ pre ++ s :: post, x = none ∨ x = od) :
    distPick pre s post = if (pre ++ s :: post).any (·.isSome) then od else none := by
  have key : ∀ d, some d ∈ pre ++ s :: post → od = some d ∧ (pre ++ s :: post).any (·.isSome) = true := by
    intro d hd
    rcases hall _ hd with h | h
    · simp at h
    · exact ⟨h.symm, List.any_eq_true.2 ⟨some d, hd, rfl⟩⟩
  unfold distPick
  cases s with
  | some d =>
    obtain ⟨h1, h2⟩ := key d (by simp)
    simp only [h2, if_true, h1]
  | none =>
    simp only
    cases hb : firstSome pre.reverse with
    | some d =>
      have hm : some d ∈ pre ++ none :: post :=
        List.mem_append_left _ (List.mem_reverse.1 (firstSome_mem hb))
      obtain ⟨h1, h2⟩ := key d hm
      simp only [h2, if_true, h1]
    | none =>
      simp only
      cases hf : firstSome post with
      | some d =>
        have hm : some d ∈ pre ++ none :: post :=
          List.mem_append_right _ (List.mem_cons_of_mem _ (firstSome_mem hf))
        obtain ⟨h1, h2⟩ := key d hm
        simp only [h2, if_true, h1]
      | none =>
        have hnone : (pre ++ none :: post).any (·.isSome) = false := by
          rw [List.any_eq_false]
          intro x hx
          rcases List.mem_append.1 hx with h | h
          · rw [firstSome_none.1 hb x (List.mem_reverse.2 h)]; simp
          · rcases List.mem_cons.1 h with h | h
            · rw [h]; simp
            · rw [firstSome_none.1 hf x h]; simp
        simp [hnone]

/-- the environment linux.Coalescer builds: the first layer holding the package's key, and the
    distribution `Search` picks for that layer -/
theorem linuxEnv_exact {arts : List Layer} {db : String} {p : Pkg} {e : Env}
    (h : linuxEnv arts (distSlots arts) db p = .ok e) :
    ∃ pre a post, arts = pre ++ a :: post ∧ a.hash = e.intro ∧ a.pkgs.any (sameKey p) = true ∧
      (∀ b ∈ pre, b.pkgs.any (sameKey p) = false) ∧
      e.distId = ((distPick (distSlots pre) a.dists.head? (distSlots post)).map (·.id)).getD "" := by
  unfold linuxEnv at h
  cases hq : pkgSearch arts p with
  | none => simp [hq] at h
  | some hi =>
    obtain ⟨hh, i⟩ := hi
    obtain ⟨pre, a, post, h1, h2, h3, h4, h5⟩ := pkgSearchFrom_some hq
    have hslots : distSlots arts = distSlots pre ++ a.dists.head? :: distSlots post := by
      rw [h1]; simp [distSlots]
    have hi : i = (distSlots pre).length := by simp [distSlots, h2]
    simp only [hq] at h
    rw [hslots, hi, distSearch_exact] at h
    simp only [Except.ok.injEq] at h
    subst h
    exact ⟨pre, a, post, h1, h3, h4, h5, rfl⟩

/-! ### the rhel coalescer's walk, exactly -/

theorem rhelWalkPkgs_keeps (a : Layer) (distID : String) (pkgs : List Pkg) (envs : List ((String × String) × Env))
    {db id : String} {e : Env} (h : penvGet db id envs = some e) :
    penvGet db id (rhelWalkPkgs a distID pkgs envs) = some e := by
  induction pkgs generalizing envs with
  | nil => exact h
  | cons p rest ih =>
    simp only [rhelWalkPkgs]
    cases hg : penvGet p.db p.id envs with
    | some e0 => exact ih envs h
    | none =>
      apply ih
      rw [penvGet_append, h]

theorem rhelWalkPkgs_none (a : Layer) (distID : String) (pkgs : List Pkg) (envs : List ((String × String) × Env))
    {db id : String} (h : penvGet db id envs = none) (hno : ∀ p ∈ pkgs, ¬ (p.db = db ∧ p.id = id)) :
    penvGet db id (rhelWalkPkgs a distID pkgs envs) = none := by
  obtain ⟨h1, _, _⟩ := rhelWalkPkgs_spec a distID pkgs envs
  cases hr : penvGet db id (rhelWalkPkgs a distID pkgs envs) with
  | none => rfl
  | some e =>
    rcases h1 db id e hr with h2 | ⟨_, p, hp, hpd, hpi⟩
    · rw [h] at h2; simp at h2
    · exact absurd ⟨hpd, hpi⟩ (hno p hp)

theorem rhelWalkPkgs_new (a : Layer) (distID : String) (pkgs : List Pkg) (envs : List ((String × String) × Env))
    {db id : String} (h : penvGet db id envs = none) (hp : ∃ p ∈ pkgs, p.db = db ∧ p.id = id) :
    penvGet db id (rhelWalkPkgs a distID pkgs envs) = some (walkEnv a distID db) := by
  obtain ⟨h1, _, h3⟩ := rhelWalkPkgs_spec a distID pkgs envs
  obtain ⟨p, hpm, hpd, hpi⟩ := hp
  have := h3 p hpm
  rw [hpd, hpi] at this
  cases hr : penvGet db id (rhelWalkPkgs a distID pkgs envs) with
  | none => rw [hr] at this; simp at this
  | some e =>
    rcases h1 db id e hr with h2 | ⟨h2, _⟩
    · rw [h] at h2; simp at h2
    · rw [h2]

/-- `curDist` after a list of layers: the last layer with a distribution, else the initial one -/
def curAfter (init : Option Dist) (ls : List Layer) : Option Dist :=
  ls.foldl (fun c a => match a.dists with | d :: _ => some d | [] => c) init

def distIdOf (c : Option Dist) : String := (c.map (·.id)).getD ""

theorem rhelWalk_keeps (todo : List Layer) (w : RhelWalk) {db id : String} {e : Env}
    (h : penvGet db id w.envs = some e) : penvGet db id (rhelWalk todo w).envs = some e := by
  induction todo generalizing w with
  | nil => exact h
  | cons a rest ih =>
    simp only [rhelWalk]
    apply ih
    exact rhelWalkPkgs_keeps a _ a.pkgs w.envs h

theorem rhelWalk_cur (todo : List Layer) (w : RhelWalk) : (rhelWalk todo w).cur = curAfter w.cur todo := by
  induction todo generalizing w with
  | nil => rfl
  | cons a rest ih =>
    simp only [rhelWalk, curAfter, List.foldl_cons]
    rw [ih]
    cases a.dists <;> rfl

/-- the environment the walk records for (database, id): built at the first layer that holds such a
    package, with the distribution current at that layer and that layer's (shared) repositories -/
theorem rhelWalk_env_exact (pre post : List Layer) (a : Layer) (w : RhelWalk) {db id : String}
    (h0 : penvGet db id w.envs = none)
    (hpre : ∀ b ∈ pre, ∀ p ∈ b.pkgs, ¬ (p.db = db ∧ p.id = id))
    (ha : ∃ p ∈ a.pkgs, p.db = db ∧ p.id = id) :
    penvGet db id (rhelWalk (pre ++ a :: post) w).envs =
      some (walkEnv a (distIdOf (curAfter w.cur (pre ++ [a]))) db) := by
  induction pre generalizing w with
  | nil =>
    simp only [List.nil_append, rhelWalk]
    apply rhelWalk_keeps
    simp only
    have : (match a.dists with
        | d :: _ => (some d, aset d.id d w.dists)
        | [] => (w.cur, w.dists)).1 = curAfter w.cur [a] := by
      simp only [curAfter, List.foldl_cons, List.foldl_nil]; cases a.dists <;> rfl
    cases hd : a.dists with
    | nil =>
      simp only [hd] at this ⊢
      rw [← this]
      exact rhelWalkPkgs_new a _ a.pkgs w.envs h0 ha
    | cons d ds =>
      simp only [hd] at this ⊢
      rw [← this]
      exact rhelWalkPkgs_new a _ a.pkgs w.envs h0 ha
  | cons b pre ih =>
    simp only [List.cons_append, rhelWalk]
    have hb := hpre b List.mem_cons_self
    have hrest : ∀ c ∈ pre, ∀ p ∈ c.pkgs, ¬ (p.db = db ∧ p.id = id) := fun c hc => hpre c (List.mem_cons_of_mem _ hc)
    cases hd : b.dists with
    | nil =>
      simp only
      have := ih { cur := w.cur, dists := w.dists, envs := rhelWalkPkgs b (distIdOf w.cur) b.pkgs w.envs }
        (rhelWalkPkgs_none b _ b.pkgs w.envs h0 hb) hrest
      simp only [distIdOf] at this ⊢
      rw [this]
      simp [curAfter, hd]
    | cons d ds =>
      simp only
      have := ih { cur := some d, dists := aset d.id d w.dists, envs := rhelWalkPkgs b (distIdOf (some d)) b.pkgs w.envs }
        (rhelWalkPkgs_none b _ b.pkgs w.envs h0 hb) hrest
      simp only [distIdOf] at this ⊢
      rw [this]
      simp [curAfter, hd]

/-! ### the rhel coalescer's final loop: where the environments of the report come from -/

theorem rhelFinalPkgs_envs_from (envs : List ((String × String) × Env)) (later : List Layer) (pkgs : List Pkg) (ir r : Report)
    (h : rhelFinalPkgs envs later pkgs ir = .ok r) (id : String) (es : List Env) (hes : aget id r.envs = some es)
    (e : Env) (he : e ∈ es) :
    (∃ es0, aget id ir.envs = some es0 ∧ e ∈ es0) ∨
      ∃ p ∈ pkgs, p.id = id ∧ penvGet p.db p.id envs = some e ∧ rhelFound p later true = true := by
  induction pkgs generalizing ir with
  | nil => simp only [rhelFinalPkgs, Except.ok.injEq] at h; subst h; exact Or.inl ⟨es, hes, he⟩
  | cons q rest ih =>
    simp only [rhelFinalPkgs] at h
    split at h
    · rcases ih ir h with h1 | ⟨p, hp, h2⟩
      · exact Or.inl h1
      · exact Or.inr ⟨p, List.mem_cons_of_mem _ hp, h2⟩
    · split at h
      · split at h
        · simp at h
        · rename_i hfound _ e0 hq
          rcases ih _ h with ⟨es0, h1, h2⟩ | ⟨p, hp, h2⟩
          · simp only [Report.addPkgEnv] at h1
            rw [aget_aappend] at h1
            by_cases hk : q.id = id
            · simp only [hk, if_true, Option.some.injEq] at h1
              subst h1
              rcases List.mem_append.1 h2 with h3 | h3
              · cases hg : aget id ir.envs with
                | none => simp [hg] at h3
                | some old => simp [hg] at h3; exact Or.inl ⟨old, rfl, h3⟩
              · simp only [List.mem_singleton] at h3
                subst h3
                exact Or.inr ⟨q, List.mem_cons_self, hk, hq, hfound⟩
            · simp only [hk, if_false] at h1
              exact Or.inl ⟨es0, h1, h2⟩
          · exact Or.inr ⟨p, List.mem_cons_of_mem _ hp, h2⟩
      · rcases ih ir h with h1 | ⟨p, hp, h2⟩
        · exact Or.inl h1
        · exact Or.inr ⟨p, List.mem_cons_of_mem _ hp, h2⟩

theorem rhelFinal_envs_from (envs : List ((String × String) × Env)) (todo : List Layer) (ir r : Report)
    (h : rhelFinal envs todo ir = .ok r) (id : String) (es : List Env) (hes : aget id r.envs = some es)
    (e : Env) (he : e ∈ es) :
    (∃ es0, aget id ir.envs = some es0 ∧ e ∈ es0) ∨
      ∃ p ∈ allPkgs todo, p ∈ candidates todo ∧ p.id = id ∧ penvGet p.db p.id envs = some e := by
  induction todo generalizing ir with
  | nil => simp only [rhelFinal, Except.ok.injEq] at h; subst h; exact Or.inl ⟨es, hes, he⟩
  | cons a rest ih =>
    simp only [rhelFinal] at h
    cases hx : rhelFinalPkgs envs rest a.pkgs ir with
    | error f => simp [hx] at h
    | ok ir' =>
      simp only [hx] at h
      rcases ih ir' h with ⟨es1, h1, h2⟩ | ⟨p, hp, hc, h2⟩
      · rcases rhelFinalPkgs_envs_from envs rest a.pkgs ir ir' hx id es1 h1 e h2 with h3 | ⟨p, hp, h3, h4, h5⟩
        · exact Or.inl h3
        · refine Or.inr ⟨p, by simp [allPkgs, hp], ?_, h3, h4⟩
          simp only [candidates, List.mem_append]
          exact Or.inl (List.mem_filter.2 ⟨hp, h5⟩)
      · refine Or.inr ⟨p, ?_, ?_, h2⟩
        · simp only [allPkgs, List.flatMap_cons, List.mem_append]; exact Or.inr hp
        · simp only [candidates, List.mem_append]; exact Or.inr hc

/-- one environment per reported package id: the final loop skips an id it has already reported -/
def OneEnv (ir : Report) : Prop :=
  (∀ id, (aget id ir.envs).isSome → (aget id ir.pkgs).isSome) ∧ ∀ id es, aget id ir.envs = some es → es.length = 1

theorem rhelFinalPkgs_oneEnv (envs : List ((String × String) × Env)) (later : List Layer) (pkgs : List Pkg) (ir r : Report)
    (h : rhelFinalPkgs envs later pkgs ir = .ok r) (hi : OneEnv ir) : OneEnv r := by
  induction pkgs generalizing ir with
  | nil => simp only [rhelFinalPkgs, Except.ok.injEq] at h; subst h; exact hi
  | cons q rest ih =>
    simp only [rhelFinalPkgs] at h
    split at h
    · exact ih ir h hi
    · rename_i hnot
      split at h
      · split at h
        · simp at h
        · rename_i e0 hq
          apply ih _ h
          have hnone : aget q.id ir.envs = none := by
            cases hg : aget q.id ir.envs with
            | none => rfl
            | some x => have := hi.1 q.id (by simp [hg]); exact absurd this hnot
          constructor
          · intro id hs
            simp only [Report.addPkgEnv] at hs ⊢
            rw [aget_aappend] at hs
            rw [aget_aset]
            by_cases hk : q.id = id
            · simp [hk]
            · simp only [hk, if_false] at hs ⊢; exact hi.1 id hs
          · intro id es hes
            simp only [Report.addPkgEnv] at hes
            rw [aget_aappend] at hes
            by_cases hk : q.id = id
            · simp only [hk, if_true, Option.some.injEq] at hes
              rw [← hk, hnone] at hes; simp at hes; rw [← hes]; rfl
            · simp only [hk, if_false] at hes; exact hi.2 id es hes
      · exact ih ir h hi

theorem rhelFinal_oneEnv (envs : List ((String × String) × Env)) (todo : List Layer) (ir r : Report)
    (h : rhelFinal envs todo ir = .ok r) (hi : OneEnv ir) : OneEnv r := by
  induction todo generalizing ir with
  | nil => simp only [rhelFinal, Except.ok.injEq] at h; subst h; exact hi
  | cons a rest ih =>
    simp only [rhelFinal] at h
    cases hx : rhelFinalPkgs envs rest a.pkgs ir with
    | error f => simp [hx] at h
    | ok ir' =>
      simp only [hx] at h
      exact ih ir' h (rhelFinalPkgs_oneEnv envs rest a.pkgs ir ir' hx hi)

theorem rhelCoalesce_oneEnv {arts : List Layer} {r : Report} (h : rhelCoalesce arts = .ok r) : OneEnv r := by
  unfold rhelCoalesce at h
  simp only at h
  exact rhelFinal_oneEnv _ _ _ _ h ⟨by simp [aget], by simp [aget]⟩

/-- the first layer holding a package with this (database, id) -/
theorem first_layer_with {arts : List Layer} {db id : String} (h : ∃ p ∈ allPkgs arts, p.db = db ∧ p.id = id) :
    ∃ pre a post, arts = pre ++ a :: post ∧ (∃ p ∈ a.pkgs, p.db = db ∧ p.id = id) ∧
      ∀ b ∈ pre, ∀ p ∈ b.pkgs, ¬ (p.db = db ∧ p.id = id) := by
  induction arts with
  | nil => obtain ⟨p, hp, _⟩ := h; simp [allPkgs] at hp
  | cons a rest ih =>
    by_cases ha : ∃ p ∈ a.pkgs, p.db = db ∧ p.id = id
    · exact ⟨[], a, rest, rfl, ha, by simp⟩
    · have hrest : ∃ p ∈ allPkgs rest, p.db = db ∧ p.id = id := by
        obtain ⟨p, hp, hpd⟩ := h
        simp only [allPkgs, List.flatMap_cons, List.mem_append] at hp
        rcases hp with hp | hp
        · exact absurd ⟨p, hp, hpd⟩ ha
        · exact ⟨p, hp, hpd⟩
      obtain ⟨pre, b, post, h1, h2, h3⟩ := ih hrest
      refine ⟨a :: pre, b, post, by simp [h1], h2, ?_⟩
      intro c hc p hp hpd
      rcases List.mem_cons.1 hc with hc | hc
      · subst hc; exact ha ⟨p, hp, hpd⟩
      · exact h3 c hc p hp hpd

theorem rhelInit_cur (arts : List Layer) : (rhelInit arts).cur = firstDist arts ∧ (rhelInit arts).envs = [] := by
  unfold rhelInit
  cases firstDist arts <;> exact ⟨rfl, rfl⟩

/-- every environment of the rhel coalescer's report, exactly: built at the first layer (of the artifacts
    after repository sharing) that holds the package in that database, with the distribution current there
    and that layer's repositories -/
theorem rhelCoalesce_env_exact {arts0 : List Layer} {r : Report} (h : rhelCoalesce arts0 = .ok r)
    {id : String} {es : List Env} (hes : aget id r.envs = some es) {e : Env} (he : e ∈ es) :
    ∃ pre a post, rhelShare arts0 = pre ++ a :: post ∧ (∃ p ∈ a.pkgs, p.db = e.db ∧ p.id = id) ∧
      (∀ b ∈ pre, ∀ p ∈ b.pkgs, ¬ (p.db = e.db ∧ p.id = id)) ∧
      e = walkEnv a (distIdOf (curAfter (firstDist (rhelShare arts0)) (pre ++ [a]))) e.db := by
  unfold rhelCoalesce at h
  simp only at h
  rcases rhelFinal_envs_from _ _ _ _ h id es hes e he with ⟨es0, h0, _⟩ | ⟨p, hp, _, hpid, hget⟩
  · simp [aget] at h0
  · obtain ⟨hc, henv⟩ := rhelInit_cur (rhelShare arts0)
    obtain ⟨pre, a, post, hdec, ha, hpre⟩ := first_layer_with (arts := rhelShare arts0) (db := p.db) (id := id) ⟨p, hp, rfl, hpid⟩
    have hex := rhelWalk_env_exact pre post a (rhelInit (rhelShare arts0)) (db := p.db) (id := id)
      (by rw [henv]; rfl) hpre ha
    rw [← hdec, hc] at hex
    rw [hpid] at hget
    rw [hget] at hex
    have hedb : e.db = p.db := by rw [Option.some.inj hex]; rfl
    refine ⟨pre, a, post, hdec, by rw [hedb]; exact ha, by rw [hedb]; exact hpre, ?_⟩
    rw [hedb]; exact Option.some.inj hex

/-- what the final loop accepts is, by id and database, in the last layer that has packages -/
theorem candidates_in_last (arts : List Layer) {p : Pkg} (hp : p ∈ candidates arts) :
    ∃ q ∈ lastPkgs arts, q.id = p.id ∧ q.db = p.db := by
  induction arts with
  | nil => simp [candidates] at hp
  | cons a rest ih =>
    simp only [candidates, List.mem_append] at hp
    simp only [lastPkgs]
    by_cases hr : (lastPkgs rest).isEmpty = true
    · have hr' : lastPkgs rest = [] := by simpa using hr
      have hall := (lastPkgs_nil_iff rest).1 hr'
      simp only [hr, if_true]
      rcases hp with h | h
      · exact ⟨p, (List.mem_filter.1 h).1, rfl, rfl⟩
      · rw [candidates_nil hall] at h; simp at h
    · simp only [hr, Bool.false_eq_true, if_false]
      rcases hp with h | h
      · have hf := (List.mem_filter.1 h).2
        rw [rhelFound_eq] at hf
        simp only [hr, Bool.false_eq_true, if_false] at hf
        obtain ⟨q, hq, hm⟩ := List.any_eq_true.1 hf
        simp only [sameIdDb, decide_eq_true_eq] at hm
        exact ⟨q, hq, hm.1.symm, hm.2.symm⟩
      · exact ih h

/-- every environment of the rhel coalescer's report names a database in which the last package-bearing layer
    holds the package -/
theorem rhelCoalesce_env_in_last {arts0 : List Layer} {r : Report} (h : rhelCoalesce arts0 = .ok r)
    {id : String} {es : List Env} (hes : aget id r.envs = some es) {e : Env} (he : e ∈ es) :
    ∃ q ∈ lastPkgs arts0, q.id = id ∧ q.db = e.db := by
  have hh := h
  unfold rhelCoalesce at h
  simp only at h
  rcases rhelFinal_envs_from _ _ _ _ h id es hes e he with ⟨es0, h0, _⟩ | ⟨p, _, hc, hpid, hget⟩
  · simp [aget] at h0
  · obtain ⟨q, hq, hqid, hqdb⟩ := candidates_in_last _ hc
    rw [lastPkgs_congr (rhelShare_core arts0)] at hq
    -- the environment's database is the package's
    obtain ⟨pre, a, post, _, _, _, hee⟩ := rhelCoalesce_env_exact hh hes he
    obtain ⟨r', _, hinv, _⟩ := rhelCoalesce_ok (S := False) arts0
    have hedb : e.db = p.db := by
      -- from the walk: the environment stored under (p.db, id) has database p.db
      have hw : WalkInv (rhelShare arts0) (List.foldl (fun m a => setRepos a.repos m) [] (rhelShare arts0))
          (rhelWalk (rhelShare arts0) (rhelInit (rhelShare arts0))) := by
        refine (rhelWalk_spec (rhelShare arts0) _ (rhelShare arts0) (rhelInit (rhelShare arts0))
          (fun a ha => ⟨ha, fun x hx => foldl_setRepos_mem _ _ a ha x hx⟩) ?_).1
        unfold rhelInit
        cases hf : firstDist (rhelShare arts0) with
        | none => exact ⟨by simp, by simp [penvGet]⟩
        | some d => exact ⟨by intro d' hd'; cases hd'; simp [aget], by simp [penvGet]⟩
      exact (hw.envs p.db p.id e hget).1
    exact ⟨q, hq, hqid.trans hpid, by rw [hqdb, hedb]⟩

/-! ### Red Hat repositories taint every layer -/

def hasRH (a : Layer) : Prop := filterRH a.repos ≠ []

instance (a : Layer) : Decidable (hasRH a) := by unfold hasRH; infer_instance

theorem filterRH_idem (rs : List Repo) : filterRH (filterRH rs) = filterRH rs := by
  unfold filterRH; rw [List.filter_filter]; simp

theorem filterRH_append_ne (xs prev : List Repo) (h : filterRH prev ≠ []) : filterRH (xs ++ prev) ≠ [] := by
  unfold filterRH at *
  rw [List.filter_append]
  intro h0
  exact h (List.append_eq_nil_iff.1 h0).2

/-- one sharing pass started with a non-empty list of Red Hat repositories leaves every layer with some -/
theorem shareFwd_all (arts : List Layer) (prev : List Repo) (hp : filterRH prev ≠ []) :
    ∀ a' ∈ (shareFwd arts prev).1, hasRH a' := by
  induction arts generalizing prev with
  | nil => simp [shareFwd]
  | cons a rest ih =>
    simp only [shareFwd]
    by_cases hl : filterRH a.repos ≠ []
    · simp only [hl, ne_eq, not_false_eq_true, if_true]
      intro a' ha'
      rcases List.mem_cons.1 ha' with h | h
      · subst h; exact hl
      · exact ih (filterRH a.repos) (by rw [filterRH_idem]; exact hl) a' h
    · simp only [hl, if_false]
      intro a' ha'
      rcases List.mem_cons.1 ha' with h | h
      · subst h; exact filterRH_append_ne _ _ hp
      · exact ih prev hp a' h

/-- the `prev` a pass ends with is non-empty as soon as it started non-empty or met a Red Hat repository -/
theorem shareFwd_prev (arts : List Layer) (prev : List Repo)
    (h : filterRH prev ≠ [] ∨ ∃ a ∈ arts, hasRH a) : filterRH (shareFwd arts prev).2 ≠ [] := by
  induction arts generalizing prev with
  | nil =>
    rcases h with h | ⟨a, ha, _⟩
    · exact h
    · simp at ha
  | cons a rest ih =>
    simp only [shareFwd]
    by_cases hl : filterRH a.repos ≠ []
    · simp only [hl, ne_eq, not_false_eq_true, if_true]
      exact ih (filterRH a.repos) (Or.inl (by rw [filterRH_idem]; exact hl))
    · simp only [hl, if_false]
      apply ih prev
      rcases h with h | ⟨b, hb, hbr⟩
      · exact Or.inl h
      · rcases List.mem_cons.1 hb with hb | hb
        · subst hb; exact absurd hbr hl
        · exact Or.inr ⟨b, hb, hbr⟩

/-- "if Red Hat product information is found, it taints all the layers" -/
theorem rhelShare_taints (arts : List Layer) (h : ∃ a ∈ arts, hasRH a) : ∀ a' ∈ rhelShare arts, hasRH a' := by
  unfold rhelShare
  intro a' ha'
  simp only at ha'
  have hp := shareFwd_prev arts [] (Or.inr h)
  exact shareFwd_all _ _ hp a' (List.mem_reverse.1 ha')

/-- sharing only ever adds Red Hat repositories some layer carried, after the layer's own -/
theorem shareFwd_adds (arts : List Layer) (prev pool : List Repo) (hprev : ∀ x ∈ prev, x ∈ pool)
    (hpool : ∀ a ∈ arts, ∀ x ∈ a.repos, x ∈ pool) :
    (∀ a' ∈ (shareFwd arts prev).1, ∀ x ∈ a'.repos, x ∈ pool) ∧ ∀ x ∈ (shareFwd arts prev).2, x ∈ pool := by
  induction arts generalizing prev with
  | nil => exact ⟨by simp [shareFwd], hprev⟩
  | cons a rest ih =>
    have hrest : ∀ b ∈ rest, ∀ x ∈ b.repos, x ∈ pool := fun b hb => hpool b (List.mem_cons_of_mem _ hb)
    have ha := hpool a List.mem_cons_self
    simp only [shareFwd]
    by_cases hl : filterRH a.repos ≠ []
    · simp only [hl, ne_eq, not_false_eq_true, if_true]
      obtain ⟨i1, i2⟩ := ih (filterRH a.repos) (fun x hx => ha x (List.mem_filter.1 hx).1) hrest
      refine ⟨?_, i2⟩
      intro a' ha'
      rcases List.mem_cons.1 ha' with h | h
      · subst h; exact ha
      · exact i1 a' h
    · simp only [hl, if_false]
      obtain ⟨i1, i2⟩ := ih prev hprev hrest
      refine ⟨?_, i2⟩
      intro a' ha'
      rcases List.mem_cons.1 ha' with h | h
      · subst h
        intro x hx
        rcases List.mem_append.1 hx with h1 | h1
        · exact ha x h1
        · exact hprev x h1
      · exact i1 a' h

theorem rhelShare_repos_from (arts : List Layer) : ∀ a' ∈ rhelShare arts, ∀ x ∈ a'.repos, ∃ a ∈ arts, x ∈ a.repos := by
  unfold rhelShare
  simp only
  let pool := arts.flatMap (·.repos)
  have hpool : ∀ a ∈ arts, ∀ x ∈ a.repos, x ∈ pool := fun a ha x hx => List.mem_flatMap.2 ⟨a, ha, hx⟩
  obtain ⟨f1, f2⟩ := shareFwd_adds arts [] pool (by simp) hpool
  obtain ⟨b1, _⟩ := shareFwd_adds (shareFwd arts []).1.reverse (shareFwd arts []).2 pool f2
    (fun a ha => f1 a (List.mem_reverse.1 ha))
  intro a' ha' x hx
  have := b1 a' (List.mem_reverse.1 ha') x hx
  exact List.mem_flatMap.1 this

/-! ### the whiteout coalescer: `ir.Files[l.Hash.String()] = f` keeps the last file per digest -/

/-- the last value stored under `k` in a list of assignments -/
def lastVal {β : Type} (k : String) (xs : List (String × β)) : Option β :=
  xs.foldl (fun acc e => if e.1 = k then some e.2 else acc) none

theorem lastVal_foldl {β : Type} (k : String) (xs : List (String × β)) (acc : Option β) :
    xs.foldl (fun acc e => if e.1 = k then some e.2 else acc) acc =
      match lastVal k xs with | some v => some v | none => acc := by
  unfold lastVal
  induction xs generalizing acc with
  | nil => rfl
  | cons x xs ih =>
    simp only [List.foldl_cons]
    rw [ih, ih (if x.1 = k then some x.2 else none)]
    cases hl : List.foldl (fun acc e => if e.1 = k then some e.2 else acc) none xs with
    | some v => rfl
    | none => by_cases hk : x.1 = k <;> simp [hk]

theorem aget_foldl_aset_last {β : Type} (k : String) (xs src : List (String × β)) :
    aget k (xs.foldl (fun m e => aset e.1 e.2 m) src) =
      match lastVal k xs with | some v => some v | none => aget k src := by
  induction xs generalizing src with
  | nil => rfl
  | cons x xs ih =>
    simp only [List.foldl_cons]
    rw [ih]
    have hl : lastVal k (x :: xs) = match lastVal k xs with | some v => some v | none => (if x.1 = k then some x.2 else none) := by
      unfold lastVal; simp only [List.foldl_cons]; exact lastVal_foldl k xs _
    rw [hl]
    cases lastVal k xs with
    | some v => rfl
    | none =>
      simp only
      rw [aget_aset]
      by_cases hk : x.1 = k <;> simp [hk]

/-- every (digest, file) assignment the whiteout coalescer makes, in order -/
def whPairs (arts : List Layer) : List (String × File) := arts.flatMap fun a => a.files.map fun f => (a.hash, f)

theorem whFiles_eq (arts : List Layer) (m : List (String × File)) :
    arts.foldl (fun m a => a.files.foldl (fun m f => aset a.hash f m) m) m =
      (whPairs arts).foldl (fun m e => aset e.1 e.2 m) m := by
  unfold whPairs
  induction arts generalizing m with
  | nil => rfl
  | cons a rest ih =>
    simp only [List.foldl_cons, List.flatMap_cons, List.foldl_append]
    rw [ih]
    congr 1
    generalize a.files = fs
    induction fs generalizing m with
    | nil => rfl
    | cons f fs ihf => simp only [List.foldl_cons, List.map_cons]; exact ihf _

end ClairModel.Coalesce
