/-
  C11: what `add` does with a member whose directory is a symbolic link
  (a link in directory position). This is where the unchanged code departs
  from an extraction (finding literal-names and its relatives); the theorem
  states exactly what it does instead, so that the behaviour is pinned by a
  proof and by the correspondence run even though the property is recorded as
  violated there.
-/
import ClairModel.Proofs.TarFSAdd
set_option linter.unusedSimpArgs false
set_option linter.unusedVariables false
namespace ClairModel.TarFS

/-- Two turns of the `AddEnt:` loop: the directory of the member is the key of
    a symbolic link whose stored target is the key of a directory. -/
theorem addEnt_through (mk : FS → Bytes → FS) {fs : FS} {p : Bytes} {i s j : Nat} (f : Nat)
    (hp : Contained p) (hpd : p ≠ dotP)
    (hs : fs.get? (dirOf p) = some s) (hsk : (fs.ino s).kind = .sym)
    (hdd : dirOf p ≠ dotP)
    (htc : Contained (fs.ino s).link) (htn : (fs.ino s).link ≠ p) (htd : (fs.ino s).link ≠ dotP)
    (hj : fs.get? (fs.ino s).link = some j) (hjd : (fs.ino j).kind = .dir) (hsj : j ≠ s) :
    addEnt mk i p (f + 2) fs [] (dirOf p) = (fs.linkChild j i, none) := by
  have hdne := dirOf_ne_self hp hpd
  rw [addEnt]
  simp only [hdne, if_false, hdd]
  rw [getInode_hit (contained_dirOf hp) hs]
  simp only [List.not_mem_nil, if_false, hsk]
  rw [addEnt]
  simp only [htn, if_false, htd]
  rw [getInode_hit htc hj]
  simp only [List.mem_singleton, hsj, if_false, hjd]

/-- A member placed through a symbolic link: when the directory part of the
    (new) name `p` is the key of a symbolic link and the link's stored target
    is the key of a directory `j`, `add` registers the member under the literal
    name `p` — not under the name it has in the directory `j` — and makes it a
    child of `j`. Nothing else changes. -/
theorem add_through_symlink {fs : FS} {p : Bytes} {ino : Inode} {s j : Nat} (fuel : Nat) (hl : HL) (u : Bool)
    (hroot : fs.get? dotP = some 0) (hrootDir : (fs.ino 0).kind = .dir)
    (hp : Contained p) (hfresh : fs.get? p = none)
    (hnl : ino.kind = .link → (fs.get? ino.link).isSome = true)
    (hs : fs.get? (dirOf p) = some s) (hsl : s < fs.inodes.length) (hsk : (fs.ino s).kind = .sym)
    (htc : Contained (fs.ino s).link) (htn : (fs.ino s).link ≠ p) (htd : (fs.ino s).link ≠ dotP)
    (hj : fs.get? (fs.ino s).link = some j) (hjl : j < fs.inodes.length) (hjd : (fs.ino j).kind = .dir) :
    add (fuel + 1) fs hl p ino u =
      ((fs.pend p { ino with name := p }).linkChild j fs.inodes.length,
        if u then alDel hl p else hl, none) := by
  have hpd : p ≠ dotP := by intro e; subst e; rw [hroot] at hfresh; cases hfresh
  have hdne := dirOf_ne_self hp hpd
  have hdd : dirOf p ≠ dotP := by
    intro e
    rw [e, hroot] at hs
    cases hs
    rw [hrootDir] at hsk
    cases hsk
  have hsj : j ≠ s := by
    intro e; subst e; rw [hjd] at hsk; cases hsk
  have hs1 : (fs.pend p { ino with name := p }).get? (dirOf p) = some s := by
    rw [pend_get]; simp [Ne.symm hdne, hs]
  have hsi : (fs.pend p { ino with name := p }).ino s = fs.ino s := pend_ino_lt fs p _ hsl
  have hji : (fs.pend p { ino with name := p }).ino j = fs.ino j := pend_ino_lt fs p _ hjl
  have hj1 : (fs.pend p { ino with name := p }).get? ((fs.pend p { ino with name := p }).ino s).link = some j := by
    rw [hsi, pend_get]; simp [Ne.symm htn, hj]
  simp only [add, again_fresh hfresh]
  have hl1 : (if (u && decide (ino.kind = Kind.link) && (fs.get? ino.link).isNone) = true then
      alSet hl ino.link ((alGet hl ino.link).getD [] ++ [p]) else hl) = hl := by
    by_cases hk : ino.kind = .link
    · have := hnl hk
      cases hg : fs.get? ino.link <;> simp [hg] at this ⊢
    · simp [hk]
  simp only [hl1]
  obtain ⟨f, hf⟩ : ∃ f, 2 * (fs.inodes ++ [{ ino with name := p }]).length + 8 = f + 2 := ⟨_, rfl⟩
  rw [hf]
  have := addEnt_through (fun f p => (add fuel f [] p (newDir p) false).1) (fs := fs.pend p { ino with name := p })
    (i := fs.inodes.length) f hp hpd hs1 (by rw [hsi]; exact hsk) hdd (by rw [hsi]; exact htc)
    (by rw [hsi]; exact htn) (by rw [hsi]; exact htd) hj1 (by rw [hji]; exact hjd) hsj
  simp only [FS.pend] at this ⊢
  rw [this]

/-- Consequence for the lookup table (what Glob and Sub see): after the member
    was added, its literal name is a key and the name it has inside the
    directory is not (unless it was one before). -/
theorem through_symlink_keys {fs : FS} {p : Bytes} {x : Inode} {j : Nat} (k : Bytes) :
    ((fs.pend p x).linkChild j fs.inodes.length).get? k = if p = k then some fs.inodes.length else fs.get? k := by
  rw [linkChild_get, pend_get]

end ClairModel.TarFS
