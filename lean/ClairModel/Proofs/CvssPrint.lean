/-
  C18 — printing and parsing.  Generic lemmas about the `strings` helpers
  (Split on joined pieces, Cut, prefix stripping), the printed shape of a
  vector (`marshalVector` = the set metrics in table order, each as
  "/NAME:VALUE"), and for v3: `ParseV3` returns exactly the valid vectors and
  `parse3 (print3 v) = some v` for every valid vector.
-/
import ClairModel.Model.CvssSpec
namespace ClairModel.Cvss
open ClairModel.Gen.Cvss

/-! ### list lemmas for the parsers -/

theorem stripPrefix_append : ∀ (p s : Bytes), stripPrefix p (p ++ s) = some s
  | [], s => by cases s <;> rfl
  | a :: p, s => by simp [stripPrefix, stripPrefix_append p s]

theorem splitOn_ne_nil (sep : Nat) : ∀ s : Bytes, splitOn sep s ≠ []
  | [] => by simp [splitOn]
  | c :: cs => by
    unfold splitOn
    split
    · simp
    · split <;> simp

theorem splitOn_nosep (sep : Nat) : ∀ (p : Bytes), sep ∉ p → splitOn sep p = [p]
  | [], _ => rfl
  | c :: cs, h => by
    have hc : c ≠ sep := fun e => h (by simp [e])
    have ht : sep ∉ cs := fun e => h (List.mem_cons_of_mem _ e)
    simp [splitOn, hc, splitOn_nosep sep cs ht]

theorem splitOn_append_sep (sep : Nat) : ∀ (p r : Bytes), sep ∉ p → splitOn sep (p ++ sep :: r) = p :: splitOn sep r
  | [], r, _ => by simp [splitOn]
  | c :: cs, r, h => by
    have hc : c ≠ sep := fun e => h (by simp [e])
    have ht : sep ∉ cs := fun e => h (List.mem_cons_of_mem _ e)
    simp [splitOn, hc, splitOn_append_sep sep cs r ht]

/-- every piece preceded by the separator -/
def joinLead (sep : Nat) (ps : List Bytes) : Bytes := ps.flatMap (sep :: ·)

theorem joinLead_cons (sep : Nat) (p : Bytes) (ps : List Bytes) : joinLead sep (p :: ps) = sep :: (p ++ joinLead sep ps) := by
  simp [joinLead]

theorem joinLead_append (sep : Nat) (ps qs : List Bytes) : joinLead sep (ps ++ qs) = joinLead sep ps ++ joinLead sep qs := by
  simp [joinLead]

theorem splitOn_joinLead (sep : Nat) : ∀ (ps : List Bytes), (∀ p ∈ ps, sep ∉ p) → ps ≠ [] →
    splitOn sep (joinLead sep ps) = [] :: ps
  | [], _, h => absurd rfl h
  | [p], hp, _ => by
    have : sep ∉ p := hp p (by simp)
    simp [joinLead, splitOn, splitOn_nosep sep p this]
  | p :: q :: ps, hp, _ => by
    have h1 : sep ∉ p := hp p (by simp)
    have ih := splitOn_joinLead sep (q :: ps) (fun x hx => hp x (List.mem_cons_of_mem _ hx)) (by simp)
    rw [joinLead_cons, joinLead_cons]
    rw [joinLead_cons] at ih
    simp only [splitOn, if_true]
    rw [splitOn_append_sep sep p _ h1]
    simp only [splitOn, if_true] at ih
    injection ih with _ ih
    rw [ih]

theorem cut_name (sep : Nat) : ∀ (name val : Bytes), sep ∉ name → cut sep (name ++ sep :: val) = some (name, val)
  | [], val, _ => by simp [cut]
  | c :: cs, val, h => by
    have hc : c ≠ sep := fun e => h (by simp [e])
    have ht : sep ∉ cs := fun e => h (List.mem_cons_of_mem _ e)
    simp [cut, hc, cut_name sep cs val ht]

/-! ### vectors -/

theorem Vec.get_set_eq (v : Vec) (i b : Nat) (h : i < v.mv.length) : (v.set i b).get i = b := by
  simp [Vec.get, Vec.set, List.getD_eq_getElem?_getD, h]

theorem Vec.get_set_ne (v : Vec) (i j b : Nat) (h : i ≠ j) : (v.set i b).get j = v.get j := by
  simp [Vec.get, Vec.set, List.getD_eq_getElem?_getD, List.getElem?_set_ne h]

theorem Vec.set_length (v : Vec) (i b : Nat) : (v.set i b).mv.length = v.mv.length := by
  simp [Vec.set]

theorem Vec.set_ver (v : Vec) (i b : Nat) : (v.set i b).ver = v.ver := rfl

/-! ### the printed form of a v3 vector -/

/-- the `NAME:V` pieces of the metrics `ms` that are set -/
def pieces3 (v : Vec) : List Nat → List Bytes
  | [] => []
  | m :: ms => if v.get m = 0 then pieces3 v ms else (nameOf v3Names m ++ [cColon, v.get m]) :: pieces3 v ms

theorem groupText_v3 (v : Vec) : ∀ ms : List Nat,
    groupText v3Names (v3GetString v) ms = (joinLead cSlash (pieces3 v ms), decide (pieces3 v ms ≠ [])) := by
  intro ms
  induction ms with
  | nil => rfl
  | cons m ms ih =>
    by_cases h : v.get m = 0
    · simp [groupText, v3GetString, pieces3, h, ih]
    · simp [groupText, v3GetString, pieces3, h, ih, joinLead_cons]

theorem pieces3_append (v : Vec) (a b : List Nat) : pieces3 v (a ++ b) = pieces3 v a ++ pieces3 v b := by
  induction a with
  | nil => rfl
  | cons m ms ih => by_cases h : v.get m = 0 <;> simp [pieces3, h, ih]

theorem marshal_v3 (v : Vec) :
    marshalGroups v3Names (v3GetString v) [(0, 8), (8, 11), (11, 22)] = joinLead cSlash (pieces3 v (List.range' 0 22)) := by
  have e : List.range' 0 22 = List.range' 0 (8 - 0) ++ (List.range' 8 (11 - 8) ++ List.range' 11 (22 - 11)) := by decide
  rw [e, pieces3_append, pieces3_append, joinLead_append, joinLead_append]
  simp only [marshalGroups, groupText_v3, List.append_nil]
  have k (ps : List Bytes) : (if decide (ps ≠ []) = true then joinLead cSlash ps else []) = joinLead cSlash ps := by
    cases ps <;> simp [joinLead]
  simp only [k]

theorem print3_shape (v : Vec) :
    print3 v = v3Prefix ++ (48 + v.ver) :: joinLead cSlash (pieces3 v (List.range' 0 22)) := by
  simp only [print3, marshal_v3]

/-! ### parsing the printed form (v3) -/

/-- the values the v3 grammar allows for metric `m` -/
def gv3 (m : Nat) : List Nat := v3GrammarValues.getD m []

/-- what `ParseV3` can return: 22 metrics, minor 0 or 1, every set metric
    holds a value of its grammar class, the eight base metrics are set -/
structure Valid3 (v : Vec) : Prop where
  len : v.mv.length = 22
  ver : v.ver ≤ 1
  vals : ∀ m < 22, v.get m = 0 ∨ v.get m ∈ gv3 m
  base : ∀ m < 8, v.get m ≠ 0

theorem v3_names_facts : ∀ m < 22,
    findIdx (nameOf v3Names m) v3Names 0 = some m ∧ cColon ∉ nameOf v3Names m ∧ cSlash ∉ nameOf v3Names m := by
  decide

theorem gv3_facts : ∀ m < 22, ∀ b ∈ gv3 m, b ≠ 0 ∧ b ≠ cSlash ∧ b ≠ cColon := by decide

theorem v3Piece_printed {m b : Nat} (hm : m < 22) (hb : b ∈ gv3 m) :
    v3Piece (nameOf v3Names m ++ [cColon, b]) = some (m, b) := by
  obtain ⟨h1, h2, _⟩ := v3_names_facts m hm
  have hc : cut cColon (nameOf v3Names m ++ cColon :: [b]) = some (nameOf v3Names m, [b]) := cut_name cColon _ _ h2
  have hb' : (v3GrammarValues.getD m []).contains b = true := by simpa [gv3] using hb
  simp only [v3Piece, hc, h1, hb', if_true]

/-- setting, in order, the metrics of `ms` that `v` holds -/
def fill3 (v : Vec) : List Nat → Vec → Vec
  | [], acc => acc
  | m :: ms, acc => if v.get m = 0 then fill3 v ms acc else fill3 v ms (acc.set m (v.get m))

theorem v3Fill_printed (v : Vec) (hv : ∀ m < 22, v.get m = 0 ∨ v.get m ∈ gv3 m) :
    ∀ (ms : List Nat) (acc : Vec), ms.Nodup → (∀ m ∈ ms, m < 22 ∧ acc.get m = 0) →
      v3Fill (pieces3 v ms) acc = some (fill3 v ms acc)
  | [], acc, _, _ => rfl
  | m :: ms, acc, hnd, hacc => by
    have hm := (hacc m (by simp)).1
    have h0 := (hacc m (by simp)).2
    have hnd' : ms.Nodup := (List.nodup_cons.1 hnd).2
    have hnm : m ∉ ms := (List.nodup_cons.1 hnd).1
    by_cases hz : v.get m = 0
    · simp only [pieces3, fill3, hz, if_true]
      exact v3Fill_printed v hv ms acc hnd' (fun x hx => hacc x (List.mem_cons_of_mem _ hx))
    · have hb : v.get m ∈ gv3 m := (hv m hm).resolve_left hz
      simp only [pieces3, fill3, hz, if_false, v3Fill, v3Piece_printed hm hb, h0, ne_eq, not_true_eq_false]
      apply v3Fill_printed v hv ms _ hnd'
      intro x hx
      refine ⟨(hacc x (List.mem_cons_of_mem _ hx)).1, ?_⟩
      rw [Vec.get_set_ne _ _ _ _ (fun e : m = x => hnm (by rw [e]; exact hx))]
      exact (hacc x (List.mem_cons_of_mem _ hx)).2

theorem fill3_ver (v : Vec) : ∀ (ms : List Nat) (acc : Vec), (fill3 v ms acc).ver = acc.ver
  | [], _ => rfl
  | m :: ms, acc => by
    by_cases hz : v.get m = 0 <;> simp [fill3, hz, fill3_ver v ms, Vec.set_ver]

theorem fill3_length (v : Vec) : ∀ (ms : List Nat) (acc : Vec), (fill3 v ms acc).mv.length = acc.mv.length
  | [], _ => rfl
  | m :: ms, acc => by
    by_cases hz : v.get m = 0 <;> simp [fill3, hz, fill3_length v ms, Vec.set_length]

theorem fill3_get (v : Vec) : ∀ (ms : List Nat) (acc : Vec) (j : Nat), ms.Nodup → (∀ m ∈ ms, m < acc.mv.length) →
    (fill3 v ms acc).get j = if j ∈ ms ∧ v.get j ≠ 0 then v.get j else acc.get j
  | [], acc, j, _, _ => by simp [fill3]
  | m :: ms, acc, j, hnd, hlt => by
    have hnd' : ms.Nodup := (List.nodup_cons.1 hnd).2
    have hnm : m ∉ ms := (List.nodup_cons.1 hnd).1
    have hlt' : ∀ x ∈ ms, x < acc.mv.length := fun x hx => hlt x (List.mem_cons_of_mem _ hx)
    by_cases hz : v.get m = 0
    · simp only [fill3, hz, if_true]
      rw [fill3_get v ms acc j hnd' hlt']
      by_cases hj : j = m
      · subst hj; simp [hz, hnm]
      · simp [hj]
    · simp only [fill3, hz, if_false]
      rw [fill3_get v ms _ j hnd' (by simpa [Vec.set_length] using hlt')]
      by_cases hj : j = m
      · subst hj
        simp [hnm, hz, Vec.get_set_eq _ _ _ (hlt j (by simp))]
      · simp [hj, Vec.get_set_ne _ _ _ _ (fun e => hj e.symm)]

theorem Vec.ext_get {a b : Vec} (hv : a.ver = b.ver) (hl : a.mv.length = b.mv.length)
    (h : ∀ j < a.mv.length, a.get j = b.get j) : a = b := by
  cases a with | mk av amv => cases b with | mk bv bmv =>
  simp only [Vec.mk.injEq]
  refine ⟨hv, ?_⟩
  apply List.ext_getElem hl
  intro i h1 h2
  have := h i h1
  simp only [Vec.get, List.getD_eq_getElem?_getD, List.getElem?_eq_getElem h1, List.getElem?_eq_getElem h2,
    Option.getD_some] at this
  exact this

theorem get_empty (n ver j : Nat) : ({ (Vec.empty n) with ver := ver } : Vec).get j = 0 := by
  simp [Vec.get, Vec.empty, List.getD_eq_getElem?_getD, List.getElem?_replicate]
  split <;> rfl

/-- printing a valid v3 vector and parsing the text gives the vector back -/
theorem parse3_print3 (v : Vec) (hv : Valid3 v) : parse3 (print3 v) = some v := by
  have hnd : (List.range' 0 22).Nodup := by decide
  have hmem : ∀ m ∈ List.range' 0 22, m < 22 := by decide
  have hd : 48 + v.ver = 48 ∨ 48 + v.ver = 49 := by have := hv.ver; omega
  -- the pieces
  have hne : pieces3 v (List.range' 0 22) ≠ [] := by
    have h0 := hv.base 0 (by decide)
    have : List.range' 0 22 = 0 :: List.range' 1 21 := by decide
    rw [this]
    simp [pieces3, h0]
  have hsep : ∀ p ∈ pieces3 v (List.range' 0 22), cSlash ∉ p := by
    have gen : ∀ ms : List Nat, (∀ m ∈ ms, m < 22) → ∀ p ∈ pieces3 v ms, cSlash ∉ p := by
      intro ms
      induction ms with
      | nil => intro _ p hp; simp [pieces3] at hp
      | cons m ms ih =>
        intro hms p hp
        have hm := hms m (by simp)
        by_cases hz : v.get m = 0
        · simp only [pieces3, hz, if_true] at hp
          exact ih (fun x hx => hms x (List.mem_cons_of_mem _ hx)) p hp
        · simp only [pieces3, hz, if_false, List.mem_cons] at hp
          rcases hp with rfl | hp
          · have hb := (hv.vals m hm).resolve_left hz
            have f := gv3_facts m hm _ hb
            have g := (v3_names_facts m hm).2.2
            intro hin
            simp only [List.mem_append, List.mem_cons, List.mem_nil_iff, or_false] at hin
            rcases hin with hin | hin | hin
            · exact g hin
            · exact absurd hin (by decide)
            · exact f.2.1 hin.symm
          · exact ih (fun x hx => hms x (List.mem_cons_of_mem _ hx)) p hp
    exact gen _ hmem
  rw [print3_shape, parse3, stripPrefix_append]
  simp only [hd, if_true]
  rw [splitOn_joinLead cSlash _ hsep hne]
  cases hp : pieces3 v (List.range' 0 22) with
  | nil => exact absurd hp hne
  | cons p ps =>
    simp only []
    rw [← hp, v3Fill_printed v hv.vals _ _ hnd (fun m hm => ⟨hmem m hm, get_empty 22 _ m⟩)]
    have hres : fill3 v (List.range' 0 22) { (Vec.empty 22) with ver := 48 + v.ver - 48 } = v := by
      apply Vec.ext_get
      · rw [fill3_ver]; simp
      · rw [fill3_length]; simp [Vec.empty, hv.len]
      · intro j hj
        rw [fill3_length] at hj
        have hj22 : j < 22 := by simpa [Vec.empty] using hj
        rw [fill3_get v _ _ j hnd (by intro m hm; simpa [Vec.empty] using hmem m hm)]
        have hjm : j ∈ List.range' 0 22 := by
          simp [List.mem_range']; omega
        by_cases hz : v.get j = 0
        · simp [hz, get_empty]
        · simp [hz, hjm]
    simp only [hres]
    have hbc : baseComplete v 8 = true := by
      simp only [baseComplete, List.all_eq_true, decide_eq_true_eq]
      intro x hx
      obtain ⟨i, hi, rfl⟩ := List.mem_iff_getElem.1 hx
      have hi8 : i < 8 := by simpa [hv.len] using hi
      have := hv.base i hi8
      simpa [Vec.get, List.getD_eq_getElem?_getD, List.getElem_take, List.getElem?_eq_getElem (by rw [hv.len]; omega : i < v.mv.length)] using this
    simp [hbc]

/-! ### what `ParseV3` returns is valid -/

theorem findIdx_bounds (x : Bytes) : ∀ (ys : List Bytes) (off i : Nat), findIdx x ys off = some i →
    off ≤ i ∧ i < off + ys.length
  | [], _, _, h => by simp [findIdx] at h
  | y :: ys, off, i, h => by
    unfold findIdx at h
    split at h
    · have : off = i := by simpa using h
      subst this; simp
    · have := findIdx_bounds x ys (off + 1) i h
      simp only [List.length_cons]
      omega

theorem v3Piece_sound {p : Bytes} {m c : Nat} (h : v3Piece p = some (m, c)) : m < 22 ∧ c ∈ gv3 m := by
  unfold v3Piece at h
  split at h
  · simp at h
  · rename_i name val _
    split at h
    · simp at h
    · rename_i m' hm'
      split at h
      · rename_i c'
        split at h
        · rename_i hc
          simp only [Option.some.injEq, Prod.mk.injEq] at h
          obtain ⟨rfl, rfl⟩ := h
          have hb := findIdx_bounds name v3Names 0 _ hm'
          have hl : v3Names.length = 22 := by decide
          refine ⟨by omega, ?_⟩
          simpa [gv3] using hc
        · simp at h
      · simp at h

/-- the invariant of the metric loop -/
def Inv3 (a : Vec) : Prop := a.mv.length = 22 ∧ ∀ m < 22, a.get m = 0 ∨ a.get m ∈ gv3 m

theorem v3Fill_sound : ∀ (ps : List Bytes) (acc v : Vec), v3Fill ps acc = some v → Inv3 acc → Inv3 v ∧ v.ver = acc.ver
  | [], acc, v, h, hi => by
    have : acc = v := by simpa [v3Fill] using h
    subst this; exact ⟨hi, rfl⟩
  | p :: ps, acc, v, h, hi => by
    unfold v3Fill at h
    split at h
    · simp at h
    · rename_i m c hp
      split at h
      · simp at h
      · obtain ⟨hm, hc⟩ := v3Piece_sound hp
        have hi' : Inv3 (acc.set m c) := by
          refine ⟨by rw [Vec.set_length]; exact hi.1, ?_⟩
          intro j hj
          by_cases e : m = j
          · subst e
            rw [Vec.get_set_eq _ _ _ (by rw [hi.1]; exact hm)]
            exact Or.inr hc
          · rw [Vec.get_set_ne _ _ _ _ e]
            exact hi.2 j hj
        have := v3Fill_sound ps _ v h hi'
        exact ⟨this.1, by rw [this.2, Vec.set_ver]⟩

theorem stripPrefix_some : ∀ (p s r : Bytes), stripPrefix p s = some r → s = p ++ r
  | [], s, r, h => by
    have : s = r := by cases s <;> simpa [stripPrefix] using h
    simp [this]
  | a :: p, [], r, h => by simp [stripPrefix] at h
  | a :: p, b :: s, r, h => by
    unfold stripPrefix at h
    split at h
    · rename_i e
      subst e
      rw [stripPrefix_some p s r h]; rfl
    · simp at h

theorem parse3_sound {s : Bytes} {v : Vec} (h : parse3 s = some v) : Valid3 v := by
  unfold parse3 at h
  split at h
  · simp at h
  · simp at h
  · rename_i d rest _
    split at h
    · rename_i hd
      split at h
      · rename_i p ps _
        split at h
        · simp at h
        · rename_i v' hf
          split at h
          · rename_i hbc
            have : v' = v := by simpa using h
            subst this
            have hi0 : Inv3 { (Vec.empty 22) with ver := d - 48 } :=
              ⟨by simp [Vec.empty], fun m _ => Or.inl (get_empty 22 _ m)⟩
            obtain ⟨⟨hlen, hvals⟩, hver⟩ := v3Fill_sound _ _ _ hf hi0
            refine ⟨hlen, ?_, hvals, ?_⟩
            · rw [hver]; show d - 48 ≤ 1; omega
            · intro m hm
              simp only [baseComplete, List.all_eq_true, decide_eq_true_eq] at hbc
              have hm' : m < (v'.mv.take 8).length := by simp [hlen]; omega
              have := hbc ((v'.mv.take 8)[m]) (List.getElem_mem hm')
              simpa [Vec.get, List.getD_eq_getElem?_getD, List.getElem_take,
                List.getElem?_eq_getElem (by rw [hlen]; omega : m < v'.mv.length)] using this
          · simp at h
      · simp at h
    · simp at h

/-- printing what `ParseV3` returned and parsing it again gives the same vector -/
theorem parse3_print3_parse3 {s : Bytes} {v : Vec} (h : parse3 s = some v) : parse3 (print3 v) = some v :=
  parse3_print3 v (parse3_sound h)

end ClairModel.Cvss
