/-
  Lemmas about the PEP 440 model (Model/Pep440.lean): the recogniser run on
  the printed form of a well-formed version returns the capture groups the
  printer wrote, hence `parse (toStr v) = some v`.
-/
import ClairModel.Model.Pep440
import ClairModel.Proofs.Version

namespace ClairModel.Pep440
open ClairModel.Order ClairModel.Version

/-! ### scanning helpers -/

/-- `r` does not start with a digit. -/
def NoDigitHead (r : List Char) : Prop := spanDigits r = ([], r)

theorem noDigitHead_nil : NoDigitHead [] := rfl

theorem noDigitHead_cons {c : Char} (r : List Char) (h : isDigit c = false) : NoDigitHead (c :: r) := by
  simp [NoDigitHead, spanDigits, h]

theorem spanDigits_append {l r : List Char} (hl : ∀ c ∈ l, IsDigChar c) (hr : NoDigitHead r) :
    spanDigits (l ++ r) = (l, r) := by
  induction l with
  | nil => exact hr
  | cons c cs ih =>
    have hc : isDigit c = true := (hl c List.mem_cons_self).isDigit
    have := ih (fun x hx => hl x (List.mem_cons_of_mem _ hx))
    simp [spanDigits, hc, this]

theorem isDig_cons {l : List Char} (h : IsDig l) : ∃ d cs, d < 10 ∧ l = digitChar d :: cs := by
  cases l with
  | nil => exact absurd rfl h.1
  | cons c cs =>
    obtain ⟨d, hd, rfl⟩ := h.2 c List.mem_cons_self
    exact ⟨d, cs, hd, rfl⟩

theorem digChar_facts2 : ∀ d, d < 10 →
    isSep (digitChar d) = false ∧ digitChar d ≠ 'l' ∧ digitChar d ≠ 'e' ∧ digitChar d ≠ 'c' ∧
    digitChar d ≠ 'r' ∧ digitChar d ≠ 'v' ∧ digitChar d ≠ 'o' := by
  decide

/-- Text of the release components after the first: `.n` for each. -/
def relTail (rs : List Nat) : List Char := rs.flatMap fun x => '.' :: natDigits x

/-- `r` makes the release loop stop at once. -/
def StopsRelease (r : List Char) : Prop := ∀ fuel, releaseTail fuel r = ([], r)

theorem stopsRelease_nil : StopsRelease [] := by
  intro fuel; cases fuel <;> simp [releaseTail]

theorem stopsRelease_letter {c : Char} (r : List Char) (h : c ≠ '.') : StopsRelease (c :: r) := by
  intro fuel; cases fuel <;> simp [releaseTail, h]

theorem stopsRelease_dot_letter {c : Char} (r : List Char) (h : isDigit c = false) :
    StopsRelease ('.' :: c :: r) := by
  intro fuel; cases fuel <;> simp [releaseTail, spanDigits, h]

theorem noDigitHead_relTail_append (xs : List Nat) {rest : List Char} (h : NoDigitHead rest) :
    NoDigitHead (relTail xs ++ rest) := by
  cases xs with
  | nil => simpa [relTail] using h
  | cons x xs => exact noDigitHead_cons _ (by decide)

theorem releaseTail_append (rest : List Char) (hs : StopsRelease rest) (hn : NoDigitHead rest) :
    ∀ (rs : List Nat) (fuel : Nat), rs.length ≤ fuel →
      releaseTail fuel (relTail rs ++ rest) = (relTail rs, rest)
  | [], fuel, _ => by simpa [relTail] using hs fuel
  | x :: xs, 0, h => by simp at h
  | x :: xs, fuel + 1, h => by
    have ih := releaseTail_append rest hs hn xs fuel (by simpa using h)
    have hsp : spanDigits (natDigits x ++ (relTail xs ++ rest)) = (natDigits x, relTail xs ++ rest) :=
      spanDigits_append (natDigits_isDig x).2 (noDigitHead_relTail_append xs hn)
    have hne : (natDigits x).isEmpty = false := by
      cases hx : natDigits x with
      | nil => exact absurd hx (natDigits_isDig x).1
      | cons _ _ => rfl
    have : relTail (x :: xs) ++ rest = '.' :: (natDigits x ++ (relTail xs ++ rest)) := by
      simp [relTail, List.flatMap_cons]
    rw [this]
    simp only [releaseTail, hsp, hne, ih]
    simp [relTail, List.flatMap_cons]

theorem relTail_length (rs : List Nat) : rs.length ≤ (relTail rs).length := by
  induction rs with
  | nil => simp [relTail]
  | cons x xs ih =>
    simp only [relTail, List.flatMap_cons, List.length_append, List.length_cons] at ih ⊢
    omega

theorem joinWith_dot (x : Nat) (xs : List Nat) :
    joinWith ['.'] ((x :: xs).map natDigits) = natDigits x ++ relTail xs := by
  induction xs generalizing x with
  | nil => simp [joinWith, relTail]
  | cons y ys ih =>
    simp only [List.map_cons] at ih ⊢
    simp only [joinWith, ih y]
    simp [relTail, List.flatMap_cons]

/-! ### the printed pieces -/

def preStr (label : List Char) (n : Nat) : List Char := if label ≠ [] then label ++ natDigits n else []
def postStr (p : Nat) : List Char := if p ≠ 0 then '.' :: 'p' :: 'o' :: 's' :: 't' :: natDigits p else []
def devStr (d : Nat) : List Char := if d ≠ 0 then '.' :: 'd' :: 'e' :: 'v' :: natDigits d else []

def ValidLabel (l : List Char) : Prop := l = [] ∨ l = ['a'] ∨ l = ['b'] ∨ l = ['r', 'c']

/-- What the labelled groups return on `label digits rest`. -/
theorem labelled_hit (alts : List (List Char)) (l : List Char) (n : Nat) (rest : List Char)
    (hl : ∀ c cs, l = c :: cs → isSep c = false)
    (hfirst : firstAlt alts (l ++ (natDigits n ++ rest)) = some (l, natDigits n ++ rest))
    (hne : l ≠ []) (hrest : NoDigitHead rest) :
    labelled alts (l ++ (natDigits n ++ rest)) = some (l, natDigits n, rest) := by
  have hopt : optSep (l ++ (natDigits n ++ rest)) = l ++ (natDigits n ++ rest) := by
    cases l with
    | nil => exact absurd rfl hne
    | cons c cs => simp [optSep, hl c cs rfl]
  obtain ⟨d, ds, hd, hds⟩ := isDig_cons (natDigits_isDig n)
  have hsep : optSep (natDigits n ++ rest) = natDigits n ++ rest := by
    rw [hds]; simp [optSep, (digChar_facts2 d hd).1]
  have hsp := spanDigits_append (natDigits_isDig n).2 hrest
  have hne' : (natDigits n).isEmpty = false := by rw [hds]; rfl
  unfold labelled
  rw [hopt, hfirst]
  simp only [hsep, hsp, hne']
  simp

/-- The text after the release segment. -/
def sufStr (label : List Char) (n p d : Nat) : List Char := preStr label n ++ (postStr p ++ devStr d)

theorem natDigits_cons (n : Nat) : ∃ d cs, d < 10 ∧ natDigits n = digitChar d :: cs :=
  isDig_cons (natDigits_isDig n)

theorem pd_noDigitHead (p d : Nat) : NoDigitHead (postStr p ++ devStr d) := by
  unfold postStr devStr
  by_cases hp : p = 0 <;> by_cases hd : d = 0 <;> simp [hp, hd, noDigitHead_nil] <;>
    exact noDigitHead_cons _ (by decide)

theorem dev_noDigitHead (d : Nat) : NoDigitHead (devStr d) := by
  unfold devStr
  by_cases hd : d = 0 <;> simp [hd, noDigitHead_nil]
  exact noDigitHead_cons _ (by decide)

theorem suf_noDigitHead {label : List Char} (hl : ValidLabel label) (n p d : Nat) :
    NoDigitHead (sufStr label n p d) := by
  unfold sufStr preStr
  rcases hl with rfl | rfl | rfl | rfl
  · simpa using pd_noDigitHead p d
  all_goals exact noDigitHead_cons _ (by decide)

theorem pd_stops (p d : Nat) : StopsRelease (postStr p ++ devStr d) := by
  unfold postStr devStr
  by_cases hp : p = 0 <;> by_cases hd : d = 0 <;> simp [hp, hd, stopsRelease_nil] <;>
    exact stopsRelease_dot_letter _ (by decide)

theorem suf_stops {label : List Char} (hl : ValidLabel label) (n p d : Nat) :
    StopsRelease (sufStr label n p d) := by
  unfold sufStr preStr
  rcases hl with rfl | rfl | rfl | rfl
  · simpa using pd_stops p d
  all_goals exact stopsRelease_letter _ (by decide)

/-- The text from the release tail on never starts with `!`. -/
theorem tail_no_bang {label : List Char} (hl : ValidLabel label) (rs : List Nat) (n p d : Nat) :
    ∀ r, relTail rs ++ sufStr label n p d ≠ '!' :: r := by
  intro r
  cases rs with
  | cons x xs => simp [relTail, List.flatMap_cons]
  | nil =>
    simp only [relTail, List.flatMap_nil, List.nil_append]
    unfold sufStr preStr postStr devStr
    rcases hl with rfl | rfl | rfl | rfl <;> by_cases hp : p = 0 <;> by_cases hd : d = 0 <;> simp [hp, hd]

/-! ### the groups of the printed text -/

theorem pre_none (p d : Nat) : labelled preAlts (postStr p ++ devStr d) = none := by
  unfold postStr devStr
  by_cases hp : p = 0 <;> by_cases hd : d = 0 <;>
    simp [hp, hd, labelled, optSep, isSep, firstAlt, stripPrefix, preAlts]

theorem pre_hit {label : List Char} (hl : ValidLabel label) (hne : label ≠ []) (n : Nat) (rest : List Char)
    (hrest : NoDigitHead rest) :
    labelled preAlts (label ++ (natDigits n ++ rest)) = some (label, natDigits n, rest) := by
  obtain ⟨d, ds, hd, hds⟩ := natDigits_cons n
  obtain ⟨_, f₁, f₂, f₃, _⟩ := digChar_facts2 d hd
  apply labelled_hit preAlts label n rest _ _ hne hrest
  · rcases hl with rfl | rfl | rfl | rfl <;> intro c cs h <;> simp at h <;> (try (obtain ⟨rfl, _⟩ := h; decide))
  · rcases hl with rfl | rfl | rfl | rfl
    · exact absurd rfl hne
    all_goals (rw [hds]; simp [firstAlt, stripPrefix, preAlts, f₁.symm, f₂.symm, f₃.symm])

theorem post_hit (p : Nat) (hp : p ≠ 0) (rest : List Char) (hrest : NoDigitHead rest) :
    postGroup (postStr p ++ rest) = some ([], natDigits p, rest) := by
  obtain ⟨d, ds, hd, hds⟩ := natDigits_cons p
  have h := labelled_hit postAlts ['p', 'o', 's', 't'] p rest
    (by intro c cs h; simp at h; obtain ⟨rfl, _⟩ := h; decide)
    (by simp [firstAlt, stripPrefix, postAlts]) (by simp) hrest
  have hopt : ∀ t, labelled postAlts ('.' :: t) = labelled postAlts t ∨ True := fun _ => Or.inr trivial
  unfold postGroup postStr
  simp only [hp, ne_eq, not_false_eq_true, if_true, List.cons_append]
  -- the leading '.' is the optional separator of the labelled form
  have : labelled postAlts ('.' :: 'p' :: 'o' :: 's' :: 't' :: (natDigits p ++ rest))
      = labelled postAlts ('p' :: 'o' :: 's' :: 't' :: (natDigits p ++ rest)) := by
    simp [labelled, optSep, isSep]
  simp only [this]
  simp only [List.cons_append, List.nil_append] at h
  simp [h]

theorem post_none (d : Nat) : postGroup (devStr d) = none := by
  unfold devStr
  by_cases hd : d = 0 <;> simp [hd, postGroup, labelled, optSep, isSep, firstAlt, stripPrefix, postAlts]

theorem dev_hit (d : Nat) (hd : d ≠ 0) :
    labelled devAlts (devStr d) = some (['d', 'e', 'v'], natDigits d, []) := by
  have h := labelled_hit devAlts ['d', 'e', 'v'] d []
    (by intro c cs h; simp at h; obtain ⟨rfl, _⟩ := h; decide)
    (by simp [firstAlt, stripPrefix, devAlts]) (by simp) noDigitHead_nil
  unfold devStr
  simp only [hd, ne_eq, not_false_eq_true, if_true]
  have : labelled devAlts ('.' :: 'd' :: 'e' :: 'v' :: natDigits d)
      = labelled devAlts ('d' :: 'e' :: 'v' :: natDigits d) := by
    simp [labelled, optSep, isSep]
  simp only [List.cons_append, List.nil_append, List.append_nil] at h
  rw [this, h]

theorem dev_none : labelled devAlts [] = none := by
  simp [labelled, optSep, firstAlt, stripPrefix, devAlts]

/-- From the release segment on: what the rest of `matchHere` computes. -/
theorem suffix_groups {label : List Char} (hl : ValidLabel label) (n p d : Nat) :
    (match labelled preAlts (sufStr label n p d) with
      | some (l, m, r) => (l, m, r)
      | none => ([], [], sufStr label n p d))
    = (label, (if label ≠ [] then natDigits n else []), postStr p ++ devStr d) := by
  by_cases hne : label = []
  · subst hne
    simp [sufStr, preStr, pre_none]
  · have := pre_hit hl hne n (postStr p ++ devStr d) (pd_noDigitHead p d)
    simp [sufStr, preStr, hne, this]

theorem post_groups (p d : Nat) :
    (match postGroup (postStr p ++ devStr d) with
      | some (a, b, r) => (a, b, r)
      | none => ([], [], postStr p ++ devStr d))
    = ([], (if p ≠ 0 then natDigits p else []), devStr d) := by
  by_cases hp : p = 0
  · subst hp; simp [postStr, post_none]
  · simp [post_hit p hp (devStr d) (dev_noDigitHead d), hp]

theorem dev_groups (d : Nat) :
    (match labelled devAlts (devStr d) with
      | some (_, m, _) => m
      | none => [])
    = (if d ≠ 0 then natDigits d else []) := by
  by_cases hd : d = 0
  · subst hd; simp [devStr, dev_none]
  · simp [dev_hit d hd, hd]

/-- The recogniser on the printed text, started at the release segment. -/
theorem matchRest_printed (epochGroup : List Char) (r1 : Nat) (rs : List Nat)
    {label : List Char} (hl : ValidLabel label) (n p d : Nat) :
    matchRest epochGroup (natDigits r1 ++ (relTail rs ++ sufStr label n p d))
    = { epoch := epochGroup, release := natDigits r1 ++ relTail rs, preL := label,
        preN := if label ≠ [] then natDigits n else [], postN1 := [],
        postN2 := if p ≠ 0 then natDigits p else [], devN := if d ≠ 0 then natDigits d else [] } := by
  have hT : NoDigitHead (relTail rs ++ sufStr label n p d) :=
    noDigitHead_relTail_append rs (suf_noDigitHead hl n p d)
  have h₁ := spanDigits_append (natDigits_isDig r1).2 hT
  have h₂ := releaseTail_append (sufStr label n p d) (suf_stops hl n p d) (suf_noDigitHead hl n p d) rs
    (relTail rs ++ sufStr label n p d).length (by
      have := relTail_length rs; simp only [List.length_append]; omega)
  unfold matchRest
  simp only [h₁, h₂, suffix_groups hl n p d, post_groups p d, dev_groups d]

/-- The printed text: optional `epoch!`, then the release segment and the rest. -/
def printed (e r1 : Nat) (rs : List Nat) (label : List Char) (n p d : Nat) : List Char :=
  (if e ≠ 0 then natDigits e ++ ['!'] else []) ++ (natDigits r1 ++ (relTail rs ++ sufStr label n p d))

def printedGroups (e r1 : Nat) (rs : List Nat) (label : List Char) (n p d : Nat) : Groups :=
  { epoch := if e ≠ 0 then natDigits e else [], release := natDigits r1 ++ relTail rs, preL := label,
    preN := if label ≠ [] then natDigits n else [], postN1 := [],
    postN2 := if p ≠ 0 then natDigits p else [], devN := if d ≠ 0 then natDigits d else [] }

theorem matchHere_printed (e r1 : Nat) (rs : List Nat) {label : List Char} (hl : ValidLabel label)
    (n p d : Nat) : matchHere (printed e r1 rs label n p d) = some (printedGroups e r1 rs label n p d) := by
  have hT : NoDigitHead (relTail rs ++ sufStr label n p d) :=
    noDigitHead_relTail_append rs (suf_noDigitHead hl n p d)
  obtain ⟨dr, csr, hdr, hr1⟩ := natDigits_cons r1
  unfold printed printedGroups
  by_cases he : e = 0
  · subst he
    simp only [ne_eq, not_true_eq_false, if_false, List.nil_append]
    have h₀ := spanDigits_append (natDigits_isDig r1).2 hT
    have hne : (natDigits r1).isEmpty = false := by rw [hr1]; rfl
    unfold matchHere
    simp only [h₀, hne]
    have hbang := tail_no_bang hl rs n p d
    -- the text after the first number does not start with `!`
    cases hq : relTail rs ++ sufStr label n p d with
    | nil =>
      simp only [Bool.false_eq_true, if_false]
      rw [← hq, matchRest_printed [] r1 rs hl n p d]
    | cons c cs =>
      have hc : c ≠ '!' := by
        intro h; subst h; exact hbang cs hq
      simp only [Bool.false_eq_true, if_false]
      have : (match c :: cs with
          | '!' :: r1' => (match r1' with
              | c' :: _ => if isDigit c' then (natDigits r1, r1') else ([], natDigits r1 ++ c :: cs)
              | [] => ([], natDigits r1 ++ c :: cs))
          | _ => (([] : List Char), natDigits r1 ++ c :: cs)) = ([], natDigits r1 ++ c :: cs) := by
        split
        · rename_i h; simp only [List.cons.injEq] at h; exact absurd h.1 hc
        · rfl
      simp only [this]
      rw [← hq, matchRest_printed [] r1 rs hl n p d]
  · simp only [ne_eq, he, not_false_eq_true, if_true, List.append_assoc, List.singleton_append]
    have hbangND : NoDigitHead ('!' :: (natDigits r1 ++ (relTail rs ++ sufStr label n p d))) :=
      noDigitHead_cons _ (by decide)
    have h₀ := spanDigits_append (natDigits_isDig e).2 hbangND
    obtain ⟨de, cse, hde, he1⟩ := natDigits_cons e
    have hne : (natDigits e).isEmpty = false := by rw [he1]; rfl
    unfold matchHere
    simp only [h₀, hne, Bool.false_eq_true, if_false]
    rw [hr1]
    simp only [List.cons_append, digitChar_isDigit dr hdr, if_true]
    rw [← List.cons_append, ← hr1, matchRest_printed (natDigits e) r1 rs hl n p d]

end ClairModel.Pep440
