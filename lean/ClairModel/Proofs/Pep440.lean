/-
  Lemmas about the PEP 440 model (Model/Pep440.lean): the recogniser run on
  the printed form of a well-formed version returns the capture groups the
  printer wrote, hence `parse (toStr v) = some v`.
-/
import ClairModel.Model.Pep440
import ClairModel.Proofs.Version

set_option linter.unusedSimpArgs false

namespace ClairModel.Pep440
open ClairModel.Order ClairModel.Version

/-! ### scanning helpers -/

/-- `r` does not start with a digit. -/
def NoDigitHead (r : List Char) : Prop := spanDigits r = ([], r)

theorem noDigitHead_nil : NoDigitHead [] := rfl

theorem noDigitHead_cons {c : Char} (r : List Char) (h : isDigit c = false) : NoDigitHead (c :: r) := by
  simp [NoDigitHead, spanDigits, h]

theorem spanDigits_append {l r : List Char} (hl : ∀ c ∈ l, IsDigChar c) (hr : NoDigitHead r) :
    spanDigits (l ++ r) = (l, r) := by
  induction l with
  | nil => exact hr
  | cons c cs ih =>
    have hc : isDigit c = true := (hl c List.mem_cons_self).isDigit
    have := ih (fun x hx => hl x (List.mem_cons_of_mem _ hx))
    simp [spanDigits, hc, this]

theorem isDig_cons {l : List Char} (h : IsDig l) : ∃ d cs, d < 10 ∧ l = digitChar d :: cs := by
  cases l with
  | nil => exact absurd rfl h.1
  | cons c cs =>
    obtain ⟨d, hd, rfl⟩ := h.2 c List.mem_cons_self
    exact ⟨d, cs, hd, rfl⟩

theorem digChar_facts2 : ∀ d, d < 10 →
    isSep (digitChar d) = false ∧ digitChar d ≠ 'l' ∧ digitChar d ≠ 'e' ∧ digitChar d ≠ 'c' ∧
    digitChar d ≠ 'r' ∧ digitChar d ≠ 'v' ∧ digitChar d ≠ 'o' := by
  decide

/-- Text of the release components after the first: `.n` for each. -/
def relTail (rs : List Nat) : List Char := rs.flatMap fun x => '.' :: natDigits x

/-- `r` makes the release loop stop at once. -/
def StopsRelease (r : List Char) : Prop := ∀ fuel, releaseTail fuel r = ([], r)

theorem stopsRelease_nil : StopsRelease [] := by
  intro fuel; cases fuel <;> simp [releaseTail]

theorem stopsRelease_letter {c : Char} (r : List Char) (h : c ≠ '.') : StopsRelease (c :: r) := by
  intro fuel; cases fuel <;> simp [releaseTail, h]

theorem stopsRelease_dot_letter {c : Char} (r : List Char) (h : isDigit c = false) :
    StopsRelease ('.' :: c :: r) := by
  intro fuel; cases fuel <;> simp [releaseTail, spanDigits, h]

theorem noDigitHead_relTail_append (xs : List Nat) {rest : List Char} (h : NoDigitHead rest) :
    NoDigitHead (relTail xs ++ rest) := by
  cases xs with
  | nil => simpa [relTail] using h
  | cons x xs => exact noDigitHead_cons _ (by decide)

theorem releaseTail_append (rest : List Char) (hs : StopsRelease rest) (hn : NoDigitHead rest) :
    ∀ (rs : List Nat) (fuel : Nat), rs.length ≤ fuel →
      releaseTail fuel (relTail rs ++ rest) = (relTail rs, rest)
  | [], fuel, _ => by simpa [relTail] using hs fuel
  | x :: xs, 0, h => by simp at h
  | x :: xs, fuel + 1, h => by
    have ih := releaseTail_append rest hs hn xs fuel (by simpa using h)
    have hsp : spanDigits (natDigits x ++ (relTail xs ++ rest)) = (natDigits x, relTail xs ++ rest) :=
      spanDigits_append (natDigits_isDig x).2 (noDigitHead_relTail_append xs hn)
    have hne : (natDigits x).isEmpty = false := by
      cases hx : natDigits x with
      | nil => exact absurd hx (natDigits_isDig x).1
      | cons _ _ => rfl
    have : relTail (x :: xs) ++ rest = '.' :: (natDigits x ++ (relTail xs ++ rest)) := by
      simp [relTail, List.flatMap_cons]
    rw [this]
    simp only [releaseTail, hsp, hne, ih]
    simp [relTail, List.flatMap_cons]

theorem relTail_length (rs : List Nat) : rs.length ≤ (relTail rs).length := by
  induction rs with
  | nil => simp [relTail]
  | cons x xs ih =>
    simp only [relTail, List.flatMap_cons, List.length_append, List.length_cons] at ih ⊢
    omega

theorem joinWith_dot (x : Nat) (xs : List Nat) :
    joinWith ['.'] ((x :: xs).map natDigits) = natDigits x ++ relTail xs := by
  induction xs generalizing x with
  | nil => simp [joinWith, relTail]
  | cons y ys ih =>
    simp only [List.map_cons] at ih ⊢
    simp only [joinWith, ih y]
    simp [relTail, List.flatMap_cons]

/-! ### the printed pieces -/

def preStr (label : List Char) (n : Nat) : List Char := if label ≠ [] then label ++ natDigits n else []
def postStr (p : Nat) : List Char := if p ≠ 0 then '.' :: 'p' :: 'o' :: 's' :: 't' :: natDigits p else []
def devStr (d : Nat) : List Char := if d ≠ 0 then '.' :: 'd' :: 'e' :: 'v' :: natDigits d else []

def ValidLabel (l : List Char) : Prop := l = [] ∨ l = ['a'] ∨ l = ['b'] ∨ l = ['r', 'c']

/-- What the labelled groups return on `label digits rest`. -/
theorem labelled_hit (alts : List (List Char)) (l : List Char) (n : Nat) (rest : List Char)
    (hl : ∀ c cs, l = c :: cs → isSep c = false)
    (hfirst : firstAlt alts (l ++ (natDigits n ++ rest)) = some (l, natDigits n ++ rest))
    (hne : l ≠ []) (hrest : NoDigitHead rest) :
    labelled alts (l ++ (natDigits n ++ rest)) = some (l, natDigits n, rest) := by
  have hopt : optSep (l ++ (natDigits n ++ rest)) = l ++ (natDigits n ++ rest) := by
    cases l with
    | nil => exact absurd rfl hne
    | cons c cs => simp [optSep, hl c cs rfl]
  obtain ⟨d, ds, hd, hds⟩ := isDig_cons (natDigits_isDig n)
  have hsep : optSep (natDigits n ++ rest) = natDigits n ++ rest := by
    rw [hds]; simp [optSep, (digChar_facts2 d hd).1]
  have hsp := spanDigits_append (natDigits_isDig n).2 hrest
  have hne' : (natDigits n).isEmpty = false := by rw [hds]; rfl
  unfold labelled
  rw [hopt, hfirst]
  simp only [hsep, hsp, hne']
  simp

/-- The text after the release segment. -/
def sufStr (label : List Char) (n p d : Nat) : List Char := preStr label n ++ (postStr p ++ devStr d)

theorem natDigits_cons (n : Nat) : ∃ d cs, d < 10 ∧ natDigits n = digitChar d :: cs :=
  isDig_cons (natDigits_isDig n)

theorem pd_noDigitHead (p d : Nat) : NoDigitHead (postStr p ++ devStr d) := by
  unfold postStr devStr
  by_cases hp : p = 0 <;> by_cases hd : d = 0 <;> simp [hp, hd, noDigitHead_nil] <;>
    exact noDigitHead_cons _ (by decide)

theorem dev_noDigitHead (d : Nat) : NoDigitHead (devStr d) := by
  unfold devStr
  by_cases hd : d = 0 <;> simp [hd, noDigitHead_nil]
  exact noDigitHead_cons _ (by decide)

theorem suf_noDigitHead {label : List Char} (hl : ValidLabel label) (n p d : Nat) :
    NoDigitHead (sufStr label n p d) := by
  unfold sufStr preStr
  rcases hl with rfl | rfl | rfl | rfl
  · simpa using pd_noDigitHead p d
  all_goals exact noDigitHead_cons _ (by decide)

theorem pd_stops (p d : Nat) : StopsRelease (postStr p ++ devStr d) := by
  unfold postStr devStr
  by_cases hp : p = 0 <;> by_cases hd : d = 0 <;> simp [hp, hd, stopsRelease_nil] <;>
    exact stopsRelease_dot_letter _ (by decide)

theorem suf_stops {label : List Char} (hl : ValidLabel label) (n p d : Nat) :
    StopsRelease (sufStr label n p d) := by
  unfold sufStr preStr
  rcases hl with rfl | rfl | rfl | rfl
  · simpa using pd_stops p d
  all_goals exact stopsRelease_letter _ (by decide)

/-- The text from the release tail on never starts with `!`. -/
theorem tail_no_bang {label : List Char} (hl : ValidLabel label) (rs : List Nat) (n p d : Nat) :
    ∀ r, relTail rs ++ sufStr label n p d ≠ '!' :: r := by
  intro r
  cases rs with
  | cons x xs => simp [relTail, List.flatMap_cons]
  | nil =>
    simp only [relTail, List.flatMap_nil, List.nil_append]
    unfold sufStr preStr postStr devStr
    rcases hl with rfl | rfl | rfl | rfl <;> by_cases hp : p = 0 <;> by_cases hd : d = 0 <;> simp [hp, hd]

/-! ### the groups of the printed text -/

theorem pre_none (p d : Nat) : labelled preAlts (postStr p ++ devStr d) = none := by
  unfold postStr devStr
  by_cases hp : p = 0 <;> by_cases hd : d = 0 <;>
    simp [hp, hd, labelled, optSep, isSep, firstAlt, stripPrefix, preAlts]

theorem pre_hit {label : List Char} (hl : ValidLabel label) (hne : label ≠ []) (n : Nat) (rest : List Char)
    (hrest : NoDigitHead rest) :
    labelled preAlts (label ++ (natDigits n ++ rest)) = some (label, natDigits n, rest) := by
  obtain ⟨d, ds, hd, hds⟩ := natDigits_cons n
  obtain ⟨_, f₁, f₂, f₃, _⟩ := digChar_facts2 d hd
  apply labelled_hit preAlts label n rest _ _ hne hrest
  · rcases hl with rfl | rfl | rfl | rfl <;> intro c cs h <;> simp at h <;> (try (obtain ⟨rfl, _⟩ := h; decide))
  · rcases hl with rfl | rfl | rfl | rfl
    · exact absurd rfl hne
    all_goals (rw [hds]; simp [firstAlt, stripPrefix, preAlts, f₁.symm, f₂.symm, f₃.symm])

theorem post_hit (p : Nat) (hp : p ≠ 0) (rest : List Char) (hrest : NoDigitHead rest) :
    postGroup (postStr p ++ rest) = some ([], natDigits p, rest) := by
  obtain ⟨d, ds, hd, hds⟩ := natDigits_cons p
  have h := labelled_hit postAlts ['p', 'o', 's', 't'] p rest
    (by intro c cs h; simp at h; obtain ⟨rfl, _⟩ := h; decide)
    (by simp [firstAlt, stripPrefix, postAlts]) (by simp) hrest
  have hopt : ∀ t, labelled postAlts ('.' :: t) = labelled postAlts t ∨ True := fun _ => Or.inr trivial
  unfold postGroup postStr
  simp only [hp, ne_eq, not_false_eq_true, if_true, List.cons_append]
  -- the leading '.' is the optional separator of the labelled form
  have : labelled postAlts ('.' :: 'p' :: 'o' :: 's' :: 't' :: (natDigits p ++ rest))
      = labelled postAlts ('p' :: 'o' :: 's' :: 't' :: (natDigits p ++ rest)) := by
    simp [labelled, optSep, isSep]
  simp only [this]
  simp only [List.cons_append, List.nil_append] at h
  simp [h, postDash]

theorem post_none (d : Nat) : postGroup (devStr d) = none := by
  unfold devStr
  by_cases hd : d = 0 <;> simp [hd, postGroup, postDash, labelled, optSep, isSep, firstAlt, stripPrefix, postAlts]

theorem dev_hit (d : Nat) (hd : d ≠ 0) :
    labelled devAlts (devStr d) = some (['d', 'e', 'v'], natDigits d, []) := by
  have h := labelled_hit devAlts ['d', 'e', 'v'] d []
    (by intro c cs h; simp at h; obtain ⟨rfl, _⟩ := h; decide)
    (by simp [firstAlt, stripPrefix, devAlts]) (by simp) noDigitHead_nil
  unfold devStr
  simp only [hd, ne_eq, not_false_eq_true, if_true]
  have : labelled devAlts ('.' :: 'd' :: 'e' :: 'v' :: natDigits d)
      = labelled devAlts ('d' :: 'e' :: 'v' :: natDigits d) := by
    simp [labelled, optSep, isSep]
  simp only [List.cons_append, List.nil_append, List.append_nil] at h
  rw [this, h]

theorem dev_none : labelled devAlts [] = none := by
  simp [labelled, optSep, firstAlt, stripPrefix, devAlts]

theorem preGroup_printed {label : List Char} (hl : ValidLabel label) (n p d : Nat) :
    preGroup (sufStr label n p d)
    = (label, (if label ≠ [] then natDigits n else []), postStr p ++ devStr d) := by
  unfold preGroup
  by_cases hne : label = []
  · subst hne
    simp [sufStr, preStr, pre_none]
  · have := pre_hit hl hne n (postStr p ++ devStr d) (pd_noDigitHead p d)
    simp [sufStr, preStr, hne, this]

theorem postGroupOpt_printed (p d : Nat) :
    postGroupOpt (postStr p ++ devStr d) = ([], (if p ≠ 0 then natDigits p else []), devStr d) := by
  unfold postGroupOpt
  by_cases hp : p = 0
  · subst hp; simp [postStr, post_none]
  · simp [post_hit p hp (devStr d) (dev_noDigitHead d), hp]

theorem devGroup_printed (d : Nat) : devGroup (devStr d) = (if d ≠ 0 then natDigits d else []) := by
  unfold devGroup
  by_cases hd : d = 0
  · subst hd; simp [devStr, dev_none]
  · simp [dev_hit d hd, hd]

/-- The recogniser on the printed text, started at the release segment. -/
theorem matchRest_printed (epochGroup : List Char) (r1 : Nat) (rs : List Nat)
    {label : List Char} (hl : ValidLabel label) (n p d : Nat) :
    matchRest epochGroup (natDigits r1 ++ (relTail rs ++ sufStr label n p d))
    = { epoch := epochGroup, release := natDigits r1 ++ relTail rs, preL := label,
        preN := if label ≠ [] then natDigits n else [], postN1 := [],
        postN2 := if p ≠ 0 then natDigits p else [], devN := if d ≠ 0 then natDigits d else [] } := by
  have hT : NoDigitHead (relTail rs ++ sufStr label n p d) :=
    noDigitHead_relTail_append rs (suf_noDigitHead hl n p d)
  have h₁ := spanDigits_append (natDigits_isDig r1).2 hT
  have h₂ := releaseTail_append (sufStr label n p d) (suf_stops hl n p d) (suf_noDigitHead hl n p d) rs
    (relTail rs ++ sufStr label n p d).length (by
      have := relTail_length rs; simp only [List.length_append]; omega)
  unfold matchRest
  simp only [h₁, h₂, preGroup_printed hl n p d, postGroupOpt_printed p d, devGroup_printed d]

/-- The printed text: optional `epoch!`, then the release segment and the rest. -/
def printed (e r1 : Nat) (rs : List Nat) (label : List Char) (n p d : Nat) : List Char :=
  (if e ≠ 0 then natDigits e ++ ['!'] else []) ++ (natDigits r1 ++ (relTail rs ++ sufStr label n p d))

def printedGroups (e r1 : Nat) (rs : List Nat) (label : List Char) (n p d : Nat) : Groups :=
  { epoch := if e ≠ 0 then natDigits e else [], release := natDigits r1 ++ relTail rs, preL := label,
    preN := if label ≠ [] then natDigits n else [], postN1 := [],
    postN2 := if p ≠ 0 then natDigits p else [], devN := if d ≠ 0 then natDigits d else [] }

theorem epochSplit_no_bang (s d0 r0 : List Char) (h : ∀ r, r0 ≠ '!' :: r) : epochSplit s d0 r0 = ([], s) := by
  unfold epochSplit
  split
  · rename_i r1 ; exact absurd rfl (h r1)
  · rfl

theorem epochSplit_bang (s d0 : List Char) (c : Char) (cs : List Char) (hc : isDigit c = true) :
    epochSplit s d0 ('!' :: c :: cs) = (d0, c :: cs) := by
  simp [epochSplit, hc]

theorem matchHere_printed (e r1 : Nat) (rs : List Nat) {label : List Char} (hl : ValidLabel label)
    (n p d : Nat) : matchHere (printed e r1 rs label n p d) = some (printedGroups e r1 rs label n p d) := by
  have hT : NoDigitHead (relTail rs ++ sufStr label n p d) :=
    noDigitHead_relTail_append rs (suf_noDigitHead hl n p d)
  obtain ⟨dr, csr, hdr, hr1⟩ := natDigits_cons r1
  unfold printed printedGroups
  by_cases he : e = 0
  · subst he
    simp only [ne_eq, not_true_eq_false, if_false, List.nil_append]
    have h₀ := spanDigits_append (natDigits_isDig r1).2 hT
    have hne : (natDigits r1).isEmpty = false := by rw [hr1]; rfl
    unfold matchHere
    simp only [h₀, hne, Bool.false_eq_true, if_false]
    rw [epochSplit_no_bang _ _ _ (tail_no_bang hl rs n p d)]
    simp only [matchRest_printed [] r1 rs hl n p d]
  · simp only [ne_eq, he, not_false_eq_true, if_true, List.append_assoc, List.singleton_append]
    have hbangND : NoDigitHead ('!' :: (natDigits r1 ++ (relTail rs ++ sufStr label n p d))) :=
      noDigitHead_cons _ (by decide)
    have h₀ := spanDigits_append (natDigits_isDig e).2 hbangND
    obtain ⟨de, cse, hde, he1⟩ := natDigits_cons e
    have hne : (natDigits e).isEmpty = false := by rw [he1]; rfl
    unfold matchHere
    simp only [h₀, hne, Bool.false_eq_true, if_false]
    have hsplit : epochSplit (natDigits e ++ '!' :: (natDigits r1 ++ (relTail rs ++ sufStr label n p d)))
        (natDigits e) ('!' :: (natDigits r1 ++ (relTail rs ++ sufStr label n p d)))
        = (natDigits e, natDigits r1 ++ (relTail rs ++ sufStr label n p d)) := by
      rw [hr1]
      exact epochSplit_bang _ _ _ _ (digitChar_isDigit dr hdr)
    rw [hsplit]
    simp only [matchRest_printed (natDigits e) r1 rs hl n p d]

/-! ### from the groups back to the version -/

theorem splitOn_ne_nil (sep : Char) (l : List Char) : splitOn sep l ≠ [] := by
  induction l with
  | nil => simp [splitOn]
  | cons c cs ih =>
    unfold splitOn
    split
    · simp
    · split <;> simp

theorem splitOn_nosep (sep : Char) (l : List Char) (h : ∀ c ∈ l, c ≠ sep) : splitOn sep l = [l] := by
  induction l with
  | nil => rfl
  | cons c cs ih =>
    have := ih (fun x hx => h x (List.mem_cons_of_mem _ hx))
    have hc : c ≠ sep := h c List.mem_cons_self
    simp [splitOn, this, hc]

theorem splitOn_append_sep (sep : Char) (l r : List Char) (h : ∀ c ∈ l, c ≠ sep) :
    splitOn sep (l ++ sep :: r) = l :: splitOn sep r := by
  induction l with
  | nil =>
    simp only [List.nil_append, splitOn]
    cases hs : splitOn sep r with
    | nil => exact absurd hs (splitOn_ne_nil sep r)
    | cons p ps => simp
  | cons c cs ih =>
    have := ih (fun x hx => h x (List.mem_cons_of_mem _ hx))
    have hc : c ≠ sep := h c List.mem_cons_self
    simp [splitOn, this, hc]

theorem natDigits_no_dot (n : Nat) : ∀ c ∈ natDigits n, c ≠ '.' := by
  intro c hc
  obtain ⟨d, hd, rfl⟩ := (natDigits_isDig n).2 c hc
  exact (digChar_facts d hd).2.2.1

theorem splitOn_release (r1 : Nat) (rs : List Nat) :
    splitOn '.' (natDigits r1 ++ relTail rs) = (r1 :: rs).map natDigits := by
  induction rs generalizing r1 with
  | nil => simp [relTail, splitOn_nosep '.' _ (natDigits_no_dot r1)]
  | cons x xs ih =>
    have : natDigits r1 ++ relTail (x :: xs) = natDigits r1 ++ '.' :: (natDigits x ++ relTail xs) := by
      simp [relTail, List.flatMap_cons]
    rw [this, splitOn_append_sep '.' _ _ (natDigits_no_dot r1), ih x]
    simp

theorem atoiAll_natDigits (ns : List Nat) (h : ∀ x ∈ ns, x < 9223372036854775808) :
    atoiAll (ns.map natDigits) = some (ns.map Int.ofNat) := by
  induction ns with
  | nil => rfl
  | cons x xs ih =>
    have hx := atoi_natDigits x (h x List.mem_cons_self)
    have := ih (fun y hy => h y (List.mem_cons_of_mem _ hy))
    simp [atoiAll, hx, this]

theorem natDigits_isEmpty (n : Nat) : (natDigits n).isEmpty = false := by
  obtain ⟨d, cs, _, h⟩ := natDigits_cons n; rw [h]; rfl

theorem atoiOpt_printed (n : Nat) (hn : n < 9223372036854775808) (c : Prop) [Decidable c] (h0 : ¬ c → n = 0) :
    atoiOpt (if c then natDigits n else []) = some (n : Int) := by
  by_cases hc : c
  · simp [hc, atoiOpt, natDigits_isEmpty, atoi_natDigits n hn]
  · simp [hc, atoiOpt, h0 hc]

theorem normLabel_valid {l : List Char} (h : ValidLabel l) : labelOf l = some l := by
  rcases h with rfl | rfl | rfl | rfl <;> simp [labelOf, normLabel]

theorem findMatch_printed (e r1 : Nat) (rs : List Nat) (label : List Char) (n p d : Nat) :
    findMatch (printed e r1 rs label n p d) = matchHere (printed e r1 rs label n p d) := by
  have key : ∀ (m : Nat) (rest : List Char), findMatch (natDigits m ++ rest) = matchHere (natDigits m ++ rest) := by
    intro m rest
    obtain ⟨dd, cs, hd, h⟩ := natDigits_cons m
    rw [h]
    simp [findMatch, digitChar_isDigit dd hd]
  unfold printed
  by_cases he : e = 0
  · simp only [he, ne_eq, not_true_eq_false, if_false, List.nil_append]; exact key r1 _
  · simp only [ne_eq, he, not_false_eq_true, if_true, List.append_assoc]; exact key e _

/-- Parsing the printed text of well-formed data gives the data back. -/
theorem parse_printed (e r1 : Nat) (rs : List Nat) {label : List Char} (hl : ValidLabel label) (n p d : Nat)
    (he : e < 9223372036854775808) (hr : ∀ x ∈ r1 :: rs, x < 9223372036854775808)
    (hn : n < 9223372036854775808) (hp : p < 9223372036854775808) (hd : d < 9223372036854775808)
    (hn0 : label = [] → n = 0) :
    parse (printed e r1 rs label n p d)
    = some { epoch := (e : Int), release := (r1 :: rs).map Int.ofNat, label := label,
             preN := (n : Int), post := (p : Int), dev := (d : Int) } := by
  unfold parse
  rw [findMatch_printed, matchHere_printed e r1 rs hl n p d]
  simp only [printedGroups, Option.bind_eq_bind, Option.bind_some, Option.pure_def]
  rw [atoiOpt_printed e he (e ≠ 0) (by intro h; simpa using h), splitOn_release, atoiAll_natDigits _ hr,
    normLabel_valid hl, atoiOpt_printed n hn (label ≠ []) (by intro h; exact hn0 (by simpa using h)),
    atoiOpt_printed p hp (p ≠ 0) (by intro h; simpa using h),
    atoiOpt_printed d hd (d ≠ 0) (by intro h; simpa using h)]
  simp only [Option.bind_some, atoiOpt, List.isEmpty_nil, if_true]
  by_cases hp0 : p = 0
  · simp [hp0]
  · simp [hp0, natDigits_isEmpty]

/-! ### well-formed versions -/

/-- What every value returned by `Parse` satisfies: non-negative int64 fields,
    at least one release number, a canonical pre-release label, and no
    pre-release number without a label. -/
structure WF (v : Ver) : Prop where
  epoch : 0 ≤ v.epoch ∧ v.epoch < 9223372036854775808
  rel_ne : v.release ≠ []
  rel : ∀ x ∈ v.release, 0 ≤ x ∧ x < 9223372036854775808
  label : ValidLabel v.label
  preN : 0 ≤ v.preN ∧ v.preN < 9223372036854775808
  preN0 : v.label = [] → v.preN = 0
  post : 0 ≤ v.post ∧ v.post < 9223372036854775808
  dev : 0 ≤ v.dev ∧ v.dev < 9223372036854775808

theorem map_toNat_ofNat (l : List Int) (h : ∀ x ∈ l, 0 ≤ x) : (l.map Int.toNat).map Int.ofNat = l := by
  induction l with
  | nil => rfl
  | cons x xs ih =>
    have hx := h x List.mem_cons_self
    have := ih (fun y hy => h y (List.mem_cons_of_mem _ hy))
    simp only [List.map_cons, this]
    congr 1
    exact Int.toNat_of_nonneg hx

theorem map_intStr (l : List Int) (h : ∀ x ∈ l, 0 ≤ x) : l.map intStr = (l.map Int.toNat).map natDigits := by
  induction l with
  | nil => rfl
  | cons x xs ih =>
    have hx := h x List.mem_cons_self
    have := ih (fun y hy => h y (List.mem_cons_of_mem _ hy))
    simp only [List.map_cons, this, intStr_nonneg hx]

theorem toStr_eq_printed (v : Ver) (h : WF v) (x : Int) (xs : List Int) (hr : v.release = x :: xs) :
    toStr v = printed v.epoch.toNat x.toNat (xs.map Int.toNat) v.label v.preN.toNat v.post.toNat v.dev.toNat := by
  have hrel : ∀ y ∈ x :: xs, 0 ≤ y := fun y hy => (h.rel y (hr ▸ hy)).1
  have e0 : (v.epoch ≠ 0) ↔ (v.epoch.toNat ≠ 0) := by have := h.epoch; omega
  have p0 : (v.post ≠ 0) ↔ (v.post.toNat ≠ 0) := by have := h.post; omega
  have d0 : (v.dev ≠ 0) ↔ (v.dev.toNat ≠ 0) := by have := h.dev; omega
  unfold toStr printed sufStr preStr postStr devStr
  rw [hr, map_intStr _ hrel]
  simp only [List.map_cons, intStr_nonneg h.epoch.1, intStr_nonneg h.preN.1,
    intStr_nonneg h.post.1, intStr_nonneg h.dev.1]
  simp only [e0, p0, d0, List.append_assoc]
  have hj := joinWith_dot x.toNat (xs.map Int.toNat)
  simp only [List.map_cons] at hj
  rw [hj]
  simp [List.append_assoc]

/-- Printing a well-formed version and parsing the text gives the version back. -/
theorem print_parse (v : Ver) (h : WF v) : parse (toStr v) = some v := by
  cases hr : v.release with
  | nil => exact absurd hr h.rel_ne
  | cons x xs =>
    have hrel : ∀ y ∈ x :: xs, 0 ≤ y ∧ y < 9223372036854775808 := fun y hy => h.rel y (hr ▸ hy)
    rw [toStr_eq_printed v h x xs hr]
    rw [parse_printed v.epoch.toNat x.toNat (xs.map Int.toNat) h.label v.preN.toNat v.post.toNat v.dev.toNat
      (by have := h.epoch; omega)
      (by
        intro y hy
        rcases List.mem_cons.1 hy with rfl | hy
        · have := hrel x List.mem_cons_self; omega
        · obtain ⟨z, hz, rfl⟩ := List.mem_map.1 hy
          have := hrel z (List.mem_cons_of_mem _ hz); omega)
      (by have := h.preN; omega) (by have := h.post; omega) (by have := h.dev; omega)
      (by intro hl; have := h.preN0 hl; omega)]
    have hm := map_toNat_ofNat (x :: xs) (fun y hy => (hrel y hy).1)
    simp only [List.map_cons] at hm
    cases v
    simp only at hr
    subst hr
    simp only [List.map_cons, hm, Int.toNat_of_nonneg h.epoch.1, Int.toNat_of_nonneg h.preN.1,
      Int.toNat_of_nonneg h.post.1, Int.toNat_of_nonneg h.dev.1]

/-! ### every parsed version is well formed -/

def AllDigits (l : List Char) : Prop := ∀ c ∈ l, isDigit c = true

theorem spanDigits_fst (s : List Char) : AllDigits (spanDigits s).1 := by
  induction s with
  | nil => intro c hc; simp [spanDigits] at hc
  | cons x xs ih =>
    unfold spanDigits
    by_cases hx : isDigit x = true
    · simp only [hx, if_true]
      intro c hc
      rcases List.mem_cons.1 hc with rfl | hc
      · exact hx
      · exact ih c hc
    · simp only [hx]
      intro c hc; simp at hc

theorem isDigit_not_sign {c : Char} (h : isDigit c = true) : c ≠ '-' ∧ c ≠ '+' ∧ c ≠ '.' := by
  refine ⟨?_, ?_, ?_⟩ <;> (intro e; subst e; revert h; decide)

/-- `Atoi` of a digit string is a non-negative int64. -/
theorem atoi_digits {l : List Char} (hl : AllDigits l) {x : Int} (h : atoi l = some x) :
    0 ≤ x ∧ x < 9223372036854775808 := by
  cases l with
  | nil => simp [atoi, stripSign] at h
  | cons c cs =>
    obtain ⟨h₁, h₂, _⟩ := isDigit_not_sign (hl c List.mem_cons_self)
    rw [atoi_unsigned cs h₁ h₂] at h
    split at h
    · split at h
      · cases h; omega
      · cases h
    · cases h

theorem atoiOpt_digits {l : List Char} (hl : AllDigits l) {x : Int} (h : atoiOpt l = some x) :
    0 ≤ x ∧ x < 9223372036854775808 := by
  unfold atoiOpt at h
  split at h
  · cases h; omega
  · exact atoi_digits hl h

theorem atoiOpt_nil_zero {x : Int} (h : atoiOpt [] = some x) : x = 0 := by
  simp [atoiOpt] at h; omega

/-- The characters of the pieces of `splitOn` are the non-separator characters of the text. -/
theorem splitOn_pieces (sep : Char) (l : List Char) :
    ∀ p ∈ splitOn sep l, ∀ c ∈ p, c ∈ l ∧ c ≠ sep := by
  induction l with
  | nil => intro p hp c hc; simp [splitOn] at hp; subst hp; simp at hc
  | cons x xs ih =>
    intro p hp c hc
    unfold splitOn at hp
    cases hs : splitOn sep xs with
    | nil => exact absurd hs (splitOn_ne_nil sep xs)
    | cons q qs =>
      rw [hs] at hp ih
      simp only at hp
      by_cases hx : x = sep
      · simp only [hx, if_true] at hp
        rcases List.mem_cons.1 hp with rfl | hp
        · simp at hc
        · obtain ⟨h₁, h₂⟩ := ih p hp c hc
          exact ⟨List.mem_cons_of_mem _ h₁, h₂⟩
      · simp only [hx, if_false] at hp
        rcases List.mem_cons.1 hp with rfl | hp
        · rcases List.mem_cons.1 hc with rfl | hc
          · exact ⟨List.mem_cons_self, hx⟩
          · obtain ⟨h₁, h₂⟩ := ih q List.mem_cons_self c hc
            exact ⟨List.mem_cons_of_mem _ h₁, h₂⟩
        · obtain ⟨h₁, h₂⟩ := ih p (List.mem_cons_of_mem _ hp) c hc
          exact ⟨List.mem_cons_of_mem _ h₁, h₂⟩

def DigitsOrDot (l : List Char) : Prop := ∀ c ∈ l, isDigit c = true ∨ c = '.'

theorem releaseTail_chars : ∀ (fuel : Nat) (s : List Char), DigitsOrDot (releaseTail fuel s).1
  | 0, s => by intro c hc; simp [releaseTail] at hc
  | fuel + 1, s => by
    unfold releaseTail
    split
    · rename_i r
      by_cases he : (spanDigits r).1.isEmpty = true
      · simp only [he, if_true]; intro c hc; simp at hc
      · simp only [he]
        intro c hc
        simp only [Bool.false_eq_true, if_false, List.mem_cons, List.mem_append] at hc
        rcases hc with (rfl | hc) | hc
        · exact Or.inr rfl
        · exact Or.inl (spanDigits_fst r c hc)
        · exact releaseTail_chars fuel _ c hc
    · intro c hc; simp at hc

theorem atoiAll_members : ∀ (ps : List (List Char)) (xs : List Int), atoiAll ps = some xs →
    (∀ p ∈ ps, AllDigits p) → xs.length = ps.length ∧ ∀ x ∈ xs, 0 ≤ x ∧ x < 9223372036854775808
  | [], xs, h, _ => by simp [atoiAll] at h; subst h; simp
  | p :: ps, xs, h, hd => by
    unfold atoiAll at h
    cases hp : atoi p with
    | none => simp [hp] at h
    | some n =>
      cases hps : atoiAll ps with
      | none => simp [hp, hps] at h
      | some ns =>
        simp only [hp, hps, Option.some.injEq] at h
        subst h
        obtain ⟨hl, hm⟩ := atoiAll_members ps ns hps (fun q hq => hd q (List.mem_cons_of_mem _ hq))
        refine ⟨by simp [hl], ?_⟩
        intro x hx
        rcases List.mem_cons.1 hx with rfl | hx
        · exact atoi_digits (hd p List.mem_cons_self) hp
        · exact hm x hx

theorem labelOf_valid {l r : List Char} (h : labelOf l = some r) : ValidLabel r ∧ (r = [] → l = []) := by
  unfold labelOf at h
  split at h
  · rename_i he; cases h; exact ⟨Or.inl rfl, fun _ => by simpa using he⟩
  · unfold normLabel at h
    split at h
    · cases h; exact ⟨Or.inr (Or.inl rfl), by simp⟩
    · split at h
      · cases h; exact ⟨Or.inr (Or.inr (Or.inl rfl)), by simp⟩
      · split at h
        · cases h; exact ⟨Or.inr (Or.inr (Or.inr rfl)), by simp⟩
        · cases h

theorem labelled_digits (alts : List (List Char)) (s : List Char) {l n r : List Char}
    (h : labelled alts s = some (l, n, r)) : AllDigits n := by
  unfold labelled at h
  split at h
  · rename_i l' r' _
    simp only [Option.some.injEq, Prod.mk.injEq] at h
    obtain ⟨_, rfl, _⟩ := h
    exact spanDigits_fst _
  · cases h

theorem firstAlt_mem : ∀ (alts : List (List Char)) (s : List Char) {l r : List Char},
    firstAlt alts s = some (l, r) → l ∈ alts
  | [], _, _, _, h => by simp [firstAlt] at h
  | a :: as, s, l, r, h => by
    unfold firstAlt at h
    split at h
    · simp only [Option.some.injEq, Prod.mk.injEq] at h; obtain ⟨rfl, _⟩ := h; exact List.mem_cons_self
    · exact List.mem_cons_of_mem _ (firstAlt_mem as s h)

theorem preGroup_facts (s : List Char) : AllDigits (preGroup s).2.1 ∧ ((preGroup s).1 = [] → (preGroup s).2.1 = []) := by
  unfold preGroup
  cases h : labelled preAlts s with
  | none => simp [AllDigits]
  | some t =>
    obtain ⟨l, n, r⟩ := t
    refine ⟨labelled_digits _ _ h, ?_⟩
    intro hl
    simp only at hl
    subst hl
    unfold labelled at h
    split at h
    · rename_i l' r' hf
      simp only [Option.some.injEq, Prod.mk.injEq] at h
      obtain ⟨rfl, _, _⟩ := h
      have := firstAlt_mem _ _ hf
      simp [preAlts] at this
    · cases h

theorem postDash_digits {s d r : List Char} (h : postDash s = some (d, r)) : AllDigits d := by
  unfold postDash at h
  split at h
  · split at h
    · cases h
    · simp only [Option.some.injEq, Prod.mk.injEq] at h
      obtain ⟨rfl, _⟩ := h
      exact spanDigits_fst _
  · cases h

theorem postGroupOpt_digits (s : List Char) : AllDigits (postGroupOpt s).1 ∧ AllDigits (postGroupOpt s).2.1 := by
  unfold postGroupOpt
  cases h : postGroup s with
  | none => simp [AllDigits]
  | some t =>
    obtain ⟨a, b, r⟩ := t
    simp only
    unfold postGroup at h
    cases hd : postDash s with
    | some dr =>
      obtain ⟨d, r'⟩ := dr
      simp only [hd, Option.some.injEq, Prod.mk.injEq] at h
      obtain ⟨rfl, rfl, _⟩ := h
      exact ⟨postDash_digits hd, by simp [AllDigits]⟩
    | none =>
      simp only [hd] at h
      cases hl : labelled postAlts s with
      | none => simp [hl] at h
      | some t' =>
        obtain ⟨l, d, r'⟩ := t'
        simp only [hl, Option.some.injEq, Prod.mk.injEq] at h
        obtain ⟨rfl, rfl, _⟩ := h
        exact ⟨by simp [AllDigits], labelled_digits _ _ hl⟩

theorem devGroup_digits (s : List Char) : AllDigits (devGroup s) := by
  unfold devGroup
  cases h : labelled devAlts s with
  | none => simp [AllDigits]
  | some t =>
    obtain ⟨l, n, r⟩ := t
    exact labelled_digits _ _ h

theorem epochSplit_fst (s d0 r0 : List Char) (h : AllDigits d0) : AllDigits (epochSplit s d0 r0).1 := by
  unfold epochSplit
  split
  · split
    · split
      · exact h
      · simp [AllDigits]
    · simp [AllDigits]
  · simp [AllDigits]

/-- What the recogniser returns is digits where `Parse` expects numbers. -/
structure GroupsOk (g : Groups) : Prop where
  epoch : AllDigits g.epoch
  release : DigitsOrDot g.release
  preN : AllDigits g.preN
  preL : g.preL = [] → g.preN = []
  postN1 : AllDigits g.postN1
  postN2 : AllDigits g.postN2
  devN : AllDigits g.devN

theorem matchRest_ok (epoch relStart : List Char) (he : AllDigits epoch) : GroupsOk (matchRest epoch relStart) := by
  unfold matchRest
  refine ⟨he, ?_, (preGroup_facts _).1, (preGroup_facts _).2, (postGroupOpt_digits _).1, (postGroupOpt_digits _).2,
    devGroup_digits _⟩
  intro c hc
  simp only [List.mem_append] at hc
  rcases hc with hc | hc
  · exact Or.inl (spanDigits_fst _ c hc)
  · exact releaseTail_chars _ _ c hc

theorem matchHere_ok {s : List Char} {g : Groups} (h : matchHere s = some g) : GroupsOk g := by
  unfold matchHere at h
  by_cases he : (spanDigits s).1.isEmpty = true
  · simp [he] at h
  · simp only [he, Bool.false_eq_true, if_false, Option.some.injEq] at h
    subst h
    exact matchRest_ok _ _ (epochSplit_fst _ _ _ (spanDigits_fst s))

theorem findMatch_ok : ∀ {s : List Char} {g : Groups}, findMatch s = some g → GroupsOk g
  | [], _, h => by simp [findMatch] at h
  | c :: cs, g, h => by
    unfold findMatch at h
    split at h
    · exact matchHere_ok h
    · split at h
      · split at h
        · split at h
          · exact matchHere_ok h
          · exact findMatch_ok h
        · cases h
      · exact findMatch_ok h

/-- Every version `Parse` returns is well formed. -/
theorem parse_wf {s : List Char} {v : Ver} (h : parse s = some v) : WF v := by
  unfold parse at h
  cases hg : findMatch s with
  | none => simp [hg] at h
  | some g =>
    have ok := findMatch_ok hg
    simp only [hg, Option.bind_eq_bind, Option.bind_some, Option.pure_def] at h
    cases h1 : atoiOpt g.epoch with
    | none => simp [h1] at h
    | some e =>
    cases h2 : atoiAll (splitOn '.' g.release) with
    | none => simp [h1, h2] at h
    | some rel =>
    cases h3 : labelOf g.preL with
    | none => simp [h1, h2, h3] at h
    | some lab =>
    cases h4 : atoiOpt g.preN with
    | none => simp [h1, h2, h3, h4] at h
    | some n =>
    cases h5 : atoiOpt g.postN1 with
    | none => simp [h1, h2, h3, h4, h5] at h
    | some p1 =>
    cases h6 : atoiOpt g.postN2 with
    | none => simp [h1, h2, h3, h4, h5, h6] at h
    | some p2 =>
    cases h7 : atoiOpt g.devN with
    | none => simp [h1, h2, h3, h4, h5, h6, h7] at h
    | some dv =>
    simp only [h1, h2, h3, h4, h5, h6, h7, Option.bind_some, Option.some.injEq] at h
    subst h
    have hpieces : ∀ p ∈ splitOn '.' g.release, AllDigits p := by
      intro p hp c hc
      obtain ⟨hm, hne⟩ := splitOn_pieces '.' g.release p hp c hc
      rcases ok.release c hm with hdig | hdot
      · exact hdig
      · exact absurd hdot hne
    obtain ⟨hlen, hmem⟩ := atoiAll_members _ _ h2 hpieces
    obtain ⟨hvalid, hnil⟩ := labelOf_valid h3
    refine ⟨atoiOpt_digits ok.epoch h1, ?_, hmem, hvalid, atoiOpt_digits ok.preN h4, ?_, ?_, atoiOpt_digits ok.devN h7⟩
    · intro hr
      simp only at hr
      have : (splitOn '.' g.release).length = 0 := by rw [← hlen]; simp [hr]
      exact splitOn_ne_nil '.' g.release (List.eq_nil_of_length_eq_zero this)
    · intro hl
      have := ok.preL (hnil hl)
      rw [this] at h4
      exact atoiOpt_nil_zero h4
    · simp only
      split
      · exact atoiOpt_digits ok.postN1 h5
      · exact atoiOpt_digits ok.postN2 h6

end ClairModel.Pep440
