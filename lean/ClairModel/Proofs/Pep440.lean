/-
  Lemmas about the PEP 440 model (Model/Pep440.lean).
-/
import ClairModel.Model.Pep440
import ClairModel.Proofs.Version

namespace ClairModel.Pep440
open ClairModel.Order ClairModel.Version

end ClairModel.Pep440
