/-
  Two more invariants of the update-manager machine (Model/Manager.lean):

    InvS   what RecordUpdaterStatus was told, per worker: nothing before
           driveUpdater ends, then exactly one record (own name, the value of
           newFP, the failure flag of that driveUpdater call)
    InvC   the ReadCloser Fetch returned: closed at most once, never before the
           parser is done with it, never left open once the status is recorded

  The property theorems are in Props/C13.lean.
-/
import ClairModel.Proofs.Manager

namespace ClairModel.Manager
open ClairModel

/-! ### RecordUpdaterStatus -/

/-- The driveUpdater outcome a worker has reported to RecordUpdaterStatus. -/
def Pc.reported : Pc → Option Res
  | .recorded _ res => some res
  | .finished (some res) => some res
  | _ => none

def StatusOk (u : Upd) (r i : Nat) (l : List StatusRec) : Option Res → Prop
  | some res => ∃ fp prev d0 d1 d2 d3, drive u prev d0 d1 d2 d3 = (res, fp) ∧ l = [⟨r, i, u.name, fp, res.failed⟩]
  | none => l = []

structure InvS (env : Env) (s : State) : Prop where
  st : ∀ r i, StatusOk (env.upd i) r i (statusOf s r i) (s.pc r i).reported

theorem invS_init (env : Env) (hist : List Op) : InvS env (init hist) := by
  constructor; intro r i; simp [init, statusOf, Pc.reported, StatusOk]

theorem statusOf_congr {s s' : State} (h : s'.status = s.status) (r i : Nat) : statusOf s' r i = statusOf s r i := by
  simp [statusOf, h]

theorem invS_congr {env : Env} {s s' : State} (h : InvS env s) (hst : s'.status = s.status) (hpc : s'.pc = s.pc) :
    InvS env s' := by
  constructor; intro r i; rw [statusOf_congr hst, hpc]; exact h.st r i

/-- A worker step that records no status and does not change what the worker
    has reported. -/
theorem invS_progress {env : Env} {s s' : State} (h : InvS env s) (r i : Nat) (p : Pc)
    (hst : s'.status = s.status) (hpc : s'.pc = (s.setPc r i p).pc)
    (hrep : p.reported = (s.pc r i).reported) : InvS env s' := by
  constructor
  intro r' i'
  rw [statusOf_congr hst, hpc, setPc_pc]
  split
  · rename_i h'; rw [hrep, h'.1, h'.2]; exact h.st r i
  · exact h.st r' i'

theorem finish_status (s : State) (r i : Nat) (go : Option Nat) (res : Option Res) :
    (finish s r i go res).status = s.status := by cases go <;> rfl

theorem gcFinish_status (env : Env) (s : State) (r : Nat) (go : Option Nat) :
    (gcFinish env s r go).status = s.status := by cases go <;> rfl

theorem invS_step {env : Env} {hist : List Op} {s : State} (hD : InvD env hist s) (h : InvS env s) (ev : Ev) :
    InvS env (step env s ev).1 := by
  cases ev with
  | begin r => simp only [step]; split <;> first | exact h | exact invS_congr h rfl rfl
  | acquire r =>
    simp only [step]; split
    · split <;> first | exact h | exact invS_congr h rfl rfl
    · exact h
  | launch r =>
    simp only [step]; split
    · split <;> first | exact h | exact invS_congr h rfl rfl
    · exact h
  | wait r =>
    simp only [step]; split
    · split <;> first | exact h | exact invS_congr h rfl rfl
    · split <;> first | exact h | exact invS_congr h rfl rfl
    · exact h
  | drained r =>
    simp only [step]; split
    · split <;> first | exact h | exact invS_congr h rfl rfl
    · exact h
  | ret r =>
    simp only [step]; split
    · split <;> first | exact h | exact invS_congr h rfl rfl
    · exact invS_congr h rfl rfl
    · exact h
  | cancel r => simp only [step]; exact invS_congr h rfl rfl
  | tryLock r i =>
    simp only [step]; split
    · exact h
    split
    · rename_i hpc
      split
      · split
        · exact invS_progress h r i _ rfl rfl (by simp [hpc, Pc.reported])
        · split <;> exact invS_progress h r i _ rfl rfl (by simp [hpc, Pc.reported])
      · exact h
    · exact h
  | getOps r i =>
    simp only [step]; split
    · exact h
    split
    · rename_i g hpc
      split <;> exact invS_progress h r i _ rfl rfl (by simp [hpc, Pc.reported])
    · exact h
  | fetch r i =>
    simp only [step]; split
    · exact h
    split
    · rename_i g prev hpc
      split <;> exact invS_progress h r i _ rfl rfl (by simp [hpc, Pc.reported])
    · exact h
  | parse r i =>
    simp only [step]; split
    · exact h
    split
    · rename_i g prev fp hpc
      split <;> exact invS_progress h r i _ rfl rfl (by simp [hpc, Pc.reported])
    · exact h
  | store r i =>
    simp only [step]; split
    · exact h
    split
    · rename_i g prev fp p hpc
      split <;> exact invS_progress h r i _ rfl rfl (by simp [hpc, Pc.reported])
    · exact h
  | close r i =>
    simp only [step]; split
    · exact h
    split
    · split
      · exact invS_congr h rfl rfl
      · exact h
    · exact h
  | status r i =>
    simp only [step]; split
    · exact h
    split
    · rename_i g fp res hpc
      split
      · exact h
      constructor
      intro r' i'
      have hold := h.st r i
      rw [hpc] at hold
      simp only [Pc.reported, StatusOk] at hold
      simp only [setPc_pc, setPc_status, statusOf]
      by_cases hri : r' = r ∧ i' = i
      · rw [if_pos hri, hri.1, hri.2]
        have he := hD.expl r i
        rw [hpc] at he
        obtain ⟨prev, d0, d1, d2, d3, hd⟩ := he
        refine ⟨fp, prev, d0, d1, d2, d3, hd, ?_⟩
        simp only [statusOf] at hold
        simp [hold]
      · rw [if_neg hri]
        have hf : ((r == r') && (i == i')) = false := by
          cases hr : (r == r') <;> cases hi : (i == i') <;> simp_all
        simp only [List.filter_cons, hf]
        exact h.st r' i'
    · exact h
  | done r i =>
    simp only [step]; split
    · exact h
    split
    · rename_i g hpc
      exact invS_progress h r i _ (finish_status ..) (finish_pc ..) (by simp [hpc, Pc.reported])
    · rename_i g hpc
      split
      · exact invS_progress h r i _ (finish_status ..) (finish_pc ..) (by simp [hpc, Pc.reported])
      · exact h
    · rename_i g res hpc
      exact invS_progress h r i _ (finish_status ..) (finish_pc ..) (by simp [hpc, Pc.reported])
    · exact h
  | gcTry r =>
    simp only [step]; split
    · split
      · rename_i hc
        split
        · exact invS_progress h r env.gcInst _ rfl rfl (by simp [hc.2, Pc.reported])
        · split <;> exact invS_progress h r env.gcInst _ rfl rfl (by simp [hc.2, Pc.reported])
      · exact h
    · exact h
  | gc r =>
    simp only [step]; split
    · split
      · rename_i g hpc
        exact invS_progress h r env.gcInst _ rfl rfl (by simp [hpc, Pc.reported])
      · exact h
    · exact h
  | gcDone r =>
    simp only [step]; split
    · split
      · rename_i g hpc
        exact invS_progress h r env.gcInst _ (gcFinish_status ..) (gcFinish_pc ..) (by simp [hpc, Pc.reported])
      · rename_i g hpc
        split
        · exact invS_progress h r env.gcInst _ (gcFinish_status ..) (gcFinish_pc ..) (by simp [hpc, Pc.reported])
        · exact h
      · exact h
    · exact h

/-! ### the ReadCloser returned by Fetch -/

/-- The worker is between Fetch and the end of its deferred calls: a
    ReadCloser may be open. -/
def Pc.canOpen : Pc → Bool
  | .fetched _ _ _ => true
  | .parsed _ _ _ _ => true
  | .finishing _ _ _ => true
  | _ => false

/-- driveUpdater's body is over (its deferred calls run or have run). -/
def Pc.late : Pc → Bool
  | .finishing _ _ _ => true
  | .recorded _ _ => true
  | .finished (some _) => true
  | _ => false

/-- Fetch has not been called yet (or never will be). -/
def Pc.early : Pc → Bool
  | .idle => true
  | .skipped _ => true
  | .locked _ => true
  | .gotOps _ _ => true
  | .finished none => true
  | _ => false

structure InvC (s : State) : Prop where
  opened : ∀ r i, s.body r i = .opened → (s.pc r i).canOpen = true
  closed : ∀ r i, s.body r i = .closed → (s.pc r i).late = true
  early : ∀ r i, (s.pc r i).early = true → s.body r i = .unfetched
  count : ∀ r i, closesOf s r i = if s.body r i = .closed then 1 else 0

theorem invC_init (hist : List Op) : InvC (init hist) := by
  constructor <;> intros <;> simp_all [init, closesOf, Pc.early]

theorem invC_congr {s s' : State} (h : InvC s) (hb : s'.body = s.body) (hc : s'.closes = s.closes)
    (hpc : s'.pc = s.pc) : InvC s' := by
  constructor
  · intro r i; rw [hb, hpc]; exact h.opened r i
  · intro r i; rw [hb, hpc]; exact h.closed r i
  · intro r i; rw [hb, hpc]; exact h.early r i
  · intro r i; simp only [closesOf, hc, hb]; exact h.count r i

/-- A worker step that leaves every ReadCloser alone. -/
theorem invC_progress {s s' : State} (h : InvC s) (r i : Nat) (p : Pc)
    (hb : s'.body = s.body) (hc : s'.closes = s.closes) (hpc : s'.pc = (s.setPc r i p).pc)
    (h1 : s.body r i = .opened → p.canOpen = true)
    (h2 : s.body r i = .closed → p.late = true)
    (h3 : p.early = true → s.body r i = .unfetched) : InvC s' := by
  constructor
  · intro r' i'; rw [hb, hpc, setPc_pc]; split
    · rename_i h'; rw [h'.1, h'.2]; exact h1
    · exact h.opened r' i'
  · intro r' i'; rw [hb, hpc, setPc_pc]; split
    · rename_i h'; rw [h'.1, h'.2]; exact h2
    · exact h.closed r' i'
  · intro r' i'; rw [hb, hpc, setPc_pc]; split
    · rename_i h'; rw [h'.1, h'.2]; exact h3
    · exact h.early r' i'
  · intro r' i'; simp only [closesOf, hc, hb]; exact h.count r' i'

/-- The same, for a step between two program states that agree on what they
    allow. -/
theorem invC_move {s s' : State} (h : InvC s) (r i : Nat) (p : Pc)
    (hb : s'.body = s.body) (hc : s'.closes = s.closes) (hpc : s'.pc = (s.setPc r i p).pc)
    (h1 : (s.pc r i).canOpen = true → p.canOpen = true)
    (h2 : (s.pc r i).late = true → p.late = true)
    (h3 : p.early = true → (s.pc r i).early = true) : InvC s' :=
  invC_progress h r i p hb hc hpc (fun hh => h1 (h.opened r i hh)) (fun hh => h2 (h.closed r i hh))
    (fun hh => h.early r i (h3 hh))

theorem finish_body (s : State) (r i : Nat) (go : Option Nat) (res : Option Res) :
    (finish s r i go res).body = s.body := by cases go <;> rfl

theorem finish_closes (s : State) (r i : Nat) (go : Option Nat) (res : Option Res) :
    (finish s r i go res).closes = s.closes := by cases go <;> rfl

theorem gcFinish_body (env : Env) (s : State) (r : Nat) (go : Option Nat) :
    (gcFinish env s r go).body = s.body := by cases go <;> rfl

theorem gcFinish_closes (env : Env) (s : State) (r : Nat) (go : Option Nat) :
    (gcFinish env s r go).closes = s.closes := by cases go <;> rfl

/-- Fetch returns: the worker's ReadCloser slot is written for the first time. -/
theorem invC_fetch {s : State} (h : InvC s) (r i g : Nat) (prev : Fp) (hpc : s.pc r i = .gotOps g prev)
    (b : Body) (hb : b = .opened ∨ b = .absent) (p : Pc) (hp : p.canOpen = true) :
    InvC ((s.setBody r i b).setPc r i p) := by
  have hnc : s.body r i ≠ .closed := by
    intro hc; have := h.closed r i hc; rw [hpc] at this; cases this
  have hpe : p.early = false := by cases p <;> simp_all [Pc.canOpen, Pc.early]
  constructor
  · intro r' i'
    simp only [setPc_body, setBody_body, setPc_pc]
    split
    · intro _; exact hp
    · exact h.opened r' i'
  · intro r' i'
    simp only [setPc_body, setBody_body, setPc_pc]
    split
    · intro hc; rcases hb with hb | hb <;> rw [hb] at hc <;> cases hc
    · exact h.closed r' i'
  · intro r' i'
    simp only [setPc_body, setBody_body, setPc_pc]
    split
    · intro hh; rw [hpe] at hh; cases hh
    · exact h.early r' i'
  · intro r' i'
    simp only [closesOf, setPc_closes, setBody_closes, setPc_body, setBody_body]
    split
    · rename_i h'
      have := h.count r i
      simp only [closesOf, hnc, if_false] at this
      rw [h'.1, h'.2, this]
      rcases hb with hb | hb <;> simp [hb]
    · exact h.count r' i'

theorem invC_step {env : Env} {s : State} (h : InvC s) (ev : Ev) : InvC (step env s ev).1 := by
  cases ev with
  | begin r => simp only [step]; split <;> first | exact h | exact invC_congr h rfl rfl rfl
  | acquire r =>
    simp only [step]; split
    · split <;> first | exact h | exact invC_congr h rfl rfl rfl
    · exact h
  | launch r =>
    simp only [step]; split
    · split <;> first | exact h | exact invC_congr h rfl rfl rfl
    · exact h
  | wait r =>
    simp only [step]; split
    · split <;> first | exact h | exact invC_congr h rfl rfl rfl
    · split <;> first | exact h | exact invC_congr h rfl rfl rfl
    · exact h
  | drained r =>
    simp only [step]; split
    · split <;> first | exact h | exact invC_congr h rfl rfl rfl
    · exact h
  | ret r =>
    simp only [step]; split
    · split <;> first | exact h | exact invC_congr h rfl rfl rfl
    · exact invC_congr h rfl rfl rfl
    · exact h
  | cancel r => simp only [step]; exact invC_congr h rfl rfl rfl
  | tryLock r i =>
    simp only [step]; split
    · exact h
    split
    · rename_i hpc
      split
      · split
        · exact invC_move h r i _ rfl rfl rfl (by simp [hpc, Pc.canOpen]) (by simp [hpc, Pc.late])
            (by simp [hpc, Pc.early])
        · split <;> exact invC_move h r i _ rfl rfl rfl (by simp [hpc, Pc.canOpen]) (by simp [hpc, Pc.late])
            (by simp [hpc, Pc.early])
      · exact h
    · exact h
  | getOps r i =>
    simp only [step]; split
    · exact h
    split
    · rename_i g hpc
      split
      · exact invC_move h r i _ rfl rfl rfl (by simp [hpc, Pc.canOpen]) (by simp [hpc, Pc.late])
          (by simp [hpc, Pc.early])
      · exact invC_move h r i _ rfl rfl rfl (by simp [hpc, Pc.canOpen]) (by simp [hpc, Pc.late])
          (by simp [Pc.early])
    · exact h
  | fetch r i =>
    simp only [step]; split
    · exact h
    split
    · rename_i g prev hpc
      have hb : ∀ c : Bool, (if c = true then Body.opened else Body.absent) = .opened ∨
          (if c = true then Body.opened else Body.absent) = .absent := by
        intro c; cases c <;> simp
      split <;> exact invC_fetch h r i g prev hpc _ (hb _) _ rfl
    · exact h
  | parse r i =>
    simp only [step]; split
    · exact h
    split
    · rename_i g prev fp hpc
      split <;> exact invC_move h r i _ rfl rfl rfl (by simp [Pc.canOpen]) (by simp [hpc, Pc.late])
        (by simp [Pc.early])
    · exact h
  | store r i =>
    simp only [step]; split
    · exact h
    split
    · rename_i g prev fp p hpc
      split <;> exact invC_move h r i _ rfl rfl rfl (by simp [Pc.canOpen]) (by simp [hpc, Pc.late])
        (by simp [Pc.early])
    · exact h
  | close r i =>
    simp only [step]; split
    · exact h
    split
    · rename_i g fp res hpc
      split
      · rename_i hop
        constructor
        · intro r' i'
          simp only [setBody_body, setBody_pc]
          split
          · intro hc; cases hc
          · exact h.opened r' i'
        · intro r' i'
          simp only [setBody_body, setBody_pc]
          split
          · rename_i h'; intro _; rw [h'.1, h'.2, hpc]; rfl
          · exact h.closed r' i'
        · intro r' i'
          simp only [setBody_body, setBody_pc]
          split
          · rename_i h'; intro hh; rw [h'.1, h'.2, hpc] at hh; cases hh
          · exact h.early r' i'
        · intro r' i'
          simp only [closesOf, setBody_closes, setBody_body, List.countP_cons]
          by_cases hri : r' = r ∧ i' = i
          · rw [if_pos hri, hri.1, hri.2]
            have := h.count r i
            simp only [closesOf, hop] at this
            simp [this]
          · rw [if_neg hri]
            have hf : ((r == r') && (i == i')) = false := by
              cases hr : (r == r') <;> cases hi : (i == i') <;> simp_all
            simp only [hf]
            exact h.count r' i'
      · exact h
    · exact h
  | status r i =>
    simp only [step]; split
    · exact h
    split
    · rename_i g fp res hpc
      split
      · exact h
      · rename_i hno
        exact invC_progress h r i _ rfl rfl rfl (fun hh => absurd hh hno) (fun _ => rfl)
          (by simp [Pc.early])
    · exact h
  | done r i =>
    simp only [step]; split
    · exact h
    split
    · rename_i g hpc
      exact invC_move h r i _ (finish_body ..) (finish_closes ..) (finish_pc ..) (by simp [hpc, Pc.canOpen])
        (by simp [hpc, Pc.late]) (by simp [hpc, Pc.early])
    · rename_i g hpc
      split
      · exact invC_move h r i _ (finish_body ..) (finish_closes ..) (finish_pc ..) (by simp [hpc, Pc.canOpen])
          (by simp [hpc, Pc.late]) (by simp [hpc, Pc.early])
      · exact h
    · rename_i g res hpc
      exact invC_move h r i _ (finish_body ..) (finish_closes ..) (finish_pc ..) (by simp [hpc, Pc.canOpen])
        (by simp [Pc.late]) (by simp [Pc.early])
    · exact h
  | gcTry r =>
    simp only [step]; split
    · split
      · rename_i hc
        split
        · exact invC_move h r env.gcInst _ rfl rfl rfl (by simp [hc.2, Pc.canOpen]) (by simp [hc.2, Pc.late])
            (by simp [hc.2, Pc.early])
        · split <;> exact invC_move h r env.gcInst _ rfl rfl rfl (by simp [hc.2, Pc.canOpen])
            (by simp [hc.2, Pc.late]) (by simp [hc.2, Pc.early])
      · exact h
    · exact h
  | gc r =>
    simp only [step]; split
    · split
      · rename_i g hpc
        exact invC_move h r env.gcInst _ rfl rfl rfl (by simp [hpc, Pc.canOpen]) (by simp [hpc, Pc.late])
          (by simp [hpc, Pc.early])
      · exact h
    · exact h
  | gcDone r =>
    simp only [step]; split
    · split
      · rename_i g hpc
        exact invC_move h r env.gcInst _ (gcFinish_body ..) (gcFinish_closes ..) (gcFinish_pc ..)
          (by simp [hpc, Pc.canOpen]) (by simp [hpc, Pc.late]) (by simp [hpc, Pc.early])
      · rename_i g hpc
        split
        · exact invC_move h r env.gcInst _ (gcFinish_body ..) (gcFinish_closes ..) (gcFinish_pc ..)
            (by simp [hpc, Pc.canOpen]) (by simp [hpc, Pc.late]) (by simp [hpc, Pc.early])
        · exact h
      · exact h
    · exact h

/-! ### all invariants, for every reachable state -/

structure InvO (env : Env) (hist : List Op) (s : State) : Prop where
  base : Inv env hist s
  st : InvS env s
  cl : InvC s

theorem invO_run (env : Env) (hist : List Op) (evs : List Ev) :
    InvO env hist (Sm.run (step env) (init hist) evs) :=
  Sm.invariant_run (Inv := InvO env hist)
    (fun _ ev h => ⟨inv_step h.base ev, invS_step h.base.d h.st ev, invC_step h.cl ev⟩) evs _
    ⟨inv_init env hist, invS_init env hist, invC_init hist⟩

end ClairModel.Manager
