/-
  Helper lemmas for property C11 (Model/TarFS.lean, Model/TarFSPath.lean).
-/
import ClairModel.Model.TarFS

namespace ClairModel.TarFS

theorem again_nonreg (fs : FS) (kind : Kind) (k : Nat) (name : Bytes) (i : Nat)
    (h : fs.get? name = some i) (hk : kind.mtype ≠ .regular) :
    again fs kind k name = .fail .exist := by
  unfold again
  simp [h, hk]

theorem again_over_dir (fs : FS) (kind : Kind) (k : Nat) (name : Bytes) (i : Nat)
    (h : fs.get? name = some i) (hk : kind.mtype = .regular) (hd : (fs.ino i).kind.mtype = .dir) :
    again fs kind k name = .fail .exist := by
  unfold again
  simp [h, hk, hd]

end ClairModel.TarFS
