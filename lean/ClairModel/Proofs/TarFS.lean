/-
  Helper lemmas for property C11 (Model/TarFS.lean, Model/TarFSPath.lean).
-/
import ClairModel.Model.TarFS
import ClairModel.Proofs.TarFSPath

namespace ClairModel.TarFS

theorem again_nonreg (fs : FS) (kind : Kind) (k : Nat) (name : Bytes) (i : Nat)
    (h : fs.get? name = some i) (hk : kind.mtype ≠ .regular) :
    again fs kind k name = .fail .exist := by
  unfold again
  simp [h, hk]

theorem again_over_dir (fs : FS) (kind : Kind) (k : Nat) (name : Bytes) (i : Nat)
    (h : fs.get? name = some i) (hk : kind.mtype = .regular) (hd : (fs.ino i).kind.mtype = .dir) :
    again fs kind k name = .fail .exist := by
  unfold again
  simp [h, hk, hd]


theorem again_over_file (fs : FS) (kind : Kind) (k : Nat) (name : Bytes) (i : Nat)
    (h : fs.get? name = some i) (hk : kind.mtype = .regular) (he : (fs.ino i).kind.mtype = .regular) :
    again fs kind k name = .replace i name := by
  unfold again
  simp [h, hk, he]

/-- One hop of `Open` along a symbolic link: the link target, if `name`
    resolves (by `getInode`) to a symbolic link. -/
def linkStep (fs : FS) (name : Bytes) : Option Bytes :=
  match getInode fs name with
  | .ok i => if (fs.ino i).kind = .sym then some (fs.ino i).link else none
  | .error _ => none

/-- `m` hops along symbolic links starting at `name`. -/
def linkIter (fs : FS) : Nat → Bytes → Option Bytes
  | 0, name => some name
  | m + 1, name =>
    match linkStep fs name with
    | some n' => linkIter fs m n'
    | none => none

theorem openAux_step {fs : FS} {name n' : Bytes} (k : Nat) (h : linkStep fs name = some n') :
    openAux fs (k + 1) name = openAux fs k n' := by
  unfold linkStep at h
  simp only [openAux]
  split at h
  · rename_i i hi
    split at h
    · rename_i hk
      simp at h; subst h
      simp [hi, hk]
    · simp at h
  · simp at h

/-- When `name` is not (resolved to) a symbolic link, the hop budget does not matter. -/
theorem openAux_nolink {fs : FS} {name : Bytes} (h : linkStep fs name = none) (j j' : Nat) :
    openAux fs (j + 1) name = openAux fs (j' + 1) name := by
  unfold linkStep at h
  simp only [openAux]
  split at h
  · rename_i i hi
    split at h
    · simp at h
    · rename_i hk
      simp only [hi]
      cases hkind : (fs.ino i).kind <;> simp_all
  · rename_i e he
    simp [he]

theorem openAux_chain {fs : FS} : ∀ (m : Nat) (name t : Bytes) (k : Nat),
    linkIter fs m name = some t → openAux fs (k + m) name = openAux fs k t := by
  intro m
  induction m with
  | zero => intro name t k h; simp [linkIter] at h; subst h; rfl
  | succ m ih =>
    intro name t k h
    simp only [linkIter] at h
    split at h
    · rename_i n' hn'
      rw [show k + (m + 1) = (k + m) + 1 by omega, openAux_step _ hn']
      exact ih n' t k h
    · simp at h

/-- Link resolution: if `m` hops along symbolic links lead from `name` to `t`,
    `t` is not a symbolic link and `m` is at most the number of inodes, then
    `Open(name)` is `Open(t)`. -/
theorem open_follows_chain (fs : FS) (m : Nat) (name t : Bytes)
    (hchain : linkIter fs m name = some t) (hend : linkStep fs t = none)
    (hm : m ≤ fs.inodes.length) : openFS fs name = openFS fs t := by
  unfold openFS
  obtain ⟨d, hd⟩ : ∃ d, fs.inodes.length + 1 = (d + 1) + m := ⟨fs.inodes.length - m, by omega⟩
  rw [hd, openAux_chain m name t (d + 1) hchain, show d + 1 + m = (d + m) + 1 by omega]
  exact openAux_nolink hend _ _

/-- A chain of symbolic links that never ends is reported as an error
    (fs.ErrInvalid); `Open` does not diverge. -/
theorem openAux_endless {fs : FS} : ∀ (k : Nat) (name : Bytes),
    (∀ m, ∃ t, linkIter fs m name = some t) → openAux fs k name = .err .invalid := by
  intro k
  induction k with
  | zero => intro name _; simp [openAux]
  | succ k ih =>
    intro name h
    obtain ⟨t1, h1⟩ := h 1
    simp only [linkIter] at h1
    split at h1
    · rename_i n' hn'
      rw [openAux_step k hn']
      apply ih
      intro m
      obtain ⟨t, ht⟩ := h (m + 1)
      simp only [linkIter, hn'] at ht
      exact ⟨t, ht⟩
    · simp at h1



/-- Pigeonhole: a duplicate-free list of numbers below `n` has at most `n` elements. -/
theorem nodup_length_le : ∀ (n : Nat) (l : List Nat), l.Nodup → (∀ x ∈ l, x < n) → l.length ≤ n := by
  intro n
  induction n with
  | zero =>
    intro l _ h
    cases l with
    | nil => simp
    | cons a t => exact absurd (h a (by simp)) (by omega)
  | succ n ih =>
    intro l hnd h
    have h1 : (l.erase n).Nodup := hnd.erase n
    have h2 : ∀ x ∈ l.erase n, x < n := by
      intro x hx
      have := (hnd.mem_erase_iff).1 hx
      have := h x this.2
      omega
    have := ih _ h1 h2
    rw [List.length_erase] at this
    split at this <;> omega

theorem sym_index_lt (fs : FS) (i : Nat) (h : (fs.ino i).kind = .sym) : i < fs.inodes.length := by
  apply Decidable.byContradiction
  intro hge
  have : fs.ino i = emptyInode := by
    unfold FS.ino
    simp [List.getD, List.getElem?_eq_none (Nat.le_of_not_lt hge)]
  rw [this] at h
  simp [emptyInode] at h

/-- A chain of symbolic links that visits no inode twice has at most as many
    links as there are inodes: the hop budget of `Open` is reached only on a cycle. -/
theorem acyclic_chain_short (fs : FS) (idxs : List Nat) (hnd : idxs.Nodup)
    (hsym : ∀ i ∈ idxs, (fs.ino i).kind = .sym) : idxs.length ≤ fs.inodes.length :=
  nodup_length_le _ idxs hnd (fun i hi => sym_index_lt fs i (hsym i hi))


end ClairModel.TarFS
