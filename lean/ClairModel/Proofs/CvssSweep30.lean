/-
  C18 — the complete v3.0 base space (2592 vectors), evaluated by the kernel:
  model score = published base score, OSV severity = rating of the score.
-/
import ClairModel.Proofs.Cvss

namespace ClairModel.Cvss

set_option maxRecDepth 100000 in
theorem sweep_v30 : sweep3 (stage1 0) (stage2 0) = true := by decide +kernel

end ClairModel.Cvss
