/-
  python METADATA / PKG-INFO: what `Scan` reads from a written file, and which
  paths are picked.
-/
import ClairModel.Model.PyMeta
import ClairModel.Proofs.Rfc822

namespace ClairModel.PyMeta
open ClairModel.Bytes ClairModel.Rfc822

/-- header fields, an empty line, then any body -/
def metaLines (fs : List Field) (body : List Bytes) : List Bytes := fieldsLines fs ++ [] :: body

theorem firstEvent_metaLines (fs : List Field) (hw : ∀ f ∈ fs, f.WF) (body : List Bytes) :
    ∃ rest, callsFrom .start (metaLines fs body) = ⟨hdrOf fs, .ok⟩ :: rest := by
  have := callsFrom_stanza fs hw 0 body
  simp only [List.replicate_succ, List.replicate_zero, List.nil_append] at this
  refine ⟨callsFrom .start body, ?_⟩
  simpa [metaLines, List.append_assoc] using this

/-! ### paths -/

theorem isPrefix_append (a b : Bytes) : isPrefix a (a ++ b) = true := by
  induction a with
  | nil => rfl
  | cons c cs ih => simp [isPrefix, ih]

theorem isSuffix_append (a suf : Bytes) : isSuffix suf (a ++ suf) = true := by
  simp [isSuffix, isPrefix_append]

theorem isSuffix_last_ne (suf p : Bytes) (x y : Nat) (hxy : x ≠ y) : isSuffix (suf ++ [x]) (p ++ [y]) = false := by
  simp [isSuffix, isPrefix, hxy]

theorem splitOn_append (sep : Nat) (a b : Bytes) :
    splitOn sep (a ++ sep :: b) = (splitOn sep a).dropLast ++ ((splitOn sep a).getLast?.getD []) :: splitOn sep b := by
  induction a with
  | nil => simp [splitOn]
  | cons c cs ih =>
    simp only [List.cons_append, splitOn]
    split
    · rw [ih]
      have := splitOn_ne_nil sep cs
      cases h : splitOn sep cs with
      | nil => exact absurd h this
      | cons p ps => simp
    · rw [ih]
      have := splitOn_ne_nil sep cs
      cases h : splitOn sep cs with
      | nil => exact absurd h this
      | cons p ps =>
        cases ps with
        | nil => simp
        | cons q qs => simp [List.getLast?_cons_cons]

theorem joinWith_splitOn (sep : Nat) (s : Bytes) : joinWith sep (splitOn sep s) = s := by
  induction s with
  | nil => rfl
  | cons c cs ih =>
    simp only [splitOn]
    split
    · rename_i h
      subst h
      cases hs : splitOn c cs with
      | nil => exact absurd hs (splitOn_ne_nil _ _)
      | cons p ps => rw [hs] at ih; simp [joinWith, ih]
    · cases hs : splitOn sep cs with
      | nil => exact absurd hs (splitOn_ne_nil _ _)
      | cons p ps =>
        rw [hs] at ih
        cases ps with
        | nil => simp only [joinWith] at ih ⊢; rw [ih]
        | cons q qs => simp only [joinWith, List.cons_append] at ih ⊢; rw [ih]

theorem splitOn_append' (sep : Nat) (a b : Bytes) :
    splitOn sep (a ++ sep :: b) = splitOn sep a ++ splitOn sep b := by
  rw [splitOn_append]
  have := splitOn_ne_nil sep a
  generalize splitOn sep a = l at this
  induction l with
  | nil => exact absurd rfl this
  | cons p ps ih =>
    cases ps with
    | nil => simp
    | cons q qs =>
      have := ih (by simp)
      simp only [List.dropLast_cons_cons, List.getLast?_cons_cons, List.cons_append] at this ⊢
      rw [this]

/-- the path of a wheel's METADATA file below `dir` -/
def wheelPath (dir stem : Bytes) : Bytes :=
  dir ++ 47 :: ((stem ++ [46, 100, 105, 115, 116, 45, 105, 110, 102, 111]) ++ 47 :: [77, 69, 84, 65, 68, 65, 84, 65])

theorem wheelPath_suffix (dir stem : Bytes) : ∃ a, wheelPath dir stem = a ++ sDistInfoMetadata := by
  refine ⟨dir ++ 47 :: stem, ?_⟩
  simp [wheelPath, sDistInfoMetadata, List.append_assoc]

theorem wheelPath_last (dir stem : Bytes) : ∃ a, wheelPath dir stem = a ++ [65] := by
  refine ⟨dir ++ 47 :: ((stem ++ [46, 100, 105, 115, 116, 45, 105, 110, 102, 111]) ++ 47 :: [77, 69, 84, 65, 68, 65, 84]), ?_⟩
  simp [wheelPath, List.append_assoc]

theorem comps_wheelPath (dir stem : Bytes) (hs : 47 ∉ stem) :
    comps (wheelPath dir stem) =
      comps dir ++ [stem ++ [46, 100, 105, 115, 116, 45, 105, 110, 102, 111], [77, 69, 84, 65, 68, 65, 84, 65]] := by
  unfold comps wheelPath
  rw [splitOn_append', splitOn_append_sep 47 _ _ (by
    simp only [List.mem_append, not_or]; exact ⟨hs, by decide⟩), splitOn_no_sep 47 [77, 69, 84, 65, 68, 65, 84, 65] (by decide)]

/-- A wheel's `METADATA` below any directory is picked, and its package database is
    that directory. -/
theorem classify_wheel (dir stem : Bytes) (hs : 47 ∉ stem) :
    classify (wheelPath dir stem) = some .wheel ∧
    packageDB (wheelPath dir stem) = [112, 121, 116, 104, 111, 110, 58] ++ dir := by
  obtain ⟨a, ha⟩ := wheelPath_suffix dir stem
  obtain ⟨b, hb⟩ := wheelPath_last dir stem
  have hbase : base (wheelPath dir stem) = [77, 69, 84, 65, 68, 65, 84, 65] := by
    simp [base, comps_wheelPath dir stem hs]
  have n1 : isSuffix sEggPkgInfo (wheelPath dir stem) = false := by
    rw [hb]; exact isSuffix_last_ne [46, 101, 103, 103, 47, 69, 71, 71, 45, 73, 78, 70, 79, 47, 80, 75, 71, 45, 73, 78, 70] b 79 65 (by decide)
  have n2 : isSuffix sEggInfo (wheelPath dir stem) = false := by
    rw [hb]; exact isSuffix_last_ne [46, 101, 103, 103, 45, 105, 110, 102] b 111 65 (by decide)
  have n3 : isSuffix sEggInfoPkgInfo (wheelPath dir stem) = false := by
    rw [hb]; exact isSuffix_last_ne [46, 101, 103, 103, 45, 105, 110, 102, 111, 47, 80, 75, 71, 45, 73, 78, 70] b 79 65 (by decide)
  have y : isSuffix sDistInfoMetadata (wheelPath dir stem) = true := by rw [ha]; exact isSuffix_append a _
  constructor
  · unfold classify
    rw [hbase, n1, n2, n3, y]
    decide
  · unfold packageDB
    simp only [n2, Bool.false_eq_true, if_false, comps_wheelPath dir stem hs]
    have hne := splitOn_ne_nil 47 dir
    have hlen : ((comps dir ++ [stem ++ [46, 100, 105, 115, 116, 45, 105, 110, 102, 111], [77, 69, 84, 65, 68, 65, 84, 65]]).length - 2) = (comps dir).length := by
      simp
    rw [hlen, List.take_left']
    · unfold comps
      cases h : splitOn 47 dir with
      | nil => exact absurd h hne
      | cons c cs =>
        have := joinWith_splitOn 47 dir
        rw [h] at this
        simp [joinComps, this]
    · rfl

end ClairModel.PyMeta
