/-
  C18 — v3.1 environmental sweep, Modified Scope Unchanged (84 impacts x 48
  exploitability values), and the two cheap passes (normalisation preserves
  the value; model exploitability = specification exploitability) for both scopes.
-/
import ClairModel.Proofs.CvssEnvDefs

namespace ClairModel.Cvss

set_option maxRecDepth 100000 in
theorem envNormOk_U : envNormOk cU = true := by decide +kernel
set_option maxRecDepth 100000 in
theorem envNormOk_C : envNormOk cC = true := by decide +kernel
set_option maxRecDepth 100000 in
theorem envExplOk_U : envExplOk cU = true := by decide +kernel
set_option maxRecDepth 100000 in
theorem envExplOk_C : envExplOk cC = true := by decide +kernel
set_option maxRecDepth 100000 in
theorem envSweep31_U : envSweep31 cU (g3 0) = true := by decide +kernel

end ClairModel.Cvss
