/-
  Lemmas about Model/Jar.lean: pom.properties files as Maven writes them,
  manifests whose main section is a written stanza, file names
  `<artifact>-<version>.jar`, and the chain of heuristics.
-/
import ClairModel.Model.Jar
import ClairModel.Proofs.PyMeta
import ClairModel.Proofs.OsRelease

set_option autoImplicit false

namespace ClairModel.Jar
open ClairModel.Bytes ClairModel.Rfc822
open ClairModel.Apk (trimSpace)
open ClairModel.OsRelease (scanLines joinNl scanLines_joinNl NotEndsWith)

/-! ### pom.properties -/

/-- a line that changes nothing: a comment, an empty line, another key -/
def Neutral (l : Bytes) : Prop := ∀ g : Gav, propsLine g l = g

inductive Key where
  | group | artifact | version
  deriving DecidableEq, Repr

def Key.text : Key → Bytes
  | .group => [103, 114, 111, 117, 112, 73, 100]
  | .artifact => [97, 114, 116, 105, 102, 97, 99, 116, 73, 100]
  | .version => [118, 101, 114, 115, 105, 111, 110]

theorem text_group : asc "groupId" = Key.text .group := by decide
theorem text_artifact : asc "artifactId" = Key.text .artifact := by decide
theorem text_version : asc "version" = Key.text .version := by decide

def Key.set (k : Key) (g : Gav) (v : Bytes) : Gav :=
  match k with
  | .group => { g with group := v }
  | .artifact => { g with artifact := v }
  | .version => { g with version := v }

/-- `key=value` as Maven writes it -/
def keyLine (k : Key) (v : Bytes) : Bytes := k.text ++ 61 :: v

theorem cutEq_append (a v : Bytes) (h : 61 ∉ a) : cutEq (a ++ 61 :: v) = some (a, v) := by
  induction a with
  | nil => simp [cutEq]
  | cons c cs ih =>
    have hc : c ≠ 61 := fun e => h (by simp [e])
    have hcs : 61 ∉ cs := fun e => h (List.mem_cons_of_mem _ e)
    simp [cutEq, hc, ih hcs]

theorem cutEq_key (k : Key) (v : Bytes) : cutEq (keyLine k v) = some (k.text, v) := by
  apply cutEq_append
  cases k <;> decide

theorem propsLine_key (g : Gav) (k : Key) (v : Bytes) (ht : trimSpace (keyLine k v) = keyLine k v) :
    propsLine g (keyLine k v) = k.set g v := by
  unfold propsLine
  rw [ht, cutEq_key]
  simp only [text_group, text_artifact, text_version]
  cases k <;> simp [Key.set, Key.text]

theorem propsLoop_complete (g : Gav) (ls : List Bytes) (h : g.complete = true) : propsLoop g ls = g := by
  cases ls <;> simp [propsLoop, h]

theorem propsLoop_append_neutral (g : Gav) (n rest : List Bytes) (hn : ∀ l ∈ n, Neutral l) :
    propsLoop g (n ++ rest) = propsLoop g rest := by
  induction n with
  | nil => rfl
  | cons l ls ih =>
    by_cases hc : g.complete = true
    · rw [propsLoop_complete g _ hc, propsLoop_complete g _ hc]
    · simp only [List.cons_append, propsLoop, hc]
      rw [hn l (List.mem_cons_self ..) g]
      exact ih (fun x hx => hn x (List.mem_cons_of_mem _ hx))

theorem propsLoop_key (g : Gav) (k : Key) (v : Bytes) (rest : List Bytes) (hinc : g.complete = false)
    (ht : trimSpace (keyLine k v) = keyLine k v) :
    propsLoop g (keyLine k v :: rest) = propsLoop (k.set g v) rest := by
  simp [propsLoop, hinc, propsLine_key g k v ht]

def Gav.empty : Gav := ⟨[], [], []⟩

/-- the three keys once each, in any order, with any neutral lines around them -/
theorem propsLoop_three (k1 k2 k3 : Key) (x1 x2 x3 : Bytes) (n0 n1 n2 n3 : List Bytes)
    (d12 : k1 ≠ k2) (d13 : k1 ≠ k3) (d23 : k2 ≠ k3)
    (e1 : x1 ≠ []) (e2 : x2 ≠ []) (e3 : x3 ≠ [])
    (hn0 : ∀ l ∈ n0, Neutral l) (hn1 : ∀ l ∈ n1, Neutral l) (hn2 : ∀ l ∈ n2, Neutral l)
    (t1 : trimSpace (keyLine k1 x1) = keyLine k1 x1) (t2 : trimSpace (keyLine k2 x2) = keyLine k2 x2)
    (t3 : trimSpace (keyLine k3 x3) = keyLine k3 x3) :
    propsLoop Gav.empty (n0 ++ keyLine k1 x1 :: (n1 ++ keyLine k2 x2 :: (n2 ++ keyLine k3 x3 :: n3))) =
      k3.set (k2.set (k1.set Gav.empty x1) x2) x3 := by
  have c0 : Gav.empty.complete = false := rfl
  have c1 : (k1.set Gav.empty x1).complete = false := by cases k1 <;> simp [Key.set, Gav.empty, Gav.complete]
  have c2 : (k2.set (k1.set Gav.empty x1) x2).complete = false := by
    cases k1 <;> cases k2 <;> simp_all [Key.set, Gav.empty, Gav.complete]
  have c3 : (k3.set (k2.set (k1.set Gav.empty x1) x2) x3).complete = true := by
    cases k1 <;> cases k2 <;> cases k3 <;> simp_all [Key.set, Gav.empty, Gav.complete]
  rw [propsLoop_append_neutral _ _ _ hn0, propsLoop_key _ _ _ _ c0 t1,
    propsLoop_append_neutral _ _ _ hn1, propsLoop_key _ _ _ _ c1 t2,
    propsLoop_append_neutral _ _ _ hn2, propsLoop_key _ _ _ _ c2 t3,
    propsLoop_complete _ _ c3]

/-- comments (`#…`) are neutral -/
theorem neutral_comment (cs : Bytes) (h : 61 ∉ cs) (h2 : trimSpace (35 :: cs) = 35 :: cs) : Neutral (35 :: cs) := by
  intro g
  unfold propsLine
  rw [h2]
  have : cutEq (35 :: cs) = none := by
    have aux : ∀ s : Bytes, 61 ∉ s → cutEq s = none := by
      intro s
      induction s with
      | nil => intro _; rfl
      | cons c r ih =>
        intro hs
        have hc : c ≠ 61 := fun e => hs (by simp [e])
        simp [cutEq, hc, ih (fun e => hs (List.mem_cons_of_mem _ e))]
    refine aux _ ?_
    intro e
    rcases List.mem_cons.1 e with e | e
    · exact absurd e (by decide)
    · exact h e
  rw [this]

/-- the empty line is neutral -/
theorem neutral_empty : Neutral [] := by
  intro g; rfl

/-! ### manifest -/

theorem splitLines_crlfcrlf : splitLines [13, 10, 13, 10] = [[], []] := by decide
theorem splitLines_crlf : splitLines [13, 10] = [[]] := by decide

/-- a main section written as a stanza (each line ended by a newline), nothing
    after it: `parseManifest` sees exactly the written fields -/
theorem parseManifest_stanza (fs : List Field) (hw : ∀ f ∈ fs, f.WF) (data : Bytes)
    (hd : data = joinLines (fieldsLines fs))
    (hn : index data sNameHeader = none) :
    parseManifest data = manifestOfHeader (hdrOf fs) := by
  have hclean : ∀ l ∈ fieldsLines fs, 10 ∉ l ∧ 13 ∉ l := by
    intro l hl
    simp only [fieldsLines, List.mem_flatMap] at hl
    obtain ⟨f, hf, hl⟩ := hl
    exact (hw f hf).lines_clean l hl
  unfold parseManifest mainSection
  rw [hn, hd]
  simp only
  rw [calls, splitLines_joinLines _ _ hclean, splitLines_crlfcrlf]
  obtain ⟨rest, hr⟩ := PyMeta.firstEvent_metaLines fs hw [[]]
  simp only [PyMeta.metaLines] at hr
  rw [hr]
  simp

/-- the same with per-entry sections after it: the first `"\nName:"` is the
    end of the stanza's last line (`i`), with or without an empty line between -/
theorem parseManifest_sections (fs : List Field) (hw : ∀ f ∈ fs, f.WF) (data : Bytes) (i : Nat)
    (hn : index data sNameHeader = some i)
    (hd : data.take (i + 1) = joinLines (fieldsLines fs) ∨ data.take (i + 1) = joinLines (fieldsLines fs) ++ [10]) :
    parseManifest data = manifestOfHeader (hdrOf fs) := by
  have hclean : ∀ l ∈ fieldsLines fs, 10 ∉ l ∧ 13 ∉ l := by
    intro l hl
    simp only [fieldsLines, List.mem_flatMap] at hl
    obtain ⟨f, hf, hl⟩ := hl
    exact (hw f hf).lines_clean l hl
  unfold parseManifest mainSection
  rw [hn]
  simp only
  rcases hd with hd | hd
  · rw [hd, calls, splitLines_joinLines _ _ hclean, splitLines_crlf]
    obtain ⟨rest, hr⟩ := PyMeta.firstEvent_metaLines fs hw []
    simp only [PyMeta.metaLines] at hr
    rw [hr]
    simp
  · rw [hd, calls, List.append_assoc, splitLines_joinLines _ _ hclean]
    have : splitLines ([10] ++ [13, 10]) = [[], []] := by decide
    rw [this]
    obtain ⟨rest, hr⟩ := PyMeta.firstEvent_metaLines fs hw [[]]
    simp only [PyMeta.metaLines] at hr
    rw [hr]
    simp

/-! ### file names -/

def NoDashDigit : Bytes → Prop
  | [] => True
  | [_] => True
  | c :: d :: r => ¬(c = 45 ∧ isDigitB d = true) ∧ NoDashDigit (d :: r)

theorem versionBefore_dotjar : versionBefore sDotJar = some [] := by decide

theorem versionBefore_written (w : Bytes) (hw : ∀ c ∈ w, verChar c = true) :
    versionBefore (w ++ sDotJar) = some w := by
  induction w with
  | nil => exact versionBefore_dotjar
  | cons c cs ih =>
    have hc : verChar c = true := hw c (List.mem_cons_self ..)
    have := ih (fun x hx => hw x (List.mem_cons_of_mem _ hx))
    simp only [List.cons_append, versionBefore, hc, if_true, this]

theorem splitRun_cons (c : Nat) (cs : Bytes) :
    splitRun (c :: cs) =
      match splitRun cs with
      | some (n, v) => some (c :: n, v)
      | none => dashHere c cs := by
  rw [splitRun]
  rfl

theorem splitRun_none (t : Bytes) (h : NoDashDigit t) : splitRun t = none := by
  induction t with
  | nil => rfl
  | cons c cs ih =>
    have hcs : NoDashDigit cs := by
      cases cs with
      | nil => trivial
      | cons d r => exact h.2
    rw [splitRun_cons, ih hcs]
    cases cs with
    | nil => rfl
    | cons d r =>
      by_cases hd : d = 45
      · subst hd
        cases r with
        | nil => simp [dashHere, versionAt]
        | cons e r' =>
          have : ¬((45 : Nat) = 45 ∧ isDigitB e = true) := hcs.1
          have he : isDigitB e = false := by
            cases hx : isDigitB e with
            | false => rfl
            | true => exact absurd ⟨rfl, hx⟩ this
          simp [dashHere, versionAt, he]
      · simp [dashHere, hd]

theorem splitRun_written (a v : Bytes) (d : Nat) (w : Bytes) (ha : a ≠ []) (hv : v = d :: w) (hd : isDigitB d = true)
    (hw : ∀ c ∈ w, verChar c = true) (hnd : NoDashDigit (v ++ sDotJar)) :
    splitRun (a ++ 45 :: (v ++ sDotJar)) = some (a, v) := by
  subst hv
  simp only [List.cons_append] at hnd ⊢
  have hva : versionAt (d :: (w ++ sDotJar)) = some (d :: w) := by
    simp [versionAt, hd, versionBefore_written w hw]
  have hdash : splitRun (45 :: d :: (w ++ sDotJar)) = none := by
    have h0 : splitRun (d :: (w ++ sDotJar)) = none := splitRun_none _ hnd
    have hne : d ≠ 45 := by intro e; subst e; exact absurd hd (by decide)
    rw [splitRun_cons, h0]
    simp [dashHere, hne]
  induction a with
  | nil => exact absurd rfl ha
  | cons c cs ih =>
    cases cs with
    | nil =>
      simp only [List.cons_append, List.nil_append]
      rw [splitRun_cons, hdash]
      simp [dashHere, hva]
    | cons c2 cs2 =>
      have := ih (by simp)
      rw [List.cons_append, splitRun_cons, this]

theorem graphRunsAux_all (s cur : Bytes) (hs : ∀ c ∈ s, isGraph c = true) (hne : s ≠ [] ∨ cur ≠ []) :
    graphRunsAux s cur = [cur.reverse ++ s] := by
  induction s generalizing cur with
  | nil =>
    have : cur ≠ [] := by
      rcases hne with h | h
      · exact absurd rfl h
      · exact h
    have hc : cur.isEmpty = false := by cases cur with
      | nil => exact absurd rfl this
      | cons _ _ => rfl
    simp [graphRunsAux, hc]
  | cons c cs ih =>
    have hc : isGraph c = true := hs c (List.mem_cons_self ..)
    simp only [graphRunsAux, hc, if_true]
    rw [ih (c :: cur) (fun x hx => hs x (List.mem_cons_of_mem _ hx)) (Or.inr (by simp))]
    simp

theorem graphRuns_all (s : Bytes) (hs : ∀ c ∈ s, isGraph c = true) (hne : s ≠ []) : graphRuns s = [s] := by
  have := graphRunsAux_all s [] hs (Or.inl hne)
  simpa [graphRuns] using this

theorem verChar_graph {c : Nat} (h : verChar c = true) : isGraph c = true := by
  simp only [verChar, isAlnum, Bool.or_eq_true, beq_iff_eq, Bool.and_eq_true, decide_eq_true_eq] at h
  simp only [isGraph, Bool.and_eq_true, decide_eq_true_eq]
  omega

/-- `checkName` of `<artifact>-<version>.jar` -/
theorem checkName_written (a v : Bytes) (d : Nat) (w : Bytes) (ha : a ≠ []) (hag : ∀ c ∈ a, isGraph c = true)
    (hv : v = d :: w) (hd : isDigitB d = true) (hw : ∀ c ∈ w, verChar c = true)
    (hnd : NoDashDigit (v ++ sDotJar)) :
    checkName (a ++ 45 :: (v ++ sDotJar)) = some (a, v) := by
  have hdv : verChar d = true := by
    simp only [isDigitB, Bool.and_eq_true, decide_eq_true_eq] at hd
    simp only [verChar, isAlnum, Bool.or_eq_true, beq_iff_eq, Bool.and_eq_true, decide_eq_true_eq]
    omega
  have hall : ∀ c ∈ a ++ 45 :: (v ++ sDotJar), isGraph c = true := by
    intro c hc
    rcases List.mem_append.1 hc with h | h
    · exact hag c h
    · rcases List.mem_cons.1 h with h | h
      · subst h; decide
      · rcases List.mem_append.1 h with h | h
        · subst hv
          rcases List.mem_cons.1 h with h | h
          · subst h; exact verChar_graph hdv
          · exact verChar_graph (hw c h)
        · have : ∀ x ∈ sDotJar, isGraph x = true := by decide
          exact this c h
  unfold checkName
  rw [graphRuns_all _ hall (by cases a <;> simp_all)]
  simp [List.findSome?, splitRun_written a v d w ha hv hd hw hnd]

end ClairModel.Jar
