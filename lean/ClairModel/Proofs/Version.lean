/-
  Lemmas about the generic version model (Model/Version.lean): the
  comparison is the lexicographic product of the kind order and the slot
  order; `int32` is the identity on [-2^31, 2^31).
-/
import ClairModel.Model.Version

namespace ClairModel.Version
open ClairModel.Order

theorem then_of_ne_eq {x : Ordering} (y : Ordering) (h : x ≠ .eq) : x.then y = x := by
  cases x <;> simp_all [Ordering.then]

/-- `Compare` is "kinds first, then slots". -/
theorem cmp_eq_then (a b : Version) :
    cmp a b = thenCmp (keyCmp strCmp Version.kind) (keyCmp (lexCmp intCmp) Version.v) a b := by
  unfold cmp thenCmp keyCmp
  by_cases h : a.kind = b.kind
  · simp [h, strCmp_totalPre.refl, Ordering.then]
  · have : strCmp a.kind b.kind ≠ .eq := fun e => h (strCmp_eq.1 e)
    simp [h, then_of_ne_eq _ this]

theorem cmp_totalPre : TotalPre cmp := by
  have : cmp = thenCmp (keyCmp strCmp Version.kind) (keyCmp (lexCmp intCmp) Version.v) := by
    funext a b; exact cmp_eq_then a b
  rw [this]
  exact thenCmp_totalPre (keyCmp_totalPre strCmp_totalPre _) (keyCmp_totalPre (lexCmp_totalPre intCmp_totalPre) _)

theorem lexCmp_int_eq : ∀ {l m : List Int}, lexCmp intCmp l m = .eq ↔ l = m
  | [], [] => by simp [lexCmp]
  | [], _ :: _ => by simp [lexCmp]
  | _ :: _, [] => by simp [lexCmp]
  | a :: as, b :: bs => by
    have ih := lexCmp_int_eq (l := as) (m := bs)
    simp only [lexCmp]
    cases hab : intCmp a b with
    | lt =>
      have : a ≠ b := by intro e; subst e; simp [intCmp] at hab
      simp [Ordering.then, this]
    | gt =>
      have : a ≠ b := by intro e; subst e; simp [intCmp] at hab
      simp [Ordering.then, this]
    | eq =>
      have : a = b := intCmp_eq.1 hab
      simp [Ordering.then, this, ih]

/-- Two versions compare equal exactly when they are the same value. -/
theorem cmp_eq_iff (a b : Version) : cmp a b = .eq ↔ a = b := by
  constructor
  · intro h
    unfold cmp at h
    by_cases hk : a.kind = b.kind
    · simp [hk] at h
      have hv := lexCmp_int_eq.1 h
      cases a; cases b; simp_all
    · simp [hk] at h
      exact absurd (strCmp_eq.1 h) hk
  · rintro rfl; exact cmp_totalPre.refl a

theorem toInt32_id {x : Int} (h₁ : -2147483648 ≤ x) (h₂ : x < 2147483648) : toInt32 x = x := by
  unfold toInt32
  have : (x + 2147483648) % 4294967296 = x + 2147483648 := Int.emod_eq_of_lt (by omega) (by omega)
  omega

theorem toInt32_range (x : Int) : -2147483648 ≤ toInt32 x ∧ toInt32 x < 2147483648 := by
  unfold toInt32
  have h₁ := Int.emod_nonneg (x + 2147483648) (b := 4294967296) (by decide)
  have h₂ := Int.emod_lt_of_pos (x + 2147483648) (b := 4294967296) (by decide)
  omega

/-! ### FromSemver -/

theorem intCmp_ne_gt {a b : Int} : intCmp a b ≠ .gt ↔ a ≤ b := by
  unfold intCmp; by_cases h₁ : a < b <;> by_cases h₂ : a = b <;> simp [*] <;> omega

theorem intCmp_of_lt {a b : Int} (h : a < b) : intCmp a b = .lt := by simp [intCmp, h]

theorem satSlots_length (s : Bool) (l : List Int) : (satSlots s l).length = l.length := by
  induction l generalizing s with
  | nil => rfl
  | cons n ns ih => unfold satSlots; split <;> simp [ih]

theorem satSlots_true (l : List Int) : satSlots true l = List.replicate l.length maxInt32 := by
  induction l with
  | nil => rfl
  | cons n ns ih => simp [satSlots, ih, List.replicate_succ]

theorem satSlots_big {n : Int} (ns : List Int) (h : n > maxInt32) :
    satSlots false (n :: ns) = maxInt32 :: satSlots true ns := by simp [satSlots, h]

theorem satSlots_small {n : Int} (ns : List Int) (h : ¬ n > maxInt32) :
    satSlots false (n :: ns) = toInt32 n :: satSlots false ns := by simp [satSlots, h]

/-- Every saturated list is below the all-MaxInt32 list of its length. -/
theorem satSlots_le_max (s : Bool) (l : List Int) (h : ∀ x ∈ l, 0 ≤ x) :
    lexCmp intCmp (satSlots s l) (List.replicate l.length maxInt32) ≠ .gt := by
  induction l generalizing s with
  | nil => simp [satSlots, lexCmp]
  | cons n ns ih =>
    have hns : ∀ x ∈ ns, 0 ≤ x := fun x hx => h x (List.mem_cons_of_mem _ hx)
    unfold satSlots
    split
    · simp only [List.length_cons, List.replicate_succ, lexCmp, intCmp_totalPre.refl, Ordering.then]
      exact ih true hns
    · rename_i hc
      have hn : n ≤ maxInt32 := by
        have : ¬ n > maxInt32 := by intro hh; exact hc (by simp [hh])
        omega
      have h0 : 0 ≤ n := h n List.mem_cons_self
      simp only [maxInt32] at hn
      rw [toInt32_id (by omega) (by omega)]
      simp only [List.length_cons, List.replicate_succ, lexCmp]
      by_cases he : n = maxInt32
      · subst he; simp only [intCmp_totalPre.refl, Ordering.then]; exact ih false hns
      · have : n < maxInt32 := by simp only [maxInt32] at he ⊢; omega
        simp [intCmp_of_lt this, Ordering.then]

/-- The saturating conversion is monotone for the lexicographic order. -/
theorem satSlots_mono (s : Bool) : ∀ (l m : List Int), l.length = m.length →
    (∀ x ∈ l, 0 ≤ x) → (∀ x ∈ m, 0 ≤ x) →
    lexCmp intCmp l m ≠ .gt → lexCmp intCmp (satSlots s l) (satSlots s m) ≠ .gt
  | [], [], _, _, _, _ => by simp [satSlots, lexCmp]
  | [], _ :: _, hl, _, _, _ => by simp at hl
  | _ :: _, [], hl, _, _, _ => by simp at hl
  | a :: as, b :: bs, hl, ha, hb, h => by
    have hl' : as.length = bs.length := by simpa using hl
    have has : ∀ x ∈ as, 0 ≤ x := fun x hx => ha x (List.mem_cons_of_mem _ hx)
    have hbs : ∀ x ∈ bs, 0 ≤ x := fun x hx => hb x (List.mem_cons_of_mem _ hx)
    have a0 : 0 ≤ a := ha a List.mem_cons_self
    have b0 : 0 ≤ b := hb b List.mem_cons_self
    simp only [lexCmp] at h
    have hab : a ≤ b := by
      apply intCmp_ne_gt.1
      intro hh; simp [hh, Ordering.then] at h
    cases s with
    | true =>
      rw [satSlots_true, satSlots_true, hl]
      exact fun hh => by rw [(lexCmp_totalPre intCmp_totalPre).refl] at hh; cases hh
    | false =>
      by_cases hA : a > maxInt32
      · have hB : b > maxInt32 := by omega
        rw [satSlots_big as hA, satSlots_big bs hB, satSlots_true, satSlots_true, hl']
        exact fun hh => by rw [(lexCmp_totalPre intCmp_totalPre).refl] at hh; cases hh
      · have hA' : a ≤ 2147483647 := by simp only [maxInt32] at hA; omega
        by_cases hB : b > maxInt32
        · rw [satSlots_small as hA, satSlots_big bs hB, toInt32_id (by omega) (by omega), satSlots_true]
          simp only [lexCmp]
          by_cases he : a = maxInt32
          · subst he; simp only [intCmp_totalPre.refl, Ordering.then]
            rw [← hl']; exact satSlots_le_max false as has
          · have : a < maxInt32 := by simp only [maxInt32] at he ⊢; omega
            simp [intCmp_of_lt this, Ordering.then]
        · have hB' : b ≤ 2147483647 := by simp only [maxInt32] at hB; omega
          rw [satSlots_small as hA, satSlots_small bs hB, toInt32_id (by omega) (by omega),
            toInt32_id (by omega) (by omega)]
          simp only [lexCmp]
          cases hc : intCmp a b with
          | lt => simp [Ordering.then]
          | gt => simp [hc, Ordering.then] at h
          | eq =>
            simp only [hc, Ordering.then] at h ⊢
            exact satSlots_mono false as bs hl' has hbs h

theorem lexCmp_append_right {c : Int → Int → Ordering} (hr : ∀ a, c a a = .eq) (s : List Int) :
    ∀ l m : List Int, l.length = m.length → lexCmp c (l ++ s) (m ++ s) = lexCmp c l m
  | [], [], _ => by simp [lexCmp_refl hr, lexCmp]
  | [], _ :: _, h => by simp at h
  | _ :: _, [], h => by simp at h
  | a :: as, b :: bs, h => by
    simp only [List.cons_append, lexCmp, lexCmp_append_right hr s as bs (by simpa using h)]

/-! ### decimal digits -/

/-- A character is one of the ten digit characters. -/
def IsDigChar (c : Char) : Prop := ∃ d, d < 10 ∧ c = digitChar d

/-- A non-empty string of digit characters. -/
def IsDig (l : List Char) : Prop := l ≠ [] ∧ ∀ c ∈ l, IsDigChar c

theorem digitChar_isDigit : ∀ d, d < 10 → isDigit (digitChar d) = true := by decide
theorem digitVal_digitChar : ∀ d, d < 10 → digitVal (digitChar d) = d := by decide

theorem IsDigChar.isDigit {c : Char} (h : IsDigChar c) : isDigit c = true := by
  obtain ⟨d, hd, rfl⟩ := h; exact digitChar_isDigit d hd

theorem foldl_digits (k : Nat) (l : List Char) :
    l.foldl (fun n c => n * 10 + digitVal c) k = k * 10 ^ l.length + natOfDigits l := by
  induction l generalizing k with
  | nil => simp [natOfDigits]
  | cons c cs ih =>
    have h₁ := ih (k * 10 + digitVal c)
    have h₂ := ih (0 * 10 + digitVal c)
    simp only [List.foldl_cons, List.length_cons, natOfDigits] at h₁ h₂ ⊢
    rw [h₁, h₂, Nat.pow_succ, Nat.add_mul, Nat.mul_assoc, Nat.mul_comm 10 (10 ^ cs.length)]
    simp [Nat.add_assoc]

theorem natOfDigits_cons (c : Char) (l : List Char) :
    natOfDigits (c :: l) = digitVal c * 10 ^ l.length + natOfDigits l := by
  have := foldl_digits (0 * 10 + digitVal c) l
  simp only [natOfDigits, List.foldl_cons] at this ⊢
  rw [this]; simp

theorem natDigitsAux_spec : ∀ (fuel n : Nat) (acc : List Char), n < fuel → (∀ c ∈ acc, IsDigChar c) →
    (∀ c ∈ natDigitsAux fuel n acc, IsDigChar c) ∧ natDigitsAux fuel n acc ≠ [] ∧
    natOfDigits (natDigitsAux fuel n acc) = n * 10 ^ acc.length + natOfDigits acc
  | 0, _, _, h, _ => absurd h (Nat.not_lt_zero _)
  | fuel + 1, n, acc, h, hacc => by
    unfold natDigitsAux
    by_cases hn : n < 10
    · simp only [hn, if_true]
      refine ⟨?_, by simp, ?_⟩
      · intro c hc
        rcases List.mem_cons.1 hc with rfl | hc
        · exact ⟨n, hn, rfl⟩
        · exact hacc c hc
      · rw [natOfDigits_cons, digitVal_digitChar n hn]
    · simp only [hn, if_false]
      have hmod : n % 10 < 10 := Nat.mod_lt _ (by decide)
      have hacc' : ∀ c ∈ digitChar (n % 10) :: acc, IsDigChar c := by
        intro c hc
        rcases List.mem_cons.1 hc with rfl | hc
        · exact ⟨n % 10, hmod, rfl⟩
        · exact hacc c hc
      obtain ⟨h₁, h₂, h₃⟩ := natDigitsAux_spec fuel (n / 10) (digitChar (n % 10) :: acc) (by omega) hacc'
      refine ⟨h₁, h₂, ?_⟩
      rw [h₃, natOfDigits_cons, digitVal_digitChar _ hmod, List.length_cons, Nat.pow_succ]
      have : n / 10 * (10 ^ acc.length * 10) + (n % 10 * 10 ^ acc.length + natOfDigits acc)
          = (10 * (n / 10) + n % 10) * 10 ^ acc.length + natOfDigits acc := by
        rw [Nat.add_mul, Nat.mul_comm (10 ^ acc.length) 10, ← Nat.mul_assoc, Nat.mul_comm (n / 10) 10]
        simp [Nat.add_assoc]
      rw [this, Nat.div_add_mod]

theorem natDigits_isDig (n : Nat) : IsDig (natDigits n) := by
  obtain ⟨h₁, h₂, _⟩ := natDigitsAux_spec (n + 1) n [] (Nat.lt_succ_self n) (by simp)
  exact ⟨h₂, h₁⟩

theorem natOfDigits_natDigits (n : Nat) : natOfDigits (natDigits n) = n := by
  obtain ⟨_, _, h₃⟩ := natDigitsAux_spec (n + 1) n [] (Nat.lt_succ_self n) (by simp)
  unfold natDigits
  rw [h₃]; simp [natOfDigits]

theorem IsDig.all_isDigit {l : List Char} (h : IsDig l) : l.all isDigit = true := by
  apply List.all_eq_true.2
  intro c hc; exact (h.2 c hc).isDigit

theorem digChar_facts : ∀ d, d < 10 →
    digitChar d ≠ '-' ∧ digitChar d ≠ '+' ∧ digitChar d ≠ '.' ∧ digitChar d ≠ '!' ∧ digitChar d ≠ '_' := by
  decide

theorem isNeg_of_ne {c : Char} (cs : List Char) (h : c ≠ '-') : isNeg (c :: cs) = false := by
  unfold isNeg
  split
  · rename_i hm; simp only [List.cons.injEq] at hm; exact absurd hm.1 h
  · rfl

theorem stripSign_of_ne {c : Char} (cs : List Char) (h₁ : c ≠ '-') (h₂ : c ≠ '+') :
    stripSign (c :: cs) = c :: cs := by
  unfold stripSign
  split
  · rename_i hm; simp only [List.cons.injEq] at hm; exact absurd hm.1 h₁
  · rename_i hm; simp only [List.cons.injEq] at hm; exact absurd hm.1 h₂
  · rfl

/-- `Atoi` on a text that does not start with a sign. -/
theorem atoi_unsigned {c : Char} (cs : List Char) (h₁ : c ≠ '-') (h₂ : c ≠ '+') :
    atoi (c :: cs) = if (c :: cs).all isDigit then
      (if natOfDigits (c :: cs) < 9223372036854775808 then some (natOfDigits (c :: cs) : Int) else none)
      else none := by
  unfold atoi
  rw [stripSign_of_ne cs h₁ h₂, isNeg_of_ne cs h₁]
  by_cases h : (c :: cs).all isDigit = true
  · simp [h]
  · simp [h]

/-- `Atoi` of the decimal rendering of a number below 2^63 gives the number back. -/
theorem atoi_natDigits (n : Nat) (h : n < 9223372036854775808) : atoi (natDigits n) = some (n : Int) := by
  have hd := natDigits_isDig n
  obtain ⟨c, cs, hcs⟩ : ∃ c cs, natDigits n = c :: cs := by
    cases hl : natDigits n with
    | nil => exact absurd hl hd.1
    | cons c cs => exact ⟨c, cs, rfl⟩
  have hc : IsDigChar c := hd.2 c (by rw [hcs]; exact List.mem_cons_self)
  obtain ⟨d, hd10, rfl⟩ := hc
  obtain ⟨f₁, f₂, _⟩ := digChar_facts d hd10
  have hall := hd.all_isDigit
  have hval := natOfDigits_natDigits n
  rw [hcs] at hall hval ⊢
  rw [atoi_unsigned cs f₁ f₂, hall, hval]
  simp [h]

/-- Every character accepted by `isDigit` is one of the ten digit characters. -/
theorem isDigChar_of_isDigit {c : Char} (h : isDigit c = true) : IsDigChar c := by
  unfold isDigit at h
  simp only [Bool.and_eq_true, decide_eq_true_eq] at h
  obtain ⟨h1, h2⟩ := h
  rw [Char.le_def] at h1 h2
  have a : 48 ≤ c.toNat := UInt32.le_iff_toNat_le.1 h1
  have b : c.toNat ≤ 57 := UInt32.le_iff_toNat_le.1 h2
  refine ⟨c.toNat - 48, by omega, ?_⟩
  unfold digitChar
  have : 48 + (c.toNat - 48) = c.toNat := by omega
  rw [this, Char.ofNat_toNat]

theorem digChar_order : ∀ d, d < 10 → (digitChar d).toNat = 48 + d ∧ (digitChar d = '0' ↔ d = 0) := by decide

/-- A string of digit characters (possibly empty). -/
def AllDig (l : List Char) : Prop := ∀ c ∈ l, isDigit c = true

theorem AllDig.tail {c : Char} {l : List Char} (h : AllDig (c :: l)) : AllDig l :=
  fun x hx => h x (List.mem_cons_of_mem _ hx)

theorem digitVal_le_nine {c : Char} (h : isDigit c = true) : digitVal c ≤ 9 := by
  obtain ⟨d, hd, rfl⟩ := isDigChar_of_isDigit h
  rw [digitVal_digitChar d hd]; omega

theorem natOfDigits_lt {l : List Char} (h : AllDig l) : natOfDigits l < 10 ^ l.length := by
  induction l with
  | nil => simp [natOfDigits]
  | cons c cs ih =>
    have := ih h.tail
    have h9 := digitVal_le_nine (h c List.mem_cons_self)
    rw [natOfDigits_cons, List.length_cons, Nat.pow_succ]
    have : digitVal c * 10 ^ cs.length ≤ 9 * 10 ^ cs.length := Nat.mul_le_mul_right _ h9
    omega

theorem intStr_nonneg {x : Int} (h : 0 ≤ x) : intStr x = natDigits x.toNat := by
  unfold intStr
  have : ¬ x < 0 := by omega
  simp only [this, if_false]
  congr 1
  omega

end ClairModel.Version
