/-
  The loop of controller.run: a loop-head invariant, a uniform summary of the
  six state functions, and what `runLoop` / `index` guarantee for an arbitrary
  fault oracle.
-/
import ClairModel.Proofs.IndexerInv

namespace ClairModel.Indexer

variable {sem : Sem} {o : Oracle} {cfg : Cfg} {m : Manifest} {st0 : Store}

/-- Loop-head facts about the store and the controller fields (`st0` is the
    store the Index call started from). -/
structure HeadCore (sem : Sem) (cfg : Cfg) (m : Manifest) (st0 st : Store) (c : Ctl) : Prop where
  curFn : c.cur = .checkManifest ∨ c.cur = .fetchLayers ∨ c.cur = .scanLayers ∨ c.cur = .coalesce ∨
      c.cur = .indexManifest ∨ c.cur = .indexFinished
  vsSub : ∀ s, s ∈ c.vs → s ∈ cfg.scanners
  vsCover : ∀ s, s ∈ cfg.scanners → s ∈ c.vs ∨ (m, s) ∈ st.scannedManifest
  initVs : c.cur = .checkManifest → c.vs = cfg.scanners
  persisted : c.cur ≠ .checkManifest → m ∈ st.manifests
  marked : c.cur = .coalesce ∨ c.cur = .indexManifest ∨ c.cur = .indexFinished →
      ∀ l, l ∈ m → ∀ s, s ∈ cfg.scanners → (l, s) ∈ st.scannedLayer
  indexed : c.cur = .indexFinished → ∃ b, (m, b) ∈ st.index
  noSuccess : c.report.success = false
  noErr : c.report.err = false
  stateOK : c.cur ≠ .checkManifest → c.report.state = some c.cur
  bodyOK : c.cur = .indexManifest ∨ c.cur = .indexFinished → c.report.body = freshBody sem cfg m
  smSame : st.scannedManifest = st0.scannedManifest

theorem HeadCore.mono {st st' : Store} {c : Ctl} (h : HeadCore sem cfg m st0 st c) (hle : Le st st')
    (hsm : st'.scannedManifest = st.scannedManifest) : HeadCore sem cfg m st0 st' c :=
  { h with
    vsCover := fun s hs => (h.vsCover s hs).imp id (fun hh => hsm ▸ hh)
    persisted := fun hc => hle.manifests _ (h.persisted hc)
    marked := fun hc l hl s hs => hle.scannedLayer _ (h.marked hc l hl s hs)
    indexed := fun hc => hle.index _ (h.indexed hc)
    smSame := hsm.trans h.smSame }

/-- The written-by-indexFinished alternative: marks for `c.vs` and the final report. -/
def Finished (m : Manifest) (w : W) (c : Ctl) (res : StateRet) : Prop :=
  c.cur = .indexFinished ∧ res.1.st.report? m = some res.2.1.report ∧
  res.2.1.report = { c.report with success := true } ∧
  ∀ x, x ∈ res.1.st.scannedManifest ↔ (x.1 = m ∧ x.2 ∈ c.vs) ∨ x ∈ w.st.scannedManifest

/-- The state after a state function that returned no error and not Terminal. -/
def succState : CState → CState
  | .checkManifest => .fetchLayers
  | .fetchLayers => .scanLayers
  | .scanLayers => .coalesce
  | .coalesce => .indexManifest
  | .indexManifest => .indexFinished
  | _ => .terminal

/-- Uniform summary of a state function run from a loop head. -/
structure FnPost (sem : Sem) (o : Oracle) (cfg : Cfg) (m : Manifest) (st0 : Store) (w : W) (c : Ctl) (res : StateRet) : Prop where
  step : Step0 sem o m w res.1 res.2.2.2
  errTerminal : res.2.2.2 ≠ none → res.2.2.1 = .terminal
  sm : res.1.st.scannedManifest = w.st.scannedManifest ∨ Finished m w c res
  smErr : NoCommitErr o → res.2.2.2 ≠ none → res.1.st.scannedManifest = w.st.scannedManifest
  okTerminal : res.2.2.2 = none → res.2.2.1 = .terminal →
    (c.cur = .checkManifest ∧ res.1.st = w.st ∧ w.st.manifestScanned m c.vs = true ∧
        w.st.report? m = some res.2.1.report) ∨ Finished m w c res
  okNext : res.2.2.2 = none → res.2.2.1 ≠ .terminal →
    HeadCore sem cfg m st0 res.1.st (setState res.2.1 res.2.2.1) ∧
    res.1.st.scannedManifest = w.st.scannedManifest
  persisted : c.cur ≠ .checkManifest → m ∈ res.1.st.manifests
  succ : res.2.2.2 = none → res.2.2.1 ≠ .terminal → res.2.2.1 = succState c.cur

theorem persistManifest_sm (st : Store) (m : Manifest) : (st.persistManifest m).scannedManifest = st.scannedManifest := by
  unfold Store.persistManifest; split <;> rfl

theorem stateFn_post (w : W) (c : Ctl) (hi : Inv sem w.st) (h : HeadCore sem cfg m st0 w.st c) :
    FnPost sem o cfg m st0 w c (stateFn sem o cfg m c.cur w c) := by
  rcases h.curFn with hc | hc | hc | hc | hc | hc
  · -- checkManifest
    rw [hc]; simp only [stateFn]
    have sp := checkManifest_spec sem o m w c
    generalize checkManifest o m w c = res at sp
    have hne : ¬ (c.cur ≠ .checkManifest) := by simp [hc]
    refine ⟨sp.step.toStep0, fun he => (sp.errTerminal he).1, Or.inl sp.step.sm, fun _ _ => sp.step.sm, ?_, ?_, fun hh => absurd hh hne, ?_⟩
    rotate_left 2
    · intro hok hnt
      rcases sp.ok hok with ⟨hn, _⟩ | ⟨hn, _⟩
      · exact absurd hn hnt
      · rw [hn, hc]; rfl
    · intro hok hterm
      rcases sp.ok hok with ⟨_, hsc, hst, hrep, _⟩ | ⟨hn, _⟩
      · exact Or.inl ⟨hc, hst, hsc, hrep⟩
      · rw [hn] at hterm; cases hterm
    · intro hok hnt
      rcases sp.ok hok with ⟨hn, _⟩ | ⟨hn, _, hmem, hst, hrep, hsub, hcov⟩
      · exact absurd hn hnt
      · refine ⟨?_, sp.step.sm⟩
        rw [hn]
        have hcur : (setState res.2.1 .fetchLayers).cur = .fetchLayers := rfl
        refine ⟨Or.inr (Or.inl rfl), ?_, ?_, ?_, fun _ => hmem, ?_, ?_, ?_, ?_, fun _ => rfl, ?_, ?_⟩
        · intro s hs; exact h.vsSub s (hsub s hs)
        · intro s hs
          rcases h.vsCover s hs with h1 | h1
          · rcases hcov s h1 with h2 | h2
            · exact Or.inl h2
            · exact Or.inr (sp.step.sm ▸ h2)
          · exact Or.inr (sp.step.sm ▸ h1)
        · intro hh; simp [setState] at hh
        · intro hh; simp [setState] at hh
        · intro hh; simp [setState] at hh
        · simp only [setState, hrep]; exact h.noSuccess
        · simp only [setState, hrep]; exact h.noErr
        · intro hh; simp [setState] at hh
        · exact sp.step.sm.trans h.smSame
  · -- fetchLayers
    rw [hc]; simp only [stateFn]
    obtain ⟨sp, hst⟩ := fetchLayers_spec sem o m w c
    generalize fetchLayers o m w c = res at sp hst
    have hpers : m ∈ w.st.manifests := h.persisted (by simp [hc])
    refine ⟨sp.step.toStep0, sp.errTerminal, Or.inl sp.step.sm, fun _ _ => sp.step.sm, ?_, ?_, fun _ => hst ▸ hpers,
      fun hok _ => by rw [sp.okNext hok, hc]; rfl⟩
    · intro hok hterm; rw [sp.okNext hok] at hterm; cases hterm
    · intro hok _
      refine ⟨?_, sp.step.sm⟩
      rw [sp.okNext hok, sp.ctl, hst]
      refine ⟨Or.inr (Or.inr (Or.inl rfl)), h.vsSub, h.vsCover, ?_, fun _ => hpers, ?_, ?_, h.noSuccess, h.noErr, fun _ => rfl, ?_, h.smSame⟩
      all_goals (intro hh; simp [setState] at hh)
  · -- scanLayers
    rw [hc]; simp only [stateFn]
    obtain ⟨sp, hmk⟩ := scanLayers_spec sem o cfg m w c
    generalize scanLayers sem o cfg m w c = res at sp hmk
    have hpers : m ∈ w.st.manifests := h.persisted (by simp [hc])
    refine ⟨sp.step.toStep0, sp.errTerminal, Or.inl sp.step.sm, fun _ _ => sp.step.sm, ?_, ?_, fun _ => sp.step.le.manifests _ hpers,
      fun hok _ => by rw [sp.okNext hok, hc]; rfl⟩
    · intro hok hterm; rw [sp.okNext hok] at hterm; cases hterm
    · intro hok _
      refine ⟨?_, sp.step.sm⟩
      rw [sp.okNext hok, sp.ctl]
      refine ⟨Or.inr (Or.inr (Or.inr (Or.inl rfl))), h.vsSub, ?_, ?_, fun _ => sp.step.le.manifests _ hpers, fun _ => hmk hok, ?_,
        h.noSuccess, h.noErr, fun _ => rfl, ?_, sp.step.sm.trans h.smSame⟩
      · intro s hs; exact (h.vsCover s hs).imp id (fun hh => sp.step.sm ▸ hh)
      all_goals (intro hh; simp [setState] at hh)
  · -- coalesce
    rw [hc]; simp only [stateFn]
    have sp := coalesce_spec sem o cfg m w c
    generalize coalesce sem o cfg m w c = res at sp
    have hpers : m ∈ w.st.manifests := h.persisted (by simp [hc])
    have hmk := h.marked (Or.inl hc)
    refine ⟨sp.step.toStep0, fun he => (sp.errTerminal he).1, Or.inl sp.step.sm, fun _ _ => sp.step.sm, ?_, ?_, fun _ => sp.st ▸ hpers,
      fun hok _ => by rw [(sp.okNext hok).1, hc]; rfl⟩
    · intro hok hterm; rw [(sp.okNext hok).1] at hterm; cases hterm
    · intro hok _
      obtain ⟨hn, b, hctl, hb⟩ := sp.okNext hok
      refine ⟨?_, sp.step.sm⟩
      rw [hn, hctl, sp.st]
      refine ⟨Or.inr (Or.inr (Or.inr (Or.inr (Or.inl rfl)))), h.vsSub, h.vsCover, ?_, fun _ => hpers, fun _ => hmk, ?_,
        h.noSuccess, h.noErr, fun _ => rfl, fun _ => hb hi hmk, h.smSame⟩
      all_goals (intro hh; simp [setState] at hh)
  · -- indexManifest
    rw [hc]; simp only [stateFn]
    obtain ⟨sp, hidx, hsm⟩ := indexManifest_spec sem o m w c
    generalize indexManifest o m w c = res at sp hidx hsm
    have hpers : m ∈ w.st.manifests := h.persisted (by simp [hc])
    have hmk := h.marked (Or.inr (Or.inl hc))
    have hbody := h.bodyOK (Or.inl hc)
    refine ⟨sp.step.toStep0, sp.errTerminal, Or.inl hsm, fun _ _ => hsm, ?_, ?_, fun _ => sp.step.le.manifests _ hpers,
      fun hok _ => by rw [sp.okNext hok, hc]; rfl⟩
    · intro hok hterm; rw [sp.okNext hok] at hterm; cases hterm
    · intro hok _
      refine ⟨?_, hsm⟩
      rw [sp.okNext hok, sp.ctl]
      refine ⟨Or.inr (Or.inr (Or.inr (Or.inr (Or.inr rfl)))), h.vsSub, ?_, ?_, fun _ => sp.step.le.manifests _ hpers,
        fun _ l hl s hs => sp.step.le.scannedLayer _ (hmk l hl s hs), fun _ => hidx hok,
        h.noSuccess, h.noErr, fun _ => rfl, fun _ => hbody, hsm.trans h.smSame⟩
      · intro s hs; exact (h.vsCover s hs).imp id (fun hh => hsm ▸ hh)
      · intro hh; simp [setState] at hh
  · -- indexFinished
    rw [hc]; simp only [stateFn]
    have hpers : m ∈ w.st.manifests := h.persisted (by simp [hc])
    have hmk := h.marked (Or.inr (Or.inr hc))
    have sp := indexFinished_spec sem o m w c (fun s hs l hl => hmk l hl s (h.vsSub s hs)) (h.indexed hc)
    generalize indexFinished o m w c = res at sp
    have hfin : (res.1.st.report? m = some res.2.1.report ∧
        ∀ x, x ∈ res.1.st.scannedManifest ↔ (x.1 = m ∧ x.2 ∈ c.vs) ∨ x ∈ w.st.scannedManifest) → Finished m w c res :=
      fun ⟨h1, h2⟩ => ⟨hc, h1, sp.ctl ▸ rfl, h2⟩
    refine ⟨sp.step, fun _ => sp.next, ?_, ?_, ?_, ?_, fun _ => sp.step.le.manifests _ hpers, fun _ hnt => absurd sp.next hnt⟩
    · rcases sp.effect with h1 | h1
      · exact Or.inl (by rw [h1])
      · exact Or.inr (hfin h1)
    · intro hnc he; rw [sp.noCommit hnc he]
    · intro hok _; exact Or.inr (hfin (sp.okEffect hok))
    · intro _ hnt; exact absurd sp.next hnt

/-! ## The loop -/

theorem manifestScanned_congr {st st' : Store} (h : st'.scannedManifest = st.scannedManifest) (m : Manifest) (vs : List Scanner) :
    st'.manifestScanned m vs = st.manifestScanned m vs := by
  unfold Store.manifestScanned; rw [h]

theorem HeadCore.finishedReport {st : Store} {c : Ctl} (h : HeadCore sem cfg m st0 st c) (hc : c.cur = .indexFinished) :
    ({ c.report with success := true } : Report) = freshReport sem cfg m := by
  have h1 := h.noErr
  have h2 := h.stateOK (by simp [hc])
  have h3 := h.bodyOK (Or.inr hc)
  rw [hc] at h2
  cases hr : c.report with
  | mk su stt er bo =>
    rw [hr] at h1 h2 h3
    simp only at h1 h2 h3
    simp [freshReport, h1, h2, h3]

/-- What `runLoop` guarantees from a loop head, for an arbitrary oracle. -/
structure RunPost (sem : Sem) (o : Oracle) (cfg : Cfg) (m : Manifest) (st0 : Store) (w : W)
    (res : W × Ctl × Option ErrClass) : Prop where
  inv : Inv sem res.1.st
  le : Le w.st res.1.st
  frame : Frame m w.st res.1.st
  scans : ∀ x, x ∈ res.1.e.scans → x ∈ w.e.scans ∨ x ∉ w.st.scannedLayer
  failed : NoDeadline o → res.1.e.failed = true → res.2.2 ≠ none
  success : NoDeadline o → res.2.2 = none → res.2.1.report.success = true →
      res.1.st.manifestScanned m cfg.scanners = true ∧ res.1.st.report? m = some res.2.1.report
  good : NoCommitErr o → st0.manifestScanned m cfg.scanners = false →
      res.1.st.manifestScanned m cfg.scanners = true → res.1.st.report? m = some (freshReport sem cfg m)

/-- Exit right after a state function (no SetIndexReport), with an error. -/
theorem exit_after_fn {w w1 : W} {c c1 : Ctl} {next : CState} {r : Option ErrClass} {cl : ErrClass} {c' : Ctl}
    (hi : Inv sem w.st) (h : HeadCore sem cfg m st0 w.st c)
    (fp : FnPost sem o cfg m st0 w c (w1, c1, next, r))
    (hgood : NoCommitErr o → w1.st.scannedManifest = w.st.scannedManifest ∨ Finished m w c (w1, c1, next, r)) :
    RunPost sem o cfg m st0 w (w1, c', some cl) where
  inv := fp.step.inv hi
  le := fp.step.le
  frame := fp.step.frame
  scans := fp.step.scans
  failed := fun _ _ => by simp
  success := fun _ hh => by cases hh
  good := by
    intro hnc h0 h1
    rcases hgood hnc with hsm | hfin
    · rw [manifestScanned_congr (hsm.trans h.smSame)] at h1
      rw [h0] at h1; cases h1
    · obtain ⟨hc, hrep, hctl, _⟩ := hfin
      simp only at hrep hctl
      rw [hrep, hctl, h.finishedReport hc]

theorem runLoop_spec (sem : Sem) (o : Oracle) (cfg : Cfg) (m : Manifest) (st0 : Store) :
    ∀ (fuel : Nat) (w : W) (c : Ctl), Inv sem w.st → HeadCore sem cfg m st0 w.st c → w.e.failed = false →
      RunPost sem o cfg m st0 w (runLoop sem o cfg m fuel w c)
  | 0, w, c, hi, h, _ => by
    simp only [runLoop]
    refine ⟨hi, Le.refl _, Frame.refl _ _, fun _ hx => Or.inl hx, fun _ _ => by simp, (fun _ hh => by cases hh), ?_⟩
    intro _ h0 h1
    rw [manifestScanned_congr h.smSame] at h1
    rw [h0] at h1; cases h1
  | fuel + 1, w, c, hi, h, hnf => by
    have hcur : c.cur ≠ .terminal := by
      rcases h.curFn with hc | hc | hc | hc | hc | hc <;> simp [hc]
    simp only [runLoop, hcur, if_false]
    have fp := stateFn_post (o := o) w c hi h
    generalize stateFn sem o cfg m c.cur w c = res at fp
    obtain ⟨w1, c1, next, r⟩ := res
    have hi1 : Inv sem w1.st := fp.step.inv hi
    -- the store facts needed at an exit where scanned_manifest is as the function left it
    have goodOf : ∀ {w2 : W}, w2.st.scannedManifest = w1.st.scannedManifest →
        (w1.st.scannedManifest = w.st.scannedManifest ∨ (Finished m w c (w1, c1, next, r) ∧ w2.st.report? m = some c1.report)) →
        st0.manifestScanned m cfg.scanners = false → w2.st.manifestScanned m cfg.scanners = true →
        w2.st.report? m = some (freshReport sem cfg m) := by
      intro w2 hsm2 hor h0 h1
      rcases hor with hsm | ⟨hfin, hrep2⟩
      · rw [manifestScanned_congr ((hsm2.trans hsm).trans h.smSame)] at h1
        rw [h0] at h1; cases h1
      · obtain ⟨hc, _, hctl, _⟩ := hfin
        simp only at hctl
        rw [hrep2, hctl, h.finishedReport hc]
    -- everything after the state function: SetIndexReport, then leave or loop
    have afterPersist : ∀ (c1' : Ctl) (carry : Option ErrClass),
        (carry = none → r = none ∨ r = some .dl) →
        (r = none → c1' = c1) →
        (carry ≠ none → r ≠ none) →
        RunPost sem o cfg m st0 w
          (match persistAndAdvance o m w1 c1' next carry with
           | (w, c, r', true) => (w, c, r')
           | (w, c, _, false) => runLoop sem o cfg m fuel w c) := by
      intro c1' carry hcarry hc1 hcarry'
      have ps := persistAndAdvance_spec sem o m w1 c1' next carry
      generalize persistAndAdvance o m w1 c1' next carry = pres at ps
      obtain ⟨w2, c2, r2, left⟩ := pres
      rcases ps.cases with ⟨cl, hstep, hr2, hleft, hncst⟩ | ⟨hstep, hrep, hr2, hcase⟩
      · -- SetIndexReport failed
        simp only at hr2 hleft hncst hstep
        subst hr2; subst hleft
        simp only []
        refine ⟨hstep.inv hi1, fp.step.le.trans hstep.le, fp.step.frame.trans hstep.frame, ?_, fun _ _ => by simp, (fun _ hh => by cases hh), ?_⟩
        · intro x hx
          rcases hstep.scans x hx with hx1 | hx1
          · exact fp.step.scans x hx1
          · exact Or.inr fun hm => hx1 (fp.step.le.scannedLayer x hm)
        · intro hnc h0 h1
          have hst := hncst hnc
          refine goodOf (w2 := w2) (by rw [hst]) ?_ h0 h1
          rcases fp.sm with hsm | hfin
          · exact Or.inl hsm
          · exact Or.inr ⟨hfin, by rw [hst]; exact hfin.2.1⟩
      · simp only at hstep hrep hr2 hcase
        have hle2 := fp.step.le.trans hstep.le
        have hfr2 := fp.step.frame.trans hstep.frame
        have hsc2 : ∀ x, x ∈ w2.e.scans → x ∈ w.e.scans ∨ x ∉ w.st.scannedLayer := by
          intro x hx
          rcases hstep.scans x hx with hx1 | hx1
          · exact fp.step.scans x hx1
          · exact Or.inr fun hm => hx1 (fp.step.le.scannedLayer x hm)
        rcases hcase with ⟨hn, hc2, hleft⟩ | ⟨hn, hc2, hleft⟩
        · -- the loop is left
          subst hleft; subst hc2
          simp only []
          rw [hr2]
          refine ⟨hstep.inv hi1, hle2, hfr2, hsc2, ?_, ?_, ?_⟩
          · intro hnd hf
            intro hcn
            rcases hcarry hcn with hr | hr
            · -- nothing failed
              have := hstep.failedErr hf
              rcases this with h' | h'
              · have := fp.step.failedErr h'
                rcases this with h'' | h''
                · rw [hnf] at h''; cases h''
                · exact h'' hr
              · exact h' rfl
            · exact fp.step.noDl hnd hr
          · intro hnd hcn hsucc
            rcases hcarry hcn with hr | hr
            · have hc1' := hc1 hr
              subst hc1'
              rcases fp.okTerminal hr hn with ⟨hcm, hst, hsc, hrp⟩ | hfin
              · simp only at hst hsc hrp
                refine ⟨?_, hrep⟩
                rw [manifestScanned_congr hstep.sm, hst, ← h.initVs hcm]; exact hsc
              · obtain ⟨_, _, _, hmem⟩ := hfin
                simp only at hmem
                refine ⟨?_, hrep⟩
                rw [manifestScanned_congr hstep.sm]
                apply (Store.manifestScanned_iff _ _ _).2
                intro s hs
                apply (hmem (m, s)).2
                rcases h.vsCover s hs with hv | hv
                · exact Or.inl ⟨rfl, hv⟩
                · exact Or.inr hv
            · exact absurd hr (fp.step.noDl hnd)
          · intro hnc h0 h1
            by_cases hr : r = none
            · have hc1' := hc1 hr
              subst hc1'
              refine goodOf (w2 := w2) hstep.sm ?_ h0 h1
              rcases fp.sm with hsm | hfin
              · exact Or.inl hsm
              · exact Or.inr ⟨hfin, hrep ▸ rfl⟩
            · refine goodOf (w2 := w2) hstep.sm (Or.inl (fp.smErr hnc hr)) h0 h1
        · -- next state
          subst hc2
          by_cases hcn : carry = none
          · subst hcn
            simp only [Option.isSome_none] at hleft
            subst hleft
            simp only []
            rcases hcarry rfl with hr | hr
            · have hc1' := hc1 hr
              subst hc1'
              obtain ⟨hcore, hsm1⟩ := fp.okNext hr hn
              simp only at hcore hsm1
              have hnf2 : w2.e.failed = false := by
                cases hf : w2.e.failed with
                | false => rfl
                | true =>
                  rcases hstep.failedErr hf with h' | h'
                  · rcases fp.step.failedErr h' with h'' | h''
                    · rw [hnf] at h''; cases h''
                    · exact absurd hr h''
                  · exact absurd rfl h'
              have ih := runLoop_spec sem o cfg m st0 fuel w2 (setState c1' next) (hstep.inv hi1) (hcore.mono hstep.le hstep.sm) hnf2
              refine ⟨ih.inv, hle2.trans ih.le, hfr2.trans ih.frame, ?_, ih.failed, ih.success, ih.good⟩
              intro x hx
              rcases ih.scans x hx with hx1 | hx1
              · exact hsc2 x hx1
              · exact Or.inr fun hm => hx1 (hle2.scannedLayer x hm)
            · exact absurd (fp.errTerminal (by rw [hr]; simp)) hn
          · exact absurd (fp.errTerminal (hcarry' hcn)) hn
    cases r with
    | none =>
      simp only []
      by_cases hd : w1.e.dead = true
      · simp only [hd, if_true]
        exact exit_after_fn hi h fp (fun _ => fp.sm)
      · simp only [hd, Bool.false_eq_true, if_false]
        exact afterPersist c1 none (fun _ => Or.inl rfl) (fun _ => rfl) (fun hh => absurd rfl hh)
    | some cl =>
      cases cl with
      | dl =>
        simp only []
        exact afterPersist c1 none (fun _ => Or.inr rfl) (fun hh => by cases hh) (fun hh => absurd rfl hh)
      | can =>
        simp only []
        exact exit_after_fn hi h fp (fun hnc => Or.inl (fp.smErr hnc (by simp)))
      | gen =>
        simp only []
        exact afterPersist _ (some .gen) (fun hh => by cases hh) (fun hh => by cases hh) (fun _ => by simp)

/-! ## Index -/

theorem headCore_init (sem : Sem) (cfg : Cfg) (m : Manifest) (st : Store) :
    HeadCore sem cfg m st st { vs := cfg.scanners, report := {}, cur := .checkManifest } := by
  refine ⟨Or.inl rfl, fun _ h => h, fun _ h => Or.inl h, fun _ => rfl, fun h => absurd rfl h, ?_, ?_, rfl, rfl,
    fun h => absurd rfl h, ?_, rfl⟩
  all_goals (intro hh; simp at hh)

/-- What one `Libindex.Index` call guarantees, for an arbitrary oracle. -/
structure IndexPost (sem : Sem) (o : Oracle) (cfg : Cfg) (m : Manifest) (st : Store) (r : IndexResult) : Prop where
  inv : Inv sem r.st
  le : Le st r.st
  frame : Frame m st r.st
  scans : ∀ x, x ∈ r.e.scans → x ∉ st.scannedLayer
  failed : NoDeadline o → r.e.failed = true → r.err ≠ none
  success : NoDeadline o → r.err = none → ∀ rep, r.report = some rep → rep.success = true →
      r.st.manifestScanned m cfg.scanners = true ∧ r.st.report? m = some rep
  good : NoCommitErr o → st.manifestScanned m cfg.scanners = false →
      r.st.manifestScanned m cfg.scanners = true → r.st.report? m = some (freshReport sem cfg m)

theorem index_spec (sem : Sem) (o : Oracle) (cfg : Cfg) (m : Manifest) (st : Store) (dead0 : Bool) (hi : Inv sem st) :
    IndexPost sem o cfg m st (index sem o cfg m st dead0) := by
  unfold index
  cases dead0 with
  | true =>
    simp only [if_true]
    refine ⟨hi, Le.refl _, Frame.refl _ _, (fun _ hx => by cases hx), (fun _ hh => by cases hh), (fun _ hh => by cases hh), ?_⟩
    intro _ h0 h1; rw [h0] at h1; cases h1
  | false =>
    simp only [Bool.false_eq_true, if_false]
    have h := runLoop_spec sem o cfg m st fuel ⟨st, {}⟩ { vs := cfg.scanners, report := {}, cur := .checkManifest } hi
      (headCore_init sem cfg m st) rfl
    generalize runLoop sem o cfg m fuel ⟨st, {}⟩ { vs := cfg.scanners, report := {}, cur := .checkManifest } = res at h
    obtain ⟨w, c, r⟩ := res
    refine ⟨h.inv, h.le, h.frame, ?_, h.failed, ?_, h.good⟩
    · intro x hx
      rcases h.scans x hx with h' | h'
      · cases h'
      · exact h'
    · intro hnd he rep hrep hs
      simp only [Option.some.injEq] at hrep
      subst hrep
      exact h.success hnd he hs

end ClairModel.Indexer
