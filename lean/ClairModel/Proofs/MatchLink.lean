/-
  Helper lemmas for C05 that connect the parts: the fan-out machine of `Match`
  with the functional model `matchAll`; the stub store with the collector's
  "functional ids" hypothesis.
-/
import ClairModel.Proofs.Match
import ClairModel.Proofs.MatchFan
import ClairModel.Proofs.MatchStore
import ClairModel.Proofs.MatchSetup

namespace ClairModel.Match

/-- The controllers' results indexed by position in the matcher slice. -/
def outAt (c : Bool) (store : Store) (ms : List Matcher) (recs : List Record) (i : Nat) : Option MOut :=
  (ms[i]?).bind fun m => controllerMatch c store m recs

theorem runAll_as_range (c : Bool) (store : Store) (ms : List Matcher) (recs : List Record) :
    runAll c store ms recs = (List.range ms.length).map (outAt c store ms recs) := by
  apply List.ext_getElem?
  intro i
  simp only [runAll, List.getElem?_map]
  by_cases h : i < ms.length
  · simp [outAt, List.getElem?_eq_getElem h, List.getElem?_range h]
  · have h' : ms.length ≤ i := Nat.le_of_not_lt h
    simp [List.getElem?_eq_none h', List.getElem?_eq_none (l := List.range ms.length) (by simpa using h')]

/-- `Match`'s outcome in terms of positions: the report over the matchers that
    succeeded, the number of those that failed. -/
theorem matchAll_as_range (c : Bool) (store : Store) (ms : List Matcher) (recs : List Record) :
    matchAll c store ms recs =
      (collectOuts ((List.range ms.length).filterMap (outAt c store ms recs)),
       ((List.range ms.length).filter fun i => (outAt c store ms recs i).isNone).length) := by
  simp only [matchAll, runAll_as_range, List.filterMap_map, List.filter_map, List.length_map]
  rfl

/-- From the machine's partition of the matchers into collected / failed to
    the lists the functional model folds and counts. -/
theorem partition_link {n : Nat} {collected errs : List Nat} (outs : Nat → Option MOut)
    (hp : (collected ++ errs).Perm (List.range n))
    (hagree : ∀ i, i < n → (i ∈ errs ↔ outs i = none)) :
    (collected.filterMap outs).Perm ((List.range n).filterMap outs) ∧
      errs.length = ((List.range n).filter fun i => (outs i).isNone).length := by
  have hnd : (collected ++ errs).Nodup := hp.nodup_iff.2 List.nodup_range
  have hlt : ∀ i, i ∈ collected ++ errs → i < n := fun i hi => List.mem_range.1 (hp.mem_iff.1 hi)
  have herr : ∀ i ∈ errs, outs i = none := fun i hi =>
    (hagree i (hlt i (List.mem_append_right _ hi))).1 hi
  have hcol : ∀ i ∈ collected, outs i ≠ none := by
    intro i hi hn
    have hie : i ∈ errs := (hagree i (hlt i (List.mem_append_left _ hi))).2 hn
    exact (List.nodup_append.1 hnd).2.2 i hi i hie rfl
  constructor
  · have h1 := hp.filterMap outs
    rw [List.filterMap_append] at h1
    have : errs.filterMap outs = [] := by
      rw [List.filterMap_eq_nil_iff]
      exact herr
    rw [this, List.append_nil] at h1
    exact h1
  · have h1 := (hp.filter fun i => (outs i).isNone).length_eq
    rw [List.filter_append, List.length_append] at h1
    have hc : collected.filter (fun i => (outs i).isNone) = [] := by
      rw [List.filter_eq_nil_iff]
      intro i hi
      cases ho : outs i with
      | none => exact absurd ho (hcol i hi)
      | some _ => simp
    have he : errs.filter (fun i => (outs i).isNone) = errs := by
      rw [List.filter_eq_self]
      intro i hi
      simp [herr i hi]
    rw [hc, he] at h1
    simpa using h1

/-! ### everything a local matcher returns comes out of the store -/

theorem getL_mem_events {out : MOut} {k : Nat} {v : Vuln} (h : v ∈ getL k out) : (k, v) ∈ events out := by
  unfold getL at h
  cases hf : find k out with
  | none => simp [hf] at h
  | some vs =>
    simp only [hf, Option.getD_some] at h
    exact mem_events.2 ⟨vs, MatchStore.find_mem hf, h⟩

/-- A matcher that is not remote returns only vulnerabilities the store
    answered (under some key). -/
theorem controller_from_store {c : Bool} {store : Store} {m : Matcher} {recs : List Record} {out : MOut}
    (hk : m.kind ≠ .remote) (h : controllerMatch c store m recs = some out) {k : Nat} {x : Vuln}
    (hx : (k, x) ∈ events out) :
    ∃ vulns k', store c m.query (dbFilter m).1 (interested m recs) = some vulns ∧ (k', x) ∈ events vulns := by
  unfold controllerMatch at h
  by_cases he : (interested m recs).isEmpty = true
  · simp only [he, if_true, Option.some.injEq] at h
    subst h
    simp [events] at hx
  · simp only [he] at h
    cases hkind : m.kind with
    | remote => exact absurd hkind hk
    | plain =>
      simp only [hkind, dbFilter] at h ⊢
      cases hs : store c m.query false (interested m recs) with
      | none => simp [hs] at h
      | some vulns =>
        simp only [hs, Bool.false_eq_true, if_false, filterAll] at h
        rcases (filterFrom_some h k x).1 hx with h0 | ⟨r, _, hp, hg, _⟩
        · simp [events] at h0
        · exact ⟨vulns, k, rfl, getL_mem_events (hp ▸ hg)⟩
    | versionFilter a =>
      simp only [hkind, dbFilter] at h ⊢
      cases hs : store c m.query true (interested m recs) with
      | none => simp [hs] at h
      | some vulns =>
        cases a with
        | true =>
          simp only [hs, Bool.false_eq_true, if_false, if_true, Option.some.injEq] at h
          subst h
          exact ⟨vulns, k, rfl, hx⟩
        | false =>
          simp only [hs, Bool.false_eq_true, if_false, filterAll] at h
          rcases (filterFrom_some h k x).1 hx with h0 | ⟨r, _, hp, hg, _⟩
          · simp [events] at h0
          · exact ⟨vulns, k, rfl, getL_mem_events (hp ▸ hg)⟩

/-- With the stub store over a table whose ids are functional, and no remote
    matcher, everything the collector can receive has functional ids: the
    hypothesis of `collect_perm` is discharged. -/
theorem stub_events_functional (rows : List MatchStore.Row) (hfun : MatchStore.RowsFunctional rows)
    (c : Bool) (ms : List Matcher) (recs : List Record) (hloc : ∀ m ∈ ms, m.kind ≠ .remote) :
    IdFunctional (((runAll c (MatchStore.storeGet rows) ms recs).filterMap id).flatMap events) := by
  have key : ∀ e ∈ ((runAll c (MatchStore.storeGet rows) ms recs).filterMap id).flatMap events,
      ∃ row ∈ rows, row.vuln = e.2 := by
    rintro ⟨k, v⟩ he
    obtain ⟨out, ho, hv⟩ := mem_flatMap_events.1 he
    obtain ⟨m, hm, hc⟩ := mem_oks.1 ho
    obtain ⟨vulns, k', hs, hv'⟩ := controller_from_store (hloc m hm) hc hv
    have := MatchStore.storeGet_some rows c m.query (dbFilter m).1 (interested m recs) vulns hs
    subst this
    exact MatchStore.answer_from_rows rows _ _ _ k' v hv'
  intro e₁ h₁ e₂ h₂ hid
  obtain ⟨r₁, hr₁, e1⟩ := key e₁ h₁
  obtain ⟨r₂, hr₂, e2⟩ := key e₂ h₂
  rw [← e1, ← e2]
  exact hfun r₁ hr₁ r₂ hr₂ (by rw [e1, e2]; exact hid)

end ClairModel.Match
