/-
  C05 — well-formedness of the vulnerability report the collector builds
  (vulnerabilityreport.go) and of the enrichment map: the collector loop body
  keeps the report well formed, so every report `Match`/`EnrichedMatch` hands
  out is.  Core Lean only.
-/
import ClairModel.Proofs.Match

namespace ClairModel.Match

/-- keys of an association list standing for a Go map -/
def keys {β : Type} (m : List (Nat × β)) : List Nat := m.map (·.1)

/-! ### general facts about `find` / `upd` -/

theorem keys_cons {β : Type} (kv : Nat × β) (t : List (Nat × β)) : keys (kv :: t) = kv.1 :: keys t := rfl

theorem mem_keys_of_mem {β : Type} {m : List (Nat × β)} {kv : Nat × β} (h : kv ∈ m) : kv.1 ∈ keys m :=
  List.mem_map.2 ⟨kv, h, rfl⟩

theorem mem_keys_upd {β : Type} (k k' : Nat) (f : Option β → β) (m : List (Nat × β)) :
    k' ∈ keys (upd k f m) ↔ k' = k ∨ k' ∈ keys m := by
  induction m with
  | nil => simp [keys, upd]
  | cons kv t ih =>
    obtain ⟨k₀, v₀⟩ := kv
    by_cases h0 : k₀ = k
    · subst h0
      simp [keys, upd]
    · have e : upd k f ((k₀, v₀) :: t) = (k₀, v₀) :: upd k f t := by simp [upd, h0]
      rw [e, keys_cons, keys_cons, List.mem_cons, List.mem_cons, ih]
      constructor
      · rintro (h | h | h)
        · exact Or.inr (Or.inl h)
        · exact Or.inl h
        · exact Or.inr (Or.inr h)
      · rintro (h | h | h)
        · exact Or.inr (Or.inl h)
        · exact Or.inl h
        · exact Or.inr (Or.inr h)

theorem keys_upd_nodup {β : Type} (k : Nat) (f : Option β → β) (m : List (Nat × β))
    (h : (keys m).Nodup) : (keys (upd k f m)).Nodup := by
  induction m with
  | nil => simp [keys, upd]
  | cons kv t ih =>
    obtain ⟨k₀, v₀⟩ := kv
    rw [keys_cons, List.nodup_cons] at h
    by_cases h0 : k₀ = k
    · subst h0
      have e : upd k₀ f ((k₀, v₀) :: t) = (k₀, f (some v₀)) :: t := by simp [upd]
      rw [e, keys_cons, List.nodup_cons]
      exact h
    · have e : upd k f ((k₀, v₀) :: t) = (k₀, v₀) :: upd k f t := by simp [upd, h0]
      rw [e, keys_cons, List.nodup_cons]
      refine ⟨?_, ih h.2⟩
      rw [mem_keys_upd]
      rintro (h1 | h1)
      · exact h0 h1
      · exact h.1 h1

/-- what `find` returns is an entry -/
theorem find_some_mem {β : Type} {k : Nat} {m : List (Nat × β)} {v : β} (h : find k m = some v) :
    (k, v) ∈ m := by
  induction m with
  | nil => simp [find] at h
  | cons kv t ih =>
    obtain ⟨k₀, v₀⟩ := kv
    by_cases h0 : k₀ = k
    · subst h0
      simp only [find, if_true, Option.some.injEq] at h
      subst h
      exact List.mem_cons_self
    · simp only [find, h0, if_false] at h
      exact List.mem_cons_of_mem _ (ih h)

theorem find_isSome_iff {β : Type} (k : Nat) (m : List (Nat × β)) :
    (find k m).isSome = true ↔ k ∈ keys m := by
  induction m with
  | nil => simp [find, keys]
  | cons kv t ih =>
    obtain ⟨k₀, v₀⟩ := kv
    by_cases h0 : k₀ = k
    · subst h0; simp [find, keys]
    · have h1 : ¬ k = k₀ := fun e => h0 e.symm
      rw [keys_cons, List.mem_cons]
      simp only [find, h0, if_false, ih, h1, false_or]

/-- in a map, an entry is what `find` returns -/
theorem mem_find {β : Type} {m : List (Nat × β)} (hn : (keys m).Nodup) {kv : Nat × β} (h : kv ∈ m) :
    find kv.1 m = some kv.2 := by
  induction m with
  | nil => cases h
  | cons kv₀ t ih =>
    obtain ⟨k₀, v₀⟩ := kv₀
    rw [keys_cons, List.nodup_cons] at hn
    rcases List.mem_cons.1 h with rfl | ht
    · simp [find]
    · have hk : kv.1 ∈ keys t := mem_keys_of_mem ht
      have h0 : ¬ k₀ = kv.1 := fun e => hn.1 (e ▸ hk)
      simp only [find, h0, if_false]
      exact ih hn.2 ht

theorem mem_iff_find {β : Type} {m : List (Nat × β)} (hn : (keys m).Nodup) (kv : Nat × β) :
    kv ∈ m ↔ find kv.1 m = some kv.2 :=
  ⟨mem_find hn, fun h => find_some_mem h⟩

/-- an entry of the updated map is an old entry or the updated one -/
theorem mem_upd {β : Type} {k : Nat} {f : Option β → β} {m : List (Nat × β)} {kv : Nat × β}
    (h : kv ∈ upd k f m) : kv ∈ m ∨ kv = (k, f (find k m)) := by
  induction m with
  | nil =>
    simp only [upd, List.mem_singleton] at h
    exact Or.inr (by simpa [find] using h)
  | cons kv₀ t ih =>
    obtain ⟨k₀, v₀⟩ := kv₀
    by_cases h0 : k₀ = k
    · subst h0
      simp only [upd, if_true, List.mem_cons] at h
      rcases h with h | h
      · exact Or.inr (by simpa [find] using h)
      · exact Or.inl (List.mem_cons_of_mem _ h)
    · simp only [upd, h0, if_false, List.mem_cons] at h
      rcases h with h | h
      · exact Or.inl (h ▸ List.mem_cons_self)
      · rcases ih h with h1 | h1
        · exact Or.inl (List.mem_cons_of_mem _ h1)
        · exact Or.inr (by simpa [find, h0] using h1)

/-- the updated entry is there -/
theorem self_mem_upd {β : Type} (k : Nat) (f : Option β → β) (m : List (Nat × β)) :
    (k, f (find k m)) ∈ upd k f m := by
  induction m with
  | nil => simp [upd, find]
  | cons kv₀ t ih =>
    obtain ⟨k₀, v₀⟩ := kv₀
    by_cases h0 : k₀ = k
    · subst h0; simp [upd, find]
    · simp only [upd, find, h0, if_false]
      exact List.mem_cons_of_mem _ ih

/-- an old entry survives unless it is the one being updated -/
theorem mem_upd_of_mem {β : Type} (k : Nat) (f : Option β → β) {m : List (Nat × β)} {kv : Nat × β}
    (h : kv ∈ m) : kv ∈ upd k f m ∨ (kv.1 = k ∧ find k m = some kv.2) := by
  induction m with
  | nil => cases h
  | cons kv₀ t ih =>
    obtain ⟨k₀, v₀⟩ := kv₀
    by_cases h0 : k₀ = k
    · subst h0
      rcases List.mem_cons.1 h with rfl | ht
      · exact Or.inr ⟨rfl, by simp [find]⟩
      · exact Or.inl (by simp only [upd, if_true]; exact List.mem_cons_of_mem _ ht)
    · simp only [upd, find, h0, if_false]
      rcases List.mem_cons.1 h with rfl | ht
      · exact Or.inl List.mem_cons_self
      · rcases ih ht with h1 | h1
        · exact Or.inl (List.mem_cons_of_mem _ h1)
        · exact Or.inr h1

/-- in a map: the entries after an update, exactly -/
theorem mem_upd_iff {β : Type} {k : Nat} {f : Option β → β} {m : List (Nat × β)} (hn : (keys m).Nodup)
    (kv : Nat × β) :
    kv ∈ upd k f m ↔ (kv.1 ≠ k ∧ kv ∈ m) ∨ kv = (k, f (find k m)) := by
  constructor
  · intro h
    by_cases hk : kv.1 = k
    · right
      have h1 := mem_find (keys_upd_nodup k f m hn) h
      rw [find_upd, if_pos hk, Option.some.injEq] at h1
      exact Prod.ext hk h1.symm
    · rcases mem_upd h with h1 | h1
      · exact Or.inl ⟨hk, h1⟩
      · exact Or.inr h1
  · rintro (⟨hk, h⟩ | rfl)
    · rcases mem_upd_of_mem k f h with h1 | h1
      · exact h1
      · exact absurd h1.1 hk
    · exact self_mem_upd k f m

/-! ### the vulnerability report -/

/-- Well-formedness of a vulnerability report (vulnerabilityreport.go): both tables are maps; the
    table key of a vulnerability is its ID; every id listed under a package resolves in the table
    (no dangling id); every table entry is listed under some package (no orphan); a package key
    exists only with a non-empty list. -/
structure WellFormed (r : Report) : Prop where
  vulnKeysNodup : (keys r.vulns).Nodup
  pkgKeysNodup : (keys r.pkgVulns).Nodup
  keyIsId : ∀ kv ∈ r.vulns, kv.2.id = kv.1
  resolves : ∀ kv ∈ r.pkgVulns, ∀ id ∈ kv.2, ∃ v, find id r.vulns = some v ∧ v.id = id
  listed : ∀ kv ∈ r.vulns, ∃ pl ∈ r.pkgVulns, kv.1 ∈ pl.2
  nonEmpty : ∀ kv ∈ r.pkgVulns, kv.2 ≠ []

theorem wellFormed_empty : WellFormed Report.empty := by
  refine ⟨?_, ?_, ?_, ?_, ?_, ?_⟩ <;> simp [Report.empty, keys]

/-- the invariant of the collector loop: one execution of the loop body keeps the report well formed -/
theorem wellFormed_step (r : Report) (e : Nat × Vuln) (h : WellFormed r) : WellFormed (collectStep r e) := by
  obtain ⟨p, v⟩ := e
  -- the id resolves after the step whenever it did before, or is the new one
  have hres : ∀ id, (id = v.id ∨ ∃ w, find id r.vulns = some w ∧ w.id = id) →
      ∃ w, find id (upd v.id (fun _ => v) r.vulns) = some w ∧ w.id = id := by
    intro id hid
    rw [find_upd]
    by_cases hk : id = v.id
    · exact ⟨v, by simp [hk], hk.symm⟩
    · rcases hid with hid | hid
      · exact absurd hid hk
      · simpa [hk] using hid
  refine ⟨?_, ?_, ?_, ?_, ?_, ?_⟩
  · exact keys_upd_nodup _ _ _ h.vulnKeysNodup
  · exact keys_upd_nodup _ _ _ h.pkgKeysNodup
  · intro kv hkv
    rcases mem_upd hkv with h1 | h1
    · exact h.keyIsId kv h1
    · rw [h1]
  · intro kv hkv id hid
    apply hres
    rcases mem_upd hkv with h1 | h1
    · exact Or.inr (h.resolves kv h1 id hid)
    · rw [h1] at hid
      rcases List.mem_append.1 hid with h2 | h2
      · cases hf : find p r.pkgVulns with
        | none => rw [hf] at h2; cases h2
        | some old =>
          rw [hf] at h2
          exact Or.inr (h.resolves (p, old) (find_some_mem hf) id h2)
      · exact Or.inl (List.mem_singleton.1 h2)
  · intro kv hkv
    have hnew : (p, (find p r.pkgVulns).getD [] ++ [v.id]) ∈ (collectStep r (p, v)).pkgVulns :=
      self_mem_upd p (fun o => o.getD [] ++ [v.id]) r.pkgVulns
    rcases mem_upd hkv with h1 | h1
    · obtain ⟨pl, hpl, hin⟩ := h.listed kv h1
      rcases mem_upd_of_mem p (fun o => o.getD [] ++ [v.id]) hpl with h2 | ⟨_, h2⟩
      · exact ⟨pl, h2, hin⟩
      · refine ⟨_, hnew, ?_⟩
        rw [h2]
        exact List.mem_append.2 (Or.inl hin)
    · refine ⟨_, hnew, ?_⟩
      rw [h1]
      exact List.mem_append.2 (Or.inr (List.mem_singleton.2 rfl))
  · intro kv hkv
    rcases mem_upd hkv with h1 | h1
    · exact h.nonEmpty kv h1
    · rw [h1]
      simp

theorem wellFormed_collectFrom (r : Report) (evs : List (Nat × Vuln)) (h : WellFormed r) :
    WellFormed (collectFrom r evs) := by
  induction evs generalizing r with
  | nil => exact h
  | cons e evs ih => exact ih (collectStep r e) (wellFormed_step r e h)

theorem wellFormed_collect (evs : List (Nat × Vuln)) : WellFormed (collect evs) :=
  wellFormed_collectFrom _ evs wellFormed_empty

theorem wellFormed_collectOuts (outs : List MOut) : WellFormed (collectOuts outs) :=
  wellFormed_collect _

/-! ### the enrichment map -/

/-- Well-formedness of the enrichment map built from worker entries `(kind, messages)`:
    it is a map, every key is the kind of an entry, no key has an empty message list
    (given that no entry is empty, which `enrichEntries` guarantees). -/
structure EnrichWF (entries : List (Nat × List Nat)) (em : List (Nat × List Nat)) : Prop where
  keysNodup : (keys em).Nodup
  keyIsKind : ∀ kv ∈ em, ∃ e ∈ entries, e.1 = kv.1
  nonEmpty : ∀ kv ∈ em, kv.2 ≠ []
  everyKind : ∀ e ∈ entries, (find e.1 em).isSome = true

theorem enrichEntries_nonempty (es : List Enricher) (r : Report) : ∀ e ∈ enrichEntries es r, e.2 ≠ [] := by
  intro e he
  unfold enrichEntries at he
  obtain ⟨en, _, hen⟩ := List.mem_filterMap.1 he
  cases hr : en.enrich r with
  | none => simp [hr] at hen
  | some ms =>
    rw [hr] at hen
    cases hms : ms.isEmpty with
    | true => simp [hms] at hen
    | false =>
      simp only [hms, Bool.false_eq_true, if_false, Option.some.injEq] at hen
      subst hen
      intro h0
      have h1 : ms = [] := h0
      rw [h1] at hms
      cases hms

theorem enrichEntries_kind (es : List Enricher) (r : Report) :
    ∀ e ∈ enrichEntries es r, ∃ en ∈ es, en.kind = e.1 := by
  intro e he
  unfold enrichEntries at he
  obtain ⟨en, hmem, hen⟩ := List.mem_filterMap.1 he
  cases hr : en.enrich r with
  | none => simp [hr] at hen
  | some ms =>
    rw [hr] at hen
    cases hms : ms.isEmpty with
    | true => simp [hms] at hen
    | false =>
      simp only [hms, Bool.false_eq_true, if_false, Option.some.injEq] at hen
      subst hen
      exact ⟨en, hmem, rfl⟩

/-- the fold of the enrichment collector from any accumulator -/
theorem enrichFold_wf (entries : List (Nat × List Nat)) (hne : ∀ e ∈ entries, e.2 ≠ [])
    (acc : List (Nat × List Nat)) (hn : (keys acc).Nodup) (hacc : ∀ kv ∈ acc, kv.2 ≠ []) :
    let em := entries.foldl (fun em e => appendAt e.1 e.2 em) acc
    (keys em).Nodup ∧ (∀ kv ∈ em, kv ∈ acc ∨ ∃ e ∈ entries, e.1 = kv.1) ∧ (∀ kv ∈ em, kv.2 ≠ []) ∧
      (∀ k, (k ∈ keys acc ∨ ∃ e ∈ entries, e.1 = k) → (find k em).isSome = true) := by
  induction entries generalizing acc with
  | nil =>
    refine ⟨hn, fun kv h => Or.inl h, hacc, ?_⟩
    rintro k (h | ⟨e, he, _⟩)
    · exact (find_isSome_iff k acc).2 h
    · cases he
  | cons e es ih =>
    simp only [List.foldl_cons]
    have hn' : (keys (appendAt e.1 e.2 acc)).Nodup := keys_upd_nodup _ _ _ hn
    have hacc' : ∀ kv ∈ appendAt e.1 e.2 acc, kv.2 ≠ [] := by
      intro kv hkv
      rcases mem_upd hkv with h1 | h1
      · exact hacc kv h1
      · rw [h1]
        intro h0
        exact hne e List.mem_cons_self (List.append_eq_nil_iff.1 h0).2
    obtain ⟨i1, i2, i3, i4⟩ := ih (fun x hx => hne x (List.mem_cons_of_mem _ hx)) _ hn' hacc'
    refine ⟨i1, ?_, i3, ?_⟩
    · intro kv hkv
      rcases i2 kv hkv with h1 | ⟨x, hx, hxk⟩
      · rcases mem_upd h1 with h2 | h2
        · exact Or.inl h2
        · exact Or.inr ⟨e, List.mem_cons_self, by rw [h2]⟩
      · exact Or.inr ⟨x, List.mem_cons_of_mem _ hx, hxk⟩
    · intro k hk
      apply i4
      rcases hk with hk | ⟨x, hx, hxk⟩
      · exact Or.inl ((mem_keys_upd _ _ _ _).2 (Or.inr hk))
      · rcases List.mem_cons.1 hx with rfl | hx
        · exact Or.inl ((mem_keys_upd _ _ _ _).2 (Or.inl hxk.symm))
        · exact Or.inr ⟨x, hx, hxk⟩

theorem enrichWF_collect (entries : List (Nat × List Nat)) (hne : ∀ e ∈ entries, e.2 ≠ []) :
    EnrichWF entries (enrichCollect entries) := by
  obtain ⟨i1, i2, i3, i4⟩ := enrichFold_wf entries hne [] (by simp [keys]) (by simp)
  refine ⟨i1, ?_, i3, ?_⟩
  · intro kv hkv
    rcases i2 kv hkv with h | h
    · cases h
    · exact h
  · intro e he
    exact i4 e.1 (Or.inr ⟨e, he, rfl⟩)

end ClairModel.Match
